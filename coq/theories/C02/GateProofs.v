(* C02 -- the per-connection attachment allow-list (ReadDecision.v gate_ functions): at every point of every trace the
   counter of a key equals the number of outstanding rev messages that opened it; so an attachment is served
   exactly while a rev message of a revision the user may read, carrying that attachment, awaits its reply. *)
From SG Require Import Base.Prelude C02.Auth C02.AuthProofs C02.ReadDecision C02.ReadProofs.
Open Scope N_scope.

Fixpoint occ (k : N) (l : list N) : nat :=
  match l with
  | [] => 0%nat
  | x :: r => ((if N.eqb x k then 1 else 0) + occ k r)%nat
  end.

Lemma occ_app : forall k a b, occ k (a ++ b) = (occ k a + occ k b)%nat.
Proof. intros k a b. induction a as [|x a IH]; cbn; [reflexivity | rewrite IH; lia]. Qed.

Lemma occ_pos_In : forall k l, (0 < occ k l)%nat <-> In k l.
Proof.
  intros k l. induction l as [|x r IH]; cbn.
  - split; [lia | tauto].
  - destruct (x =? k) eqn:E.
    + apply N.eqb_eq in E. subst. split; [auto | lia].
    + apply N.eqb_neq in E. rewrite <- IH. split; [intros H; right; lia | intros [H|H]; [congruence | lia]].
Qed.

Definition gate_wf (g : gate) : Prop := NoDup (map fst g).

Lemma count_absent : forall g k, ~ In k (map fst g) -> gate_count g k = 0%nat.
Proof.
  intros g k. induction g as [|[k1 n] r IH]; cbn; [reflexivity|].
  intros H. destruct (k1 =? k) eqn:E.
  - apply N.eqb_eq in E. subst. tauto.
  - apply IH. tauto.
Qed.

Lemma incr_keys : forall g k x, In x (map fst (gate_incr g k)) <-> In x (map fst g) \/ x = k.
Proof.
  intros g k x. induction g as [|[k1 n] r IH]; cbn [gate_incr map fst In].
  - split; [intros [H|[]]; auto | intros [[]|H]; auto].
  - destruct (k1 =? k) eqn:E; cbn [map fst In].
    + apply N.eqb_eq in E. subst. split; [tauto | intros [H|H]; [tauto | left; congruence]].
    + rewrite IH. tauto.
Qed.

Lemma incr_wf : forall g k, gate_wf g -> gate_wf (gate_incr g k).
Proof.
  unfold gate_wf. intros g k. induction g as [|[k1 n] r IH]; cbn [gate_incr map fst]; intros H.
  - constructor; [intros [] | constructor].
  - inversion H as [|? ? Hn Hr]; subst. destruct (k1 =? k) eqn:E; cbn [map fst].
    + constructor; assumption.
    + constructor; [|apply IH; exact Hr]. intros Hin. apply incr_keys in Hin.
      destruct Hin as [Hin|Hin]; [tauto|]. subst. rewrite N.eqb_refl in E. discriminate.
Qed.

Lemma decr_keys : forall g k x, In x (map fst (gate_decr g k)) -> In x (map fst g).
Proof.
  intros g k x. induction g as [|[k1 n] r IH]; cbn [gate_decr map fst In]; [tauto|].
  destruct (k1 =? k) eqn:E.
  - destruct n as [|[|m]]; cbn [map fst In]; tauto.
  - cbn [map fst In]. intros [H|H]; [tauto | right; apply IH; exact H].
Qed.

Lemma decr_wf : forall g k, gate_wf g -> gate_wf (gate_decr g k).
Proof.
  unfold gate_wf. intros g k. induction g as [|[k1 n] r IH]; cbn [gate_decr map fst]; intros H; [constructor|].
  inversion H as [|? ? Hn Hr]; subst. destruct (k1 =? k) eqn:E.
  - destruct n as [|[|m]]; cbn [map fst]; [exact Hr | exact Hr | constructor; assumption].
  - cbn [map fst]. constructor; [|apply IH; exact Hr]. intros Hin. apply decr_keys in Hin. tauto.
Qed.

Lemma count_incr : forall g k' k, gate_count (gate_incr g k') k = (gate_count g k + (if N.eqb k' k then 1 else 0))%nat.
Proof.
  intros g k' k. induction g as [|[k1 n] r IH]; cbn [gate_incr gate_count].
  - destruct (k' =? k); lia.
  - destruct (k1 =? k') eqn:E1; cbn [gate_count].
    + apply N.eqb_eq in E1. subst k1. destruct (k' =? k); lia.
    + destruct (k1 =? k) eqn:E2.
      * apply N.eqb_eq in E2. subst k1. rewrite N.eqb_sym in E1. rewrite E1. lia.
      * exact IH.
Qed.

Lemma count_decr : forall g k' k, gate_wf g ->
  gate_count (gate_decr g k') k = (gate_count g k - (if N.eqb k' k then 1 else 0))%nat.
Proof.
  unfold gate_wf. intros g k' k. induction g as [|[k1 n] r IH]; cbn [gate_decr gate_count map fst]; intros Hwf.
  - lia.
  - inversion Hwf as [|? ? Hn Hr]; subst. destruct (k1 =? k') eqn:E1.
    + apply N.eqb_eq in E1. subst k1. destruct (k' =? k) eqn:E2.
      * apply N.eqb_eq in E2. subst k'.
        destruct n as [|[|m]]; cbn [gate_count]; rewrite ?N.eqb_refl; try lia;
          rewrite (count_absent r k Hn); lia.
      * destruct n as [|[|m]]; cbn [gate_count]; rewrite ?E2; lia.
    + cbn [gate_count]. destruct (k1 =? k) eqn:E2.
      * apply N.eqb_eq in E2. subst k1. rewrite N.eqb_sym in E1. rewrite E1. lia.
      * apply IH. exact Hr.
Qed.

Lemma add_wf : forall ks g, gate_wf g -> gate_wf (gate_add g ks).
Proof. unfold gate_add. induction ks as [|k r IH]; intros g H; cbn; [exact H | apply IH, incr_wf, H]. Qed.

Lemma remove_wf : forall ks g, gate_wf g -> gate_wf (gate_remove g ks).
Proof. unfold gate_remove. induction ks as [|k r IH]; intros g H; cbn; [exact H | apply IH, decr_wf, H]. Qed.

Lemma count_add : forall ks g k, gate_count (gate_add g ks) k = (gate_count g k + occ k ks)%nat.
Proof.
  unfold gate_add. induction ks as [|x r IH]; intros g k; cbn [fold_left occ]; [lia|].
  rewrite IH, count_incr. lia.
Qed.

Lemma count_remove : forall ks g k, gate_wf g -> gate_count (gate_remove g ks) k = (gate_count g k - occ k ks)%nat.
Proof.
  unfold gate_remove. induction ks as [|x r IH]; intros g k H; cbn [fold_left occ]; [lia|].
  rewrite IH by (apply decr_wf; exact H). rewrite count_decr by exact H. lia.
Qed.

(* ---- the connection invariant ---- *)
Section Conn.
  Variable named : bool.
  Variable u : user.

  Definition open_keys (out : list revision) : list N := flat_map (opened named u) out.

  Definition conn_inv (c : conn) : Prop :=
    gate_wf (c_gate c) /\ forall k, gate_count (c_gate c) k = occ k (open_keys (c_out c)).

  Lemma open_keys_app : forall a b, open_keys (a ++ b) = open_keys a ++ open_keys b.
  Proof. intros. unfold open_keys. apply flat_map_app. Qed.

  Lemma occ_remove_nth : forall i out rv k, nth_error out i = Some rv ->
    occ k (open_keys (remove_nth i out)) = (occ k (open_keys out) - occ k (opened named u rv))%nat.
  Proof.
    induction i as [|i IH]; intros [|x out] rv k H; cbn in H; try discriminate.
    - inversion H; subst. cbn [remove_nth open_keys flat_map]. rewrite occ_app. fold (open_keys out). lia.
    - cbn [remove_nth]. unfold open_keys in *. cbn [flat_map]. rewrite !occ_app, (IH out rv k H).
      assert (occ k (opened named u rv) <= occ k (flat_map (opened named u) out))%nat; [|lia].
      clear IH. revert i H. induction out as [|y out IHo]; intros [|i] H; cbn in H; try discriminate.
      + inversion H; subst. cbn [flat_map]. rewrite occ_app. lia.
      + cbn [flat_map]. rewrite occ_app. specialize (IHo i H). lia.
  Qed.

  Lemma conn_inv_init : conn_inv conn0.
  Proof. split; [constructor | intros k; reflexivity]. Qed.

  Lemma conn_inv_step : forall c op, conn_inv c -> conn_inv (fst (gate_step named u c op)).
  Proof.
    intros c op [Hwf Hc]. unfold conn_inv. destruct op as [rv|i|k]; cbn [gate_step].
    - cbn [fst c_gate c_out]. split; [apply add_wf; exact Hwf|]. intros k.
      rewrite count_add, Hc, open_keys_app, occ_app. cbn [open_keys flat_map]. rewrite app_nil_r. reflexivity.
    - destruct (nth_error (c_out c) i) as [rv|] eqn:E; cbn [fst c_gate c_out].
      + split; [apply remove_wf; exact Hwf|]. intros k.
        rewrite count_remove by exact Hwf. rewrite Hc. symmetry. apply occ_remove_nth. exact E.
      + split; assumption.
    - cbn [fst]. split; assumption.
  Qed.

  Lemma conn_inv_run : forall ops c, conn_inv c -> conn_inv (fst (gate_run named u c ops)).
  Proof.
    induction ops as [|op r IH]; intros c H; cbn [gate_run]; [exact H|].
    pose proof (conn_inv_step c op H) as Hs. destruct (gate_step named u c op) as [c' o]. cbn [fst] in Hs.
    specialize (IH c' Hs). destruct (gate_run named u c' r) as [c'' os]. exact IH.
  Qed.

  (* an attachment is served exactly while some outstanding rev message opened it *)
  Lemma served_iff_outstanding : forall c k, conn_inv c ->
    (gate_serves (c_gate c) k = true <-> exists rv, In rv (c_out c) /\ In k (opened named u rv)).
  Proof.
    intros c k [_ Hc]. unfold gate_serves. rewrite Nat.ltb_lt, Hc, occ_pos_In. unfold open_keys.
    rewrite in_flat_map. tauto.
  Qed.

  (* what a rev message opens: attachments of a revision whose real content the user is entitled to *)
  Lemma opened_visible : forall rv k, In k (opened named u rv) ->
    can_see_any named u (rv_chans rv) = true /\ In k (att_keys (rv_atts rv)) /\ rv_removed rv = false /\ rv_body rv <> None.
  Proof.
    intros rv k H. unfold opened in H.
    destruct (decide named u rv (mkReq true false)) as [b a d| | | | |] eqn:E; try destruct H.
    apply decide_body_visible in E. destruct E as (Hs & Hb & Ha & Hr). subst a.
    repeat split; auto. congruence.
  Qed.
End Conn.

(* outcome of the k-th operation of a trace *)
Lemma gate_run_app : forall named u a b c,
  gate_run named u c (a ++ b) =
    let '(c1, o1) := gate_run named u c a in let '(c2, o2) := gate_run named u c1 b in (c2, o1 ++ o2).
Proof.
  intros named u a. induction a as [|op a IH]; intros b c; cbn [gate_run app].
  - destruct (gate_run named u c b). reflexivity.
  - destruct (gate_step named u c op) as [c' o]. rewrite IH.
    destruct (gate_run named u c' a) as [c1 o1]. destruct (gate_run named u c1 b) as [c2 o2]. reflexivity.
Qed.

(* the gate theorem over whole traces: whenever, after ANY prefix of events on a fresh connection, a
   getAttachment is served, a rev message of a revision visible to the user and carrying that attachment is
   outstanding at that moment *)
Theorem attachment_gate_trace : forall named u pre k,
  let c := fst (gate_run named u conn0 pre) in
  snd (gate_step named u c (PGet k)) = Some true ->
  exists rv, In rv (c_out c) /\ In k (att_keys (rv_atts rv)) /\
             can_see_any named u (rv_chans rv) = true /\ rv_removed rv = false /\ rv_body rv <> None.
Proof.
  intros named u pre k c H. cbn [gate_step snd] in H. assert (Hs : gate_serves (c_gate c) k = true) by congruence.
  assert (Hinv : conn_inv named u c) by (apply conn_inv_run, conn_inv_init).
  apply (served_iff_outstanding named u c k Hinv) in Hs. destruct Hs as [rv [Hin Hk]].
  apply opened_visible in Hk. destruct Hk as (H1 & H2 & H3 & H4). exists rv. exact (conj Hin (conj H2 (conj H1 (conj H3 H4)))).
Qed.

(* and conversely: while such a message is outstanding the attachment is served *)
Theorem attachment_gate_complete : forall named u pre k rv,
  let c := fst (gate_run named u conn0 pre) in
  In rv (c_out c) -> In k (opened named u rv) -> snd (gate_step named u c (PGet k)) = Some true.
Proof.
  intros named u pre k rv c Hin Hk. cbn [gate_step snd]. f_equal.
  assert (Hinv : conn_inv named u c) by (apply conn_inv_run, conn_inv_init).
  apply (served_iff_outstanding named u c k Hinv). exists rv. tauto.
Qed.

(* outstanding messages are messages that were sent in the prefix *)
Lemma remove_nth_In : forall A i (l : list A) x, In x (remove_nth i l) -> In x l.
Proof.
  induction i as [|i IH]; intros [|y l] x H; cbn in H; try tauto.
  - right. exact H.
  - destruct H as [H|H]; [left; exact H | right; apply IH; exact H].
Qed.

Lemma outstanding_were_sent : forall named u pre c0 rv,
  In rv (c_out (fst (gate_run named u c0 pre))) -> In rv (c_out c0) \/ In (PSend rv) pre.
Proof.
  intros named u pre. induction pre as [|op r IH]; intros c0 rv H; cbn [gate_run] in H.
  - left. exact H.
  - destruct (gate_step named u c0 op) as [c' o] eqn:E.
    specialize (IH c' rv). destruct (gate_run named u c' r) as [c'' os]. cbn [fst] in *.
    destruct (IH H) as [Hin|Hin]; [|right; right; exact Hin].
    destruct op as [rv'|i|k]; cbn [gate_step] in E.
    + inversion E; subst. cbn [c_out] in Hin. apply in_app_iff in Hin.
      destruct Hin as [Hin|[Hin|[]]]; [left; exact Hin | right; left; congruence].
    + destruct (nth_error (c_out c0) i); inversion E; subst; [|left; exact Hin].
      cbn [c_out] in Hin. left. eapply remove_nth_In. exact Hin.
    + inversion E; subst. left. exact Hin.
Qed.
