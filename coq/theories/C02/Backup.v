(* C02 -- two pieces of the WRITE path that decide what a later read is authorised against / shown.
   Both are faithful to the unchanged code and both break the property when a document has a losing branch
   (C02_Refuted.v); they are tied to the code by the CBackup / CStamp correspondence cases.

   db/crud.go documentUpdateFunc:   oldChannels := doc.getCurrentChannels()            (channels of the WINNER)
                                    ...
                                    col.backupAncestorRevs(ctx, doc, newDoc.RevID, oldChannels)
     the body backed up is the parent of the new revision; the channel set stored with the backup (and used to
     authorise every later read of that parent revision once it has left the revision cache) is the winner's,
     whether or not the parent is the winner.                                           [backup_chans]

   db/crud.go storeOldBodyInRevTreeAndUpdateCurrent:   doc.SetAttachments(newDoc.Attachments())
     the document's attachment list (the one shown with, and served for, the CURRENT revision) becomes the new
     revision's list, whether or not the new revision wins.                              [stamped_atts] *)
From SG Require Import Base.Prelude C02.Auth C02.ReadDecision.
Open Scope N_scope.

Definition backup_chans (winner_chans parent_chans : list N) (parent_is_winner : bool) : list N := winner_chans.

(* the repair: a parent that is not the winner keeps its own channels *)
Definition backup_chans_repaired (winner_chans parent_chans : list N) (parent_is_winner : bool) : list N :=
  if parent_is_winner then winner_chans else parent_chans.

(* the superseded revision as a later (cold) load hands it to the decision *)
Definition reloaded (stamped : list N) (b : content) : revision := mkRev stamped false false (Some b) [].

Definition stamped_atts (winner_atts new_atts : list N) (new_wins : bool) : list N := new_atts.
Definition stamped_atts_repaired (winner_atts new_atts : list N) (new_wins : bool) : list N :=
  if new_wins then new_atts else winner_atts.

Definition subset (a b : list N) : bool := forallb (fun x => mem x b) a.
Definition set_eqb (a b : list N) : bool := subset a b && subset b a.
