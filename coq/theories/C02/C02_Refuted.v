(* C02 -- statements the faithful model of the UNCHANGED code violates (genuine defects, reproduced on the real
   code by the harness: monitor no_disclosure, signatures
     superseded-nonwinning-revision-authorised-by-winner-channels
     nonwinning-revision-attachments-stamped-on-current-revision), and the same statements proved for the
   repaired functions.  Not part of the property obligations. *)
From SG Require Import Base.Prelude C02.Auth C02.AuthProofs C02.ReadDecision C02.ReadProofs C02.Backup.
Open Scope N_scope.

(* reading a superseded revision from its backup is sound w.r.t. the channels ASSIGNED to that revision *)
Definition superseded_read_sound (stamp : list N -> list N -> bool -> list N) : Prop :=
  forall named u winner_chans parent_chans parent_is_winner body q b a d,
    (parent_is_winner = true -> parent_chans = winner_chans) ->
    decide named u (reloaded (stamp winner_chans parent_chans parent_is_winner) body) q = Body b a d ->
    can_see_any named u parent_chans = true.

(* user holding channel 2 only; winner in channel 2; the parent (a losing leaf) in channel 3 with body [7] *)
Theorem C02_superseded_read_sound_refuted : ~ superseded_read_sound backup_chans.
Proof.
  intros H.
  specialize (H true (mkUser (mkRole [2] []) []) [2] [3] false [7] (mkReq true false) [7] [] false).
  assert (E : can_see_any true (mkUser (mkRole [2] []) []) [3] = false) by (vm_compute; reflexivity).
  rewrite H in E; [discriminate | discriminate | vm_compute; reflexivity].
Qed.
Print Assumptions C02_superseded_read_sound_refuted.

Theorem C02_superseded_read_sound_repaired : superseded_read_sound backup_chans_repaired.
Proof.
  intros named u wc pc piw body q b a d Hw H. apply decide_body_visible in H. destruct H as [Hs _].
  cbn [reloaded rv_chans] in Hs. unfold backup_chans_repaired in Hs. destruct piw; [rewrite Hw; auto | exact Hs].
Qed.
Print Assumptions C02_superseded_read_sound_repaired.

(* the attachment list of the current revision is the winner's *)
Definition current_atts_are_winners (stamp : list N -> list N -> bool -> list N) : Prop :=
  forall winner_atts new_atts new_wins, (new_wins = true -> winner_atts = new_atts) ->
    stamp winner_atts new_atts new_wins = winner_atts.

Theorem C02_current_atts_refuted : ~ current_atts_are_winners stamped_atts.
Proof. intros H. specialize (H [] [5] false). discriminate H. discriminate. Qed.
Print Assumptions C02_current_atts_refuted.

Theorem C02_current_atts_repaired : current_atts_are_winners stamped_atts_repaired.
Proof. intros wa na nw H. unfold stamped_atts_repaired. destruct nw; [symmetry; auto | reflexivity]. Qed.
Print Assumptions C02_current_atts_repaired.

(* ================= request kinds (Kinds.v) ================= *)
From SG Require Import C02.Kinds C02.KindsProofs.

(* --- GENUINE DEFECT (monitor delta_source_authorised, signature delta-source-revision-not-authorised):
   db/crud.go GetDelta authorises the TARGET revision only; the delta is computed against a source revision the
   reader need not be authorised for, and names the properties of the source that the target dropped.
   So non-interference of ALL kinds, without the side condition [delta_source_ok], is false ... *)
Definition all_kinds_noninterferent (dl : bool -> user -> option doc -> rid -> rid -> delta_out) : Prop :=
  forall named u d d' from to, doc_sim named u d d' -> faithful d -> faithful d' ->
    dl named u (Some d) from to = dl named u (Some d') from to.

(* reader holds channel 2; revision 1-1 is in channel 3 only (body property 7, resp. 9), its child 2-2 in channel 2 *)
Theorem C02_delta_noninterference_refuted : ~ all_kinds_noninterferent delta.
Proof.
  intros H.
  pose (u := mkUser (mkRole [2] []) []).
  pose (mk := fun b => mkDoc [mkNode (1, 1) None false (mkRev [3] false false (Some [b]) []) [3];
                              mkNode (2, 2) (Some (1, 1)) true (mkRev [2] false false (Some [8]) []) [2]] (2, 2)).
  specialize (H true u (mk 7) (mk 9) (1, 1) (2, 2)).
  assert (S : doc_sim true u (mk 7) (mk 9)).
  { split; [reflexivity|]. constructor; [|constructor; [|constructor]].
    - repeat split; try reflexivity; try (intros; discriminate).
    - repeat split; try reflexivity; try (intros; discriminate). }
  assert (F : forall b, faithful (mk b)).
  { intros b n [E|[E|[]]]; subst n; reflexivity. }
  specialize (H S (F 7) (F 9)). vm_compute in H. discriminate.
Qed.
Print Assumptions C02_delta_noninterference_refuted.

(* ... and holds for the repaired GetDelta, which authorises the source like the target *)
Theorem C02_delta_noninterference_repaired : all_kinds_noninterferent delta_repaired.
Proof. intros named u d d' from to S F F'. apply delta_repaired_noninterference; assumption. Qed.
Print Assumptions C02_delta_noninterference_repaired.

(* --- GENUINE DEFECT (monitor prove_attachment_gate, signature legacy-attachment-proof-without-visible-revision):
   db/blip_handler.go handleProveAttachment does not test the allow-list counter; a digest that is not allow-listed
   is looked up under the collection-wide legacy attachment key.  A proof over the bytes of a legacy attachment is
   handed to whoever names its digest, on a connection on which nothing was ever sent. *)
Definition prove_needs_visible_revision (pv : bool -> gate -> list N -> N -> bool) : Prop :=
  forall named u pre v3 legacy k,
    let c := fst (gate_run named u conn0 pre) in
    pv v3 (c_gate c) legacy k = true ->
    exists rv, In rv (c_out c) /\ In k (att_keys (rv_atts rv)) /\ can_see_any named u (rv_chans rv) = true.

Theorem C02_prove_needs_visible_revision_refuted : ~ prove_needs_visible_revision prove_serves.
Proof.
  intros H. destruct (H true (mkUser (mkRole [] []) []) [] true [5] 5 eq_refl) as (rv & [] & _).
Qed.
Print Assumptions C02_prove_needs_visible_revision_refuted.

Theorem C02_prove_needs_visible_revision_repaired : prove_needs_visible_revision prove_serves_repaired.
Proof.
  intros named u pre v3 legacy k c H.
  destruct (prove_repaired_gate named u pre v3 legacy k H) as (rv & A & B & C & _). exists rv. auto.
Qed.
Print Assumptions C02_prove_needs_visible_revision_repaired.

(* --- BY DESIGN, not a defect (evidence counter shape_disclosed_by_point_requests): a request that NAMES a document
   tells whether it exists and hands out revision ids of its tree, whoever asks -- GET answers 403 instead of 404,
   _revs_diff / the changes reply list possible ancestors, proposeChanges answers 409 (+ the current revision id),
   open_revs=all lists a stub per leaf.  Only listings hide existence ([C02_listing_hides_existence]). *)
Definition point_requests_hide_existence : Prop :=
  forall named u k d n, faithful d -> cur_node d = Some n -> authorised named u n = false ->
    respond named u k (Some d) = respond named u k None.

Theorem C02_point_requests_hide_existence_refuted : ~ point_requests_hide_existence.
Proof.
  intros H.
  pose (d := mkDoc [mkNode (1, 1) None true (mkRev [3] false false (Some [7]) []) [3]] (1, 1)).
  specialize (H true (mkUser (mkRole [2] []) []) (KPropose (1, 2) None true) d
                (mkNode (1, 1) None true (mkRev [3] false false (Some [7]) []) [3])).
  assert (F : faithful d) by (intros n [E|[]]; subst n; reflexivity).
  specialize (H F eq_refl eq_refl). vm_compute in H. discriminate.
Qed.
Print Assumptions C02_point_requests_hide_existence_refuted.

(* --- the first known finding, seen from the kinds: when the revision cache reports channels other than those
   assigned to a revision (a backup stamped by [backup_chans] with the winner's channels), content of a revision
   the reader is not authorised for is handed out; [faithful] is exactly what the repaired stamp restores *)
Definition content_needs_no_faithfulness : Prop :=
  forall named u k d a r b at' dl h, In a (answers (respond named u k (Some d))) -> a = AFull r b at' dl h ->
    exists n, In n (d_nodes d) /\ n_id n = r /\ authorised named u n = true.

Theorem C02_content_without_faithful_cache_refuted : ~ content_needs_no_faithfulness.
Proof.
  intros H.
  pose (u := mkUser (mkRole [2] []) []).
  (* the losing revision 2-1 (assigned channel 3) was backed up with the winner's channel 2 *)
  pose (n := mkNode (2, 1) None false (reloaded (backup_chans [2] [3] false) [7]) [3]).
  pose (d := mkDoc [n; mkNode (2, 9) None true (mkRev [2] false false (Some [8]) []) [2]] (2, 9)).
  destruct (H true u (KGet (Some (2, 1)) false) d (AFull (2, 1) [7] [] false []) (2, 1) [7] [] false [])
    as (m & Hin & Hid & Hau); [left; reflexivity | reflexivity |].
  destruct Hin as [E|[E|[]]]; subst m; vm_compute in Hid, Hau; discriminate.
Qed.
Print Assumptions C02_content_without_faithful_cache_refuted.

Theorem C02_backup_repaired_is_faithful : forall winner parent piw b,
  (piw = true -> parent = winner) ->
  rv_chans (reloaded (backup_chans_repaired winner parent piw) b) = parent.
Proof. intros winner parent piw b H. cbn. unfold backup_chans_repaired. destruct piw; [symmetry; auto | reflexivity]. Qed.
Print Assumptions C02_backup_repaired_is_faithful.
