(* C02 -- statements the faithful model of the UNCHANGED code violates (genuine defects, reproduced on the real
   code by the harness: monitor no_disclosure, signatures
     superseded-nonwinning-revision-authorised-by-winner-channels
     nonwinning-revision-attachments-stamped-on-current-revision), and the same statements proved for the
   repaired functions.  Not part of the property obligations. *)
From SG Require Import Base.Prelude C02.Auth C02.AuthProofs C02.ReadDecision C02.ReadProofs C02.Backup.
Open Scope N_scope.

(* reading a superseded revision from its backup is sound w.r.t. the channels ASSIGNED to that revision *)
Definition superseded_read_sound (stamp : list N -> list N -> bool -> list N) : Prop :=
  forall named u winner_chans parent_chans parent_is_winner body q b a d,
    (parent_is_winner = true -> parent_chans = winner_chans) ->
    decide named u (reloaded (stamp winner_chans parent_chans parent_is_winner) body) q = Body b a d ->
    can_see_any named u parent_chans = true.

(* user holding channel 2 only; winner in channel 2; the parent (a losing leaf) in channel 3 with body [7] *)
Theorem C02_superseded_read_sound_refuted : ~ superseded_read_sound backup_chans.
Proof.
  intros H.
  specialize (H true (mkUser (mkRole [2] []) []) [2] [3] false [7] (mkReq true false) [7] [] false).
  assert (E : can_see_any true (mkUser (mkRole [2] []) []) [3] = false) by (vm_compute; reflexivity).
  rewrite H in E; [discriminate | discriminate | vm_compute; reflexivity].
Qed.
Print Assumptions C02_superseded_read_sound_refuted.

Theorem C02_superseded_read_sound_repaired : superseded_read_sound backup_chans_repaired.
Proof.
  intros named u wc pc piw body q b a d Hw H. apply decide_body_visible in H. destruct H as [Hs _].
  cbn [reloaded rv_chans] in Hs. unfold backup_chans_repaired in Hs. destruct piw; [rewrite Hw; auto | exact Hs].
Qed.
Print Assumptions C02_superseded_read_sound_repaired.

(* the attachment list of the current revision is the winner's *)
Definition current_atts_are_winners (stamp : list N -> list N -> bool -> list N) : Prop :=
  forall winner_atts new_atts new_wins, (new_wins = true -> winner_atts = new_atts) ->
    stamp winner_atts new_atts new_wins = winner_atts.

Theorem C02_current_atts_refuted : ~ current_atts_are_winners stamped_atts.
Proof. intros H. specialize (H [] [5] false). discriminate H. discriminate. Qed.
Print Assumptions C02_current_atts_refuted.

Theorem C02_current_atts_repaired : current_atts_are_winners stamped_atts_repaired.
Proof. intros wa na nw H. unfold stamped_atts_repaired. destruct nw; [symmetry; auto | reflexivity]. Qed.
Print Assumptions C02_current_atts_repaired.
