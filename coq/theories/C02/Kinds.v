(* C02 -- request KINDS: every way a non-administrator can ask the gateway about ONE document, the decision taken
   for it and what goes on the wire (the disclosed projection).

   A document is what the request finds: the revision tree (ids, parents, leaves) and, per revision, what the
   revision cache hands out for it ([revision] of ReadDecision.v).  [n_assigned] is a ghost: the channels the
   sync function assigned to the revision when it was written (the decision never reads it; [faithful] says the
   cache reports exactly those).

   Code modelled (as it is now in /repo):
     rest/doc_api.go handleGetDoc                      GET doc, ?rev=, ?revs=true (history), open_revs=all / [list]   [get_answer, open_revs]
     rest/bulk_api.go handleBulkGet                    one entry = one GET by revision (+ history)                    [get_answer]
     rest/attachment_api handleGetAttachment           GET doc/att [?rev=]                                            [att_answer]
     rest/bulk_api.go handleAllDocs                    the document's row                                             [KAllDocs -> alldocs_row]
     db/changes.go addDocToChangeEntry                 doc member of the document's feed entry (include_docs)          [KChangesDoc]
     db/blip_sync_context.go sendRevision              rev / norev message of a pull                                  [KBlipRev]
     db/blip_connected_client.go handleGetRev          getRev                                                          [KGetRev]
     db/crud.go RevDiff                                POST _revs_diff; reply to a BLIP changes message (rev-tree
                                                       protocol): NO authorisation                                    [revs_diff]
     db/crud.go CheckProposedRev                       reply to a BLIP proposeChanges message: NO authorisation       [propose]
     db/crud.go GetDelta                               rev message with deltaSrc: authorises the TARGET revision only [delta]
     db/crud.go authorizeUserForChannels               the redacted stub: id, rev, history, deleted, {} / {"_removed":true} [answer_of]

   Revision ids are (generation, digest) pairs of numbers. *)
From SG Require Import Base.Prelude C02.Auth C02.ReadDecision.
Open Scope N_scope.

Definition rid := (N * N)%type.
Definition rid_eqb (a b : rid) : bool := (fst a =? fst b) && (snd a =? snd b).
Definition rmem (r : rid) (l : list rid) : bool := existsb (rid_eqb r) l.
Definition gen (r : rid) : N := fst r.

Record node := mkNode {
  n_id : rid;
  n_parent : option rid;
  n_leaf : bool;
  n_rev : revision;          (* what the revision cache hands out for this revision *)
  n_assigned : list N        (* ghost: channels assigned to it at write time *)
}.

Record doc := mkDoc { d_nodes : list node; d_cur : rid }.

Definition find_node (d : doc) (r : rid) : option node := find (fun n => rid_eqb (n_id n) r) (d_nodes d).
Definition in_tree (d : doc) (r : rid) : bool := match find_node d r with Some _ => true | None => false end.
Definition leaves (d : doc) : list rid := map n_id (filter n_leaf (d_nodes d)).

(* revision.History: the revision and its ancestors *)
Fixpoint hist_from (fuel : nat) (d : doc) (r : rid) : list rid :=
  match fuel with
  | O => []
  | S f => r :: match find_node d r with
                | Some n => match n_parent n with Some p => hist_from f d p | None => [] end
                | None => []
                end
  end.
Definition history (d : doc) (r : rid) : list rid := hist_from (length (d_nodes d)) d r.

(* ---------------- one revision on the wire ---------------- *)
Inductive answer :=
| AFull (r : rid) (b : content) (a : attachments) (deleted : bool) (hist : list rid)
| AStub (r : rid) (deleted : bool) (hist : list rid)   (* body {} (deleted) or {"_removed":true}; never anything else *)
| AErr (code : N).                                     (* 403, 404, 410 = 404 "deleted" *)

Definition answer_of (r : rid) (o : outcome) (h : list rid) : answer :=
  match o with
  | Body b a dl => AFull r b a dl h
  | RedactedRemoved => AStub r false h
  | RedactedDeleted => AStub r true h
  | Forbidden => AErr 403
  | Missing => AErr 404
  | Deleted => AErr 410
  end.

Definition is_some {A} (o : option A) : bool := match o with Some _ => true | None => false end.

(* getRev + documentRevisionForRequest (+ _revisions when asked for): GET doc, a _bulk_get entry, an open_revs entry,
   the doc member of a changes entry, a pulled revision *)
Definition get_answer (named : bool) (u : user) (od : option doc) (rev : option rid) (revs : bool) : answer :=
  match od with
  | None => AErr 404
  | Some d =>
      let r := match rev with Some r => r | None => d_cur d end in
      match find_node d r with
      | None => AErr 404
      | Some n => answer_of r (decide named u (n_rev n) (mkReq (is_some rev) false)) (if revs then history d r else [])
      end
  end.

(* open_revs: every error of an entry becomes {"missing": rev}; open_revs=all loads the document WITHOUT any
   authorisation (404 when it does not exist) and asks for every leaf *)
Definition open_entry (named : bool) (u : user) (od : option doc) (revs : bool) (r : rid) : rid * option answer :=
  match get_answer named u od (Some r) revs with
  | AErr _ => (r, None)
  | a => (r, Some a)
  end.

Definition open_revs (named : bool) (u : user) (od : option doc) (spec : option (list rid)) (revs : bool)
  : option (list (rid * option answer)) :=
  match spec, od with
  | None, None => None
  | None, Some d => Some (map (open_entry named u od revs) (leaves d))
  | Some l, _ => Some (map (open_entry named u od revs) l)
  end.

(* GET doc/attachment: the revision is fetched like GET doc, then the named attachment of ITS attachment list *)
Inductive att_out := AttData (digest : N) | AttErr (code : N).
Definition att_answer (named : bool) (u : user) (od : option doc) (rev : option rid) (name : N) : att_out :=
  match get_answer named u od rev false with
  | AFull _ _ a _ _ => match find (fun e => fst e =? name) a with Some e => AttData (snd e) | None => AttErr 404 end
  | AStub _ _ _ => AttErr 404
  | AErr c => AttErr c
  end.

(* ---------------- write negotiation: no authorisation at all ---------------- *)
(* RevDiff: which of the asked revisions are unknown, and which known leaves (or their parents) could be ancestors *)
Definition possible_for (d : doc) (asked : list rid) (r : rid) : list rid :=
  if 1 <? gen r then
    flat_map (fun l =>
      if negb (n_leaf l) || rmem (n_id l) asked then []
      else if (gen (n_id l) <? gen r) && (gen r - 100 <=? gen (n_id l)) then [n_id l]
      else if gen (n_id l) =? gen r then match n_parent l with Some p => [p] | None => [] end
      else []) (d_nodes d)
  else [].

Definition revs_diff (od : option doc) (asked : list rid) : list rid * list rid :=
  match od with
  | None => (asked, [])
  | Some d =>
      let missing := filter (fun r => negb (in_tree d r)) asked in
      (missing, flat_map (possible_for d asked) missing)
  end.

(* reply to one entry of a BLIP changes message: None = "0" (known), Some l = wanted, with possible ancestors *)
Definition changes_reply (od : option doc) (r : rid) : option (list rid) :=
  match revs_diff od [r] with
  | ([], _) => None
  | (_, p) => Some p
  end.

(* CheckProposedRev; on the wire 0 (OK, also for a new document), 304, 409 (+ the current revision id when the
   client asked for it: conflictIncludesRev) *)
Definition cur_deleted (d : doc) : bool :=
  match find_node d (d_cur d) with Some n => rv_deleted (n_rev n) | None => false end.

Definition propose (od : option doc) (r : rid) (parent : option rid) (include_rev : bool) : N * option rid :=
  match od with
  | None => (0, None)
  | Some d =>
      if rid_eqb (d_cur d) r then (304, None)
      else if match parent with Some p => rid_eqb (d_cur d) p | None => cur_deleted d end then (0, None)
      else (409, if include_rev then Some (d_cur d) else None)
  end.

(* ---------------- delta ---------------- *)
(* a delta between two bodies: the properties that disappear (they come from the SOURCE) and those that appear *)
Definition cmem (x : N) (l : content) : bool := existsb (N.eqb x) l.
Definition diff (from to : content) : content * content :=
  (filter (fun x => negb (cmem x to)) from, filter (fun x => negb (cmem x from)) to).

Inductive delta_out :=
| DNil                      (* no delta: the caller falls back to sendRevision of the target *)
| DErr                      (* the source (or target) cannot be loaded: falls back *)
| DMissing                  (* removal entry: falls back *)
| DSrcTombstone             (* falls back *)
| DRedacted (deleted : bool)     (* the redacted stub of the TARGET is sent as a normal rev message *)
| DTombstone                (* delta {} with the deleted flag *)
| DDelta (gone added : content) (src_atts tgt_atts : attachments).

(* GetDelta(from, to) without a cached delta: the target is authorised, the source never is *)
Definition delta (named : bool) (u : user) (od : option doc) (from to : rid) : delta_out :=
  match od with
  | None => DErr
  | Some d =>
      match find_node d from with
      | None => DErr
      | Some f =>
          if rv_removed (n_rev f) then DMissing
          else if rv_deleted (n_rev f) then DSrcTombstone
          else match rv_body (n_rev f) with
               | None => DNil
               | Some fb =>
                   match find_node d to with
                   | None => DErr
                   | Some t =>
                       if negb (can_see_any named u (rv_chans (n_rev t))) then DRedacted (rv_deleted (n_rev t))
                       else if rv_removed (n_rev t) then DMissing
                       else if rv_deleted (n_rev t) then DTombstone
                       else match rv_body (n_rev t) with
                            | None => DErr
                            | Some tb => DDelta (fst (diff fb tb)) (snd (diff fb tb)) (rv_atts (n_rev f)) (rv_atts (n_rev t))
                            end
                   end
               end
      end
  end.

(* the repair (patch proposed with the finding): after the removal / tombstone tests the source is authorised like
   the target; an unauthorised source yields no delta and the caller falls back to the full revision *)
Definition delta_repaired (named : bool) (u : user) (od : option doc) (from to : rid) : delta_out :=
  match od with
  | None => DErr
  | Some d =>
      match find_node d from with
      | None => DErr
      | Some f =>
          if rv_removed (n_rev f) then DMissing
          else if rv_deleted (n_rev f) then DSrcTombstone
          else if can_see_any named u (rv_chans (n_rev f)) then delta named u od from to else DNil
      end
  end.

(* ---------------- the kinds ---------------- *)
Inductive kind :=
| KGet (rev : option rid) (revs : bool)                 (* GET doc / _bulk_get entry / replicator2 *)
| KOpenRevs (spec : option (list rid)) (revs : bool)    (* None = all *)
| KAtt (rev : option rid) (name : N)
| KAllDocs (nwe : bool) (f : adflags)
| KChangesDoc (revs : bool)                             (* include_docs member, by the current revision id *)
| KBlipRev (r : rid)                                    (* rev / norev of a pull (AErr = norev); replacement revisions
                                                           (sendReplacementRevs, a client opt-in) are not modelled *)
| KGetRev
| KRevsDiff (asked : list rid)
| KChangesReply (r : rid)
| KPropose (r : rid) (parent : option rid) (include_rev : bool)
| KDelta (from to : rid).

Inductive resp :=
| ROne (a : answer)
| RMany (l : option (list (rid * option answer)))
| RAtt (a : att_out)
| RRow (r : row)
| RDoc (a : option answer)          (* None: the entry carries no doc *)
| RDiff (missing possible : list rid)
| RReply (x : option (list rid))
| RStatus (s : N) (cur : option rid)
| RDelta (x : delta_out).

Definition cur_node (d : doc) : option node := find_node d (d_cur d).

Definition respond (named : bool) (u : user) (k : kind) (od : option doc) : resp :=
  match k with
  | KGet rev revs => ROne (get_answer named u od rev revs)
  | KOpenRevs spec revs => RMany (open_revs named u od spec revs)
  | KAtt rev name => RAtt (att_answer named u od rev name)
  | KAllDocs nwe f =>
      RRow (match od with
            | None => if ad_keys f then RowErr 404 else NoRow
            | Some d => match cur_node d with
                        | None => if ad_keys f then RowErr 404 else NoRow
                        | Some n => if negb (ad_keys f) && rv_deleted (n_rev n) then NoRow
                                    else alldocs_row named nwe u (n_rev n) f
                        end
            end)
  | KChangesDoc revs =>
      RDoc (match od with
            | None => None
            | Some d => match get_answer named u od (Some (d_cur d)) revs with AErr _ => None | a => Some a end
            end)
  | KBlipRev r => ROne (get_answer named u od (Some r) true)
  | KGetRev => ROne (get_answer named u od None false)
  | KRevsDiff asked => let '(m, p) := revs_diff od asked in RDiff m p
  | KChangesReply r => RReply (changes_reply od r)
  | KPropose r parent incl => let '(s, c) := propose od r parent incl in RStatus s c
  | KDelta from to => RDelta (delta named u od from to)
  end.

(* the kinds that enumerate documents (the others name the document they ask about) *)
Definition listing (k : kind) : bool :=
  match k with
  | KAllDocs _ f => negb (ad_keys f)
  | _ => false
  end.

(* ---------------- authorised, once ---------------- *)
(* the reader is authorised for a revision iff it holds one of the channels ASSIGNED to it (or "*") *)
Definition authorised (named : bool) (u : user) (n : node) : bool := can_see_any named u (n_assigned n).

(* the revision cache reports, for every revision, the channels assigned to it (this is where the two known
   write-path findings of Backup.v enter: a backup stamped with the winner's channels is not faithful) *)
Definition faithful (d : doc) : Prop := forall n, In n (d_nodes d) -> rv_chans (n_rev n) = n_assigned n.

(* two documents the reader must not be able to tell apart: same tree, same revision metadata, and the same
   contents (body, attachment names and digests) on every revision the reader is authorised for *)
Definition rev_sim (vis : bool) (a b : revision) : Prop :=
  rv_chans a = rv_chans b /\ rv_deleted a = rv_deleted b /\ rv_removed a = rv_removed b /\
  (rv_body a = None <-> rv_body b = None) /\ (vis = true -> a = b).

Definition node_sim (named : bool) (u : user) (m n : node) : Prop :=
  n_id m = n_id n /\ n_parent m = n_parent n /\ n_leaf m = n_leaf n /\ n_assigned m = n_assigned n /\
  rev_sim (authorised named u m) (n_rev m) (n_rev n).

Definition doc_sim (named : bool) (u : user) (d d' : doc) : Prop :=
  d_cur d = d_cur d' /\ Forall2 (node_sim named u) (d_nodes d) (d_nodes d').

Definition odoc_sim (named : bool) (u : user) (od od' : option doc) : Prop :=
  match od, od' with
  | None, None => True
  | Some d, Some d' => doc_sim named u d d' /\ faithful d /\ faithful d'
  | _, _ => False
  end.

(* a delta request whose source the reader is authorised for *)
Definition delta_source_ok (named : bool) (u : user) (k : kind) (od : option doc) : Prop :=
  match k, od with
  | KDelta from _, Some d => match find_node d from with Some f => authorised named u f = true | None => True end
  | _, _ => True
  end.

(* ---------------- what an answer says about a revision ---------------- *)
Definition answers (r : resp) : list answer :=
  match r with
  | ROne a => [a]
  | RMany (Some l) => flat_map (fun e => match snd e with Some a => [a] | None => [] end) l
  | RDoc (Some a) => [a]
  | _ => []
  end.

Definition answer_rid (a : answer) : option rid :=
  match a with AFull r _ _ _ _ => Some r | AStub r _ _ => Some r | AErr _ => None end.

Definition carries_content (a : answer) : bool :=
  match a with AFull _ _ _ _ _ => true | _ => false end.

(* ---------------- proveAttachment ---------------- *)
(* db/blip_handler.go handleProveAttachment: the allow-list is looked up under the BARE digest and the counter is
   not tested.  A hit (only possible with the version-2 protocol, whose allow-list keys are bare digests) proves
   the allow-listed attachment; a miss yields the zero entry -- version 0, no document id -- for which
   MakeAttachmentKey addresses the LEGACY attachment document _sync:att:<digest>, shared by the whole collection:
   whoever knows the digest of a legacy attachment gets a proof computed over its bytes.
   [legacy]: digests for which such a legacy attachment document exists. *)
Definition prove_serves (v3 : bool) (g : gate) (legacy : list N) (k : N) : bool :=
  (negb v3 && gate_serves g k) || cmem k legacy.

(* the repair (patch proposed with the finding): a miss, or a counter that is not positive, is answered 404 *)
Definition prove_serves_repaired (v3 : bool) (g : gate) (legacy : list N) (k : N) : bool := negb v3 && gate_serves g k.

(* ---------------- switches for the correspondence ---------------- *)
(* true: /repo has the fix (dda280b GetDelta authorises the source; 065d721 handleProveAttachment tests the
   allow-list counter) and the correspondence compares the code with the repaired function; the functions of the
   code as it was ([delta], [prove_serves]) stay, for the _refuted witnesses of C02_Refuted.v *)
Definition delta_source_checked : bool := true.
Definition prove_counter_checked : bool := true.

Definition delta_impl := if delta_source_checked then delta_repaired else delta.
Definition prove_impl := if prove_counter_checked then prove_serves_repaired else prove_serves.
