(* C02 correspondence: what the Go harness (harness/rest/verif_c02_test.go) observed on the real REST / BLIP
   surfaces and on the real auth.User objects is re-evaluated here on the model with vm_compute. *)
From SG Require Export Base.Prelude Base.Bytes C02.Auth C02.ReadDecision C02.Backup.
Open Scope N_scope.

(* what a response shows for one (revision, request): status class, whether the revision's own content
   (body marker, or the attachment bytes for an attachment GET) is present, and the two stub flags.
   status: 0 delivered (real revision or stub); 1 forbidden; 2 missing; 3 deleted (404 "deleted");
           4 {"missing": rev} entry of open_revs; 5 entry without a doc (changes include_docs) *)
Record wire := mkW { w_status : N; w_content : bool; w_removed : bool; w_deleted : bool }.

Definition wire_eqb (a b : wire) : bool :=
  (w_status a =? w_status b) && Bool.eqb (w_content a) (w_content b) &&
  Bool.eqb (w_removed a) (w_removed b) && Bool.eqb (w_deleted a) (w_deleted b).

Inductive surface :=
| SGet            (* GET doc, _bulk_get entry, replicator2 *)
| SOpenRevs       (* one entry of open_revs: every error becomes {"missing": rev} *)
| SChanges        (* doc member of a _changes entry (include_docs): an error leaves the entry without doc *)
| SBlip           (* rev / norev message of a pull replication *)
| SAtt (name : N) (* GET doc/attachment *).

Definition is_nil {A} (l : list A) : bool := match l with [] => true | _ => false end.
Definition werr (s : N) : wire := mkW s false false false.

Definition render (s : surface) (o : outcome) : wire :=
  match s with
  | SAtt n =>
      match o with
      | Body _ a _ => if existsb (fun e => fst e =? n) a then mkW 0 true false false else werr 2
      | RedactedRemoved | RedactedDeleted => werr 2       (* the stub carries no attachments: "missing attachment" *)
      | Forbidden => werr 1
      | Missing => werr 2
      | Deleted => werr 3
      end
  | _ =>
      let err (n : N) := match s with SOpenRevs => werr 4 | SChanges => werr 5 | _ => werr n end in
      match o with
      | Body b _ d => mkW 0 (negb (is_nil b)) false d
      | RedactedRemoved => mkW 0 false true false
      | RedactedDeleted => mkW 0 false false true
      | Forbidden => err 1
      | Missing => err 2
      | Deleted => err 3
      end
  end.

(* observed _all_docs row: kind 0 none, 1 id/rev only, 2 with doc, 3 error 403, 4 error 404 *)
Record rowobs := mkRO { ro_kind : N; ro_content : bool; ro_chans : option (list N) }.

Definition row_view (r : row) : rowobs :=
  match r with
  | NoRow => mkRO 0 false None
  | RowMeta chs => mkRO 1 false chs
  | RowDoc b _ chs => mkRO 2 (negb (is_nil b)) chs
  | RowErr s => mkRO (if s =? 403 then 3 else 4) false None
  end.

Definition rowobs_eqb (a b : rowobs) : bool :=
  (ro_kind a =? ro_kind b) && Bool.eqb (ro_content a) (ro_content b) &&
  option_eqb (list_eqb N.eqb) (ro_chans a) (ro_chans b).

Inductive case :=
| CSee (named : bool) (u : user) (cs : list N) (obs : bool)          (* user.AuthorizeAnyCollectionChannel == nil *)
| CSeeRole (r : role) (cs : list N) (obs : bool)                     (* role.AuthorizeAnyCollectionChannel == nil *)
| CRead (named : bool) (u : user) (rv : revision) (q : request) (s : surface) (obs : wire)
| CAllDocs (named nwe : bool) (u : user) (rv : revision) (f : adflags) (obs : rowobs)
| CGate (named : bool) (u : user) (ops : list pullop) (obs : list (option bool))
(* channels the revision cache reports for a superseded revision after a cold load from its backup *)
| CBackup (winner_chans parent_chans : list N) (parent_is_winner : bool) (obs : list N)
(* attachment names on the document's current revision right after a write *)
| CStamp (winner_atts new_atts : list N) (new_wins : bool) (obs : list N).

Definition check (c : case) : bool :=
  match c with
  | CSee named u cs obs => Bool.eqb (can_see_any named u cs) obs
  | CSeeRole r cs obs => Bool.eqb (role_any r cs) obs
  | CRead named u rv q s obs => wire_eqb (render s (decide named u rv q)) obs
  | CAllDocs named nwe u rv f obs => rowobs_eqb (row_view (alldocs_row named nwe u rv f)) obs
  | CGate named u ops obs =>
      list_eqb (option_eqb Bool.eqb) (snd (gate_run named u conn0 ops)) obs
  | CBackup wc pc piw obs => set_eqb (backup_chans wc pc piw) obs
  | CStamp wa na nw obs => set_eqb (stamped_atts wa na nw) obs
  end.

Definition mismatches (cs : list case) : list N := failing check cs.
