(* C02 correspondence: what the Go harness (harness/rest/verif_c02_test.go) observed on the real REST / BLIP
   surfaces and on the real auth.User objects is re-evaluated here on the model with vm_compute. *)
From SG Require Export Base.Prelude Base.Bytes C02.Auth C02.ReadDecision C02.Backup C02.Kinds.
Open Scope N_scope.

(* what a response shows for one (revision, request): status class, whether the revision's own content
   (body marker, or the attachment bytes for an attachment GET) is present, and the two stub flags.
   status: 0 delivered (real revision or stub); 1 forbidden; 2 missing; 3 deleted (404 "deleted");
           4 {"missing": rev} entry of open_revs; 5 entry without a doc (changes include_docs) *)
Record wire := mkW { w_status : N; w_content : bool; w_removed : bool; w_deleted : bool }.

Definition wire_eqb (a b : wire) : bool :=
  (w_status a =? w_status b) && Bool.eqb (w_content a) (w_content b) &&
  Bool.eqb (w_removed a) (w_removed b) && Bool.eqb (w_deleted a) (w_deleted b).

Inductive surface :=
| SGet            (* GET doc, _bulk_get entry, replicator2 *)
| SOpenRevs       (* one entry of open_revs: every error becomes {"missing": rev} *)
| SChanges        (* doc member of a _changes entry (include_docs): an error leaves the entry without doc *)
| SBlip           (* rev / norev message of a pull replication *)
| SAtt (name : N) (* GET doc/attachment *).

Definition is_nil {A} (l : list A) : bool := match l with [] => true | _ => false end.
Definition werr (s : N) : wire := mkW s false false false.

Definition render (s : surface) (o : outcome) : wire :=
  match s with
  | SAtt n =>
      match o with
      | Body _ a _ => if existsb (fun e => fst e =? n) a then mkW 0 true false false else werr 2
      | RedactedRemoved | RedactedDeleted => werr 2       (* the stub carries no attachments: "missing attachment" *)
      | Forbidden => werr 1
      | Missing => werr 2
      | Deleted => werr 3
      end
  | _ =>
      let err (n : N) := match s with SOpenRevs => werr 4 | SChanges => werr 5 | _ => werr n end in
      match o with
      | Body b _ d => mkW 0 (negb (is_nil b)) false d
      | RedactedRemoved => mkW 0 false true false
      | RedactedDeleted => mkW 0 false false true
      | Forbidden => err 1
      | Missing => err 2
      | Deleted => err 3
      end
  end.

(* observed _all_docs row: kind 0 none, 1 id/rev only, 2 with doc, 3 error 403, 4 error 404 *)
Record rowobs := mkRO { ro_kind : N; ro_content : bool; ro_chans : option (list N) }.

Definition row_view (r : row) : rowobs :=
  match r with
  | NoRow => mkRO 0 false None
  | RowMeta chs => mkRO 1 false chs
  | RowDoc b _ chs => mkRO 2 (negb (is_nil b)) chs
  | RowErr s => mkRO (if s =? 403 then 3 else 4) false None
  end.

Definition rowobs_eqb (a b : rowobs) : bool :=
  (ro_kind a =? ro_kind b) && Bool.eqb (ro_content a) (ro_content b) &&
  option_eqb (list_eqb N.eqb) (ro_chans a) (ro_chans b).

(* ---------------- request kinds (Kinds.v) ---------------- *)
(* one revision as seen on the wire.  cls: 0 delivered (a real revision or a stub -- a stub of a tombstone and a
   tombstone without body look the same), 4 {"missing": rev} entry, otherwise the error status (403 / 404 / 410) *)
Record aview := mkAV { av_cls : N; av_rev : rid; av_content : bool; av_removed : bool; av_deleted : bool;
                       av_atts : list N; av_hist : list rid }.

Definition view (a : answer) : aview :=
  match a with
  | AFull r b at' dl h => mkAV 0 r (negb (is_nil b)) false dl (map fst at') h
  | AStub r dl h => mkAV 0 r false (negb dl) dl [] h
  | AErr c => mkAV c (0, 0) false false false [] []
  end.

Definition view_entry (e : rid * option answer) : aview :=
  match snd e with Some a => view a | None => mkAV 4 (fst e) false false false [] [] end.

Definition nsubset (a b : list N) : bool := forallb (fun x => mem x b) a.
Definition nset_eqb (a b : list N) : bool := nsubset a b && nsubset b a.
Definition rsubset (a b : list rid) : bool := forallb (fun x => rmem x b) a.
Definition rset_eqb (a b : list rid) : bool := rsubset a b && rsubset b a.

Definition aview_eqb (a b : aview) : bool :=
  (av_cls a =? av_cls b) && rid_eqb (av_rev a) (av_rev b) && Bool.eqb (av_content a) (av_content b) &&
  Bool.eqb (av_removed a) (av_removed b) && Bool.eqb (av_deleted a) (av_deleted b) &&
  nset_eqb (av_atts a) (av_atts b) && list_eqb rid_eqb (av_hist a) (av_hist b).

(* entries in arbitrary order (open_revs=all walks a map) *)
Definition avset_eqb (a b : list aview) : bool :=
  (length a =? length b)%nat && forallb (fun x => existsb (aview_eqb x) b) a && forallb (fun x => existsb (aview_eqb x) a) b.

Inductive kobs :=
| OAns (l : option (list aview))
| OAtt (a : att_out)
| ODiff (m p : list rid)
| OReply (x : option (list rid))
| OStatus (s : N) (c : option rid)
| ODelta (cls : N).

Definition delta_cls (x : delta_out) : N :=
  match x with
  | DNil => 0 | DErr => 1 | DMissing => 2 | DSrcTombstone => 3
  | DRedacted false => 4 | DRedacted true => 5 | DTombstone => 6 | DDelta _ _ _ _ => 7
  end.

Definition att_out_eqb (a b : att_out) : bool :=
  match a, b with AttData x, AttData y => x =? y | AttErr x, AttErr y => x =? y | _, _ => false end.

Definition kind_matches (r : resp) (o : kobs) : bool :=
  match r, o with
  | ROne a, OAns (Some [v]) => aview_eqb (view a) v
  | RMany None, OAns None => true
  | RMany (Some l), OAns (Some vs) => avset_eqb (map view_entry l) vs
  | RDoc None, OAns None => true
  | RDoc (Some a), OAns (Some [v]) => aview_eqb (view a) v
  | RAtt a, OAtt b => att_out_eqb a b
  | RDiff m p, ODiff m' p' => list_eqb rid_eqb m m' && rset_eqb p p'
  | RReply None, OReply None => true
  | RReply (Some p), OReply (Some p') => rset_eqb p p'
  | RStatus s c, OStatus s' c' => (s =? s') && option_eqb rid_eqb c c'
  | RDelta x, ODelta c => delta_cls x =? c
  | _, _ => false
  end.

Inductive case :=
| CSee (named : bool) (u : user) (cs : list N) (obs : bool)          (* user.AuthorizeAnyCollectionChannel == nil *)
| CSeeRole (r : role) (cs : list N) (obs : bool)                     (* role.AuthorizeAnyCollectionChannel == nil *)
| CRead (named : bool) (u : user) (rv : revision) (q : request) (s : surface) (obs : wire)
| CAllDocs (named nwe : bool) (u : user) (rv : revision) (f : adflags) (obs : rowobs)
| CGate (named : bool) (u : user) (ops : list pullop) (obs : list (option bool))
(* channels the revision cache reports for a superseded revision after a cold load from its backup *)
| CBackup (winner_chans parent_chans : list N) (parent_is_winner : bool) (obs : list N)
(* attachment names on the document's current revision right after a write *)
| CStamp (winner_atts new_atts : list N) (new_wins : bool) (obs : list N)
(* a request of some kind about one document (None: it does not exist) and what came back *)
| CKind (named : bool) (u : user) (od : option doc) (k : kind) (obs : kobs)
(* proveAttachment on a connection after the trace [pre]: Some true a proof came back, Some false 404 *)
| CProve (v3 named : bool) (u : user) (pre : list pullop) (legacy : list N) (k : N) (obs : option bool).

Definition check (c : case) : bool :=
  match c with
  | CSee named u cs obs => Bool.eqb (can_see_any named u cs) obs
  | CSeeRole r cs obs => Bool.eqb (role_any r cs) obs
  | CRead named u rv q s obs => wire_eqb (render s (decide named u rv q)) obs
  | CAllDocs named nwe u rv f obs => rowobs_eqb (row_view (alldocs_row named nwe u rv f)) obs
  | CGate named u ops obs =>
      list_eqb (option_eqb Bool.eqb) (snd (gate_run named u conn0 ops)) obs
  | CBackup wc pc piw obs => set_eqb (backup_chans wc pc piw) obs
  | CStamp wa na nw obs => set_eqb (stamped_atts wa na nw) obs
  | CKind named u od k obs =>
      kind_matches (match k with KDelta from to => RDelta (delta_impl named u od from to) | _ => respond named u k od end) obs
  | CProve v3 named u pre legacy k obs =>
      option_eqb Bool.eqb (Some (prove_impl v3 (c_gate (fst (gate_run named u conn0 pre))) legacy k)) obs
  end.

Definition mismatches (cs : list case) : list N := failing check cs.
