(* C02 -- the read decision: what a non-admin reader gets for a revision.

   Code modelled (as it is now in /repo):
     db/crud.go documentRevisionForRequest + authorizeUserForChannels         [decide]
        (every revision-cache based read: GET doc, _bulk_get, open_revs, attachment GET, _changes include_docs,
         BLIP sendRevision, replicator2)
     db/crud.go get1xRevFromDoc + authorizeDoc (document based read used by _all_docs)   [decide1x]
     rest/bulk_api.go handleAllDocs createRow / filterChannels / filterChannelSet        [alldocs_row]
     db/blip_handler.go handleGetAttachment, db/blip_sync_context.go
        sendRevisionWithProperties / addAllowedAttachments / removeAllowedAttachments    [gate_*]

   A revision is what the revision cache hands to the decision: its channel set, the deleted / removed flags,
   the body bytes if available, and the attachment stubs (name, digest).  Contents are opaque numbers. *)
From SG Require Import Base.Prelude C02.Auth.
Open Scope N_scope.

Definition content := list N.
Definition attachments := list (N * N).     (* (name, digest/content id) *)

Record revision := mkRev {
  rv_chans : list N;
  rv_deleted : bool;
  rv_removed : bool;                 (* revision-cache removal entry *)
  rv_body : option content;          (* None: BodyBytes == nil, the revision cannot be loaded *)
  rv_atts : attachments
}.

Definition with_content (rv : revision) (b : content) (a : attachments) : revision :=
  mkRev (rv_chans rv) (rv_deleted rv) (rv_removed rv) (Some b) a.

Record request := mkReq {
  q_byrev : bool;        (* a specific revision / version was asked for (requestedVersion <> "") *)
  q_force403 : bool      (* unsupported option force_api_forbidden_errors *)
}.

Inductive outcome :=
| Body (b : content) (a : attachments) (deleted : bool)
| RedactedRemoved          (* {"_removed":true} + history, no body, no attachments *)
| RedactedDeleted          (* {} + deleted flag + history *)
| Forbidden
| Missing
| Deleted.

Definition decide (named : bool) (u : user) (rv : revision) (q : request) : outcome :=
  match rv_body rv with
  | None => if q_force403 q then Forbidden else Missing
  | Some b =>
      if negb (can_see_any named u (rv_chans rv)) then
        if negb (q_byrev q) then Forbidden
        else if q_force403 q then Forbidden
        else if rv_deleted rv then RedactedDeleted else RedactedRemoved
      else if rv_removed rv then Missing
      else if rv_deleted rv && negb (q_byrev q) then Deleted
      else Body b (rv_atts rv) (rv_deleted rv)
  end.

(* get1xRevFromDoc for the current revision of a document (revid "" or the current revision id; the only
   calls reachable by a user: _all_docs with keys / include_docs) *)
Definition decide1x (named : bool) (u : user) (rv : revision) (byrev : bool) : outcome :=
  if negb (can_see_any named u (rv_chans rv)) then
    if negb byrev then Forbidden
    else if rv_deleted rv then RedactedDeleted else RedactedRemoved
  else if negb byrev && rv_deleted rv then Deleted
  else match rv_body rv with
       | Some b => Body b (rv_atts rv) (rv_deleted rv)
       | None => Missing
       end.

(* ---------------- _all_docs ---------------- *)
Inductive row :=
| NoRow                                             (* silently skipped *)
| RowMeta (chs : option (list N))                   (* id / rev, channels if asked for *)
| RowDoc (b : content) (a : attachments) (chs : option (list N))
| RowErr (status : N).

Record adflags := mkAd { ad_keys : bool; ad_include : bool; ad_channels : bool }.

(* availableChannels: InheritedCollectionChannels, nil when it contains "*" *)
Definition has_star (u : user) : bool := mem star (effective u).
Definition filter_channels (u : user) (cs : list N) : list N :=
  if has_star u then cs else filter (fun c => mem c (effective u)) cs.

Definition show (f : adflags) (cs : list N) : option (list N) := if ad_channels f then Some cs else None.

(* [nil_when_empty]: the listing query hands an empty channel list over as nil (views) rather than as an empty
   slice (GSI); only matters for a holder of "*" and a document without channels *)
Definition alldocs_row (named nil_when_empty : bool) (u : user) (rv : revision) (f : adflags) : row :=
  if negb (ad_keys f) then
    let vis := filter_channels u (rv_chans rv) in
    let skipped := match vis with [] => if has_star u then nil_when_empty else true | _ => false end in
    if skipped then NoRow
    else if ad_include f then
      match decide1x named u rv true with
      | Body b a _ => RowDoc b a (show f vis)
      | RedactedRemoved => RowErr 403
      | RedactedDeleted => RowDoc [] [] (show f vis)
      | Forbidden => RowErr 403
      | Missing => RowErr 404
      | Deleted => RowErr 404
      end
    else RowMeta (show f vis)
  else
    match decide1x named u rv false with
    | Body b a _ =>
        let vis := filter_channels u (rv_chans rv) in
        (* filterChannelSet: nil (hence 403) when nothing is left and the user does not hold "*" *)
        match vis with
        | [] => if has_star u then (if ad_include f then RowDoc b a (show f vis) else RowMeta (show f vis)) else RowErr 403
        | _ => if ad_include f then RowDoc b a (show f vis) else RowMeta (show f vis)
        end
    | RedactedRemoved | RedactedDeleted | Forbidden => RowErr 403
    | Missing | Deleted => RowErr 404
    end.

Definition alldocs_listing (named nwe : bool) (u : user) (docs : list (N * revision)) (f : adflags) : list (N * row) :=
  flat_map (fun d => match alldocs_row named nwe u (snd d) f with NoRow => [] | r => [(fst d, r)] end) docs.

(* ---------------- attachment gate of a replication connection ---------------- *)
(* allow-list: key (docID+digest) -> counter *)
Definition gate := list (N * nat).

Fixpoint gate_count (g : gate) (k : N) : nat :=
  match g with
  | [] => 0%nat
  | (k', n) :: r => if k' =? k then n else gate_count r k
  end.

Fixpoint gate_incr (g : gate) (k : N) : gate :=
  match g with
  | [] => [(k, 1%nat)]
  | (k', n) :: r => if k' =? k then (k', S n) :: r else (k', n) :: gate_incr r k
  end.

Fixpoint gate_decr (g : gate) (k : N) : gate :=
  match g with
  | [] => []
  | (k', n) :: r =>
      if k' =? k then (match n with S (S m) => (k', S m) :: r | _ => r end)
      else (k', n) :: gate_decr r k
  end.

Definition gate_add (g : gate) (ks : list N) : gate := fold_left gate_incr ks g.
Definition gate_remove (g : gate) (ks : list N) : gate := fold_left gate_decr ks g.
Definition gate_serves (g : gate) (k : N) : bool := (0 <? gate_count g k)%nat.

Definition att_keys (a : attachments) : list N := map snd a.

(* events on one connection of user u *)
Inductive pullop :=
| PSend (rv : revision)      (* sendRevision of this revision (requested by revision id) *)
| PReply (i : nat)           (* the client's reply to the i-th still outstanding rev message arrived *)
| PGet (k : N).              (* getAttachment *)

(* the keys sendRevision opens for a revision: only when the decision hands out the real revision, and only
   when it has attachments (awaitResponse) *)
Definition opened (named : bool) (u : user) (rv : revision) : list N :=
  match decide named u rv (mkReq true false) with
  | Body _ a _ => att_keys a
  | _ => []
  end.

Fixpoint remove_nth {A} (i : nat) (l : list A) : list A :=
  match l, i with
  | [], _ => []
  | _ :: r, O => r
  | x :: r, S j => x :: remove_nth j r
  end.

(* connection state: the allow-list and the rev messages sent and not yet answered *)
Record conn := mkConn { c_gate : gate; c_out : list revision }.
Definition conn0 : conn := mkConn [] [].

Definition gate_step (named : bool) (u : user) (c : conn) (op : pullop) : conn * option bool :=
  match op with
  | PSend rv => (mkConn (gate_add (c_gate c) (opened named u rv)) (c_out c ++ [rv]), None)
  | PReply i =>
      match nth_error (c_out c) i with
      | Some rv => (mkConn (gate_remove (c_gate c) (opened named u rv)) (remove_nth i (c_out c)), None)
      | None => (c, None)
      end
  | PGet k => (c, Some (gate_serves (c_gate c) k))
  end.

Fixpoint gate_run (named : bool) (u : user) (c : conn) (ops : list pullop) : conn * list (option bool) :=
  match ops with
  | [] => (c, [])
  | op :: r =>
      let '(c', o) := gate_step named u c op in
      let '(c'', os) := gate_run named u c' r in
      (c'', o :: os)
  end.
