(* C02 -- proofs about the read decision (ReadDecision.v). *)
From SG Require Import Base.Prelude C02.Auth C02.AuthProofs C02.ReadDecision.
Open Scope N_scope.

(* two revisions that differ at most in their contents (body bytes, attachment stubs) *)
Definition same_meta (rv rv' : revision) : Prop :=
  rv_chans rv = rv_chans rv' /\ rv_deleted rv = rv_deleted rv' /\ rv_removed rv = rv_removed rv' /\
  (rv_body rv = None <-> rv_body rv' = None).

Lemma same_meta_with_content : forall rv b a b' a', same_meta (with_content rv b a) (with_content rv b' a').
Proof. intros. unfold same_meta, with_content; cbn. repeat split; intros; congruence. Qed.

(* ---- non-interference ---- *)
Lemma decide_noninterference_meta : forall named u rv rv' q,
  can_see_any named u (rv_chans rv) = false -> same_meta rv rv' ->
  decide named u rv q = decide named u rv' q.
Proof.
  intros named u rv rv' q Hns (Hc & Hd & Hr & Hb). unfold decide.
  rewrite <- Hc, <- Hd, <- Hr, Hns. cbn [negb].
  destruct (rv_body rv) as [b|] eqn:E, (rv_body rv') as [b'|] eqn:E'; try reflexivity.
  - destruct Hb as [_ Hb]. specialize (Hb eq_refl). congruence.
  - destruct Hb as [Hb _]. specialize (Hb eq_refl). congruence.
Qed.

Lemma decide_noninterference : forall named u rv q,
  can_see_any named u (rv_chans rv) = false ->
  forall b b' a a', decide named u (with_content rv b a) q = decide named u (with_content rv b' a') q.
Proof.
  intros. apply decide_noninterference_meta; [exact H | apply same_meta_with_content].
Qed.

Lemma decide1x_noninterference_meta : forall named u rv rv' byrev,
  can_see_any named u (rv_chans rv) = false -> same_meta rv rv' ->
  decide1x named u rv byrev = decide1x named u rv' byrev.
Proof.
  intros named u rv rv' byrev Hns (Hc & Hd & Hr & Hb). unfold decide1x.
  rewrite <- Hc, <- Hd, Hns. reflexivity.
Qed.

(* ---- a body is handed out only for a visible revision ---- *)
Lemma decide_body_visible : forall named u rv q b a d,
  decide named u rv q = Body b a d ->
  can_see_any named u (rv_chans rv) = true /\ rv_body rv = Some b /\ rv_atts rv = a /\ rv_removed rv = false.
Proof.
  intros named u rv q b a d H. unfold decide in H.
  destruct (rv_body rv) as [b0|]; [|destruct (q_force403 q); discriminate].
  destruct (can_see_any named u (rv_chans rv)); cbn [negb] in H.
  - destruct (rv_removed rv); [discriminate|].
    destruct (rv_deleted rv && negb (q_byrev q)); [discriminate|].
    inversion H; subst. auto.
  - destruct (negb (q_byrev q)); [discriminate|]. destruct (q_force403 q); [discriminate|].
    destruct (rv_deleted rv); discriminate.
Qed.

Lemma decide1x_body_visible : forall named u rv byrev b a d,
  decide1x named u rv byrev = Body b a d ->
  can_see_any named u (rv_chans rv) = true /\ rv_body rv = Some b /\ rv_atts rv = a.
Proof.
  intros named u rv byrev b a d H. unfold decide1x in H.
  destruct (can_see_any named u (rv_chans rv)); cbn [negb] in H.
  - destruct (negb byrev && rv_deleted rv); [discriminate|].
    destruct (rv_body rv); [|discriminate]. inversion H; subst. auto.
  - destruct (negb byrev); [discriminate|]. destruct (rv_deleted rv); discriminate.
Qed.

(* what an unauthorised reader gets is one of the four content-free answers *)
Lemma decide_unauthorised_shape : forall named u rv q,
  can_see_any named u (rv_chans rv) = false ->
  decide named u rv q = Forbidden \/ decide named u rv q = Missing \/
  (decide named u rv q = RedactedRemoved /\ q_byrev q = true /\ rv_deleted rv = false) \/
  (decide named u rv q = RedactedDeleted /\ q_byrev q = true /\ rv_deleted rv = true).
Proof.
  intros named u rv q H. unfold decide. rewrite H. cbn [negb].
  destruct (rv_body rv); [|destruct (q_force403 q); auto].
  destruct (q_byrev q); cbn [negb]; [|auto].
  destruct (q_force403 q); [auto|]. destruct (rv_deleted rv); auto 6.
Qed.

(* ---- completeness ---- *)
Lemma decide_complete : forall named u rv q b,
  rv_body rv = Some b -> rv_removed rv = false -> rv_deleted rv = false ->
  can_see_any named u (rv_chans rv) = true ->
  decide named u rv q = Body b (rv_atts rv) false.
Proof.
  intros named u rv q b Hb Hr Hd Hs. unfold decide. rewrite Hb, Hs, Hr, Hd. reflexivity.
Qed.

(* a tombstone asked for by revision id is handed out too (its body may be empty) *)
Lemma decide_complete_byrev : forall named u rv f b,
  rv_body rv = Some b -> rv_removed rv = false ->
  can_see_any named u (rv_chans rv) = true ->
  decide named u rv (mkReq true f) = Body b (rv_atts rv) (rv_deleted rv).
Proof.
  intros named u rv f b Hb Hr Hs. unfold decide. rewrite Hb, Hs, Hr. cbn. rewrite andb_false_r. reflexivity.
Qed.

Lemma decide1x_complete : forall named u rv byrev b,
  rv_body rv = Some b -> rv_deleted rv = false ->
  can_see_any named u (rv_chans rv) = true ->
  decide1x named u rv byrev = Body b (rv_atts rv) false.
Proof.
  intros named u rv byrev b Hb Hd Hs. unfold decide1x. rewrite Hs, Hd, Hb. cbn. rewrite andb_false_r. reflexivity.
Qed.

(* ---- _all_docs ---- *)
Lemma has_star_spec : forall u, has_star u = true <-> In star (effective u).
Proof. intros. unfold has_star. apply mem_In. Qed.

Lemma filter_channels_In : forall u cs c,
  In c (filter_channels u cs) <-> In c cs /\ (In star (effective u) \/ In c (effective u)).
Proof.
  intros u cs c. unfold filter_channels. destruct (has_star u) eqn:E.
  - apply has_star_spec in E. tauto.
  - rewrite filter_In, mem_In. assert (~ In star (effective u)).
    { intros H. apply has_star_spec in H. congruence. } tauto.
Qed.

(* invisible revision, user without any wildcard: nothing survives the channel filter *)
Lemma filter_channels_invisible : forall named u cs,
  can_see_any named u cs = false -> has_star u = false -> filter_channels u cs = [].
Proof.
  intros named u cs Hns Hst. destruct (filter_channels u cs) as [|c r] eqn:E; [reflexivity|].
  exfalso. assert (Hin : In c (filter_channels u cs)) by (rewrite E; left; reflexivity).
  apply filter_channels_In in Hin. destruct Hin as [Hc Hv].
  assert (Hne : cs <> []) by (intros X; subst; destruct Hc).
  assert (can_see_any named u cs = true).
  { apply can_see_any_spec_nonempty; [exact Hne|]. destruct Hv as [Hv|Hv]; [right; exact Hv | left; exists c; tauto]. }
  congruence.
Qed.

(* a wildcard holder sees every revision (since /repo a58a51d also a document without channels in the default
   collection through a role's wildcard) *)
Lemma invisible_without_star : forall named u cs,
  can_see_any named u cs = false -> has_star u = false.
Proof.
  intros named u cs Hns. destruct (has_star u) eqn:Hst; [|reflexivity].
  apply has_star_spec in Hst. rewrite (star_sees_all named u cs Hst) in Hns. discriminate.
Qed.

(* the listing never carries the body of an invisible revision, whatever the flags *)
Lemma alldocs_row_doc_visible : forall named nwe u rv f b a chs,
  alldocs_row named nwe u rv f = RowDoc b a chs ->
  (b = [] /\ a = []) \/ (can_see_any named u (rv_chans rv) = true /\ rv_body rv = Some b /\ rv_atts rv = a).
Proof.
  intros named nwe u rv f b a chs H. unfold alldocs_row in H.
  destruct (negb (ad_keys f)).
  - match type of H with (if ?s then _ else _) = _ => destruct s end; [discriminate|].
    destruct (ad_include f); [|discriminate].
    destruct (decide1x named u rv true) as [b0 a0 d0| | | | |] eqn:E; try discriminate.
    + inversion H; subst. right. eapply decide1x_body_visible. exact E.
    + inversion H; subst. left. auto.
  - destruct (decide1x named u rv false) as [b0 a0 d0| | | | |] eqn:E; try discriminate.
    apply decide1x_body_visible in E.
    destruct (filter_channels u (rv_chans rv)); [destruct (has_star u); [|discriminate]|];
      (destruct (ad_include f); [|discriminate]); inversion H; subst; right; exact E.
Qed.

(* an invisible document is not listed at all (user without wildcard) ... *)
Lemma alldocs_listing_hides : forall named nwe u rv f,
  can_see_any named u (rv_chans rv) = false -> has_star u = false -> ad_keys f = false ->
  alldocs_row named nwe u rv f = NoRow.
Proof.
  intros named nwe u rv f Hns Hst Hk. unfold alldocs_row. rewrite Hk. cbn [negb].
  rewrite (filter_channels_invisible named u _ Hns Hst), Hst. reflexivity.
Qed.

(* ... and asked for by key it is answered with an error row (403: exists but forbidden is distinguishable from
   404 here, as it is for a plain GET) *)
Lemma alldocs_keys_hides : forall named nwe u rv f,
  can_see_any named u (rv_chans rv) = false -> ad_keys f = true ->
  alldocs_row named nwe u rv f = RowErr 403.
Proof.
  intros named nwe u rv f Hns Hk. unfold alldocs_row, decide1x. rewrite Hk, Hns. reflexivity.
Qed.

(* the listing never carries anything of an invisible revision, whatever the flags: no row, or a 403 row when asked by key *)
Lemma alldocs_listing_invisible_never_doc : forall named nwe u rv f,
  can_see_any named u (rv_chans rv) = false ->
  alldocs_row named nwe u rv f = NoRow \/ alldocs_row named nwe u rv f = RowErr 403.
Proof.
  intros named nwe u rv f Hns. destruct (ad_keys f) eqn:Hk.
  - right. apply alldocs_keys_hides; assumption.
  - left. apply alldocs_listing_hides; [assumption | eapply invisible_without_star; eassumption | assumption].
Qed.

(* the response of a listing is the same with and without an invisible document: its existence is not revealed *)
Lemma alldocs_listing_independent : forall named nwe u f l1 d l2,
  can_see_any named u (rv_chans (snd d)) = false -> has_star u = false -> ad_keys f = false ->
  alldocs_listing named nwe u (l1 ++ d :: l2) f = alldocs_listing named nwe u (l1 ++ l2) f.
Proof.
  intros named nwe u f l1 d l2 Hns Hst Hk. unfold alldocs_listing.
  rewrite !flat_map_app. cbn [flat_map]. rewrite (alldocs_listing_hides named nwe u (snd d) f Hns Hst Hk).
  reflexivity.
Qed.

(* channel names shown in a row are channels of the document the user holds (or the user holds "*") *)
Lemma alldocs_channels_filtered : forall named nwe u rv f chs c,
  (alldocs_row named nwe u rv f = RowMeta (Some chs) \/ exists b a, alldocs_row named nwe u rv f = RowDoc b a (Some chs)) ->
  In c chs -> In c (rv_chans rv) /\ (In star (effective u) \/ In c (effective u)).
Proof.
  intros named nwe u rv f chs c H Hin.
  assert (Hs : chs = filter_channels u (rv_chans rv)).
  { unfold alldocs_row, show in H. destruct (negb (ad_keys f)).
    - match type of H with context[if ?s then NoRow else _] => destruct s end.
      + destruct H as [H|[b [a H]]]; discriminate.
      + destruct (ad_include f).
        * destruct (decide1x named u rv true); destruct (ad_channels f);
            destruct H as [H|[b0 [a0 H]]]; try discriminate; inversion H; reflexivity.
        * destruct (ad_channels f); destruct H as [H|[b0 [a0 H]]]; try discriminate; inversion H; reflexivity.
    - destruct (decide1x named u rv false); try (destruct H as [H|[b0 [a0 H]]]; discriminate).
      destruct (filter_channels u (rv_chans rv)) eqn:E.
      + destruct (has_star u); [|destruct H as [H|[b0 [a0 H]]]; discriminate].
        destruct (ad_include f); destruct (ad_channels f);
          destruct H as [H|[b0 [a0 H]]]; try discriminate; inversion H; reflexivity.
      + destruct (ad_include f); destruct (ad_channels f);
          destruct H as [H|[b0 [a0 H]]]; try discriminate; inversion H; reflexivity. }
  subst chs. apply filter_channels_In. exact Hin.
Qed.

(* completeness of the listing: a live current revision in a held channel is listed, with its body when asked *)
Lemma alldocs_complete : forall named nwe u rv f b,
  rv_body rv = Some b -> rv_deleted rv = false -> rv_chans rv <> [] ->
  can_see_any named u (rv_chans rv) = true ->
  alldocs_row named nwe u rv f =
    if ad_include f then RowDoc b (rv_atts rv) (show f (filter_channels u (rv_chans rv)))
    else RowMeta (show f (filter_channels u (rv_chans rv))).
Proof.
  intros named nwe u rv f b Hb Hd Hne Hs.
  assert (Hf : filter_channels u (rv_chans rv) <> []).
  { apply can_see_any_spec_nonempty in Hs; [|exact Hne]. destruct Hs as [[c [Hc Hv]]|Hst].
    - intros E. assert (Hin : In c (filter_channels u (rv_chans rv))) by (apply filter_channels_In; tauto).
      rewrite E in Hin. destruct Hin.
    - unfold filter_channels. apply has_star_spec in Hst. rewrite Hst. exact Hne. }
  unfold alldocs_row. rewrite (decide1x_complete named u rv true b Hb Hd Hs),
    (decide1x_complete named u rv false b Hb Hd Hs).
  destruct (filter_channels u (rv_chans rv)) as [|c r] eqn:E; [congruence|].
  destruct (ad_keys f); cbn [negb]; reflexivity.
Qed.

(* ---- surfaces ---- *)
(* A read surface, abstractly: what it answers for a user, a revision and a request.  It "goes through the
   decision" when its answer is a function of the decision's outcome alone. *)
Definition through_decision {R : Type} (respond : bool -> user -> revision -> request -> R) : Prop :=
  exists present : outcome -> R, forall named u rv q, respond named u rv q = present (decide named u rv q).

Definition surface_noninterferent {R : Type} (respond : bool -> user -> revision -> request -> R) : Prop :=
  forall named u rv q, can_see_any named u (rv_chans rv) = false ->
  forall b b' a a', respond named u (with_content rv b a) q = respond named u (with_content rv b' a') q.

Lemma through_decision_noninterferent : forall R (respond : bool -> user -> revision -> request -> R),
  through_decision respond -> surface_noninterferent respond.
Proof.
  intros R respond [present H] named u rv q Hns b b' a a'. rewrite !H.
  f_equal. apply decide_noninterference. exact Hns.
Qed.
