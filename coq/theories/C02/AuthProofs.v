(* C02 -- lemmas about the channel decision (Auth.v): specification, monotonicity, wildcard, public channel,
   role inheritance, empty set. *)
From SG Require Import Base.Prelude C02.Auth.
Open Scope N_scope.

Lemma mem_In : forall x l, mem x l = true <-> In x l.
Proof.
  intros x l. unfold mem. rewrite existsb_exists. split.
  - intros [y [Hy E]]. apply N.eqb_eq in E. subst. exact Hy.
  - intros H. exists x. split; [exact H | apply N.eqb_refl].
Qed.

Lemma mem_false_In : forall x l, mem x l = false <-> ~ In x l.
Proof. intros. rewrite <- mem_In. destruct (mem x l); split; congruence. Qed.

Lemma pub_in_chans : forall r, In pub (chans_of r).
Proof. intros r. unfold chans_of. left. reflexivity. Qed.

Lemma role_sees_spec : forall r c, role_sees r c = true <-> In c (chans_of r) \/ In star (chans_of r).
Proof. intros. unfold role_sees. rewrite orb_true_iff, !mem_In. tauto. Qed.

Lemma in_effective : forall u c,
  In c (effective u) <-> In c (chans_of (u_self u)) \/ exists r, In r (u_roles u) /\ In c (chans_of r).
Proof.
  intros u c. unfold effective. rewrite in_app_iff, in_flat_map. tauto.
Qed.

Lemma user_sees_spec : forall u c, user_sees u c = true <-> In c (effective u) \/ In star (effective u).
Proof.
  intros u c. unfold user_sees. rewrite orb_true_iff, existsb_exists, role_sees_spec, !in_effective.
  split.
  - intros [[H|H]|[r [Hr H]]]; [tauto | tauto |].
    apply role_sees_spec in H. destruct H as [H|H]; [left | right]; right; exists r; tauto.
  - intros [[H|[r [Hr H]]]|[H|[r [Hr H]]]]; try tauto.
    + right. exists r. split; [exact Hr | apply role_sees_spec; tauto].
    + right. exists r. split; [exact Hr | apply role_sees_spec; tauto].
Qed.

Lemma role_any_nonempty : forall r cs, cs <> [] -> role_any r cs = existsb (role_sees r) cs.
Proof. intros r [|c cs] H; [congruence | reflexivity]. Qed.

Lemma can_see_any_default_nonempty : forall u cs, cs <> [] -> can_see_any_default u cs = existsb (user_sees u) cs.
Proof. intros u [|c cs] H; [congruence | reflexivity]. Qed.

(* specification, non-empty channel set: both collections agree with "some channel of the set is held, or "*" is
   held", counting the roles *)
Lemma can_see_any_spec_nonempty : forall named u cs, cs <> [] ->
  (can_see_any named u cs = true <-> (exists c, In c cs /\ In c (effective u)) \/ In star (effective u)).
Proof.
  intros named u cs Hne. destruct named; cbn [can_see_any].
  - unfold can_see_any_named. rewrite orb_true_iff, existsb_exists.
    rewrite role_any_nonempty by exact Hne. rewrite existsb_exists.
    split.
    + intros [[c [Hc H]]|[r [Hr H]]].
      * apply role_sees_spec in H. destruct H as [H|H].
        -- left. exists c. split; [exact Hc|]. apply in_effective. tauto.
        -- right. apply in_effective. tauto.
      * rewrite role_any_nonempty in H by exact Hne. apply existsb_exists in H.
        destruct H as [c [Hc H]]. apply role_sees_spec in H. destruct H as [H|H].
        -- left. exists c. split; [exact Hc|]. apply in_effective. right. exists r. tauto.
        -- right. apply in_effective. right. exists r. tauto.
    + intros [[c [Hc H]]|H].
      * apply in_effective in H. destruct H as [H|[r [Hr H]]].
        -- left. exists c. split; [exact Hc|]. apply role_sees_spec. tauto.
        -- right. exists r. split; [exact Hr|]. rewrite role_any_nonempty by exact Hne.
           apply existsb_exists. exists c. split; [exact Hc|]. apply role_sees_spec. tauto.
      * destruct cs as [|c0 cs0]; [congruence|].
        apply in_effective in H. destruct H as [H|[r [Hr H]]].
        -- left. exists c0. split; [left; reflexivity|]. apply role_sees_spec. tauto.
        -- right. exists r. split; [exact Hr|]. cbn [role_any]. apply existsb_exists.
           exists c0. split; [left; reflexivity|]. apply role_sees_spec. tauto.
  - rewrite can_see_any_default_nonempty by exact Hne. rewrite existsb_exists. split.
    + intros [c [Hc H]]. apply user_sees_spec in H. destruct H as [H|H]; [left; exists c; tauto | tauto].
    + intros [[c [Hc H]]|H].
      * exists c. split; [exact Hc|]. apply user_sees_spec. tauto.
      * destruct cs as [|c0 cs0]; [congruence|]. exists c0. split; [left; reflexivity|].
        apply user_sees_spec. tauto.
Qed.

(* specification, empty channel set: only the wildcard helps, held directly or through a role (both collections) *)
Lemma can_see_any_spec_empty_named : forall u, can_see_any true u [] = true <-> In star (effective u).
Proof.
  intros u. cbn [can_see_any]. unfold can_see_any_named. cbn [role_any].
  rewrite orb_true_iff, existsb_exists, mem_In, in_effective. split.
  - intros [H|[r [Hr H]]]; [tauto|]. apply mem_In in H. right. exists r. tauto.
  - intros [H|[r [Hr H]]]; [tauto|]. right. exists r. split; [exact Hr | apply mem_In; exact H].
Qed.

Lemma can_see_any_spec_empty_default : forall u, can_see_any false u [] = true <-> In star (effective u).
Proof. intros u. cbn [can_see_any can_see_any_default]. rewrite user_sees_spec. tauto. Qed.

(* the empty set is visible only with the wildcard *)
Lemma empty_only_with_star : forall named u, can_see_any named u [] = true -> In star (effective u).
Proof.
  intros [|] u H.
  - apply can_see_any_spec_empty_named. exact H.
  - apply can_see_any_spec_empty_default in H. exact H.
Qed.

(* wildcard held by the user itself: every set is visible, the empty one included *)
Lemma own_star_sees_all : forall named u cs, In star (chans_of (u_self u)) -> can_see_any named u cs = true.
Proof.
  intros named u cs H. destruct cs as [|c cs].
  - destruct named.
    + apply can_see_any_spec_empty_named. apply in_effective. tauto.
    + apply can_see_any_spec_empty_default. apply in_effective. tauto.
  - apply can_see_any_spec_nonempty; [congruence|]. right. apply in_effective. tauto.
Qed.

(* wildcard through a role: every NON-EMPTY set is visible (and, in a named collection, the empty one too) *)
Lemma role_star_sees_nonempty : forall named u r cs,
  In r (u_roles u) -> In star (chans_of r) -> cs <> [] -> can_see_any named u cs = true.
Proof.
  intros named u r cs Hr Hs Hne. apply can_see_any_spec_nonempty; [exact Hne|].
  right. apply in_effective. right. exists r. tauto.
Qed.

(* the public channel: a set containing "!" is visible to every user whatsoever *)
Lemma public_channel_visible : forall named u cs, In pub cs -> can_see_any named u cs = true.
Proof.
  intros named u cs H. apply can_see_any_spec_nonempty.
  - intros E. subst. destruct H.
  - left. exists pub. split; [exact H|]. apply in_effective. left. apply pub_in_chans.
Qed.

(* role inheritance: what a role of the user can see, the user can see *)
Lemma role_inheritance : forall named u r cs,
  In r (u_roles u) -> cs <> [] -> role_any r cs = true -> can_see_any named u cs = true.
Proof.
  intros named u r cs Hr Hne H. rewrite role_any_nonempty in H by exact Hne.
  apply existsb_exists in H. destruct H as [c [Hc H]]. apply role_sees_spec in H.
  apply can_see_any_spec_nonempty; [exact Hne|]. destruct H as [H|H].
  - left. exists c. split; [exact Hc|]. apply in_effective. right. exists r. tauto.
  - right. apply in_effective. right. exists r. tauto.
Qed.

Lemma more_grants_effective : forall u u', more_grants u u' -> incl (effective u) (effective u').
Proof.
  intros u u' [Hs Hr] c H. apply in_effective in H. apply in_effective. destruct H as [H|[r [Hin H]]].
  - left. apply Hs. exact H.
  - destruct (Hr r Hin) as [r' [Hin' Hi]]. right. exists r'. split; [exact Hin' | apply Hi; exact H].
Qed.

(* monotone in grants: adding channels to the user or to a role, or adding roles, never removes visibility *)
Lemma can_see_any_monotone : forall named u u' cs,
  more_grants u u' -> can_see_any named u cs = true -> can_see_any named u' cs = true.
Proof.
  intros named u u' cs Hm H. pose proof (more_grants_effective u u' Hm) as Hi.
  destruct cs as [|c cs].
  - destruct named.
    + apply can_see_any_spec_empty_named. apply Hi. apply can_see_any_spec_empty_named. exact H.
    + apply can_see_any_spec_empty_default. apply Hi. apply can_see_any_spec_empty_default. exact H.
  - assert (Hne : c :: cs <> []) by congruence.
    apply can_see_any_spec_nonempty; [exact Hne|].
    apply can_see_any_spec_nonempty in H; [|exact Hne].
    destruct H as [[x [Hx H]]|H]; [left; exists x; split; [exact Hx | apply Hi; exact H] | right; apply Hi; exact H].
Qed.

(* the decision depends on the channel set only as a set *)
Lemma can_see_any_set_ext : forall named u cs cs',
  (forall c, In c cs <-> In c cs') -> can_see_any named u cs = can_see_any named u cs'.
Proof.
  intros named u cs cs' He.
  assert (Hemp : cs = [] <-> cs' = []).
  { split; intros E; subst.
    - destruct cs' as [|x t]; [reflexivity|]. exfalso. apply (He x). left. reflexivity.
    - destruct cs as [|x t]; [reflexivity|]. exfalso. apply (He x). left. reflexivity. }
  destruct cs as [|c t].
  - assert (cs' = []) by (apply Hemp; reflexivity). subst. reflexivity.
  - assert (Hne : c :: t <> []) by congruence.
    assert (Hne' : cs' <> []) by (intros E; apply Hemp in E; congruence).
    apply eq_true_iff_eq.
    rewrite (can_see_any_spec_nonempty named u _ Hne), (can_see_any_spec_nonempty named u _ Hne').
    split; (intros [[x [Hx H]]|H]; [left; exists x; split; [apply He; exact Hx | exact H] | right; exact H]).
Qed.

(* the full specification, every channel set (the empty one included): some channel of the set is held, or "*" is *)
Lemma can_see_any_spec : forall named u cs,
  can_see_any named u cs = true <-> (exists c, In c cs /\ In c (effective u)) \/ In star (effective u).
Proof.
  intros named u cs. destruct cs as [|c t].
  - split.
    + intros H. right. apply (empty_only_with_star named u H).
    + intros [[c [[] _]]|H]. destruct named; [apply can_see_any_spec_empty_named | apply can_see_any_spec_empty_default]; exact H.
  - apply can_see_any_spec_nonempty. congruence.
Qed.

(* the two collections agree (since /repo a58a51d also on the empty set) *)
Lemma named_default_agree : forall u cs, can_see_any true u cs = can_see_any false u cs.
Proof. intros u cs. apply eq_true_iff_eq. rewrite !can_see_any_spec. tauto. Qed.

Lemma named_default_agree_nonempty : forall u cs, cs <> [] -> can_see_any true u cs = can_see_any false u cs.
Proof. intros u cs _. apply named_default_agree. Qed.

(* a holder of "*" sees every set *)
Lemma star_sees_all : forall named u cs, In star (effective u) -> can_see_any named u cs = true.
Proof. intros named u cs H. apply can_see_any_spec. right. exact H. Qed.
