(* C02 -- the "can this principal see any of these channels" decision.

   Code modelled (as it is now in /repo):
     auth/auth.go rebuildCollectionChannels   : Channels() = explicit + computed (sync function grants) + "!"   [chans_of]
     auth/role.go canSeeChannel, auth/collection_access.go CanSeeChannel
                                              : member, or the principal holds "*"                               [role_sees]
     auth/user.go userImpl.canSeeChannel      : own channels, then every role                                    [user_sees]
     auth/role.go authorizeAnyChannel         : DEFAULT collection.  Non-empty set: some member is visible
                                                (user.canSeeChannel, so roles count); empty set:
                                                princ.canSeeChannel("*"), so a "*" held through a role counts
                                                (since /repo a58a51d; before, only the user's OWN set)            [can_see_any_default]
     auth/role_collection_access.go roleImpl.AuthorizeAnyCollectionChannel                                       [role_any]
     auth/user_collection_access.go userImpl.AuthorizeAnyCollectionChannel
                                              : NAMED collection.  own access (same loop), then every role's
                                                AuthorizeAnyCollectionChannel -- for the empty set a role's
                                                "*" counts here as well                                          [can_see_any_named]

   Channel names are numbers; 0 is the all-channels wildcard "*", 1 the public channel "!". *)
From SG Require Import Base.Prelude.
Open Scope N_scope.

Definition star : N := 0.
Definition pub : N := 1.

Definition mem (x : N) (l : list N) : bool := existsb (N.eqb x) l.

Record role := mkRole { r_explicit : list N; r_computed : list N }.

Definition chans_of (r : role) : list N := pub :: r_explicit r ++ r_computed r.

Definition role_sees (r : role) (c : N) : bool := mem c (chans_of r) || mem star (chans_of r).

Record user := mkUser { u_self : role; u_roles : list role }.

Definition user_sees (u : user) (c : N) : bool :=
  role_sees (u_self u) c || existsb (fun r => role_sees r c) (u_roles u).

Definition role_any (r : role) (cs : list N) : bool :=
  match cs with
  | [] => mem star (chans_of r)
  | _ => existsb (role_sees r) cs
  end.

Definition can_see_any_default (u : user) (cs : list N) : bool :=
  match cs with
  | [] => user_sees u star
  | _ => existsb (user_sees u) cs
  end.

Definition can_see_any_named (u : user) (cs : list N) : bool :=
  role_any (u_self u) cs || existsb (fun r => role_any r cs) (u_roles u).

(* [named] = the request is against a named collection (true) or the default collection (false) *)
Definition can_see_any (named : bool) (u : user) (cs : list N) : bool :=
  if named then can_see_any_named u cs else can_see_any_default u cs.

(* everything the user holds, directly or through a role (InheritedCollectionChannels as a set) *)
Definition effective (u : user) : list N := chans_of (u_self u) ++ flat_map chans_of (u_roles u).

(* ---- grant order: u' has at least the grants of u ---- *)
Definition incl_role (r r' : role) : Prop := incl (chans_of r) (chans_of r').
Definition more_grants (u u' : user) : Prop :=
  incl_role (u_self u) (u_self u') /\
  forall r, In r (u_roles u) -> exists r', In r' (u_roles u') /\ incl_role r r'.
