(* C02 -- No document content is disclosed outside the reader's channels.
   Nothing but the property theorems, each closed by [exact] of a lemma proved elsewhere.

   PARTIAL.  Proved, for ALL users, role memberships, grants, channel sets, revisions and requests: the read
   DECISION (documentRevisionForRequest / authorizeUserForChannels, get1xRevFromDoc / authorizeDoc, the
   _all_docs row filter, the replication attachment allow-list) discloses nothing about a revision none of
   whose channels the reader holds, and always hands out the current revision of a document in a held channel.
   NOT a theorem: that every endpoint and flag combination answers through that decision
   ([C02_full_statement] below) -- that is what the enumeration harness checks on the real REST / BLIP surfaces. *)
From SG Require Import Base.Prelude C02.Auth C02.AuthProofs C02.ReadDecision C02.ReadProofs C02.GateProofs C02.Kinds C02.KindsProofs.
Open Scope N_scope.

(* ---------------- who can see a channel set ---------------- *)

(* non-empty set: some channel of the set is held (directly or through a role), or "*" is held *)
Theorem C02_can_see_any_spec : forall named u cs, cs <> [] ->
  (can_see_any named u cs = true <-> (exists c, In c cs /\ In c (effective u)) \/ In star (effective u)).
Proof. exact can_see_any_spec_nonempty. Qed.
Print Assumptions C02_can_see_any_spec.

(* the empty set is visible only with the wildcard *)
Theorem C02_empty_set_only_with_star : forall named u, can_see_any named u [] = true -> In star (effective u).
Proof. exact empty_only_with_star. Qed.
Print Assumptions C02_empty_set_only_with_star.

Theorem C02_wildcard_sees_all : forall named u cs, In star (chans_of (u_self u)) -> can_see_any named u cs = true.
Proof. exact own_star_sees_all. Qed.
Print Assumptions C02_wildcard_sees_all.

Theorem C02_wildcard_through_role : forall named u r cs,
  In r (u_roles u) -> In star (chans_of r) -> cs <> [] -> can_see_any named u cs = true.
Proof. exact role_star_sees_nonempty. Qed.
Print Assumptions C02_wildcard_through_role.

Theorem C02_public_channel : forall named u cs, In pub cs -> can_see_any named u cs = true.
Proof. exact public_channel_visible. Qed.
Print Assumptions C02_public_channel.

Theorem C02_role_inheritance : forall named u r cs,
  In r (u_roles u) -> cs <> [] -> role_any r cs = true -> can_see_any named u cs = true.
Proof. exact role_inheritance. Qed.
Print Assumptions C02_role_inheritance.

Theorem C02_monotone_in_grants : forall named u u' cs,
  more_grants u u' -> can_see_any named u cs = true -> can_see_any named u' cs = true.
Proof. exact can_see_any_monotone. Qed.
Print Assumptions C02_monotone_in_grants.

Theorem C02_channel_set_as_set : forall named u cs cs',
  (forall c, In c cs <-> In c cs') -> can_see_any named u cs = can_see_any named u cs'.
Proof. exact can_see_any_set_ext. Qed.
Print Assumptions C02_channel_set_as_set.

(* ---------------- non-interference of the read decision ---------------- *)

(* if the user can see none of the revision's channels, the answer does not depend on the revision's body or
   attachment stubs (names, digests) *)
Theorem C02_read_noninterference : forall named u rv q,
  can_see_any named u (rv_chans rv) = false ->
  forall b b' a a', decide named u (with_content rv b a) q = decide named u (with_content rv b' a') q.
Proof. exact decide_noninterference. Qed.
Print Assumptions C02_read_noninterference.

(* the same for any two revisions that agree on channels, flags and availability *)
Theorem C02_read_noninterference_meta : forall named u rv rv' q,
  can_see_any named u (rv_chans rv) = false -> same_meta rv rv' ->
  decide named u rv q = decide named u rv' q /\ forall byrev, decide1x named u rv byrev = decide1x named u rv' byrev.
Proof.
  intros named u rv rv' q H1 H2.
  exact (conj (decide_noninterference_meta named u rv rv' q H1 H2)
              (fun byrev => decide1x_noninterference_meta named u rv rv' byrev H1 H2)).
Qed.
Print Assumptions C02_read_noninterference_meta.

(* a body (and attachment stubs) is handed out only for a revision in a visible channel, and it is that revision's *)
Theorem C02_body_only_if_visible : forall named u rv q b a d,
  decide named u rv q = Body b a d ->
  can_see_any named u (rv_chans rv) = true /\ rv_body rv = Some b /\ rv_atts rv = a /\ rv_removed rv = false.
Proof. exact decide_body_visible. Qed.
Print Assumptions C02_body_only_if_visible.

(* any other read yields an error or a body-less removed / deleted stub (the stubs only for an explicit revision) *)
Theorem C02_unauthorised_answers : forall named u rv q,
  can_see_any named u (rv_chans rv) = false ->
  decide named u rv q = Forbidden \/ decide named u rv q = Missing \/
  (decide named u rv q = RedactedRemoved /\ q_byrev q = true /\ rv_deleted rv = false) \/
  (decide named u rv q = RedactedDeleted /\ q_byrev q = true /\ rv_deleted rv = true).
Proof. exact decide_unauthorised_shape. Qed.
Print Assumptions C02_unauthorised_answers.

(* a surface whose answer is a function of the decision's outcome is non-interferent *)
Theorem C02_surface_noninterference_partial : forall R (respond : bool -> user -> revision -> request -> R),
  through_decision respond -> surface_noninterferent respond.
Proof. exact through_decision_noninterferent. Qed.
Print Assumptions C02_surface_noninterference_partial.

(* the full property for one read surface of the real system; holds for every surface that goes through the
   decision (previous theorem); THAT the real endpoints do is checked by enumeration, not proved *)
Definition C02_full_statement {R : Type} (respond : bool -> user -> revision -> request -> R) : Prop :=
  surface_noninterferent respond.

(* ---------------- completeness ---------------- *)

(* the current (live, loadable) revision of a document in a visible channel is always handed out, whatever the request *)
Theorem C02_read_complete : forall named u rv q b,
  rv_body rv = Some b -> rv_removed rv = false -> rv_deleted rv = false ->
  can_see_any named u (rv_chans rv) = true ->
  decide named u rv q = Body b (rv_atts rv) false /\
  forall byrev, decide1x named u rv byrev = Body b (rv_atts rv) false.
Proof.
  intros named u rv q b H1 H2 H3 H4.
  exact (conj (decide_complete named u rv q b H1 H2 H3 H4) (fun byrev => decide1x_complete named u rv byrev b H1 H3 H4)).
Qed.
Print Assumptions C02_read_complete.

(* ---------------- _all_docs ---------------- *)

(* a document none of whose current channels is visible is not listed (reader without wildcard) ... *)
Theorem C02_alldocs_hides : forall named nwe u rv f,
  can_see_any named u (rv_chans rv) = false -> has_star u = false -> ad_keys f = false ->
  alldocs_row named nwe u rv f = NoRow.
Proof. exact alldocs_listing_hides. Qed.
Print Assumptions C02_alldocs_hides.

(* ... so the whole listing is the same with and without it: its existence is not revealed *)
Theorem C02_alldocs_existence_hidden : forall named nwe u f l1 d l2,
  can_see_any named u (rv_chans (snd d)) = false -> has_star u = false -> ad_keys f = false ->
  alldocs_listing named nwe u (l1 ++ d :: l2) f = alldocs_listing named nwe u (l1 ++ l2) f.
Proof. exact alldocs_listing_independent. Qed.
Print Assumptions C02_alldocs_existence_hidden.

(* asked for by key it is answered with a 403 row *)
Theorem C02_alldocs_keys_forbidden : forall named nwe u rv f,
  can_see_any named u (rv_chans rv) = false -> ad_keys f = true -> alldocs_row named nwe u rv f = RowErr 403.
Proof. exact alldocs_keys_hides. Qed.
Print Assumptions C02_alldocs_keys_forbidden.

(* whatever the flags and whoever the reader, an invisible document's row never carries anything: it is absent,
   or a 403 row when asked for by key (before /repo a58a51d the default collection had a third case: a wildcard
   held through a role and a document without channels) *)
Theorem C02_alldocs_invisible_never_content : forall named nwe u rv f,
  can_see_any named u (rv_chans rv) = false ->
  alldocs_row named nwe u rv f = NoRow \/ alldocs_row named nwe u rv f = RowErr 403.
Proof. exact alldocs_listing_invisible_never_doc. Qed.
Print Assumptions C02_alldocs_invisible_never_content.

Theorem C02_alldocs_body_only_if_visible : forall named nwe u rv f b a chs,
  alldocs_row named nwe u rv f = RowDoc b a chs ->
  (b = [] /\ a = []) \/ (can_see_any named u (rv_chans rv) = true /\ rv_body rv = Some b /\ rv_atts rv = a).
Proof. exact alldocs_row_doc_visible. Qed.
Print Assumptions C02_alldocs_body_only_if_visible.

(* channel names shown in a row are channels the reader holds *)
Theorem C02_alldocs_channels_filtered : forall named nwe u rv f chs c,
  (alldocs_row named nwe u rv f = RowMeta (Some chs) \/ exists b a, alldocs_row named nwe u rv f = RowDoc b a (Some chs)) ->
  In c chs -> In c (rv_chans rv) /\ (In star (effective u) \/ In c (effective u)).
Proof. exact alldocs_channels_filtered. Qed.
Print Assumptions C02_alldocs_channels_filtered.

Theorem C02_alldocs_complete : forall named nwe u rv f b,
  rv_body rv = Some b -> rv_deleted rv = false -> rv_chans rv <> [] ->
  can_see_any named u (rv_chans rv) = true ->
  alldocs_row named nwe u rv f =
    if ad_include f then RowDoc b (rv_atts rv) (show f (filter_channels u (rv_chans rv)))
    else RowMeta (show f (filter_channels u (rv_chans rv))).
Proof. exact alldocs_complete. Qed.
Print Assumptions C02_alldocs_complete.

(* ---------------- attachment gate of a replication connection ---------------- *)

(* after ANY sequence of rev messages sent, replies received and getAttachment requests on a fresh connection:
   a getAttachment is served only while a rev message is outstanding whose revision the user can see, whose
   real content was sent, and which carries that attachment *)
Theorem C02_attachment_gate : forall named u pre k,
  let c := fst (gate_run named u conn0 pre) in
  snd (gate_step named u c (PGet k)) = Some true ->
  exists rv, In rv (c_out c) /\ In k (att_keys (rv_atts rv)) /\
             can_see_any named u (rv_chans rv) = true /\ rv_removed rv = false /\ rv_body rv <> None.
Proof. exact attachment_gate_trace. Qed.
Print Assumptions C02_attachment_gate.

(* the allow-list counts exactly the outstanding messages: served <-> some outstanding message opened the key *)
Theorem C02_attachment_gate_exact : forall named u pre k,
  let c := fst (gate_run named u conn0 pre) in
  (gate_serves (c_gate c) k = true <-> exists rv, In rv (c_out c) /\ In k (opened named u rv)).
Proof.
  intros named u pre k c. apply served_iff_outstanding. apply conn_inv_run, conn_inv_init.
Qed.
Print Assumptions C02_attachment_gate_exact.

Theorem C02_attachment_gate_only_sent : forall named u pre rv,
  In rv (c_out (fst (gate_run named u conn0 pre))) -> In (PSend rv) pre.
Proof.
  intros named u pre rv H. destruct (outstanding_were_sent named u pre conn0 rv H) as [[]|H']. exact H'.
Qed.
Print Assumptions C02_attachment_gate_only_sent.

(* ---------------- the channel decision, every set; the two kinds of collection ---------------- *)

(* every channel set, the empty one included: some channel of the set is held, or "*" is (directly or through a role) *)
Theorem C02_can_see_any_full_spec : forall named u cs,
  can_see_any named u cs = true <-> (exists c, In c cs /\ In c (effective u)) \/ In star (effective u).
Proof. exact can_see_any_spec. Qed.
Print Assumptions C02_can_see_any_full_spec.

(* the default collection (authorizeAnyChannel) and a named collection (AuthorizeAnyCollectionChannel) decide alike *)
Theorem C02_collections_agree : forall u cs, can_see_any true u cs = can_see_any false u cs.
Proof. exact named_default_agree. Qed.
Print Assumptions C02_collections_agree.

(* ---------------- every request kind (Kinds.v) ---------------- *)
(* [kind] enumerates the ways a reader can ask about one document: GET (current / by revision, with ancestry), an
   entry of _bulk_get, open_revs (all / list), an attachment, the _all_docs row, the doc member of a changes entry,
   a pulled rev / norev, getRev, _revs_diff, the reply to a BLIP changes / proposeChanges message, a delta.
   [authorised] is defined once: the reader holds a channel ASSIGNED to the revision (or "*"); [faithful]: the
   revision cache reports exactly the assigned channels (C02_Refuted.v: the known backup-stamping finding is the
   exact way this fails).  [doc_sim]: two documents with the same revision tree and revision metadata that agree on
   the contents of every revision the reader is authorised for. *)

(* the response of EVERY kind is the same for two such documents: nothing of a revision the reader is not
   authorised for -- body, attachment names, digests -- influences any answer.  For a delta this needs the reader to
   be authorised for the SOURCE revision; without that it is false for the unchanged code
   (C02_delta_noninterference_refuted, a genuine defect) *)
Theorem C02_no_disclosure_all_kinds : forall named u k od od',
  odoc_sim named u od od' -> delta_source_ok named u k od ->
  respond named u k od = respond named u k od'.
Proof. exact respond_noninterference. Qed.
Print Assumptions C02_no_disclosure_all_kinds.

(* every answer of every kind that carries content is about a revision the reader is authorised for and carries
   that revision's own body and attachment list *)
Theorem C02_content_only_from_authorised : forall named u k d a r b at' dl h,
  faithful d -> In a (answers (respond named u k (Some d))) -> a = AFull r b at' dl h ->
  exists n, In n (d_nodes d) /\ n_id n = r /\ authorised named u n = true /\
            rv_body (n_rev n) = Some b /\ rv_atts (n_rev n) = at'.
Proof. exact content_only_from_authorised. Qed.
Print Assumptions C02_content_only_from_authorised.

(* removal / tombstone shapes, all kinds: whatever is answered about a revision the reader is NOT authorised for is
   a bare stub -- revision id, deleted flag, ancestry -- with no body field and no attachment *)
Theorem C02_removed_stub_has_no_body : forall named u k d a r n,
  faithful d -> In a (answers (respond named u k (Some d))) -> answer_rid a = Some r ->
  find_node d r = Some n -> authorised named u n = false ->
  exists h, a = AStub r (rv_deleted (n_rev n)) h.
Proof. exact removed_stub_has_no_body. Qed.
Print Assumptions C02_removed_stub_has_no_body.

(* ... and a stub is only ever the answer to a request that names the revision *)
Theorem C02_stub_only_by_revision : forall named u d revs r dl h,
  get_answer named u (Some d) None revs <> AStub r dl h.
Proof. exact stub_only_by_revision. Qed.
Print Assumptions C02_stub_only_by_revision.

Theorem C02_attachment_only_from_authorised : forall named u d rev name dig,
  faithful d -> att_answer named u (Some d) rev name = AttData dig ->
  exists n, In n (d_nodes d) /\ authorised named u n = true /\ In (name, dig) (rv_atts (n_rev n)).
Proof. exact attachment_only_from_authorised. Qed.
Print Assumptions C02_attachment_only_from_authorised.

(* a delta is computed only towards a target the reader is authorised for *)
Theorem C02_delta_target_authorised : forall named u d from to g a sa ta,
  faithful d -> delta named u (Some d) from to = DDelta g a sa ta ->
  exists t, find_node d to = Some t /\ authorised named u t = true.
Proof. exact delta_target_authorised. Qed.
Print Assumptions C02_delta_target_authorised.

(* a listing answers for a document whose current revision the reader is not authorised for exactly as if the
   document did not exist (requests that NAME a document do not: C02_point_requests_hide_existence_refuted) *)
Theorem C02_listing_hides_existence : forall named u k d n,
  listing k = true -> faithful d -> cur_node d = Some n -> authorised named u n = false ->
  respond named u k (Some d) = respond named u k None.
Proof. exact listing_hides_existence. Qed.
Print Assumptions C02_listing_hides_existence.

(* _revs_diff, the reply to a changes message, the reply to proposeChanges: no authorisation -- the same for every
   reader -- and a function of the SHAPE of the revision tree only (ids, parents, leaves, current revision,
   whether it is a tombstone): no body, attachment or channel can influence them *)
Theorem C02_negotiation_ignores_reader_and_content : forall named named' u u' k d d',
  negotiation k = true -> same_shape d d' -> respond named u k (Some d) = respond named' u' k (Some d').
Proof. exact negotiation_ignores_reader_and_content. Qed.
Print Assumptions C02_negotiation_ignores_reader_and_content.

(* what _revs_diff hands out: asked ids that are unknown, and ids of leaves or of parents of leaves *)
Theorem C02_revs_diff_discloses : forall d asked m p,
  revs_diff (Some d) asked = (m, p) ->
  (forall r, In r m -> In r asked /\ in_tree d r = false) /\
  (forall r, In r p -> exists l, In l (d_nodes d) /\ n_leaf l = true /\ (r = n_id l \/ n_parent l = Some r)).
Proof. exact revs_diff_discloses. Qed.
Print Assumptions C02_revs_diff_discloses.

(* completeness over the kinds: the live current revision of a document in a held channel is delivered by GET,
   getRev and the pull *)
Theorem C02_kinds_complete : forall named u d n b revs,
  faithful d -> cur_node d = Some n -> authorised named u n = true ->
  rv_body (n_rev n) = Some b -> rv_removed (n_rev n) = false -> rv_deleted (n_rev n) = false ->
  respond named u (KGet None revs) (Some d) = ROne (AFull (d_cur d) b (rv_atts (n_rev n)) false (if revs then history d (d_cur d) else [])) /\
  respond named u KGetRev (Some d) = ROne (AFull (d_cur d) b (rv_atts (n_rev n)) false []) /\
  respond named u (KBlipRev (d_cur d)) (Some d) = ROne (AFull (d_cur d) b (rv_atts (n_rev n)) false (history d (d_cur d))).
Proof. exact kinds_complete. Qed.
Print Assumptions C02_kinds_complete.

(* proveAttachment on every trace of a connection: a proof is handed out only for an attachment of an outstanding
   rev message of a visible revision -- or for a LEGACY attachment, to anybody (a genuine defect:
   C02_prove_needs_visible_revision_refuted) *)
Theorem C02_prove_attachment_gate : forall named u pre v3 legacy k,
  let c := fst (gate_run named u conn0 pre) in
  prove_serves v3 (c_gate c) legacy k = true ->
  In k legacy \/
  (v3 = false /\ exists rv, In rv (c_out c) /\ In k (att_keys (rv_atts rv)) /\
                           can_see_any named u (rv_chans rv) = true /\ rv_removed rv = false /\ rv_body rv <> None).
Proof. exact prove_gate. Qed.
Print Assumptions C02_prove_attachment_gate.

(* ---------------- non-vacuity ---------------- *)
(* a user holding channel 2 through a role; a revision in channel 3 only (invisible: stub / forbidden, listing
   empty), one in channels 2,3 (visible: body), a gate trace that serves and then refuses *)
Example C02_nonvacuous :
  let u := mkUser (mkRole [] []) [mkRole [2] []] in
  let hidden := mkRev [3] false false (Some [7]) [(1, 9)] in
  let shown := mkRev [2; 3] false false (Some [8]) [(1, 10)] in
  can_see_any true u (rv_chans hidden) = false /\ has_star u = false /\
  decide true u hidden (mkReq true false) = RedactedRemoved /\
  decide true u hidden (mkReq false false) = Forbidden /\
  alldocs_row true false u hidden (mkAd false true true) = NoRow /\
  can_see_any true u (rv_chans shown) = true /\
  decide true u shown (mkReq false false) = Body [8] [(1, 10)] false /\
  alldocs_row true false u shown (mkAd false true true) = RowDoc [8] [(1, 10)] (Some [2]) /\
  snd (gate_run true u conn0 [PSend hidden; PGet 9; PSend shown; PGet 10; PGet 9; PReply 1; PGet 10]) =
    [None; Some false; None; Some true; Some false; None; Some false].
Proof. vm_compute. repeat split; reflexivity. Qed.

(* the kinds: reader holding channel 2; document with a hidden first revision (channel 3, property 7) and a visible
   current one (channel 2, property 8).  By revision the hidden one is a bare stub with its ancestry, the current one
   is delivered; _revs_diff names the leaf whoever asks; the delta against the hidden source names its property 7 *)
Example C02_kinds_nonvacuous :
  let u := mkUser (mkRole [2] []) [] in
  let d := mkDoc [mkNode (1, 1) None false (mkRev [3] false false (Some [7]) [(1, 9)]) [3];
                  mkNode (2, 2) (Some (1, 1)) true (mkRev [2] false false (Some [8]) []) [2]] (2, 2) in
  faithful d /\
  respond true u (KGet (Some (1, 1)) true) (Some d) = ROne (AStub (1, 1) false [(1, 1)]) /\
  respond true u (KGet None true) (Some d) = ROne (AFull (2, 2) [8] [] false [(2, 2); (1, 1)]) /\
  respond true u (KOpenRevs None false) (Some d) = RMany (Some [((2, 2), Some (AFull (2, 2) [8] [] false []))]) /\
  respond true u (KAtt (Some (1, 1)) 1) (Some d) = RAtt (AttErr 404) /\
  respond true u (KRevsDiff [(3, 5)]) (Some d) = RDiff [(3, 5)] [(2, 2)] /\
  respond true u (KPropose (3, 5) (Some (1, 1)) true) (Some d) = RStatus 409 (Some (2, 2)) /\
  respond true u (KDelta (1, 1) (2, 2)) (Some d) = RDelta (DDelta [7] [8] [(1, 9)] []) /\
  delta_repaired true u (Some d) (1, 1) (2, 2) = DNil.
Proof. split; [intros n [E|[E|[]]]; subst n; reflexivity | vm_compute; repeat split; reflexivity]. Qed.
