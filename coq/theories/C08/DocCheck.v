(* C08 -- a decision procedure for [docs_consistent], proved sound: lets C08_docfeed_nonvacuous be closed by
   computation and lets the correspondence evaluate the hypothesis of the document-feed theorems on the feeds
   the harness actually delivered to the real change cache. *)
From SG Require Import Base.Prelude C08.SkippedSet C08.SeqBuffer C08.SeqBufferInv C08.SeqBufferCons C08.DocFeed C08.DocFeedProofs.
Open Scope N_scope.

Definition ev_eqb (v w : ev) : bool :=
  match v, w with (k1, a1, b1), (k2, a2, b2) => kind_eqb k1 k2 && (a1 =? a2) && (b1 =? b2) end.

Definition compat_b (v w : ev) : bool := ev_eqb v w || (ev_hi v <? ev_lo w) || (ev_hi w <? ev_lo v).

Definition op_wf_b (i : N) (o : op) : bool :=
  match o with ArriveRange lo hi _ => (lo <=? hi) && ((hi <=? i) || (i <? lo)) | _ => true end.

Definition prim (T : list (bool * op)) : list (bool * op) := filter fst T.

Definition pair_ok (x y : bool * op) : bool :=
  match op_ev (snd x), op_ev (snd y) with Some v, Some w => compat_b v w | _, _ => true end.

Definition primary_ok (T : list (bool * op)) : bool :=
  forallb (fun x => forallb (pair_ok x) (prim T)) (prim T).

Definition is_doc_arr (r : N) (y : bool * op) : bool :=
  fst y && match snd y with Arrive KDoc t _ => t =? r | _ => false end.

Definition mention_ok (P pre : list (bool * op)) (x : bool * op) : bool :=
  match x with
  | (false, Arrive _ r _) => existsb (is_doc_arr r) pre || forallb (fun y => negb (covers r (snd y))) P
  | _ => true
  end.

Fixpoint recent_ok (P pre l : list (bool * op)) : bool :=
  match l with
  | [] => true
  | x :: rest => mention_ok P pre x && recent_ok P (pre ++ [x]) rest
  end.

Definition docs_consistent_b (i : N) (items : list ditem) : bool :=
  let T := texpand_all i items in
  primary_ok T && recent_ok (prim T) [] T && forallb (fun y => op_wf_b i (snd y)) (prim T).

Lemma kind_eqb_eq : forall a b, kind_eqb a b = true -> a = b.
Proof. intros [] []; cbn; congruence. Qed.

Lemma compat_b_sound : forall v w, compat_b v w = true -> compat v w.
Proof.
  intros [[k1 a1] b1] [[k2 a2] b2] H. unfold compat_b, ev_eqb, compat, ev_lo, ev_hi in *. cbn in *.
  apply orb_true_iff in H as [H|H]; [apply orb_true_iff in H as [H|H]|].
  - apply andb_true_iff in H as [H H3]. apply andb_true_iff in H as [H1 H2].
    apply kind_eqb_eq in H1. apply N.eqb_eq in H2, H3. left. congruence.
  - right. left. lia.
  - right. right. lia.
Qed.

Lemma in_prim : forall T o, In (true, o) T <-> In (true, o) (prim T).
Proof. intros T o. unfold prim. rewrite filter_In. cbn. tauto. Qed.

Lemma recent_ok_split : forall P l1 pre x l2,
  recent_ok P pre (l1 ++ x :: l2) = true -> mention_ok P (pre ++ l1) x = true.
Proof.
  intros P l1; induction l1 as [|y l1 IH]; intros pre x l2 H; cbn [app recent_ok] in H; apply andb_true_iff in H as [H1 H2].
  - rewrite app_nil_r. assumption.
  - specialize (IH _ _ _ H2). rewrite <- app_assoc in IH. exact IH.
Qed.

Lemma docs_consistent_b_sound : forall i items, docs_consistent_b i items = true -> docs_consistent i items.
Proof.
  intros i items H. unfold docs_consistent_b in H.
  apply andb_true_iff in H as [H H3]. apply andb_true_iff in H as [H1 H2].
  constructor.
  - intros o1 o2 v w A B E1 E2. apply in_prim in A, B. unfold primary_ok in H1.
    rewrite forallb_forall in H1. specialize (H1 _ A). rewrite forallb_forall in H1. specialize (H1 _ B).
    unfold pair_ok in H1. cbn [snd] in H1. rewrite E1, E2 in H1. now apply compat_b_sound.
  - intros l1 l2 k r a E. rewrite E in H2. apply recent_ok_split in H2. cbn [app mention_ok] in H2.
    apply orb_true_iff in H2 as [H2|H2].
    + left. apply existsb_exists in H2 as [[t o] [Hin Hd]]. unfold is_doc_arr in Hd. cbn [fst snd] in Hd.
      apply andb_true_iff in Hd as [Ht Hd]. subst t.
      destruct o as [[] t a'| | | |]; try discriminate. apply N.eqb_eq in Hd. subst t. exists a'. exact Hin.
    + right. intros o Hin. rewrite <- E in *. apply in_prim in Hin. rewrite forallb_forall in H2.
      specialize (H2 _ Hin). cbn [snd] in H2. now apply negb_true_iff in H2.
  - intros o Hin. apply in_prim in Hin. rewrite forallb_forall in H3. specialize (H3 _ Hin). cbn [snd] in H3.
    destruct o as [k t a|lo hi a| | |old]; cbn in *; try exact I. lia.
Qed.
