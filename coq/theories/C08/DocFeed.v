(* C08 -- changeCache.DocChanged (db/change_cache.go): what one event of the mutation feed turns into.

   A document event carries the sync metadata of the document: its [sequence], the [unused_sequences] its
   update wasted on CAS retries and the [recent_sequences] of its earlier revisions.  DocChanged
     - ignores the whole event when sequence <= initialSequence;
     - calls processEntry with an unused entry for every element of unused_sequences;
     - takes ONE snapshot of nextSequence, then for every recent sequence r below the current one
       (current = unused_sequences[0] if there is one, else sequence) calls processEntry when
       r >= snapshot (still expected) or when r < snapshot and r is in the skipped list at that moment -- in
       the second case with change.Skipped already set; the entry is a document entry when a channel removal
       is recorded at r, an unused entry otherwise; every other recent sequence is dropped without a call;
     - calls processEntry for the document itself.
   A principal document carries its own sequence (ignored when <= initialSequence).  Unused-sequence and
   unused-range documents carry their numbers in the key (releaseUnusedSequence[Range] = the operations
   [Arrive KUnused] / [ArriveRange] of SeqBuffer.v).

   DocChanged is modelled as ONE atomic step [doc_changed]: it does not hold changeCache.lock between its
   reads (nextSequence snapshot, WasSkipped) and its processEntry calls, but everything that concerns the
   sequence numbers of one document comes from that document's mutations, i.e. from one vbucket, i.e. from
   one feed worker, serially.  C08_Refuted.stale_skipped_flag_delivers_twice shows what the preset flag does
   when that is violated.

   [expand] is the state-independent reading of the same event: every unused sequence and EVERY recent
   sequence below the current one becomes an arrival.  DocFeedProofs.dstep_expand proves that in every
   reachable state the two agree (the snapshot / WasSkipped filter only saves calls that would be ignored as
   duplicates), so a feed of documents is a feed of [op]s and every theorem about [run] applies. *)
From SG Require Import Base.Prelude C08.SkippedSet C08.SeqBuffer.
Open Scope N_scope.

(* processEntry for a single-sequence entry whose Skipped flag may have been set by the caller.  With
   [preset = false] this is [process_entry] (DocFeedProofs.peg_false).  With [preset = true] the duplicate test
   "sequence < nextSequence && !change.Skipped" is bypassed.  (A preset entry that is buffered would keep its
   flag until it is popped; pending entries of the model carry no flag.  DocChanged only presets the flag for
   sequences below its snapshot of nextSequence, hence below nextSequence: never buffered.) *)
Definition process_entry_gen (preset : bool) (st : state) (e : entry) : state :=
  let s := e_seq e in
  if (s <? next st) && negb preset && negb (sk_mem s (skipped st)) then st
  else if memN s (received st) then st
  else
    let st1 := set_received st (s :: received st) in
    if (s =? next st) || (next st =? 0) then add_pending (add_to_cache st1 e preset)
    else if next st <? s then
      let st2 := set_pending st1 (pq_push e (pending st1)) in
      if maxp st <? N.of_nat (length (pending st2)) then add_pending st2 else st2
    else if initial st <? s then
      let st2 := add_to_cache st1 e true in
      set_skipped st2 (sk_diff s s (skipped st2))
    else st1.

(* one event of the mutation feed *)
Inductive ditem :=
| FDoc (seq : N) (unused recent removed : list N) (aged : bool)
    (* DocTypeDocument: _sync.sequence, _sync.unused_sequences, _sync.recent_sequences, the recent sequences at
       which the channel map records a removal, TimeReceived older than CachePendingSeqMaxWait *)
| FPrinc (s : N) (aged : bool)       (* DocTypeUser / DocTypeRole: the principal's sequence *)
| FOp (o : op).                      (* DocTypeUnusedSeq / DocTypeUnusedSeqRange, housekeeping, abandon *)

Definition recent_kind (removed : list N) (r : N) : kind := if memN r removed then KDoc else KUnused.

(* one iteration of the loop over recent_sequences *)
Definition recent_step (cur snap : N) (removed : list N) (aged : bool) (st : state) (r : N) : state :=
  let is_skipped := (r <? cur) && (r <? snap) && sk_mem r (skipped st) in
  if ((snap <=? r) && (r <? cur)) || is_skipped
  then process_entry_gen is_skipped st (mkE r 0 (recent_kind removed r) aged)
  else st.

Definition doc_changed (st : state) (seq : N) (unused recent removed : list N) (aged : bool) : state :=
  if seq <=? initial st then st
  else
    let st1 := fold_left (fun s u => process_entry s (mkE u 0 KUnused aged)) unused st in
    let cur := hd seq unused in
    let snap := next st1 in
    let st2 := fold_left (recent_step cur snap removed aged) recent st1 in
    process_entry st2 (mkE seq 0 KDoc aged).

Definition dstep (st : state) (it : ditem) : state :=
  match it with
  | FDoc seq unused recent removed aged => doc_changed st seq unused recent removed aged
  | FPrinc s aged => if s <=? initial st then st else process_entry st (mkE s 0 KPrinc aged)
  | FOp o => step st o
  end.

Fixpoint drun (st : state) (items : list ditem) : state :=
  match items with [] => st | it :: r => drun (dstep st it) r end.

(* the arrivals an event stands for; the tag says whether the arrival is the event's own business (true: the
   document itself, its unused sequences, a principal, an unused-sequence document) or a mention of an
   earlier revision's sequence in recent_sequences (false) *)
Definition texpand (i : N) (it : ditem) : list (bool * op) :=
  match it with
  | FDoc seq unused recent removed aged =>
      if seq <=? i then []
      else map (fun u => (true, Arrive KUnused u aged)) unused
           ++ map (fun r => (false, Arrive (recent_kind removed r) r aged)) (filter (fun r => r <? hd seq unused) recent)
           ++ [(true, Arrive KDoc seq aged)]
  | FPrinc s aged => if s <=? i then [] else [(true, Arrive KPrinc s aged)]
  | FOp o => [(true, o)]
  end.

Definition expand (i : N) (it : ditem) : list op := map snd (texpand i it).
Definition expand_all (i : N) (items : list ditem) : list op := flat_map (expand i) items.
Definition texpand_all (i : N) (items : list ditem) : list (bool * op) := flat_map (texpand i) items.

(* a repeated arrival of one sequence number is ignored (DocFeedProofs.arrive_again_noop): the feed with
   every arrival after the first one of its number removed *)
Definition arr_seq (o : op) : option N :=
  match o with
  | Arrive _ s _ => Some s
  | ArriveRange lo hi _ => if lo =? hi then Some hi else None
  | _ => None
  end.

Fixpoint tcanon (seen : list N) (l : list (bool * op)) : list (bool * op) :=
  match l with
  | [] => []
  | x :: r =>
      match arr_seq (snd x) with
      | Some s => if memN s seen then tcanon seen r else x :: tcanon (s :: seen) r
      | None => x :: tcanon seen r
      end
  end.

Fixpoint canon_from (seen : list N) (l : list op) : list op :=
  match l with
  | [] => []
  | o :: r =>
      match arr_seq o with
      | Some s => if memN s seen then canon_from seen r else o :: canon_from (s :: seen) r
      | None => o :: canon_from seen r
      end
  end.

Definition canon (l : list op) : list op := canon_from [] l.
