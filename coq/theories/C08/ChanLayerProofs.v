(* C08 -- a late arrival reaches every open feed of its channels, whatever the channel cache's validFrom *)
From SG Require Import Base.Prelude C08.SkippedSet C08.SeqBuffer C08.SeqBufferInv C08.SeqBufferThms C08.ChanLayer.
Open Scope N_scope.

Lemma x_buf_run : forall chf ops x, x_buf (xrun chf x ops) = run (x_buf x) (buf_ops ops).
Proof.
  intros chf ops; induction ops as [|o ops IH]; intros x; [reflexivity|].
  cbn [xrun]. rewrite IH. destruct o as [b|c]; cbn [buf_ops xstep run].
  - reflexivity.
  - destruct (has_chan c (x_chans x)); reflexivity.
Qed.

Lemma new_dl_one : forall old new d, delivered new = d :: delivered old -> new_dl old new = [d].
Proof.
  intros old new d H. unfold new_dl. rewrite H. cbn [length].
  replace (S (length (delivered old)) - length (delivered old))%nat with 1%nat by lia. reflexivity.
Qed.

Lemma late_since_cons : forall reg c c' s,
  c_late c' = s :: c_late c -> (reg <= length (c_late c))%nat -> In s (late_since reg c').
Proof.
  intros reg c c' s H Hr. unfold late_since. rewrite H. cbn [length]. apply -> in_rev.
  destruct (S (length (c_late c)) - reg)%nat eqn:E; [lia|]. cbn. now left.
Qed.

Lemma thm_late_reaches_feeds : forall chf i m xops k s a,
  let x := xrun chf (xinit i m) xops in
  sk_mem s (skipped (x_buf x)) = true ->
  let x' := xstep chf x (XBuf (Arrive k s a)) in
  (* the change cache forwards it exactly once, flagged late ... *)
  new_dl (x_buf x) (x_buf x') = [mkD k s 0 true true]
  (* ... and when it is a document, every active cache of one of its channels (and of "*") gets it on its
     late-sequence log, whatever its validFrom, so every feed registered on that log reads it *)
  /\ (k = KDoc -> forall c, In c (x_chans x) -> c_id c = 0 \/ In (c_id c) (chf s) ->
        exists c', In c' (x_chans x') /\ c_id c' = c_id c /\ c_valid c' = c_valid c
          /\ c_late c' = s :: c_late c
          /\ (forall reg, (reg <= length (c_late c))%nat -> In s (late_since reg c'))).
Proof.
  intros chf i m xops k s a x Hsk x'.
  assert (Hb : x_buf x = run (init i m) (buf_ops xops)) by (unfold x; rewrite x_buf_run; reflexivity).
  rewrite Hb in Hsk.
  destruct (thm_late i m (buf_ops xops) k s a Hsk) as [Hd _]. rewrite <- Hb in Hd.
  assert (Hn : new_dl (x_buf x) (step (x_buf x) (Arrive k s a)) = [mkD k s 0 true true]) by (apply new_dl_one; exact Hd).
  split; [exact Hn|].
  intros -> c Hc Hch. unfold x'. cbn [xstep x_chans]. rewrite Hn. cbn [fold_left deliver snd].
  exists (feed_one chf (mkD KDoc s 0 true true) c). split; [apply in_map; assumption|].
  assert (Hin : in_channel chf (mkD KDoc s 0 true true) c = true).
  { unfold in_channel. cbn [d_seq]. destruct Hch as [->|Hch]; [reflexivity|].
    apply orb_true_iff. right. apply memN_in. assumption. }
  unfold feed_one. cbn [is_doc d_kind d_late d_seq]. rewrite Hin. cbn [andb c_id c_valid c_late].
  repeat split. intros reg Hr.
  apply (late_since_cons reg c); [reflexivity | assumption].
Qed.
