(* C08 correspondence: traces observed on the real db.changeCache by the Go harness
   (harness/db/verif_c08_test.go) are replayed here on the model with vm_compute.  After every
   operation the harness records nextSequence, the pending (Sequence,EndSequence) pairs sorted, the
   receivedSeqs keys sorted, the keys (Start,End) of the skip list's elements one by one (the element structure
   matters: CleanSkippedSequenceQueue abandons whole elements), _getMaxStableCached, and the
   calls that reached the channel cache during the operation (kind, sequence, end, Skipped flag,
   whether the sequence was still in the skipped list at the time of the call); at the end of the
   trace, the sequences held by the "*" channel cache and its late-sequence log. *)
From SG Require Export Base.Prelude C08.SkippedSet C08.SeqBuffer C08.ChanLayer C08.SeqBufferInv C08.SeqBufferCons C08.DocFeed C08.DocFeedProofs C08.DocCheck.
Open Scope N_scope.

Record obs := mkO { o_next : N; o_pend : list (N * N); o_recv : list N; o_skip : list rng;
                    o_stable : N; o_dl : list dlv }.

(* Case: a trace of the sequence buffer with the final contents of the "*" channel cache and of its late log.
   XCase: a trace that also opens channel caches lazily (XOpen); final observation per channel cache:
   (channel id, validFrom, sequences in the channel log sorted, what a feed registered at creation reads from the
   late-sequence log, in arrival order).  Documents are in the channels [chf_bits] of their sequence number. *)
Inductive case :=
| Case (maxp initial : N) (steps : list (op * obs)) (star : list N) (late : list N)
| XCase (maxp initial : N) (steps : list (xop * obs)) (chans : list (N * N * list N * list N))
(* DCase: a feed of real events pushed through changeListener.ProcessFeedEvent -> changeCache.DocChanged (documents
   written to the bucket and read back with their xattrs and CAS, principal documents in the metadata store, unused-
   sequence keys); observation after every event; at the end the late-sequence log of the "*" channel cache of the
   documents' collection (the channel log itself keeps one entry per document id, which is C01's business).  [consistent] = the harness generated the feed as a consistent one: the
   decision procedure for docs_consistent must then say yes (the theorems' hypothesis holds of what was run). *)
| DCase (maxp initial : N) (steps : list (ditem * obs)) (late : list N) (consistent : bool)
(* PCase: operations, then ONE call of processEntry with change.Skipped preset (C08_Refuted.stale_skipped_flag_...) *)
| PCase (maxp initial : N) (pre : list op) (k : kind) (s : N) (aged : bool) (o : obs).

Definition chf_bits (s : N) : list N :=
  (if N.odd s then [1] else []) ++ (if N.odd (s / 2) then [2] else []).

Definition pair_eqb (a b : N * N) : bool := (fst a =? fst b) && (snd a =? snd b).
Definition pair_leb (a b : N * N) : bool := (fst a <? fst b) || ((fst a =? fst b) && (snd a <=? snd b)).

Fixpoint ins {A} (leb : A -> A -> bool) (x : A) (l : list A) : list A :=
  match l with [] => [x] | y :: r => if leb x y then x :: l else y :: ins leb x r end.
Definition isort {A} (leb : A -> A -> bool) (l : list A) : list A := fold_right (ins leb) [] l.

Definition dlv_eqb (a b : dlv) : bool :=
  kind_eqb (d_kind a) (d_kind b) && (d_seq a =? d_seq b) && (d_end a =? d_end b)
  && Bool.eqb (d_late a) (d_late b) && Bool.eqb (d_inskip a) (d_inskip b).

Definition obs_ok (old new : state) (o : obs) : bool :=
  (next new =? o_next o)
  && list_eqb pair_eqb (isort pair_leb (map (fun e => (e_seq e, e_end e)) (pending new))) (o_pend o)
  && list_eqb N.eqb (isort N.leb (received new)) (o_recv o)
  && list_eqb pair_eqb (skipped new) (o_skip o)
  && (stable new =? o_stable o)
  && list_eqb dlv_eqb (new_dl old new) (o_dl o).

Fixpoint steps_ok (st : state) (l : list (op * obs)) : option state :=
  match l with
  | [] => Some st
  | (o, ob) :: r => let st' := step st o in if obs_ok st st' ob then steps_ok st' r else None
  end.

Fixpoint dsteps_ok (st : state) (l : list (ditem * obs)) : option state :=
  match l with
  | [] => Some st
  | (it, ob) :: r => let st' := dstep st it in if obs_ok st st' ob then dsteps_ok st' r else None
  end.

Fixpoint xsteps_ok (x : xstate) (l : list (xop * obs)) : option xstate :=
  match l with
  | [] => Some x
  | (o, ob) :: r => let x' := xstep chf_bits x o in if obs_ok (x_buf x) (x_buf x') ob then xsteps_ok x' r else None
  end.

Definition chan_obs (c : chan) : N * N * list N * list N :=
  (c_id c, c_valid c, isort N.leb (c_logs c), late_since 0 c).
Definition chan_obs_eqb (a b : N * N * list N * list N) : bool :=
  match a, b with
  | (i1, v1, l1, t1), (i2, v2, l2, t2) => (i1 =? i2) && (v1 =? v2) && list_eqb N.eqb l1 l2 && list_eqb N.eqb t1 t2
  end.

Definition check (c : case) : bool :=
  match c with
  | Case m i steps star late =>
      match steps_ok (init i m) steps with
      | None => false
      | Some st =>
          let docs := rev (filter is_doc (delivered st)) in
          list_eqb N.eqb (isort N.leb (map d_seq docs)) star
          && list_eqb N.eqb (map d_seq (filter d_late docs)) late
      end
  | XCase m i steps chans =>
      match xsteps_ok (xinit i m) steps with
      | None => false
      | Some x => list_eqb chan_obs_eqb (map chan_obs (x_chans x)) chans
      end
  | DCase m i steps late consistent =>
      match dsteps_ok (init i m) steps with
      | None => false
      | Some st =>
          let docs := rev (filter is_doc (delivered st)) in
          list_eqb N.eqb (map d_seq (filter d_late docs)) late
          && (negb consistent || docs_consistent_b i (map fst steps))
      end
  | PCase m i pre k s aged o =>
      let st := run (init i m) pre in
      obs_ok st (process_entry_gen true st (mkE s 0 k aged)) o
  end.

Definition mismatches (cs : list case) : list N := failing check cs.

(* constructors used by the generated case files *)
Definition D (k : kind) (s e : N) (late inskip : bool) : dlv := mkD k s e late inskip.
Definition O (n : N) (p : list (N * N)) (r : list N) (s : list rng) (stb : N) (d : list dlv) : obs := mkO n p r s stb d.
