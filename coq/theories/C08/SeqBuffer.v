(* C08 -- executable model of the sequence-buffering state machine of db/change_cache.go
   (processEntry, _addToCache, _addPendingLogs, _popPendingLog, processUnusedRange,
   _pushRangeToPending, PushSkipped/RemoveSkipped/WasSkipped, _getMaxStableCached,
   getOldestSkippedSequence, CleanSkippedSequenceQueue) and of the low-sequence stamping of
   db/changes.go + SequenceID.SafeSequence.

   Conventions (DESIGN.md section 3): sequences are N; every method that runs under changeCache.lock is
   one atomic step; the timer (CachePendingSeqMaxWait) is replaced by an adversarial bit [e_aged]
   carried by each arriving entry; CacheSkippedSeqMaxWait by one adversarial bit per element of the skipped
   list ([AbandonSome]: CleanSkippedSequenceQueue abandons exactly the elements whose bit is set; [Abandon]:
   every element is old enough).  The pending heap (container/heap ordered by Sequence) is a list kept
   sorted by start sequence, new entries going after the entries with an equal start sequence: the
   order in which container/heap returns entries with EQUAL keys is not modelled (it only matters when
   two different entries with the same start sequence are pending, which a consistent feed cannot
   produce; the harness keeps its adversarial stream away from that case and says so). *)
From SG Require Import Base.Prelude C08.SkippedSet.
Open Scope N_scope.

Inductive kind := KDoc | KPrinc | KUnused.

Definition kind_eqb (a b : kind) : bool :=
  match a, b with KDoc, KDoc | KPrinc, KPrinc | KUnused, KUnused => true | _, _ => false end.

(* a LogEntry as far as buffering is concerned: Sequence, EndSequence (0 = single sequence),
   document / principal / unused, and whether TimeReceived is older than CachePendingSeqMaxWait *)
Record entry := mkE { e_seq : N; e_end : N; e_kind : kind; e_aged : bool }.

(* LogEntry.IsUnusedRange *)
Definition is_range (e : entry) : bool :=
  match e_kind e with KUnused => 0 <? e_end e | _ => false end.

(* what reaches the channel cache: AddToCache / AddPrincipal / AddUnusedSequence, with the entry's
   Skipped flag ([d_late]) and whether the sequence was still in the skipped list at that moment *)
Record dlv := mkD { d_kind : kind; d_seq : N; d_end : N; d_late : bool; d_inskip : bool }.

Record state := mkSt {
  initial : N;               (* changeCache.initialSequence *)
  maxp : N;                  (* options.CachePendingSeqMaxNum *)
  next : N;                  (* nextSequence *)
  pending : list entry;      (* pendingLogs *)
  received : list N;         (* receivedSeqs *)
  skipped : list rng;        (* skippedSeqs *)
  abandoned : list rng;      (* ghost: ranges dropped by CleanSkippedSequenceQueue *)
  delivered : list dlv       (* ghost: calls made to the channel cache, newest first *)
}.

Definition init (i m : N) : state := mkSt i m (i + 1) [] [] [] [] [].

Definition set_next (st : state) (n : N) : state :=
  mkSt (initial st) (maxp st) n (pending st) (received st) (skipped st) (abandoned st) (delivered st).
Definition set_pending (st : state) (p : list entry) : state :=
  mkSt (initial st) (maxp st) (next st) p (received st) (skipped st) (abandoned st) (delivered st).
Definition set_received (st : state) (r : list N) : state :=
  mkSt (initial st) (maxp st) (next st) (pending st) r (skipped st) (abandoned st) (delivered st).
Definition set_skipped (st : state) (s : list rng) : state :=
  mkSt (initial st) (maxp st) (next st) (pending st) (received st) s (abandoned st) (delivered st).

Definition memN (s : N) (l : list N) : bool := existsb (N.eqb s) l.
Definition removeN (s : N) (l : list N) : list N := filter (fun x => negb (x =? s)) l.

(* heap.Push *)
Fixpoint pq_push (x : entry) (l : list entry) : list entry :=
  match l with
  | [] => [x]
  | y :: r => if e_seq x <? e_seq y then x :: y :: r else y :: pq_push x r
  end.

(* _addToCache *)
Definition add_to_cache (st : state) (e : entry) (late : bool) : state :=
  let n1 := if next st <=? e_seq e then e_seq e + 1 else next st in
  let n2 := if e_end e =? 0 then n1 else e_end e + 1 in
  mkSt (initial st) (maxp st) n2 (pending st) (removeN (e_seq e) (received st)) (skipped st) (abandoned st)
       (mkD (e_kind e) (e_seq e) (e_end e) late (sk_mem (e_seq e) (skipped st)) :: delivered st).

(* _popPendingLog: pop the top entry; an unused range that collides with the following entry is
   dropped (same start) or truncated (overlap) *)
Fixpoint pop_pending (l : list entry) : option (entry * list entry) :=
  match l with
  | [] => None
  | p :: r =>
      if negb (is_range p) then Some (p, r)
      else match r with
           | [] => Some (p, r)
           | q :: _ =>
               if e_end p <? e_seq q then Some (p, r)
               else if e_seq p =? e_seq q then pop_pending r
               else Some (mkE (e_seq p) (e_seq q - 1) (e_kind p) (e_aged p), r)
           end
  end.

(* PushSkipped *)
Definition push_skipped (st : state) (lo hi : N) : state := set_skipped st (sk_push lo hi (skipped st)).

(* one iteration of the loop of _addPendingLogs; None = break *)
Definition add_pending_iter (st : state) : option state :=
  match pending st with
  | [] => None
  | p :: _ =>
      if e_seq p =? next st then
        match pop_pending (pending st) with
        | Some (e, r) => Some (add_to_cache (set_pending st r) e false)
        | None => None
        end
      else if e_seq p <? next st then
        match pop_pending (pending st) with
        | Some (e, r) =>
            let st1 := set_pending st r in
            Some (if is_range e && (next st <=? e_end e) then set_next st1 (e_end e + 1) else st1)
        | None => None
        end
      else if (maxp st <? N.of_nat (length (pending st))) || e_aged p then
        Some (set_next (push_skipped st (next st) (e_seq p - 1)) (e_seq p))
      else None
  end.

Fixpoint add_pending_loop (fuel : nat) (st : state) : state :=
  match fuel with
  | O => st
  | S f => match add_pending_iter st with Some st' => add_pending_loop f st' | None => st end
  end.

(* _addPendingLogs.  Every iteration pops an entry or is followed by one that does, so
   2*len+2 iterations always reach the break ([add_pending_done] proves it). *)
Definition add_pending (st : state) : state := add_pending_loop (2 * length (pending st) + 2) st.

(* processEntry for a single-sequence entry *)
Definition process_entry (st : state) (e : entry) : state :=
  let s := e_seq e in
  if (s <? next st) && negb (sk_mem s (skipped st)) then st            (* duplicate of a processed sequence *)
  else if memN s (received st) then st                                  (* duplicate of a pending sequence *)
  else
    let st1 := set_received st (s :: received st) in
    if (s =? next st) || (next st =? 0) then add_pending (add_to_cache st1 e false)
    else if next st <? s then
      let st2 := set_pending st1 (pq_push e (pending st1)) in
      if maxp st <? N.of_nat (length (pending st2)) then add_pending st2 else st2
    else if initial st <? s then
      (* previously skipped: cache first, then RemoveSkipped *)
      let st2 := add_to_cache st1 e true in
      set_skipped st2 (sk_diff s s (skipped st2))
    else st1.

(* processUnusedRange for lo < hi *)
Definition process_range (st : state) (lo hi : N) (aged : bool) : state :=
  if hi <? next st then set_skipped st (sk_diff lo hi (skipped st))
  else if next st <=? lo then add_pending (set_pending st (pq_push (mkE lo hi KUnused aged) (pending st)))
  else st.

Inductive op :=
| Arrive (k : kind) (s : N) (aged : bool)      (* processEntry / releaseUnusedSequence *)
| ArriveRange (lo hi : N) (aged : bool)        (* releaseUnusedSequenceRange *)
| Housekeep                                    (* InsertPendingEntries -> _addPendingLogs *)
| Abandon                                      (* CleanSkippedSequenceQueue with every element old enough *)
| AbandonSome (old : list bool).               (* CleanSkippedSequenceQueue: element j of the skip list is old enough
                                                  (timeNow - Timestamp >= CacheSkippedSeqMaxWait) iff bit j is set *)

Definition step (st : state) (o : op) : state :=
  match o with
  | Arrive k s a => process_entry st (mkE s 0 k a)
  | ArriveRange lo hi a =>
      if lo =? hi then process_entry st (mkE hi 0 KUnused a)
      else if hi <? lo then st        (* malformed range: outside the model, excluded by [op_wf] *)
      else process_range st lo hi a
  | Housekeep => add_pending st
  | Abandon =>
      mkSt (initial st) (maxp st) (next st) (pending st) (received st) [] (skipped st ++ abandoned st) (delivered st)
  | AbandonSome old =>
      let kd := sk_split old (skipped st) in
      mkSt (initial st) (maxp st) (next st) (pending st) (received st) (fst kd) (snd kd ++ abandoned st) (delivered st)
  end.

Fixpoint run (st : state) (ops : list op) : state :=
  match ops with [] => st | o :: r => run (step st o) r end.

(* _getMaxStableCached *)
Definition stable (st : state) : N :=
  let o := sk_oldest (skipped st) in if 0 <? o then o - 1 else next st - 1.

(* db/changes.go: lowSequence stamped on every row of a changes response (0 = none) *)
Definition low_seq (st : state) : N :=
  let o := sk_oldest (skipped st) in if 0 <? o then o - 1 else 0.

(* SequenceID{LowSeq: low, Seq: q}.SafeSequence(): where a client holding that row resumes from *)
Definition safe_seq (low q : N) : N := if (0 <? low) && (low <? q) then low else q.
