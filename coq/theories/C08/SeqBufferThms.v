(* C08 -- the property statements, derived from the invariants *)
From SG Require Import Base.Prelude C08.SkippedSet C08.SkippedSetProofs C08.SeqBuffer C08.SeqBufferInv C08.SeqBufferCons.
Open Scope N_scope.

Definition delivered_ev (st : state) (k : kind) (s : N) : Prop :=
  exists d, In d (delivered st) /\ d_kind d = k /\ d_seq d = s /\ d_end d = 0.
Definition pending_ev (st : state) (k : kind) (s : N) : Prop :=
  exists p, In p (pending st) /\ e_kind p = k /\ e_seq p = s /\ e_end p = 0.

Lemma thm_at_most_once : forall i m ops, NoDup (map d_seq (delivered (run (init i m) ops))).
Proof. intros. destruct (run_I0 i m ops) as [L _]. apply (li_nodup _ _ _ _ L). Qed.

Lemma thm_arrival_not_lost : forall i m ops k s a,
  feed_consistent ops -> ops_wf i ops -> In (Arrive k s a) ops -> i < s ->
  let st := run (init i m) ops in
  delivered_ev st k s \/ pending_ev st k s \/ sk_mem s (abandoned st) = true.
Proof.
  intros i m ops k s a C W Hin Hs st. destruct (run_I1 i m ops C W) as [_ L1].
  apply (l1_single _ _ _ L1); [|assumption]. exists (Arrive k s a). split; [now apply -> in_rev | reflexivity].
Qed.

Lemma thm_hwm : forall i m ops, let st := run (init i m) ops in
  i < next st /\
  forall s, i < s -> s < next st -> covered ops s \/ sk_mem s (skipped st) = true \/ sk_mem s (abandoned st) = true.
Proof.
  intros i m ops st. destruct (run_I0 i m ops) as [L _]. split; [apply (li_next _ _ _ _ L)|].
  intros s H1 H2. destruct (li_hwm _ _ _ _ L s H1 H2) as [H|H]; [left; now apply covered_rev | now right].
Qed.

Lemma thm_skipped_exact : forall i m ops, feed_consistent ops -> ops_wf i ops ->
  let st := run (init i m) ops in
  forall s, sk_mem s (skipped st) = true <->
            (i < s /\ s < next st /\ ~ covered ops s /\ sk_mem s (abandoned st) = false).
Proof.
  intros i m ops C W st s. destruct (run_I1 i m ops C W) as [[L _] L1]. fold st in L, L1. split.
  - intros H. pose proof (sk_wf_from_lb _ _ _ (li_skwf _ _ _ _ L) H). pose proof (sk_below_mem _ _ _ (li_skbelow _ _ _ _ L) H).
    repeat split; try lia.
    + intros Hc. apply (l1_skip _ _ _ L1 s H). now apply covered_rev.
    + destruct (sk_mem s (abandoned st)) eqn:E; [|reflexivity]. pose proof (li_absk _ _ _ _ L s E). congruence.
  - intros [H1 [H2 [H3 H4]]]. destruct (li_hwm _ _ _ _ L s H1 H2) as [H|[H|H]]; [|assumption|congruence].
    exfalso. apply H3. now apply covered_rev.
Qed.

Lemma thm_late : forall i m ops k s a, let st := run (init i m) ops in
  sk_mem s (skipped st) = true ->
  let st' := step st (Arrive k s a) in
  delivered st' = mkD k s 0 true true :: delivered st
  /\ skipped st' = sk_diff s s (skipped st)
  /\ sk_mem s (skipped st') = false
  /\ (forall s', s' <> s -> sk_mem s' (skipped st') = sk_mem s' (skipped st))
  /\ next st' = next st /\ pending st' = pending st.
Proof.
  intros i m ops k s a st Hsk st'. destruct (run_I0 i m ops) as [L _]. fold st in L.
  pose proof (sk_wf_from_lb _ _ _ (li_skwf _ _ _ _ L) Hsk) as Hlb.
  pose proof (sk_below_mem _ _ _ (li_skbelow _ _ _ _ L) Hsk) as Hlt.
  assert (Hr : memN s (received st) = false).
  { destruct (memN s (received st)) eqn:E; [|reflexivity]. apply memN_in in E.
    destruct (li_recv _ _ _ _ L s E). congruence. }
  assert (Hi : initial st = i) by apply (li_init _ _ _ _ L).
  assert (E : st' = set_skipped (add_to_cache (set_received st (s :: received st)) (mkE s 0 k a) true)
                      (sk_diff s s (skipped st))).
  { unfold st', step, process_entry. cbn [e_seq e_end e_kind].
    rewrite Hsk. cbn [negb]. rewrite andb_false_r, Hr.
    assert (E1 : (s =? next st) || (next st =? 0) = false) by lia. rewrite E1.
    cbn [set_received next initial]. assert (E2 : next st <? s = false) by lia. rewrite E2.
    assert (E3 : initial st <? s = true) by lia. rewrite E3. reflexivity. }
  rewrite E. cbn [set_skipped add_to_cache set_received delivered skipped next pending e_seq e_end e_kind].
  rewrite Hsk. repeat split.
  - rewrite sk_mem_diff, Hsk, !N.leb_refl. reflexivity.
  - intros s' Hne. rewrite sk_mem_diff. destruct (sk_mem s' (skipped st)); [|reflexivity]. cbn. apply negb_true_iff. lia.
  - cbn. destruct (next st <=? s) eqn:E4; [lia | reflexivity].
Qed.

Lemma thm_stable : forall i m ops, let st := run (init i m) ops in
  (forall s, sk_mem s (skipped st) = true -> stable st < s)
  /\ stable st < next st
  /\ (forall s, i < s -> s <= stable st -> covered ops s \/ sk_mem s (abandoned st) = true).
Proof.
  intros i m ops st. destruct (run_I0 i m ops) as [L _]. fold st in L.
  pose proof (li_skwf _ _ _ _ L) as Wf. pose proof (li_skbelow _ _ _ _ L) as Bl. pose proof (li_next _ _ _ _ L) as Hn.
  unfold stable. split; [|split].
  - intros s H. destruct (sk_oldest_min _ _ _ Wf H) as [H1 H2].
    assert (0 <? sk_oldest (skipped st) = true) by lia. rewrite H0. lia.
  - destruct (0 <? sk_oldest (skipped st)) eqn:E; [|lia].
    destruct (skipped st) as [|[a b] r] eqn:Es; [cbn in E; lia|]. cbn [sk_oldest] in *.
    cbn in Wf. specialize (Bl a b (or_introl eq_refl)). lia.
  - intros s H1 H2. destruct (0 <? sk_oldest (skipped st)) eqn:E.
    + assert (Hns : sk_mem s (skipped st) = false).
      { destruct (sk_mem s (skipped st)) eqn:E2; [|reflexivity]. destruct (sk_oldest_min _ _ _ Wf E2). lia. }
      assert (Hlt : s < next st).
      { destruct (skipped st) as [|[a b] r] eqn:Es; [cbn in E; lia|]. cbn [sk_oldest] in *.
        cbn in Wf. specialize (Bl a b (or_introl eq_refl)). lia. }
      destruct (li_hwm _ _ _ _ L s H1 Hlt) as [H|[H|H]]; [left; now apply covered_rev | congruence | now right].
    + assert (Hemp : skipped st = []) by (apply (sk_oldest_zero _ _ Wf); lia).
      destruct (li_hwm _ _ _ _ L s H1 ltac:(lia)) as [H|[H|H]]; [left; now apply covered_rev | | now right].
      rewrite Hemp in H. discriminate.
Qed.

Lemma thm_resume : forall i m ops, 0 < i -> let st := run (init i m) ops in
  forall s q, sk_mem s (skipped st) = true -> safe_seq (low_seq st) q < s.
Proof.
  intros i m ops Hi st s q H. destruct (run_I0 i m ops) as [L _]. fold st in L.
  destruct (sk_oldest_min _ _ _ (li_skwf _ _ _ _ L) H) as [H1 H2].
  unfold safe_seq, low_seq. assert (0 <? sk_oldest (skipped st) = true) by lia. rewrite H0.
  destruct ((0 <? sk_oldest (skipped st) - 1) && (sk_oldest (skipped st) - 1 <? q)) eqn:E; lia.
Qed.

Lemma thm_next_monotone : forall i m ops o, next (run (init i m) ops) <= next (run (init i m) (ops ++ [o])).
Proof. intros. rewrite run_app. eapply step_next_mono. apply run_I0. Qed.

Lemma thm_received_exact : forall i m ops, feed_consistent ops -> ops_wf i ops ->
  let st := run (init i m) ops in
  forall s, In s (received st) <-> exists p, In p (pending st) /\ e_seq p = s /\ e_end p = 0.
Proof.
  intros i m ops C W st s. destruct (run_I1 i m ops C W) as [_ L1]. fold st in L1. split.
  - apply (l1_recv _ _ _ L1).
  - intros [p [P1 [P2 P3]]]. subst s. apply (l1_J _ _ _ L1); assumption.
Qed.
