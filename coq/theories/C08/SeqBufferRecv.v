(* C08 -- the two observations made about _addPendingLogs / _popPendingLog, decided.

   (a) "The branch 'oldest pending < nextSequence' drops the popped entry without deleting it from
       receivedSeqs."  Harmless on EVERY feed, consistent or not: that branch only ever drops unused RANGES
       (which are never in receivedSeqs); a buffered single sequence is never below nextSequence.  Hence
       receivedSeqs is exactly the set of buffered single sequences for every operation list ([LI2],
       [run_I2]) -- C08_seqbuf_received_exact without its two hypotheses.

   (b) "The outcome depends on the order in which container/heap returns a single sequence s and a range
       starting at s."  On a consistent feed two pending entries with one start sequence are copies of one
       unused-range event (same kind, same end) and a single sequence never shares its start with anything
       ([pending_ties]); on an inconsistent feed the order does matter (C08_Refuted.tie_order_matters). *)
From SG Require Import Base.Prelude C08.SkippedSet C08.SkippedSetProofs C08.SeqBuffer C08.SeqBufferInv C08.SeqBufferCons.
Open Scope N_scope.

Record LI2 (st : state) : Prop := {
  l2_T : forall p, In p (pending st) -> e_end p = 0 \/ is_range p = true;
  l2_J : forall p, In p (pending st) -> e_end p = 0 -> In (e_seq p) (received st);
  l2_R : forall s, In s (received st) -> exists p, In p (pending st) /\ e_seq p = s /\ e_end p = 0;
  l2_K : NoDup (map e_seq (filter single (pending st)));
  l2_W : forall p, In p (pending st) -> e_end p = 0 -> next st <= e_seq p
}.

Lemma LI2_init : forall i m, LI2 (init i m).
Proof.
  intros. constructor; cbn; try (intros ? []); try (intros ? ? []). constructor.
Qed.

Lemma range_not_single : forall p, is_range p = true -> e_end p <> 0.
Proof. intros p H. unfold is_range in H. destruct (e_kind p); try discriminate. lia. Qed.

Lemma sorted_head_le : forall lb q r x, sorted_from lb (q :: r) -> In x (q :: r) -> e_seq q <= e_seq x.
Proof.
  intros lb q r x [_ H] [<-|Hin]; [lia|]. apply (sorted_from_in _ _ _ H Hin).
Qed.

(* what the pop leaves behind, for a queue satisfying the invariants *)
Lemma pop_facts2 : forall i m h st e r,
  LI0 i m h st -> LI2 st -> pop_pending (pending st) = Some (e, r) ->
  (forall x, In x r -> In x (pending st))
  /\ NoDup (map e_seq (filter single r))
  /\ (forall x, In x (pending st) -> e_end x = 0 -> In x r \/ (e_end e = 0 /\ e_seq x = e_seq e))
  /\ (forall x, In x r -> e_end x = 0 -> e_seq x <> e_seq e)
  /\ (forall x, In x r -> e_end x = 0 -> e_end e <> 0 -> e_end e < e_seq x)
  /\ (exists p0 l0, pending st = p0 :: l0 /\ e_seq e = e_seq p0)
  /\ (e_end e = 0 \/ is_range e = true)
  /\ e_seq e <= e_hi e.
Proof.
  intros i m h st e r L0 L2 Hpop.
  destruct (pop_spec _ _ _ Hpop) as [pre [e0 [Hl [Hpre [Hse [Hk Hc]]]]]].
  destruct (popped_facts i h _ _ _ (li_pend _ _ _ _ L0) (li_sorted _ _ _ _ L0) Hpop) as [F1 [F2 [F3 [F4 [F5 [F6 F8]]]]]].
  destruct L2 as [T J R K W].
  assert (He0 : In e0 (pending st)) by (rewrite Hl; apply in_or_app; right; now left).
  assert (Hr : forall x, In x r -> In x (pending st)) by (intros x Hx; rewrite Hl; apply in_or_app; right; now right).
  assert (Hsr : sorted_from (e_seq e0) r).
  { pose proof (li_sorted _ _ _ _ L0) as S. rewrite Hl in S. apply sorted_from_app_r in S. cbn in S. tauto. }
  destruct (nodup_single_suffix _ _ _ ltac:(rewrite <- Hl; exact K)) as [K1 K2].
  destruct (li_pend _ _ _ _ L0 _ He0) as [_ [P0 _]].
  (* nothing left in the queue starts where a popped RANGE started *)
  assert (Hrng : forall x, In x r -> e_end e0 <> 0 -> e_seq x <> e_seq e0 /\ e_end e <> 0 /\ e_end e < e_seq x).
  { intros x Hx Hne. destruct (T _ He0) as [T0|T0]; [congruence|].
    destruct r as [|q r']; [destruct Hx|]. pose proof (sorted_head_le _ _ _ _ Hsr Hx) as Hqx.
    assert (Hq0 : e_seq e0 <= e_seq q) by (cbn in Hsr; tauto).
    rewrite (e_hi_range _ Hne) in P0. destruct (li_pend _ _ _ _ L0 _ He0) as [I0 _].
    destruct Hc as [[-> Hnov]|[_ [q' [r'' [Hrq [Hneq [Hle ->]]]]]]].
    - specialize (Hnov T0 q r' eq_refl). repeat split; lia.
    - inversion Hrq; subst q' r''. cbn [e_end e_seq]. repeat split; lia. }
  repeat split.
  - exact Hr.
  - exact K1.
  - intros x Hx Sx. rewrite Hl in Hx. apply in_app_or in Hx as [Hx|[Hx|Hx]]; [| |now left].
    + destruct (Hpre _ Hx) as [Rg _]. apply range_not_single in Rg. congruence.
    + subst x. right. destruct Hc as [[-> _]|[Rg _]]; [split; [assumption | reflexivity]|].
      apply range_not_single in Rg. congruence.
  - intros x Hx Sx. rewrite Hse. destruct (N.eq_dec (e_end e0) 0) as [S0|S0].
    + apply (K2 ltac:(unfold single; lia) x Hx ltac:(unfold single; lia)).
    + apply (Hrng x Hx S0).
  - intros x Hx Sx Hne. destruct (N.eq_dec (e_end e0) 0) as [S0|S0].
    + destruct Hc as [[-> _]|[Rg _]]; [congruence | apply range_not_single in Rg; congruence].
    + apply (Hrng x Hx S0).
  - exact F6.
  - destruct Hc as [[-> _]|[Rg [q' [r'' [Hrq [Hneq [Hle ->]]]]]]]; [apply T; assumption|].
    right. unfold is_range in *. cbn [e_kind e_end e_seq]. destruct (e_kind e0); try discriminate.
    assert (Hq0 : e_seq e0 <= e_seq q') by (rewrite Hrq in Hsr; cbn in Hsr; tauto).
    destruct (li_pend _ _ _ _ L0 _ He0) as [I0 _]. lia.
  - exact F2.
Qed.

Lemma next_add_to_cache : forall st e late, next st <= e_seq e -> e_seq e <= e_hi e ->
  next (add_to_cache st e late) = e_hi e + 1.
Proof.
  intros st e late H1 H2. unfold add_to_cache, e_hi in *; cbn. destruct (e_end e =? 0); [|reflexivity].
  destruct (next st <=? e_seq e) eqn:E; [reflexivity | lia].
Qed.

Lemma iter_LI2 : forall i m h st st', LI0 i m h st -> LI2 st -> add_pending_iter st = Some st' -> LI2 st'.
Proof.
  intros i m h st st' L0 L2 H. unfold add_pending_iter in H.
  destruct (pending st) as [|p l] eqn:Ep; [discriminate|].
  destruct (e_seq p =? next st) eqn:E1.
  { destruct (pop_pending (p :: l)) as [[e r]|] eqn:Epop; [|discriminate]. inversion H; subst st'; clear H.
    rewrite <- Ep in Epop.
    destruct (pop_facts2 _ _ _ _ _ _ L0 L2 Epop) as [Hr [K1 [Hsplit [Hne [Hgt [[p0 [l0 [F6 F7]]] [Te Fhi]]]]]]].
    rewrite Ep in F6. inversion F6; subst p0 l0; clear F6.
    assert (Hn : next (add_to_cache (set_pending st r) e false) = e_hi e + 1) by (apply next_add_to_cache; cbn; lia).
    destruct L2 as [T J R K W].
    constructor; rewrite ?Hn; cbn [add_to_cache set_pending pending received].
    - intros x Hx. apply T. auto.
    - intros x Hx Sx. apply removeN_in. split; [apply J; auto | apply Hne; assumption].
    - intros s Hs. apply removeN_in in Hs as [Hs1 Hs2]. destruct (R _ Hs1) as [x [X1 [X2 X3]]].
      destruct (Hsplit x X1 X3) as [X4|[_ X4]]; [exists x; auto | congruence].
    - exact K1.
    - intros x Hx Sx. destruct (N.eq_dec (e_end e) 0) as [S0|S0].
      + rewrite (e_hi_single _ S0). specialize (Hne x Hx Sx). specialize (W x (Hr _ Hx) Sx). lia.
      + rewrite (e_hi_range _ S0). specialize (Hgt x Hx Sx S0). lia. }
  destruct (e_seq p <? next st) eqn:E2.
  { destruct (pop_pending (p :: l)) as [[e r]|] eqn:Epop; [|discriminate]. inversion H; subst st'; clear H.
    rewrite <- Ep in Epop.
    destruct (pop_facts2 _ _ _ _ _ _ L0 L2 Epop) as [Hr [K1 [Hsplit [Hne [Hgt [[p0 [l0 [F6 F7]]] [Te Fhi]]]]]]].
    rewrite Ep in F6. inversion F6; subst p0 l0; clear F6.
    destruct L2 as [T J R K W].
    (* the dropped entry is a range: a buffered single sequence is never below nextSequence *)
    assert (Hrange : e_end e <> 0).
    { intros S0. assert (Hin : exists x, In x (pending st) /\ e_end x = 0 /\ e_seq x = e_seq e).
      { destruct (pop_spec _ _ _ Epop) as [pre [e0 [Hl [Hpre [Hse [Hk Hc]]]]]].
        exists e0. split; [rewrite Hl; apply in_or_app; right; now left|].
        destruct Hc as [[-> _]|[_ [q' [r'' [Hrq [Hneq [_ Ee]]]]]]]; [split; [assumption | reflexivity]|].
        exfalso. rewrite Ee in S0. cbn in S0.
        assert (He0 : In e0 (pending st)) by (rewrite Hl; apply in_or_app; right; now left).
        destruct (li_pend _ _ _ _ L0 _ He0) as [I0 _].
        pose proof (li_sorted _ _ _ _ L0) as S. rewrite Hl, Hrq in S. apply sorted_from_app_r in S. cbn in S. lia. }
      destruct Hin as [x [X1 [X2 X3]]]. specialize (W x X1 X2). lia. }
    assert (Hp : forall st2, pending st2 = r -> received st2 = received st -> (next st2 = next st \/ next st2 = e_end e + 1) -> LI2 st2).
    { intros st2 P1 P2 P3. constructor; rewrite ?P1, ?P2.
      - intros x Hx. apply T. auto.
      - intros x Hx Sx. apply J; auto.
      - intros s Hs. destruct (R _ Hs) as [x [X1 [X2 X3]]].
        destruct (Hsplit x X1 X3) as [X4|[X4 _]]; [exists x; auto | congruence].
      - exact K1.
      - intros x Hx Sx. destruct P3 as [->| ->]; [apply W; auto|]. specialize (Hgt x Hx Sx Hrange). lia. }
    destruct (is_range e && (next st <=? e_end e)); apply Hp; cbn; auto. }
  destruct ((maxp st <? N.of_nat (length (p :: l))) || e_aged p) eqn:E3; [|discriminate].
  inversion H; subst st'; clear H. destruct L2 as [T J R K W].
  constructor; cbn [set_next push_skipped set_skipped pending received next]; try assumption.
  intros x Hx Sx. pose proof (li_sorted _ _ _ _ L0) as S. rewrite Ep in S, Hx. apply (sorted_head_le _ _ _ _ S Hx).
Qed.

Lemma loop_LI2 : forall fuel i m h st, LI0 i m h st -> LI2 st -> LI2 (add_pending_loop fuel st).
Proof.
  induction fuel as [|f IH]; intros i m h st L0 L2; cbn; [assumption|].
  destruct (add_pending_iter st) as [st'|] eqn:E; [|assumption].
  apply (IH i m h); [eapply iter_LI0; eassumption | eapply iter_LI2; eassumption].
Qed.

Lemma add_pending_LI2 : forall i m h st, LI0 i m h st -> LI2 st -> LI2 (add_pending st).
Proof. intros. unfold add_pending. eapply loop_LI2; eassumption. Qed.

Lemma process_entry_LI2 : forall i m h st e,
  I0 i m h st -> LI2 st -> e_end e = 0 -> covered h (e_seq e) -> LI2 (process_entry st e).
Proof.
  intros i m h st e [L Q] L2 He Hc. unfold process_entry.
  destruct ((e_seq e <? next st) && negb (sk_mem (e_seq e) (skipped st))) eqn:E1; [assumption|].
  destruct (memN (e_seq e) (received st)) eqn:E2; [assumption|].
  assert (Hnr : ~ In (e_seq e) (received st)) by (intros Hin; apply memN_in in Hin; congruence).
  assert (Hnz : next st =? 0 = false) by (destruct L; lia).
  rewrite Hnz, orb_false_r.
  destruct (e_seq e =? next st) eqn:E3.
  { apply (add_pending_LI2 i m h); [apply direct_LI0; try assumption; [lia | intros s [<-|Hs]; auto]|].
    assert (Hn : next (add_to_cache (set_received st (e_seq e :: received st)) e false) = next st + 1).
    { rewrite next_atc_single by assumption. cbn. destruct (next st <=? e_seq e) eqn:E; lia. }
    destruct L2 as [T J R K W].
    constructor; rewrite ?Hn; cbn [add_to_cache set_received pending received]; try assumption.
    - intros x Hx Sx. apply removeN_in. split; [right; auto|]. intros Heq. apply Hnr. rewrite <- Heq. auto.
    - intros s Hs. apply removeN_in in Hs as [[Hs|Hs] Hs2]; [congruence | auto].
    - intros x Hx Sx. specialize (W x Hx Sx). assert (e_seq x <> e_seq e) by (intros Heq; apply Hnr; rewrite <- Heq; auto). lia. }
  cbn [set_received next pending maxp initial].
  destruct (next st <? e_seq e) eqn:E4.
  { assert (Hhi : e_hi e = e_seq e) by (apply e_hi_single; assumption).
    assert (LP : LI0 i m h (set_pending (set_received st (e_seq e :: received st)) (pq_push e (pending st)))).
    { apply push_LI0; rewrite ?Hhi; try assumption; try lia; [|intros s [<-|Hs]; auto].
      intros s S1 S2. replace s with (e_seq e) by lia. assumption. }
    assert (L2P : LI2 (set_pending (set_received st (e_seq e :: received st)) (pq_push e (pending st)))).
    { destruct L2 as [T J R K W]. constructor; cbn [set_pending set_received pending received next].
      - intros x Hx. apply in_pq_push in Hx as [->|Hx]; [now left | auto].
      - intros x Hx Sx. apply in_pq_push in Hx as [->|Hx]; [now left | right; auto].
      - intros s [<-|Hs].
        + exists e. split; [apply in_pq_push; now left | auto].
        + destruct (R s Hs) as [x [X1 X2]]. exists x. split; [apply in_pq_push; now right | assumption].
      - apply filter_single_push; [assumption|]. intros _ Hin. apply in_map_iff in Hin as [x [X1 X2]].
        apply filter_In in X2 as [X2 X3]. apply Hnr. rewrite <- X1. apply J; [assumption | unfold single in X3; lia].
      - intros x Hx Sx. apply in_pq_push in Hx as [->|Hx]; [lia | auto]. }
    match goal with |- context[if ?c then _ else _] => destruct c end; [|assumption].
    apply (add_pending_LI2 i m h); assumption. }
  destruct (initial st <? e_seq e) eqn:E5.
  { assert (Hn : next (add_to_cache (set_received st (e_seq e :: received st)) e true) = next st).
    { rewrite next_atc_single by assumption. cbn. destruct (next st <=? e_seq e) eqn:E; lia. }
    destruct L2 as [T J R K W].
    constructor; cbn [set_skipped pending received next]; rewrite ?Hn; cbn [add_to_cache set_received pending received]; try assumption.
    - intros x Hx Sx. apply removeN_in. split; [right; auto|]. specialize (W x Hx Sx). lia.
    - intros s Hs. apply removeN_in in Hs as [[Hs|Hs] Hs2]; [congruence | auto]. }
  exfalso.
  assert (Hsk : sk_mem (e_seq e) (skipped st) = true).
  { destruct (sk_mem (e_seq e) (skipped st)); [reflexivity|]. cbn in E1. lia. }
  pose proof (sk_wf_from_lb _ _ _ (li_skwf _ _ _ _ L) Hsk). destruct L. lia.
Qed.

Lemma process_range_LI2 : forall i m h st lo hi a,
  I0 i m h st -> LI2 st -> lo < hi -> (forall s, lo <= s -> s <= hi -> covered h s) -> LI2 (process_range st lo hi a).
Proof.
  intros i m h st lo hi a [L Q] L2 Hlh Hc. unfold process_range.
  destruct (hi <? next st) eqn:E1.
  { destruct L2. constructor; cbn [set_skipped pending received next]; assumption. }
  destruct (next st <=? lo) eqn:E2; [|assumption].
  set (e := mkE lo hi KUnused a).
  replace (set_pending st (pq_push e (pending st)))
    with (set_pending (set_received st (received st)) (pq_push e (pending st))) by (destruct st; reflexivity).
  assert (Hhi : e_hi e = hi) by (unfold e_hi; cbn; destruct (hi =? 0) eqn:E; lia).
  apply (add_pending_LI2 i m h).
  { apply push_LI0; rewrite ?Hhi; cbn [e_seq e]; try assumption; try lia. intros s Hs; now left. }
  destruct L2 as [T J R K W]. constructor; cbn [set_pending set_received pending received next].
  - intros x Hx. apply in_pq_push in Hx as [->|Hx]; [right; unfold is_range; cbn; lia | auto].
  - intros x Hx Sx. apply in_pq_push in Hx as [->|Hx]; [cbn in Sx; lia | auto].
  - intros s Hs. destruct (R s Hs) as [x [X1 X2]]. exists x. split; [apply in_pq_push; now right | assumption].
  - apply filter_single_push; [assumption|]. unfold single; cbn. intros X. lia.
  - intros x Hx Sx. apply in_pq_push in Hx as [->|Hx]; [cbn in Sx; lia | auto].
Qed.

Lemma step_LI2 : forall i m h st o, I0 i m h st -> LI2 st -> LI2 (step st o).
Proof.
  intros i m h st o I L2.
  assert (I' : I0 i m (o :: h) st) by (destruct I as [L Q]; split; [apply LI0_cons; assumption | assumption]).
  destruct o as [k s a|lo hi a| | |old]; cbn [step].
  - apply (process_entry_LI2 i m (Arrive k s a :: h)); [assumption | assumption | reflexivity |].
    exists (Arrive k s a). split; [now left | cbn; apply N.eqb_refl].
  - destruct (lo =? hi) eqn:E1.
    + apply (process_entry_LI2 i m (ArriveRange lo hi a :: h)); [assumption | assumption | reflexivity |].
      exists (ArriveRange lo hi a). split; [now left | cbn; lia].
    + destruct (hi <? lo) eqn:E2; [assumption|].
      apply (process_range_LI2 i m (ArriveRange lo hi a :: h)); [assumption | assumption | lia |].
      intros s S1 S2. exists (ArriveRange lo hi a). split; [now left | cbn; lia].
  - apply (add_pending_LI2 i m h); [apply I | assumption].
  - destruct L2. constructor; cbn [pending received next]; assumption.
  - destruct L2. constructor; cbn [pending received next]; assumption.
Qed.

Lemma run_I2 : forall i m ops, LI2 (run (init i m) ops).
Proof.
  intros i m ops. induction ops as [|o ops IH] using rev_ind; [apply LI2_init|].
  rewrite run_app. eapply step_LI2; [apply run_I0 | assumption].
Qed.

(* (a): receivedSeqs = the buffered single sequences, for EVERY operation list *)
Lemma thm_received_exact_all : forall i m ops, let st := run (init i m) ops in
  forall s, In s (received st) <-> exists p, In p (pending st) /\ e_seq p = s /\ e_end p = 0.
Proof.
  intros i m ops st s. destruct (run_I2 i m ops) as [T J R K W]. fold st in T, J, R, K, W. split.
  - apply R.
  - intros [p [P1 [P2 P3]]]. subst s. apply J; assumption.
Qed.

(* (a'): what the 'oldest pending < nextSequence' branch pops is never a single sequence: in every state the
   loop of _addPendingLogs can be in (any number of iterations from any reachable state), a buffered single
   sequence is at or above nextSequence *)
Lemma thm_singles_never_stale : forall i m ops k, let st := add_pending_loop k (run (init i m) ops) in
  forall p, In p (pending st) -> e_end p = 0 -> next st <= e_seq p.
Proof.
  intros i m ops k st. destruct (run_I0 i m ops) as [L0 _].
  apply (l2_W st). unfold st. apply (loop_LI2 k i m (rev ops)); [assumption | apply run_I2].
Qed.

(* (b): on a consistent feed, pending entries that share a start sequence are copies of one event *)
Lemma pending_ties : forall i m h st p q,
  feed_consistent h -> LI0 i m h st -> LI1 i h st ->
  In p (pending st) -> In q (pending st) -> e_seq p = e_seq q ->
  e_kind p = e_kind q /\ e_end p = e_end q.
Proof.
  intros i m h st p q C L0 L1 Hp Hq Heq.
  destruct (l1_ev _ _ _ L1 _ Hp) as [Vp Sp]. destruct (l1_ev _ _ _ L1 _ Hq) as [Vq Sq].
  destruct (li_pend _ _ _ _ L0 _ Hp) as [_ [P2 _]]. destruct (li_pend _ _ _ _ L0 _ Hq) as [_ [Q2 _]].
  assert (E : entry_ev p = entry_ev q) by (apply (overlap_same h); try assumption; unfold entry_ev, ev_lo, ev_hi; cbn; lia).
  unfold entry_ev in E. injection E as Ek _ Eh. split; [assumption|].
  destruct Sp as [Sp|[_ Sp]], Sq as [Sq|[_ Sq]].
  - congruence.
  - rewrite (e_hi_single _ Sp), e_hi_range in Eh by lia. lia.
  - rewrite (e_hi_single _ Sq), e_hi_range in Eh by lia. lia.
  - rewrite !e_hi_range in Eh by lia. assumption.
Qed.

Lemma thm_pending_ties : forall i m ops, feed_consistent ops -> ops_wf i ops ->
  let st := run (init i m) ops in
  forall p q, In p (pending st) -> In q (pending st) -> e_seq p = e_seq q ->
    e_kind p = e_kind q /\ e_end p = e_end q /\ (e_end p = 0 -> NoDup (map e_seq (filter single (pending st)))).
Proof.
  intros i m ops C W st p q Hp Hq Heq. destruct (run_I1 i m ops C W) as [[L0 _] L1]. fold st in L0, L1.
  destruct (pending_ties i m (rev ops) st p q (feed_consistent_rev _ C) L0 L1 Hp Hq Heq) as [A B].
  split; [assumption | split; [assumption|]]. intros _. apply (l1_K _ _ _ L1).
Qed.

(* partial abandonment: CleanSkippedSequenceQueue removes exactly the elements that are old enough, nothing else
   changes, and an abandoned sequence that turns up afterwards is ignored (it is below nextSequence and no longer
   skipped): abandoning is giving up for good *)
Lemma thm_partial_abandon : forall i m ops bits, let st := run (init i m) ops in
  let st' := step st (AbandonSome bits) in
  let gone := snd (sk_split bits (skipped st)) in
  skipped st' = fst (sk_split bits (skipped st)) /\ abandoned st' = gone ++ abandoned st
  /\ (forall s, sk_mem s (skipped st) = sk_mem s (skipped st') || sk_mem s gone)
  /\ (forall s, sk_mem s gone = true -> sk_mem s (skipped st') = false)
  /\ next st' = next st /\ pending st' = pending st /\ received st' = received st /\ delivered st' = delivered st
  /\ (forall k s a, sk_mem s (abandoned st') = true -> step st' (Arrive k s a) = st').
Proof.
  intros i m ops bits st st' gone. destruct (run_I0 i m ops) as [L Q]. fold st in L, Q.
  repeat split; try reflexivity.
  - intros s. apply sk_mem_split.
  - intros s Hs. apply (sk_split_disjoint s bits _ _ (li_skwf _ _ _ _ L) Hs).
  - intros k s a Hs.
    assert (I' : I0 i m (AbandonSome bits :: rev ops) st') by (apply step_I0; split; assumption).
    destruct I' as [L' _]. cbn [step]. unfold process_entry. cbn [e_seq].
    pose proof (sk_below_mem _ _ _ (li_abbelow _ _ _ _ L') Hs) as Hlt. rewrite (li_absk _ _ _ _ L' s Hs).
    assert (E : (s <? next st') = true) by lia. rewrite E. reflexivity.
Qed.
