(* C08 -- invariants that need a consistent feed: every two arrival events are the same event or
   concern disjoint sequence numbers (what the sequence allocator, C07, guarantees upstream), and an
   unused range does not straddle the sequence the cache started from. *)
From SG Require Import Base.Prelude C08.SkippedSet C08.SkippedSetProofs C08.SeqBuffer C08.SeqBufferInv.
Open Scope N_scope.

Definition ev := (kind * N * N)%type.
Definition ev_lo (v : ev) : N := snd (fst v).
Definition ev_hi (v : ev) : N := snd v.

Definition op_ev (o : op) : option ev :=
  match o with
  | Arrive k s _ => Some (k, s, s)
  | ArriveRange lo hi _ => Some (KUnused, lo, hi)
  | _ => None
  end.

Definition compat (v w : ev) : Prop := v = w \/ ev_hi v < ev_lo w \/ ev_hi w < ev_lo v.

Definition feed_consistent (ops : list op) : Prop :=
  forall o1 o2 v w, In o1 ops -> In o2 ops -> op_ev o1 = Some v -> op_ev o2 = Some w -> compat v w.

Definition op_wf (i : N) (o : op) : Prop :=
  match o with ArriveRange lo hi _ => lo <= hi /\ (hi <= i \/ i < lo) | _ => True end.
Definition ops_wf (i : N) (ops : list op) : Prop := forall o, In o ops -> op_wf i o.

Definition ev_in (h : list op) (v : ev) : Prop := exists o, In o h /\ op_ev o = Some v.
Definition entry_ev (e : entry) : ev := (e_kind e, e_seq e, e_hi e).

Lemma ev_in_cons : forall o h v, ev_in (o :: h) v <-> op_ev o = Some v \/ ev_in h v.
Proof.
  intros o h v. unfold ev_in. split.
  - intros [o' [[<-|H1] H2]]; [now left | right; eauto].
  - intros [H|[o' [H1 H2]]]; [exists o; split; [now left | assumption] | exists o'; split; [now right | assumption]].
Qed.

Lemma covered_cons_iff : forall o h s, covered (o :: h) s <-> covers s o = true \/ covered h s.
Proof.
  intros o h s. unfold covered. split.
  - intros [o' [[<-|H1] H2]]; [now left | right; eauto].
  - intros [H|[o' [H1 H2]]]; [exists o; split; [now left | assumption] | exists o'; split; [now right | assumption]].
Qed.

Lemma covers_ev : forall s o, covers s o = true -> exists v, op_ev o = Some v /\ ev_lo v <= s <= ev_hi v.
Proof.
  intros s [k t a|lo hi a| | |old]; cbn; intros H; try discriminate.
  - exists (k, t, t). split; [reflexivity|]. cbn. lia.
  - exists (KUnused, lo, hi). split; [reflexivity|]. cbn. lia.
Qed.

Lemma ev_covers : forall s o v, op_ev o = Some v -> ev_lo v <= s -> s <= ev_hi v -> covers s o = true.
Proof.
  intros s [k t a|lo hi a| | |old] v H; cbn in *; inversion H; subst; cbn; lia.
Qed.

(* two events of a consistent feed that share a sequence number are one event *)
Lemma overlap_same : forall h v w,
  feed_consistent h -> ev_in h v -> ev_in h w -> ev_lo v <= ev_hi w -> ev_lo w <= ev_hi v -> v = w.
Proof.
  intros h v w C [o1 [A1 A2]] [o2 [B1 B2]] H1 H2. destruct (C o1 o2 v w A1 B1 A2 B2) as [E|[E|E]]; [assumption | lia | lia].
Qed.

Lemma covered_ev_in : forall h s, covered h s -> exists v, ev_in h v /\ ev_lo v <= s <= ev_hi v.
Proof.
  intros h s [o [H1 H2]]. destruct (covers_ev _ _ H2) as [v [Hv Hr]]. exists v. split; [exists o; auto | assumption].
Qed.

Definition single (p : entry) : bool := e_end p =? 0.

Record LI1 (i : N) (h : list op) (st : state) : Prop := {
  l1_ev : forall p, In p (pending st) ->
            ev_in h (entry_ev p) /\ (e_end p = 0 \/ (e_kind p = KUnused /\ e_seq p < e_end p));
  l1_recv : forall s, In s (received st) -> exists p, In p (pending st) /\ e_seq p = s /\ e_end p = 0;
  l1_J : forall p, In p (pending st) -> e_end p = 0 -> In (e_seq p) (received st);
  l1_K : NoDup (map e_seq (filter single (pending st)));
  l1_single : forall k s, ev_in h (k, s, s) -> i < s ->
      (exists d, In d (delivered st) /\ d_kind d = k /\ d_seq d = s /\ d_end d = 0)
      \/ (exists p, In p (pending st) /\ e_kind p = k /\ e_seq p = s /\ e_end p = 0)
      \/ sk_mem s (abandoned st) = true;
  l1_range : forall lo hi, ev_in h (KUnused, lo, hi) -> lo < hi ->
      hi <= i \/ hi < next st \/ (exists p, In p (pending st) /\ e_seq p = lo /\ e_end p = hi);
  l1_skip : forall s, sk_mem s (skipped st) = true -> ~ covered h s;
  l1_wq : forall p, In p (pending st) -> next st <= e_seq p
}.

Lemma LI1_init : forall i m, LI1 i [] (init i m).
Proof.
  intros i m. constructor; cbn.
  - intros p [].
  - intros s [].
  - intros p [].
  - constructor.
  - intros k s [o [[] _]].
  - intros lo hi [o [[] _]].
  - intros s H. discriminate.
  - intros p [].
Qed.

Lemma e_hi_single : forall p, e_end p = 0 -> e_hi p = e_seq p.
Proof. intros p H. unfold e_hi. rewrite H. reflexivity. Qed.

Lemma e_hi_range : forall p, e_end p <> 0 -> e_hi p = e_end p.
Proof. intros p H. unfold e_hi. destruct (e_end p =? 0) eqn:E; [lia | reflexivity]. Qed.

Lemma filter_single_push : forall x l,
  NoDup (map e_seq (filter single l)) ->
  (single x = true -> ~ In (e_seq x) (map e_seq (filter single l))) ->
  NoDup (map e_seq (filter single (pq_push x l))).
Proof.
  intros x l; induction l as [|y l IH]; intros Hn Hx; cbn [pq_push].
  - cbn. destruct (single x); cbn; constructor; [intros [] | constructor].
  - destruct (e_seq x <? e_seq y) eqn:E.
    + cbn [filter] in *. destruct (single x) eqn:Sx; [|assumption].
      cbn [map]. constructor; [apply Hx; reflexivity | assumption].
    + cbn [filter] in *. destruct (single y) eqn:Sy.
      * cbn [map] in *. inversion Hn; subst. constructor.
        -- intros Hin. apply in_map_iff in Hin as [z [Hz1 Hz2]]. apply filter_In in Hz2 as [Hz2 Hz3].
           apply in_pq_push in Hz2 as [->|Hz2].
           ++ apply Hx; [assumption|]. left. symmetry. assumption.
           ++ apply H1. apply in_map_iff. exists z. split; [assumption|]. apply filter_In. split; assumption.
        -- apply IH; [assumption|]. intros Sx Hin. apply Hx; [assumption|]. now right.
      * apply IH; assumption.
Qed.

Lemma nodup_app_r : forall {A} (l1 l2 : list A), NoDup (l1 ++ l2) -> NoDup l2.
Proof. induction l1 as [|x l1 IH]; intros l2 H; [assumption|]. cbn in H. inversion H; subst. auto. Qed.

Lemma nodup_single_suffix : forall pre e0 r,
  NoDup (map e_seq (filter single (pre ++ e0 :: r))) ->
  NoDup (map e_seq (filter single r))
  /\ (single e0 = true -> forall x, In x r -> single x = true -> e_seq x <> e_seq e0).
Proof.
  intros pre e0 r H. rewrite filter_app, map_app in H. apply nodup_app_r in H.
  cbn [filter] in H. destruct (single e0) eqn:S.
  - cbn [map] in H. inversion H; subst. split; [assumption|]. intros _ x Hx Sx Heq. apply H2.
    apply in_map_iff. exists x. split; [assumption|]. apply filter_In. split; assumption.
  - split; [assumption | discriminate].
Qed.

(* one loop iteration *)
Lemma iter_LI1 : forall i m h st st',
  feed_consistent h -> LI0 i m h st -> LI1 i h st -> add_pending_iter st = Some st' -> LI1 i h st'.
Proof.
  intros i m h st st' C L0 L1 H. unfold add_pending_iter in H.
  destruct (pending st) as [|p l] eqn:Ep; [discriminate|].
  destruct (e_seq p =? next st) eqn:E1.
  { destruct (pop_pending (p :: l)) as [[e r]|] eqn:Epop; [|discriminate]. inversion H; subst st'; clear H.
    destruct (pop_spec _ _ _ Epop) as [pre [e0 [Hl [Hpre [Hse [Hk Hc]]]]]].
    destruct L0, L1. rewrite Ep in *.
    assert (He0 : In e0 (p :: l)) by (rewrite Hl; apply in_or_app; right; now left).
    assert (Hr : forall x, In x r -> In x (p :: l)) by (intros x Hx; rewrite Hl; apply in_or_app; right; now right).
    assert (Hsr : sorted_from (e_seq e0) r).
    { rewrite Hl in li_sorted. apply sorted_from_app_r in li_sorted. cbn in li_sorted. tauto. }
    assert (Hhd : e_seq e0 = next st).
    { destruct pre as [|x pre]; cbn in Hl; injection Hl as Hp Htl.
      - rewrite <- Hp. lia.
      - destruct (Hpre x (or_introl eq_refl)) as [_ Hx]. rewrite <- Hx, <- Hp. lia. }
    (* a consistent feed never leads to a truncation *)
    assert (Hee : e = e0 /\ (is_range e0 = true -> forall q r', r = q :: r' -> e_end e0 < e_seq q)).
    { destruct Hc as [Hc|[Hrg [q [r' [Hrq [Hne [Hle _]]]]]]]; [assumption|]. exfalso.
      assert (Hq : In q (p :: l)) by (apply Hr; rewrite Hrq; now left).
      destruct (l1_ev0 _ He0) as [V0 S0]. destruct (l1_ev0 _ Hq) as [Vq Sq].
      destruct (li_pend _ Hq) as [_ [Q2 _]].
      assert (e_seq e0 <= e_seq q) by (rewrite Hrq in Hsr; cbn in Hsr; tauto).
      assert (Hh0 : e_hi e0 = e_end e0).
      { apply e_hi_range. unfold is_range in Hrg. destruct (e_kind e0); try discriminate. lia. }
      assert (entry_ev e0 = entry_ev q) by (apply (overlap_same h); try assumption; unfold entry_ev, ev_lo, ev_hi; cbn; lia).
      unfold entry_ev in H0. injection H0 as Hk1 Hs1 Hh1. lia. }
    destruct Hee as [-> Hnov]. clear Hc Hse Hk.
    destruct (l1_ev0 _ He0) as [V0 S0].
    assert (Hnext : next (add_to_cache (set_pending st r) e0 false) = e_hi e0 + 1).
    { unfold add_to_cache, e_hi; cbn. destruct (e_end e0 =? 0); [|reflexivity].
      destruct (next st <=? e_seq e0) eqn:E; [reflexivity | lia]. }
    assert (Hge : next st <= e_hi e0) by (destruct (li_pend _ He0) as [_ [P _]]; lia).
    destruct (nodup_single_suffix _ _ _ ltac:(rewrite <- Hl; exact l1_K0)) as [K1 K2].
    constructor; rewrite ?Hnext; cbn [add_to_cache set_pending initial maxp pending received skipped abandoned delivered].
    - intros x Hx. apply l1_ev0. auto.
    - intros s Hs. apply removeN_in in Hs as [Hs1 Hs2]. destruct (l1_recv0 _ Hs1) as [x [X1 [X2 X3]]].
      exists x. split; [|split; assumption]. rewrite Hl in X1. apply in_app_or in X1 as [X1|[X1|X1]]; [| |assumption].
      + destruct (Hpre _ X1). lia.
      + subst x. lia.
    - intros x Hx Sx. apply removeN_in. split; [apply l1_J0; auto|].
      intros Heq. destruct (l1_ev0 _ (Hr _ Hx)) as [Vx _].
      destruct (li_pend _ He0) as [_ [P2 _]].
      assert (entry_ev x = entry_ev e0).
      { apply (overlap_same h); try assumption; unfold entry_ev, ev_lo, ev_hi; cbn; rewrite ?(e_hi_single _ Sx); lia. }
      unfold entry_ev in H. injection H as Hk1 Hs1 H3. rewrite (e_hi_single _ Sx) in H3.
      destruct S0 as [S0|[_ S0]].
      + apply (K2 ltac:(unfold single; lia) x Hx ltac:(unfold single; lia) Heq).
      + rewrite e_hi_range in H3 by lia. lia.
    - assumption.
    - intros k s V Hs. destruct (l1_single0 k s V Hs) as [[d [D1 D2]]|[[x [X1 [X2 [X3 X4]]]]|A]].
      + left. exists d. split; [now right | assumption].
      + rewrite Hl in X1. apply in_app_or in X1 as [X1|[X1|X1]].
        * destruct (Hpre _ X1) as [R _]. unfold is_range in R. destruct (e_kind x); try discriminate. lia.
        * subst x. left. eexists. split; [now left|]. cbn. auto.
        * right; left. exists x. auto.
      + right; right. assumption.
    - intros lo hi V Hlh. destruct (l1_range0 lo hi V Hlh) as [R|[R|[x [X1 [X2 X3]]]]]; [now left | right; left; lia |].
      assert (Hx : In x (p :: l)) by assumption.
      rewrite Hl in X1. apply in_app_or in X1 as [X1|[X1|X1]].
      * right; left. destruct (Hpre _ X1) as [_ R]. destruct (l1_ev0 _ Hx) as [Vx _].
        destruct (li_pend _ He0) as [_ [P2 _]]. destruct (li_pend _ Hx) as [_ [P3 _]].
        assert (entry_ev x = entry_ev e0) by (apply (overlap_same h); try assumption; unfold entry_ev, ev_lo, ev_hi; cbn; lia).
        unfold entry_ev in H. injection H as Hk1 Hs1 H3. rewrite <- H3. rewrite e_hi_range by lia. lia.
      * subst x. right; left. rewrite e_hi_range by lia. lia.
      * right; right. exists x. auto.
    - assumption.
    - intros x Hx.
      destruct (N.leb_spec (e_hi e0 + 1) (e_seq x)) as [|Hlt]; [assumption|]. exfalso.
      pose proof (sorted_from_in _ _ _ Hsr Hx) as Hgx.
      destruct (l1_ev0 _ (Hr _ Hx)) as [Vx Sx]. destruct (li_pend _ (Hr _ Hx)) as [_ [P3 _]].
      assert (entry_ev x = entry_ev e0) by (apply (overlap_same h); try assumption; unfold entry_ev, ev_lo, ev_hi; cbn; lia).
      unfold entry_ev in H. injection H as Hk1 Hs1 H3.
      destruct S0 as [S0|[S0k S0]].
      + rewrite (e_hi_single _ S0) in *.
        assert (e_end x = 0).
        { destruct Sx as [Sx|[_ Sx]]; [assumption|]. rewrite e_hi_range in H3 by lia. lia. }
        apply (K2 ltac:(unfold single; lia) x Hx ltac:(unfold single; lia)). assumption.
      + assert (Rg : is_range e0 = true) by (unfold is_range; rewrite S0k; lia).
        destruct r as [|q r']; [destruct Hx|]. specialize (Hnov Rg q r' eq_refl).
        cbn in Hsr. destruct Hsr as [Hq1 Hq2].
        assert (e_seq q <= e_seq x).
        { destruct Hx as [<-|Hx]; [lia|]. apply (sorted_from_in _ _ _ Hq2 Hx). }
        rewrite e_hi_range in Hlt by lia. lia. }
  destruct (e_seq p <? next st) eqn:E2.
  { exfalso. destruct L1. specialize (l1_wq0 p). rewrite Ep in l1_wq0. specialize (l1_wq0 (or_introl eq_refl)). lia. }
  destruct ((maxp st <? N.of_nat (length (p :: l))) || e_aged p) eqn:E3; [|discriminate].
  inversion H; subst st'; clear H.
  assert (Hlt : next st < e_seq p) by lia.
  destruct L0, L1.
  constructor; cbn [set_next push_skipped set_skipped initial maxp next pending received skipped abandoned delivered];
    try assumption.
  - intros lo hi V Hlh. destruct (l1_range0 lo hi V Hlh) as [R|[R|R]]; [now left | right; left; lia | now right; right].
  - intros s Hs. rewrite (sk_mem_push _ _ _ _ _ li_skwf) in Hs. apply orb_true_iff in Hs as [Hs|Hs]; [now apply l1_skip0|].
    intros Hcov. destruct (covered_ev_in _ _ Hcov) as [[[k lo] hi] [V Hr]]. cbn in Hr.
    assert (Hmin : forall x, In x (pending st) -> e_seq p <= e_seq x).
    { intros x Hx. rewrite Ep in Hx, li_sorted. cbn in li_sorted. destruct Hx as [<-|Hx]; [lia|].
      apply (sorted_from_in _ _ _ (proj2 li_sorted) Hx). }
    destruct (N.eq_dec lo hi) as [<-|Hne].
    + assert (s = lo) by lia. subst lo.
      destruct (l1_single0 k s V ltac:(lia)) as [[d [D1 [D2 [D3 D4]]]]|[[x [X1 [X2 [X3 X4]]]]|A]].
      * destruct (li_dl d D1). lia.
      * specialize (Hmin x X1). lia.
      * pose proof (sk_below_mem _ _ _ li_abbelow A). lia.
    + assert (k = KUnused).
      { destruct V as [o [O1 O2]]. destruct o; cbn in O2; inversion O2; subst; [lia | reflexivity]. }
      subst k. destruct (l1_range0 lo hi V ltac:(lia)) as [R|[R|[x [X1 [X2 X3]]]]]; [lia | lia |].
      specialize (Hmin x X1). lia.
  - intros x Hx. rewrite Ep in Hx, li_sorted. cbn in li_sorted. destruct Hx as [<-|Hx]; [lia|].
    apply (sorted_from_in _ _ _ (proj2 li_sorted) Hx).
Qed.

Lemma loop_LI1 : forall fuel i m h st,
  feed_consistent h -> LI0 i m h st -> LI1 i h st -> LI1 i h (add_pending_loop fuel st).
Proof.
  induction fuel as [|f IH]; intros i m h st C L0 L1; cbn; [assumption|].
  destruct (add_pending_iter st) as [st'|] eqn:E; [|assumption].
  apply (IH i m); [assumption | eapply iter_LI0; eassumption | eapply iter_LI1; eassumption].
Qed.

Lemma add_pending_LI1 : forall i m h st,
  feed_consistent h -> LI0 i m h st -> LI1 i h st -> LI1 i h (add_pending st).
Proof. intros. unfold add_pending. eapply loop_LI1; eassumption. Qed.

(* ---------- operations ---------- *)
Lemma ev_in_mono : forall o h v, ev_in h v -> ev_in (o :: h) v.
Proof. intros. apply ev_in_cons. now right. Qed.

Lemma LI1_lift_none : forall i h st o, op_ev o = None -> (forall s, covers s o = false) -> LI1 i h st -> LI1 i (o :: h) st.
Proof.
  intros i h st o Hn Hc []. constructor; try assumption.
  - intros p Hp. destruct (l1_ev0 p Hp). split; [now apply ev_in_mono | assumption].
  - intros k s V. apply ev_in_cons in V as [V|V]; [congruence | auto].
  - intros lo hi V. apply ev_in_cons in V as [V|V]; [congruence | auto].
  - intros s Hs C. apply covered_cons_iff in C as [C|C]; [rewrite Hc in C; discriminate | eapply l1_skip0; eauto].
Qed.

Lemma next_atc_single : forall st e late, e_end e = 0 ->
  next (add_to_cache st e late) = if next st <=? e_seq e then e_seq e + 1 else next st.
Proof. intros st e late He. unfold add_to_cache; cbn. rewrite He. reflexivity. Qed.

Lemma process_entry_LI1 : forall i m h st e o,
  I0 i m h st -> LI1 i h st -> feed_consistent (o :: h) ->
  e_end e = 0 -> op_ev o = Some (e_kind e, e_seq e, e_seq e) ->
  (forall s, covers s o = true <-> s = e_seq e) ->
  LI1 i (o :: h) (process_entry st e).
Proof.
  intros i m h st e o [L Q] L1 C He Hev Hcov.
  pose proof (LI0_cons _ _ _ _ o L) as L'.
  assert (Hc : covered (o :: h) (e_seq e)) by (exists o; split; [now left | now apply Hcov]).
  assert (Ch : feed_consistent h).
  { intros o1 o2 v w A B. apply C; now right. }
  assert (Vo : ev_in (o :: h) (e_kind e, e_seq e, e_seq e)) by (apply ev_in_cons; now left).
  (* an earlier event about the same sequence number is this very event *)
  assert (Hsame : covered h (e_seq e) -> ev_in h (e_kind e, e_seq e, e_seq e)).
  { intros Hch. destruct (covered_ev_in _ _ Hch) as [v [V Hr]].
    assert (v = (e_kind e, e_seq e, e_seq e)).
    { apply (overlap_same (o :: h)); try assumption; [now apply ev_in_mono | cbn; lia | cbn; lia]. }
    subst v. assumption. }
  assert (Hsingle_o : forall k s, ev_in (o :: h) (k, s, s) -> (k = e_kind e /\ s = e_seq e) \/ ev_in h (k, s, s)).
  { intros k s V. apply ev_in_cons in V as [V|V]; [left; rewrite Hev in V; inversion V; auto | now right]. }
  assert (Hrange_o : forall lo hi, ev_in (o :: h) (KUnused, lo, hi) -> lo < hi -> ev_in h (KUnused, lo, hi)).
  { intros lo hi V Hlh. apply ev_in_cons in V as [V|V]; [rewrite Hev in V; inversion V; lia | assumption]. }
  unfold process_entry.
  destruct ((e_seq e <? next st) && negb (sk_mem (e_seq e) (skipped st))) eqn:E1.
  { (* duplicate of a sequence already processed *)
    apply andb_true_iff in E1 as [E1a E1b]. apply negb_true_iff in E1b.
    destruct L1. constructor; try assumption.
    - intros p Hp. destruct (l1_ev0 p Hp). split; [now apply ev_in_mono | assumption].
    - intros k s V Hs. destruct (Hsingle_o k s V) as [[-> ->]|V']; [|auto].
      destruct (li_hwm _ _ _ _ L (e_seq e) Hs ltac:(lia)) as [H|[H|H]]; [auto | congruence | now right; right].
    - intros lo hi V Hlh. auto.
    - intros s Hs Hcs. apply covered_cons_iff in Hcs as [Hcs|Hcs]; [apply Hcov in Hcs; congruence | eapply l1_skip0; eauto]. }
  destruct (memN (e_seq e) (received st)) eqn:E2.
  { (* duplicate of a pending sequence *)
    apply memN_in in E2. destruct L1. destruct (l1_recv0 _ E2) as [p [P1 [P2 P3]]].
    destruct (l1_ev0 p P1) as [Vp _]. unfold entry_ev in Vp. rewrite (e_hi_single _ P3), P2 in Vp.
    assert (Hk : e_kind p = e_kind e).
    { assert ((e_kind p, e_seq e, e_seq e) = (e_kind e, e_seq e, e_seq e)).
      { apply (overlap_same (o :: h)); try assumption; [now apply ev_in_mono | cbn; lia | cbn; lia]. }
      congruence. }
    constructor; try assumption.
    - intros q Hq. destruct (l1_ev0 q Hq). split; [now apply ev_in_mono | assumption].
    - intros k s V Hs. destruct (Hsingle_o k s V) as [[-> ->]|V']; [|auto].
      right; left. exists p. auto.
    - intros lo hi V Hlh. auto.
    - intros s Hs Hcs. apply covered_cons_iff in Hcs as [Hcs|Hcs]; [|eapply l1_skip0; eauto].
      apply Hcov in Hcs. subst s. specialize (Q p P1).
      pose proof (sk_below_mem _ _ _ (li_skbelow _ _ _ _ L) Hs). lia. }
  assert (Hnr : ~ In (e_seq e) (received st)).
  { intros Hin. apply memN_in in Hin. congruence. }
  assert (Hnz : next st =? 0 = false) by (destruct L; lia).
  rewrite Hnz, orb_false_r.
  destruct (e_seq e =? next st) eqn:E3.
  { (* the expected sequence *)
    apply (add_pending_LI1 i m); [assumption | apply direct_LI0; try assumption; [lia | intros s [<-|Hs]; auto] |].
    assert (Hn : next (add_to_cache (set_received st (e_seq e :: received st)) e false) = next st + 1).
    { rewrite next_atc_single by assumption. cbn. destruct (next st <=? e_seq e) eqn:E; lia. }
    destruct L1.
    constructor; rewrite ?Hn; cbn [add_to_cache set_received initial maxp pending received skipped abandoned delivered].
    - intros p Hp. destruct (l1_ev0 p Hp). split; [now apply ev_in_mono | assumption].
    - intros s Hs. apply removeN_in in Hs as [[Hs|Hs] Hs2]; [congruence | auto].
    - intros p Hp Sp. apply removeN_in. split; [right; auto|]. specialize (Q p Hp). lia.
    - assumption.
    - intros k s V Hs. destruct (Hsingle_o k s V) as [[-> ->]|V'].
      + left. eexists. split; [now left|]. cbn. auto.
      + destruct (l1_single0 k s V' Hs) as [[d [D1 D2]]|[P|A]]; [left; exists d; split; [now right | assumption] | now right; left | now right; right].
    - intros lo hi V Hlh. destruct (l1_range0 lo hi (Hrange_o _ _ V Hlh) Hlh) as [R|[R|R]]; [now left | right; left; lia | now right; right].
    - intros s Hs Hcs. apply covered_cons_iff in Hcs as [Hcs|Hcs]; [|eapply l1_skip0; eauto].
      apply Hcov in Hcs. subst s. pose proof (sk_below_mem _ _ _ (li_skbelow _ _ _ _ L) Hs). lia.
    - intros p Hp. specialize (Q p Hp). lia. }
  cbn [set_received next pending maxp initial].
  destruct (next st <? e_seq e) eqn:E4.
  { (* above the expected sequence: buffered *)
    assert (Hhi : e_hi e = e_seq e) by (apply e_hi_single; assumption).
    assert (LP : LI0 i m (o :: h) (set_pending (set_received st (e_seq e :: received st)) (pq_push e (pending st)))).
    { apply push_LI0; rewrite ?Hhi; try assumption; try lia; [|intros s [<-|Hs]; auto].
      intros s S1 S2. replace s with (e_seq e) by lia. assumption. }
    assert (L1P : LI1 i (o :: h) (set_pending (set_received st (e_seq e :: received st)) (pq_push e (pending st)))).
    { destruct L1. constructor; cbn [set_pending set_received initial maxp next pending received skipped abandoned delivered].
      - intros p Hp. apply in_pq_push in Hp as [->|Hp].
        + split; [unfold entry_ev; rewrite Hhi; assumption | now left].
        + destruct (l1_ev0 p Hp). split; [now apply ev_in_mono | assumption].
      - intros s [<-|Hs].
        + exists e. split; [apply in_pq_push; now left | auto].
        + destruct (l1_recv0 s Hs) as [p [P1 P2]]. exists p. split; [apply in_pq_push; now right | assumption].
      - intros p Hp Sp. apply in_pq_push in Hp as [->|Hp]; [now left | right; auto].
      - apply filter_single_push; [assumption|]. intros _ Hin. apply in_map_iff in Hin as [p [P1 P2]].
        apply filter_In in P2 as [P2 P3]. apply Hnr. rewrite <- P1. apply l1_J0; [assumption | unfold single in P3; lia].
      - intros k s V Hs. destruct (Hsingle_o k s V) as [[-> ->]|V'].
        + right; left. exists e. split; [apply in_pq_push; now left | auto].
        + destruct (l1_single0 k s V' Hs) as [D|[[p [P1 P2]]|A]]; [now left | | now right; right].
          right; left. exists p. split; [apply in_pq_push; now right | assumption].
      - intros lo hi V Hlh. destruct (l1_range0 lo hi (Hrange_o _ _ V Hlh) Hlh) as [R|[R|[p [P1 P2]]]]; [now left | now right; left |].
        right; right. exists p. split; [apply in_pq_push; now right | assumption].
      - intros s Hs Hcs. apply covered_cons_iff in Hcs as [Hcs|Hcs]; [|eapply l1_skip0; eauto].
        apply Hcov in Hcs. subst s. pose proof (sk_below_mem _ _ _ (li_skbelow _ _ _ _ L) Hs). lia.
      - intros p Hp. apply in_pq_push in Hp as [->|Hp]; [lia | auto]. }
    match goal with |- context[if ?c then _ else _] => destruct c end; [|assumption].
    apply (add_pending_LI1 i m); assumption. }
  destruct (initial st <? e_seq e) eqn:E5.
  { (* a skipped sequence arriving late *)
    assert (Hsk : sk_mem (e_seq e) (skipped st) = true).
    { destruct (sk_mem (e_seq e) (skipped st)); [reflexivity|]. cbn in E1. lia. }
    assert (Hn : next (add_to_cache (set_received st (e_seq e :: received st)) e true) = next st).
    { rewrite next_atc_single by assumption. cbn. destruct (next st <=? e_seq e) eqn:E; lia. }
    destruct L1.
    constructor; cbn [set_skipped initial maxp next pending received skipped abandoned delivered]; rewrite ?Hn;
      cbn [add_to_cache set_received initial maxp pending received skipped abandoned delivered].
    - intros p Hp. destruct (l1_ev0 p Hp). split; [now apply ev_in_mono | assumption].
    - intros s Hs. apply removeN_in in Hs as [[Hs|Hs] Hs2]; [congruence | auto].
    - intros p Hp Sp. apply removeN_in. split; [right; auto|]. specialize (Q p Hp). lia.
    - assumption.
    - intros k s V Hs. destruct (Hsingle_o k s V) as [[-> ->]|V'].
      + left. eexists. split; [now left|]. cbn. auto.
      + destruct (l1_single0 k s V' Hs) as [[d [D1 D2]]|[P|A]]; [left; exists d; split; [now right | assumption] | now right; left | now right; right].
    - intros lo hi V Hlh. auto.
    - intros s Hs Hcs. rewrite sk_mem_diff in Hs. apply andb_true_iff in Hs as [Hs1 Hs2].
      apply covered_cons_iff in Hcs as [Hcs|Hcs]; [|eapply l1_skip0; eauto].
      apply Hcov in Hcs. subst s. rewrite !N.leb_refl in Hs2. discriminate.
    - assumption. }
  (* in the skipped list yet not above the initial sequence: impossible *)
  exfalso.
  assert (Hsk : sk_mem (e_seq e) (skipped st) = true).
  { destruct (sk_mem (e_seq e) (skipped st)); [reflexivity|]. cbn in E1. lia. }
  pose proof (sk_wf_from_lb _ _ _ (li_skwf _ _ _ _ L) Hsk). destruct L. lia.
Qed.

Lemma process_range_LI1 : forall i m h st lo hi a,
  I0 i m h st -> LI1 i h st -> feed_consistent (ArriveRange lo hi a :: h) ->
  lo < hi -> (hi <= i \/ i < lo) ->
  LI1 i (ArriveRange lo hi a :: h) (process_range st lo hi a).
Proof.
  intros i m h st lo hi a [L Q] L1 C Hlh Hwf. set (o := ArriveRange lo hi a) in *.
  pose proof (LI0_cons _ _ _ _ o L) as L'.
  assert (Ch : feed_consistent h).
  { intros o1 o2 v w A B. apply C; now right. }
  assert (Hcovers : forall s, covers s o = true <-> lo <= s <= hi) by (intros s; cbn; lia).
  assert (Hsingle_o : forall k s, ev_in (o :: h) (k, s, s) -> ev_in h (k, s, s)).
  { intros k s V. apply ev_in_cons in V as [V|V]; [cbn in V; inversion V; lia | assumption]. }
  assert (Hrange_o : forall lo' hi', ev_in (o :: h) (KUnused, lo', hi') -> (lo' = lo /\ hi' = hi) \/ ev_in h (KUnused, lo', hi')).
  { intros lo' hi' V. apply ev_in_cons in V as [V|V]; [cbn in V; inversion V; auto | now right]. }
  unfold process_range.
  destruct (hi <? next st) eqn:E1.
  { (* wholly below nextSequence: removed from the skipped list *)
    destruct L1. constructor; cbn [set_skipped initial maxp next pending received skipped abandoned delivered]; try assumption.
    - intros p Hp. destruct (l1_ev0 p Hp). split; [now apply ev_in_mono | assumption].
    - intros k s V Hs. auto.
    - intros lo' hi' V Hlh'. destruct (Hrange_o _ _ V) as [[-> ->]|V']; [right; left; lia | auto].
    - intros s Hs Hcs. rewrite sk_mem_diff in Hs. apply andb_true_iff in Hs as [Hs1 Hs2].
      apply covered_cons_iff in Hcs as [Hcs|Hcs]; [|eapply l1_skip0; eauto].
      apply Hcovers in Hcs. apply negb_true_iff in Hs2. lia. }
  destruct (next st <=? lo) eqn:E2.
  { (* wholly at or above nextSequence: buffered *)
    set (e := mkE lo hi KUnused a).
    assert (Hhi : e_hi e = hi) by (unfold e_hi; cbn; destruct (hi =? 0) eqn:E; lia).
    replace (set_pending st (pq_push e (pending st)))
      with (set_pending (set_received st (received st)) (pq_push e (pending st))) by (destruct st; reflexivity).
    apply (add_pending_LI1 i m); [assumption | |].
    { apply push_LI0; rewrite ?Hhi; cbn [e_seq e]; try assumption; try lia; [|intros s Hs; now left].
      intros s S1 S2. exists o. split; [now left | apply Hcovers; lia]. }
    destruct L1. constructor; cbn [set_pending set_received initial maxp next pending received skipped abandoned delivered].
    - intros p Hp. apply in_pq_push in Hp as [->|Hp].
      + split; [unfold entry_ev; rewrite Hhi; apply ev_in_cons; now left | right; cbn; split; [reflexivity | lia]].
      + destruct (l1_ev0 p Hp). split; [now apply ev_in_mono | assumption].
    - intros s Hs. destruct (l1_recv0 s Hs) as [p [P1 P2]]. exists p. split; [apply in_pq_push; now right | assumption].
    - intros p Hp Sp. apply in_pq_push in Hp as [->|Hp]; [cbn in Sp; lia | auto].
    - apply filter_single_push; [assumption|]. unfold single; cbn. intros X. lia.
    - intros k s V Hs. destruct (l1_single0 k s (Hsingle_o _ _ V) Hs) as [D|[[p [P1 P2]]|A]]; [now left | | now right; right].
      right; left. exists p. split; [apply in_pq_push; now right | assumption].
    - intros lo' hi' V Hlh'. destruct (Hrange_o _ _ V) as [[-> ->]|V'].
      + right; right. exists e. split; [apply in_pq_push; now left | auto].
      + destruct (l1_range0 lo' hi' V' Hlh') as [R|[R|[p [P1 P2]]]]; [now left | now right; left |].
        right; right. exists p. split; [apply in_pq_push; now right | assumption].
    - intros s Hs Hcs. apply covered_cons_iff in Hcs as [Hcs|Hcs]; [|eapply l1_skip0; eauto].
      apply Hcovers in Hcs. pose proof (sk_below_mem _ _ _ (li_skbelow _ _ _ _ L) Hs). lia.
    - intros p Hp. apply in_pq_push in Hp as [->|Hp]; [cbn; lia | auto]. }
  (* nextSequence inside the range: the code ignores the event.  On a consistent feed this only happens to a
     repeated delivery of a range that was already taken into account. *)
  assert (Vh : ev_in h (KUnused, lo, hi)).
  { assert (Hil : i < lo) by (destruct L; lia).
    destruct (li_q2 _ _ _ _ L) as [H|[H|[p [P1 P2]]]].
    - lia.
    - destruct (covered_ev_in _ _ H) as [v [V Hr]].
      assert (v = (KUnused, lo, hi)).
      { apply (overlap_same (o :: h)); try assumption; [now apply ev_in_mono | apply ev_in_cons; now left | cbn; lia | cbn; lia]. }
      subst v. assumption.
    - specialize (Q p P1). lia. }
  destruct L1. constructor; try assumption.
  - intros p Hp. destruct (l1_ev0 p Hp). split; [now apply ev_in_mono | assumption].
  - intros k s V Hs. auto.
  - intros lo' hi' V Hlh'. destruct (Hrange_o _ _ V) as [[-> ->]|V']; auto.
  - intros s Hs Hcs. apply covered_cons_iff in Hcs as [Hcs|Hcs]; [|eapply l1_skip0; eauto].
    apply Hcovers in Hcs. apply (l1_skip0 s Hs). destruct Vh as [o' [O1 O2]]. exists o'. split; [assumption|].
    apply (ev_covers s o' _ O2); cbn; lia.
Qed.

Definition I1 (i m : N) (h : list op) (st : state) : Prop := I0 i m h st /\ LI1 i h st.

Lemma step_I1 : forall i m h st o,
  feed_consistent (o :: h) -> op_wf i o -> I1 i m h st -> I1 i m (o :: h) (step st o).
Proof.
  intros i m h st o C W [I L1]. split; [apply step_I0; assumption|].
  assert (Ch : feed_consistent h).
  { intros o1 o2 v w A B. apply C; now right. }
  destruct o as [k s a|lo hi a| | |old]; cbn [step].
  - apply (process_entry_LI1 i m); try assumption; try reflexivity. intros s'; cbn. lia.
  - cbn in W. destruct (lo =? hi) eqn:E1.
    + apply (process_entry_LI1 i m); try assumption; try reflexivity.
      * cbn. apply N.eqb_eq in E1. subst. reflexivity.
      * intros s'; cbn. lia.
    + destruct (hi <? lo) eqn:E2; [lia|].
      apply (process_range_LI1 i m); try assumption; lia.
  - destruct I as [L Q]. apply (add_pending_LI1 i m); [assumption | apply LI0_cons; assumption |].
    apply LI1_lift_none; [reflexivity | reflexivity | assumption].
  - apply (LI1_lift_none i h st Abandon eq_refl (fun _ => eq_refl)) in L1. destruct L1.
    constructor; cbn [initial maxp next pending received skipped abandoned delivered]; try assumption.
    + intros k s V Hs. destruct (l1_single0 k s V Hs) as [D|[P|A]]; [now left | now right; left |].
      right; right. rewrite sk_mem_app, A. apply orb_true_r.
    + intros s Hs. discriminate.
  - apply (LI1_lift_none i h st (AbandonSome old) eq_refl (fun _ => eq_refl)) in L1. destruct L1.
    constructor; cbn [initial maxp next pending received skipped abandoned delivered]; try assumption.
    + intros k s V Hs. destruct (l1_single0 k s V Hs) as [D|[P|A]]; [now left | now right; left |].
      right; right. rewrite sk_mem_app, A. apply orb_true_r.
    + intros s Hs. apply l1_skip0. rewrite (sk_mem_split s old), Hs. reflexivity.
Qed.

Lemma feed_consistent_rev : forall ops, feed_consistent ops -> feed_consistent (rev ops).
Proof. intros ops C o1 o2 v w A B. apply C; now apply in_rev. Qed.

Lemma feed_consistent_prefix : forall ops o, feed_consistent (ops ++ [o]) -> feed_consistent ops.
Proof. intros ops o C o1 o2 v w A B. apply C; apply in_or_app; now left. Qed.

Lemma run_I1 : forall i m ops, feed_consistent ops -> ops_wf i ops -> I1 i m (rev ops) (run (init i m) ops).
Proof.
  intros i m ops. induction ops as [|o ops IH] using rev_ind; intros C W.
  - split; [apply I0_init | apply LI1_init].
  - rewrite run_app, rev_app_distr. cbn [rev app]. apply step_I1.
    + replace (o :: rev ops) with (rev (ops ++ [o])) by (rewrite rev_app_distr; reflexivity).
      apply feed_consistent_rev. assumption.
    + apply W. apply in_or_app. right. now left.
    + apply IH; [eapply feed_consistent_prefix; eassumption|]. intros x Hx. apply W. apply in_or_app. now left.
Qed.
