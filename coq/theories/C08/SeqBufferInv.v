(* C08 -- invariants of the sequence-buffering machine that hold for EVERY operation list
   (no assumption on the feed). *)
From SG Require Import Base.Prelude C08.SkippedSet C08.SkippedSetProofs C08.SeqBuffer.
Open Scope N_scope.

(* last sequence of an entry *)
Definition e_hi (e : entry) : N := if e_end e =? 0 then e_seq e else e_end e.

(* the operation says something about sequence s: it arrived, or it was declared unused *)
Definition covers (s : N) (o : op) : bool :=
  match o with
  | Arrive _ t _ => s =? t
  | ArriveRange lo hi _ => (lo <=? s) && (s <=? hi)
  | _ => false
  end.
Definition covered (h : list op) (s : N) : Prop := exists o, In o h /\ covers s o = true.

Lemma covered_cons : forall o h s, covered h s -> covered (o :: h) s.
Proof. intros o h s [o' [H1 H2]]. exists o'. split; [now right | assumption]. Qed.

Fixpoint sorted_from (lb : N) (l : list entry) : Prop :=
  match l with [] => True | p :: r => lb <= e_seq p /\ sorted_from (e_seq p) r end.

Lemma sorted_from_weaken : forall l lb lb', sorted_from lb l -> lb' <= lb -> sorted_from lb' l.
Proof. intros [|p l] lb lb'; cbn; [trivial|]. intros [H1 H2] H. split; [lia | assumption]. Qed.

Lemma sorted_from_in : forall l lb x, sorted_from lb l -> In x l -> lb <= e_seq x.
Proof.
  induction l as [|p l IH]; intros lb x Hs Hin; [destruct Hin|].
  cbn in Hs. destruct Hs as [H1 H2]. destruct Hin as [->|Hin]; [assumption|].
  specialize (IH _ _ H2 Hin). lia.
Qed.

Lemma sorted_from_app_r : forall pre l lb, sorted_from lb (pre ++ l) -> sorted_from lb l.
Proof.
  induction pre as [|p pre IH]; intros l lb H; [assumption|].
  cbn in H. destruct H as [H1 H2]. apply IH in H2. eapply sorted_from_weaken; [eassumption | assumption].
Qed.

Lemma sorted_from_push : forall x l lb, sorted_from lb l -> lb <= e_seq x -> sorted_from lb (pq_push x l).
Proof.
  intros x l; induction l as [|y l IH]; intros lb Hs Hx; cbn.
  - split; [assumption | exact I].
  - cbn in Hs. destruct Hs as [H1 H2]. destruct (e_seq x <? e_seq y) eqn:E; cbn.
    + repeat split; try assumption; lia.
    + split; [assumption|]. apply IH; [assumption | lia].
Qed.

Lemma in_pq_push : forall x l y, In y (pq_push x l) <-> y = x \/ In y l.
Proof.
  intros x l y; induction l as [|z l IH]; cbn.
  - split; [intros [H|[]]; auto | intros [H|[]]; auto].
  - destruct (e_seq x <? e_seq z); cbn; [|rewrite IH]; intuition auto.
Qed.

Lemma length_pq_push : forall x l, length (pq_push x l) = S (length l).
Proof. intros x l; induction l as [|z l IH]; cbn; [reflexivity|]. destruct (e_seq x <? e_seq z); cbn; congruence. Qed.

(* ---------- _popPendingLog ---------- *)
Lemma pop_spec : forall l e r, pop_pending l = Some (e, r) ->
  exists pre e0, l = pre ++ e0 :: r
    /\ (forall x, In x pre -> is_range x = true /\ e_seq x = e_seq e0)
    /\ e_seq e = e_seq e0 /\ e_kind e = e_kind e0
    /\ ((e = e0 /\ (is_range e0 = true -> forall q r', r = q :: r' -> e_end e0 < e_seq q))
        \/ (is_range e0 = true /\ exists q r', r = q :: r' /\ e_seq e0 <> e_seq q /\ e_seq q <= e_end e0
              /\ e = mkE (e_seq e0) (e_seq q - 1) (e_kind e0) (e_aged e0))).
Proof.
  induction l as [|p l IH]; intros e r H; [discriminate|].
  cbn [pop_pending] in H. destruct (negb (is_range p)) eqn:Er.
  - inversion H; subst. exists [], e. split; [reflexivity|]. split; [intros x []|]. split; [reflexivity|]. split; [reflexivity|].
    left. split; [reflexivity|]. intros C. rewrite C in Er. discriminate.
  - apply negb_false_iff in Er. destruct l as [|q l'].
    + inversion H; subst. exists [], e. split; [reflexivity|]. split; [intros x []|]. split; [reflexivity|]. split; [reflexivity|].
      left. split; [reflexivity|]. intros _ q r' C. discriminate.
    + destruct (e_end p <? e_seq q) eqn:E1.
      * inversion H; subst. exists [], e. split; [reflexivity|]. split; [intros x []|]. split; [reflexivity|]. split; [reflexivity|].
        left. split; [reflexivity|]. intros _ q0 r' C. inversion C; subst. lia.
      * destruct (e_seq p =? e_seq q) eqn:E2.
        -- destruct (IH _ _ H) as [pre [e0 [Hl [Hpre [Hs [Hk Hc]]]]]].
           exists (p :: pre), e0. split; [cbn; now rewrite Hl|].
           assert (Hq : e_seq q = e_seq e0).
           { destruct pre as [|x pre]; cbn in Hl; inversion Hl; subst; [reflexivity|].
             destruct (Hpre x (or_introl eq_refl)) as [_ Hx]. assumption. }
           split; [|split; [assumption | split; assumption]].
           intros x [<-|Hx]; [split; [assumption | lia] | auto].
        -- inversion H; subst. exists [], p. split; [reflexivity|]. split; [intros x []|]. split; [reflexivity|]. split; [reflexivity|].
           right. split; [assumption|]. exists q, l'. split; [reflexivity|]. split; [lia|]. split; [lia | reflexivity].
Qed.

Lemma pop_length : forall l e r, pop_pending l = Some (e, r) -> (length r < length l)%nat.
Proof.
  intros l e r H. destruct (pop_spec _ _ _ H) as [pre [e0 [Hl _]]]. subst l. rewrite app_length. cbn. lia.
Qed.

Lemma pop_some : forall p l, exists e r, pop_pending (p :: l) = Some (e, r).
Proof.
  intros p l; revert p; induction l as [|q l IH]; intros p; cbn.
  - destruct (negb (is_range p)); eauto.
  - destruct (negb (is_range p)); eauto. destruct (e_end p <? e_seq q); eauto.
    destruct (e_seq p =? e_seq q); eauto.
Qed.

Lemma removeN_in : forall s x l, In x (removeN s l) <-> In x l /\ x <> s.
Proof.
  intros s x l. unfold removeN. rewrite filter_In. split; intros [H1 H2]; split; try assumption.
  - intros ->. rewrite N.eqb_refl in H2. discriminate.
  - apply negb_true_iff. apply N.eqb_neq. assumption.
Qed.

Lemma memN_in : forall s l, memN s l = true <-> In s l.
Proof.
  intros s l. unfold memN. rewrite existsb_exists. split.
  - intros [x [H1 H2]]. apply N.eqb_eq in H2. now subst.
  - intros H. exists s. split; [assumption | apply N.eqb_refl].
Qed.

(* ---------- the loop invariant ---------- *)
Record LI0 (i m : N) (h : list op) (st : state) : Prop := {
  li_init : initial st = i;
  li_maxp : maxp st = m;
  li_next : i < next st;
  li_skwf : sk_wf_from (i + 1) (skipped st);
  li_skbelow : sk_below (next st) (skipped st);
  li_abbelow : sk_below (next st) (abandoned st);
  li_dl : forall d, In d (delivered st) -> d_seq d < next st /\ sk_mem (d_seq d) (skipped st) = false;
  li_nodup : NoDup (map d_seq (delivered st));
  li_hwm : forall s, i < s -> s < next st ->
             covered h s \/ sk_mem s (skipped st) = true \/ sk_mem s (abandoned st) = true;
  li_pend : forall p, In p (pending st) ->
             i < e_seq p /\ e_seq p <= e_hi p /\ (forall s, e_seq p <= s -> s <= e_hi p -> covered h s);
  li_sorted : sorted_from 0 (pending st);
  li_q2 : next st = i + 1 \/ covered h (next st - 1) \/ (exists p, In p (pending st) /\ e_seq p = next st);
  li_absk : forall s, sk_mem s (abandoned st) = true -> sk_mem s (skipped st) = false;
  li_recv : forall s, In s (received st) ->
              sk_mem s (skipped st) = false /\ (s < next st \/ exists p, In p (pending st) /\ e_seq p = s)
}.

Lemma LI0_cons : forall i m h st o, LI0 i m h st -> LI0 i m (o :: h) st.
Proof.
  intros i m h st o []. constructor; try assumption.
  - intros s H1 H2. destruct (li_hwm0 s H1 H2) as [H|H]; [left; now apply covered_cons | now right].
  - intros p Hp. destruct (li_pend0 p Hp) as [H1 [H2 H3]]. repeat split; try assumption.
    intros s Hs1 Hs2. apply covered_cons. auto.
  - destruct li_q3 as [H|[H|H]]; [now left | right; left; now apply covered_cons | now right; right].
Qed.

Lemma LI0_init : forall i m, LI0 i m [] (init i m).
Proof.
  intros i m. constructor; cbn;
    first [ reflexivity | exact I | lia | (intros ? ? []) | (intros ? []) | apply NoDup_nil | (intros; lia) | (now left) | (intros; reflexivity) ].
Qed.

(* the truncated / original popped entry keeps the facts recorded for pending entries *)
Lemma popped_facts : forall i h l e r,
  (forall p, In p l -> i < e_seq p /\ e_seq p <= e_hi p /\ (forall s, e_seq p <= s -> s <= e_hi p -> covered h s)) ->
  sorted_from 0 l ->
  pop_pending l = Some (e, r) ->
  i < e_seq e /\ e_seq e <= e_hi e /\ (forall s, e_seq e <= s -> s <= e_hi e -> covered h s)
  /\ (forall p, In p r -> In p l) /\ sorted_from (e_seq e) r
  /\ (exists p0 l0, l = p0 :: l0 /\ e_seq e = e_seq p0)
  /\ (forall x, In x l -> In x r \/ e_seq x = e_seq e).
Proof.
  intros i h l e r Hp Hs Hpop. destruct (pop_spec _ _ _ Hpop) as [pre [e0 [Hl [Hpre [Hse [Hk Hc]]]]]].
  assert (Hsplit : forall x, In x l -> In x r \/ e_seq x = e_seq e).
  { intros x Hx. rewrite Hl in Hx. apply in_app_or in Hx as [Hx|[Hx|Hx]]; [right | right | now left].
    - destruct (Hpre _ Hx). lia.
    - subst x. lia. }
  assert (He0 : In e0 l) by (subst l; apply in_or_app; right; now left).
  destruct (Hp _ He0) as [A1 [A2 A3]].
  assert (Hr : forall p, In p r -> In p l) by (intros p Hin; subst l; apply in_or_app; right; now right).
  assert (Hsr : sorted_from (e_seq e0) r).
  { subst l. apply sorted_from_app_r in Hs. cbn in Hs. tauto. }
  assert (Hhd : exists p0 l0, l = p0 :: l0 /\ e_seq e = e_seq p0).
  { destruct pre as [|x pre]; cbn in Hl.
    - exists e0, r. split; [assumption | assumption].
    - exists x, (pre ++ e0 :: r). split; [assumption|]. destruct (Hpre x (or_introl eq_refl)). lia. }
  destruct Hc as [[-> Hnt]|[Hrg [q [r' [Hrq [Hne [Hle ->]]]]]]].
  - repeat split; assumption.
  - revert Hsplit. assert (Hq : e_seq e0 <= e_seq q).
    { subst r. cbn in Hsr. tauto. }
    unfold e_hi in *; cbn [e_seq e_end] in *.
    unfold is_range in Hrg. destruct (e_kind e0); try discriminate.
    assert (e_end e0 =? 0 = false) by lia. rewrite H in *.
    assert (e_seq q - 1 =? 0 = false) by lia. rewrite H0.
    intros Hsplit. repeat split; try assumption; try lia.
    intros s S1 S2. apply A3; lia.
Qed.

(* one loop iteration preserves the invariant *)
Lemma iter_LI0 : forall i m h st st', LI0 i m h st -> add_pending_iter st = Some st' -> LI0 i m h st'.
Proof.
  intros i m h st st' L H. unfold add_pending_iter in H.
  destruct (pending st) as [|p l] eqn:Ep; [discriminate|].
  destruct L. rewrite Ep in *.
  destruct (e_seq p =? next st) eqn:E1.
  { (* the expected sequence is on top: pop and cache *)
    destruct (pop_pending (p :: l)) as [[e r]|] eqn:Epop; [|discriminate]. inversion H; subst st'; clear H.
    destruct (popped_facts i h _ _ _ li_pend0 li_sorted0 Epop) as [F1 [F2 [F3 [F4 [F5 [[p0 [l0 [F6 F7]]] F8]]]]]].
    inversion F6; subst p0 l0; clear F6.
    assert (Hn : e_seq e = next st) by lia.
    assert (Hnext : next (add_to_cache (set_pending st r) e false) = e_hi e + 1).
    { unfold add_to_cache, e_hi; cbn. destruct (e_end e =? 0); [|reflexivity].
      destruct (next st <=? e_seq e) eqn:E; [reflexivity | lia]. }
    constructor; rewrite ?Hnext; cbn [add_to_cache set_pending initial maxp pending received skipped abandoned delivered];
      try assumption; try lia.
    - eapply sk_below_mono; [eassumption | lia].
    - eapply sk_below_mono; [eassumption | lia].
    - intros d [<-|Hd]; cbn [d_seq].
      + split; [lia|]. apply sk_below_nomem with (n := next st); [assumption | lia].
      + destruct (li_dl0 d Hd). split; [lia | assumption].
    - cbn [map d_seq]. constructor; [|assumption]. intros Hin. apply in_map_iff in Hin as [d [Hd1 Hd2]].
      destruct (li_dl0 d Hd2). lia.
    - intros s S1 S2. destruct (N.ltb_spec s (next st)); [now apply li_hwm0|]. left. apply F3; lia.
    - intros q Hq. apply li_pend0. auto.
    - eapply sorted_from_weaken; [eassumption | lia].
    - right; left. replace (e_hi e + 1 - 1) with (e_hi e) by lia. apply F3; lia.
    - intros s Hs. apply removeN_in in Hs as [Hs1 Hs2]. destruct (li_recv0 s Hs1) as [R1 R2]. split; [assumption|].
      destruct R2 as [R2|[x [X1 X2]]]; [left; lia|]. destruct (F8 x X1) as [X3|X3]; [right; exists x; auto | lia].
  }
  destruct (e_seq p <? next st) eqn:E2.
  { (* stale entry below nextSequence: dropped, nextSequence extended when it is a range reaching past it *)
    destruct (pop_pending (p :: l)) as [[e r]|] eqn:Epop; [|discriminate]. inversion H; subst st'; clear H.
    destruct (popped_facts i h _ _ _ li_pend0 li_sorted0 Epop) as [F1 [F2 [F3 [F4 [F5 [[p0 [l0 [F6 F7]]] F8]]]]]].
    inversion F6; subst p0 l0; clear F6.
    assert (Hq2 : forall n, next st <= n ->
              (next st = i + 1 \/ covered h (next st - 1) \/ (exists p1, In p1 (p :: l) /\ e_seq p1 = next st)) ->
              (n = next st \/ covered h (n - 1)) ->
              n = i + 1 \/ covered h (n - 1) \/ (exists p1, In p1 r /\ e_seq p1 = n)).
    { intros n Hn Hold [->|Hc]; [|tauto].
      destruct Hold as [Ho|[Ho|[p1 [Hp1 Hp2]]]]; [tauto | tauto |].
      right; right. exists p1. split; [|assumption].
      destruct (pop_spec _ _ _ Epop) as [pre [e0 [Hl [Hpre [Hse _]]]]].
      rewrite Hl in Hp1. apply in_app_or in Hp1 as [Hp1|[Hp1|Hp1]]; [| |assumption].
      - destruct (Hpre _ Hp1). lia.
      - subst p1. lia. }
    destruct (is_range e && (next st <=? e_end e)) eqn:E3.
    - apply andb_true_iff in E3 as [E3 E4].
      assert (Hhi : e_hi e = e_end e).
      { unfold e_hi. unfold is_range in E3. destruct (e_kind e); try discriminate.
        destruct (e_end e =? 0) eqn:E; [lia | reflexivity]. }
      constructor; cbn [set_next set_pending initial maxp next pending received skipped abandoned delivered];
        try assumption; try lia.
      + eapply sk_below_mono; [eassumption | lia].
      + eapply sk_below_mono; [eassumption | lia].
      + intros d Hd. destruct (li_dl0 d Hd). split; [lia | assumption].
      + intros s S1 S2. destruct (N.ltb_spec s (next st)); [now apply li_hwm0|]. left. apply F3; lia.
      + intros q Hq. apply li_pend0. auto.
      + eapply sorted_from_weaken; [eassumption | lia].
      + apply Hq2; [lia | assumption |]. right. replace (e_end e + 1 - 1) with (e_end e) by lia. apply F3; lia.
      + intros s Hs. destruct (li_recv0 s Hs) as [R1 R2]. split; [assumption|].
        destruct R2 as [R2|[x [X1 X2]]]; [left; lia|]. destruct (F8 x X1) as [X3|X3]; [right; exists x; auto | left; lia].
    - constructor; cbn [set_next set_pending initial maxp next pending received skipped abandoned delivered];
        try assumption; try lia.
      + intros q Hq. apply li_pend0. auto.
      + eapply sorted_from_weaken; [eassumption | lia].
      + apply Hq2; [lia | assumption | now left].
      + intros s Hs. destruct (li_recv0 s Hs) as [R1 R2]. split; [assumption|].
        destruct R2 as [R2|[x [X1 X2]]]; [now left|]. destruct (F8 x X1) as [X3|X3]; [right; exists x; auto | left; lia].
  }
  destruct ((maxp st <? N.of_nat (length (p :: l))) || e_aged p) eqn:E3; [|discriminate].
  (* too many or too old: skip everything up to the oldest pending entry *)
  inversion H; subst st'; clear H.
  assert (Hlt : next st < e_seq p) by lia.
  constructor; cbn [set_next push_skipped set_skipped initial maxp next pending received skipped abandoned delivered];
    try assumption; try lia.
  - apply sk_wf_from_push; [assumption | assumption | lia].
  - apply sk_below_push; [eapply sk_below_mono; [eassumption | lia] | lia].
  - eapply sk_below_mono; [eassumption | lia].
  - intros d Hd. destruct (li_dl0 d Hd) as [D1 D2]. split; [lia|]. rewrite (sk_mem_push _ _ _ _ _ li_skwf0), D2. cbn. lia.
  - intros s S1 S2. destruct (N.ltb_spec s (next st)).
    + destruct (li_hwm0 s S1 H) as [C|[C|C]]; [now left | right; left | now right; right].
      rewrite (sk_mem_push _ _ _ _ _ li_skwf0), C. reflexivity.
    + right; left. rewrite (sk_mem_push _ _ _ _ _ li_skwf0). apply orb_true_iff. right. lia.
  - rewrite Ep. assumption.
  - rewrite Ep. assumption.
  - right; right. exists p. rewrite Ep. split; [now left | reflexivity].
  - intros s Hs. pose proof (sk_below_mem _ _ _ li_abbelow0 Hs). rewrite (sk_mem_push _ _ _ _ _ li_skwf0), (li_absk0 s Hs). cbn. lia.
  - intros s Hs. destruct (li_recv0 s Hs) as [R1 R2]. rewrite (sk_mem_push _ _ _ _ _ li_skwf0), R1. cbn [orb].
    destruct R2 as [R2|[x [X1 X2]]].
    + split; [lia | left; lia].
    + assert (e_seq p <= s).
      { cbn in li_sorted0. destruct X1 as [<-|X1]; [lia|].
        pose proof (sorted_from_in _ _ _ (proj2 li_sorted0) X1). lia. }
      split; [lia|]. right. exists x. rewrite Ep. auto.
Qed.

Lemma loop_LI0 : forall fuel i m h st, LI0 i m h st -> LI0 i m h (add_pending_loop fuel st).
Proof.
  induction fuel as [|f IH]; intros i m h st L; cbn; [assumption|].
  destruct (add_pending_iter st) as [st'|] eqn:E; [|assumption].
  apply IH. eapply iter_LI0; eassumption.
Qed.

(* ---------- the fuel given to the loop is enough: it stops at a genuine break ---------- *)
Definition mu (st : state) : nat :=
  (2 * length (pending st) + match pending st with p :: _ => if (next st <? e_seq p)%N then 1 else 0 | [] => 0 end)%nat.

Lemma iter_mu : forall st st', add_pending_iter st = Some st' -> (mu st' < mu st)%nat.
Proof.
  intros st st' H. unfold add_pending_iter in H. destruct (pending st) as [|p l] eqn:Ep; [discriminate|].
  destruct (e_seq p =? next st) eqn:E1.
  { destruct (pop_pending (p :: l)) as [[e r]|] eqn:Epop; [|discriminate]. inversion H; subst st'; clear H.
    pose proof (pop_length _ _ _ Epop) as Hl. unfold mu; cbn [add_to_cache set_pending pending next]. rewrite Ep.
    cbn [length] in *. destruct r as [|q r]; cbn [length] in *.
    - lia.
    - destruct (_ <? e_seq q); destruct (next st <? e_seq p); lia. }
  destruct (e_seq p <? next st) eqn:E2.
  { destruct (pop_pending (p :: l)) as [[e r]|] eqn:Epop; [|discriminate]. inversion H; subst st'; clear H.
    pose proof (pop_length _ _ _ Epop) as Hl. unfold mu. rewrite Ep.
    assert (Hp : pending (if is_range e && (next st <=? e_end e) then set_next (set_pending st r) (e_end e + 1) else set_pending st r) = r)
      by (destruct (is_range e && (next st <=? e_end e)); reflexivity).
    rewrite Hp. cbn [length] in *.
    destruct r as [|q r]; cbn [length] in *.
    - lia.
    - match goal with |- context[if ?c then 1%nat else 0%nat] => destruct c end; destruct (next st <? e_seq p); lia. }
  destruct ((maxp st <? N.of_nat (length (p :: l))) || e_aged p) eqn:E3; [|discriminate].
  inversion H; subst st'; clear H. unfold mu; cbn [set_next push_skipped set_skipped pending next]. rewrite Ep.
  assert (next st <? e_seq p = true) by lia. rewrite H. rewrite N.ltb_irrefl. lia.
Qed.

Lemma loop_stops : forall fuel st, (mu st < fuel)%nat -> add_pending_iter (add_pending_loop fuel st) = None.
Proof.
  induction fuel as [|f IH]; intros st H; [lia|]. cbn.
  destruct (add_pending_iter st) as [st'|] eqn:E; [|assumption].
  apply IH. pose proof (iter_mu _ _ E). lia.
Qed.

Lemma add_pending_done : forall st, add_pending_iter (add_pending st) = None.
Proof.
  intros st. unfold add_pending. apply loop_stops. unfold mu.
  destruct (pending st) as [|p l]; cbn [length]; [lia|]. destruct (next st <? e_seq p); lia.
Qed.

(* at the break every pending entry is above nextSequence, and nothing triggers a skip *)
Definition quiet (st : state) : Prop := forall p, In p (pending st) -> next st < e_seq p.

Lemma iter_none_quiet : forall st, sorted_from 0 (pending st) -> add_pending_iter st = None -> quiet st.
Proof.
  intros st Hs H. unfold add_pending_iter in H. unfold quiet. destruct (pending st) as [|p l] eqn:Ep; [intros q []|].
  destruct (e_seq p =? next st) eqn:E1.
  { destruct (pop_some p l) as [e [r Hpop]]. rewrite Hpop in H. discriminate. }
  destruct (e_seq p <? next st) eqn:E2.
  { destruct (pop_some p l) as [e [r Hpop]]. rewrite Hpop in H. discriminate. }
  intros q Hq.
  cbn in Hs. destruct Hs as [_ Hs]. destruct Hq as [<-|Hq]; [lia|].
  pose proof (sorted_from_in _ _ _ Hs Hq). lia.
Qed.

(* ---------- nextSequence never moves backwards ---------- *)
Lemma iter_next_mono : forall i m h st st', LI0 i m h st -> add_pending_iter st = Some st' -> next st <= next st'.
Proof.
  intros i m h st st' L H. unfold add_pending_iter in H.
  destruct (pending st) as [|p l] eqn:Ep; [discriminate|].
  destruct L. rewrite Ep in *.
  destruct (e_seq p =? next st) eqn:E1.
  { destruct (pop_pending (p :: l)) as [[e r]|] eqn:Epop; [|discriminate]. inversion H; subst st'; clear H.
    destruct (popped_facts i h _ _ _ li_pend0 li_sorted0 Epop) as [F1 [F2 [F3 [F4 [F5 [[p0 [l0 [F6 F7]]] F8]]]]]].
    inversion F6; subst p0 l0; clear F6.
    unfold add_to_cache, e_hi in *; cbn. destruct (e_end e =? 0); [|lia].
    destruct (next st <=? e_seq e) eqn:E; lia. }
  destruct (e_seq p <? next st) eqn:E2.
  { destruct (pop_pending (p :: l)) as [[e r]|] eqn:Epop; [|discriminate]. inversion H; subst st'; clear H.
    destruct (is_range e && (next st <=? e_end e)) eqn:E3; cbn; lia. }
  destruct ((maxp st <? N.of_nat (length (p :: l))) || e_aged p) eqn:E3; [|discriminate].
  inversion H; subst st'; clear H. cbn. lia.
Qed.

Lemma loop_next_mono : forall fuel i m h st, LI0 i m h st -> next st <= next (add_pending_loop fuel st).
Proof.
  induction fuel as [|f IH]; intros i m h st L; cbn; [lia|].
  destruct (add_pending_iter st) as [st'|] eqn:E; [|lia].
  pose proof (iter_next_mono _ _ _ _ _ L E). pose proof (iter_LI0 _ _ _ _ _ L E) as L'.
  specialize (IH _ _ _ _ L'). lia.
Qed.

(* ---------- invariant at operation boundaries ---------- *)
Definition I0 (i m : N) (h : list op) (st : state) : Prop := LI0 i m h st /\ quiet st.

Lemma add_pending_I0 : forall i m h st, LI0 i m h st -> I0 i m h (add_pending st).
Proof.
  intros i m h st L. split; [apply loop_LI0; assumption|].
  apply iter_none_quiet; [|apply add_pending_done].
  apply (li_sorted i m h). apply loop_LI0; assumption.
Qed.

Lemma add_pending_next_mono : forall i m h st, LI0 i m h st -> next st <= next (add_pending st).
Proof. intros. eapply loop_next_mono; eassumption. Qed.

(* expected sequence arrives: cached immediately *)
Lemma direct_LI0 : forall i m h st e rcv,
  LI0 i m h st -> quiet st -> e_end e = 0 -> e_seq e = next st -> covered h (e_seq e) ->
  (forall s, In s rcv -> In s (received st) \/ s = e_seq e) ->
  LI0 i m h (add_to_cache (set_received st rcv) e false).
Proof.
  intros i m h st e rcv [] Q He Hs Hc Hrcv.
  assert (Hn : next (add_to_cache (set_received st rcv) e false) = next st + 1).
  { unfold add_to_cache; cbn. rewrite He. cbn. destruct (next st <=? e_seq e) eqn:E; lia. }
  constructor; rewrite ?Hn; cbn [add_to_cache set_received initial maxp pending received skipped abandoned delivered];
    try assumption; try lia.
  - eapply sk_below_mono; [eassumption | lia].
  - eapply sk_below_mono; [eassumption | lia].
  - intros d [<-|Hd]; cbn [d_seq].
    + split; [lia|]. apply sk_below_nomem with (n := next st); [assumption | lia].
    + destruct (li_dl0 d Hd). split; [lia | assumption].
  - cbn [map d_seq]. constructor; [|assumption]. intros Hin. apply in_map_iff in Hin as [d [Hd1 Hd2]].
    destruct (li_dl0 d Hd2). lia.
  - intros s S1 S2. destruct (N.ltb_spec s (next st)); [now apply li_hwm0|]. left.
    replace s with (e_seq e) by lia. assumption.
  - right; left. replace (next st + 1 - 1) with (e_seq e) by lia. assumption.
  - intros s Hin. apply removeN_in in Hin as [Hin Hne]. destruct (Hrcv s Hin) as [Hin'|Hin']; [|congruence].
    destruct (li_recv0 s Hin') as [R1 R2]. split; [assumption|]. destruct R2 as [R2|R2]; [left; lia | now right].
Qed.

(* a sequence above the expected one is buffered *)
Lemma push_LI0 : forall i m h st e rcv,
  LI0 i m h st -> next st <= e_seq e -> e_seq e <= e_hi e -> (forall s, e_seq e <= s -> s <= e_hi e -> covered h s) ->
  (forall s, In s rcv -> In s (received st) \/ s = e_seq e) ->
  LI0 i m h (set_pending (set_received st rcv) (pq_push e (pending st))).
Proof.
  intros i m h st e rcv [] Hlt Hhi Hc Hrcv.
  constructor; cbn [set_pending set_received initial maxp next pending received skipped abandoned delivered]; try assumption.
  - intros p Hp. apply in_pq_push in Hp as [->|Hp]; [|auto]. repeat split; [lia | assumption | assumption].
  - apply sorted_from_push; [assumption | lia].
  - destruct li_q3 as [H|[H|[p [H1 H2]]]]; [now left | now right; left |].
    right; right. exists p. split; [apply in_pq_push; now right | assumption].
  - intros s Hin. destruct (Hrcv s Hin) as [Hin'| ->].
    + destruct (li_recv0 s Hin') as [R1 R2]. split; [assumption|]. destruct R2 as [R2|[x [X1 X2]]]; [now left|].
      right. exists x. split; [apply in_pq_push; now right | assumption].
    + split; [apply sk_below_nomem with (n := next st); assumption|]. right. exists e. split; [apply in_pq_push; now left | reflexivity].
Qed.

(* a skipped sequence turns up: cached as late, then removed from the skipped list *)
Lemma late_LI0 : forall i m h st e rcv,
  LI0 i m h st -> e_end e = 0 -> sk_mem (e_seq e) (skipped st) = true -> covered h (e_seq e) ->
  (forall s, In s rcv -> In s (received st) \/ s = e_seq e) ->
  let st2 := add_to_cache (set_received st rcv) e true in
  LI0 i m h (set_skipped st2 (sk_diff (e_seq e) (e_seq e) (skipped st2))) /\ next st2 = next st.
Proof.
  intros i m h st e rcv [] He Hsk Hc Hrcv st2.
  assert (Hlt : e_seq e < next st) by (exact (sk_below_mem _ _ _ li_skbelow0 Hsk)).
  assert (Hn : next st2 = next st).
  { unfold st2, add_to_cache; cbn. rewrite He. cbn. destruct (next st <=? e_seq e) eqn:E; lia. }
  split; [|assumption].
  constructor; cbn [set_skipped initial maxp next pending received skipped abandoned delivered]; rewrite ?Hn;
    unfold st2; cbn [add_to_cache set_received initial maxp pending received skipped abandoned delivered]; try assumption.
  - apply sk_wf_from_diff. assumption.
  - apply sk_below_diff. assumption.
  - intros d [<-|Hd]; cbn [d_seq]; rewrite sk_mem_diff.
    + split; [assumption|]. rewrite Hsk. cbn. rewrite !N.leb_refl. reflexivity.
    + destruct (li_dl0 d Hd) as [D1 D2]. split; [assumption|]. rewrite D2. reflexivity.
  - cbn [map d_seq]. constructor; [|assumption]. intros Hin. apply in_map_iff in Hin as [d [Hd1 Hd2]].
    destruct (li_dl0 d Hd2) as [_ D2]. rewrite Hd1 in D2. congruence.
  - intros s S1 S2. destruct (li_hwm0 s S1 S2) as [C|[C|C]]; [now left | | now right; right].
    destruct (N.eq_dec s (e_seq e)) as [->|Hne]; [now left|].
    right; left. rewrite sk_mem_diff, C. cbn. apply negb_true_iff. lia.
  - intros s Hs. rewrite sk_mem_diff, (li_absk0 s Hs). reflexivity.
  - intros s Hin. apply removeN_in in Hin as [Hin Hne]. destruct (Hrcv s Hin) as [Hin'|Hin']; [|congruence].
    destruct (li_recv0 s Hin') as [R1 R2]. rewrite sk_mem_diff, R1. split; [reflexivity | assumption].
Qed.

Lemma quiet_same_pending : forall st st', pending st' = pending st -> next st' = next st -> quiet st -> quiet st'.
Proof. intros st st' H1 H2 Q p Hp. rewrite H1 in Hp. rewrite H2. auto. Qed.

Lemma process_entry_I0 : forall i m h st e,
  I0 i m h st -> e_end e = 0 -> covered h (e_seq e) -> I0 i m h (process_entry st e).
Proof.
  intros i m h st e [L Q] He Hc. unfold process_entry.
  destruct ((e_seq e <? next st) && negb (sk_mem (e_seq e) (skipped st))) eqn:E1; [split; assumption|].
  destruct (memN (e_seq e) (received st)) eqn:E2; [split; assumption|].
  assert (Hnz : next st =? 0 = false) by (destruct L; lia).
  rewrite Hnz, orb_false_r.
  destruct (e_seq e =? next st) eqn:E3.
  { apply add_pending_I0. apply direct_LI0; try assumption; [lia | intros s [<-|Hs]; auto]. }
  cbn [set_received next pending maxp initial].
  destruct (next st <? e_seq e) eqn:E4.
  { assert (LP : LI0 i m h (set_pending (set_received st (e_seq e :: received st)) (pq_push e (pending st)))).
    { assert (Hhi : e_hi e = e_seq e) by (unfold e_hi; rewrite He; reflexivity).
      apply push_LI0; rewrite ?Hhi; try assumption; try lia; [|intros s [<-|Hs]; auto].
      intros s S1 S2. replace s with (e_seq e) by lia. assumption. }
    match goal with |- context[if ?c then _ else _] => destruct c end; [apply add_pending_I0; assumption|].
    split; [assumption|]. intros p Hp. cbn in Hp |- *. apply in_pq_push in Hp as [->|Hp]; [lia | auto]. }
  destruct (initial st <? e_seq e) eqn:E5.
  { assert (Hsk : sk_mem (e_seq e) (skipped st) = true).
    { destruct (sk_mem (e_seq e) (skipped st)); [reflexivity|]. cbn in E1. lia. }
    destruct (late_LI0 i m h st e (e_seq e :: received st) L He Hsk Hc ltac:(intros s [<-|Hs]; auto)) as [L' Hn].
    split; [exact L'|]. eapply quiet_same_pending; [| |exact Q]; cbn; [reflexivity|].
    cbn in Hn. exact Hn. }
  (* at or below the initial sequence and in the skipped list: impossible *)
  exfalso.
  assert (Hsk : sk_mem (e_seq e) (skipped st) = true).
  { destruct (sk_mem (e_seq e) (skipped st)); [reflexivity|]. cbn in E1. lia. }
  destruct L. pose proof (sk_wf_from_lb _ _ _ li_skwf0 Hsk). lia.
Qed.

Lemma process_range_I0 : forall i m h st lo hi a,
  I0 i m h st -> lo < hi -> (forall s, lo <= s -> s <= hi -> covered h s) -> I0 i m h (process_range st lo hi a).
Proof.
  intros i m h st lo hi a [L Q] Hlh Hc. unfold process_range.
  destruct (hi <? next st) eqn:E1.
  { split; [|exact Q]. destruct L.
    constructor; cbn [set_skipped initial maxp next pending received skipped abandoned delivered]; try assumption.
    - apply sk_wf_from_diff. assumption.
    - apply sk_below_diff. assumption.
    - intros d Hd. destruct (li_dl0 d Hd) as [D1 D2]. split; [assumption|]. rewrite sk_mem_diff, D2. reflexivity.
    - intros s S1 S2. destruct (li_hwm0 s S1 S2) as [C|[C|C]]; [now left | | now right; right].
      destruct ((lo <=? s) && (s <=? hi)) eqn:E; [left; apply Hc; lia|].
      right; left. rewrite sk_mem_diff, C, E. reflexivity.
    - intros s Hs. rewrite sk_mem_diff, (li_absk0 s Hs). reflexivity.
    - intros s Hs. destruct (li_recv0 s Hs) as [R1 R2]. rewrite sk_mem_diff, R1. split; [reflexivity | assumption]. }
  destruct (next st <=? lo) eqn:E2; [|split; assumption].
  apply add_pending_I0.
  replace (set_pending st (pq_push (mkE lo hi KUnused a) (pending st)))
    with (set_pending (set_received st (received st)) (pq_push (mkE lo hi KUnused a) (pending st)))
    by (destruct st; reflexivity).
  assert (Hhi : e_hi (mkE lo hi KUnused a) = hi) by (unfold e_hi; cbn; destruct (hi =? 0) eqn:E; lia).
  apply push_LI0; try assumption; rewrite ?Hhi; cbn [e_seq]; try lia; [assumption | intros s Hs; now left].
Qed.

Lemma step_I0 : forall i m h st o, I0 i m h st -> I0 i m (o :: h) (step st o).
Proof.
  intros i m h st o [L Q]. apply (LI0_cons _ _ _ _ o) in L.
  assert (I : I0 i m (o :: h) st) by (split; assumption). clear L Q.
  destruct o as [k s a|lo hi a| | |old]; cbn [step].
  - apply process_entry_I0; [assumption | reflexivity |]. cbn. exists (Arrive k s a). split; [now left | cbn; apply N.eqb_refl].
  - destruct (lo =? hi) eqn:E1.
    + apply process_entry_I0; [assumption | reflexivity |]. cbn. exists (ArriveRange lo hi a). split; [now left | cbn; lia].
    + destruct (hi <? lo) eqn:E2; [assumption|].
      apply process_range_I0; [assumption | lia |]. intros s S1 S2. exists (ArriveRange lo hi a). split; [now left | cbn; lia].
  - apply add_pending_I0. apply I.
  - destruct I as [[] Q]. split; [|exact Q].
    constructor; cbn [initial maxp next pending received skipped abandoned delivered]; try assumption.
    + exact I.
    + intros a b [].
    + apply sk_below_app; assumption.
    + intros d Hd. destruct (li_dl0 d Hd). split; [assumption | reflexivity].
    + intros s S1 S2. destruct (li_hwm0 s S1 S2) as [C|[C|C]]; [now left | |]; right; right; rewrite sk_mem_app, C; [reflexivity | apply orb_true_r].
    + intros s Hs. reflexivity.
    + intros s Hs. destruct (li_recv0 s Hs) as [R1 R2]. split; [reflexivity | assumption].
  - (* partial abandonment: the elements whose bit is set leave the skipped list *)
    destruct I as [[] Q]. split; [|exact Q].
    destruct (sk_wf_from_split old _ _ li_skwf0) as [W1 W2].
    destruct (sk_below_split _ old _ li_skbelow0) as [B1 B2].
    assert (Hsub : forall s, sk_mem s (fst (sk_split old (skipped st))) = true -> sk_mem s (skipped st) = true).
    { intros s Hs. rewrite (sk_mem_split s old). rewrite Hs. reflexivity. }
    constructor; cbn [initial maxp next pending received skipped abandoned delivered]; try assumption.
    + apply sk_below_app; assumption.
    + intros d Hd. destruct (li_dl0 d Hd) as [D1 D2]. split; [assumption|].
      destruct (sk_mem (d_seq d) (fst (sk_split old (skipped st)))) eqn:E; [|reflexivity]. apply Hsub in E. congruence.
    + intros s S1 S2. destruct (li_hwm0 s S1 S2) as [C|[C|C]]; [now left | |].
      * rewrite (sk_mem_split s old) in C. apply orb_true_iff in C as [C|C]; [right; left; assumption|].
        right; right. rewrite sk_mem_app, C. reflexivity.
      * right; right. rewrite sk_mem_app, C. apply orb_true_r.
    + intros s Hs. rewrite sk_mem_app in Hs. apply orb_true_iff in Hs as [Hs|Hs].
      * eapply sk_split_disjoint; eassumption.
      * destruct (sk_mem s (fst (sk_split old (skipped st)))) eqn:E; [|reflexivity]. apply Hsub in E.
        pose proof (li_absk0 s Hs). congruence.
    + intros s Hs. destruct (li_recv0 s Hs) as [R1 R2]. split; [|assumption].
      destruct (sk_mem s (fst (sk_split old (skipped st)))) eqn:E; [|reflexivity]. apply Hsub in E. congruence.
Qed.

Lemma step_next_mono : forall i m h st o, I0 i m h st -> next st <= next (step st o).
Proof.
  intros i m h st o [L Q].
  assert (PE : forall e, e_end e = 0 -> covered (o :: h) (e_seq e) -> next st <= next (process_entry st e)).
  { intros e He Hc. apply (LI0_cons _ _ _ _ o) in L. unfold process_entry.
    destruct ((e_seq e <? next st) && negb (sk_mem (e_seq e) (skipped st))) eqn:E1; [lia|].
    destruct (memN (e_seq e) (received st)) eqn:E2; [lia|].
    assert (Hnz : next st =? 0 = false) by (destruct L; lia).
    rewrite Hnz, orb_false_r.
    destruct (e_seq e =? next st) eqn:E3.
    { pose proof (direct_LI0 i m _ st e (e_seq e :: received st) L Q He ltac:(lia) Hc ltac:(intros s [<-|Hs]; auto)) as L'.
      pose proof (add_pending_next_mono _ _ _ _ L').
      assert (next (add_to_cache (set_received st (e_seq e :: received st)) e false) = next st + 1).
      { unfold add_to_cache; cbn. rewrite He. cbn. destruct (next st <=? e_seq e) eqn:E; lia. }
      lia. }
    cbn [set_received next pending maxp initial].
    destruct (next st <? e_seq e) eqn:E4.
    { assert (LP : LI0 i m (o :: h) (set_pending (set_received st (e_seq e :: received st)) (pq_push e (pending st)))).
      { assert (Hhi : e_hi e = e_seq e) by (unfold e_hi; rewrite He; reflexivity).
        apply push_LI0; rewrite ?Hhi; try assumption; try lia; [|intros s [<-|Hs]; auto].
        intros s S1 S2. replace s with (e_seq e) by lia. assumption. }
      match goal with |- context[if ?c then _ else _] => destruct c end; [|cbn; lia].
      pose proof (add_pending_next_mono _ _ _ _ LP). cbn in H. exact H. }
    destruct (initial st <? e_seq e) eqn:E5; [|cbn; lia].
    cbn. rewrite He. cbn. destruct (next st <=? e_seq e) eqn:E; lia. }
  destruct o as [k s a|lo hi a| | |old]; cbn [step].
  - apply PE; [reflexivity|]. exists (Arrive k s a). split; [now left | cbn; apply N.eqb_refl].
  - destruct (lo =? hi) eqn:E1.
    + apply PE; [reflexivity|]. exists (ArriveRange lo hi a). split; [now left | cbn; lia].
    + destruct (hi <? lo) eqn:E2; [lia|]. unfold process_range.
      destruct (hi <? next st) eqn:E3; [cbn; lia|].
      destruct (next st <=? lo) eqn:E4; [|lia].
      apply (LI0_cons _ _ _ _ (ArriveRange lo hi a)) in L.
      assert (LP : LI0 i m (ArriveRange lo hi a :: h) (set_pending (set_received st (received st)) (pq_push (mkE lo hi KUnused a) (pending st)))).
      { assert (Hhi : e_hi (mkE lo hi KUnused a) = hi) by (unfold e_hi; cbn; destruct (hi =? 0) eqn:E; lia).
        apply push_LI0; try assumption; rewrite ?Hhi; cbn [e_seq]; try lia; [|intros s Hs; now left].
        intros s S1 S2. exists (ArriveRange lo hi a). split; [now left | cbn; lia]. }
      replace (set_pending st (pq_push (mkE lo hi KUnused a) (pending st)))
        with (set_pending (set_received st (received st)) (pq_push (mkE lo hi KUnused a) (pending st)))
        by (destruct st; reflexivity).
      pose proof (add_pending_next_mono _ _ _ _ LP). cbn in H. exact H.
  - eapply add_pending_next_mono; eassumption.
  - cbn. lia.
  - cbn. lia.
Qed.

(* ---------- reachable states ---------- *)
Lemma run_app : forall ops st o, run st (ops ++ [o]) = step (run st ops) o.
Proof. induction ops as [|x ops IH]; intros st o; cbn; [reflexivity | apply IH]. Qed.

Lemma I0_init : forall i m, I0 i m [] (init i m).
Proof. intros. split; [apply LI0_init | intros p []]. Qed.

(* the history is kept newest first *)
Lemma run_I0 : forall i m ops, I0 i m (rev ops) (run (init i m) ops).
Proof.
  intros i m ops. induction ops as [|o ops IH] using rev_ind; [apply I0_init|].
  rewrite run_app, rev_app_distr. cbn. apply step_I0. assumption.
Qed.

Lemma covered_rev : forall ops s, covered (rev ops) s <-> covered ops s.
Proof. intros ops s. unfold covered. split; intros [o [H1 H2]]; exists o; split; try assumption; [now apply in_rev | now apply -> in_rev]. Qed.
