(* C08 -- what happens to an entry once the change cache forwards it: the per-channel caches of
   db/channel_cache.go (channelCacheImpl.AddToCache / AddPrincipal / AddUnusedSequence,
   addChannelCache) and db/channel_cache_single.go (addToCache's validFrom test, AddLateSequence),
   as far as late arrivals are concerned.

   A single-channel cache is created lazily (first changes request for the channel) with
   validFrom = highCacheSequence + 1; the "*" channel (id 0) exists from the start.  A forwarded document
   goes to the caches of its channels and of "*": into the channel log only when its sequence is at or
   above validFrom, and -- when it is a late arrival (Skipped flag) -- onto the late-sequence log
   WHATEVER validFrom is.  Open continuous feeds read the late-sequence log from the position at which
   they registered.  Pruning of late-log entries nobody listens to is not modelled (the harness keeps a
   listener registered on every cache it opens, as an open feed does). *)
From SG Require Import Base.Prelude C08.SkippedSet C08.SeqBuffer.
Open Scope N_scope.

Record chan := mkCh {
  c_id : N;              (* 0 = "*" *)
  c_valid : N;           (* validFrom *)
  c_logs : list N;       (* sequences in the channel log, newest first *)
  c_late : list N        (* late-sequence log, newest first *)
}.

Record xstate := mkX {
  x_buf : state;         (* the sequence buffer *)
  x_hcs : N;             (* channelCacheImpl.highCacheSequence *)
  x_chans : list chan    (* active single-channel caches *)
}.

Inductive xop :=
| XBuf (o : op)          (* an operation of the sequence buffer *)
| XOpen (c : N).         (* first request for channel c: getSingleChannelCache -> addChannelCache *)

Definition xinit (i m : N) : xstate := mkX (init i m) i [mkCh 0 (i + 1) [] []].

(* the deliveries made since the state [old], oldest first *)
Definition new_dl (old new : state) : list dlv :=
  rev (firstn (length (delivered new) - length (delivered old)) (delivered new)).

Definition is_doc (d : dlv) : bool := match d_kind d with KDoc => true | _ => false end.
Definition d_top (d : dlv) : N := if d_end d =? 0 then d_seq d else d_end d.

Section Channels.
(* the channels a document (identified by its sequence) is in *)
Variable chf : N -> list N.

Definition in_channel (d : dlv) (c : chan) : bool := (c_id c =? 0) || memN (c_id c) (chf (d_seq d)).

(* channelCacheImpl.AddToCache for one active cache *)
Definition feed_one (d : dlv) (c : chan) : chan :=
  if is_doc d && in_channel d c then
    mkCh (c_id c) (c_valid c)
         (if c_valid c <=? d_seq d then d_seq d :: c_logs c else c_logs c)
         (if d_late d then d_seq d :: c_late c else c_late c)
  else c.

Definition deliver (acc : N * list chan) (d : dlv) : N * list chan :=
  (N.max (fst acc) (d_top d), map (feed_one d) (snd acc)).

Definition has_chan (c : N) (l : list chan) : bool := existsb (fun x => c_id x =? c) l.

Definition xstep (x : xstate) (o : xop) : xstate :=
  match o with
  | XBuf b =>
      let st' := step (x_buf x) b in
      let r := fold_left deliver (new_dl (x_buf x) st') (x_hcs x, x_chans x) in
      mkX st' (fst r) (snd r)
  | XOpen c =>
      if has_chan c (x_chans x) then x
      else mkX (x_buf x) (x_hcs x) (x_chans x ++ [mkCh c (x_hcs x + 1) [] []])
  end.

Fixpoint xrun (x : xstate) (ops : list xop) : xstate :=
  match ops with [] => x | o :: r => xrun (xstep x o) r end.

End Channels.

(* what a feed that registered when the late log held [reg] entries reads from it (GetLateSequencesSince) *)
Definition late_since (reg : nat) (c : chan) : list N :=
  rev (firstn (length (c_late c) - reg) (c_late c)).

Fixpoint buf_ops (ops : list xop) : list op :=
  match ops with [] => [] | XBuf o :: r => o :: buf_ops r | XOpen _ :: r => buf_ops r end.
