(* C08 -- lemmas about the set-of-ranges abstraction of the skipped list *)
From SG Require Import Base.Prelude C08.SkippedSet.
Open Scope N_scope.

Lemma sk_mem_app : forall s l1 l2, sk_mem s (l1 ++ l2) = sk_mem s l1 || sk_mem s l2.
Proof. intros; unfold sk_mem; apply existsb_app. Qed.

Lemma sk_mem_append : forall s lo hi l lb, sk_wf_from lb l -> lo <= hi ->
  sk_mem s (sk_append lo hi l) = sk_mem s l || ((lo <=? s) && (s <=? hi)).
Proof.
  intros s lo hi l; induction l as [|[a b] l IH]; intros lb Hwf Hlh.
  - cbn. unfold in_rng; cbn. now rewrite orb_false_r.
  - cbn in Hwf. destruct Hwf as [H1 [H2 H3]]. cbn [sk_append]. destruct l as [|x l].
    + destruct (b + 1 =? lo) eqn:E; unfold sk_mem, in_rng; cbn;
        destruct (N.leb_spec a s), (N.leb_spec s hi), (N.leb_spec s b), (N.leb_spec lo s); cbn; try reflexivity; lia.
    + specialize (IH _ H3 Hlh). unfold sk_mem in *. cbn [existsb] in *. rewrite IH.
      destruct (in_rng s (a, b)), (in_rng s x), (existsb (in_rng s) l), ((lo <=? s) && (s <=? hi)); reflexivity.
Qed.

Lemma sk_mem_push : forall s lo hi l lb, sk_wf_from lb l ->
  sk_mem s (sk_push lo hi l) = sk_mem s l || ((lo <=? s) && (s <=? hi)).
Proof.
  intros s lo hi l lb Hwf; unfold sk_push. destruct (hi <? lo) eqn:E.
  - destruct ((lo <=? s) && (s <=? hi)) eqn:F; [lia | now rewrite orb_false_r].
  - eapply sk_mem_append; [eassumption | lia].
Qed.

Lemma sk_mem_cut : forall s lo hi r,
  sk_mem s (cut lo hi r) = in_rng s r && negb ((lo <=? s) && (s <=? hi)).
Proof.
  intros s lo hi [a b]; unfold cut, sk_mem, in_rng; cbn [fst snd].
  destruct ((b <? lo) || (hi <? a) || (hi <? lo)) eqn:E1; cbn.
  - rewrite orb_false_r. destruct ((a <=? s) && (s <=? b)) eqn:E2; cbn; [|reflexivity]. symmetry. lia.
  - destruct (a <? lo) eqn:E2, (hi <? b) eqn:E3; cbn; unfold in_rng; cbn; lia.
Qed.

Lemma sk_mem_diff : forall s lo hi l,
  sk_mem s (sk_diff lo hi l) = sk_mem s l && negb ((lo <=? s) && (s <=? hi)).
Proof.
  intros s lo hi l; induction l as [|r l IH]; [reflexivity|].
  unfold sk_diff in *; cbn [flat_map]. rewrite sk_mem_app, sk_mem_cut, IH.
  unfold sk_mem; cbn [existsb]. destruct (in_rng s r), (existsb (in_rng s) l), ((lo <=? s) && (s <=? hi)); reflexivity.
Qed.

Lemma sk_mem_in : forall s l, sk_mem s l = true <-> exists a b, In (a, b) l /\ a <= s <= b.
Proof.
  intros; unfold sk_mem. rewrite existsb_exists. split.
  - intros [[a b] [H1 H2]]. exists a, b. unfold in_rng in H2; cbn in H2. split; [assumption | lia].
  - intros [a [b [H1 H2]]]. exists (a, b). split; [assumption | unfold in_rng; cbn; lia].
Qed.

Lemma sk_below_mem : forall n l s, sk_below n l -> sk_mem s l = true -> s < n.
Proof. intros n l s Hb Hm. apply sk_mem_in in Hm as [a [b [Hin Hr]]]. specialize (Hb _ _ Hin). lia. Qed.

Lemma sk_below_nomem : forall n l s, sk_below n l -> n <= s -> sk_mem s l = false.
Proof.
  intros n l s Hb Hs. destruct (sk_mem s l) eqn:E; [|reflexivity].
  pose proof (sk_below_mem _ _ _ Hb E). lia.
Qed.

Lemma sk_below_mono : forall n n' l, sk_below n l -> n <= n' -> sk_below n' l.
Proof. intros n n' l H Hle a b Hin. specialize (H _ _ Hin). lia. Qed.

Lemma sk_below_app : forall n l1 l2, sk_below n l1 -> sk_below n l2 -> sk_below n (l1 ++ l2).
Proof. intros n l1 l2 H1 H2 a b Hin. apply in_app_or in Hin as [Hin|Hin]; eauto. Qed.

Lemma in_sk_append : forall lo hi l a b, In (a, b) (sk_append lo hi l) ->
  In (a, b) l \/ b = hi.
Proof.
  intros lo hi l; induction l as [|[x y] l IH]; intros a b Hin.
  - cbn in Hin. destruct Hin as [E|[]]. inversion E; auto.
  - cbn [sk_append] in Hin. destruct l as [|z l].
    + destruct (y + 1 =? lo); cbn in Hin.
      * destruct Hin as [E|[]]. inversion E; auto.
      * destruct Hin as [E|[E|[]]]; [left; left; assumption | inversion E; auto].
    + destruct Hin as [E|Hin]; [left; left; assumption|]. destruct (IH _ _ Hin) as [H|H]; [left; right; assumption | now right].
Qed.

Lemma sk_below_push : forall n lo hi l, sk_below n l -> hi < n -> sk_below n (sk_push lo hi l).
Proof.
  intros n lo hi l H Hh. unfold sk_push. destruct (hi <? lo); [assumption|].
  intros a b Hin. destruct (in_sk_append _ _ _ _ _ Hin) as [Hin'| ->]; [eapply H; eassumption | assumption].
Qed.

Lemma in_cut : forall lo hi r a b, In (a, b) (cut lo hi r) -> fst r <= a /\ b <= snd r /\ a <= b \/ (a, b) = r.
Proof.
  intros lo hi [x y] a b; unfold cut; cbn [fst snd].
  destruct ((y <? lo) || (hi <? x) || (hi <? lo)) eqn:E1.
  - intros [E|[]]. right; congruence.
  - destruct (x <? lo) eqn:E2, (hi <? y) eqn:E3; cbn; intros H;
      repeat (destruct H as [H|H]; [inversion H; subst; left; lia|]); destruct H.
Qed.

Lemma sk_below_diff : forall n lo hi l, sk_below n l -> sk_below n (sk_diff lo hi l).
Proof.
  intros n lo hi l H a b Hin. unfold sk_diff in Hin. apply in_flat_map in Hin as [[x y] [Hin Hc]].
  specialize (H _ _ Hin). apply in_cut in Hc as [Hc|Hc]; cbn in Hc; [lia | inversion Hc; subst; assumption].
Qed.

Lemma sk_wf_from_weaken : forall l lb lb', sk_wf_from lb l -> lb' <= lb -> sk_wf_from lb' l.
Proof. intros [|[a b] l] lb lb'; cbn; [trivial|]. intros [H1 [H2 H3]] Hle. repeat split; [lia|assumption|assumption]. Qed.

Lemma sk_wf_from_app : forall l lb lo hi,
  sk_wf_from lb l -> sk_below lo l -> lb <= lo -> lo <= hi -> sk_wf_from lb (l ++ [(lo, hi)]).
Proof.
  induction l as [|[a b] l IH]; intros lb lo hi Hwf Hb Hlb Hlh; cbn.
  - repeat split; [assumption | assumption].
  - cbn in Hwf. destruct Hwf as [H1 [H2 H3]]. repeat split; [assumption|assumption|].
    apply IH; [assumption | | | assumption].
    + intros x y Hin. apply (Hb x y). now right.
    + specialize (Hb a b (or_introl eq_refl)). lia.
Qed.

Lemma sk_wf_from_append : forall l lb lo hi,
  sk_wf_from lb l -> sk_below lo l -> lb <= lo -> lo <= hi -> sk_wf_from lb (sk_append lo hi l).
Proof.
  induction l as [|[a b] l IH]; intros lb lo hi Hwf Hb Hlb Hlh.
  - cbn. repeat split; assumption.
  - cbn in Hwf. destruct Hwf as [H1 [H2 H3]]. pose proof (Hb a b (or_introl eq_refl)) as Hab.
    cbn [sk_append]. destruct l as [|z l].
    + destruct (b + 1 =? lo) eqn:E; cbn; repeat split; try assumption; lia.
    + cbn [sk_wf_from]. repeat split; [assumption | assumption |].
      apply IH; [assumption | | lia | assumption].
      intros x y Hin. apply (Hb x y). now right.
Qed.

Lemma sk_wf_from_push : forall l lb lo hi,
  sk_wf_from lb l -> sk_below lo l -> lb <= lo -> sk_wf_from lb (sk_push lo hi l).
Proof.
  intros. unfold sk_push. destruct (hi <? lo) eqn:E; [assumption|]. apply sk_wf_from_append; try assumption. lia.
Qed.

Lemma sk_wf_from_diff : forall lo hi l lb, sk_wf_from lb l -> sk_wf_from lb (sk_diff lo hi l).
Proof.
  intros lo hi l; induction l as [|[a b] l IH]; intros lb Hwf; [exact I|].
  cbn in Hwf. destruct Hwf as [H1 [H2 H3]]. unfold sk_diff; cbn [flat_map]. fold (sk_diff lo hi l).
  specialize (IH _ H3).
  unfold cut; cbn [fst snd].
  destruct ((b <? lo) || (hi <? a) || (hi <? lo)) eqn:E1; cbn [app].
  - cbn. repeat split; assumption.
  - destruct (a <? lo) eqn:E2, (hi <? b) eqn:E3; cbn [app sk_wf_from].
    + repeat split; try lia. eapply sk_wf_from_weaken; [exact IH | lia].
    + repeat split; try lia. eapply sk_wf_from_weaken; [exact IH | lia].
    + repeat split; try lia. eapply sk_wf_from_weaken; [exact IH | lia].
    + eapply sk_wf_from_weaken; [exact IH | lia].
Qed.

(* the first element starts the set: everything skipped is at or above it *)
Lemma sk_oldest_min : forall l lb s, sk_wf_from lb l -> sk_mem s l = true -> lb <= sk_oldest l /\ sk_oldest l <= s.
Proof.
  induction l as [|[a b] l IH]; intros lb s Hwf Hm; [discriminate|].
  cbn in Hwf. destruct Hwf as [H1 [H2 H3]]. cbn [sk_oldest]. split; [assumption|].
  unfold sk_mem in Hm; cbn [existsb] in Hm. apply orb_true_iff in Hm as [Hm|Hm].
  - unfold in_rng in Hm; cbn in Hm. lia.
  - destruct (IH _ _ H3 Hm) as [H4 H5]. destruct l as [|[c d] l]; [discriminate|]. cbn in *. lia.
Qed.

Lemma sk_wf_from_lb : forall l lb s, sk_wf_from lb l -> sk_mem s l = true -> lb <= s.
Proof. intros l lb s H1 H2. destruct (sk_oldest_min _ _ _ H1 H2). lia. Qed.

Lemma sk_oldest_zero : forall l lb, sk_wf_from lb l -> 0 < lb -> sk_oldest l = 0 -> l = [].
Proof. intros [|[a b] l] lb; cbn; [reflexivity|]. intros [H1 _] H2 H3. lia. Qed.

(* ---------- CompactList: abandoning the elements that are old enough ---------- *)
Lemma sk_mem_split : forall s bits l,
  sk_mem s l = sk_mem s (fst (sk_split bits l)) || sk_mem s (snd (sk_split bits l)).
Proof.
  intros s bits l; revert bits; induction l as [|r l IH]; intros bits; [reflexivity|].
  cbn [sk_split]. specialize (IH (tl bits)). unfold sk_mem in *. destruct (hd false bits); cbn [fst snd existsb]; rewrite IH;
    destruct (in_rng s r), (existsb (in_rng s) (fst (sk_split (tl bits) l))), (existsb (in_rng s) (snd (sk_split (tl bits) l))); reflexivity.
Qed.

Lemma sk_split_in : forall x bits l,
  (In x (fst (sk_split bits l)) -> In x l) /\ (In x (snd (sk_split bits l)) -> In x l).
Proof.
  intros x bits l; revert bits; induction l as [|r l IH]; intros bits; [cbn; tauto|].
  cbn [sk_split]. destruct (IH (tl bits)) as [I1 I2]. destruct (hd false bits); cbn [fst snd]; split; intros H;
    try (destruct H as [H|H]; [now left | right]); auto; right; auto.
Qed.

Lemma sk_below_split : forall n bits l, sk_below n l ->
  sk_below n (fst (sk_split bits l)) /\ sk_below n (snd (sk_split bits l)).
Proof.
  intros n bits l H.
  split; intros a b Hin; apply (H a b); destruct (sk_split_in (a, b) bits l) as [I1 I2]; auto.
Qed.

Lemma sk_wf_from_split : forall bits l lb, sk_wf_from lb l ->
  sk_wf_from lb (fst (sk_split bits l)) /\ sk_wf_from lb (snd (sk_split bits l)).
Proof.
  intros bits l; revert bits; induction l as [|[a b] l IH]; intros bits lb Hwf; [cbn; tauto|].
  cbn in Hwf. destruct Hwf as [H1 [H2 H3]]. destruct (IH (tl bits) _ H3) as [I1 I2].
  cbn [sk_split]. destruct (hd false bits); cbn [fst snd sk_wf_from]; split; repeat split; try assumption;
    eapply sk_wf_from_weaken; try eassumption; lia.
Qed.

(* an abandoned sequence is no longer in the skipped list: the elements are pairwise disjoint *)
Lemma sk_split_disjoint : forall s bits l lb, sk_wf_from lb l ->
  sk_mem s (snd (sk_split bits l)) = true -> sk_mem s (fst (sk_split bits l)) = false.
Proof.
  intros s bits l; revert bits; induction l as [|[a b] l IH]; intros bits lb Hwf Hm; [reflexivity|].
  cbn in Hwf. destruct Hwf as [H1 [H2 H3]]. destruct (sk_wf_from_split (tl bits) _ _ H3) as [W1 W2].
  cbn [sk_split] in *. destruct (hd false bits); cbn [fst snd] in *.
  - unfold sk_mem in Hm; cbn [existsb] in Hm. apply orb_true_iff in Hm as [Hm|Hm].
    + destruct (sk_mem s (fst (sk_split (tl bits) l))) eqn:E; [|reflexivity].
      pose proof (sk_wf_from_lb _ _ _ W1 E). unfold in_rng in Hm; cbn in Hm. lia.
    + eapply IH; eassumption.
  - pose proof (sk_wf_from_lb _ _ _ W2 Hm). unfold sk_mem; cbn [existsb]. apply orb_false_iff. split.
    + unfold in_rng; cbn. lia.
    + eapply IH; eassumption.
Qed.
