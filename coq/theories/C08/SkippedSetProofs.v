(* C08 -- lemmas about the set-of-ranges abstraction of the skipped list *)
From SG Require Import Base.Prelude C08.SkippedSet.
Open Scope N_scope.

Lemma sk_mem_app : forall s l1 l2, sk_mem s (l1 ++ l2) = sk_mem s l1 || sk_mem s l2.
Proof. intros; unfold sk_mem; apply existsb_app. Qed.

Lemma sk_mem_push : forall s lo hi l,
  sk_mem s (sk_push lo hi l) = sk_mem s l || ((lo <=? s) && (s <=? hi)).
Proof.
  intros; unfold sk_push. destruct (hi <? lo) eqn:E.
  - destruct ((lo <=? s) && (s <=? hi)) eqn:F; [lia | now rewrite orb_false_r].
  - rewrite sk_mem_app. cbn. unfold in_rng; cbn. now rewrite orb_false_r.
Qed.

Lemma sk_mem_cut : forall s lo hi r,
  sk_mem s (cut lo hi r) = in_rng s r && negb ((lo <=? s) && (s <=? hi)).
Proof.
  intros s lo hi [a b]; unfold cut, sk_mem, in_rng; cbn [fst snd].
  destruct ((b <? lo) || (hi <? a) || (hi <? lo)) eqn:E1; cbn.
  - rewrite orb_false_r. destruct ((a <=? s) && (s <=? b)) eqn:E2; cbn; [|reflexivity]. symmetry. lia.
  - destruct (a <? lo) eqn:E2, (hi <? b) eqn:E3; cbn; unfold in_rng; cbn; lia.
Qed.

Lemma sk_mem_diff : forall s lo hi l,
  sk_mem s (sk_diff lo hi l) = sk_mem s l && negb ((lo <=? s) && (s <=? hi)).
Proof.
  intros s lo hi l; induction l as [|r l IH]; [reflexivity|].
  unfold sk_diff in *; cbn [flat_map]. rewrite sk_mem_app, sk_mem_cut, IH.
  unfold sk_mem; cbn [existsb]. destruct (in_rng s r), (existsb (in_rng s) l), ((lo <=? s) && (s <=? hi)); reflexivity.
Qed.

Lemma sk_mem_in : forall s l, sk_mem s l = true <-> exists a b, In (a, b) l /\ a <= s <= b.
Proof.
  intros; unfold sk_mem. rewrite existsb_exists. split.
  - intros [[a b] [H1 H2]]. exists a, b. unfold in_rng in H2; cbn in H2. split; [assumption | lia].
  - intros [a [b [H1 H2]]]. exists (a, b). split; [assumption | unfold in_rng; cbn; lia].
Qed.

Lemma sk_below_mem : forall n l s, sk_below n l -> sk_mem s l = true -> s < n.
Proof. intros n l s Hb Hm. apply sk_mem_in in Hm as [a [b [Hin Hr]]]. specialize (Hb _ _ Hin). lia. Qed.

Lemma sk_below_nomem : forall n l s, sk_below n l -> n <= s -> sk_mem s l = false.
Proof.
  intros n l s Hb Hs. destruct (sk_mem s l) eqn:E; [|reflexivity].
  pose proof (sk_below_mem _ _ _ Hb E). lia.
Qed.

Lemma sk_below_mono : forall n n' l, sk_below n l -> n <= n' -> sk_below n' l.
Proof. intros n n' l H Hle a b Hin. specialize (H _ _ Hin). lia. Qed.

Lemma sk_below_app : forall n l1 l2, sk_below n l1 -> sk_below n l2 -> sk_below n (l1 ++ l2).
Proof. intros n l1 l2 H1 H2 a b Hin. apply in_app_or in Hin as [Hin|Hin]; eauto. Qed.

Lemma sk_below_push : forall n lo hi l, sk_below n l -> hi < n -> sk_below n (sk_push lo hi l).
Proof.
  intros n lo hi l H Hh. unfold sk_push. destruct (hi <? lo); [assumption|].
  apply sk_below_app; [assumption|]. intros a b [E|[]]. inversion E; subst; assumption.
Qed.

Lemma in_cut : forall lo hi r a b, In (a, b) (cut lo hi r) -> fst r <= a /\ b <= snd r /\ a <= b \/ (a, b) = r.
Proof.
  intros lo hi [x y] a b; unfold cut; cbn [fst snd].
  destruct ((y <? lo) || (hi <? x) || (hi <? lo)) eqn:E1.
  - intros [E|[]]. right; congruence.
  - destruct (x <? lo) eqn:E2, (hi <? y) eqn:E3; cbn; intros H;
      repeat (destruct H as [H|H]; [inversion H; subst; left; lia|]); destruct H.
Qed.

Lemma sk_below_diff : forall n lo hi l, sk_below n l -> sk_below n (sk_diff lo hi l).
Proof.
  intros n lo hi l H a b Hin. unfold sk_diff in Hin. apply in_flat_map in Hin as [[x y] [Hin Hc]].
  specialize (H _ _ Hin). apply in_cut in Hc as [Hc|Hc]; cbn in Hc; [lia | inversion Hc; subst; assumption].
Qed.

Lemma sk_wf_from_weaken : forall l lb lb', sk_wf_from lb l -> lb' <= lb -> sk_wf_from lb' l.
Proof. intros [|[a b] l] lb lb'; cbn; [trivial|]. intros [H1 [H2 H3]] Hle. repeat split; [lia|assumption|assumption]. Qed.

Lemma sk_wf_from_app : forall l lb lo hi,
  sk_wf_from lb l -> sk_below lo l -> lb <= lo -> lo <= hi -> sk_wf_from lb (l ++ [(lo, hi)]).
Proof.
  induction l as [|[a b] l IH]; intros lb lo hi Hwf Hb Hlb Hlh; cbn.
  - repeat split; [assumption | assumption].
  - cbn in Hwf. destruct Hwf as [H1 [H2 H3]]. repeat split; [assumption|assumption|].
    apply IH; [assumption | | | assumption].
    + intros x y Hin. apply (Hb x y). now right.
    + specialize (Hb a b (or_introl eq_refl)). lia.
Qed.

Lemma sk_wf_from_push : forall l lb lo hi,
  sk_wf_from lb l -> sk_below lo l -> lb <= lo -> sk_wf_from lb (sk_push lo hi l).
Proof.
  intros. unfold sk_push. destruct (hi <? lo) eqn:E; [assumption|]. apply sk_wf_from_app; try assumption. lia.
Qed.

Lemma sk_wf_from_diff : forall lo hi l lb, sk_wf_from lb l -> sk_wf_from lb (sk_diff lo hi l).
Proof.
  intros lo hi l; induction l as [|[a b] l IH]; intros lb Hwf; [exact I|].
  cbn in Hwf. destruct Hwf as [H1 [H2 H3]]. unfold sk_diff; cbn [flat_map]. fold (sk_diff lo hi l).
  specialize (IH _ H3).
  unfold cut; cbn [fst snd].
  destruct ((b <? lo) || (hi <? a) || (hi <? lo)) eqn:E1; cbn [app].
  - cbn. repeat split; assumption.
  - destruct (a <? lo) eqn:E2, (hi <? b) eqn:E3; cbn [app sk_wf_from].
    + repeat split; try lia. eapply sk_wf_from_weaken; [exact IH | lia].
    + repeat split; try lia. eapply sk_wf_from_weaken; [exact IH | lia].
    + repeat split; try lia. eapply sk_wf_from_weaken; [exact IH | lia].
    + eapply sk_wf_from_weaken; [exact IH | lia].
Qed.

(* the first element starts the set: everything skipped is at or above it *)
Lemma sk_oldest_min : forall l lb s, sk_wf_from lb l -> sk_mem s l = true -> lb <= sk_oldest l /\ sk_oldest l <= s.
Proof.
  induction l as [|[a b] l IH]; intros lb s Hwf Hm; [discriminate|].
  cbn in Hwf. destruct Hwf as [H1 [H2 H3]]. cbn [sk_oldest]. split; [assumption|].
  unfold sk_mem in Hm; cbn [existsb] in Hm. apply orb_true_iff in Hm as [Hm|Hm].
  - unfold in_rng in Hm; cbn in Hm. lia.
  - destruct (IH _ _ H3 Hm) as [H4 H5]. destruct l as [|[c d] l]; [discriminate|]. cbn in *. lia.
Qed.

Lemma sk_wf_from_lb : forall l lb s, sk_wf_from lb l -> sk_mem s l = true -> lb <= s.
Proof. intros l lb s H1 H2. destruct (sk_oldest_min _ _ _ H1 H2). lia. Qed.

Lemma sk_oldest_zero : forall l lb, sk_wf_from lb l -> 0 < lb -> sk_oldest l = 0 -> l = [].
Proof. intros [|[a b] l] lb; cbn; [reflexivity|]. intros [H1 _] H2 H3. lia. Qed.
