(* C08, not property obligations: statements the faithful model of the UNCHANGED code violates, with
   witnesses by vm_compute.  Both traces are in the corpus of harness/db/verif_c08_test.go, so the
   real changeCache is shown (by the correspondence) to reach exactly these states. *)
From SG Require Import Base.Prelude C08.SkippedSet C08.SeqBuffer C08.SeqBufferInv C08.SeqBufferCons C08.DocFeed.
Open Scope N_scope.

(* A cache started at sequence 0 that skips sequence 1: oldest skipped - 1 = 0 is also the encoding of
   "no low sequence" (db/changes.go: lowSequence = 0; SequenceID drops a zero LowSeq), so rows are sent
   without a low sequence and a client resuming from row 2 does not re-read sequence 1. *)
Lemma low_seq_hides_sequence_1 :
  exists ops s q, let st := run (init 0 100) ops in
    sk_mem s (skipped st) = true /\ s <= safe_seq (low_seq st) q.
Proof. exists [Arrive KDoc 2 true; Housekeep], 1, 2. vm_compute. split; [reflexivity | discriminate]. Qed.

(* An unused range that straddles the sequence the cache started from is ignored as a whole
   (processUnusedRange: "contains duplicate sequences"), so its part above the initial sequence is later
   skipped although it was declared unused: [ops_wf] is needed for C08_seqbuf_skipped_exact. *)
Lemma range_straddling_initial_is_ignored :
  exists ops s, let st := run (init 10 100) ops in
    sk_mem s (skipped st) = true /\ covered ops s.
Proof.
  exists [ArriveRange 5 15 false; Arrive KDoc 16 true; Housekeep], 11. split; [vm_compute; reflexivity|].
  exists (ArriveRange 5 15 false). split; [now left | reflexivity].
Qed.


(* Observation (b) of the builder, on an INCONSISTENT feed (sequence 12 is a document and also the start of an
   unused range): which of the two is on top of the pending heap decides the outcome.  Single first: 12 is
   cached, the range is then below nextSequence and the stale branch extends nextSequence to 16.  Range first:
   _popPendingLog ignores the range in favour of the single, 13..15 are never declared unused and will be
   skipped.  Both traces are in the harness corpus (two-element heap: first in, first out, as in the model);
   C08_seqbuf_pending_ties_identical shows a consistent feed cannot get there. *)
Lemma tie_order_matters :
  let single_first := [Arrive KDoc 12 false; ArriveRange 12 15 false; Arrive KDoc 11 false] in
  let range_first := [ArriveRange 12 15 false; Arrive KDoc 12 false; Arrive KDoc 11 false] in
  ~ feed_consistent single_first
  /\ next (run (init 10 100) single_first) = 16 /\ next (run (init 10 100) range_first) = 13.
Proof.
  split; [|vm_compute; split; reflexivity].
  intros C. specialize (C (Arrive KDoc 12 false) (ArriveRange 12 15 false) (KDoc, 12, 12) (KUnused, 12, 15)).
  destruct C as [C|[C|C]]; cbn; auto; try discriminate; unfold ev_lo, ev_hi in C; cbn in C; lia.
Qed.

(* DocChanged looks a recent sequence up in the skipped list WITHOUT the lock and presets change.Skipped; the
   preset flag makes processEntry bypass its "already processed" test.  If the sequence is delivered (and leaves
   the skipped list) between the lookup and the call -- which needs a second feed worker handling the same
   sequence number, i.e. the same document, at the same time: excluded by the per-vbucket ordering of the feed --
   it is forwarded to the channel cache a second time.  The trace is in the harness corpus (processEntry called
   with Skipped = true for a sequence that has just arrived late). *)
Lemma stale_skipped_flag_delivers_twice :
  exists ops e, let st := run (init 10 100) ops in
    sk_mem (e_seq e) (skipped st) = false /\
    map d_seq (delivered (process_entry_gen true st e)) = e_seq e :: e_seq e :: map d_seq (tl (delivered st)).
Proof.
  exists [Arrive KDoc 12 true; Housekeep; Arrive KDoc 11 false], (mkE 11 0 KUnused false).
  vm_compute. split; reflexivity.
Qed.
