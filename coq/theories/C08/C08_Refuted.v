(* C08, not property obligations: statements the faithful model of the UNCHANGED code violates, with
   witnesses by vm_compute.  Both traces are in the corpus of harness/db/verif_c08_test.go, so the
   real changeCache is shown (by the correspondence) to reach exactly these states. *)
From SG Require Import Base.Prelude C08.SkippedSet C08.SeqBuffer C08.SeqBufferInv.
Open Scope N_scope.

(* A cache started at sequence 0 that skips sequence 1: oldest skipped - 1 = 0 is also the encoding of
   "no low sequence" (db/changes.go: lowSequence = 0; SequenceID drops a zero LowSeq), so rows are sent
   without a low sequence and a client resuming from row 2 does not re-read sequence 1. *)
Lemma low_seq_hides_sequence_1 :
  exists ops s q, let st := run (init 0 100) ops in
    sk_mem s (skipped st) = true /\ s <= safe_seq (low_seq st) q.
Proof. exists [Arrive KDoc 2 true; Housekeep], 1, 2. vm_compute. split; [reflexivity | discriminate]. Qed.

(* An unused range that straddles the sequence the cache started from is ignored as a whole
   (processUnusedRange: "contains duplicate sequences"), so its part above the initial sequence is later
   skipped although it was declared unused: [ops_wf] is needed for C08_seqbuf_skipped_exact. *)
Lemma range_straddling_initial_is_ignored :
  exists ops s, let st := run (init 10 100) ops in
    sk_mem s (skipped st) = true /\ covered ops s.
Proof.
  exists [ArriveRange 5 15 false; Arrive KDoc 16 true; Housekeep], 11. split; [vm_compute; reflexivity|].
  exists (ArriveRange 5 15 false). split; [now left | reflexivity].
Qed.
