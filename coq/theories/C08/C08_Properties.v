(* C08 -- Sequence buffering delivers each change once, in order, and never hides gaps.
   This file contains nothing but the property theorems; each is closed by [exact] of a lemma proved in
   SeqBufferInv / SeqBufferCons / SeqBufferThms and followed by Print Assumptions.

   [run (init i m) ops] is the change cache started at initial sequence [i] with
   CachePendingSeqMaxNum = [m] after the operations [ops] (arrivals of document / principal / unused
   entries each with an adversarial "older than CachePendingSeqMaxWait" bit, unused ranges,
   housekeeping runs, abandoning of the skipped list), in ANY order, with ANY duplication.
   [covered ops s]: some operation of the list delivered sequence s or declared it unused.
   [feed_consistent ops]: two arrival events are the same event or concern disjoint sequence numbers
   (what the sequence allocator guarantees, C07).  [ops_wf i ops]: unused ranges are lo <= hi and do not
   straddle the initial sequence i. *)
From SG Require Import Base.Prelude C08.SkippedSet C08.SeqBuffer C08.SeqBufferInv C08.SeqBufferCons C08.SeqBufferThms C08.ChanLayer C08.ChanLayerProofs.
Open Scope N_scope.

(* exactly once, first half -- for every operation list whatsoever: no sequence is forwarded to the
   channel cache twice (also the defensive clause: holds on inconsistent feeds) *)
Theorem C08_seqbuf_exactly_once_at_most : forall i m ops,
  NoDup (map d_seq (delivered (run (init i m) ops))).
Proof. exact thm_at_most_once. Qed.
Print Assumptions C08_seqbuf_exactly_once_at_most.

(* exactly once, second half: on a consistent feed every arrived document / principal / unused entry
   above the initial sequence has been forwarded, or is still buffered, or its sequence had been
   abandoned (CleanSkippedSequenceQueue) before it turned up *)
Theorem C08_seqbuf_exactly_once_at_least : forall i m ops k s a,
  feed_consistent ops -> ops_wf i ops -> In (Arrive k s a) ops -> i < s ->
  let st := run (init i m) ops in
  delivered_ev st k s \/ pending_ev st k s \/ sk_mem s (abandoned st) = true.
Proof. exact thm_arrival_not_lost. Qed.
Print Assumptions C08_seqbuf_exactly_once_at_least.

(* the high-water mark only moves across sequences that arrived, were declared unused, or are tracked
   as skipped (or were abandoned) -- for every operation list *)
Theorem C08_seqbuf_hwm_contiguous : forall i m ops, let st := run (init i m) ops in
  i < next st /\
  forall s, i < s -> s < next st ->
    covered ops s \/ sk_mem s (skipped st) = true \/ sk_mem s (abandoned st) = true.
Proof. exact thm_hwm. Qed.
Print Assumptions C08_seqbuf_hwm_contiguous.

(* the skipped set is exactly the set of missing sequences below the high-water mark *)
Theorem C08_seqbuf_skipped_exact : forall i m ops, feed_consistent ops -> ops_wf i ops ->
  let st := run (init i m) ops in
  forall s, sk_mem s (skipped st) = true <->
            (i < s /\ s < next st /\ ~ covered ops s /\ sk_mem s (abandoned st) = false).
Proof. exact thm_skipped_exact. Qed.
Print Assumptions C08_seqbuf_skipped_exact.

(* a skipped sequence that turns up is forwarded as a late arrival (Skipped flag set), while it is still in
   the skipped list (fifth component of the delivery record: the cache add precedes the removal), and
   leaves the skipped list, nothing else changing -- in every reachable state *)
Theorem C08_seqbuf_late_delivered : forall i m ops k s a, let st := run (init i m) ops in
  sk_mem s (skipped st) = true ->
  let st' := step st (Arrive k s a) in
  delivered st' = mkD k s 0 true true :: delivered st
  /\ skipped st' = sk_diff s s (skipped st)
  /\ sk_mem s (skipped st') = false
  /\ (forall s', s' <> s -> sk_mem s' (skipped st') = sk_mem s' (skipped st))
  /\ next st' = next st /\ pending st' = pending st.
Proof. exact thm_late. Qed.
Print Assumptions C08_seqbuf_late_delivered.

(* ... and reaches every open feed: in any state reached by any interleaving of buffer operations and lazy
   channel-cache creations ([XOpen]: validFrom = highCacheSequence + 1, possibly above the skipped sequence), for
   any assignment [chf] of channels to documents, the late arrival is forwarded exactly once, flagged late, and
   every active cache of one of the document's channels (and of "*") gets it on its late-sequence log WHATEVER
   its validFrom -- so every feed that registered on that log before reads it (GetLateSequencesSince) *)
Theorem C08_seqbuf_late_reaches_open_feeds : forall chf i m xops k s a,
  let x := xrun chf (xinit i m) xops in
  sk_mem s (skipped (x_buf x)) = true ->
  let x' := xstep chf x (XBuf (Arrive k s a)) in
  new_dl (x_buf x) (x_buf x') = [mkD k s 0 true true]
  /\ (k = KDoc -> forall c, In c (x_chans x) -> c_id c = 0 \/ In (c_id c) (chf s) ->
        exists c', In c' (x_chans x') /\ c_id c' = c_id c /\ c_valid c' = c_valid c
          /\ c_late c' = s :: c_late c
          /\ (forall reg, (reg <= length (c_late c))%nat -> In s (late_since reg c'))).
Proof. exact thm_late_reaches_feeds. Qed.
Print Assumptions C08_seqbuf_late_reaches_open_feeds.

(* the stable sequence (_getMaxStableCached) is below every skipped sequence and below the high-water
   mark, and everything at or below it is settled -- for every operation list *)
Theorem C08_seqbuf_stable_safe : forall i m ops, let st := run (init i m) ops in
  (forall s, sk_mem s (skipped st) = true -> stable st < s)
  /\ stable st < next st
  /\ (forall s, i < s -> s <= stable st -> covered ops s \/ sk_mem s (abandoned st) = true).
Proof. exact thm_stable. Qed.
Print Assumptions C08_seqbuf_stable_safe.

(* rows of a changes response carry low = oldest skipped - 1; a client resuming from any such row
   (SequenceID.SafeSequence) resumes below every skipped sequence, so cannot miss the late arrival.
   Needs a cache started above sequence 0: see C08_Refuted.low_seq_hides_sequence_1. *)
Theorem C08_seqbuf_resume_safe : forall i m ops, 0 < i -> let st := run (init i m) ops in
  forall s q, sk_mem s (skipped st) = true -> safe_seq (low_seq st) q < s.
Proof. exact thm_resume. Qed.
Print Assumptions C08_seqbuf_resume_safe.

(* the received set is exactly the set of buffered single sequences (nothing is remembered for ever) *)
Theorem C08_seqbuf_received_exact : forall i m ops, feed_consistent ops -> ops_wf i ops ->
  let st := run (init i m) ops in
  forall s, In s (received st) <-> exists p, In p (pending st) /\ e_seq p = s /\ e_end p = 0.
Proof. exact thm_received_exact. Qed.
Print Assumptions C08_seqbuf_received_exact.

(* defensive clause: whatever the feed does, nextSequence never moves backwards *)
Theorem C08_seqbuf_defensive_next_monotone : forall i m ops o,
  next (run (init i m) ops) <= next (run (init i m) (ops ++ [o])).
Proof. exact thm_next_monotone. Qed.
Print Assumptions C08_seqbuf_defensive_next_monotone.

(* the iteration bound given to the model of the _addPendingLogs loop is never what stops it *)
Theorem C08_seqbuf_housekeeping_reaches_break : forall st, add_pending_iter (add_pending st) = None.
Proof. exact add_pending_done. Qed.
Print Assumptions C08_seqbuf_housekeeping_reaches_break.

(* the hypotheses are satisfiable by a non-trivial history: out-of-order arrivals that age, two skips,
   an unused range, two late arrivals, a duplicate, one sequence still skipped and one still buffered *)
Definition ex_ops : list op :=
  [Arrive KDoc 13 true; Arrive KDoc 15 true; Housekeep; ArriveRange 16 17 false;
   Arrive KDoc 11 false; Arrive KDoc 12 false; Arrive KDoc 19 false; Arrive KDoc 12 false].

Example C08_nonvacuous :
  feed_consistent ex_ops /\ ops_wf 10 ex_ops /\
  let st := run (init 10 100) ex_ops in
  next st = 18 /\ skipped st = [(14, 14)] /\ map e_seq (pending st) = [19]
  /\ map d_seq (delivered st) = [12; 11; 16; 15; 13] /\ map d_late (delivered st) = [true; true; false; false; false].
Proof.
  split; [|split].
  - intros o1 o2 v w H1 H2 E1 E2. unfold ex_ops in *. cbn [In] in H1, H2.
    repeat match goal with H : _ \/ _ |- _ => destruct H end; try contradiction; subst; cbn in E1, E2; try discriminate;
      inversion E1; inversion E2; subst; unfold compat, ev_lo, ev_hi; cbn; first [left; reflexivity | right; lia].
  - intros o H. unfold ex_ops in H. cbn [In] in H.
    repeat match goal with H : _ \/ _ |- _ => destruct H end; try contradiction; subst; cbn; auto; lia.
  - vm_compute. repeat split.
Qed.
