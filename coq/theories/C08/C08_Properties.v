(* C08 -- Sequence buffering delivers each change once, in order, and never hides gaps.
   This file contains nothing but the property theorems; each is closed by [exact] of a lemma proved in
   SeqBufferInv / SeqBufferCons / SeqBufferThms and followed by Print Assumptions.

   [run (init i m) ops] is the change cache started at initial sequence [i] with
   CachePendingSeqMaxNum = [m] after the operations [ops] (arrivals of document / principal / unused
   entries each with an adversarial "older than CachePendingSeqMaxWait" bit, unused ranges,
   housekeeping runs, abandoning of the skipped list -- wholesale [Abandon] or element by element
   [AbandonSome bits]: one adversarial "older than CacheSkippedSeqMaxWait" bit per element of the skip list --),
   in ANY order, with ANY duplication.
   [covered ops s]: some operation of the list delivered sequence s or declared it unused.
   [feed_consistent ops]: two arrival events are the same event or concern disjoint sequence numbers
   (what the sequence allocator guarantees, C07).  [ops_wf i ops]: unused ranges are lo <= hi and do not
   straddle the initial sequence i. *)
From SG Require Import Base.Prelude C08.SkippedSet C08.SeqBuffer C08.SeqBufferInv C08.SeqBufferCons C08.SeqBufferThms C08.ChanLayer C08.ChanLayerProofs C08.SeqBufferRecv C08.DocFeed C08.DocFeedProofs C08.DocCheck.
Open Scope N_scope.

(* exactly once, first half -- for every operation list whatsoever: no sequence is forwarded to the
   channel cache twice (also the defensive clause: holds on inconsistent feeds) *)
Theorem C08_seqbuf_exactly_once_at_most : forall i m ops,
  NoDup (map d_seq (delivered (run (init i m) ops))).
Proof. exact thm_at_most_once. Qed.
Print Assumptions C08_seqbuf_exactly_once_at_most.

(* exactly once, second half: on a consistent feed every arrived document / principal / unused entry
   above the initial sequence has been forwarded, or is still buffered, or its sequence had been
   abandoned (CleanSkippedSequenceQueue) before it turned up *)
Theorem C08_seqbuf_exactly_once_at_least : forall i m ops k s a,
  feed_consistent ops -> ops_wf i ops -> In (Arrive k s a) ops -> i < s ->
  let st := run (init i m) ops in
  delivered_ev st k s \/ pending_ev st k s \/ sk_mem s (abandoned st) = true.
Proof. exact thm_arrival_not_lost. Qed.
Print Assumptions C08_seqbuf_exactly_once_at_least.

(* the high-water mark only moves across sequences that arrived, were declared unused, or are tracked
   as skipped (or were abandoned) -- for every operation list *)
Theorem C08_seqbuf_hwm_contiguous : forall i m ops, let st := run (init i m) ops in
  i < next st /\
  forall s, i < s -> s < next st ->
    covered ops s \/ sk_mem s (skipped st) = true \/ sk_mem s (abandoned st) = true.
Proof. exact thm_hwm. Qed.
Print Assumptions C08_seqbuf_hwm_contiguous.

(* the skipped set is exactly the set of missing sequences below the high-water mark *)
Theorem C08_seqbuf_skipped_exact : forall i m ops, feed_consistent ops -> ops_wf i ops ->
  let st := run (init i m) ops in
  forall s, sk_mem s (skipped st) = true <->
            (i < s /\ s < next st /\ ~ covered ops s /\ sk_mem s (abandoned st) = false).
Proof. exact thm_skipped_exact. Qed.
Print Assumptions C08_seqbuf_skipped_exact.

(* a skipped sequence that turns up is forwarded as a late arrival (Skipped flag set), while it is still in
   the skipped list (fifth component of the delivery record: the cache add precedes the removal), and
   leaves the skipped list, nothing else changing -- in every reachable state *)
Theorem C08_seqbuf_late_delivered : forall i m ops k s a, let st := run (init i m) ops in
  sk_mem s (skipped st) = true ->
  let st' := step st (Arrive k s a) in
  delivered st' = mkD k s 0 true true :: delivered st
  /\ skipped st' = sk_diff s s (skipped st)
  /\ sk_mem s (skipped st') = false
  /\ (forall s', s' <> s -> sk_mem s' (skipped st') = sk_mem s' (skipped st))
  /\ next st' = next st /\ pending st' = pending st.
Proof. exact thm_late. Qed.
Print Assumptions C08_seqbuf_late_delivered.

(* ... and reaches every open feed: in any state reached by any interleaving of buffer operations and lazy
   channel-cache creations ([XOpen]: validFrom = highCacheSequence + 1, possibly above the skipped sequence), for
   any assignment [chf] of channels to documents, the late arrival is forwarded exactly once, flagged late, and
   every active cache of one of the document's channels (and of "*") gets it on its late-sequence log WHATEVER
   its validFrom -- so every feed that registered on that log before reads it (GetLateSequencesSince) *)
Theorem C08_seqbuf_late_reaches_open_feeds : forall chf i m xops k s a,
  let x := xrun chf (xinit i m) xops in
  sk_mem s (skipped (x_buf x)) = true ->
  let x' := xstep chf x (XBuf (Arrive k s a)) in
  new_dl (x_buf x) (x_buf x') = [mkD k s 0 true true]
  /\ (k = KDoc -> forall c, In c (x_chans x) -> c_id c = 0 \/ In (c_id c) (chf s) ->
        exists c', In c' (x_chans x') /\ c_id c' = c_id c /\ c_valid c' = c_valid c
          /\ c_late c' = s :: c_late c
          /\ (forall reg, (reg <= length (c_late c))%nat -> In s (late_since reg c'))).
Proof. exact thm_late_reaches_feeds. Qed.
Print Assumptions C08_seqbuf_late_reaches_open_feeds.

(* the stable sequence (_getMaxStableCached) is below every skipped sequence and below the high-water
   mark, and everything at or below it is settled -- for every operation list *)
Theorem C08_seqbuf_stable_safe : forall i m ops, let st := run (init i m) ops in
  (forall s, sk_mem s (skipped st) = true -> stable st < s)
  /\ stable st < next st
  /\ (forall s, i < s -> s <= stable st -> covered ops s \/ sk_mem s (abandoned st) = true).
Proof. exact thm_stable. Qed.
Print Assumptions C08_seqbuf_stable_safe.

(* rows of a changes response carry low = oldest skipped - 1; a client resuming from any such row
   (SequenceID.SafeSequence) resumes below every skipped sequence, so cannot miss the late arrival.
   Needs a cache started above sequence 0: see C08_Refuted.low_seq_hides_sequence_1. *)
Theorem C08_seqbuf_resume_safe : forall i m ops, 0 < i -> let st := run (init i m) ops in
  forall s q, sk_mem s (skipped st) = true -> safe_seq (low_seq st) q < s.
Proof. exact thm_resume. Qed.
Print Assumptions C08_seqbuf_resume_safe.

(* the received set is exactly the set of buffered single sequences (nothing is remembered for ever) *)
Theorem C08_seqbuf_received_exact : forall i m ops, feed_consistent ops -> ops_wf i ops ->
  let st := run (init i m) ops in
  forall s, In s (received st) <-> exists p, In p (pending st) /\ e_seq p = s /\ e_end p = 0.
Proof. exact thm_received_exact. Qed.
Print Assumptions C08_seqbuf_received_exact.

(* defensive clause: whatever the feed does, nextSequence never moves backwards *)
Theorem C08_seqbuf_defensive_next_monotone : forall i m ops o,
  next (run (init i m) ops) <= next (run (init i m) (ops ++ [o])).
Proof. exact thm_next_monotone. Qed.
Print Assumptions C08_seqbuf_defensive_next_monotone.

(* the iteration bound given to the model of the _addPendingLogs loop is never what stops it *)
Theorem C08_seqbuf_housekeeping_reaches_break : forall st, add_pending_iter (add_pending st) = None.
Proof. exact add_pending_done. Qed.
Print Assumptions C08_seqbuf_housekeeping_reaches_break.

(* the hypotheses are satisfiable by a non-trivial history: out-of-order arrivals that age, two skips,
   an unused range, two late arrivals, a duplicate, one sequence still skipped and one still buffered *)
Definition ex_ops : list op :=
  [Arrive KDoc 13 true; Arrive KDoc 15 true; Housekeep; ArriveRange 16 17 false;
   Arrive KDoc 11 false; Arrive KDoc 12 false; Arrive KDoc 19 false; Arrive KDoc 12 false].

Example C08_nonvacuous :
  feed_consistent ex_ops /\ ops_wf 10 ex_ops /\
  let st := run (init 10 100) ex_ops in
  next st = 18 /\ skipped st = [(14, 14)] /\ map e_seq (pending st) = [19]
  /\ map d_seq (delivered st) = [12; 11; 16; 15; 13] /\ map d_late (delivered st) = [true; true; false; false; false].
Proof.
  split; [|split].
  - intros o1 o2 v w H1 H2 E1 E2. unfold ex_ops in *. cbn [In] in H1, H2.
    repeat match goal with H : _ \/ _ |- _ => destruct H end; try contradiction; subst; cbn in E1, E2; try discriminate;
      inversion E1; inversion E2; subst; unfold compat, ev_lo, ev_hi; cbn; first [left; reflexivity | right; lia].
  - intros o H. unfold ex_ops in H. cbn [In] in H.
    repeat match goal with H : _ \/ _ |- _ => destruct H end; try contradiction; subst; cbn; auto; lia.
  - vm_compute. repeat split.
Qed.


(* ================= deepening round: DocChanged, partial abandonment, the two observations ================= *)

(* Observation (a) -- the 'oldest pending < nextSequence' branch of _addPendingLogs does not delete what it
   drops from receivedSeqs.  Harmless on EVERY feed: receivedSeqs is exactly the set of buffered single
   sequences for every operation list (C08_seqbuf_received_exact without its two hypotheses) ... *)
Theorem C08_seqbuf_received_exact_all_feeds : forall i m ops, let st := run (init i m) ops in
  forall s, In s (received st) <-> exists p, In p (pending st) /\ e_seq p = s /\ e_end p = 0.
Proof. exact thm_received_exact_all. Qed.
Print Assumptions C08_seqbuf_received_exact_all_feeds.

(* ... because in every state the loop can be in (any number of iterations after any operation list) a buffered
   single sequence is at or above nextSequence: that branch only ever drops unused ranges *)
Theorem C08_seqbuf_singles_never_stale : forall i m ops k,
  let st := add_pending_loop k (run (init i m) ops) in
  forall p, In p (pending st) -> e_end p = 0 -> next st <= e_seq p.
Proof. exact thm_singles_never_stale. Qed.
Print Assumptions C08_seqbuf_singles_never_stale.

(* Observation (b) -- container/heap's order among equal start sequences.  On a consistent feed pending entries
   that share a start sequence are copies of ONE unused-range event (same kind, same end), and a single
   sequence shares its start with nothing: the order cannot matter.  (On an inconsistent feed it does:
   C08_Refuted.tie_order_matters.) *)
Theorem C08_seqbuf_pending_ties_identical : forall i m ops, feed_consistent ops -> ops_wf i ops ->
  let st := run (init i m) ops in
  forall p q, In p (pending st) -> In q (pending st) -> e_seq p = e_seq q ->
    e_kind p = e_kind q /\ e_end p = e_end q /\ (e_end p = 0 -> NoDup (map e_seq (filter single (pending st)))).
Proof. exact thm_pending_ties. Qed.
Print Assumptions C08_seqbuf_pending_ties_identical.

(* once a sequence number has arrived, any further arrival of it -- any kind, any age -- changes nothing, on
   EVERY feed (what makes recent_sequences harmless) *)
Theorem C08_seqbuf_arrival_idempotent : forall i m ops o s k a,
  In o ops -> arr_seq o = Some s ->
  step (run (init i m) ops) (Arrive k s a) = run (init i m) ops.
Proof. exact arrive_again_noop. Qed.
Print Assumptions C08_seqbuf_arrival_idempotent.

(* DocChanged (one nextSequence snapshot, WasSkipped looked up per recent sequence, Skipped flag preset) does to
   the buffer exactly what the state-independent expansion of the event does, for every feed of documents,
   principals and raw operations: the snapshot / skipped-list filter only saves calls that would be ignored.
   Hence every theorem above about [run] holds for feeds of documents [drun]. *)
Theorem C08_docfeed_doc_changed_is_expansion : forall i m items,
  drun (init i m) items = run (init i m) (expand_all i items).
Proof. exact drun_expand. Qed.
Print Assumptions C08_docfeed_doc_changed_is_expansion.

(* ... in particular, for EVERY feed of documents: nothing is forwarded twice, the high-water mark only crosses
   settled sequences *)
Theorem C08_docfeed_at_most_once : forall i m items, NoDup (map d_seq (delivered (drun (init i m) items))).
Proof. exact thm_doc_at_most_once. Qed.
Print Assumptions C08_docfeed_at_most_once.

Theorem C08_docfeed_hwm_contiguous : forall i m items, let st := drun (init i m) items in
  i < next st /\
  forall s, i < s -> s < next st ->
    covered (expand_all i items) s \/ sk_mem s (skipped st) = true \/ sk_mem s (abandoned st) = true.
Proof. exact thm_doc_hwm. Qed.
Print Assumptions C08_docfeed_hwm_contiguous.

(* arrivals after the first one of a sequence number can be deleted from a feed without changing anything *)
Theorem C08_docfeed_duplicates_removable : forall i m ops, run (init i m) (canon ops) = run (init i m) ops.
Proof. exact run_canon. Qed.
Print Assumptions C08_docfeed_duplicates_removable.

(* expand_preserves_consistency: when the documents carry sequences as the allocator guarantees ([docs_consistent]:
   what events say on their own account is unique -- unused lists disjoint from used numbers --, a recent
   sequence is an earlier revision of the same document: delivered earlier on the ordered per-vbucket feed, or
   deduplicated and claimed by nothing else; raw ranges well-formed), the expanded feed with repeated arrivals
   removed is feed_consistent and ops_wf, reaches the same state and covers the same sequences *)
Theorem C08_docfeed_expand_preserves_consistency : forall i m items, docs_consistent i items ->
  let ops := canon (expand_all i items) in
  feed_consistent ops /\ ops_wf i ops
  /\ drun (init i m) items = run (init i m) ops
  /\ (forall s, covered ops s <-> covered (expand_all i items) s).
Proof.
  intros i m items D ops. destruct (thm_expand_consistent _ _ D) as [C W].
  repeat split; try assumption.
  - unfold ops. rewrite run_canon. apply drun_expand.
  - apply covered_canon.
  - apply covered_canon.
Qed.
Print Assumptions C08_docfeed_expand_preserves_consistency.

(* ... so the consistent-feed theorems hold for feeds of real documents: every document delivered on the feed is
   forwarded to the channel cache (exactly once, by C08_docfeed_at_most_once), or still buffered, or its sequence
   had been abandoned before it turned up ... *)
Theorem C08_docfeed_documents_not_lost : forall i m items seq unused recent removed aged,
  docs_consistent i items -> In (FDoc seq unused recent removed aged) items -> i < seq ->
  let st := drun (init i m) items in
  delivered_ev st KDoc seq \/ pending_ev st KDoc seq \/ sk_mem seq (abandoned st) = true.
Proof. exact thm_doc_not_lost. Qed.
Print Assumptions C08_docfeed_documents_not_lost.

(* ... and the skipped set is exactly the set of sequences below the high-water mark that no document, unused
   list, recent list, principal or unused-sequence document has accounted for (and that were not abandoned) *)
Theorem C08_docfeed_skipped_exact : forall i m items, docs_consistent i items ->
  let st := drun (init i m) items in
  forall s, sk_mem s (skipped st) = true <->
            (i < s /\ s < next st /\ ~ covered (expand_all i items) s /\ sk_mem s (abandoned st) = false).
Proof. exact thm_doc_skipped_exact. Qed.
Print Assumptions C08_docfeed_skipped_exact.

(* the hypothesis is satisfiable by a non-trivial feed: document A written at 11, 12 (deduplicated away), 14 with
   unused sequence 13 and a channel removal at 12; a principal at 15; document B at 17 delivered before A's
   update and aged (12..16 skipped, then 15, 13, 12, 14 arrive late -- 12 only through recent_sequences, flag
   preset); an unused range; partial abandonment of the skipped list (18 and 21 go, 16 stays); a re-delivery *)
Definition ex_items : list ditem :=
  [FDoc 11 [] [11] [] false; FDoc 17 [] [17] [] true; FOp Housekeep; FPrinc 15 false;
   FDoc 14 [13] [11; 12; 14] [12] false; FOp (ArriveRange 19 20 true); FDoc 22 [] [22] [] true; FOp Housekeep;
   FOp (AbandonSome [false; true; true]); FDoc 14 [13] [11; 12; 14] [12] false].

Example C08_docfeed_nonvacuous :
  docs_consistent 10 ex_items /\
  let st := drun (init 10 100) ex_items in
  next st = 22 + 1 /\ skipped st = [(16, 16)] /\ abandoned st = [(18, 18); (21, 21)]
  /\ map d_seq (delivered st) = [22; 19; 14; 12; 13; 15; 17; 11].
Proof. split; [apply docs_consistent_b_sound; vm_compute; reflexivity | vm_compute; repeat split]. Qed.

(* partial abandonment (CleanSkippedSequenceQueue with per-element timestamps): in every reachable state, for every
   pattern of "old enough" bits, exactly the elements whose bit is set leave the skipped list for the abandoned set,
   the two are disjoint afterwards, nothing else changes -- and an abandoned sequence that turns up later is ignored *)
Theorem C08_seqbuf_partial_abandon : forall i m ops bits, let st := run (init i m) ops in
  let st' := step st (AbandonSome bits) in
  let gone := snd (sk_split bits (skipped st)) in
  skipped st' = fst (sk_split bits (skipped st)) /\ abandoned st' = gone ++ abandoned st
  /\ (forall s, sk_mem s (skipped st) = sk_mem s (skipped st') || sk_mem s gone)
  /\ (forall s, sk_mem s gone = true -> sk_mem s (skipped st') = false)
  /\ next st' = next st /\ pending st' = pending st /\ received st' = received st /\ delivered st' = delivered st
  /\ (forall k s a, sk_mem s (abandoned st') = true -> step st' (Arrive k s a) = st').
Proof. exact thm_partial_abandon. Qed.
Print Assumptions C08_seqbuf_partial_abandon.
