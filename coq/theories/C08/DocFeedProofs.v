(* C08 -- feeds of documents: DocChanged's expansion agrees with the state-independent [expand], a repeated
   arrival is ignored, and what the sequence allocator guarantees about documents (C07 / C05) makes the expanded
   feed consistent, so the buffer theorems apply to feeds of real documents. *)
From SG Require Import Base.Prelude C08.SkippedSet C08.SkippedSetProofs C08.SeqBuffer C08.SeqBufferInv C08.SeqBufferCons C08.SeqBufferThms C08.DocFeed.
Open Scope N_scope.

Lemma peg_false : forall st e, process_entry_gen false st e = process_entry st e.
Proof. intros. unfold process_entry_gen, process_entry. cbn [negb]. rewrite andb_true_r. reflexivity. Qed.

Lemma run_app2 : forall l1 l2 st, run st (l1 ++ l2) = run (run st l1) l2.
Proof. induction l1 as [|o l1 IH]; intros l2 st; cbn; [reflexivity | apply IH]. Qed.

Lemma run_I0_from : forall ops i m h st, I0 i m h st -> I0 i m (rev ops ++ h) (run st ops).
Proof.
  induction ops as [|o ops IH]; intros i m h st I; cbn [run rev app]; [assumption|].
  rewrite <- app_assoc. cbn [app]. apply IH. apply step_I0. assumption.
Qed.

Lemma run_next_mono : forall ops i m h st, I0 i m h st -> next st <= next (run st ops).
Proof.
  induction ops as [|o ops IH]; intros i m h st I; cbn [run]; [lia|].
  pose proof (step_next_mono _ _ _ _ o I). specialize (IH i m _ _ (step_I0 _ _ _ _ o I)). lia.
Qed.

(* ---------- a sequence that arrived once is settled: later arrivals of it are ignored ---------- *)
Definition settled (st : state) (s : N) : Prop :=
  (s < next st /\ sk_mem s (skipped st) = false) \/ In s (received st).

Lemma settled_noop : forall st e, settled st (e_seq e) -> process_entry st e = st.
Proof.
  intros st e [[H1 H2]|H]; unfold process_entry.
  - rewrite H2. assert (E : (e_seq e <? next st) = true) by lia. rewrite E. reflexivity.
  - destruct ((e_seq e <? next st) && negb (sk_mem (e_seq e) (skipped st))); [reflexivity|].
    apply memN_in in H. rewrite H. reflexivity.
Qed.

Lemma iter_settled : forall i m h st st' s,
  LI0 i m h st -> add_pending_iter st = Some st' -> settled st s -> settled st' s.
Proof.
  intros i m h st st' s L H S. unfold add_pending_iter in H.
  destruct (pending st) as [|p l] eqn:Ep; [discriminate|].
  destruct (e_seq p =? next st) eqn:E1.
  { destruct (pop_pending (p :: l)) as [[e r]|] eqn:Epop; [|discriminate]. inversion H; subst st'; clear H.
    pose proof (li_pend _ _ _ _ L) as LP. pose proof (li_sorted _ _ _ _ L) as LS. rewrite Ep in LP, LS.
    destruct (popped_facts i h _ _ _ LP LS Epop) as [F1 [F2 [F3 [F4 [F5 [[p0 [l0 [F6 F7]]] F8]]]]]].
    inversion F6; subst p0 l0; clear F6.
    assert (Hn : next (add_to_cache (set_pending st r) e false) = e_hi e + 1).
    { unfold add_to_cache, e_hi in *; cbn. destruct (e_end e =? 0); [|reflexivity].
      destruct (next st <=? e_seq e) eqn:E; [reflexivity | lia]. }
    unfold settled. rewrite Hn. cbn [add_to_cache set_pending skipped received].
    destruct S as [[S1 S2]|S].
    - left. split; [lia | assumption].
    - destruct (N.eq_dec s (e_seq e)) as [->|Hne].
      + left. split; [lia|]. apply sk_below_nomem with (n := next st); [apply (li_skbelow _ _ _ _ L) | lia].
      + right. apply removeN_in. split; assumption. }
  destruct (e_seq p <? next st) eqn:E2.
  { destruct (pop_pending (p :: l)) as [[e r]|] eqn:Epop; [|discriminate]. inversion H; subst st'; clear H.
    destruct (is_range e && (next st <=? e_end e)) eqn:E3; unfold settled in *; cbn [set_next set_pending next skipped received].
    - apply andb_true_iff in E3 as [_ E3]. destruct S as [[S1 S2]|S]; [left; split; [lia | assumption] | now right].
    - assumption. }
  destruct ((maxp st <? N.of_nat (length (p :: l))) || e_aged p) eqn:E3; [|discriminate].
  inversion H; subst st'; clear H. unfold settled in *. cbn [set_next push_skipped set_skipped next skipped received].
  destruct S as [[S1 S2]|S]; [|now right]. left. split; [lia|].
  rewrite (sk_mem_push _ _ _ _ _ (li_skwf _ _ _ _ L)), S2. cbn. lia.
Qed.

Lemma loop_settled : forall fuel i m h st s, LI0 i m h st -> settled st s -> settled (add_pending_loop fuel st) s.
Proof.
  induction fuel as [|f IH]; intros i m h st s L S; cbn; [assumption|].
  destruct (add_pending_iter st) as [st'|] eqn:E; [|assumption].
  apply (IH i m h); [eapply iter_LI0; eassumption | eapply iter_settled; eassumption].
Qed.

Lemma add_pending_settled : forall i m h st s, LI0 i m h st -> settled st s -> settled (add_pending st) s.
Proof. intros. unfold add_pending. eapply loop_settled; eassumption. Qed.

Lemma process_entry_settled : forall i m h st e s,
  I0 i m h st -> e_end e = 0 -> covered h (e_seq e) -> settled st s \/ s = e_seq e ->
  settled (process_entry st e) s.
Proof.
  intros i m h st e s [L Q] He Hc S. unfold process_entry.
  destruct ((e_seq e <? next st) && negb (sk_mem (e_seq e) (skipped st))) eqn:E1.
  { destruct S as [S| ->]; [assumption|]. apply andb_true_iff in E1 as [A B]. apply negb_true_iff in B. left. split; [lia | assumption]. }
  destruct (memN (e_seq e) (received st)) eqn:E2.
  { destruct S as [S| ->]; [assumption|]. right. now apply memN_in. }
  assert (Hnr : ~ In (e_seq e) (received st)) by (intros Hin; apply memN_in in Hin; congruence).
  assert (Hnz : next st =? 0 = false) by (destruct L; lia).
  rewrite Hnz, orb_false_r.
  destruct (e_seq e =? next st) eqn:E3.
  { apply (add_pending_settled i m h); [apply direct_LI0; try assumption; [lia | intros t [<-|Ht]; auto]|].
    assert (Hn : next (add_to_cache (set_received st (e_seq e :: received st)) e false) = next st + 1).
    { rewrite next_atc_single by assumption. cbn. destruct (next st <=? e_seq e) eqn:E; lia. }
    unfold settled. rewrite Hn. cbn [add_to_cache set_received skipped received].
    assert (Hself : e_seq e < next st + 1 /\ sk_mem (e_seq e) (skipped st) = false).
    { split; [lia|]. apply sk_below_nomem with (n := next st); [apply (li_skbelow _ _ _ _ L) | lia]. }
    destruct S as [[[S1 S2]|S]| ->]; [left; split; [lia | assumption] | | now left].
    destruct (N.eq_dec s (e_seq e)) as [->|Hne]; [now left|]. right. apply removeN_in. split; [now right | assumption]. }
  cbn [set_received next pending maxp initial].
  destruct (next st <? e_seq e) eqn:E4.
  { assert (Hhi : e_hi e = e_seq e) by (apply e_hi_single; assumption).
    assert (LP : LI0 i m h (set_pending (set_received st (e_seq e :: received st)) (pq_push e (pending st)))).
    { apply push_LI0; rewrite ?Hhi; try assumption; try lia; [|intros t [<-|Ht]; auto].
      intros t S1 S2. replace t with (e_seq e) by lia. assumption. }
    assert (SP : settled (set_pending (set_received st (e_seq e :: received st)) (pq_push e (pending st))) s).
    { unfold settled in *. cbn [set_pending set_received next skipped received].
      destruct S as [[S|S]| ->]; [now left | right; now right | right; now left]. }
    match goal with |- context[if ?c then _ else _] => destruct c end; [|assumption].
    apply (add_pending_settled i m h); assumption. }
  destruct (initial st <? e_seq e) eqn:E5.
  { assert (Hn : next (add_to_cache (set_received st (e_seq e :: received st)) e true) = next st).
    { rewrite next_atc_single by assumption. cbn. destruct (next st <=? e_seq e) eqn:E; lia. }
    unfold settled. cbn [set_skipped next skipped received]. rewrite Hn. cbn [add_to_cache set_received skipped received].
    assert (Hself : e_seq e < next st /\ sk_mem (e_seq e) (sk_diff (e_seq e) (e_seq e) (skipped st)) = false).
    { split; [lia|]. rewrite sk_mem_diff, !N.leb_refl. cbn. apply andb_false_r. }
    destruct S as [[[S1 S2]|S]| ->]; [left; split; [assumption | rewrite sk_mem_diff, S2; reflexivity] | | now left].
    destruct (N.eq_dec s (e_seq e)) as [->|Hne]; [now left|]. right. apply removeN_in. split; [now right | assumption]. }
  unfold settled in *. cbn [set_received next skipped received].
  destruct S as [[S|S]| ->]; [now left | right; now right | right; now left].
Qed.

Lemma process_range_settled : forall i m h st lo hi a s,
  I0 i m h st -> lo < hi -> (forall t, lo <= t -> t <= hi -> covered h t) -> settled st s ->
  settled (process_range st lo hi a) s.
Proof.
  intros i m h st lo hi a s [L Q] Hlh Hc S. unfold process_range.
  destruct (hi <? next st) eqn:E1.
  { unfold settled in *. cbn [set_skipped next skipped received].
    destruct S as [[S1 S2]|S]; [left; split; [assumption | rewrite sk_mem_diff, S2; reflexivity] | now right]. }
  destruct (next st <=? lo) eqn:E2; [|assumption].
  set (e := mkE lo hi KUnused a).
  replace (set_pending st (pq_push e (pending st)))
    with (set_pending (set_received st (received st)) (pq_push e (pending st))) by (destruct st; reflexivity).
  assert (Hhi : e_hi e = hi) by (unfold e_hi; cbn; destruct (hi =? 0) eqn:E; lia).
  apply (add_pending_settled i m h).
  - apply push_LI0; rewrite ?Hhi; cbn [e_seq e]; try assumption; try lia. intros t Ht; now left.
  - exact S.
Qed.

Lemma step_settled : forall i m h st o s,
  I0 i m h st -> settled st s \/ arr_seq o = Some s -> settled (step st o) s.
Proof.
  intros i m h st o s I S.
  assert (I' : I0 i m (o :: h) st) by (destruct I as [L Q]; split; [apply LI0_cons; assumption | assumption]).
  destruct o as [k t a|lo hi a| | |old]; cbn [step arr_seq] in *.
  - apply (process_entry_settled i m (Arrive k t a :: h)); [assumption | reflexivity | |].
    + exists (Arrive k t a). split; [now left | cbn; apply N.eqb_refl].
    + destruct S as [S|S]; [now left | right; cbn; congruence].
  - destruct (lo =? hi) eqn:E1.
    + apply (process_entry_settled i m (ArriveRange lo hi a :: h)); [assumption | reflexivity | |].
      * exists (ArriveRange lo hi a). split; [now left | cbn; lia].
      * destruct S as [S|S]; [now left | right; cbn; congruence].
    + destruct S as [S|S]; [|discriminate]. destruct (hi <? lo) eqn:E2; [assumption|].
      apply (process_range_settled i m (ArriveRange lo hi a :: h)); [assumption | lia | | assumption].
      intros t S1 S2. exists (ArriveRange lo hi a). split; [now left | cbn; lia].
  - destruct S as [S|S]; [|discriminate]. apply (add_pending_settled i m h); [apply I | assumption].
  - destruct S as [S|S]; [|discriminate]. unfold settled in *. cbn [next skipped received].
    destruct S as [[S1 S2]|S]; [left; split; [assumption | reflexivity] | now right].
  - destruct S as [S|S]; [|discriminate]. unfold settled in *. cbn [next skipped received].
    destruct S as [[S1 S2]|S]; [|now right]. left. split; [assumption|].
    destruct (sk_mem s (fst (sk_split old (skipped st)))) eqn:E; [|reflexivity].
    rewrite (sk_mem_split s old), E in S2. discriminate.
Qed.

Lemma run_settled : forall ops i m h st s, I0 i m h st -> settled st s -> settled (run st ops) s.
Proof.
  induction ops as [|o ops IH]; intros i m h st s I S; cbn [run]; [assumption|].
  apply (IH i m (o :: h)); [apply step_I0; assumption | eapply step_settled; [eassumption | now left]].
Qed.

Lemma run_arrived_settled : forall ops i m h st o s,
  I0 i m h st -> In o ops -> arr_seq o = Some s -> settled (run st ops) s.
Proof.
  induction ops as [|o' ops IH]; intros i m h st o s I Hin Ha; [destruct Hin|]. cbn [run].
  destruct Hin as [->|Hin].
  - apply (run_settled ops i m (o :: h)); [apply step_I0; assumption | eapply step_settled; [eassumption | now right]].
  - apply (IH i m (o' :: h) _ o); [apply step_I0; assumption | assumption | assumption].
Qed.

(* a second arrival of a sequence number -- whatever its kind or age -- changes nothing, on EVERY feed *)
Lemma arrive_again_noop : forall i m ops o s k a,
  In o ops -> arr_seq o = Some s ->
  step (run (init i m) ops) (Arrive k s a) = run (init i m) ops.
Proof.
  intros i m ops o s k a Hin Ha. cbn [step]. apply settled_noop. cbn [e_seq].
  eapply run_arrived_settled; [apply I0_init | eassumption | assumption].
Qed.

Lemma arr_step_noop : forall st o s, arr_seq o = Some s -> settled st s -> step st o = st.
Proof.
  intros st o s Ha S. destruct o as [k t a|lo hi a| | |old]; cbn [arr_seq] in Ha; try discriminate.
  - inversion Ha; subst. cbn [step]. apply settled_noop. exact S.
  - destruct (lo =? hi) eqn:E; [|discriminate]. inversion Ha; subst. cbn [step]. rewrite E. apply settled_noop. exact S.
Qed.

Lemma run_canon_from : forall ops i m h st seen,
  I0 i m h st -> (forall s, In s seen -> settled st s) -> run st (canon_from seen ops) = run st ops.
Proof.
  induction ops as [|o ops IH]; intros i m h st seen I Hs; [reflexivity|].
  cbn [canon_from run]. destruct (arr_seq o) as [s|] eqn:A.
  - destruct (memN s seen) eqn:M.
    + apply memN_in in M. rewrite (arr_step_noop st o s A (Hs s M)). apply (IH i m h); assumption.
    + cbn [run]. apply (IH i m (o :: h)); [apply step_I0; assumption|].
      intros t [<-|Ht]; [eapply step_settled; [eassumption | now right] | eapply step_settled; [eassumption | left; auto]].
  - cbn [run]. apply (IH i m (o :: h)); [apply step_I0; assumption|].
    intros t Ht. eapply step_settled; [eassumption | left; auto].
Qed.

Lemma run_canon : forall i m ops, run (init i m) (canon ops) = run (init i m) ops.
Proof. intros. unfold canon. apply (run_canon_from ops i m []); [apply I0_init | intros s []]. Qed.

Lemma canon_from_in : forall l seen o, In o (canon_from seen l) -> In o l.
Proof.
  induction l as [|x l IH]; intros seen o H; [destruct H|]. cbn [canon_from] in H.
  destruct (arr_seq x) as [s|]; [destruct (memN s seen)|];
    try (destruct H as [H|H]; [now left | right; eapply IH; eassumption]). right; eapply IH; eassumption.
Qed.

Lemma arr_covers : forall o s t, arr_seq o = Some t -> covers s o = true -> s = t.
Proof.
  intros [k u a|lo hi a| | |old] s t Ha Hc; cbn in *; try discriminate.
  - inversion Ha; subst. lia.
  - destruct (lo =? hi) eqn:E; [|discriminate]. inversion Ha; subst. lia.
Qed.

Lemma arr_covers_self : forall o t, arr_seq o = Some t -> covers t o = true.
Proof.
  intros [k u a|lo hi a| | |old] t Ha; cbn in *; try discriminate.
  - inversion Ha; subst. apply N.eqb_refl.
  - destruct (lo =? hi) eqn:E; [|discriminate]. inversion Ha; subst. lia.
Qed.

Lemma covered_canon_from : forall l seen s, covered l s -> covered (canon_from seen l) s \/ In s seen.
Proof.
  induction l as [|x l IH]; intros seen s [o [Hin Hc]]; [destruct Hin|]. cbn [canon_from].
  destruct Hin as [->|Hin].
  - destruct (arr_seq o) as [t|] eqn:A.
    + pose proof (arr_covers _ _ _ A Hc). subst t. destruct (memN s seen) eqn:M; [right; now apply memN_in|].
      left. exists o. split; [now left | assumption].
    + left. exists o. split; [now left | assumption].
  - assert (C : covered l s) by (exists o; auto).
    destruct (arr_seq x) as [t|] eqn:A.
    + destruct (memN t seen) eqn:M; [apply IH; assumption|].
      destruct (IH (t :: seen) s C) as [H|[<-|H]]; [left; now apply covered_cons | | now right].
      left. exists x. split; [now left | now apply arr_covers_self].
    + destruct (IH seen s C) as [H|H]; [left; now apply covered_cons | now right].
Qed.

Lemma covered_canon : forall l s, covered (canon l) s <-> covered l s.
Proof.
  intros l s. unfold canon. split.
  - intros [o [H1 H2]]. exists o. split; [eapply canon_from_in; eassumption | assumption].
  - intros H. destruct (covered_canon_from l [] s H) as [H'|[]]. assumption.
Qed.

(* ---------- the tagged version ---------- *)
Lemma map_snd_tcanon : forall l seen, map snd (tcanon seen l) = canon_from seen (map snd l).
Proof.
  induction l as [|x l IH]; intros seen; [reflexivity|]. cbn [tcanon canon_from map].
  destruct (arr_seq (snd x)) as [s|]; [destruct (memN s seen)|]; cbn [map]; rewrite ?IH; reflexivity.
Qed.

Lemma tcanon_split : forall l seen x, In x (tcanon seen l) ->
  exists l1 l2, l = l1 ++ x :: l2 /\
    forall s, arr_seq (snd x) = Some s -> ~ In s seen /\ forall y, In y l1 -> arr_seq (snd y) <> Some s.
Proof.
  induction l as [|z l IH]; intros seen x H; [destruct H|]. cbn [tcanon] in H.
  destruct (arr_seq (snd z)) as [t|] eqn:A.
  - destruct (memN t seen) eqn:M.
    + destruct (IH _ _ H) as [l1 [l2 [E F]]]. exists (z :: l1), l2. split; [cbn; congruence|].
      intros s Hs. destruct (F s Hs) as [F1 F2]. split; [assumption|]. intros y [<-|Hy]; [|auto].
      rewrite A. intros C. inversion C; subst. apply memN_in in M. contradiction.
    + destruct H as [<-|H].
      * exists [], l. split; [reflexivity|]. intros s Hs. rewrite A in Hs. inversion Hs; subst. split; [|intros y []].
        intros C. apply memN_in in C. congruence.
      * destruct (IH _ _ H) as [l1 [l2 [E F]]]. exists (z :: l1), l2. split; [cbn; congruence|].
        intros s Hs. destruct (F s Hs) as [F1 F2]. split; [intros C; apply F1; now right|].
        intros y [<-|Hy]; [|auto]. rewrite A. intros C. inversion C; subst. apply F1. now left.
  - destruct H as [<-|H].
    + exists [], l. split; [reflexivity|]. intros s Hs. congruence.
    + destruct (IH _ _ H) as [l1 [l2 [E F]]]. exists (z :: l1), l2. split; [cbn; congruence|].
      intros s Hs. destruct (F s Hs) as [F1 F2]. split; [assumption|]. intros y [<-|Hy]; [congruence | auto].
Qed.

Lemma tcanon_uniq : forall l seen x y s,
  In x (tcanon seen l) -> In y (tcanon seen l) -> arr_seq (snd x) = Some s -> arr_seq (snd y) = Some s -> x = y.
Proof.
  induction l as [|z l IH]; intros seen x y s Hx Hy Ax Ay; [destruct Hx|]. cbn [tcanon] in Hx, Hy.
  destruct (arr_seq (snd z)) as [t|] eqn:A.
  - destruct (memN t seen) eqn:M; [eapply IH; eassumption|].
    destruct Hx as [<-|Hx], Hy as [<-|Hy]; [reflexivity | | |eapply IH; eassumption]; exfalso.
    + destruct (tcanon_split _ _ _ Hy) as [l1 [l2 [_ F]]]. destruct (F s Ay) as [F1 _]. apply F1. left. congruence.
    + destruct (tcanon_split _ _ _ Hx) as [l1 [l2 [_ F]]]. destruct (F s Ax) as [F1 _]. apply F1. left. congruence.
  - destruct Hx as [<-|Hx]; [congruence|]. destruct Hy as [<-|Hy]; [congruence|]. eapply IH; eassumption.
Qed.

Lemma tcanon_first : forall l seen s, (exists y, In y l /\ arr_seq (snd y) = Some s) -> ~ In s seen ->
  exists x l1 l2, l = l1 ++ x :: l2 /\ In x (tcanon seen l) /\ arr_seq (snd x) = Some s
    /\ forall y, In y l1 -> arr_seq (snd y) <> Some s.
Proof.
  induction l as [|z l IH]; intros seen s [y [Hy Ay]] Hs; [destruct Hy|]. cbn [tcanon].
  destruct (arr_seq (snd z)) as [t|] eqn:A.
  - destruct (N.eq_dec t s) as [->|Hne].
    + assert (M : memN s seen = false) by (destruct (memN s seen) eqn:M; [apply memN_in in M; contradiction | reflexivity]).
      rewrite M. exists z, [], l. repeat split; [now left | assumption | intros ? []].
    + assert (Hy' : exists y, In y l /\ arr_seq (snd y) = Some s).
      { destruct Hy as [<-|Hy]; [congruence | eauto]. }
      destruct (memN t seen) eqn:M.
      * destruct (IH seen s Hy' Hs) as [x [l1 [l2 [E [F1 [F2 F3]]]]]]. exists x, (z :: l1), l2.
        repeat split; [cbn; congruence | assumption | assumption |]. intros w [<-|Hw]; [congruence | auto].
      * destruct (IH (t :: seen) s Hy') as [x [l1 [l2 [E [F1 [F2 F3]]]]]]; [intros [C|C]; [congruence | contradiction]|].
        exists x, (z :: l1), l2. repeat split; [cbn; congruence | now right | assumption |]. intros w [<-|Hw]; [congruence | auto].
  - assert (Hy' : exists y, In y l /\ arr_seq (snd y) = Some s).
    { destruct Hy as [<-|Hy]; [congruence | eauto]. }
    destruct (IH seen s Hy' Hs) as [x [l1 [l2 [E [F1 [F2 F3]]]]]]. exists x, (z :: l1), l2.
    repeat split; [cbn; congruence | now right | assumption |]. intros w [<-|Hw]; [congruence | auto].
Qed.

(* ---------- DocChanged agrees with the expansion ---------- *)
Section Expansion.
Variables i m : N.

Lemma fold_unused : forall aged unused st,
  fold_left (fun s u => process_entry s (mkE u 0 KUnused aged)) unused st
  = run st (map (fun u => Arrive KUnused u aged) unused).
Proof. intros aged unused; induction unused as [|u l IH]; intros st; cbn; [reflexivity | apply IH]. Qed.

Lemma recent_step_eq : forall h st cur snap removed aged r,
  I0 i m h st -> snap <= next st ->
  recent_step cur snap removed aged st r
  = if r <? cur then step st (Arrive (recent_kind removed r) r aged) else st.
Proof.
  intros h st cur snap removed aged r [L Q] Hsnap. unfold recent_step. cbn [step].
  destruct (r <? cur) eqn:Ec; cbn [andb]; [|rewrite andb_false_r; reflexivity].
  rewrite andb_true_r.
  destruct (snap <=? r) eqn:Es.
  - assert (E : (r <? snap) = false) by lia. rewrite E. cbn [orb andb]. apply peg_false.
  - assert (E : (r <? snap) = true) by lia. rewrite E. cbn [orb andb].
    destruct (sk_mem r (skipped st)) eqn:Ek.
    + (* r is skipped: processEntry is called with the flag preset; the call it replaces sets it itself *)
      unfold process_entry_gen, process_entry. cbn [e_seq negb]. rewrite Ek. cbn [negb]. rewrite !andb_false_r.
      destruct (memN r (received st)); [reflexivity|].
      assert (E1 : (r =? next st) || (next st =? 0) = false) by lia. rewrite E1. reflexivity.
    + (* r is below nextSequence and not skipped: no call; the call would be ignored as a duplicate *)
      unfold process_entry. cbn [e_seq]. rewrite Ek. assert (E1 : (r <? next st) = true) by lia. rewrite E1. reflexivity.
Qed.

Lemma fold_recent : forall cur snap removed aged recent h st,
  I0 i m h st -> snap <= next st ->
  fold_left (recent_step cur snap removed aged) recent st
  = run st (map (fun r => Arrive (recent_kind removed r) r aged) (filter (fun r => r <? cur) recent)).
Proof.
  intros cur snap removed aged recent; induction recent as [|r l IH]; intros h st I Hs; [reflexivity|].
  cbn [fold_left filter]. rewrite (recent_step_eq h) by assumption. destruct (r <? cur); [|apply (IH h); assumption].
  cbn [map run]. apply (IH (Arrive (recent_kind removed r) r aged :: h)); [apply step_I0; assumption|].
  pose proof (step_next_mono _ _ _ _ (Arrive (recent_kind removed r) r aged) I). lia.
Qed.

Lemma dstep_expand : forall h st it, I0 i m h st -> dstep st it = run st (expand i it).
Proof.
  intros h st it I. assert (Hi : initial st = i) by (destruct I as [L _]; apply (li_init _ _ _ _ L)).
  destruct it as [seq unused recent removed aged|s aged|o]; unfold expand; cbn [dstep texpand].
  - unfold doc_changed. rewrite Hi. destruct (seq <=? i); [reflexivity|].
    rewrite !map_app, !map_map. cbn [snd map]. rewrite !run_app2. cbn [run step].
    rewrite fold_unused.
    set (st1 := run st (map (fun u => Arrive KUnused u aged) unused)).
    assert (I1 : I0 i m (rev (map (fun u => Arrive KUnused u aged) unused) ++ h) st1) by (apply run_I0_from; assumption).
    rewrite (fold_recent _ _ _ _ _ _ _ I1 (N.le_refl _)). reflexivity.
  - rewrite Hi. destruct (s <=? i); reflexivity.
  - reflexivity.
Qed.

Lemma drun_expand_from : forall items h st, I0 i m h st -> drun st items = run st (expand_all i items).
Proof.
  induction items as [|it items IH]; intros h st I; [reflexivity|].
  cbn [drun expand_all flat_map]. rewrite run_app2, (dstep_expand h) by assumption.
  apply (IH (rev (expand i it) ++ h)). apply run_I0_from. assumption.
Qed.

Lemma drun_expand : forall items, drun (init i m) items = run (init i m) (expand_all i items).
Proof. intros. apply (drun_expand_from items []). apply I0_init. Qed.

End Expansion.

(* ---------- what C07 / C05 guarantee about documents, and what it gives ---------- *)
Record docs_consistent (i : N) (items : list ditem) : Prop := {
  (* sequence numbers are unique: what two events say on their own account (a document's sequence, its unused
     sequences, a principal's sequence, an unused-sequence document or range) is one and the same statement or
     concerns disjoint numbers -- in particular unused lists are disjoint from used numbers *)
  dc_primary : forall o1 o2 v w, In (true, o1) (texpand_all i items) -> In (true, o2) (texpand_all i items) ->
      op_ev o1 = Some v -> op_ev o2 = Some w -> compat v w;
  (* recent_sequences lists earlier revisions of the same document: the mutation that carried revision r was
     delivered earlier on the (per-vbucket, ordered) feed, or it was deduplicated and nothing else claims r *)
  dc_recent : forall l1 l2 k r a, texpand_all i items = l1 ++ (false, Arrive k r a) :: l2 ->
      (exists a', In (true, Arrive KDoc r a') l1) \/ (forall o, In (true, o) (texpand_all i items) -> covers r o = false);
  dc_wf : forall o, In (true, o) (texpand_all i items) -> op_wf i o
}.

Lemma expand_all_map : forall i items, expand_all i items = map snd (texpand_all i items).
Proof.
  intros i items; induction items as [|it l IH]; [reflexivity|].
  unfold expand_all, texpand_all in *. cbn [flat_map]. rewrite map_app, IH. reflexivity.
Qed.

Lemma canon_expand : forall i items, canon (expand_all i items) = map snd (tcanon [] (texpand_all i items)).
Proof. intros. unfold canon. rewrite expand_all_map, map_snd_tcanon. reflexivity. Qed.

Lemma secondary_is_arrive : forall i items o, In (false, o) (texpand_all i items) -> exists k r a, o = Arrive k r a.
Proof.
  intros i items o H. unfold texpand_all in H. apply in_flat_map in H as [it [_ H]].
  destruct it as [seq unused recent removed aged|s aged|o']; cbn [texpand] in H.
  - destruct (seq <=? i); [destruct H|]. apply in_app_or in H as [H|H]; [|apply in_app_or in H as [H|H]].
    + apply in_map_iff in H as [u [E _]]. discriminate.
    + apply in_map_iff in H as [r [E _]]. inversion E. eauto.
    + destruct H as [E|[]]. discriminate.
  - destruct (s <=? i); [destruct H | destruct H as [E|[]]; discriminate].
  - destruct H as [E|[]]. discriminate.
Qed.

Lemma tcanon_in : forall l seen x, In x (tcanon seen l) -> In x l.
Proof. intros l seen x H. destruct (tcanon_split _ _ _ H) as [l1 [l2 [E _]]]. subst l. apply in_or_app. right. now left. Qed.

(* a mention in recent_sequences that survives [canon] is the first statement about its number, and no event
   says anything about that number on its own account *)
Lemma surviving_secondary : forall i items o, docs_consistent i items ->
  In (false, o) (tcanon [] (texpand_all i items)) ->
  exists k r a, o = Arrive k r a /\ forall o', In (true, o') (texpand_all i items) -> covers r o' = false.
Proof.
  intros i items o D H. destruct (secondary_is_arrive i items o (tcanon_in _ _ _ H)) as [k [r [a ->]]].
  exists k, r, a. split; [reflexivity|].
  destruct (tcanon_split _ _ _ H) as [l1 [l2 [E F]]]. destruct (F r eq_refl) as [_ F2].
  destruct (dc_recent _ _ D _ _ _ _ _ E) as [[a' Hin]|Hno]; [|assumption].
  exfalso. apply (F2 _ Hin). reflexivity.
Qed.

Lemma disjoint_compat : forall k r v, ev_lo v <= ev_hi v -> (r <? ev_lo v) || (ev_hi v <? r) = true -> compat (k, r, r) v /\ compat v (k, r, r).
Proof. intros k r v _ H. unfold compat, ev_lo, ev_hi in *; cbn. split; right; lia. Qed.

Lemma covers_false_disjoint : forall r o v, op_ev o = Some v -> covers r o = false -> r < ev_lo v \/ ev_hi v < r.
Proof.
  intros r [k t a|lo hi a| | |old] v H Hc; cbn in *; inversion H; subst; unfold ev_lo, ev_hi; cbn; lia.
Qed.

Lemma thm_expand_consistent : forall i items, docs_consistent i items ->
  feed_consistent (canon (expand_all i items)) /\ ops_wf i (canon (expand_all i items)).
Proof.
  intros i items D. rewrite canon_expand. split.
  - intros o1 o2 v w H1 H2 E1 E2.
    apply in_map_iff in H1 as [[t1 o1'] [X1 H1]]. apply in_map_iff in H2 as [[t2 o2'] [X2 H2]]. cbn in X1, X2. subst o1' o2'.
    destruct t1, t2.
    + apply (dc_primary _ _ D o1 o2); try assumption; eapply tcanon_in; eassumption.
    + destruct (surviving_secondary _ _ _ D H2) as [k [r [a [-> Hno]]]]. cbn in E2. inversion E2; subst w.
      destruct (covers_false_disjoint r o1 v E1 (Hno _ (tcanon_in _ _ _ H1))); unfold compat, ev_lo, ev_hi in *; cbn; right; lia.
    + destruct (surviving_secondary _ _ _ D H1) as [k [r [a [-> Hno]]]]. cbn in E1. inversion E1; subst v.
      destruct (covers_false_disjoint r o2 w E2 (Hno _ (tcanon_in _ _ _ H2))); unfold compat, ev_lo, ev_hi in *; cbn; right; lia.
    + destruct (surviving_secondary _ _ _ D H1) as [k1 [r1 [a1 [-> _]]]].
      destruct (surviving_secondary _ _ _ D H2) as [k2 [r2 [a2 [-> _]]]].
      cbn in E1, E2. inversion E1; inversion E2; subst v w.
      destruct (N.eq_dec r1 r2) as [->|Hne].
      * left. pose proof (tcanon_uniq _ _ _ _ r2 H1 H2 eq_refl eq_refl) as E. inversion E. reflexivity.
      * unfold compat, ev_lo, ev_hi; cbn. right. lia.
  - intros o H. apply in_map_iff in H as [[t o'] [X H]]. cbn in X. subst o'. destruct t.
    + apply (dc_wf _ _ D). eapply tcanon_in; eassumption.
    + destruct (surviving_secondary _ _ _ D H) as [k [r [a [-> _]]]]. exact I.
Qed.

(* the document's own arrival survives [canon] (with the age of its first delivery) *)
Lemma doc_arrival_in_canon : forall i items seq unused recent removed aged,
  docs_consistent i items -> In (FDoc seq unused recent removed aged) items -> i < seq ->
  exists a', In (Arrive KDoc seq a') (canon (expand_all i items)).
Proof.
  intros i items seq unused recent removed aged D Hin Hs.
  assert (Hp : In (true, Arrive KDoc seq aged) (texpand_all i items)).
  { unfold texpand_all. apply in_flat_map. exists (FDoc seq unused recent removed aged). split; [assumption|].
    cbn [texpand]. assert (E : (seq <=? i) = false) by lia. rewrite E. apply in_or_app. right. apply in_or_app. right. now left. }
  destruct (tcanon_first (texpand_all i items) [] seq) as [[t o] [l1 [l2 [E [F1 [F2 F3]]]]]];
    [exists (true, Arrive KDoc seq aged); split; [assumption | reflexivity] | intros [] |].
  cbn [snd] in F2. rewrite canon_expand. destruct t.
  - (* the first statement about seq is some event's own: it is this document's arrival *)
    assert (Ho : In (true, o) (texpand_all i items)) by (eapply tcanon_in; eassumption).
    destruct o as [k t a|lo hi a| | |old]; cbn [arr_seq] in F2; try discriminate.
    + inversion F2; subst t.
      destruct (dc_primary _ _ D _ _ _ _ Ho Hp eq_refl eq_refl) as [C|[C|C]]; unfold ev_lo, ev_hi in C; cbn in C; try lia.
      inversion C; subst k. exists a. apply in_map_iff. exists (true, Arrive KDoc seq a). split; [reflexivity | assumption].
    + destruct (lo =? hi) eqn:El; [|discriminate]. inversion F2; subst hi. apply N.eqb_eq in El. subst lo.
      destruct (dc_primary _ _ D _ _ _ _ Ho Hp eq_refl eq_refl) as [C|[C|C]]; unfold ev_lo, ev_hi in C; cbn in C; try lia.
      discriminate.
  - (* ... or a mention in recent_sequences, which contradicts dc_recent *)
    exfalso. destruct (secondary_is_arrive i items o (tcanon_in _ _ _ F1)) as [k [r [a ->]]].
    cbn in F2. inversion F2; subst r.
    destruct (dc_recent _ _ D _ _ _ _ _ E) as [[a' Hin']|Hno].
    + apply (F3 _ Hin'). reflexivity.
    + specialize (Hno _ Hp). cbn in Hno. rewrite N.eqb_refl in Hno. discriminate.
Qed.

Lemma thm_doc_not_lost : forall i m items seq unused recent removed aged,
  docs_consistent i items -> In (FDoc seq unused recent removed aged) items -> i < seq ->
  let st := drun (init i m) items in
  delivered_ev st KDoc seq \/ pending_ev st KDoc seq \/ sk_mem seq (abandoned st) = true.
Proof.
  intros i m items seq unused recent removed aged D Hin Hs st.
  destruct (doc_arrival_in_canon _ _ _ _ _ _ _ D Hin Hs) as [a' Ha].
  destruct (thm_expand_consistent _ _ D) as [C W].
  unfold st. rewrite drun_expand, <- run_canon.
  exact (thm_arrival_not_lost i m _ KDoc seq a' C W Ha Hs).
Qed.

Lemma thm_doc_skipped_exact : forall i m items, docs_consistent i items ->
  let st := drun (init i m) items in
  forall s, sk_mem s (skipped st) = true <->
            (i < s /\ s < next st /\ ~ covered (expand_all i items) s /\ sk_mem s (abandoned st) = false).
Proof.
  intros i m items D st s. destruct (thm_expand_consistent _ _ D) as [C W].
  unfold st. rewrite drun_expand, <- run_canon. rewrite <- covered_canon.
  exact (thm_skipped_exact i m _ C W s).
Qed.

Lemma thm_doc_at_most_once : forall i m items, NoDup (map d_seq (delivered (drun (init i m) items))).
Proof. intros. rewrite drun_expand. apply thm_at_most_once. Qed.

Lemma thm_doc_hwm : forall i m items, let st := drun (init i m) items in
  i < next st /\
  forall s, i < s -> s < next st ->
    covered (expand_all i items) s \/ sk_mem s (skipped st) = true \/ sk_mem s (abandoned st) = true.
Proof. intros i m items st. unfold st. rewrite drun_expand. apply thm_hwm. Qed.
