(* C08 -- the skipped-sequence list of db/skipped_sequence.go, abstracted as a list of closed
   ranges (lo,hi) kept in increasing order.  The third-party skip list (couchbasedeps/fast-skiplist)
   is modelled as the list of its elements' keys (Start, End), not as a linked structure: Get/Set/Remove/
   FrontKey/CompactList are modelled by their effect on that list (membership, append above every element
   with the merge-into-last-element rule, set difference with a range element by element -- whole
   element, trimmed start, trimmed end or split --, start of the first element, removal of the elements
   that are old enough).  The correspondence harness compares the element list itself after every
   operation (and the per-element timestamps through the bits given to [sk_split]). *)
From SG Require Import Base.Prelude.
Open Scope N_scope.

Definition rng := (N * N)%type.

Definition in_rng (s : N) (r : rng) : bool := (fst r <=? s) && (s <=? snd r).

(* SkippedSequenceSkiplist.Contains *)
Definition sk_mem (s : N) (l : list rng) : bool := existsb (in_rng s) l.

(* SkipList.Set at the back of the list (changeCache.PushSkipped is only ever called with lo above every
   element -- proved: [li_skbelow]): a range that continues the LAST element (backElem.End + 1 = Start)
   extends that element, which also takes over the new timestamp; otherwise a new element is appended.
   The list of elements is modelled structurally (one pair per skip-list element), because
   CompactList abandons whole elements by their timestamp. *)
Fixpoint sk_append (lo hi : N) (l : list rng) : list rng :=
  match l with
  | [] => [(lo, hi)]
  | (a, b) :: r =>
      match r with
      | [] => if b + 1 =? lo then [(a, hi)] else [(a, b); (lo, hi)]
      | _ :: _ => (a, b) :: sk_append lo hi r
      end
  end.

(* changeCache.PushSkipped (startSeq > endSeq is refused) *)
Definition sk_push (lo hi : N) (l : list rng) : list rng :=
  if hi <? lo then l else sk_append lo hi l.

(* SkipList.CompactList(timeNow, maxWait): every element whose timestamp is old enough is unlinked.
   The clock is replaced by one adversarial bit per element, in list order (true = old enough);
   result: (elements kept, elements abandoned). *)
Fixpoint sk_split (bits : list bool) (l : list rng) : list rng * list rng :=
  match l with
  | [] => ([], [])
  | r :: l' =>
      let kd := sk_split (tl bits) l' in
      if hd false bits then (fst kd, r :: snd kd) else (r :: fst kd, snd kd)
  end.

(* one range minus [lo,hi] *)
Definition cut (lo hi : N) (r : rng) : list rng :=
  if (snd r <? lo) || (hi <? fst r) || (hi <? lo) then [r]
  else (if fst r <? lo then [(fst r, lo - 1)] else []) ++ (if hi <? snd r then [(hi + 1, snd r)] else []).

(* SkipList.Remove of a single sequence (RemoveSkipped) or of a range spanning any number of
   elements (processUnusedSequenceRangeAtSkipped): set difference *)
Definition sk_diff (lo hi : N) (l : list rng) : list rng := flat_map (cut lo hi) l.

(* SkippedSequenceSkiplist.getOldest: FrontKey().Start, 0 when empty *)
Definition sk_oldest (l : list rng) : N := match l with [] => 0 | (a, _) :: _ => a end.

(* canonical form used by the correspondence: merge ranges that touch *)
Fixpoint sk_norm (l : list rng) : list rng :=
  match l with
  | [] => []
  | (a, b) :: r =>
      match sk_norm r with
      | (c, d) :: r' => if c <=? b + 1 then (a, N.max b d) :: r' else (a, b) :: (c, d) :: r'
      | [] => [(a, b)]
      end
  end.

(* increasing, non-empty, pairwise separated ranges, all starting at or above [lb] *)
Fixpoint sk_wf_from (lb : N) (l : list rng) : Prop :=
  match l with
  | [] => True
  | (a, b) :: r => lb <= a /\ a <= b /\ sk_wf_from (b + 1) r
  end.

Definition sk_below (n : N) (l : list rng) : Prop := forall a b, In (a, b) l -> b < n.
