(* C08 -- the skipped-sequence list of db/skipped_sequence.go, abstracted as a list of closed
   ranges (lo,hi) kept in increasing order.  The third-party skip list (couchbasedeps/fast-skiplist)
   is NOT modelled structurally: Get/Set/Remove/FrontKey/CompactList are modelled by their effect on the
   set of sequences (membership, append of a range above every element, set difference with a range,
   start of the first element, drop everything).  The correspondence harness compares the normalised
   range list (adjacent ranges merged) after every operation. *)
From SG Require Import Base.Prelude.
Open Scope N_scope.

Definition rng := (N * N)%type.

Definition in_rng (s : N) (r : rng) : bool := (fst r <=? s) && (s <=? snd r).

(* SkippedSequenceSkiplist.Contains *)
Definition sk_mem (s : N) (l : list rng) : bool := existsb (in_rng s) l.

(* changeCache.PushSkipped -> SkipList.Set: only ever called with lo above every element (proved:
   [inv_sk_below]), where Set appends (or extends the last element, the same set of sequences). *)
Definition sk_push (lo hi : N) (l : list rng) : list rng :=
  if hi <? lo then l else l ++ [(lo, hi)].

(* one range minus [lo,hi] *)
Definition cut (lo hi : N) (r : rng) : list rng :=
  if (snd r <? lo) || (hi <? fst r) || (hi <? lo) then [r]
  else (if fst r <? lo then [(fst r, lo - 1)] else []) ++ (if hi <? snd r then [(hi + 1, snd r)] else []).

(* SkipList.Remove of a single sequence (RemoveSkipped) or of a range spanning any number of
   elements (processUnusedSequenceRangeAtSkipped): set difference *)
Definition sk_diff (lo hi : N) (l : list rng) : list rng := flat_map (cut lo hi) l.

(* SkippedSequenceSkiplist.getOldest: FrontKey().Start, 0 when empty *)
Definition sk_oldest (l : list rng) : N := match l with [] => 0 | (a, _) :: _ => a end.

(* canonical form used by the correspondence: merge ranges that touch *)
Fixpoint sk_norm (l : list rng) : list rng :=
  match l with
  | [] => []
  | (a, b) :: r =>
      match sk_norm r with
      | (c, d) :: r' => if c <=? b + 1 then (a, N.max b d) :: r' else (a, b) :: (c, d) :: r'
      | [] => [(a, b)]
      end
  end.

(* increasing, non-empty, pairwise separated ranges, all starting at or above [lb] *)
Fixpoint sk_wf_from (lb : N) (l : list rng) : Prop :=
  match l with
  | [] => True
  | (a, b) :: r => lb <= a /\ a <= b /\ sk_wf_from (b + 1) r
  end.

Definition sk_below (n : N) (l : list rng) : Prop := forall a b, In (a, b) l -> b < n.
