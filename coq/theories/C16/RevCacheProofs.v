(* C16 -- invariants of the sequential revision-cache model, for ALL op lists *)
From SG Require Import Base.Prelude C16.RevCache C16.RevCacheLemmas.
Open Scope Z_scope.

(* ---------- the invariants, on the (list, gauge) pairs ---------- *)
Definition W1 (l : list (key * value)) (i : Z) : Prop := NoDup (keys l) /\ i = Z.of_nat (length l).
Definition good (kv : key * value) : Prop := vmem (snd kv) = Sized /\ vbody (snd kv) <> None.
Definition W2 (l : list (key * value)) (b : Z) : Prop := Forall good l /\ b = sum_sized l.

Definition wf1 (s : state) : Prop := W1 (lru s) (items s).
Definition wf2 (s : state) : Prop := W2 (lru s) (bytes s).
Definition capped (cfg : config) (s : state) : Prop := (length (lru s) <= N.to_nat (cap cfg))%nat.

(* Put onto a value that is already cached must carry the size that value was accounted with
   (DocumentRevision.CalculateBytes of the written revision = of the loaded revision) *)
Definition put_ok (s : state) (o : op) : Prop :=
  match o with
  | Put k c => forall v, lookup k (lru s) = Some v -> vbytes v = csize c
  | _ => True
  end.

(* ---------- building blocks ---------- *)
Lemma W1_touch l i k v : lookup k l = Some v -> W1 l i -> W1 ((k, v) :: remove_key k l) i.
Proof.
  intros L [ND E]. split.
  - cbn [keys map fst]. constructor; [|apply nodup_remove_key; exact ND].
    intros H. apply keys_remove_key_in in H. tauto.
  - cbn [length]. rewrite (length_remove_key k l v ND L). exact E.
Qed.

Lemma W2_touch l b k v : NoDup (keys l) -> lookup k l = Some v -> W2 l b -> W2 ((k, v) :: remove_key k l) b.
Proof.
  intros ND L [F E]. split.
  - constructor; [|apply Forall_remove_key; exact F].
    rewrite Forall_forall in F. apply (F (k, v)). apply lookup_in_pair. exact L.
  - cbn [sum_sized]. rewrite (sum_remove_key k l v ND L). lia.
Qed.

Lemma W1_insert l i k v : lookup k l = None -> W1 l i -> W1 ((k, v) :: l) (i + 1).
Proof.
  intros L [ND E]. split.
  - cbn [keys map fst]. constructor; [apply lookup_none_notin; exact L | exact ND].
  - cbn [length]. lia.
Qed.

Lemma W2_insert l b k v : good (k, v) -> W2 l b -> W2 ((k, v) :: l) (b + sized_bytes v).
Proof.
  intros G [F E]. split; [constructor; assumption|]. cbn [sum_sized]. lia.
Qed.

Lemma W1_prefix l ev i : W1 (l ++ ev) i -> W1 l (i - Z.of_nat (length ev)).
Proof.
  intros [ND E]. split.
  - rewrite keys_app in ND. apply nodup_app_l in ND. exact ND.
  - rewrite app_length in E. lia.
Qed.

Lemma W2_prefix l ev b : W2 (l ++ ev) b -> W2 l (b - sum_sized ev).
Proof.
  intros [F E]. split.
  - apply Forall_app in F. tauto.
  - rewrite sum_sized_app in E. lia.
Qed.

Lemma W1_remove l i k v : lookup k l = Some v -> W1 l i -> W1 (remove_key k l) (i - 1).
Proof.
  intros L [ND E]. split; [apply nodup_remove_key; exact ND|].
  pose proof (length_remove_key k l v ND L). lia.
Qed.

Lemma W2_remove l b k v : NoDup (keys l) -> lookup k l = Some v -> W2 l b -> W2 (remove_key k l) (b - sized_bytes v).
Proof.
  intros ND L [F E]. split; [apply Forall_remove_key; exact F|].
  rewrite (sum_remove_key k l v ND L). lia.
Qed.

Lemma W1_update l i k v : W1 l i -> W1 (update k v l) i.
Proof. intros [ND E]. split; [rewrite keys_update; exact ND | rewrite length_update; exact E]. Qed.

Lemma firstn_skipn_cons {A} n (x : A) l :
  firstn (S n) (x :: l) = x :: firstn n l /\ skipn (S n) (x :: l) = skipn n l.
Proof. split; reflexivity. Qed.

Lemma lookup_firstn_none k n l : lookup k l = None -> lookup k (firstn n l) = None.
Proof.
  intros L. apply lookup_none_notin. apply lookup_none_notin in L. intros H. apply L.
  rewrite <- (firstn_skipn n l). rewrite keys_app. apply in_or_app. left. exact H.
Qed.

(* ---------- memory-based eviction ---------- *)
Lemma mem_evict_spec cfg s : exists ev,
  lru s = lru (mem_evict cfg s) ++ ev /\
  items (mem_evict cfg s) = items s - Z.of_nat (length ev) /\
  bytes (mem_evict cfg s) = bytes s - sum_sized ev /\
  ld (mem_evict cfg s) = ld s /\ act (mem_evict cfg s) = act s.
Proof.
  unfold mem_evict.
  destruct (negb (orch cfg) || (maxb cfg =? 0)%N || (bytes s <=? Z.of_N (maxb cfg))).
  - exists []. rewrite app_nil_r. cbn [length sum_sized]. repeat split; lia.
  - destruct (evict_tail (bytes s - Z.of_N (maxb cfg)) 0 0 (rev (lru s))) as [[rl removed] n] eqn:E.
    destruct (evict_tail_spec _ _ _ _ _ _ _ E) as (taken & R & -> & -> & _).
    exists (rev taken). cbn [lru items bytes ld act set_lru].
    rewrite rev_length, sum_sized_rev.
    split; [|repeat split; lia].
    rewrite <- rev_app_distr, <- R, rev_involutive. reflexivity.
Qed.

Lemma mem_evict_wf1 cfg s : wf1 s -> wf1 (mem_evict cfg s).
Proof.
  unfold wf1. intros H. destruct (mem_evict_spec cfg s) as (ev & L & I & _).
  rewrite I. apply W1_prefix. rewrite <- L. exact H.
Qed.

Lemma mem_evict_wf2 cfg s : wf2 s -> wf2 (mem_evict cfg s).
Proof.
  unfold wf2. intros H. destruct (mem_evict_spec cfg s) as (ev & L & _ & B & _).
  rewrite B. apply W2_prefix. rewrite <- L. exact H.
Qed.

Lemma mem_evict_capped cfg s : capped cfg s -> capped cfg (mem_evict cfg s).
Proof.
  unfold capped. intros H. destruct (mem_evict_spec cfg s) as (ev & L & _).
  rewrite L, app_length in H. lia.
Qed.

Lemma mem_evict_lookup_some cfg s k v : lookup k (lru (mem_evict cfg s)) = Some v -> In (k, v) (lru s).
Proof.
  intros H. destruct (mem_evict_spec cfg s) as (ev & L & _). rewrite L.
  apply in_or_app. left. apply lookup_in_pair. exact H.
Qed.

(* after triggerMemoryEviction the byte total is within the limit or nothing is left *)
Lemma mem_evict_bound cfg s :
  orch cfg = true -> maxb cfg <> 0%N ->
  bytes (mem_evict cfg s) <= Z.of_N (maxb cfg) \/ lru (mem_evict cfg s) = [].
Proof.
  intros O M. unfold mem_evict. rewrite O. cbn [negb orb].
  destruct (N.eqb_spec (maxb cfg) 0) as [E|E]; [contradiction|]. cbn [orb].
  destruct (bytes s <=? Z.of_N (maxb cfg)) eqn:B; [left; lia|].
  destruct (evict_tail (bytes s - Z.of_N (maxb cfg)) 0 0 (rev (lru s))) as [[rl removed] n] eqn:T.
  destruct (evict_tail_spec _ _ _ _ _ _ _ T) as (taken & R & -> & -> & D).
  cbn [lru bytes set_lru]. destruct D as [D|D]; [left; lia | right; subst; reflexivity].
Qed.

(* ---------- the number-capacity eviction keeps a prefix ---------- *)
Lemma W1_firstn n l i : W1 l i -> W1 (firstn n l) (i - Z.of_nat (length (skipn n l))).
Proof. intros H. apply W1_prefix. rewrite firstn_skipn. exact H. Qed.

Lemma W2_firstn n l b : W2 l b -> W2 (firstn n l) (b - sum_sized (skipn n l)).
Proof. intros H. apply W2_prefix. rewrite firstn_skipn. exact H. Qed.

(* ---------- Get ---------- *)
Lemma get_key_inv cfg k s :
  wf1 s -> capped cfg s ->
  wf1 (fst (get_key cfg k s)) /\ capped cfg (fst (get_key cfg k s)) /\
  (wf2 s -> wf2 (fst (get_key cfg k s))).
Proof.
  intros H1 HC. unfold get_key, get_value.
  destruct (lookup k (lru s)) as [v|] eqn:L.
  - (* key present: MoveToFront *)
    cbn [lru items bytes ld act set_lru lookup]. rewrite N.eqb_refl.
    assert (T1 : W1 ((k, v) :: remove_key k (lru s)) (items s)) by (apply W1_touch; assumption).
    assert (TC : (length ((k, v) :: remove_key k (lru s)) <= N.to_nat (cap cfg))%nat).
    { cbn [length]. rewrite (length_remove_key k (lru s) v (proj1 H1) L). exact HC. }
    assert (T2 : wf2 s -> W2 ((k, v) :: remove_key k (lru s)) (bytes s)).
    { intros H2. apply W2_touch; [exact (proj1 H1) | exact L | exact H2]. }
    destruct (vbody v) as [c|] eqn:B.
    + cbn [fst]. unfold wf1, wf2, capped. cbn [lru items bytes set_lru]. auto.
    + assert (NG : wf2 s -> False).
      { intros [F _]. rewrite Forall_forall in F. destruct (F (k, v) (lookup_in_pair _ _ _ L)) as [_ G].
        apply G. exact B. }
      destruct (ld s k) as [c|e].
      * destruct (vmem v); cbn [fst].
        -- split; [|split].
           ++ apply mem_evict_wf1. unfold wf1. cbn [lru items set_lru]. apply W1_update. exact T1.
           ++ apply mem_evict_capped. unfold capped. cbn [lru set_lru]. rewrite length_update. exact TC.
           ++ intros H2. contradiction (NG H2).
        -- split; [|split].
           ++ unfold wf1. cbn [lru items set_lru]. apply W1_update. exact T1.
           ++ unfold capped. cbn [lru set_lru]. rewrite length_update. exact TC.
           ++ intros H2. contradiction (NG H2).
        -- split; [|split].
           ++ unfold wf1. cbn [lru items set_lru]. apply W1_update. exact T1.
           ++ unfold capped. cbn [lru set_lru]. rewrite length_update. exact TC.
           ++ intros H2. contradiction (NG H2).
      * cbn [fst]. split; [|split].
        -- unfold wf1. cbn [lru items set_lru]. apply (W1_remove _ _ k v); [|exact T1].
           cbn [lookup]. rewrite N.eqb_refl. reflexivity.
        -- unfold capped. cbn [lru set_lru].
           pose proof (length_remove_key_le k ((k, v) :: remove_key k (lru s))). lia.
        -- intros H2. contradiction (NG H2).
  - (* key absent: placeholder + number eviction *)
    cbn [lru items bytes ld act set_lru].
    destruct (N.to_nat (cap cfg)) as [|n] eqn:C.
    + (* capacity 0 *)
      cbn [firstn skipn lookup length sum_sized].
      assert (S0 : wf1 (set_lru s [] (items s + 1 - Z.of_nat (S (length (lru s))))
                          (bytes s - (sized_bytes placeholder + sum_sized (lru s)))) /\
                   capped cfg (set_lru s [] (items s + 1 - Z.of_nat (S (length (lru s))))
                          (bytes s - (sized_bytes placeholder + sum_sized (lru s)))) /\
                   (wf2 s -> wf2 (set_lru s [] (items s + 1 - Z.of_nat (S (length (lru s))))
                          (bytes s - (sized_bytes placeholder + sum_sized (lru s)))))).
      { split; [|split].
        - destruct H1 as [_ E]. split; [constructor|]. cbn [lru items set_lru length]. lia.
        - unfold capped. cbn [lru set_lru length]. lia.
        - intros [_ E]. split; [constructor|]. cbn [lru bytes set_lru sum_sized].
          unfold sized_bytes. cbn [placeholder vmem]. lia. }
      destruct (ld s k); cbn [fst]; exact S0.
    + destruct (firstn_skipn_cons n (k, placeholder) (lru s)) as [-> ->].
      cbn [lookup]. rewrite N.eqb_refl. cbn [placeholder vbody vmem].
      assert (LN : lookup k (firstn n (lru s)) = None) by (apply lookup_firstn_none; exact L).
      destruct (ld s k) as [c|e]; cbn [fst].
      * (* successful load: Loading -> Sized, increment, then memory eviction *)
        cbn [update lru items bytes set_lru]. rewrite N.eqb_refl.
        set (v' := mkV (Some c) (csize c) Sized).
        assert (G : good (k, v')) by (split; cbn; [reflexivity | discriminate]).
        assert (SB : sized_bytes v' = Z.of_N (csize c)) by reflexivity.
        assert (A1 : W1 (firstn (S n) ((k, v') :: lru s))
                        (items s + 1 - Z.of_nat (length (skipn (S n) ((k, v') :: lru s))))).
        { apply W1_firstn. apply W1_insert; assumption. }
        cbn [firstn skipn] in A1.
        split; [|split].
        -- apply mem_evict_wf1. unfold wf1. cbn [lru items set_lru]. exact A1.
        -- apply mem_evict_capped. unfold capped. cbn [lru set_lru length].
           pose proof (firstn_le_length n (lru s)). rewrite firstn_length. lia.
        -- intros H2. apply mem_evict_wf2. unfold wf2. cbn [lru bytes set_lru].
           pose proof (W2_firstn (S n) _ _ (W2_insert _ _ k v' G H2)) as A2.
           cbn [firstn skipn] in A2. rewrite SB in A2.
           replace (bytes s - sum_sized (skipn n (lru s)) + Z.of_N (csize c))
             with (bytes s + Z.of_N (csize c) - sum_sized (skipn n (lru s))) by lia.
           exact A2.
      * (* failed load: removeValueForFailedLoad *)
        cbn [remove_key lru items bytes set_lru]. rewrite N.eqb_refl.
        rewrite (remove_key_notin k (firstn n (lru s))) by (apply lookup_none_notin; exact LN).
        split; [|split].
        -- unfold wf1. cbn [lru items set_lru].
           pose proof (W1_firstn n _ _ H1) as A1.
           replace (items s + 1 - Z.of_nat (length (skipn n (lru s))) - 1)
             with (items s - Z.of_nat (length (skipn n (lru s)))) by lia.
           exact A1.
        -- unfold capped. cbn [lru set_lru]. rewrite firstn_length. lia.
        -- intros H2. unfold wf2. cbn [lru bytes set_lru]. apply W2_firstn. exact H2.
Qed.

(* ---------- Put ---------- *)
Lemma put_key_inv cfg k c s :
  wf1 s -> capped cfg s ->
  wf1 (put_key cfg k c s) /\ capped cfg (put_key cfg k c s) /\
  (wf2 s -> put_ok s (Put k c) -> wf2 (put_key cfg k c s)).
Proof.
  intros H1 HC. unfold put_key, get_value.
  destruct (lookup k (lru s)) as [v|] eqn:L.
  - cbn [lru items bytes ld act set_lru lookup]. rewrite N.eqb_refl.
    assert (T1 : W1 ((k, v) :: remove_key k (lru s)) (items s)) by (apply W1_touch; assumption).
    assert (TC : (length ((k, v) :: remove_key k (lru s)) <= N.to_nat (cap cfg))%nat).
    { cbn [length]. rewrite (length_remove_key k (lru s) v (proj1 H1) L). exact HC. }
    assert (U1 : forall v' b, wf1 (set_lru s (update k v' ((k, v) :: remove_key k (lru s))) (items s) b)).
    { intros. unfold wf1. cbn [lru items set_lru]. apply W1_update. exact T1. }
    assert (UC : forall v' b, capped cfg (set_lru s (update k v' ((k, v) :: remove_key k (lru s))) (items s) b)).
    { intros. unfold capped. cbn [lru set_lru]. rewrite length_update. exact TC. }
    assert (U2 : wf2 s -> put_ok s (Put k c) ->
                 vmem v = Sized /\ vbytes v = csize c /\ exists c0, vbody v = Some c0).
    { intros [F _] P. rewrite Forall_forall in F. destruct (F (k, v) (lookup_in_pair _ _ _ L)) as [G1 G2].
      cbn [snd] in *. split; [exact G1|]. split; [apply P; exact L|].
      destruct (vbody v) as [c0|]; [eauto | congruence]. }
    destruct (vmem v) eqn:M.
    + split; [apply mem_evict_wf1, U1 | split; [apply mem_evict_capped, UC|]].
      intros H2 P. destruct (U2 H2 P) as [X _]. discriminate.
    + split; [apply mem_evict_wf1, U1 | split; [apply mem_evict_capped, UC|]].
      intros H2 P. destruct (U2 H2 P) as (_ & SZ & c0 & B).
      apply mem_evict_wf2. unfold wf2. cbn [lru bytes set_lru update]. rewrite N.eqb_refl.
      rewrite B.
      replace (mkV (Some c0) (csize c) Sized) with v
        by (destruct v as [vb vby vm]; cbn in *; subst; reflexivity).
      apply W2_touch; [exact (proj1 H1) | exact L | exact H2].
    + split; [apply mem_evict_wf1, U1 | split; [apply mem_evict_capped, UC|]].
      intros H2 P. destruct (U2 H2 P) as [X _]. discriminate.
  - cbn [lru items bytes ld act set_lru].
    destruct (N.to_nat (cap cfg)) as [|n] eqn:C.
    + cbn [firstn skipn lookup length sum_sized].
      split; [|split].
      * apply mem_evict_wf1. destruct H1 as [_ E]. split; [constructor|]. cbn [lru items set_lru length]. lia.
      * apply mem_evict_capped. unfold capped. cbn [lru set_lru length]. lia.
      * intros [_ E] _. apply mem_evict_wf2. split; [constructor|]. cbn [lru bytes set_lru sum_sized].
        unfold sized_bytes. cbn [placeholder vmem]. lia.
    + destruct (firstn_skipn_cons n (k, placeholder) (lru s)) as [-> ->].
      cbn [lookup]. rewrite N.eqb_refl. cbn [placeholder vbody vmem].
      cbn [update lru items bytes set_lru]. rewrite N.eqb_refl.
      set (v' := mkV (Some c) (csize c) Sized).
      assert (G : good (k, v')) by (split; cbn; [reflexivity | discriminate]).
      assert (SB : sized_bytes v' = Z.of_N (csize c)) by reflexivity.
      assert (A1 : W1 (firstn (S n) ((k, v') :: lru s))
                      (items s + 1 - Z.of_nat (length (skipn (S n) ((k, v') :: lru s))))).
      { apply W1_firstn. apply W1_insert; assumption. }
      cbn [firstn skipn] in A1.
      split; [|split].
      * apply mem_evict_wf1. unfold wf1. cbn [lru items set_lru]. exact A1.
      * apply mem_evict_capped. unfold capped. cbn [lru set_lru length]. rewrite firstn_length. lia.
      * intros H2 _. apply mem_evict_wf2. unfold wf2. cbn [lru bytes set_lru].
        pose proof (W2_firstn (S n) _ _ (W2_insert _ _ k v' G H2)) as A2.
        cbn [firstn skipn] in A2. rewrite SB in A2.
        replace (bytes s - sum_sized (skipn n (lru s)) + Z.of_N (csize c))
          with (bytes s + Z.of_N (csize c) - sum_sized (skipn n (lru s))) by lia.
        exact A2.
Qed.

(* ---------- Upsert ---------- *)
Lemma upsert_key_inv cfg k c s :
  wf1 s -> capped cfg s ->
  wf1 (upsert_key cfg k c s) /\ capped cfg (upsert_key cfg k c s) /\
  (wf2 s -> wf2 (upsert_key cfg k c s)).
Proof.
  intros H1 HC. unfold upsert_key.
  (* the list, item gauge and byte gauge after the old value was unlinked *)
  assert (P : exists l0 i0 b0,
     (match lookup k (lru s) with
      | Some v => (remove_key k (lru s), items s, bytes s - sized_bytes v)
      | None => (lru s, items s + 1, bytes s) end) = (l0, i0, b0) /\
     W1 l0 (i0 - 1) /\ lookup k l0 = None /\ (length l0 <= N.to_nat (cap cfg))%nat /\
     (wf2 s -> W2 l0 b0)).
  { destruct (lookup k (lru s)) as [v|] eqn:L.
    - exists (remove_key k (lru s)), (items s), (bytes s - sized_bytes v).
      split; [reflexivity|]. split; [apply (W1_remove _ _ k v); assumption|].
      split; [apply lookup_remove_same|]. split.
      + pose proof (length_remove_key_le k (lru s)). unfold capped in HC. lia.
      + intros H2. apply (W2_remove _ _ k v); [exact (proj1 H1) | exact L | exact H2].
    - exists (lru s), (items s + 1), (bytes s). split; [reflexivity|].
      split; [replace (items s + 1 - 1) with (items s) by lia; exact H1|].
      split; [exact L|]. split; [exact HC|]. auto. }
  destruct P as (l0 & i0 & b0 & -> & A1 & LN & AC & A2).
  destruct (N.to_nat (cap cfg)) as [|n] eqn:C.
  - cbn [firstn skipn lookup length sum_sized].
    split; [|split].
    + apply mem_evict_wf1. destruct A1 as [_ E]. split; [constructor|]. cbn [lru items set_lru length]. lia.
    + apply mem_evict_capped. unfold capped. cbn [lru set_lru length]. lia.
    + intros H2. destruct (A2 H2) as [_ E]. apply mem_evict_wf2. split; [constructor|].
      cbn [lru bytes set_lru sum_sized]. unfold sized_bytes. cbn [placeholder vmem]. lia.
  - destruct (firstn_skipn_cons n (k, placeholder) l0) as [-> ->].
    cbn [lookup]. rewrite N.eqb_refl.
    cbn [update lru items bytes set_lru]. rewrite N.eqb_refl.
    set (v' := mkV (Some c) (csize c) Sized).
    assert (G : good (k, v')) by (split; cbn; [reflexivity | discriminate]).
    assert (SB : sized_bytes v' = Z.of_N (csize c)) by reflexivity.
    assert (B1 : W1 (firstn (S n) ((k, v') :: l0))
                    (i0 - 1 + 1 - Z.of_nat (length (skipn (S n) ((k, v') :: l0))))).
    { apply W1_firstn. apply W1_insert; assumption. }
    cbn [firstn skipn] in B1.
    split; [|split].
    + apply mem_evict_wf1. unfold wf1. cbn [lru items set_lru].
      replace (i0 - Z.of_nat (length (skipn n l0))) with (i0 - 1 + 1 - Z.of_nat (length (skipn n l0))) by lia.
      exact B1.
    + apply mem_evict_capped. unfold capped. cbn [lru set_lru length]. rewrite firstn_length. lia.
    + intros H2. apply mem_evict_wf2. unfold wf2. cbn [lru bytes set_lru].
      pose proof (W2_firstn (S n) _ _ (W2_insert _ _ k v' G (A2 H2))) as B2.
      cbn [firstn skipn] in B2. rewrite SB in B2.
      replace (b0 - sum_sized (skipn n l0) + Z.of_N (csize c))
        with (b0 + Z.of_N (csize c) - sum_sized (skipn n l0)) by lia.
      exact B2.
Qed.

Lemma remove_op_inv cfg k s :
  wf1 s -> capped cfg s ->
  wf1 (remove_op k s) /\ capped cfg (remove_op k s) /\ (wf2 s -> wf2 (remove_op k s)).
Proof.
  intros H1 HC. unfold remove_op. destruct (lookup k (lru s)) as [v|] eqn:L; [|auto].
  split; [|split].
  - unfold wf1. cbn [lru items set_lru]. apply (W1_remove _ _ k v); assumption.
  - unfold capped. cbn [lru set_lru]. pose proof (length_remove_key_le k (lru s)). unfold capped in HC. lia.
  - intros H2. unfold wf2. cbn [lru bytes set_lru]. apply (W2_remove _ _ k v); [exact (proj1 H1) | exact L | exact H2].
Qed.

Lemma peek_op_inv cfg k s :
  wf1 s -> capped cfg s ->
  wf1 (fst (peek_op k s)) /\ capped cfg (fst (peek_op k s)) /\ (wf2 s -> wf2 (fst (peek_op k s))).
Proof.
  intros H1 HC. unfold peek_op. destruct (lookup k (lru s)) as [v|] eqn:L; cbn [fst]; [|auto].
  split; [|split].
  - unfold wf1. cbn [lru items set_lru]. apply W1_touch; assumption.
  - unfold capped. cbn [lru set_lru length]. rewrite (length_remove_key k (lru s) v (proj1 H1) L). exact HC.
  - intros H2. unfold wf2. cbn [lru bytes set_lru]. apply W2_touch; [exact (proj1 H1) | exact L | exact H2].
Qed.

Lemma step_inv cfg s o :
  wf1 s -> capped cfg s ->
  wf1 (fst (step cfg s o)) /\ capped cfg (fst (step cfg s o)) /\
  (wf2 s -> put_ok s o -> wf2 (fst (step cfg s o))).
Proof.
  intros H1 HC. destruct o as [k|d|k c|k c|k|k|k r|d a]; cbn [step].
  - destruct (get_key_inv cfg k s H1 HC) as (A & B & C). auto.
  - destruct (act s d) as [k| |e]; cbn [fst]; auto.
    destruct (get_key_inv cfg k s H1 HC) as (A & B & C). auto.
  - cbn [fst]. apply put_key_inv; assumption.
  - cbn [fst]. destruct (upsert_key_inv cfg k c s H1 HC) as (A & B & C). auto.
  - cbn [fst]. destruct (remove_op_inv cfg k s H1 HC) as (A & B & C). auto.
  - destruct (peek_op_inv cfg k s H1 HC) as (A & B & C). auto.
  - cbn [fst]. auto.
  - cbn [fst]. auto.
Qed.

(* ---------- whole runs ---------- *)
Fixpoint puts_ok (cfg : config) (s : state) (ops : list op) : Prop :=
  match ops with
  | [] => True
  | o :: r => put_ok s o /\ puts_ok cfg (fst (step cfg s o)) r
  end.

Lemma init_inv cfg l a : wf1 (init l a) /\ capped cfg (init l a) /\ wf2 (init l a).
Proof.
  unfold init, wf1, wf2, capped, W1, W2. cbn [lru items bytes length keys map sum_sized].
  repeat split; try constructor. lia.
Qed.

Lemma run_inv1 cfg ops : forall s, wf1 s -> capped cfg s -> wf1 (run cfg s ops) /\ capped cfg (run cfg s ops).
Proof.
  induction ops as [|o r IH]; intros s H1 HC; cbn [run]; [auto|].
  destruct (step_inv cfg s o H1 HC) as (A & B & _). apply IH; assumption.
Qed.

Lemma run_inv2 cfg ops : forall s, wf1 s -> capped cfg s -> wf2 s -> puts_ok cfg s ops -> wf2 (run cfg s ops).
Proof.
  induction ops as [|o r IH]; intros s H1 HC H2 P; cbn [run]; [auto|].
  destruct P as [P0 P]. destruct (step_inv cfg s o H1 HC) as (A & B & C). apply IH; auto.
Qed.

(* ---------- statically checkable sufficient condition: the size is a function of the key ---------- *)
Section SizeByKey.
  Variable ksize : key -> N.

  Definition op_sized (o : op) : Prop :=
    match o with
    | Put k c | Upsert k c => csize c = ksize k
    | SetLoad k (LOk c) => csize c = ksize k
    | _ => True
    end.

  Definition ld_sized (s : state) : Prop := forall k c, ld s k = LOk c -> csize c = ksize k.
  Definition vals_sized (s : state) : Prop := Forall (fun kv => vbytes (snd kv) = ksize (fst kv)) (lru s).

  Lemma vals_sized_lookup s k v : vals_sized s -> lookup k (lru s) = Some v -> vbytes v = ksize k.
  Proof.
    unfold vals_sized. rewrite Forall_forall. intros F L. apply (F (k, v)). apply lookup_in_pair. exact L.
  Qed.

  Lemma vals_sized_mem_evict cfg s : vals_sized s -> vals_sized (mem_evict cfg s).
  Proof.
    unfold vals_sized. intros F. destruct (mem_evict_spec cfg s) as (ev & L & _).
    rewrite L in F. apply Forall_app in F. tauto.
  Qed.

  Lemma vals_sized_touch l k v :
    lookup k l = Some v -> Forall (fun kv : key * value => vbytes (snd kv) = ksize (fst kv)) l ->
    Forall (fun kv : key * value => vbytes (snd kv) = ksize (fst kv)) ((k, v) :: remove_key k l).
  Proof.
    intros L F. constructor; [|apply Forall_remove_key; exact F].
    rewrite Forall_forall in F. apply (F (k, v)). apply lookup_in_pair. exact L.
  Qed.

  Lemma Forall_firstn {A} (P : A -> Prop) n l : Forall P l -> Forall P (firstn n l).
  Proof. intros F. rewrite <- (firstn_skipn n l) in F. apply Forall_app in F. tauto. Qed.

  Lemma Forall_update_key (P : key * value -> Prop) k v l :
    Forall P l -> P (k, v) -> Forall P (update k v l).
  Proof.
    intros F Pv. induction l as [|[k' v'] r IH]; cbn [update]; [constructor|].
    inversion F; subst. destruct (N.eqb_spec k k'); [subst; constructor; auto | constructor; auto].
  Qed.

  Lemma get_key_sized cfg k s : ld_sized s -> vals_sized s ->
    ld_sized (fst (get_key cfg k s)) /\ vals_sized (fst (get_key cfg k s)).
  Proof.
    intros HL HV. unfold get_key, get_value.
    set (P := fun kv : key * value => vbytes (snd kv) = ksize (fst kv)).
    destruct (lookup k (lru s)) as [v|] eqn:L.
    - cbn [lru items bytes ld act set_lru lookup]. rewrite N.eqb_refl.
      assert (T : Forall P ((k, v) :: remove_key k (lru s))) by (apply vals_sized_touch; assumption).
      destruct (vbody v); [cbn [fst]; split; [exact HL | exact T]|].
      destruct (ld s k) as [c|e] eqn:E.
      + assert (Pc : forall m, P (k, mkV (Some c) (csize c) m)) by (intros; unfold P; cbn; apply HL; exact E).
        destruct (vmem v); cbn [fst].
        * match goal with |- ld_sized (mem_evict cfg ?x) /\ _ =>
            destruct (mem_evict_spec cfg x) as (ev & _ & _ & _ & LD & _) end.
          split; [unfold ld_sized; rewrite LD; exact HL|].
          apply vals_sized_mem_evict. unfold vals_sized. cbn [lru set_lru].
          apply Forall_update_key; [exact T | apply Pc].
        * split; [exact HL|]. unfold vals_sized. cbn [lru set_lru]. apply Forall_update_key; [exact T | apply Pc].
        * split; [exact HL|]. unfold vals_sized. cbn [lru set_lru]. apply Forall_update_key; [exact T | apply Pc].
      + cbn [fst]. split; [exact HL|]. unfold vals_sized. cbn [lru set_lru]. apply Forall_remove_key. exact T.
    - cbn [lru items bytes ld act set_lru].
      assert (K : Forall P (firstn (N.to_nat (cap cfg)) ((k, placeholder) :: lru s)) \/ True) by (right; exact I).
      clear K.
      destruct (N.to_nat (cap cfg)) as [|n] eqn:C.
      + cbn [firstn skipn lookup]. destruct (ld s k); cbn [fst]; (split; [exact HL | constructor]).
      + destruct (firstn_skipn_cons n (k, placeholder) (lru s)) as [-> ->].
        cbn [lookup]. rewrite N.eqb_refl. cbn [placeholder vbody vmem].
        assert (F : Forall P (firstn n (lru s))) by (apply Forall_firstn; exact HV).
        destruct (ld s k) as [c|e] eqn:E; cbn [fst].
        * cbn [update lru items bytes set_lru]. rewrite N.eqb_refl.
          match goal with |- ld_sized (mem_evict cfg ?x) /\ _ =>
            destruct (mem_evict_spec cfg x) as (ev & _ & _ & _ & LD & _) end.
          split; [unfold ld_sized; rewrite LD; exact HL|].
          apply vals_sized_mem_evict. unfold vals_sized. cbn [lru set_lru].
          constructor; [|exact F]. cbn. apply HL. exact E.
        * cbn [remove_key lru set_lru]. rewrite N.eqb_refl.
          split; [exact HL|]. unfold vals_sized. cbn [lru set_lru]. apply Forall_remove_key. exact F.
  Qed.

  Lemma step_sized cfg s o : op_sized o -> ld_sized s -> vals_sized s ->
    ld_sized (fst (step cfg s o)) /\ vals_sized (fst (step cfg s o)).
  Proof.
    intros HO HL HV.
    set (P := fun kv : key * value => vbytes (snd kv) = ksize (fst kv)).
    destruct o as [k|d|k c|k c|k|k|k r|d a]; cbn [step].
    - apply get_key_sized; assumption.
    - destruct (act s d); cbn [fst]; auto. apply get_key_sized; assumption.
    - cbn [fst op_sized] in *. unfold put_key, get_value.
      destruct (lookup k (lru s)) as [v|] eqn:L.
      + cbn [lru items bytes ld act set_lru lookup]. rewrite N.eqb_refl.
        assert (T : Forall P ((k, v) :: remove_key k (lru s))) by (apply vals_sized_touch; assumption).
        assert (Pc : forall b m, P (k, mkV b (csize c) m)) by (intros; unfold P; cbn; exact HO).
        destruct (vmem v);
          match goal with |- ld_sized (mem_evict cfg ?x) /\ _ =>
            destruct (mem_evict_spec cfg x) as (ev & _ & _ & _ & LD & _) end;
          (split; [unfold ld_sized; rewrite LD; exact HL|]);
          apply vals_sized_mem_evict; unfold vals_sized; cbn [lru set_lru];
          (apply Forall_update_key; [exact T | apply Pc]).
      + cbn [lru items bytes ld act set_lru].
        destruct (N.to_nat (cap cfg)) as [|n] eqn:C.
        * cbn [firstn skipn lookup].
          match goal with |- ld_sized (mem_evict cfg ?x) /\ _ =>
            destruct (mem_evict_spec cfg x) as (ev & _ & _ & _ & LD & _) end.
          split; [unfold ld_sized; rewrite LD; exact HL|].
          apply vals_sized_mem_evict. constructor.
        * destruct (firstn_skipn_cons n (k, placeholder) (lru s)) as [-> ->].
          cbn [lookup]. rewrite N.eqb_refl. cbn [placeholder vbody vmem].
          cbn [update lru items bytes set_lru]. rewrite N.eqb_refl.
          match goal with |- ld_sized (mem_evict cfg ?x) /\ _ =>
            destruct (mem_evict_spec cfg x) as (ev & _ & _ & _ & LD & _) end.
          split; [unfold ld_sized; rewrite LD; exact HL|].
          apply vals_sized_mem_evict. unfold vals_sized. cbn [lru set_lru].
          constructor; [cbn; exact HO | apply Forall_firstn; exact HV].
    - cbn [fst op_sized] in *. unfold upsert_key.
      assert (Q : exists l0 i0 b0,
         (match lookup k (lru s) with
          | Some v => (remove_key k (lru s), items s, bytes s - sized_bytes v)
          | None => (lru s, items s + 1, bytes s) end) = (l0, i0, b0) /\ Forall P l0).
      { destruct (lookup k (lru s)); eexists _, _, _; (split; [reflexivity|]);
          [apply Forall_remove_key; exact HV | exact HV]. }
      destruct Q as (l0 & i0 & b0 & -> & F0).
      destruct (N.to_nat (cap cfg)) as [|n] eqn:C.
      + cbn [firstn skipn lookup].
        match goal with |- ld_sized (mem_evict cfg ?x) /\ _ =>
          destruct (mem_evict_spec cfg x) as (ev & _ & _ & _ & LD & _) end.
        split; [unfold ld_sized; rewrite LD; exact HL|].
        apply vals_sized_mem_evict. constructor.
      + destruct (firstn_skipn_cons n (k, placeholder) l0) as [-> ->].
        cbn [lookup]. rewrite N.eqb_refl.
        cbn [update lru items bytes set_lru]. rewrite N.eqb_refl.
        match goal with |- ld_sized (mem_evict cfg ?x) /\ _ =>
          destruct (mem_evict_spec cfg x) as (ev & _ & _ & _ & LD & _) end.
        split; [unfold ld_sized; rewrite LD; exact HL|].
        apply vals_sized_mem_evict. unfold vals_sized. cbn [lru set_lru].
        constructor; [cbn; exact HO | apply Forall_firstn; exact F0].
    - cbn [fst]. unfold remove_op. destruct (lookup k (lru s)); [|auto].
      split; [exact HL|]. unfold vals_sized. cbn [lru set_lru]. apply Forall_remove_key. exact HV.
    - unfold peek_op. destruct (lookup k (lru s)) as [v|] eqn:L; cbn [fst]; [|auto].
      split; [exact HL|]. unfold vals_sized. cbn [lru set_lru]. apply vals_sized_touch; assumption.
    - cbn [fst]. split; [|exact HV]. unfold ld_sized. cbn [ld]. intros k' c'.
      destruct (N.eqb_spec k' k) as [E|E]; [|apply HL].
      intros R. subst. cbn [op_sized] in HO. exact HO.
    - cbn [fst]. split; [exact HL | exact HV].
  Qed.

  Lemma sized_puts_ok cfg ops : forall s,
    Forall op_sized ops -> ld_sized s -> vals_sized s -> puts_ok cfg s ops.
  Proof.
    induction ops as [|o r IH]; intros s FO HL HV; cbn [puts_ok]; [exact I|].
    inversion FO as [|? ? O1 O2]; subst. split.
    - destruct o; cbn [put_ok]; try exact I. intros v L.
      rewrite (vals_sized_lookup s k v HV L). cbn [op_sized] in O1. congruence.
    - destruct (step_sized cfg s o O1 HL HV) as [A B]. apply IH; assumption.
  Qed.
End SizeByKey.
