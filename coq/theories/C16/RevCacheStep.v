(* C16 -- the interleaving model of RevCacheConc.v, refined with what the step-level correspondence and the
   single-flight / sharing theorems need.  The accounting part is NOT re-modelled: an [estate] carries the
   abstract [cstate] unchanged ([eb]) and every [eact] executes a list of abstract actions ([eproj]) on it
   through [crun]; the extra components are updated next to it.  Hence every run of this model projects onto a
   run of the abstract model (RevCacheStepProofs.erun_projects) and all invariants of RevCacheConcProofs /
   RevCacheConcRest hold of [eb].

   Added state
     eld          the backing store (what revCacheLoader / revCacheLoaderForCv return for a key now)
     econt i      body or error held by revCacheValue i (bodyBytes / err)
     elock i      the goroutine that is inside value.load with value.lock held, loading value i
     enl i        number of backing-store loads performed for value i          (single flight: always <= 1)
     elres i      outcome of that load
     est i        a Put / Upsert stored its revision into value i (value.store found bodyBytes == nil)
     eput t       the revision carried by the Put / Upsert goroutine t is executing
     eflag t      Get's third result (the CAS Loading->Sized succeeded and the increment was made)
     elog         one entry per value.load executed by a Get: goroutine, value, result, cache hit?
     ehold        LRURevisionCache.lock is held from outside (the harness parks removeValueForFailedLoad
                  between its Swap and its unlink that way)
     edl/edn/edb  the delta cache sharing the memory controller: cached deltas with their totalDeltaBytes,
                  DeltaCacheNumItems, and the delta cache's share of the byte counter
                  (the counter the code holds is gb (eb s) + edb s, see RevCacheDelta.v)

   value.load is split at the lock: [ELoadBegin] takes value.lock and decides hit / miss -- a hit returns
   at once, a miss keeps the lock ([elock]) --, [ELoadEnd] is the loader returning: fields written,
   itemBytes stored, lock released.  While [elock i] is set, every other value.load on i and every
   value.store on i is disabled: that is "a second Get of the same key waits".
   The abstract ALoad (one atomic step) is executed at ELoadEnd for a miss and at ELoadBegin for a hit.

   Sizes: as in RevCacheConc.v the size of a revision is a function of its key ([ksize]); EPut / EUpsert /
   ELoadEnd are defined only for revisions of that size (hypothesis size-by-key of the byte theorems). *)
From SG Require Import Base.Prelude C16.RevCache C16.RevCacheConc C16.RevCacheDelta.
Open Scope Z_scope.

Inductive lbl := LGCas | LGInc | LGFailMark | LGFailUnlink | LPBytes | LPCas | LPInc | LPStore.

Definition lbl_eqb (a b : lbl) : bool :=
  match a, b with
  | LGCas, LGCas | LGInc, LGInc | LGFailMark, LGFailMark | LGFailUnlink, LGFailUnlink
  | LPBytes, LPBytes | LPCas, LPCas | LPInc, LPInc | LPStore, LPStore => true
  | _, _ => false
  end.

Definition pc_lbl (p : pc) : option lbl :=
  match p with
  | Idle | GLoad _ _ => None
  | GCas _ _ => Some LGCas | GInc _ _ => Some LGInc
  | GFailMark _ _ => Some LGFailMark | GFailUnlink _ _ => Some LGFailUnlink
  | PBytes _ _ => Some LPBytes | PCas _ _ => Some LPCas | PInc _ _ => Some LPInc | PStore _ _ => Some LPStore
  end.

Definition pc_val (p : pc) : option nat :=
  match p with
  | Idle => None
  | GLoad i _ | GCas i _ | GInc i _ | GFailMark i _ | GFailUnlink i _
  | PBytes i _ | PCas i _ | PInc i _ | PStore i _ => Some i
  end.

Record gent := mkGE { ge_thr : nat; ge_val : nat; ge_res : lres; ge_hit : bool }.

Record estate := mkE {
  eb : cstate;
  eld : key -> lres;
  econt : nat -> option lres;
  elock : nat -> option nat;
  enl : nat -> nat;
  elres : nat -> option lres;
  est : nat -> bool;
  eput : nat -> option content;
  eflag : nat -> bool;
  elog : list gent;            (* newest first *)
  ehold : bool;
  edl : list (dkey * N);
  edn : Z;
  edb : Z
}.

Inductive eact :=
| EGet (t : nat) (k : key)                    (* Get: getValue(create) *)
| ELoadBegin (t : nat)                        (* value.load: lock taken; hit -> result, miss -> lock kept *)
| ELoadEnd (t : nat)                          (* the loader returns *)
| EPut (t : nat) (k : key) (c : content)      (* Put: getValue(create) *)
| EUpsert (t : nat) (k : key) (c : content)   (* Upsert: upsertDocToCache (old value Removed + unlinked, new placeholder) *)
| EStep (t : nat) (l : lbl)                   (* the next atomic step of goroutine t, which must be l *)
| ERemove (k : key)                           (* Remove *)
| EEvict (k : key)                            (* _numberCapacityEviction / evictLRUTail reaching the value cached under k *)
| ESetLoad (k : key) (r : lres)               (* storage changes *)
| EHold (b : bool)                            (* LRURevisionCache.lock taken / released from outside *)
| EDelta (dk : dkey) (sz : N)                 (* LRUDeltaCache.addDelta (insert, or touch when present) *)
| EDeltaEvict (dk : dkey).                    (* a delta evicted (by count or by the shared byte limit) *)

Fixpoint find_from (k : key) (i : nat) (h : list cval) : option nat :=
  match h with
  | [] => None
  | v :: r => if cin v && N.eqb (ck v) k then Some i else find_from k (S i) r
  end.
Definition find_cached (k : key) (h : list cval) : option nat := find_from k 0 h.

Definition fupd {A} (f : nat -> A) (i : nat) (x : A) : nat -> A := fun j => if Nat.eqb j i then x else f j.

Definition lres_ok (r : lres) : bool := match r with LOk _ => true | LErr _ => false end.

Section Step.
  Variable ksize : key -> N.

  Definition size_ok (k : key) (r : lres) : bool :=
    match r with LOk c => N.eqb (csize c) (ksize k) | LErr _ => true end.

  Definition thr_pc (s : estate) (t : nat) : option pc := nth_error (thr (eb s)) t.

  Definition val_at (s : estate) (i : nat) : option cval := nth_error (heap (eb s)) i.

  Definition is_loaded (s : estate) (i : nat) : bool :=
    match val_at s i with Some v => cloaded v || cerr v | None => false end.

  (* the abstract actions an action executes *)
  Definition eproj (s : estate) (a : eact) : list cact :=
    match a with
    | EGet t k => [AGet t k (find_cached k (heap (eb s)))]
    | ELoadBegin t =>
        match thr_pc s t with
        | Some (GLoad i _) => if is_loaded s i then [ALoad t true] else []
        | _ => []
        end
    | ELoadEnd t =>
        match thr_pc s t with
        | Some (GLoad _ k) => [ALoad t (lres_ok (eld s k))]
        | _ => []
        end
    | EPut t k _ => [APut t k (find_cached k (heap (eb s)))]
    | EUpsert t k _ =>
        match find_cached k (heap (eb s)) with
        | Some i => [AEvict i; APut t k None]
        | None => [APut t k None]
        end
    | EStep t _ => [AStep t]
    | ERemove k => match find_cached k (heap (eb s)) with Some i => [AEvict i] | None => [] end
    | EEvict k => match find_cached k (heap (eb s)) with Some i => [AEvict i] | None => [] end
    | ESetLoad _ _ | EHold _ | EDelta _ _ | EDeltaEvict _ => []
    end.

  (* when an action is enabled (beyond what the abstract steps require) *)
  Definition eguard (s : estate) (a : eact) : bool :=
    match a with
    | EGet _ _ => negb (ehold s)
    | ELoadBegin t =>
        match thr_pc s t with
        | Some (GLoad i _) => match elock s i with None => true | Some _ => false end
        | _ => false
        end
    | ELoadEnd t =>
        match thr_pc s t with
        | Some (GLoad i k) =>
            match elock s i with Some t' => Nat.eqb t' t && size_ok k (eld s k) | None => false end
        | _ => false
        end
    | EPut _ k c | EUpsert _ k c => negb (ehold s) && N.eqb (csize c) (ksize k)
    | EStep t l =>
        match thr_pc s t with
        | Some p =>
            match pc_lbl p with
            | Some l' =>
                lbl_eqb l l' &&
                match l, pc_val p with
                | LPStore, Some i =>
                    match elock s i, eput s t with None, Some _ => true | _, _ => false end
                | LGFailUnlink, _ => negb (ehold s)
                | _, _ => true
                end
            | None => false
            end
        | None => false
        end
    | ERemove _ => negb (ehold s)
    | EEvict k => negb (ehold s) && match find_cached k (heap (eb s)) with Some _ => true | None => false end
    | ESetLoad _ _ | EHold _ | EDelta _ _ => true
    | EDeltaEvict dk => match dlookup dk (edl s) with Some _ => true | None => false end
    end.

  Definition set_b (s : estate) (b : cstate) : estate :=
    mkE b (eld s) (econt s) (elock s) (enl s) (elres s) (est s) (eput s) (eflag s) (elog s) (ehold s)
        (edl s) (edn s) (edb s).

  (* the extra components after the abstract steps were made ([b] = the new abstract state) *)
  Definition epost (s : estate) (a : eact) (b : cstate) : estate :=
    match a with
    | EGet t _ =>
        mkE b (eld s) (econt s) (elock s) (enl s) (elres s) (est s) (eput s) (fupd (eflag s) t false) (elog s)
            (ehold s) (edl s) (edn s) (edb s)
    | ELoadBegin t =>
        match thr_pc s t with
        | Some (GLoad i _) =>
            if is_loaded s i
            then mkE b (eld s) (econt s) (elock s) (enl s) (elres s) (est s) (eput s) (eflag s)
                     (mkGE t i (match econt s i with Some r => r | None => LErr 0 end) true :: elog s)
                     (ehold s) (edl s) (edn s) (edb s)
            else mkE b (eld s) (econt s) (fupd (elock s) i (Some t)) (enl s) (elres s) (est s) (eput s) (eflag s)
                     (elog s) (ehold s) (edl s) (edn s) (edb s)
        | _ => set_b s b
        end
    | ELoadEnd t =>
        match thr_pc s t with
        | Some (GLoad i k) =>
            let r := eld s k in
            mkE b (eld s) (fupd (econt s) i (Some r)) (fupd (elock s) i None) (fupd (enl s) i (S (enl s i)))
                (fupd (elres s) i (Some r)) (est s) (eput s) (eflag s) (mkGE t i r false :: elog s)
                (ehold s) (edl s) (edn s) (edb s)
        | _ => set_b s b
        end
    | EPut t _ c | EUpsert t _ c =>
        mkE b (eld s) (econt s) (elock s) (enl s) (elres s) (est s) (fupd (eput s) t (Some c)) (eflag s) (elog s)
            (ehold s) (edl s) (edn s) (edb s)
    | EStep t l =>
        match l, thr_pc s t with
        | LPStore, Some (PStore i _) =>
            match val_at s i, eput s t with
            | Some v, Some c =>
                if cloaded v then set_b s b
                else mkE b (eld s) (fupd (econt s) i (Some (LOk c))) (elock s) (enl s) (elres s)
                         (fupd (est s) i true) (eput s) (eflag s) (elog s) (ehold s) (edl s) (edn s) (edb s)
            | _, _ => set_b s b
            end
        | LGInc, _ =>
            mkE b (eld s) (econt s) (elock s) (enl s) (elres s) (est s) (eput s) (fupd (eflag s) t true) (elog s)
                (ehold s) (edl s) (edn s) (edb s)
        | _, _ => set_b s b
        end
    | ERemove _ | EEvict _ => set_b s b
    | ESetLoad k r =>
        mkE b (fun k' => if N.eqb k' k then r else eld s k') (econt s) (elock s) (enl s) (elres s) (est s)
            (eput s) (eflag s) (elog s) (ehold s) (edl s) (edn s) (edb s)
    | EHold h =>
        mkE b (eld s) (econt s) (elock s) (enl s) (elres s) (est s) (eput s) (eflag s) (elog s) h
            (edl s) (edn s) (edb s)
    | EDelta dk sz =>
        match dlookup dk (edl s) with
        | Some _ => set_b s b
        | None =>
            mkE b (eld s) (econt s) (elock s) (enl s) (elres s) (est s) (eput s) (eflag s) (elog s) (ehold s)
                ((dk, sz) :: edl s) (edn s + 1) (edb s + Z.of_N sz)
        end
    | EDeltaEvict dk =>
        match dlookup dk (edl s) with
        | Some n =>
            mkE b (eld s) (econt s) (elock s) (enl s) (elres s) (est s) (eput s) (eflag s) (elog s) (ehold s)
                (dremove dk (edl s)) (edn s - 1) (edb s - Z.of_N n)
        | None => set_b s b
        end
    end.

  Definition estep (s : estate) (a : eact) : option estate :=
    if eguard s a then
      match crun ksize true (eb s) (eproj s a) with
      | Some b => Some (epost s a b)
      | None => None
      end
    else None.

  Fixpoint erun (s : estate) (acts : list eact) : option estate :=
    match acts with
    | [] => Some s
    | a :: r => match estep s a with Some s' => erun s' r | None => None end
    end.

  Definition einit (n : nat) (l : key -> lres) : estate :=
    mkE (cinit n) l (fun _ => None) (fun _ => None) (fun _ => O) (fun _ => None) (fun _ => false)
        (fun _ => None) (fun _ => false) [] false [] 0 0.

  (* the byte counter the code holds: revision share + delta share *)
  Definition etotal (s : estate) : Z := gb (eb s) + edb s.

  (* all abstract actions of a run, in order *)
  Fixpoint eproj_run (s : estate) (acts : list eact) : list cact :=
    match acts with
    | [] => []
    | a :: r => eproj s a ++ match estep s a with Some s' => eproj_run s' r | None => [] end
    end.
End Step.
