(* C16 -- the accounting invariant of the interleaving model holds after EVERY schedule (repaired marking step) *)
From SG Require Import Base.Prelude C16.RevCache C16.RevCacheConc.
Open Scope Z_scope.

(* ---------- list update lemmas ---------- *)
Lemma nth_error_upd_same {A} (l : list A) : forall i x y, nth_error l i = Some y -> nth_error (upd i x l) i = Some x.
Proof.
  induction l as [|a r IH]; intros [|i] x y H; cbn in *; try discriminate; [reflexivity | eauto].
Qed.

Lemma nth_error_upd_other {A} (l : list A) : forall i j x, i <> j -> nth_error (upd i x l) j = nth_error l j.
Proof.
  induction l as [|a r IH]; intros [|i] [|j] x H; cbn; try reflexivity; try congruence.
  apply IH. congruence.
Qed.

Lemma upd_same_id {A} (l : list A) : forall i y, nth_error l i = Some y -> upd i y l = l.
Proof.
  induction l as [|a r IH]; intros [|i] y H; cbn in *; try discriminate.
  - congruence.
  - f_equal. auto.
Qed.

Lemma sumf_cons {A} (g : A -> Z) (x : A) (l : list A) : sumf g (x :: l) = g x + sumf g l.
Proof. reflexivity. Qed.

Lemma sumf_upd {A} (g : A -> Z) (l : list A) : forall i x y,
  nth_error l i = Some y -> sumf g (upd i x l) = sumf g l - g y + g x.
Proof.
  induction l as [|a r IH]; intros [|i] x y H; cbn [nth_error upd] in *; try discriminate.
  - inversion H; subst. rewrite !sumf_cons. lia.
  - rewrite !sumf_cons. rewrite (IH i x y H). lia.
Qed.

Lemma sumf_app {A} (g : A -> Z) (a b : list A) : sumf g (a ++ b) = sumf g a + sumf g b.
Proof.
  induction a as [|x r IH]; cbn [app]; [reflexivity|]. rewrite !sumf_cons, IH. lia.
Qed.

Lemma Forall_upd {A} (P : A -> Prop) (l : list A) : forall i x, Forall P l -> P x -> Forall P (upd i x l).
Proof.
  induction l as [|a r IH]; intros [|i] x F Px; cbn; inversion F; subst; constructor; auto.
Qed.

Lemma Forall_nth_error {A} (P : A -> Prop) (l : list A) i x : Forall P l -> nth_error l i = Some x -> P x.
Proof. intros F H. rewrite Forall_forall in F. apply F. eapply nth_error_In. exact H. Qed.

Lemma sumf_zero {A} (g : A -> Z) (l : list A) : Forall (fun x => g x = 0) l -> sumf g l = 0.
Proof. induction 1 as [|x r Hx F IH]; [reflexivity|]. rewrite sumf_cons. lia. Qed.

Section Proofs.
  Variable ksize : key -> N.

  Definition base (v : cval) : Z := if mem_is_sized (cm v) then Z.of_N (ksize (ck v)) else 0.
  Definition owes (p : pc) : Z := match p with GInc _ k | PInc _ k => Z.of_N (ksize k) | _ => 0 end.
  Definition inone (v : cval) : Z := if cin v then 1 else 0.
  Definition bset (v : cval) : Prop := cby v = ksize (ck v).

  (* per value: an accounted value carries its size; a value that is not Removed is still in the cache *)
  Definition vok (v : cval) : Prop := (cm v = Sized -> bset v) /\ (cm v <> Removed -> cin v = true).

  Definition holds (p : pc) : option (nat * key) :=
    match p with
    | Idle => None
    | GLoad i k | GCas i k | GInc i k | GFailMark i k | GFailUnlink i k
    | PBytes i k | PCas i k | PInc i k | PStore i k => Some (i, k)
    end.
  Definition needs_bset (p : pc) : bool :=
    match p with GCas _ _ | GInc _ _ | PCas _ _ | PInc _ _ => true | _ => false end.
  Definition needs_rem (p : pc) : bool := match p with GFailUnlink _ _ => true | _ => false end.

  (* per goroutine: the value it holds exists, has the key it asked for, has its size stored when the
     goroutine is about to CAS / increment, and is Removed when the goroutine is about to unlink it *)
  Definition tok (h : list cval) (p : pc) : Prop :=
    match holds p with
    | None => True
    | Some (i, k) => exists v, nth_error h i = Some v /\ ck v = k /\
                               (needs_bset p = true -> bset v) /\ (needs_rem p = true -> cm v = Removed)
    end.

  Record Inv (s : cstate) : Prop := mkInv {
    inv_acc : gb s = sumf base (heap s) - sumf owes (thr s);
    inv_items : gi s = sumf inone (heap s);
    inv_vals : Forall vok (heap s);
    inv_thr : Forall (tok (heap s)) (thr s)
  }.

  (* heap entries only move forward *)
  Definition vle (v v' : cval) : Prop :=
    ck v' = ck v /\ (bset v -> bset v') /\ (cm v = Removed -> cm v' = Removed).
  Definition hext (h h' : list cval) : Prop :=
    forall i v, nth_error h i = Some v -> exists v', nth_error h' i = Some v' /\ vle v v'.

  Lemma vle_refl v : vle v v.
  Proof. repeat split; auto. Qed.

  Lemma hext_upd h i v v' : nth_error h i = Some v -> vle v v' -> hext h (upd i v' h).
  Proof.
    intros H L j w Hj. destruct (Nat.eq_dec i j) as [E|E].
    - subst. rewrite H in Hj. inversion Hj; subst. exists v'. split; [eapply nth_error_upd_same; eauto | exact L].
    - exists w. split; [rewrite nth_error_upd_other by exact E; exact Hj | apply vle_refl].
  Qed.

  Lemma hext_app h x : hext h (h ++ [x]).
  Proof.
    intros j w Hj. exists w. split; [|apply vle_refl].
    rewrite nth_error_app1; [exact Hj|]. apply nth_error_Some. congruence.
  Qed.

  Lemma tok_mono h h' p : hext h h' -> tok h p -> tok h' p.
  Proof.
    unfold tok. intros E. destruct (holds p) as [[i k]|]; [|auto].
    intros (v & H & K & B & R). destruct (E i v H) as (v' & H' & K' & B' & R').
    exists v'. split; [exact H'|]. split; [congruence|]. split; auto.
  Qed.

  Lemma tok_new h i v' p k :
    holds p = Some (i, k) -> nth_error h i = Some v' -> ck v' = k ->
    (needs_bset p = true -> bset v') -> (needs_rem p = true -> cm v' = Removed) -> tok h p.
  Proof. unfold tok. intros -> H K B R. exists v'. auto. Qed.

  (* one heap entry and one program counter change *)
  Lemma inv_update s i v v' t p p' gi' gb' :
    Inv s -> nth_error (heap s) i = Some v -> nth_error (thr s) t = Some p ->
    vle v v' -> vok v' -> tok (upd i v' (heap s)) p' ->
    gb' - gb s = (base v' - base v) - (owes p' - owes p) ->
    gi' - gi s = inone v' - inone v ->
    Inv (mkCS (upd i v' (heap s)) (upd t p' (thr s)) gi' gb').
  Proof.
    intros [A I V T] Hv Hp L OK TK GB GI. constructor; cbn [heap thr gi gb].
    - rewrite (sumf_upd base _ _ _ _ Hv), (sumf_upd owes _ _ _ _ Hp). lia.
    - rewrite (sumf_upd inone _ _ _ _ Hv). lia.
    - apply Forall_upd; assumption.
    - apply Forall_upd; [|exact TK].
      eapply Forall_impl; [|exact T]. intros q. apply tok_mono. eapply hext_upd; eauto.
  Qed.

  Lemma inv_thread_only s i v t p p' gb' :
    Inv s -> nth_error (heap s) i = Some v -> nth_error (thr s) t = Some p ->
    tok (heap s) p' -> gb' - gb s = - (owes p' - owes p) ->
    Inv (mkCS (upd i v (heap s)) (upd t p' (thr s)) (gi s) gb').
  Proof.
    intros HI Hv Hp TK GB. rewrite (upd_same_id _ _ _ Hv).
    rewrite <- (upd_same_id (heap s) i v Hv).
    apply (inv_update s i v v t p p'); auto using vle_refl.
    - eapply Forall_nth_error; [apply (inv_vals s HI) | exact Hv].
    - rewrite (upd_same_id _ _ _ Hv). exact TK.
    - lia.
    - lia.
  Qed.

  Lemma start_inv s t k found mk s' :
    (forall i k, owes (mk i k) = 0 /\ holds (mk i k) = Some (i, k) /\ needs_bset (mk i k) = false /\ needs_rem (mk i k) = false) ->
    Inv s -> start s t k found mk = Some s' -> Inv s'.
  Proof.
    intros MK HI. unfold start.
    destruct (nth_error (thr s) t) as [p|] eqn:Hp; [|discriminate].
    destruct p; try discriminate.
    destruct (MK 0%nat k) as (_ & _ & _ & _).
    destruct found as [i|].
    - destruct (nth_error (heap s) i) as [v|] eqn:Hv; [|discriminate].
      destruct (cin v && N.eqb (ck v) k) eqn:C; [|discriminate].
      intros E; inversion E; subst; clear E.
      apply andb_true_iff in C. destruct C as [_ C]. apply N.eqb_eq in C.
      destruct (MK i k) as (O & H & NB & NR).
      destruct HI as [A I V T]. constructor; cbn [heap thr gi gb].
      + rewrite (sumf_upd owes _ _ _ _ Hp). cbn [owes] in *. lia.
      + exact I.
      + exact V.
      + apply Forall_upd; [exact T|]. eapply tok_new; eauto; congruence.
    - destruct (key_free k (heap s)); [|discriminate].
      intros E; inversion E; subst; clear E.
      destruct (MK (length (heap s)) k) as (O & H & NB & NR).
      destruct HI as [A I V T]. constructor; cbn [heap thr gi gb].
      + rewrite sumf_app, (sumf_upd owes _ _ _ _ Hp). cbn. lia.
      + rewrite sumf_app. cbn. lia.
      + apply Forall_app. split; [exact V|]. constructor; [|constructor].
        split; cbn; [discriminate | reflexivity].
      + apply Forall_upd.
        * eapply Forall_impl; [|exact T]. intros q. apply tok_mono. apply hext_app.
        * apply (tok_new _ (length (heap s)) (fresh_val k) _ k); [exact H | | reflexivity | congruence | congruence].
          rewrite nth_error_app2 by lia. rewrite Nat.sub_diag. reflexivity.
  Qed.

  Lemma tok_holds h p i k : tok h p -> holds p = Some (i, k) ->
    exists v, nth_error h i = Some v /\ ck v = k /\ (needs_bset p = true -> bset v) /\ (needs_rem p = true -> cm v = Removed).
  Proof. unfold tok. intros T H. rewrite H in T. exact T. Qed.

  Ltac thread_facts HI Hp :=
    let TK := fresh "TK" in
    pose proof (Forall_nth_error _ _ _ _ (inv_thr _ HI) Hp) as TK;
    destruct (tok_holds _ _ _ _ TK eq_refl) as (v0 & Hv0 & K0 & B0 & R0).

  Ltac TOK v :=
    eapply (tok_new _ _ v);
    [reflexivity | first [eassumption | eapply nth_error_upd_same; eassumption] | reflexivity | | ].

  Lemma cstep_inv s a s' : Inv s -> cstep ksize true s a = Some s' -> Inv s'.
  Proof.
    intros HI. destruct a as [t k found|t k found|i|t ok|t]; cbn [cstep].
    - apply start_inv; [|exact HI]. intros; cbn; auto.
    - apply start_inv; [|exact HI]. intros; cbn; auto.
    - (* AEvict *)
      destruct (nth_error (heap s) i) as [v|] eqn:Hv; [|discriminate].
      destruct (cin v) eqn:C; [|discriminate].
      intros E; inversion E; subst; clear E.
      pose proof (Forall_nth_error _ _ _ _ (inv_vals _ HI) Hv) as [VS VC].
      destruct HI as [A I V T]. constructor; cbn [heap thr gi gb].
      + rewrite (sumf_upd base _ _ _ _ Hv). unfold base at 2 3. cbn [cm ck mem_is_sized].
        destruct (cm v) eqn:M; cbn [mem_is_sized]; try lia.
        rewrite (VS eq_refl). lia.
      + rewrite (sumf_upd inone _ _ _ _ Hv). unfold inone at 2 3. cbn [cin]. rewrite C. lia.
      + apply Forall_upd; [exact V|]. split; cbn; [discriminate | congruence].
      + eapply Forall_impl; [|exact T]. intros q. apply tok_mono. eapply hext_upd; [exact Hv|].
        repeat split; cbn; auto.
    - (* ALoad *)
      destruct (nth_error (thr s) t) as [p|] eqn:Hp; [|discriminate].
      destruct p; try discriminate.
      thread_facts HI Hp.
      rewrite Hv0.
      pose proof (Forall_nth_error _ _ _ _ (inv_vals _ HI) Hv0) as [VS VC].
      destruct (cloaded v0 || cerr v0).
      + intros E; inversion E; subst; clear E. unfold set_heap.
        apply (inv_thread_only s i v0 t (GLoad i (ck v0))); auto.
        * destruct (cerr v0); [|exact I]. TOK v0; cbn; discriminate.
        * destruct (cerr v0); cbn; lia.
      + destruct ok; intros E; inversion E; subst; clear E; unfold set_heap.
        * apply (inv_update s i v0 _ t (GLoad i (ck v0))); auto.
          -- repeat split; cbn; auto.
          -- split; cbn; [reflexivity | exact VC].
          -- TOK (mkCV (ck v0) true false (ksize (ck v0)) (cm v0) (cin v0)); [intros _; reflexivity | cbn; discriminate].
          -- unfold base. cbn. lia.
          -- unfold inone. cbn. lia.
        * apply (inv_update s i v0 _ t (GLoad i (ck v0))); auto.
          -- repeat split; cbn; auto.
          -- split; cbn; [exact VS | exact VC].
          -- TOK (mkCV (ck v0) false true (cby v0) (cm v0) (cin v0)); cbn; discriminate.
          -- unfold base. cbn. lia.
          -- unfold inone. cbn. lia.
    - (* AStep *)
      unfold step_thread.
      destruct (nth_error (thr s) t) as [p|] eqn:Hp; [|discriminate].
      destruct p; try discriminate; thread_facts HI Hp; rewrite Hv0;
        pose proof (Forall_nth_error _ _ _ _ (inv_vals _ HI) Hv0) as [VS VC]; cbn [needs_bset needs_rem] in *.
      + (* GCas *)
        destruct (cm v0) eqn:M; cbn [mem_is_loading]; intros E; inversion E; subst; clear E; unfold set_heap.
        * apply (inv_update s i v0 _ t (GCas i (ck v0))); auto.
          -- repeat split; cbn; auto. congruence.
          -- split; cbn; [intros _; exact (B0 eq_refl) | intros _; apply VC; congruence].
          -- TOK (mkCV (ck v0) (cloaded v0) (cerr v0) (cby v0) Sized (cin v0)); [intros _; exact (B0 eq_refl) | cbn; discriminate].
          -- unfold base. cbn. rewrite M. cbn. lia.
          -- unfold inone. cbn. lia.
        * apply (inv_thread_only s i v0 t (GCas i (ck v0))); auto; [exact I | cbn; lia].
        * apply (inv_thread_only s i v0 t (GCas i (ck v0))); auto; [exact I | cbn; lia].
      + (* GInc *)
        intros E; inversion E; subst; clear E; unfold set_heap.
        apply (inv_thread_only s i v0 t (GInc i (ck v0))); auto; [exact I|].
        cbn. rewrite (B0 eq_refl). lia.
      + (* GFailMark, repaired: Swap + decrement if Sized *)
        intros E; inversion E; subst; clear E; unfold set_heap.
        apply (inv_update s i v0 _ t (GFailMark i (ck v0))); auto.
        * repeat split; cbn; auto.
        * split; cbn; [discriminate | congruence].
        * TOK (mkCV (ck v0) (cloaded v0) (cerr v0) (cby v0) Removed (cin v0)); [cbn; discriminate | intros _; reflexivity].
        * unfold base. cbn. destruct (cm v0) eqn:M; cbn; try lia. rewrite (VS eq_refl). lia.
        * unfold inone. cbn. lia.
      + (* GFailUnlink *)
        destruct (cin v0) eqn:C; intros E; inversion E; subst; clear E; unfold set_heap.
        * apply (inv_update s i v0 _ t (GFailUnlink i (ck v0))); auto.
          -- repeat split; cbn; auto.
          -- split; cbn; [exact VS | rewrite (R0 eq_refl); congruence].
          -- exact I.
          -- unfold base. cbn. lia.
          -- unfold inone. cbn. rewrite C. lia.
        * apply (inv_thread_only s i v0 t (GFailUnlink i (ck v0))); auto; [exact I | cbn; lia].
      + (* PBytes *)
        intros E; inversion E; subst; clear E; unfold set_heap.
        apply (inv_update s i v0 _ t (PBytes i (ck v0))); auto.
        * repeat split; cbn; auto.
        * split; cbn; [reflexivity | exact VC].
        * TOK (mkCV (ck v0) (cloaded v0) (cerr v0) (ksize (ck v0)) (cm v0) (cin v0)); [intros _; reflexivity | cbn; discriminate].
        * unfold base. cbn. lia.
        * unfold inone. cbn. lia.
      + (* PCas *)
        destruct (cm v0) eqn:M; cbn [mem_is_loading]; intros E; inversion E; subst; clear E; unfold set_heap.
        * apply (inv_update s i v0 _ t (PCas i (ck v0))); auto.
          -- repeat split; cbn; auto. congruence.
          -- split; cbn; [intros _; exact (B0 eq_refl) | intros _; apply VC; congruence].
          -- TOK (mkCV (ck v0) (cloaded v0) (cerr v0) (cby v0) Sized (cin v0)); [intros _; exact (B0 eq_refl) | cbn; discriminate].
          -- unfold base. cbn. rewrite M. cbn. lia.
          -- unfold inone. cbn. lia.
        * apply (inv_thread_only s i v0 t (PCas i (ck v0))); auto; [|cbn; lia].
          TOK v0; cbn; discriminate.
        * apply (inv_thread_only s i v0 t (PCas i (ck v0))); auto; [|cbn; lia].
          TOK v0; cbn; discriminate.
      + (* PInc *)
        intros E; inversion E; subst; clear E; unfold set_heap.
        apply (inv_thread_only s i v0 t (PInc i (ck v0))); auto; [|cbn; lia].
        TOK v0; cbn; discriminate.
      + (* PStore *)
        destruct (cloaded v0) eqn:L; intros E; inversion E; subst; clear E; unfold set_heap.
        * apply (inv_thread_only s i v0 t (PStore i (ck v0))); auto; [exact I | cbn; lia].
        * apply (inv_update s i v0 _ t (PStore i (ck v0))); auto.
          -- repeat split; cbn; auto.
          -- split; cbn; [reflexivity | exact VC].
          -- exact I.
          -- unfold base. cbn. lia.
          -- unfold inone. cbn. lia.
  Qed.

  Lemma cinit_inv n : Inv (cinit n).
  Proof.
    constructor; cbn [cinit heap thr gi gb].
    - cbn. rewrite sumf_zero; [reflexivity|]. apply Forall_forall. intros p H. apply repeat_spec in H. subst. reflexivity.
    - reflexivity.
    - constructor.
    - apply Forall_forall. intros p H. apply repeat_spec in H. subst. exact I.
  Qed.

  Lemma crun_inv acts : forall s s', Inv s -> crun ksize true s acts = Some s' -> Inv s'.
  Proof.
    induction acts as [|a r IH]; intros s s' HI; cbn [crun].
    - intros E; inversion E; subst. exact HI.
    - destruct (cstep ksize true s a) as [s1|] eqn:E; [|discriminate].
      apply IH. eapply cstep_inv; eauto.
  Qed.

  (* at rest: the byte gauge is the sum of the sizes of the cached, accounted values; the item gauge
     counts the cached values; an accounted value is never outside the cache *)
  Lemma quiescent_exact s :
    Inv s -> quiescent s ->
    gb s = cached_sized_bytes s /\ gi s = cached_count s /\
    (forall i v, nth_error (heap s) i = Some v -> cm v = Sized -> cin v = true /\ cby v = ksize (ck v)).
  Proof.
    intros [A I V T] Q. split; [|split].
    - rewrite A. rewrite (sumf_zero owes (thr s)).
      + unfold cached_sized_bytes. clear -V. induction V as [|v r [VS VC] F IH]; cbn; [reflexivity|].
        fold (sumf base r). fold (sumf (fun v0 => if cin v0 && mem_is_sized (cm v0) then Z.of_N (cby v0) else 0) r).
        unfold base at 1. destruct (cm v) eqn:M; cbn [mem_is_sized]; rewrite ?andb_false_r; try lia.
        rewrite VC by congruence. cbn [andb]. rewrite (VS eq_refl). lia.
      + eapply Forall_impl; [|exact Q]. intros p ->. reflexivity.
    - exact I.
    - intros i v H M. destruct (Forall_nth_error _ _ _ _ V H) as [VS VC]. split; [apply VC; congruence | exact (VS M)].
  Qed.
End Proofs.
