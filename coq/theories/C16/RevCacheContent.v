(* C16 -- what the cache serves: a Get returns what the loader returns, failed loads are not kept,
   and stale content is dropped once the feed-driven Remove has happened. *)
From SG Require Import Base.Prelude C16.RevCache C16.RevCacheLemmas C16.RevCacheProofs.
Open Scope Z_scope.

Lemma lookup_app_some k a b v : lookup k a = Some v -> lookup k (a ++ b) = Some v.
Proof.
  induction a as [|[k' v'] r IH]; cbn [lookup app]; [discriminate|].
  destruct (N.eqb k k'); auto.
Qed.

Lemma lookup_firstn_some k n l v : lookup k (firstn n l) = Some v -> lookup k l = Some v.
Proof. intros H. rewrite <- (firstn_skipn n l). apply lookup_app_some. exact H. Qed.

Lemma mem_evict_lookup cfg s k v : lookup k (lru (mem_evict cfg s)) = Some v -> lookup k (lru s) = Some v.
Proof.
  intros H. destruct (mem_evict_spec cfg s) as (ev & L & _). rewrite L. apply lookup_app_some. exact H.
Qed.

Lemma mem_evict_ld cfg s : ld (mem_evict cfg s) = ld s.
Proof. destruct (mem_evict_spec cfg s) as (ev & _ & _ & _ & L & _). exact L. Qed.

(* ---------- what Get returns ---------- *)
Lemma get_key_result cfg k s :
  ores (snd (get_key cfg k s)) =
  match lookup k (lru s) with
  | Some v => match vbody v with Some c => ROk c | None => fresh s k end
  | None => fresh s k
  end.
Proof.
  unfold get_key, get_value, fresh.
  destruct (lookup k (lru s)) as [v|] eqn:L.
  - cbn [lru set_lru lookup]. rewrite N.eqb_refl.
    destruct (vbody v); [reflexivity|].
    destruct (ld s k); [destruct (vmem v)|]; reflexivity.
  - cbn [lru set_lru].
    destruct (N.to_nat (cap cfg)) as [|n].
    + cbn [firstn lookup]. destruct (ld s k); reflexivity.
    + cbn [firstn lookup]. rewrite N.eqb_refl. cbn [placeholder vbody vmem].
      destruct (ld s k); reflexivity.
Qed.

Definition coherent_on (s : state) (k : key) : Prop :=
  forall v c, lookup k (lru s) = Some v -> vbody v = Some c -> ld s k = LOk c.

Lemma get_key_fresh cfg k s : coherent_on s k -> ores (snd (get_key cfg k s)) = fresh s k.
Proof.
  intros H. rewrite get_key_result. destruct (lookup k (lru s)) as [v|] eqn:L; [|reflexivity].
  destruct (vbody v) as [c|] eqn:B; [|reflexivity].
  unfold fresh. rewrite (H v c L B). reflexivity.
Qed.

(* a load that failed leaves nothing behind under its key *)
Lemma get_key_failed cfg k s e :
  ores (snd (get_key cfg k s)) = RErr e -> lookup k (lru (fst (get_key cfg k s))) = None.
Proof.
  unfold get_key, get_value.
  destruct (lookup k (lru s)) as [v|] eqn:L.
  - cbn [lru set_lru lookup]. rewrite N.eqb_refl.
    destruct (vbody v); [cbn; discriminate|].
    destruct (ld s k); [destruct (vmem v); cbn; discriminate|].
    cbn [fst snd lru set_lru]. intros _. apply lookup_remove_same.
  - cbn [lru set_lru].
    destruct (N.to_nat (cap cfg)) as [|n].
    + cbn [firstn lookup]. destruct (ld s k); cbn [fst snd lru set_lru lookup]; reflexivity.
    + cbn [firstn lookup]. rewrite N.eqb_refl. cbn [placeholder vbody vmem].
      destruct (ld s k); [cbn; discriminate|].
      cbn [fst snd lru set_lru]. intros _. apply lookup_remove_same.
Qed.

(* ---------- provenance of the bodies found in the cache after a step ---------- *)
Definition body_from (s s' : state) (k : key) : Prop :=
  forall v' c', lookup k (lru s') = Some v' -> vbody v' = Some c' ->
    (exists v, lookup k (lru s) = Some v /\ vbody v = Some c') \/ ld s k = LOk c'.

Lemma body_from_coherent s s' k :
  ld s' = ld s -> body_from s s' k -> coherent_on s k -> coherent_on s' k.
Proof.
  intros E B C v' c' L' B'. rewrite E. destruct (B v' c' L' B') as [(v & L & Bv)|H]; [|exact H].
  exact (C v c' L Bv).
Qed.

Lemma body_from_mem_evict cfg s s1 k : body_from s s1 k -> body_from s (mem_evict cfg s1) k.
Proof.
  intros B v' c' L' B'. apply (B v' c'); [|exact B']. apply mem_evict_lookup in L'. exact L'.
Qed.

Lemma lookup_touch k0 v0 l k :
  lookup k0 l = Some v0 -> lookup k ((k0, v0) :: remove_key k0 l) = lookup k l.
Proof.
  intros L. cbn [lookup]. destruct (N.eqb_spec k k0) as [E|E]; [subst; auto|].
  apply lookup_remove_other. exact E.
Qed.

Lemma get_key_body_from cfg k0 s k : body_from s (fst (get_key cfg k0 s)) k.
Proof.
  unfold get_key, get_value.
  destruct (lookup k0 (lru s)) as [v0|] eqn:L.
  - cbn [lru items bytes set_lru lookup]. rewrite N.eqb_refl.
    assert (T : body_from s (set_lru s ((k0, v0) :: remove_key k0 (lru s)) (items s) (bytes s)) k).
    { intros v' c' L' B'. cbn [lru set_lru] in L'. rewrite (lookup_touch _ _ _ _ L) in L'. left. eauto. }
    destruct (vbody v0) eqn:B0; [exact T|].
    assert (U : forall c m b, ld s k0 = LOk c ->
              body_from s (set_lru s (update k0 (mkV (Some c) (csize c) m) ((k0, v0) :: remove_key k0 (lru s)))
                             (items s) b) k).
    { intros c m b E v' c' L' B'. cbn [lru set_lru] in L'.
      destruct (N.eqb_spec k k0) as [K|K].
      - subst k. rewrite (lookup_update_same k0 _ _ v0) in L' by (cbn [lookup]; rewrite N.eqb_refl; reflexivity).
        inversion L'; subst. cbn in B'. inversion B'; subst. right. exact E.
      - rewrite lookup_update_other in L' by exact K. rewrite (lookup_touch _ _ _ _ L) in L'. left. eauto. }
    destruct (ld s k0) as [c|e] eqn:E.
    + destruct (vmem v0); cbn [fst]; [apply body_from_mem_evict|..]; apply U; reflexivity.
    + cbn [fst]. intros v' c' L' B'. cbn [lru set_lru] in L'.
      destruct (N.eqb_spec k k0) as [K|K].
      * subst k. rewrite lookup_remove_same in L'. discriminate.
      * rewrite lookup_remove_other in L' by exact K. rewrite (lookup_touch _ _ _ _ L) in L'. left. eauto.
  - cbn [lru items bytes set_lru].
    destruct (N.to_nat (cap cfg)) as [|n].
    + cbn [firstn skipn lookup].
      destruct (ld s k0); cbn [fst]; intros v' c' L' B'; cbn [lru set_lru lookup] in L'; discriminate.
    + cbn [firstn skipn lookup]. rewrite N.eqb_refl. cbn [placeholder vbody vmem].
      destruct (ld s k0) as [c|e] eqn:E; cbn [fst].
      * apply body_from_mem_evict. cbn [update lru items bytes set_lru]. rewrite N.eqb_refl.
        intros v' c' L' B'. cbn [lru set_lru lookup] in L'.
        destruct (N.eqb_spec k k0) as [K|K].
        -- inversion L'; subst. cbn in B'. inversion B'; subst. right. exact E.
        -- apply lookup_firstn_some in L'. left. eauto.
      * cbn [remove_key lru set_lru]. rewrite N.eqb_refl.
        intros v' c' L' B'. cbn [lru set_lru] in L'.
        destruct (N.eqb_spec k k0) as [K|K].
        -- subst k. rewrite lookup_remove_same in L'. discriminate.
        -- rewrite lookup_remove_other in L' by exact K. apply lookup_firstn_some in L'. left. eauto.
Qed.

Lemma get_key_ld cfg k s : ld (fst (get_key cfg k s)) = ld s.
Proof.
  unfold get_key, get_value.
  destruct (lookup k (lru s)) as [v|].
  - cbn [lru set_lru lookup]. rewrite N.eqb_refl.
    destruct (vbody v); [reflexivity|].
    destruct (ld s k); [destruct (vmem v)|]; cbn [fst]; rewrite ?mem_evict_ld; reflexivity.
  - cbn [lru set_lru]. destruct (N.to_nat (cap cfg)) as [|n].
    + cbn [firstn lookup]. destruct (ld s k); reflexivity.
    + cbn [firstn lookup]. rewrite N.eqb_refl. cbn [placeholder vbody vmem].
      destruct (ld s k); cbn [fst]; rewrite ?mem_evict_ld; reflexivity.
Qed.

(* the write path puts what it has just written to the bucket *)
Definition write_through (s : state) (o : op) : Prop :=
  match o with
  | Put k c | Upsert k c => ld s k = LOk c
  | _ => True
  end.

Lemma put_key_body_from cfg k0 c s k : ld s k0 = LOk c -> body_from s (put_key cfg k0 c s) k.
Proof.
  intros W. unfold put_key, get_value.
  destruct (lookup k0 (lru s)) as [v0|] eqn:L.
  - cbn [lru items bytes set_lru lookup]. rewrite N.eqb_refl.
    assert (U : forall m b,
              body_from s (set_lru s (update k0 (mkV (match vbody v0 with Some c0 => Some c0 | None => Some c end)
                                                     (csize c) m) ((k0, v0) :: remove_key k0 (lru s)))
                             (items s) b) k).
    { intros m b v' c' L' B'. cbn [lru set_lru] in L'.
      destruct (N.eqb_spec k k0) as [K|K].
      - subst k. rewrite (lookup_update_same k0 _ _ v0) in L' by (cbn [lookup]; rewrite N.eqb_refl; reflexivity).
        inversion L'; subst. cbn in B'. destruct (vbody v0) eqn:B0.
        + inversion B'; subst. left. eauto.
        + inversion B'; subst. right. exact W.
      - rewrite lookup_update_other in L' by exact K. rewrite (lookup_touch _ _ _ _ L) in L'. left. eauto. }
    destruct (vmem v0); apply body_from_mem_evict; apply U.
  - cbn [lru items bytes set_lru].
    destruct (N.to_nat (cap cfg)) as [|n].
    + cbn [firstn skipn lookup]. apply body_from_mem_evict.
      intros v' c' L' B'; cbn [lru set_lru lookup] in L'; discriminate.
    + cbn [firstn skipn lookup]. rewrite N.eqb_refl. cbn [placeholder vbody vmem].
      apply body_from_mem_evict. cbn [update lru items bytes set_lru]. rewrite N.eqb_refl.
      intros v' c' L' B'. cbn [lru set_lru lookup] in L'.
      destruct (N.eqb_spec k k0) as [K|K].
      * inversion L'; subst. cbn in B'. inversion B'; subst. right. exact W.
      * apply lookup_firstn_some in L'. left. eauto.
Qed.

Lemma put_key_ld cfg k c s : ld (put_key cfg k c s) = ld s.
Proof.
  unfold put_key, get_value.
  destruct (lookup k (lru s)) as [v|].
  - cbn [lru set_lru lookup]. rewrite N.eqb_refl. destruct (vmem v); rewrite mem_evict_ld; reflexivity.
  - cbn [lru set_lru]. destruct (N.to_nat (cap cfg)) as [|n].
    + cbn [firstn lookup]. rewrite mem_evict_ld. reflexivity.
    + cbn [firstn lookup]. rewrite N.eqb_refl. cbn [placeholder vmem]. rewrite mem_evict_ld. reflexivity.
Qed.

Lemma upsert_key_body_from cfg k0 c s k : ld s k0 = LOk c -> body_from s (upsert_key cfg k0 c s) k.
Proof.
  intros W. unfold upsert_key.
  assert (Q : exists l0 i0 b0,
     (match lookup k0 (lru s) with
      | Some v => (remove_key k0 (lru s), items s, bytes s - sized_bytes v)
      | None => (lru s, items s + 1, bytes s) end) = (l0, i0, b0) /\
     (forall v, k <> k0 -> lookup k l0 = Some v -> lookup k (lru s) = Some v)).
  { destruct (lookup k0 (lru s)) as [vx|]; eexists _, _, _; (split; [reflexivity|]); intros v K H; [|exact H].
    rewrite lookup_remove_other in H by exact K. exact H. }
  destruct Q as (l0 & i0 & b0 & -> & F).
  destruct (N.to_nat (cap cfg)) as [|n].
  - cbn [firstn skipn lookup]. apply body_from_mem_evict.
    intros v' c' L' B'; cbn [lru set_lru lookup] in L'; discriminate.
  - cbn [firstn skipn lookup]. rewrite N.eqb_refl.
    apply body_from_mem_evict. cbn [update lru items bytes set_lru]. rewrite N.eqb_refl.
    intros v' c' L' B'. cbn [lru set_lru lookup] in L'.
    destruct (N.eqb_spec k k0) as [K|K].
    + inversion L'; subst. cbn in B'. inversion B'; subst. right. exact W.
    + apply lookup_firstn_some in L'. left. eauto.
Qed.

Lemma upsert_key_ld cfg k c s : ld (upsert_key cfg k c s) = ld s.
Proof.
  unfold upsert_key.
  destruct (match lookup k (lru s) with
      | Some v => (remove_key k (lru s), items s, bytes s - sized_bytes v)
      | None => (lru s, items s + 1, bytes s) end) as [[l0 i0] b0].
  destruct (lookup k (firstn (N.to_nat (cap cfg)) ((k, placeholder) :: l0))); rewrite mem_evict_ld; reflexivity.
Qed.

(* every op other than a storage change of [k] keeps the cache coherent on [k] *)
Lemma step_coherent cfg s o k :
  coherent_on s k -> write_through s o -> (forall r, o <> SetLoad k r) ->
  coherent_on (fst (step cfg s o)) k.
Proof.
  intros C W NS. destruct o as [k0|d|k0 c|k0 c|k0|k0|k0 r|d a]; cbn [step].
  - apply (body_from_coherent s); [apply get_key_ld | apply get_key_body_from | exact C].
  - destruct (act s d) as [k0| |e]; cbn [fst]; try exact C.
    apply (body_from_coherent s); [apply get_key_ld | apply get_key_body_from | exact C].
  - cbn [fst]. apply (body_from_coherent s); [apply put_key_ld | apply put_key_body_from; exact W | exact C].
  - cbn [fst]. apply (body_from_coherent s); [apply upsert_key_ld | apply upsert_key_body_from; exact W | exact C].
  - cbn [fst]. unfold remove_op. destruct (lookup k0 (lru s)) as [v0|] eqn:L; [|exact C].
    intros v c L' B'. cbn [lru ld set_lru] in *.
    destruct (N.eqb_spec k k0) as [K|K].
    + subst. rewrite lookup_remove_same in L'. discriminate.
    + rewrite lookup_remove_other in L' by exact K. exact (C v c L' B').
  - unfold peek_op. destruct (lookup k0 (lru s)) as [v0|] eqn:L; cbn [fst]; [|exact C].
    intros v c L' B'. cbn [lru ld set_lru] in *. rewrite (lookup_touch _ _ _ _ L) in L'. exact (C v c L' B').
  - cbn [fst]. intros v c L' B'. cbn [lru ld] in *.
    destruct (N.eqb_spec k k0) as [K|K]; [subst; exfalso; apply (NS r); reflexivity|].
    exact (C v c L' B').
  - cbn [fst]. exact C.
Qed.

Lemma remove_coherent cfg s k : coherent_on (fst (step cfg s (Remove k))) k.
Proof.
  cbn [step fst]. unfold remove_op. intros v c L.
  destruct (lookup k (lru s)) as [v0|] eqn:L0.
  - cbn [lru set_lru] in L. rewrite lookup_remove_same in L. discriminate.
  - congruence.
Qed.

(* ---------- whole histories: a storage change of [k] is pending until the feed-driven Remove k ---------- *)
Definition stale_flag (k : key) (b : bool) (o : op) : bool :=
  match o with
  | SetLoad k' _ => if N.eqb k' k then true else b
  | Remove k' => if N.eqb k' k then false else b
  | _ => b
  end.

Definition pending (k : key) (ops : list op) : bool := fold_left (stale_flag k) ops false.

Fixpoint writes_through (cfg : config) (s : state) (ops : list op) : Prop :=
  match ops with
  | [] => True
  | o :: r => write_through s o /\ writes_through cfg (fst (step cfg s o)) r
  end.

Lemma run_coherent cfg k ops : forall s b,
  (b = false -> coherent_on s k) -> writes_through cfg s ops ->
  fold_left (stale_flag k) ops b = false -> coherent_on (run cfg s ops) k.
Proof.
  induction ops as [|o r IH]; intros s b C W F; cbn [run fold_left] in *; [auto|].
  destruct W as [W0 W]. apply (IH _ (stale_flag k b o)); [|exact W | exact F].
  intros Fl. destruct o as [k0|d|k0 c|k0 c|k0|k0|k0 r0|d a]; cbn [stale_flag] in Fl;
    try (apply step_coherent; [apply C; exact Fl | exact W0 | intros; discriminate]).
  - destruct (N.eqb_spec k0 k) as [K|K].
    + subst. apply remove_coherent.
    + apply step_coherent; [apply C; exact Fl | exact W0 | intros; discriminate].
  - destruct (N.eqb_spec k0 k) as [K|K]; [discriminate|].
    apply step_coherent; [apply C; exact Fl | exact W0 | intros r1 E; inversion E; congruence].
Qed.

Lemma init_coherent l a k : coherent_on (init l a) k.
Proof. intros v c L. cbn in L. discriminate. Qed.
