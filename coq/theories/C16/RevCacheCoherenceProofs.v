(* C16 -- cache coherence across writers (RevCacheCoherence.v): a stale entry for a current key exists on a node
   only while a feed event that invalidates it is still queued for that node; hence after the feed has been
   processed every Get by revTreeID or by CV returns what the bucket holds.  Proved for every invalidation rule
   that is [inval_sound]; DocChanged's rule is. *)
From SG Require Import Base.Prelude C16.RevCacheCoherence.
Open Scope N_scope.

Lemma keqb_eq a b : keqb a b = true <-> a = b.
Proof.
  unfold keqb. destruct a as [d1 c1 i1], b as [d2 c2 i2]. cbn [kdoc kcv kid].
  rewrite !andb_true_iff, !N.eqb_eq, Bool.eqb_true_iff. split; [intros [[-> ->] ->]; reflexivity | intros E; inversion E; auto].
Qed.

Lemma keqb_refl a : keqb a a = true.
Proof. apply keqb_eq. reflexivity. Qed.

Lemma keqb_neq a b : keqb a b = false <-> a <> b.
Proof. split; [intros H E; apply keqb_eq in E; congruence | intros H; destruct (keqb a b) eqn:E; [apply keqb_eq in E; contradiction | reflexivity]]. Qed.

(* current / content depend on the bucket only *)
Definition curb (bk : N -> option bdoc) (k : ckey) : bool :=
  match bk (kdoc k) with Some b => N.eqb (kid k) (if kcv k then bcv b else brev b) | None => false end.
Definition contb (bk : N -> option bdoc) (k : ckey) : N :=
  match bk (kdoc k) with Some b => if kcv k then ccv b else crev b | None => 0 end.

(* an invalidation rule is sound when every mutation's event invalidates each key that stays current while
   what a load of it returns changes *)
Definition inval_sound (inval : ev -> ckey -> bool) : Prop :=
  forall s m b' e d newk, (forall k, curb (hbk s) k = true -> hused s k = true) ->
  mutate s m = Some (b', e, d, newk) ->
  forall k, curb (hbk s) k = true -> curb (set_doc (hbk s) d b') k = true ->
            contb (hbk s) k <> contb (set_doc (hbk s) d b') k -> inval e k = true.

Lemma mark_mono u ks : forall k, u k = true -> fold_left mark ks u k = true.
Proof.
  revert u. induction ks as [|x r IH]; intros u k H; cbn [fold_left]; [exact H|].
  apply IH. unfold mark. rewrite H. apply orb_true_r.
Qed.

Lemma mark_in u ks : forall k, In k ks -> fold_left mark ks u k = true.
Proof.
  revert u. induction ks as [|x r IH]; intros u k H; cbn [fold_left]; [contradiction|].
  destruct H as [->|H]; [|apply IH; exact H].
  apply mark_mono. unfold mark. rewrite keqb_refl. reflexivity.
Qed.

Lemma set_cache_cases c n k x n' k' y :
  set_cache c n k x n' k' = Some y -> (n' = n /\ k' = k /\ x = Some y) \/ c n' k' = Some y.
Proof.
  unfold set_cache. destruct (Nat.eqb n' n && keqb k' k) eqn:E; [|auto].
  apply andb_true_iff in E. destruct E as [E1 E2]. apply Nat.eqb_eq in E1. apply keqb_eq in E2. auto.
Qed.

Lemma put_absent_cases c n k x n' k' y :
  put_absent c n k x n' k' = Some y -> (k' = k /\ y = x) \/ c n' k' = Some y.
Proof.
  unfold put_absent. destruct (c n k); [auto|].
  intros H. destruct (set_cache_cases _ _ _ _ _ _ _ H) as [(_ & -> & E)|H']; [inversion E; auto | auto].
Qed.

Lemma curb_set_same bk d b' k : kdoc k = d ->
  curb (set_doc bk d b') k = N.eqb (kid k) (if kcv k then bcv b' else brev b').
Proof. intros <-. unfold curb, set_doc. rewrite N.eqb_refl. reflexivity. Qed.

Lemma curb_set_other bk d b' k : kdoc k <> d -> curb (set_doc bk d b') k = curb bk k.
Proof. intros H. unfold curb, set_doc. destruct (N.eqb_spec (kdoc k) d); [contradiction | reflexivity]. Qed.

Lemma contb_set_same bk d b' k : kdoc k = d -> contb (set_doc bk d b') k = if kcv k then ccv b' else crev b'.
Proof. intros <-. unfold contb, set_doc. rewrite N.eqb_refl. reflexivity. Qed.

Lemma contb_set_other bk d b' k : kdoc k <> d -> contb (set_doc bk d b') k = contb bk k.
Proof. intros H. unfold contb, set_doc. destruct (N.eqb_spec (kdoc k) d); [contradiction | reflexivity]. Qed.

(* shape of a mutation *)
Lemma mutate_spec s m b' e d newk :
  mutate s m = Some (b', e, d, newk) ->
  (forall k, In k newk -> hused s k = false) /\
  (forall k, curb (set_doc (hbk s) d b') k = true -> curb (hbk s) k = true \/ In k newk).
Proof.
  destruct m as [d0 r c mr mc|d0 r c mr mc|d0 c mr mc|d0 r mr mc]; cbn [mutate].
  - destruct (hused s (mkK d0 false r) || hused s (mkK d0 true c)) eqn:U; [discriminate|].
    apply orb_false_iff in U. destruct U as [U1 U2]. intros H; inversion H; subst; clear H. split.
    + intros k [<-|[<-|[]]]; assumption.
    + intros k Hc. destruct (N.eq_dec (kdoc k) d) as [E|E].
      * right. rewrite curb_set_same in Hc by exact E. cbn [bcv brev] in Hc. apply N.eqb_eq in Hc.
        destruct k as [kd kc ki]; cbn in *; subst. destruct kc; cbn; auto.
      * left. rewrite curb_set_other in Hc by exact E. exact Hc.
  - destruct (hused s (mkK d0 false r) || hused s (mkK d0 true c)) eqn:U; [discriminate|].
    apply orb_false_iff in U. destruct U as [U1 U2]. intros H; inversion H; subst; clear H. split.
    + intros k [<-|[<-|[]]]; assumption.
    + intros k Hc. destruct (N.eq_dec (kdoc k) d) as [E|E].
      * right. rewrite curb_set_same in Hc by exact E. cbn [bcv brev] in Hc. apply N.eqb_eq in Hc.
        destruct k as [kd kc ki]; cbn in *; subst. destruct kc; cbn; auto.
      * left. rewrite curb_set_other in Hc by exact E. exact Hc.
  - destruct (hbk s d0) as [b|] eqn:B; [|discriminate].
    destruct (hused s (mkK d0 true c)) eqn:U; [discriminate|]. intros H; inversion H; subst; clear H. split.
    + intros k [<-|[]]. exact U.
    + intros k Hc. destruct (N.eq_dec (kdoc k) d) as [E|E].
      * rewrite curb_set_same in Hc by exact E. cbn [bcv brev] in Hc. apply N.eqb_eq in Hc.
        destruct k as [kd kc ki]; cbn in *; subst. destruct kc; [right; cbn; auto|].
        left. unfold curb. cbn. rewrite B. apply N.eqb_refl.
      * left. rewrite curb_set_other in Hc by exact E. exact Hc.
  - destruct (hbk s d0) as [b|] eqn:B; [|discriminate].
    destruct (hused s (mkK d0 false r)) eqn:U; [discriminate|]. intros H; inversion H; subst; clear H. split.
    + intros k [<-|[]]. exact U.
    + intros k Hc. destruct (N.eq_dec (kdoc k) d) as [E|E].
      * rewrite curb_set_same in Hc by exact E. cbn [bcv brev] in Hc. apply N.eqb_eq in Hc.
        destruct k as [kd kc ki]; cbn in *; subst. destruct kc; [|right; cbn; auto].
        left. unfold curb. cbn. rewrite B. apply N.eqb_refl.
      * left. rewrite curb_set_other in Hc by exact E. exact Hc.
Qed.

(* the writer only removes entries or inserts what the bucket now holds under a current key *)
Lemma writer_cache_spec s w iow m b' e d newk n k c :
  mutate s m = Some (b', e, d, newk) ->
  writer_cache s w iow m b' n k = Some c ->
  hcache s n k = Some c \/ (curb (set_doc (hbk s) d b') k = true /\ c = contb (set_doc (hbk s) d b') k).
Proof.
  intros M. assert (D : forall k0, kdoc k0 = d -> kcv k0 = true -> kid k0 = bcv b' ->
                     curb (set_doc (hbk s) d b') k0 = true /\ ccv b' = contb (set_doc (hbk s) d b') k0).
  { intros k0 E1 E2 E3. rewrite curb_set_same, contb_set_same by exact E1. rewrite E2, E3, N.eqb_refl. auto. }
  destruct m as [d0 r c0 mr mc|d0 r c0 mr mc|d0 c0 mr mc|d0 r mr mc]; cbn [mutate writer_cache] in *.
  - destruct (hused s (mkK d0 false r) || hused s (mkK d0 true c0)); [discriminate|]. inversion M; subst; clear M.
    destruct iow; [|auto]. intros H. destruct (put_absent_cases _ _ _ _ _ _ _ H) as [[-> ->]|H']; [|auto].
    right. apply D; reflexivity.
  - auto.
  - destruct (hbk s d0); [|discriminate]. destruct (hused s (mkK d0 true c0)); [discriminate|]. inversion M; subst; clear M.
    intros H. destruct (set_cache_cases _ _ _ _ _ _ _ H) as [(_ & _ & X)|H']; [discriminate | auto].
  - destruct (hbk s d0) as [b|]; [|discriminate]. destruct (hused s (mkK d0 false r)); [discriminate|]. inversion M; subst; clear M.
    cbn [bcv ccv] in *. destruct iow.
    + intros H. destruct (put_absent_cases _ _ _ _ _ _ _ H) as [[-> ->]|H'].
      * right. apply D; reflexivity.
      * destruct (set_cache_cases _ _ _ _ _ _ _ H') as [(_ & _ & X)|H'']; [discriminate | auto].
    + intros H. destruct (set_cache_cases _ _ _ _ _ _ _ H) as [(_ & _ & X)|H']; [discriminate | auto].
Qed.

Section Inv.
  Variable inval : ev -> ckey -> bool.
  Hypothesis SOUND : inval_sound inval.

  Record HInv (s : hstate) : Prop := mkHInv {
    hi_used : forall n k c, hcache s n k = Some c -> hused s k = true;
    hi_cur : forall k, curb (hbk s) k = true -> hused s k = true;
    hi_stale : forall n k c, hcache s n k = Some c -> curb (hbk s) k = true -> c <> contb (hbk s) k ->
               exists e, In e (hqueue s n) /\ inval e k = true
  }.

  Lemma hinit_inv : HInv hinit.
  Proof. constructor; cbn; intros; discriminate. Qed.

  Lemma hstep_inv s o s' x : HInv s -> hstep inval s o = Some (s', x) -> HInv s'.
  Proof.
    intros [U C S]. destruct o as [w iow m|n|n k old|n k]; cbn [hstep].
    - destruct (mutate s m) as [[[[b' e] d] newk]|] eqn:M; [|discriminate].
      intros H; inversion H; subst; clear H.
      destruct (mutate_spec _ _ _ _ _ _ M) as [FR CU].
      constructor; cbn [hbk hused hcache hqueue].
      + intros n k c H. destruct (writer_cache_spec _ _ _ _ _ _ _ _ _ _ _ M H) as [H'|[Hc _]].
        * apply mark_mono. eapply U; eauto.
        * destruct (CU k Hc) as [X|X]; [apply mark_mono, C, X | apply mark_in, X].
      + intros k Hc. destruct (CU k Hc) as [X|X]; [apply mark_mono, C, X | apply mark_in, X].
      + intros n k c H Hc NE.
        destruct (writer_cache_spec _ _ _ _ _ _ _ _ _ _ _ M H) as [H'|[_ E]]; [|contradiction].
        destruct (CU k Hc) as [X|X].
        * destruct (N.eq_dec c (contb (hbk s) k)) as [E|E].
          -- exists e. split; [apply in_or_app; right; left; reflexivity|].
             eapply (SOUND s m b' e d newk C M); eauto. congruence.
          -- destruct (S n k c H' X E) as (e' & I & V). exists e'. split; [apply in_or_app; left; exact I | exact V].
        * pose proof (FR k X) as F0. rewrite (U n k c H') in F0. discriminate.
    - destruct (hqueue s n) as [|e q] eqn:Q; [discriminate|].
      intros H; inversion H; subst; clear H. constructor; cbn [hbk hused hcache hqueue].
      + intros n' k c H. destruct (Nat.eqb n' n && inval e k); [discriminate|]. eapply U; eauto.
      + exact C.
      + intros n' k c H Hc NE. destruct (Nat.eqb_spec n' n) as [->|N].
        * cbn [andb] in H. destruct (inval e k) eqn:V; [discriminate|].
          destruct (S n k c H Hc NE) as (e' & I & V'). rewrite Q in I. destruct I as [<-|I]; [congruence|].
          exists e'. auto.
        * cbn [andb] in H. apply (S n' k c H Hc NE).
    - destruct (hcache s n k) as [c|] eqn:H0.
      + intros H; inversion H; subst. constructor; assumption.
      + fold (curb (hbk s) k). fold (contb (hbk s) k).
        change (current s k) with (curb (hbk s) k). change (content_of s k) with (contb (hbk s) k).
        destruct (curb (hbk s) k) eqn:Hc.
        * intros H; inversion H; subst; clear H. constructor; cbn [hbk hused hcache hqueue].
          -- intros n' k' c H. destruct (set_cache_cases _ _ _ _ _ _ _ H) as [(_ & -> & _)|H']; [apply C; exact Hc | eapply U; eauto].
          -- exact C.
          -- intros n' k' c H Hc' NE. destruct (set_cache_cases _ _ _ _ _ _ _ H) as [(_ & -> & E)|H'].
             ++ inversion E. congruence.
             ++ apply (S n' k' c H' Hc' NE).
        * destruct old as [c|]; [|intros H; inversion H; subst; constructor; assumption].
          destruct (hused s k) eqn:Uk; [|discriminate].
          intros H; inversion H; subst; clear H. constructor; cbn [hbk hused hcache hqueue].
          -- intros n' k' c' H. destruct (set_cache_cases _ _ _ _ _ _ _ H) as [(_ & -> & _)|H']; [exact Uk | eapply U; eauto].
          -- exact C.
          -- intros n' k' c' H Hc' NE. destruct (set_cache_cases _ _ _ _ _ _ _ H) as [(_ & -> & _)|H']; [congruence|].
             apply (S n' k' c' H' Hc' NE).
    - intros H; inversion H; subst; clear H. constructor; cbn [hbk hused hcache hqueue].
      + intros n' k' c H. destruct (set_cache_cases _ _ _ _ _ _ _ H) as [(_ & _ & X)|H']; [discriminate | eapply U; eauto].
      + exact C.
      + intros n' k' c H Hc NE. destruct (set_cache_cases _ _ _ _ _ _ _ H) as [(_ & _ & X)|H']; [discriminate|].
        apply (S n' k' c H' Hc NE).
  Qed.

  Lemma hrun_inv ops : forall s s', HInv s -> hrun inval s ops = Some s' -> HInv s'.
  Proof.
    induction ops as [|o r IH]; intros s s' HI; cbn [hrun].
    - intros H; inversion H; subst. exact HI.
    - destruct (hstep inval s o) as [[s1 x]|] eqn:E; [|discriminate]. apply IH. eapply hstep_inv; eauto.
  Qed.

  (* a stale entry under a current key exists only while an event that invalidates it is still queued *)
  Lemma stale_only_while_pending ops s :
    hrun inval hinit ops = Some s ->
    forall n k, stale s n k -> exists e, In e (hqueue s n) /\ inval e k = true.
  Proof.
    intros R n k (c & H & Hc & NE). destruct (hrun_inv ops _ _ hinit_inv R) as [_ _ S]. eapply S; eauto.
  Qed.

  (* COHERENCE AFTER THE FEED: once node n has processed its feed, what it has cached under any current key --
     by revTreeID or by CV -- is what a load from the bucket returns for that key, and so is what Get returns *)
  Lemma cache_coherent_after_feed ops s n :
    hrun inval hinit ops = Some s -> hqueue s n = [] ->
    (forall k c, hcache s n k = Some c -> current s k = true -> c = content_of s k) /\
    (forall k old s' r, current s k = true -> hstep inval s (OGet n k old) = Some (s', r) -> r = Some (content_of s k)).
  Proof.
    intros R Q.
    assert (A : forall k c, hcache s n k = Some c -> current s k = true -> c = content_of s k).
    { intros k c H Hc. destruct (N.eq_dec c (content_of s k)) as [E|E]; [exact E|].
      destruct (stale_only_while_pending ops s R n k) as (e & I & _); [exists c; auto|]. rewrite Q in I. contradiction. }
    split; [exact A|].
    intros k old s' r Hc. cbn [hstep]. destruct (hcache s n k) as [c|] eqn:H.
    - intros X; inversion X; subst. f_equal. apply A; assumption.
    - rewrite Hc. intros X; inversion X; reflexivity.
  Qed.
End Inv.

(* DocChanged's rule is sound *)
Lemma docchanged_sound : inval_sound docchanged_inval.
Proof.
  intros s m b' e d newk CU M k Hc Hc' NE.
  pose proof (CU k Hc) as Uk.
  destruct (N.eq_dec (kdoc k) d) as [E|E].
  2:{ rewrite contb_set_other in NE by exact E. congruence. }
  rewrite curb_set_same in Hc' by exact E. apply N.eqb_eq in Hc'.
  destruct k as [kd kc ki]. cbn [kdoc kcv kid] in *. subst kd.
  destruct m as [d0 r c mr mc|d0 r c mr mc|d0 c mr mc|d0 r mr mc]; cbn [mutate] in M.
  - destruct (hused s (mkK d0 false r) || hused s (mkK d0 true c)) eqn:U; [discriminate|].
    apply orb_false_iff in U. destruct U as [U1 U2]. inversion M; subst; clear M. exfalso.
    cbn [bcv brev] in Uk. destruct kc; congruence.
  - destruct (hused s (mkK d0 false r) || hused s (mkK d0 true c)) eqn:U; [discriminate|].
    apply orb_false_iff in U. destruct U as [U1 U2]. inversion M; subst; clear M. exfalso.
    cbn [bcv brev] in Uk. destruct kc; congruence.
  - destruct (hbk s d0) as [b|] eqn:B; [|discriminate].
    destruct (hused s (mkK d0 true c)) eqn:U; [discriminate|]. inversion M; subst; clear M.
    cbn [bcv brev] in Uk. destruct kc; [congruence|].
    unfold docchanged_inval. cbn [e_ux e_doc e_rev andb]. rewrite keqb_refl. reflexivity.
  - destruct (hbk s d0) as [b|] eqn:B; [|discriminate].
    destruct (hused s (mkK d0 false r)) eqn:U; [discriminate|]. inversion M; subst; clear M.
    cbn [bcv brev] in Uk. destruct kc; [|congruence].
    unfold docchanged_inval. cbn [e_uc e_doc e_cv andb]. rewrite keqb_refl. apply orb_true_r.
Qed.

(* the two theorems for the rule the code uses *)
Lemma docchanged_coherent_after_feed ops s n :
  hrun docchanged_inval hinit ops = Some s -> hqueue s n = [] ->
  (forall k c, hcache s n k = Some c -> current s k = true -> c = content_of s k) /\
  (forall k old s' r, current s k = true -> hstep docchanged_inval s (OGet n k old) = Some (s', r) ->
                      r = Some (content_of s k)).
Proof. apply cache_coherent_after_feed. exact docchanged_sound. Qed.

Lemma docchanged_stale_only_while_pending ops s :
  hrun docchanged_inval hinit ops = Some s ->
  forall n k, stale s n k -> exists e, In e (hqueue s n) /\ docchanged_inval e k = true.
Proof. apply stale_only_while_pending. exact docchanged_sound. Qed.
