(* C16 -- statements about whole histories of the sequential model, assembled from the step lemmas *)
From SG Require Import Base.Prelude C16.RevCache C16.RevCacheLemmas C16.RevCacheProofs C16.RevCacheContent.
Open Scope Z_scope.

Definition start_state (l : key -> lres) (a : doc -> ares) := init l a.

Lemma capacity_bound cfg l a ops :
  (length (lru (run cfg (init l a) ops)) <= N.to_nat (cap cfg))%nat.
Proof.
  destruct (init_inv cfg l a) as (A & B & _). destruct (run_inv1 cfg ops _ A B) as [_ C]. exact C.
Qed.

Lemma items_gauge_exact cfg l a ops :
  items (run cfg (init l a) ops) = Z.of_nat (length (lru (run cfg (init l a) ops))) /\
  NoDup (keys (lru (run cfg (init l a) ops))).
Proof.
  destruct (init_inv cfg l a) as (A & B & _). destruct (run_inv1 cfg ops _ A B) as [[ND E] _]. auto.
Qed.

Lemma bytes_gauge_exact cfg l a ops :
  puts_ok cfg (init l a) ops ->
  bytes (run cfg (init l a) ops) = sum_sized (lru (run cfg (init l a) ops)) /\
  Forall (fun kv => vmem (snd kv) = Sized /\ vbody (snd kv) <> None) (lru (run cfg (init l a) ops)).
Proof.
  intros P. destruct (init_inv cfg l a) as (A & B & C).
  destruct (run_inv2 cfg ops _ A B C P) as [F E]. auto.
Qed.

Lemma bytes_gauge_exact_sized_by_key (ksize : key -> N) cfg l a ops :
  (forall k c, l k = LOk c -> csize c = ksize k) -> Forall (op_sized ksize) ops ->
  bytes (run cfg (init l a) ops) = sum_sized (lru (run cfg (init l a) ops)) /\
  Forall (fun kv => vmem (snd kv) = Sized /\ vbody (snd kv) <> None) (lru (run cfg (init l a) ops)).
Proof.
  intros HL HO. apply bytes_gauge_exact. apply (sized_puts_ok ksize); [exact HO | exact HL | constructor].
Qed.

(* ---------- emptying the cache ---------- *)
Lemma only_removes_puts_ok cfg ks : forall s, puts_ok cfg s (map Remove ks).
Proof. induction ks as [|k r IH]; intros s; cbn [map puts_ok]; [exact I|]. split; [exact I | apply IH]. Qed.

Lemma remove_all_empties cfg : forall l s,
  lru s = l -> NoDup (keys l) -> lru (run cfg s (map Remove (keys l))) = [].
Proof.
  induction l as [|[k v] r IH]; intros s E ND; cbn [keys map fst run]; [exact E|].
  inversion ND as [|? ? Hn Hr]; subst.
  apply IH; [|exact Hr].
  cbn [step fst]. unfold remove_op. rewrite E. cbn [lookup]. rewrite N.eqb_refl.
  cbn [lru set_lru remove_key]. rewrite N.eqb_refl. apply remove_key_notin. exact Hn.
Qed.

Lemma run_app cfg a : forall s b, run cfg s (a ++ b) = run cfg (run cfg s a) b.
Proof. induction a as [|o r IH]; intros s b; cbn [app run]; [reflexivity | apply IH]. Qed.

Lemma emptied_gauges_zero cfg l a ops :
  puts_ok cfg (init l a) ops ->
  let s := run cfg (init l a) ops in
  let s' := run cfg s (map Remove (keys (lru s))) in
  lru s' = [] /\ items s' = 0 /\ bytes s' = 0.
Proof.
  intros P s s'. destruct (init_inv cfg l a) as (A & B & C).
  destruct (run_inv1 cfg ops _ A B) as [A1 B1]. pose proof (run_inv2 cfg ops _ A B C P) as C1.
  fold s in A1, B1, C1.
  assert (E : lru s' = []) by (apply remove_all_empties; [reflexivity | exact (proj1 A1)]).
  destruct (run_inv1 cfg (map Remove (keys (lru s))) s A1 B1) as [[_ I1] _].
  destruct (run_inv2 cfg (map Remove (keys (lru s))) s A1 B1 C1 (only_removes_puts_ok cfg _ s)) as [_ I2].
  fold s' in I1, I2. rewrite E in I1, I2. cbn in I1, I2. auto.
Qed.

Lemma empty_cache_gauges_zero cfg l a ops :
  puts_ok cfg (init l a) ops -> lru (run cfg (init l a) ops) = [] ->
  items (run cfg (init l a) ops) = 0 /\ bytes (run cfg (init l a) ops) = 0.
Proof.
  intros P E. destruct (items_gauge_exact cfg l a ops) as [I _]. destruct (bytes_gauge_exact cfg l a ops P) as [B _].
  rewrite E in I, B. cbn in I, B. auto.
Qed.

(* ---------- failed loads ---------- *)
Lemma failed_load_not_cached cfg s o e :
  ores (snd (step cfg s o)) = RErr e ->
  match o with
  | Get k => ~ In k (keys (lru (fst (step cfg s o))))
  | GetActive d => forall k, act s d = ADoc k -> ~ In k (keys (lru (fst (step cfg s o))))
  | _ => True
  end.
Proof.
  destruct o as [k|d|k c|k c|k|k|k r|d a]; cbn [step]; try (intros; exact I).
  - intros H. apply lookup_none_notin. eapply get_key_failed. exact H.
  - intros H k A. rewrite A in *. apply lookup_none_notin. eapply get_key_failed. exact H.
Qed.

(* ---------- served content ---------- *)
Lemma get_equals_fresh_load cfg l a ops k :
  writes_through cfg (init l a) ops -> pending k ops = false ->
  ores (snd (step cfg (run cfg (init l a) ops) (Get k))) = fresh (run cfg (init l a) ops) k.
Proof.
  intros W P. cbn [step]. apply get_key_fresh.
  apply (run_coherent cfg k ops (init l a) false); auto. intros _. apply init_coherent.
Qed.

Lemma pending_after_remove k ops : pending k (ops ++ [Remove k]) = false.
Proof. unfold pending. rewrite fold_left_app. cbn [fold_left stale_flag]. rewrite N.eqb_refl. reflexivity. Qed.

Lemma stale_dropped_after_feed cfg l a ops k :
  writes_through cfg (init l a) (ops ++ [Remove k]) ->
  ores (snd (step cfg (run cfg (init l a) (ops ++ [Remove k])) (Get k))) =
  fresh (run cfg (init l a) (ops ++ [Remove k])) k.
Proof. intros W. apply get_equals_fresh_load; [exact W | apply pending_after_remove]. Qed.

Lemma get_active_equals_fresh_load cfg l a ops d k :
  writes_through cfg (init l a) ops -> pending k ops = false ->
  act (run cfg (init l a) ops) d = ADoc k ->
  ores (snd (step cfg (run cfg (init l a) ops) (GetActive d))) = fresh (run cfg (init l a) ops) k.
Proof.
  intros W P A. cbn [step]. rewrite A. apply get_key_fresh.
  apply (run_coherent cfg k ops (init l a) false); auto. intros _. apply init_coherent.
Qed.

(* ---------- memory-based eviction keeps the byte total within the limit ---------- *)
Lemma sized_bytes_nonneg v : 0 <= sized_bytes v.
Proof. unfold sized_bytes. destruct (vmem v); lia. Qed.

Lemma step_shape cfg s o :
  (exists x, fst (step cfg s o) = mem_evict cfg x) \/ bytes (fst (step cfg s o)) <= bytes s.
Proof.
  assert (G : forall k, (exists x, fst (get_key cfg k s) = mem_evict cfg x) \/ bytes (fst (get_key cfg k s)) <= bytes s).
  { intros k. unfold get_key, get_value.
    destruct (lookup k (lru s)) as [v|].
    - cbn [lru items bytes set_lru lookup]. rewrite N.eqb_refl.
      destruct (vbody v); [right; cbn; lia|].
      destruct (ld s k); [destruct (vmem v)|]; cbn [fst]; try (right; cbn; lia). left. eauto.
    - cbn [lru items bytes set_lru].
      destruct (N.to_nat (cap cfg)) as [|n].
      + cbn [firstn skipn lookup]. pose proof (sum_sized_nonneg ((k, placeholder) :: lru s)).
        destruct (ld s k); right; cbn [fst bytes set_lru]; lia.
      + cbn [firstn skipn lookup]. rewrite N.eqb_refl. cbn [placeholder vbody vmem].
        destruct (ld s k); cbn [fst]; [left; eauto|].
        right. cbn [bytes set_lru]. pose proof (sum_sized_nonneg (skipn n (lru s))). lia. }
  destruct o as [k|d|k c|k c|k|k|k r|d a]; cbn [step].
  - apply G.
  - destruct (act s d); cbn [fst]; [apply G | right; lia | right; lia].
  - cbn [fst]. left. unfold put_key.
    destruct (lookup k (lru (get_value cfg k s))) as [v|]; [destruct (vmem v)|]; eauto.
  - cbn [fst]. left. unfold upsert_key.
    destruct (match lookup k (lru s) with
      | Some v => (remove_key k (lru s), items s, bytes s - sized_bytes v)
      | None => (lru s, items s + 1, bytes s) end) as [[l0 i0] b0].
    destruct (lookup k (firstn (N.to_nat (cap cfg)) ((k, placeholder) :: l0))); eauto.
  - cbn [fst]. right. unfold remove_op. destruct (lookup k (lru s)) as [v|]; cbn [bytes set_lru]; [|lia].
    pose proof (sized_bytes_nonneg v). lia.
  - right. unfold peek_op. destruct (lookup k (lru s)); cbn; lia.
  - right. cbn. lia.
  - right. cbn. lia.
Qed.

Lemma memory_bound cfg l a ops :
  orch cfg = true -> maxb cfg <> 0%N -> puts_ok cfg (init l a) ops ->
  bytes (run cfg (init l a) ops) <= Z.of_N (maxb cfg).
Proof.
  intros O M.
  assert (G : forall ops s, wf1 s -> capped cfg s -> wf2 s -> bytes s <= Z.of_N (maxb cfg) ->
              puts_ok cfg s ops -> bytes (run cfg s ops) <= Z.of_N (maxb cfg)).
  { induction ops0 as [|o r IH]; intros s A B C Hb P; cbn [run]; [exact Hb|].
    destruct P as [P0 P]. destruct (step_inv cfg s o A B) as (A1 & B1 & C1).
    apply IH; auto.
    destruct (step_shape cfg s o) as [[x E]|E]; [|lia].
    destruct (mem_evict_bound cfg x O M) as [H|H]; rewrite <- E in H; [exact H|].
    destruct (C1 C P0) as [_ Eb]. rewrite Eb, H. cbn. lia. }
  intros P. destruct (init_inv cfg l a) as (A & B & C). apply G; auto. cbn. lia.
Qed.

(* ---------- data of the non-vacuity example (C16_Properties.C16_nonvacuous) ---------- *)
Definition ex_cfg : config := mkCfg 2 100 true.
Definition ex_ld : key -> lres := fun k => if N.eqb k 9 then LErr 404 else LOk (mkC k (40 + k)).
Definition ex_act : doc -> ares := fun d => ADoc d.
Definition ex_ops : list op :=
  [Get 1%N; Get 9%N; Put 2%N (mkC 2 42); Get 3%N; SetLoad 1%N (LOk (mkC 77 41)); Get 1%N; Remove 1%N;
   Upsert 3%N (mkC 3 43); Peek 2%N].
