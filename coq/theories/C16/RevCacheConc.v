(* C16 -- small-step interleaving model of the load / account / remove / evict life cycle of
   db/revision_cache_lru.go.

   Shared state: a heap of revCacheValues (index = identity of the *revCacheValue; values are never
   freed, [cin] says whether the cache map / LRU list still holds the value), the two gauges, and one
   program counter per goroutine.  Every lock-protected region and every atomic operation is one step;
   an action list is a schedule and the theorems quantify over ALL action lists.

   Steps of LRURevisionCache.Get:   getValue (AGet) ; value.load under the value lock (ALoad) ;
                                    CAS Loading->Sized (GCas) ; incrementBytesCount(getItemBytes()) (GInc) ;
                                    on error removeValueForFailedLoad = mark (GFailMark) ; unlink (GFailUnlink)
   Steps of Put / Upsert:           getValue or upsertDocToCache's insert (APut) ; itemBytes.Store (PBytes) ;
                                    CAS (PCas) ; incrementBytesCount (PInc) ; value.store (PStore)
   AEvict i = any of: Remove(key of i), _numberCapacityEviction / evictLRUTail reaching value i,
              upsertDocToCache unlinking the old value: unlink + Swap(Removed) + decrement-if-Sized.
   Over-approximations (more schedules than the code allows, so the invariant covers the code):
   eviction may hit any cached value at any time (not only the LRU tail when over capacity); the
   eviction loop inside getValue and the deferred, unconditional gauge updates (Upsert's item decrement,
   triggerMemoryEviction's summed decrement) are merged into / split from the step that determines them.
   The loader outcome ([ALoad t ok]) is chosen by the schedule.

   [fixed] selects removeValueForFailedLoad's marking step:
     false = the code as found:  value.memState.Store(memStateRemoved)
     true  = repaired:           if value.memState.Swap(memStateRemoved) == memStateSized { decrement }   *)
From SG Require Import Base.Prelude C16.RevCache.
Open Scope Z_scope.

Record cval := mkCV {
  ck : key;            (* itemKey *)
  cloaded : bool;      (* bodyBytes != nil *)
  cerr : bool;         (* err != nil *)
  cby : N;             (* itemBytes *)
  cm : mem;            (* memState *)
  cin : bool           (* still in cache map + LRU list *)
}.

Inductive pc :=
| Idle
| GLoad (i : nat) (k : key)
| GCas (i : nat) (k : key)
| GInc (i : nat) (k : key)
| GFailMark (i : nat) (k : key)
| GFailUnlink (i : nat) (k : key)
| PBytes (i : nat) (k : key)
| PCas (i : nat) (k : key)
| PInc (i : nat) (k : key)
| PStore (i : nat) (k : key).

Record cstate := mkCS { heap : list cval; thr : list pc; gi : Z; gb : Z }.

Inductive cact :=
| AGet (t : nat) (k : key) (found : option nat)   (* getValue: [Some i] = the map holds value i for k; [None] = insert *)
| APut (t : nat) (k : key) (found : option nat)   (* Put's getValue, or Upsert's insert (found = None after AEvict of the old one) *)
| AEvict (i : nat)
| ALoad (t : nat) (ok : bool)
| AStep (t : nat).

Fixpoint upd {A} (i : nat) (x : A) (l : list A) : list A :=
  match l, i with
  | [], _ => []
  | _ :: r, O => x :: r
  | y :: r, S j => y :: upd j x r
  end.

Definition fresh_val (k : key) : cval := mkCV k false false 0%N Loading true.

Definition key_free (k : key) (h : list cval) : bool :=
  forallb (fun v => negb (cin v && N.eqb (ck v) k)) h.

Definition mem_is_sized (m : mem) : bool := match m with Sized => true | _ => false end.
Definition mem_is_loading (m : mem) : bool := match m with Loading => true | _ => false end.

Section Conc.
  Variable ksize : key -> N.     (* the size CalculateBytes gives the revision stored under a key *)
  Variable fixed : bool.

  Definition start (s : cstate) (t : nat) (k : key) (found : option nat) (mk : nat -> key -> pc) : option cstate :=
    match nth_error (thr s) t with
    | Some Idle =>
        match found with
        | Some i =>
            match nth_error (heap s) i with
            | Some v => if cin v && N.eqb (ck v) k
                        then Some (mkCS (heap s) (upd t (mk i k) (thr s)) (gi s) (gb s)) else None
            | None => None
            end
        | None =>
            if key_free k (heap s)
            then Some (mkCS (heap s ++ [fresh_val k]) (upd t (mk (length (heap s)) k) (thr s)) (gi s + 1) (gb s))
            else None
        end
    | _ => None
    end.

  Definition set_heap (s : cstate) (i : nat) (v : cval) (t : nat) (p : pc) (i' b' : Z) : cstate :=
    mkCS (upd i v (heap s)) (upd t p (thr s)) i' b'.

  Definition step_thread (s : cstate) (t : nat) : option cstate :=
    match nth_error (thr s) t with
    | Some (GCas i k) =>
        match nth_error (heap s) i with
        | Some v =>
            if mem_is_loading (cm v)
            then Some (set_heap s i (mkCV (ck v) (cloaded v) (cerr v) (cby v) Sized (cin v)) t (GInc i k) (gi s) (gb s))
            else Some (set_heap s i v t Idle (gi s) (gb s))
        | None => None
        end
    | Some (GInc i k) =>
        match nth_error (heap s) i with
        | Some v => Some (set_heap s i v t Idle (gi s) (gb s + Z.of_N (cby v)))
        | None => None
        end
    | Some (GFailMark i k) =>
        match nth_error (heap s) i with
        | Some v =>
            let dec := if fixed && mem_is_sized (cm v) then Z.of_N (cby v) else 0 in
            Some (set_heap s i (mkCV (ck v) (cloaded v) (cerr v) (cby v) Removed (cin v)) t (GFailUnlink i k)
                           (gi s) (gb s - dec))
        | None => None
        end
    | Some (GFailUnlink i k) =>
        match nth_error (heap s) i with
        | Some v =>
            if cin v
            then Some (set_heap s i (mkCV (ck v) (cloaded v) (cerr v) (cby v) (cm v) false) t Idle (gi s - 1) (gb s))
            else Some (set_heap s i v t Idle (gi s) (gb s))
        | None => None
        end
    | Some (PBytes i k) =>
        match nth_error (heap s) i with
        | Some v => Some (set_heap s i (mkCV (ck v) (cloaded v) (cerr v) (ksize k) (cm v) (cin v)) t (PCas i k) (gi s) (gb s))
        | None => None
        end
    | Some (PCas i k) =>
        match nth_error (heap s) i with
        | Some v =>
            if mem_is_loading (cm v)
            then Some (set_heap s i (mkCV (ck v) (cloaded v) (cerr v) (cby v) Sized (cin v)) t (PInc i k) (gi s) (gb s))
            else Some (set_heap s i v t (PStore i k) (gi s) (gb s))
        | None => None
        end
    | Some (PInc i k) =>
        match nth_error (heap s) i with
        | Some v => Some (set_heap s i v t (PStore i k) (gi s) (gb s + Z.of_N (ksize k)))
        | None => None
        end
    | Some (PStore i k) =>
        match nth_error (heap s) i with
        | Some v =>
            if cloaded v then Some (set_heap s i v t Idle (gi s) (gb s))
            else Some (set_heap s i (mkCV (ck v) true false (ksize k) (cm v) (cin v)) t Idle (gi s) (gb s))
        | None => None
        end
    | _ => None
    end.

  Definition cstep (s : cstate) (a : cact) : option cstate :=
    match a with
    | AGet t k found => start s t k found GLoad
    | APut t k found => start s t k found PBytes
    | AEvict i =>
        match nth_error (heap s) i with
        | Some v =>
            if cin v
            then Some (mkCS (upd i (mkCV (ck v) (cloaded v) (cerr v) (cby v) Removed false) (heap s)) (thr s)
                            (gi s - 1) (gb s - (if mem_is_sized (cm v) then Z.of_N (cby v) else 0)))
            else None
        | None => None
        end
    | ALoad t ok =>
        match nth_error (thr s) t with
        | Some (GLoad i k) =>
            match nth_error (heap s) i with
            | Some v =>
                if cloaded v || cerr v
                then Some (set_heap s i v t (if cerr v then GFailMark i k else Idle) (gi s) (gb s))       (* cache hit *)
                else if ok
                then Some (set_heap s i (mkCV (ck v) true false (ksize k) (cm v) (cin v)) t (GCas i k) (gi s) (gb s))
                else Some (set_heap s i (mkCV (ck v) false true (cby v) (cm v) (cin v)) t (GFailMark i k) (gi s) (gb s))
            | None => None
            end
        | _ => None
        end
    | AStep t => step_thread s t
    end.

  Fixpoint crun (s : cstate) (acts : list cact) : option cstate :=
    match acts with
    | [] => Some s
    | a :: r => match cstep s a with Some s' => crun s' r | None => None end
    end.

  Definition cinit (n : nat) : cstate := mkCS [] (repeat Idle n) 0 0.

  Definition quiescent (s : cstate) : Prop := Forall (fun p => p = Idle) (thr s).

  (* what the gauges are supposed to report *)
  Definition sumf {A} (g : A -> Z) (l : list A) : Z := fold_right (fun x a => g x + a) 0 l.
  Definition cached_sized_bytes (s : cstate) : Z :=
    sumf (fun v => if cin v && mem_is_sized (cm v) then Z.of_N (cby v) else 0) (heap s).
  Definition cached_count (s : cstate) : Z := sumf (fun v => if cin v then 1 else 0) (heap s).
End Conc.
