(* C16 -- RevisionCacheOrchestrator WITH its delta cache (db/revision_cache_orchestrator.go with
   initDeltaCache = true, db/delta_cache_lru.go), sequential model: one [dstep] = one public call running alone.

   The revision cache and the delta cache share ONE CacheMemoryController (one byte counter, one limit).
   All updates of that counter are additive, so the model keeps the counter as two shares:
       [bytes (drs s)]  what the revision cache added / subtracted     (RevCache.v, unchanged)
       [dby s]          what the delta cache added / subtracted
   and the value the code holds (bytesInUseForShard = RevisionCacheTotalMemory) is [total s], their sum.
   The only place where the code reads the counter absolutely is triggerMemoryEviction (IsOverCapacity /
   bytesToEvict); it is modelled on the sum.  The revision-cache part of every call is RevCache.step with
   [orch := false] (the plain LRURevisionCache), followed -- where the orchestrator does so -- by [trigger],
   the two-cache eviction loop with its round-robin flag evictNextFromRev.

   addDelta: existing key -> MoveToFront only (the cached delta is NOT replaced); otherwise PushFront, count + 1,
   number eviction down to MaxItemCount, counter + totalDeltaBytes - evicted bytes.
   The delta cache has no Remove: a delta leaves only by eviction. *)
From SG Require Import Base.Prelude C16.RevCache.
Open Scope Z_scope.

Definition dkey := N.     (* interned (docID, fromVersion, toVersion) *)

Record dstate := mkD {
  drs  : state;               (* the LRURevisionCache; [bytes] = its share of the byte counter *)
  dlru : list (dkey * N);     (* LRUDeltaCache.lruList front -> back, with totalDeltaBytes of each delta *)
  dnum : Z;                   (* DeltaCacheNumItems *)
  dby  : Z;                   (* the delta cache's share of the byte counter *)
  dtog : bool                 (* RevisionCacheOrchestrator.evictNextFromRev *)
}.

Definition total (s : dstate) : Z := bytes (drs s) + dby s.

Fixpoint dsum (l : list (dkey * N)) : Z :=
  match l with [] => 0 | (_, n) :: r => Z.of_N n + dsum r end.

Fixpoint dlookup (k : dkey) (l : list (dkey * N)) : option N :=
  match l with
  | [] => None
  | (k', n) :: r => if N.eqb k k' then Some n else dlookup k r
  end.

Fixpoint dremove (k : dkey) (l : list (dkey * N)) : list (dkey * N) :=
  match l with
  | [] => []
  | (k', n) :: r => if N.eqb k k' then dremove k r else (k', n) :: dremove k r
  end.

Definition dkeys (l : list (dkey * N)) : list dkey := map fst l.

(* ---------- _evictOneItem: flip the flag, try the preferred cache, fall back to the other ----------
   [rl], [dl]: the two LRU lists reversed (tails first).  Result: bytes reported by evictLRUTail (0 for a
   revision that is not Sized), whether it came from the revision cache, the remaining lists. *)
Definition evict_one (tog : bool) (rl : list (key * value)) (dl : list (dkey * N))
  : option (Z * bool * list (key * value) * list (dkey * N)) :=
  if negb tog
  then match rl, dl with
       | (_, v) :: r, _ => Some (sized_bytes v, true, r, dl)
       | [], (_, n) :: d => Some (Z.of_N n, false, rl, d)
       | [], [] => None
       end
  else match dl, rl with
       | (_, n) :: d, _ => Some (Z.of_N n, false, rl, d)
       | [], (_, v) :: r => Some (sized_bytes v, true, r, dl)
       | [], [] => None
       end.

(* the loop of triggerMemoryEviction; rb / db = bytes removed from the revision / delta cache so far,
   n / dn = items removed *)
Fixpoint evict2 (fuel : nat) (need rb db : Z) (tog : bool) (rl : list (key * value)) (dl : list (dkey * N))
  (n dn : Z) : list (key * value) * list (dkey * N) * Z * Z * Z * Z * bool :=
  match fuel with
  | O => (rl, dl, rb, db, n, dn, tog)
  | S f =>
      if rb + db <? need then
        match evict_one tog rl dl with
        | Some (b, true, rl', dl') => evict2 f need (rb + b) db (negb tog) rl' dl' (n + 1) dn
        | Some (b, false, rl', dl') => evict2 f need rb (db + b) (negb tog) rl' dl' n (dn + 1)
        | None => (rl, dl, rb, db, n, dn, negb tog)
        end
      else (rl, dl, rb, db, n, dn, tog)
  end.

Definition with_rs (s : dstate) (r : state) : dstate := mkD r (dlru s) (dnum s) (dby s) (dtog s).

Definition trigger (cfg : config) (s : dstate) : dstate :=
  if N.eqb (maxb cfg) 0 || (total s <=? Z.of_N (maxb cfg)) then s
  else
    match evict2 (S (length (lru (drs s)) + length (dlru s))) (total s - Z.of_N (maxb cfg)) 0 0 (dtog s)
                 (rev (lru (drs s))) (rev (dlru s)) 0 0 with
    | (rl, dl, rb, db, n, dn, tog) =>
        mkD (set_lru (drs s) (rev rl) (items (drs s) - n) (bytes (drs s) - rb))
            (rev dl) (dnum s - dn) (dby s - db) tog
    end.

(* ---------- LRUDeltaCache.addDelta ---------- *)
Definition add_delta (cfg : config) (dk : dkey) (sz : N) (s : dstate) : dstate :=
  match dlookup dk (dlru s) with
  | Some n => mkD (drs s) ((dk, n) :: dremove dk (dlru s)) (dnum s) (dby s) (dtog s)
  | None =>
      let l1 := (dk, sz) :: dlru s in
      let kept := firstn (N.to_nat (cap cfg)) l1 in
      let ev := skipn (N.to_nat (cap cfg)) l1 in
      mkD (drs s) kept (dnum s + 1 - Z.of_nat (length ev)) (dby s + Z.of_N sz - dsum ev) (dtog s)
  end.

(* LRUDeltaCache.getCachedDelta: MoveToFront on a hit *)
Definition get_delta (dk : dkey) (s : dstate) : dstate * option N :=
  match dlookup dk (dlru s) with
  | Some n => (mkD (drs s) ((dk, n) :: dremove dk (dlru s)) (dnum s) (dby s) (dtog s), Some n)
  | None => (s, None)
  end.

Inductive dop :=
| DRev (o : op)                      (* Get / GetActive / Put / Upsert / Remove / Peek and storage changes *)
| DUpdate (dk : dkey) (sz : N)       (* UpdateDelta with a delta of totalDeltaBytes = sz *)
| DGetWith (k : key) (dk : dkey).    (* GetWithDelta(from = k, delta key dk) *)

Record dout := mkDO { xres : res; xflag : bool; xdelta : option N }.

Definition cfg0 (cfg : config) : config := mkCfg (cap cfg) (maxb cfg) false.

(* does the orchestrator call triggerMemoryEviction after this revision-cache call? *)
Definition triggers (o : op) (x : out) : bool :=
  match o with
  | Get _ | GetActive _ => oflag x
  | Put _ _ | Upsert _ _ => true
  | _ => false
  end.

Definition dstep (cfg : config) (s : dstate) (o : dop) : dstate * dout :=
  match o with
  | DRev o =>
      let '(r, x) := step (cfg0 cfg) (drs s) o in
      let s1 := with_rs s r in
      (if triggers o x then trigger cfg s1 else s1, mkDO (ores x) (oflag x) None)
  | DUpdate dk sz => (trigger cfg (add_delta cfg dk sz s), mkDO RUnit false None)
  | DGetWith k dk =>
      let '(r, x) := get_key (cfg0 cfg) k (drs s) in
      let s1 := with_rs s r in
      match ores x with
      | RErr e => (s1, mkDO (RErr e) false None)
      | _ =>
          let '(s2, d) := get_delta dk s1 in
          (if oflag x then trigger cfg s2 else s2, mkDO (ores x) false d)   (* GetWithDelta does not return the flag *)
      end
  end.

Definition dinit (l : key -> lres) (a : doc -> ares) : dstate := mkD (init l a) [] 0 0 false.

Fixpoint drun (cfg : config) (s : dstate) (ops : list dop) : dstate :=
  match ops with
  | [] => s
  | o :: r => drun cfg (fst (dstep cfg s o)) r
  end.
