(* C16 -- ShardedLRURevisionCache: independent shards (own capacity, own memory controller) behind a hash
   of the docID; the two gauges are shared, i.e. the reported totals are the sums over the shards.
   The shard an op is routed to is an input (sgbucket.VBHash is not modelled). *)
From SG Require Import Base.Prelude C16.RevCache C16.RevCacheLemmas C16.RevCacheProofs.
Open Scope Z_scope.

Fixpoint set_nth {A} (n : nat) (x : A) (l : list A) : list A :=
  match l, n with
  | [], _ => []
  | _ :: r, O => x :: r
  | y :: r, S m => y :: set_nth m x r
  end.

Definition is_world_op (o : op) : bool :=
  match o with SetLoad _ _ | SetActive _ _ => true | _ => false end.

(* one routed op on the list of shard states; storage changes are seen by every shard *)
Definition step_sh (cfgs : list config) (sts : list state) (w : N * op) : list state * out :=
  let '(i, o) := w in
  if is_world_op o then
    (map (fun cs => fst (step (fst cs) (snd cs) o)) (combine cfgs sts), mkO RUnit false)
  else
    match nth_error cfgs (N.to_nat i), nth_error sts (N.to_nat i) with
    | Some cfg, Some s => let '(s', x) := step cfg s o in (set_nth (N.to_nat i) s' sts, x)
    | _, _ => (sts, mkO REmpty false)
    end.

Fixpoint run_sh (cfgs : list config) (sts : list state) (ops : list (N * op)) : list state :=
  match ops with
  | [] => sts
  | w :: r => run_sh cfgs (fst (step_sh cfgs sts w)) r
  end.

Definition init_sh (cfgs : list config) (l : key -> lres) (a : doc -> ares) : list state :=
  map (fun _ => init l a) cfgs.

Definition sumZ (l : list Z) : Z := fold_right Z.add 0 l.

(* Put lands on a cached value only with the size that value was accounted with, in the shard it is routed to *)
Definition put_ok_sh (sts : list state) (w : N * op) : Prop :=
  match nth_error sts (N.to_nat (fst w)) with Some s => put_ok s (snd w) | None => True end.

Fixpoint puts_ok_sh (cfgs : list config) (sts : list state) (ops : list (N * op)) : Prop :=
  match ops with
  | [] => True
  | w :: r => put_ok_sh sts w /\ puts_ok_sh cfgs (fst (step_sh cfgs sts w)) r
  end.

Lemma Forall2_set_nth {A B} (R : A -> B -> Prop) : forall l1 l2 i a x,
  Forall2 R l1 l2 -> nth_error l1 i = Some a -> R a x -> Forall2 R l1 (set_nth i x l2).
Proof.
  induction l1 as [|c r IH]; intros l2 i a x F H Rx; inversion F; subst; cbn [set_nth].
  - destruct i; constructor.
  - destruct i as [|i]; cbn in H.
    + inversion H; subst. constructor; assumption.
    + constructor; [assumption|]. eapply IH; eauto.
Qed.

Lemma Forall2_nth_error {A B} (R : A -> B -> Prop) : forall l1 l2 i a b,
  Forall2 R l1 l2 -> nth_error l1 i = Some a -> nth_error l2 i = Some b -> R a b.
Proof.
  induction l1 as [|c r IH]; intros l2 i a b F H1 H2; inversion F; subst; destruct i; cbn in *; try discriminate.
  - inversion H1; inversion H2; subst. assumption.
  - eapply IH; eauto.
Qed.

Lemma Forall2_map_combine {A B} (R : A -> B -> Prop) (f : A -> B -> B) : forall l1 l2,
  Forall2 R l1 l2 -> (forall a b, R a b -> R a (f a b)) ->
  Forall2 R l1 (map (fun ab => f (fst ab) (snd ab)) (combine l1 l2)).
Proof.
  induction l1 as [|a r IH]; intros l2 F H; inversion F; subst; cbn; constructor; auto.
Qed.

Definition shard_ok (cfg : config) (s : state) : Prop := wf1 s /\ capped cfg s.
Definition shard_ok2 (cfg : config) (s : state) : Prop := wf1 s /\ capped cfg s /\ wf2 s.

Lemma world_op_put_ok s o : is_world_op o = true -> put_ok s o.
Proof. destruct o; cbn; intros; try discriminate; exact I. Qed.

Lemma step_sh_ok cfgs sts w : Forall2 shard_ok cfgs sts -> Forall2 shard_ok cfgs (fst (step_sh cfgs sts w)).
Proof.
  intros F. destruct w as [i o]. unfold step_sh.
  destruct (is_world_op o) eqn:W; cbn [fst].
  - apply (Forall2_map_combine shard_ok (fun c s => fst (step c s o))); [exact F|].
    intros c s [A B]. destruct (step_inv c s o A B) as (A1 & B1 & _). split; assumption.
  - destruct (nth_error cfgs (N.to_nat i)) as [cfg|] eqn:Hc; [|exact F].
    destruct (nth_error sts (N.to_nat i)) as [s|] eqn:Hs; [|exact F].
    destruct (step cfg s o) as [s' x] eqn:E. cbn [fst].
    destruct (Forall2_nth_error _ _ _ _ _ _ F Hc Hs) as [A B].
    destruct (step_inv cfg s o A B) as (A1 & B1 & _). rewrite E in A1, B1. cbn [fst] in A1, B1.
    eapply Forall2_set_nth; eauto. split; assumption.
Qed.

Lemma step_sh_ok2 cfgs sts w :
  Forall2 shard_ok2 cfgs sts -> put_ok_sh sts w -> Forall2 shard_ok2 cfgs (fst (step_sh cfgs sts w)).
Proof.
  intros F P. destruct w as [i o]. unfold step_sh. unfold put_ok_sh in P. cbn [fst snd] in P.
  destruct (is_world_op o) eqn:W; cbn [fst].
  - apply (Forall2_map_combine shard_ok2 (fun c s => fst (step c s o))); [exact F|].
    intros c s (A & B & C). destruct (step_inv c s o A B) as (A1 & B1 & C1).
    split; [assumption|]. split; [assumption|]. apply C1; [exact C | apply world_op_put_ok; exact W].
  - destruct (nth_error cfgs (N.to_nat i)) as [cfg|] eqn:Hc; [|exact F].
    destruct (nth_error sts (N.to_nat i)) as [s|] eqn:Hs; [|exact F].
    destruct (step cfg s o) as [s' x] eqn:E. cbn [fst].
    destruct (Forall2_nth_error _ _ _ _ _ _ F Hc Hs) as (A & B & C).
    destruct (step_inv cfg s o A B) as (A1 & B1 & C1). rewrite E in A1, B1, C1. cbn [fst] in A1, B1, C1.
    eapply Forall2_set_nth; eauto. split; [assumption|]. split; [assumption|]. auto.
Qed.

Lemma init_sh_ok2 cfgs l a : Forall2 shard_ok2 cfgs (init_sh cfgs l a).
Proof.
  unfold init_sh. induction cfgs as [|c r IH]; cbn; constructor; [|exact IH].
  destruct (init_inv c l a) as (A & B & C). split; [assumption|]. split; assumption.
Qed.

Lemma shard_ok2_ok cfgs sts : Forall2 shard_ok2 cfgs sts -> Forall2 shard_ok cfgs sts.
Proof. induction 1 as [|c s cr sr (A & B & C) F IH]; constructor; [split; assumption | exact IH]. Qed.

Lemma run_sh_ok cfgs ops : forall sts, Forall2 shard_ok cfgs sts -> Forall2 shard_ok cfgs (run_sh cfgs sts ops).
Proof. induction ops as [|w r IH]; intros sts F; cbn [run_sh]; [exact F|]. apply IH. apply step_sh_ok. exact F. Qed.

Lemma run_sh_ok2 cfgs ops : forall sts,
  Forall2 shard_ok2 cfgs sts -> puts_ok_sh cfgs sts ops -> Forall2 shard_ok2 cfgs (run_sh cfgs sts ops).
Proof.
  induction ops as [|w r IH]; intros sts F P; cbn [run_sh]; [exact F|].
  destruct P as [P0 P]. apply IH; [apply step_sh_ok2; assumption | exact P].
Qed.

Lemma totals_items cfgs sts : Forall2 shard_ok cfgs sts ->
  sumZ (map items sts) = Z.of_nat (length (concat (map lru sts))) /\
  Forall2 (fun cfg s => (length (lru s) <= N.to_nat (cap cfg))%nat) cfgs sts.
Proof.
  induction 1 as [|c s cr sr [[_ E] B] F [IH1 IH2]]; cbn [map sumZ fold_right concat]; [split; [reflexivity | constructor]|].
  fold (sumZ (map items sr)). rewrite app_length, IH1, E. split; [lia | constructor; assumption].
Qed.

Lemma totals_bytes cfgs sts : Forall2 shard_ok2 cfgs sts ->
  sumZ (map bytes sts) = sum_sized (concat (map lru sts)).
Proof.
  induction 1 as [|c s cr sr (_ & _ & _ & E) F IH]; cbn [map sumZ fold_right concat]; [reflexivity|].
  fold (sumZ (map bytes sr)). rewrite sum_sized_app, IH, E. reflexivity.
Qed.

Lemma sharded_gauges_exact cfgs l a ops :
  let sts := run_sh cfgs (init_sh cfgs l a) ops in
  sumZ (map items sts) = Z.of_nat (length (concat (map lru sts))) /\
  Forall2 (fun cfg s => (length (lru s) <= N.to_nat (cap cfg))%nat) cfgs sts /\
  (puts_ok_sh cfgs (init_sh cfgs l a) ops -> sumZ (map bytes sts) = sum_sized (concat (map lru sts))).
Proof.
  intros sts.
  pose proof (run_sh_ok cfgs ops _ (shard_ok2_ok _ _ (init_sh_ok2 cfgs l a))) as F.
  destruct (totals_items cfgs sts F) as [A B]. split; [exact A|]. split; [exact B|].
  intros P. apply (totals_bytes cfgs). apply run_sh_ok2; [apply init_sh_ok2 | exact P].
Qed.
