(* C16 -- list lemmas about the association list that models cache map + LRU list *)
From SG Require Import Base.Prelude C16.RevCache.
Open Scope Z_scope.

Lemma lookup_none_notin k l : lookup k l = None <-> ~ In k (keys l).
Proof.
  induction l as [|[k' v'] r IH]; cbn [lookup keys map fst In].
  - tauto.
  - destruct (N.eqb_spec k k') as [E|E].
    + split; [discriminate | intros H; exfalso; apply H; left; congruence].
    + fold (keys r). rewrite IH. split; [intros H [H1|H1]; [congruence | tauto] | tauto].
Qed.

Lemma lookup_some_in k l v : lookup k l = Some v -> In k (keys l).
Proof.
  intros H. destruct (in_dec N.eq_dec k (keys l)) as [i|n]; [exact i|].
  apply lookup_none_notin in n. congruence.
Qed.

Lemma lookup_in_pair k l v : lookup k l = Some v -> In (k, v) l.
Proof.
  induction l as [|[k' v'] r IH]; cbn [lookup In]; [discriminate|].
  destruct (N.eqb_spec k k') as [E|E]; intros H.
  - left. congruence.
  - right. auto.
Qed.

Lemma remove_key_notin k l : ~ In k (keys l) -> remove_key k l = l.
Proof.
  induction l as [|[k' v'] r IH]; cbn [remove_key keys map fst In]; [reflexivity|].
  intros H. destruct (N.eqb_spec k k') as [E|E]; [exfalso; apply H; left; congruence|].
  f_equal. apply IH. intros H1. apply H. right. exact H1.
Qed.

Lemma keys_remove_key_in x k l : In x (keys (remove_key k l)) -> In x (keys l) /\ x <> k.
Proof.
  induction l as [|[k' v'] r IH]; cbn [remove_key keys map fst In]; [tauto|].
  destruct (N.eqb_spec k k') as [E|E].
  - intros H. destruct (IH H). split; [right; assumption | assumption].
  - cbn [keys map fst In]. intros [H|H].
    + split; [left; assumption | congruence].
    + destruct (IH H). split; [right; assumption | assumption].
Qed.

Lemma lookup_remove_same k l : lookup k (remove_key k l) = None.
Proof.
  apply lookup_none_notin. intros H. apply keys_remove_key_in in H. tauto.
Qed.

Lemma lookup_remove_other k k' l : k <> k' -> lookup k (remove_key k' l) = lookup k l.
Proof.
  intros NE. induction l as [|[k2 v2] r IH]; cbn [remove_key lookup]; [reflexivity|].
  destruct (N.eqb_spec k' k2) as [E|E].
  - destruct (N.eqb_spec k k2); [congruence | exact IH].
  - cbn [lookup]. destruct (N.eqb_spec k k2); [reflexivity | exact IH].
Qed.

Lemma nodup_remove_key k l : NoDup (keys l) -> NoDup (keys (remove_key k l)).
Proof.
  induction l as [|[k' v'] r IH]; cbn [remove_key keys map fst]; intros ND; [constructor|].
  inversion ND as [|? ? Hn Hr]; subst.
  destruct (N.eqb_spec k k') as [E|E]; [auto|].
  cbn [keys map fst]. constructor; [|auto].
  intros H. apply keys_remove_key_in in H. tauto.
Qed.

Lemma length_remove_key k l v :
  NoDup (keys l) -> lookup k l = Some v -> S (length (remove_key k l)) = length l.
Proof.
  induction l as [|[k' v'] r IH]; cbn [remove_key keys map fst lookup length]; [discriminate|].
  intros ND L. inversion ND as [|? ? Hn Hr]; subst.
  destruct (N.eqb_spec k k') as [E|E].
  - subst. rewrite remove_key_notin by assumption. reflexivity.
  - cbn [length]. f_equal. auto.
Qed.

Lemma length_remove_key_le k l : (length (remove_key k l) <= length l)%nat.
Proof.
  induction l as [|[k' v'] r IH]; cbn [remove_key length]; [lia|].
  destruct (N.eqb k k'); cbn [length]; lia.
Qed.

Lemma sum_remove_key k l v :
  NoDup (keys l) -> lookup k l = Some v -> sum_sized (remove_key k l) = sum_sized l - sized_bytes v.
Proof.
  induction l as [|[k' v'] r IH]; cbn [remove_key keys map fst lookup sum_sized]; [discriminate|].
  intros ND L. inversion ND as [|? ? Hn Hr]; subst.
  destruct (N.eqb_spec k k') as [E|E].
  - subst. inversion L; subst. rewrite remove_key_notin by assumption. lia.
  - cbn [sum_sized]. rewrite (IH Hr L). lia.
Qed.

Lemma keys_update k v l : keys (update k v l) = keys l.
Proof.
  induction l as [|[k' v'] r IH]; cbn [update keys map fst]; [reflexivity|].
  destruct (N.eqb k k'); cbn [keys map fst]; [reflexivity|]. f_equal. exact IH.
Qed.

Lemma length_update k v l : length (update k v l) = length l.
Proof.
  induction l as [|[k' v'] r IH]; cbn [update length]; [reflexivity|].
  destruct (N.eqb k k'); cbn [length]; congruence.
Qed.

Lemma sum_update k v' l v :
  lookup k l = Some v -> sum_sized (update k v' l) = sum_sized l - sized_bytes v + sized_bytes v'.
Proof.
  induction l as [|[k2 v2] r IH]; cbn [update lookup sum_sized]; [discriminate|].
  destruct (N.eqb_spec k k2) as [E|E]; intros L.
  - inversion L; subst. cbn [sum_sized]. lia.
  - cbn [sum_sized]. rewrite (IH L). lia.
Qed.

Lemma lookup_update_same k v' l v : lookup k l = Some v -> lookup k (update k v' l) = Some v'.
Proof.
  induction l as [|[k2 v2] r IH]; cbn [update lookup]; [discriminate|].
  destruct (N.eqb_spec k k2) as [E|E]; intros L; cbn [lookup].
  - subst. rewrite N.eqb_refl. reflexivity.
  - destruct (N.eqb_spec k k2); [congruence | auto].
Qed.

Lemma lookup_update_other k k' v' l : k <> k' -> lookup k (update k' v' l) = lookup k l.
Proof.
  intros NE. induction l as [|[k2 v2] r IH]; cbn [update lookup]; [reflexivity|].
  destruct (N.eqb_spec k' k2) as [E|E]; cbn [lookup].
  - subst. destruct (N.eqb_spec k k2); [congruence | reflexivity].
  - destruct (N.eqb_spec k k2); [reflexivity | exact IH].
Qed.

Lemma Forall_remove_key (P : key * value -> Prop) k l : Forall P l -> Forall P (remove_key k l).
Proof.
  induction l as [|[k' v'] r IH]; cbn [remove_key]; intros F; [constructor|].
  inversion F; subst. destruct (N.eqb k k'); [auto | constructor; auto].
Qed.

Lemma Forall_update (P : key * value -> Prop) k v l :
  Forall P l -> (forall k', P (k', v)) -> Forall P (update k v l).
Proof.
  intros F Pv. induction l as [|[k' v'] r IH]; cbn [update]; [constructor|].
  inversion F; subst. destruct (N.eqb k k'); constructor; auto.
Qed.

Lemma sum_sized_app a b : sum_sized (a ++ b) = sum_sized a + sum_sized b.
Proof.
  induction a as [|[k v] r IH]; cbn [app sum_sized]; [lia|]. rewrite IH. lia.
Qed.

Lemma sum_sized_rev l : sum_sized (rev l) = sum_sized l.
Proof.
  induction l as [|[k v] r IH]; cbn [rev sum_sized]; [reflexivity|].
  rewrite sum_sized_app, IH. cbn [sum_sized]. lia.
Qed.

Lemma keys_app a b : keys (a ++ b) = keys a ++ keys b.
Proof. unfold keys. apply map_app. Qed.

Lemma keys_rev l : keys (rev l) = rev (keys l).
Proof. unfold keys. apply map_rev. Qed.

Lemma nodup_app_l {A} (a b : list A) : NoDup (a ++ b) -> NoDup a.
Proof.
  induction a as [|x a IH]; cbn [app]; intros ND; [constructor|].
  inversion ND; subst. constructor; [|auto].
  intros H. apply H1. apply in_or_app. left. exact H.
Qed.

Lemma sum_sized_nonneg l : 0 <= sum_sized l.
Proof.
  induction l as [|[k v] r IH]; cbn [sum_sized]; [lia|].
  unfold sized_bytes. destruct (vmem v); lia.
Qed.

(* triggerMemoryEviction's loop takes a prefix of the reversed list *)
Lemma evict_tail_spec need rl : forall removed n rl' removed' n',
  evict_tail need removed n rl = (rl', removed', n') ->
  exists taken, rl = taken ++ rl' /\ removed' = removed + sum_sized taken /\
                n' = n + Z.of_nat (length taken) /\ (need <= removed' \/ rl' = []).
Proof.
  induction rl as [|[k v] r IH]; intros removed n rl' removed' n'; cbn [evict_tail].
  - destruct (removed <? need) eqn:E; intros H; inversion H; subst; exists [];
      cbn [app sum_sized length]; (split; [reflexivity|]); (split; [lia|]); (split; [lia|]);
      [right; reflexivity | left; lia].
  - destruct (removed <? need) eqn:E; intros H.
    + destruct (IH _ _ _ _ _ H) as (taken & -> & -> & -> & Hd).
      exists ((k, v) :: taken). cbn [app sum_sized length].
      split; [reflexivity|]. split; [lia|]. split; [lia|]. exact Hd.
    + inversion H; subst. exists []. cbn [app sum_sized length].
      split; [reflexivity|]. split; [lia|]. split; [lia|]. left. lia.
Qed.
