(* C16 -- cache coherence across writers: several gateway nodes, each with its own revision cache, on ONE bucket.

   The real cache has one map; an entry is keyed by (docID, version string) where the version string is either
   a revTreeID or a CV ("value@source"): the same document version can be cached twice, once per kind of key.
   A node learns of mutations made by others (and by itself) only through its caching feed: changeCache.DocChanged
   (db/change_cache.go) processes the feed events in order and drops cache entries:
       user xattr present on the document      -> Remove(docID, current revTreeID)
       flag UnchangedCV (ISGR local wins)      -> Remove(docID, current CV)
   Mutations that leave a KEY current while changing what a load of that key returns:
       MXattr      import of a user-xattr-only change: revTreeID kept (createNewRevIDSkipped), new CV (the
                   mutation's cas), channels recomputed                       -> the revTreeID key changes content
       MLocalWins  ISGR conflict resolved as local wins: CV kept, HLV history grows, new revTreeID (the local
                   revision is re-parented), flag UnchangedCV                  -> the CV key changes content
   MWrite / MImport create a new revTreeID and a new CV: no cached key changes content.
   Writer-side cache operations (db/crud.go): before an xattr-only save Remove(revTreeID); resolveLocalWinsHLV
   Remove(CV) before the write; after a gateway write Put(CV key) if insert-on-write (Put never overwrites a
   loaded entry); imports do not touch the cache afterwards.

   Contents are interned numbers: [crev]/[ccv] = what a load from the bucket returns NOW for the current
   revTreeID key / the current CV key (body, revision history, channels, flags, attachments, revID, CV and HLV
   history).  New revTreeIDs and CVs are fresh (a revTreeID is a digest over its parent, a CV a cas / HLC value
   never used before): [hused] records every key that was ever current, and a mutation is defined only for new keys.
   The invalidation rule is a parameter ([inval]); DocChanged's rule is [docchanged_inval]. *)
From SG Require Import Base.Prelude.
Open Scope N_scope.

Record ckey := mkK { kdoc : N; kcv : bool; kid : N }.     (* kcv = true: keyed by CV, false: by revTreeID *)

Definition keqb (a b : ckey) : bool :=
  N.eqb (kdoc a) (kdoc b) && Bool.eqb (kcv a) (kcv b) && N.eqb (kid a) (kid b).

Record bdoc := mkB {
  brev : N; bcv : N;        (* current revTreeID, current CV *)
  crev : N; ccv : N;        (* what a load of the current revTreeID key / CV key returns *)
  bux : bool                (* the document carries a user xattr *)
}.

(* what DocChanged reads from a feed event *)
Record ev := mkEv { e_doc : N; e_rev : N; e_cv : N; e_ux : bool; e_uc : bool }.

Inductive mut :=
| MWrite (d r c mr mc : N)
| MImport (d r c mr mc : N)
| MXattr (d c mr mc : N)
| MLocalWins (d r mr mc : N).

Inductive hop :=
| OMut (w : nat) (iow : bool) (m : mut)          (* node w performs the mutation; iow = insert-on-write configured *)
| ODeliver (n : nat)                             (* DocChanged on node n processes its next feed event *)
| OGet (n : nat) (k : ckey) (old : option N)     (* Get on node n; [old] = the bucket's answer for a superseded key *)
| OEvict (n : nat) (k : ckey).                   (* capacity / memory eviction, or Remove *)

Record hstate := mkH {
  hbk : N -> option bdoc;
  hused : ckey -> bool;
  hcache : nat -> ckey -> option N;
  hqueue : nat -> list ev
}.

Definition hinit : hstate := mkH (fun _ => None) (fun _ => false) (fun _ _ => None) (fun _ => []).

Definition current (s : hstate) (k : ckey) : bool :=
  match hbk s (kdoc k) with
  | Some b => N.eqb (kid k) (if kcv k then bcv b else brev b)
  | None => false
  end.

Definition content_of (s : hstate) (k : ckey) : N :=
  match hbk s (kdoc k) with
  | Some b => if kcv k then ccv b else crev b
  | None => 0
  end.

Definition docchanged_inval (e : ev) (k : ckey) : bool :=
  (e_ux e && keqb k (mkK (e_doc e) false (e_rev e))) || (e_uc e && keqb k (mkK (e_doc e) true (e_cv e))).

Definition set_cache (c : nat -> ckey -> option N) (n : nat) (k : ckey) (x : option N) : nat -> ckey -> option N :=
  fun n' k' => if Nat.eqb n' n && keqb k' k then x else c n' k'.

(* Put / Upsert-less insert: never overwrites an entry *)
Definition put_absent (c : nat -> ckey -> option N) (n : nat) (k : ckey) (x : N) : nat -> ckey -> option N :=
  match c n k with Some _ => c | None => set_cache c n k (Some x) end.

Definition mark (u : ckey -> bool) (k : ckey) : ckey -> bool := fun k' => keqb k' k || u k'.

Definition set_doc (b : N -> option bdoc) (d : N) (x : bdoc) : N -> option bdoc :=
  fun d' => if N.eqb d' d then Some x else b d'.

Section Coherence.
  Variable inval : ev -> ckey -> bool.

  (* the bucket after the mutation, the feed event, the keys that become current *)
  Definition mutate (s : hstate) (m : mut) : option (bdoc * ev * N * list ckey) :=
    match m with
    | MWrite d r c mr mc | MImport d r c mr mc =>
        if hused s (mkK d false r) || hused s (mkK d true c) then None
        else
          let ux := match hbk s d with Some b => bux b | None => false end in
          Some (mkB r c mr mc ux, mkEv d r c ux false, d, [mkK d false r; mkK d true c])
    | MXattr d c mr mc =>
        match hbk s d with
        | Some b =>
            if hused s (mkK d true c) then None
            else Some (mkB (brev b) c mr mc true, mkEv d (brev b) c true false, d, [mkK d true c])
        | None => None
        end
    | MLocalWins d r mr mc =>
        match hbk s d with
        | Some b =>
            if hused s (mkK d false r) then None
            else Some (mkB r (bcv b) mr mc (bux b), mkEv d r (bcv b) (bux b) true, d, [mkK d false r])
        | None => None
        end
    end.

  (* what the writing node does to its own cache *)
  Definition writer_cache (s : hstate) (w : nat) (iow : bool) (m : mut) (b' : bdoc) : nat -> ckey -> option N :=
    match m with
    | MWrite d _ _ _ _ => if iow then put_absent (hcache s) w (mkK d true (bcv b')) (ccv b') else hcache s
    | MImport _ _ _ _ _ => hcache s
    | MXattr d _ _ _ => set_cache (hcache s) w (mkK d false (brev b')) None
    | MLocalWins d _ _ _ =>
        let c1 := set_cache (hcache s) w (mkK d true (bcv b')) None in
        if iow then put_absent c1 w (mkK d true (bcv b')) (ccv b') else c1
    end.

  Definition hstep (s : hstate) (o : hop) : option (hstate * option N) :=
    match o with
    | OMut w iow m =>
        match mutate s m with
        | Some (b', e, d, newk) =>
            Some (mkH (set_doc (hbk s) d b') (fold_left mark newk (hused s)) (writer_cache s w iow m b')
                      (fun n => hqueue s n ++ [e]), None)
        | None => None
        end
    | ODeliver n =>
        match hqueue s n with
        | e :: q =>
            Some (mkH (hbk s) (hused s)
                      (fun n' k => if Nat.eqb n' n && inval e k then None else hcache s n' k)
                      (fun n' => if Nat.eqb n' n then q else hqueue s n'), None)
        | [] => None
        end
    | OGet n k old =>
        match hcache s n k with
        | Some c => Some (s, Some c)
        | None =>
            if current s k
            then Some (mkH (hbk s) (hused s) (set_cache (hcache s) n k (Some (content_of s k))) (hqueue s),
                       Some (content_of s k))
            else
              match old with
              | Some c =>
                  if hused s k
                  then Some (mkH (hbk s) (hused s) (set_cache (hcache s) n k (Some c)) (hqueue s), Some c)
                  else None                      (* a version that never existed cannot be loaded *)
              | None => Some (s, None)
              end
        end
    | OEvict n k => Some (mkH (hbk s) (hused s) (set_cache (hcache s) n k None) (hqueue s), None)
    end.

  Fixpoint hrun (s : hstate) (ops : list hop) : option hstate :=
    match ops with
    | [] => Some s
    | o :: r => match hstep s o with Some (s', _) => hrun s' r | None => None end
    end.

  (* a cached entry that differs from what the bucket holds now for a key that is still current *)
  Definition stale (s : hstate) (n : nat) (k : ckey) : Prop :=
    exists c, hcache s n k = Some c /\ current s k = true /\ c <> content_of s k.
End Coherence.
