(* C16 correspondence: op lists driven through the real LRURevisionCache / RevisionCacheOrchestrator /
   ShardedLRURevisionCache by harness/db/verif_c16_test.go are re-run here on the model; after every op the
   returned revision (interned content) or error kind, the eviction flag, the two gauges and the LRU key
   order of every shard must agree. *)
From SG Require Export Base.Prelude Base.Bytes C16.RevCache C16.RevCacheSharded.
Open Scope N_scope.

Record obs := Ob {
  b_res : res; b_flag : bool;
  b_items : Z; b_bytes : Z;            (* RevisionCacheNumItems / RevisionCacheTotalMemory after the op *)
  b_keys : list (list key)             (* per shard: keys of lruList, front to back *)
}.

(* cfgs: one config per shard (1 shard = plain cache); ldt/actt: the scripted backing store (absent = 404);
   ops: (shard the real code routed the call to, op) *)
Inductive case :=
| CSeq (cfgs : list config) (ldt : list (key * lres)) (actt : list (doc * ares))
       (ops : list (N * op)) (observed : list obs).

Definition C (id sz : N) : content := mkC id sz.

Definition ld_of (t : list (key * lres)) (k : key) : lres :=
  match find (fun p => N.eqb (fst p) k) t with Some p => snd p | None => LErr 404 end.
Definition act_of (t : list (doc * ares)) (d : doc) : ares :=
  match find (fun p => N.eqb (fst p) d) t with Some p => snd p | None => AErr 404 end.

Definition content_eqb (a b : content) : bool := N.eqb (cid a) (cid b) && N.eqb (csize a) (csize b).
Definition res_eqb (a b : res) : bool :=
  match a, b with
  | ROk x, ROk y => content_eqb x y
  | RErr x, RErr y => N.eqb x y
  | REmpty, REmpty => true
  | RUnit, RUnit => true
  | _, _ => false
  end.

Definition obs_ok (sts : list state) (x : out) (b : obs) : bool :=
  res_eqb (ores x) (b_res b) && Bool.eqb (oflag x) (b_flag b) &&
  Z.eqb (sumZ (map items sts)) (b_items b) && Z.eqb (sumZ (map bytes sts)) (b_bytes b) &&
  list_eqb (list_eqb N.eqb) (map (fun s => keys (lru s)) sts) (b_keys b).

Fixpoint check_ops (cfgs : list config) (sts : list state) (ops : list (N * op)) (bs : list obs) : bool :=
  match ops, bs with
  | [], [] => true
  | w :: r, b :: br =>
      let '(sts', x) := step_sh cfgs sts w in
      obs_ok sts' x b && check_ops cfgs sts' r br
  | _, _ => false
  end.

Definition check (c : case) : bool :=
  match c with
  | CSeq cfgs ldt actt ops bs =>
      check_ops cfgs (map (fun _ => init (ld_of ldt) (act_of actt)) cfgs) ops bs
  end.

Definition mismatches (cs : list case) : list N := failing check cs.
