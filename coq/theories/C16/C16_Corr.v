(* C16 correspondence: op lists driven through the real LRURevisionCache / RevisionCacheOrchestrator /
   ShardedLRURevisionCache by harness/db/verif_c16_test.go are re-run here on the model; after every op the
   returned revision (interned content) or error kind, the eviction flag, the two gauges and the LRU key
   order of every shard must agree.

   CDelta: the same for the orchestrator WITH its delta cache (RevCacheDelta.v): UpdateDelta / GetWithDelta
   interleaved with the revision-cache calls; additionally the attached delta, DeltaCacheNumItems and the
   key order of the delta LRU list are compared after every op.

   CSched: STEP-LEVEL correspondence of the interleaving model (RevCacheStep.v over RevCacheConc.v).  The
   harness runs real goroutines, parks them where the code can be parked from outside (inside the loader,
   on value.lock, on LRURevisionCache.lock) and emits the schedule as the list of atomic steps the code
   took, each named; the model must accept every step under that name, and at every point where all
   goroutines are finished or parked the item gauge, the byte counter, the cached values (key, memState,
   itemBytes, body present, error present), the state of every goroutine (finished / inside the loader /
   waiting for value.lock / waiting for the cache lock), the number of backing-store loads per key and
   the delta cache must agree; so must every result a Get returned (revision or error, and its flag) and
   every Peek.

   CCoh: cache coherence across writers (RevCacheCoherence.v).  Two real database contexts ("nodes") on one
   bucket; mutations (ordinary write, import of an SDK write, import of a user-xattr-only change, ISGR
   conflict resolved as local wins) are made through one node, both nodes process their caching feed
   (DocChanged), and Gets by revTreeID and by CV are issued on both nodes, before (pre-caching) and after.
   Every Get result (interned projection incl. revID, CV and HLV history, or error) must be the model's. *)
From SG Require Export Base.Prelude Base.Bytes C16.RevCache C16.RevCacheSharded C16.RevCacheConc C16.RevCacheDelta
  C16.RevCacheStep C16.RevCacheCoherence.
Open Scope N_scope.

Record obs := Ob {
  b_res : res; b_flag : bool;
  b_items : Z; b_bytes : Z;            (* RevisionCacheNumItems / RevisionCacheTotalMemory after the op *)
  b_keys : list (list key)             (* per shard: keys of lruList, front to back *)
}.

(* cfgs: one config per shard (1 shard = plain cache); ldt/actt: the scripted backing store (absent = 404);
   ops: (shard the real code routed the call to, op) *)
(* after one call on the orchestrator with delta cache *)
Record dobs := DOb {
  d_res : res; d_flag : bool; d_delta : option N;     (* result, flag, totalDeltaBytes of the attached delta *)
  d_items : Z; d_ditems : Z; d_bytes : Z;             (* RevisionCacheNumItems, DeltaCacheNumItems, RevisionCacheTotalMemory *)
  d_keys : list key; d_dkeys : list dkey              (* both LRU lists, front to back *)
}.

(* one element of an emitted schedule *)
Inductive sstep :=
| SAct (a : eact)
| SObs (items bytes : Z)
       (vals : list (key * N * N * bool * bool))      (* cached values sorted by key: memState, itemBytes, body?, err? *)
       (thrs : list N)                                (* per goroutine: 0 finished, 1 in the loader, 2 waits for value.lock, 3 waits for the cache lock *)
       (loads : list (key * N))                       (* backing-store loads so far, per key (keys with none omitted) *)
       (ndeltas : Z) (deltas : list (dkey * N))       (* DeltaCacheNumItems, cached deltas sorted by key *)
| SPeekR (k : key) (r : res)
| SRes (t : nat) (r : res) (flag : bool).

Inductive case :=
| CSeq (cfgs : list config) (ldt : list (key * lres)) (actt : list (doc * ares))
       (ops : list (N * op)) (observed : list obs)
| CDelta (cfg : config) (ldt : list (key * lres)) (actt : list (doc * ares))
       (ops : list dop) (observed : list dobs)
| CSched (nthr : nat) (ksz : list (key * N)) (ldt : list (key * lres)) (steps : list sstep)
| CCoh (ops : list (hop * option N)).      (* op, and for a Get the observed result (None = error) *)

Definition C (id sz : N) : content := mkC id sz.

Definition ld_of (t : list (key * lres)) (k : key) : lres :=
  match find (fun p => N.eqb (fst p) k) t with Some p => snd p | None => LErr 404 end.
Definition act_of (t : list (doc * ares)) (d : doc) : ares :=
  match find (fun p => N.eqb (fst p) d) t with Some p => snd p | None => AErr 404 end.

Definition content_eqb (a b : content) : bool := N.eqb (cid a) (cid b) && N.eqb (csize a) (csize b).
Definition res_eqb (a b : res) : bool :=
  match a, b with
  | ROk x, ROk y => content_eqb x y
  | RErr x, RErr y => N.eqb x y
  | REmpty, REmpty => true
  | RUnit, RUnit => true
  | _, _ => false
  end.

Definition obs_ok (sts : list state) (x : out) (b : obs) : bool :=
  res_eqb (ores x) (b_res b) && Bool.eqb (oflag x) (b_flag b) &&
  Z.eqb (sumZ (map items sts)) (b_items b) && Z.eqb (sumZ (map bytes sts)) (b_bytes b) &&
  list_eqb (list_eqb N.eqb) (map (fun s => keys (lru s)) sts) (b_keys b).

Fixpoint check_ops (cfgs : list config) (sts : list state) (ops : list (N * op)) (bs : list obs) : bool :=
  match ops, bs with
  | [], [] => true
  | w :: r, b :: br =>
      let '(sts', x) := step_sh cfgs sts w in
      obs_ok sts' x b && check_ops cfgs sts' r br
  | _, _ => false
  end.

(* ---------- orchestrator with delta cache ---------- *)
Definition dobs_ok (s : dstate) (x : dout) (b : dobs) : bool :=
  res_eqb (xres x) (d_res b) && Bool.eqb (xflag x) (d_flag b) && option_eqb N.eqb (xdelta x) (d_delta b) &&
  Z.eqb (items (drs s)) (d_items b) && Z.eqb (dnum s) (d_ditems b) && Z.eqb (total s) (d_bytes b) &&
  list_eqb N.eqb (keys (lru (drs s))) (d_keys b) && list_eqb N.eqb (dkeys (dlru s)) (d_dkeys b).

Fixpoint check_dops (cfg : config) (s : dstate) (ops : list dop) (bs : list dobs) : bool :=
  match ops, bs with
  | [], [] => true
  | o :: r, b :: br =>
      let '(s', x) := dstep cfg s o in
      dobs_ok s' x b && check_dops cfg s' r br
  | _, _ => false
  end.

(* ---------- schedules ---------- *)
Definition ksize_of (t : list (key * N)) (k : key) : N :=
  match find (fun p => N.eqb (fst p) k) t with Some p => snd p | None => 0 end.

Definition mem_code (m : mem) : N := match m with Loading => 0 | Sized => 1 | Removed => 2 end.

Definition vobs := (key * N * N * bool * bool)%type.
Definition vobs_key (x : vobs) : key := fst (fst (fst (fst x))).

Fixpoint ins_by {A} (f : A -> N) (x : A) (l : list A) : list A :=
  match l with
  | [] => [x]
  | y :: r => if N.leb (f x) (f y) then x :: l else y :: ins_by f x r
  end.
Definition sort_by {A} (f : A -> N) (l : list A) : list A := fold_right (ins_by f) [] l.

Definition cached_vals (s : estate) : list vobs :=
  sort_by vobs_key
    (flat_map (fun v => if cin v then [(ck v, mem_code (cm v), cby v, cloaded v, cerr v)] else []) (heap (eb s))).

Definition vobs_eqb (a b : vobs) : bool :=
  let '(k1, m1, b1, l1, e1) := a in let '(k2, m2, b2, l2, e2) := b in
  N.eqb k1 k2 && N.eqb m1 m2 && N.eqb b1 b2 && Bool.eqb l1 l2 && Bool.eqb e1 e2.

Definition thr_status (s : estate) (t : nat) : N :=
  match nth_error (thr (eb s)) t with
  | Some Idle => 0
  | Some (GLoad i _) =>
      match elock s i with Some t' => if Nat.eqb t' t then 1 else 2 | None => 9 end
  | Some (PStore i _) => match elock s i with Some _ => 2 | None => 9 end
  | Some (GFailUnlink _ _) => if ehold s then 3 else 9
  | Some _ => 9          (* runnable in the middle of a call: never observed at a parking point *)
  | None => 10
  end.

(* backing-store calls started for value i: the completed load plus the one in flight *)
Definition loads_started (s : estate) (i : nat) : nat :=
  (enl s i + match elock s i with Some _ => 1 | None => 0 end)%nat.
Fixpoint loads_for (s : estate) (k : key) (i : nat) (h : list cval) : nat :=
  match h with
  | [] => O
  | v :: r => ((if N.eqb (ck v) k then loads_started s i else O) + loads_for s k (S i) r)%nat
  end.
Fixpoint loads_all (s : estate) (i : nat) (h : list cval) : nat :=
  match h with [] => O | _ :: r => (loads_started s i + loads_all s (S i) r)%nat end.

Definition pairN_eqb (a b : N * N) : bool := N.eqb (fst a) (fst b) && N.eqb (snd a) (snd b).

Definition sobs_ok (nthr : nat) (s : estate) (it by_ : Z) (vals : list vobs) (thrs : list N)
                   (loads : list (key * N)) (nd : Z) (ds : list (dkey * N)) : bool :=
  Z.eqb (gi (eb s)) it && Z.eqb (etotal s) by_ &&
  list_eqb vobs_eqb (cached_vals s) vals &&
  list_eqb N.eqb (map (thr_status s) (seq 0 nthr)) thrs &&
  forallb (fun p => N.eqb (N.of_nat (loads_for s (fst p) 0 (heap (eb s)))) (snd p)) loads &&
  N.eqb (N.of_nat (loads_all s 0 (heap (eb s)))) (fold_right N.add 0 (map snd loads)) &&
  Z.eqb (edn s) nd && list_eqb pairN_eqb (sort_by fst (edl s)) ds.

Definition res_of_lres (r : lres) : res := match r with LOk c => ROk c | LErr e => RErr e end.

Definition peek_model (s : estate) (k : key) : res :=
  match find_cached k (heap (eb s)) with
  | Some i => match econt s i with Some (LOk c) => ROk c | _ => REmpty end
  | None => REmpty
  end.

Fixpoint check_steps (ksz : key -> N) (nthr : nat) (s : estate) (steps : list sstep) : bool :=
  match steps with
  | [] => true
  | SAct a :: r =>
      match estep ksz s a with Some s' => check_steps ksz nthr s' r | None => false end
  | SObs it by_ vals thrs loads nd ds :: r =>
      sobs_ok nthr s it by_ vals thrs loads nd ds && check_steps ksz nthr s r
  | SPeekR k x :: r => res_eqb (peek_model s k) x && check_steps ksz nthr s r
  | SRes t x fl :: r =>
      match find (fun e => Nat.eqb (ge_thr e) t) (elog s) with
      | Some e => res_eqb (res_of_lres (ge_res e)) x && Bool.eqb (eflag s t) fl
      | None => false
      end && check_steps ksz nthr s r
  end.

(* ---------- coherence across nodes ---------- *)
Fixpoint check_hops (s : hstate) (ops : list (hop * option N)) : bool :=
  match ops with
  | [] => true
  | (o, obs) :: r =>
      match hstep docchanged_inval s o with
      | Some (s', x) =>
          match o with OGet _ _ _ => option_eqb N.eqb x obs | _ => true end && check_hops s' r
      | None => false
      end
  end.

Definition check (c : case) : bool :=
  match c with
  | CSeq cfgs ldt actt ops bs =>
      check_ops cfgs (map (fun _ => init (ld_of ldt) (act_of actt)) cfgs) ops bs
  | CDelta cfg ldt actt ops bs =>
      check_dops cfg (dinit (ld_of ldt) (act_of actt)) ops bs
  | CSched nthr ksz ldt steps =>
      check_steps (ksize_of ksz) nthr (einit nthr (ld_of ldt)) steps
  | CCoh ops => check_hops hinit ops
  end.

Definition mismatches (cs : list case) : list N := failing check cs.
