(* C16 -- the orchestrator-with-delta-cache model (RevCacheDelta.v) is a conservative extension of the plain
   orchestrator model (RevCache.v with orch = true): on histories without UpdateDelta the delta list stays
   empty and states and outputs coincide.  So the theorems and the CSeq correspondence of the plain model
   and the theorems and the CDelta correspondence of the extended model speak about the same thing. *)
From SG Require Import Base.Prelude C16.RevCache C16.RevCacheLemmas C16.RevCacheDelta.
Open Scope Z_scope.

Lemma mem_evict_cfg0 cfg s : mem_evict (cfg0 cfg) s = s.
Proof. unfold mem_evict, cfg0. cbn [orch negb orb]. reflexivity. Qed.

(* with no deltas the two-cache loop is the one-cache loop; only the round-robin flag moves *)
Lemma evict2_nodelta need : forall fuel rb tog rl n,
  (length rl < fuel)%nat ->
  exists tog',
    evict2 fuel need rb 0 tog rl [] n 0 =
    (let '(rl', removed, n') := evict_tail need rb n rl in (rl', [], removed, 0, n', 0, tog')).
Proof.
  induction fuel as [|f IH]; intros rb tog rl n L; [lia|].
  cbn [evict2]. rewrite Z.add_0_r.
  destruct rl as [|[k v] r]; cbn [evict_tail].
  - destruct (rb <? need); unfold evict_one; destruct (negb tog); eexists; reflexivity.
  - destruct (rb <? need).
    + assert (E : evict_one tog ((k, v) :: r) [] = Some (sized_bytes v, true, r, [])).
      { unfold evict_one. destruct (negb tog); reflexivity. }
      rewrite E. cbn [length] in L. destruct (IH (rb + sized_bytes v) (negb tog) r (n + 1)) as [tog' H]; [lia|].
      exists tog'. exact H.
    + eexists. reflexivity.
Qed.

Lemma trigger_nodelta cfg s :
  orch cfg = true -> dlru s = [] -> dby s = 0 ->
  exists tog', trigger cfg s = mkD (mem_evict cfg (drs s)) [] (dnum s) 0 tog'.
Proof.
  intros O DL DB. unfold trigger, mem_evict, total. rewrite O, DL, DB, Z.add_0_r. cbn [negb orb length rev].
  destruct (N.eqb (maxb cfg) 0); cbn [orb].
  - exists (dtog s). destruct s; cbn in *; subst; reflexivity.
  - destruct (bytes (drs s) <=? Z.of_N (maxb cfg)).
    + exists (dtog s). destruct s; cbn in *; subst; reflexivity.
    + destruct (evict2_nodelta (bytes (drs s) - Z.of_N (maxb cfg)) (S (length (lru (drs s)) + 0)) 0 (dtog s)
                  (rev (lru (drs s))) 0) as [tog' H]; [rewrite rev_length; lia|].
      rewrite H. destruct (evict_tail (bytes (drs s) - Z.of_N (maxb cfg)) 0 0 (rev (lru (drs s)))) as [[rl removed] n].
      exists tog'. cbn [rev]. rewrite !Z.sub_0_r. reflexivity.
Qed.

(* one call of the plain orchestrator = the plain LRU cache call, then triggerMemoryEviction where the
   orchestrator makes it *)
Lemma get_key_decomp cfg k s :
  get_key cfg k s =
  (let '(s1, x) := get_key (cfg0 cfg) k s in (if oflag x then mem_evict cfg s1 else s1, x)).
Proof.
  unfold get_key, get_value. cbn [cap cfg0].
  destruct (lookup k (lru s)) as [v|].
  - cbn [lru set_lru lookup]. rewrite N.eqb_refl.
    destruct (vbody v); [reflexivity|]. destruct (ld s k); [|reflexivity].
    destruct (vmem v); rewrite ?mem_evict_cfg0; reflexivity.
  - cbn [lru set_lru].
    destruct (lookup k (firstn (N.to_nat (cap cfg)) ((k, placeholder) :: lru s))) as [v|].
    + destruct (vbody v); [reflexivity|]. destruct (ld s k); [|reflexivity].
      destruct (vmem v); rewrite ?mem_evict_cfg0; reflexivity.
    + destruct (ld s k); reflexivity.
Qed.

Lemma step_decomp cfg s o :
  step cfg s o = (let '(s1, x) := step (cfg0 cfg) s o in (if triggers o x then mem_evict cfg s1 else s1, x)).
Proof.
  destruct o as [k|d|k c|k c|k|k|k r|d a]; cbn [step triggers].
  - apply get_key_decomp.
  - destruct (act s d); [apply get_key_decomp | reflexivity | reflexivity].
  - f_equal. unfold put_key, get_value. cbn [cap cfg0].
    destruct (lookup k (lru s)) as [v|].
    + cbn [lru set_lru lookup]. rewrite N.eqb_refl. destruct (vmem v); rewrite ?mem_evict_cfg0; reflexivity.
    + cbn [lru set_lru].
      destruct (lookup k (firstn (N.to_nat (cap cfg)) ((k, placeholder) :: lru s))) as [v|];
        [destruct (vmem v)|]; rewrite ?mem_evict_cfg0; reflexivity.
  - f_equal. unfold upsert_key. cbn [cap cfg0].
    destruct (match lookup k (lru s) with
              | Some v => (remove_key k (lru s), items s, bytes s - sized_bytes v)
              | None => (lru s, items s + 1, bytes s) end) as [[l0 i0] b0].
    destruct (lookup k (firstn (N.to_nat (cap cfg)) ((k, placeholder) :: l0))); rewrite ?mem_evict_cfg0; reflexivity.
  - reflexivity.
  - destruct (peek_op k s). reflexivity.
  - reflexivity.
  - reflexivity.
Qed.

(* states that differ only in the round-robin flag and the delta item gauge *)
Definition plain (s : dstate) (r : state) : Prop := drs s = r /\ dlru s = [] /\ dby s = 0.

Lemma dstep_plain cfg s r o :
  orch cfg = true -> plain s r ->
  plain (fst (dstep cfg s (DRev o))) (fst (step cfg r o)) /\
  xres (snd (dstep cfg s (DRev o))) = ores (snd (step cfg r o)) /\
  xflag (snd (dstep cfg s (DRev o))) = oflag (snd (step cfg r o)).
Proof.
  intros O (R & DL & DB). subst r. cbn [dstep]. rewrite (step_decomp cfg (drs s) o).
  destruct (step (cfg0 cfg) (drs s) o) as [s1 x]. cbn [fst snd xres xflag].
  destruct (triggers o x).
  - destruct (trigger_nodelta cfg (with_rs s s1) O DL DB) as [tog' H]. rewrite H.
    cbn [fst plain drs dlru dby with_rs]. repeat split.
  - cbn [fst plain drs dlru dby with_rs]. repeat split; assumption.
Qed.

Lemma delta_orchestrator_conservative cfg l a ops :
  orch cfg = true ->
  plain (drun cfg (dinit l a) (map DRev ops)) (run cfg (init l a) ops) /\
  total (drun cfg (dinit l a) (map DRev ops)) = bytes (run cfg (init l a) ops).
Proof.
  intros O.
  assert (G : forall ops s r, plain s r -> plain (drun cfg s (map DRev ops)) (run cfg r ops)).
  { induction ops0 as [|o rest IH]; intros s r P; cbn [map drun run]; [exact P|].
    apply IH. apply (dstep_plain cfg s r o O P). }
  assert (P0 : plain (dinit l a) (init l a)) by (repeat split).
  pose proof (G ops _ _ P0) as P. split; [exact P|].
  destruct P as (R & _ & DB). unfold total. rewrite R, DB. lia.
Qed.
