(* C16 -- The revision cache returns what the bucket holds and accounts for itself exactly.
   Nothing but the property theorems.  Sequential part: [run cfg (init l a) ops] is any history of
   Get / GetActive / Put / Upsert / Remove / Peek calls and storage changes (SetLoad / SetActive) on a cache
   with any item capacity, any byte limit, with or without the orchestrator's memory eviction, over any
   backing store; every theorem quantifies over ALL such histories.  Interleaving part: [crun ksize true
   (cinit n) acts] is any schedule of the atomic steps of n goroutines (RevCacheConc.v), with
   removeValueForFailedLoad's marking step repaired (Swap + decrement); the code as found (plain Store)
   violates the statement, see C16_Refuted.v. *)
From SG Require Import Base.Prelude C16.RevCache C16.RevCacheLemmas C16.RevCacheProofs C16.RevCacheContent
  C16.RevCacheRuns C16.RevCacheSharded C16.RevCacheConc C16.RevCacheConcProofs C16.RevCacheConcRest
  C16.RevCacheDelta C16.RevCacheDeltaProofs C16.RevCacheDeltaLink C16.RevCacheStep C16.RevCacheStepProofs
  C16.RevCacheCoherence C16.RevCacheCoherenceProofs.
Open Scope Z_scope.

(* the number of cached items never exceeds the configured capacity *)
Theorem C16_capacity_bound : forall cfg l a ops,
  (length (lru (run cfg (init l a) ops)) <= N.to_nat (cap cfg))%nat.
Proof. exact capacity_bound. Qed.
Print Assumptions C16_capacity_bound.

(* the reported item total equals the actual contents (and the cache map has one entry per list element) *)
Theorem C16_items_gauge_exact : forall cfg l a ops,
  items (run cfg (init l a) ops) = Z.of_nat (length (lru (run cfg (init l a) ops))) /\
  NoDup (keys (lru (run cfg (init l a) ops))).
Proof. exact items_gauge_exact. Qed.
Print Assumptions C16_items_gauge_exact.

(* the reported byte total equals the sum of the sizes of the cached values, all of which are loaded and
   accounted (Sized) -- provided no Put lands on a cached value that was accounted with a different size *)
Theorem C16_bytes_gauge_exact : forall cfg l a ops,
  puts_ok cfg (init l a) ops ->
  bytes (run cfg (init l a) ops) = sum_sized (lru (run cfg (init l a) ops)) /\
  Forall (fun kv => vmem (snd kv) = Sized /\ vbody (snd kv) <> None) (lru (run cfg (init l a) ops)).
Proof. exact bytes_gauge_exact. Qed.
Print Assumptions C16_bytes_gauge_exact.

(* the same under the statically checkable condition: the accounted size is a function of the key *)
Theorem C16_bytes_gauge_exact_sized_by_key : forall (ksize : key -> N) cfg l a ops,
  (forall k c, l k = LOk c -> csize c = ksize k) -> Forall (op_sized ksize) ops ->
  bytes (run cfg (init l a) ops) = sum_sized (lru (run cfg (init l a) ops)) /\
  Forall (fun kv => vmem (snd kv) = Sized /\ vbody (snd kv) <> None) (lru (run cfg (init l a) ops)).
Proof. exact bytes_gauge_exact_sized_by_key. Qed.
Print Assumptions C16_bytes_gauge_exact_sized_by_key.

(* both totals return to zero when the cache is emptied *)
Theorem C16_emptied_gauges_zero : forall cfg l a ops,
  puts_ok cfg (init l a) ops ->
  let s := run cfg (init l a) ops in
  let s' := run cfg s (map Remove (keys (lru s))) in
  lru s' = [] /\ items s' = 0 /\ bytes s' = 0.
Proof. exact emptied_gauges_zero. Qed.
Print Assumptions C16_emptied_gauges_zero.

Theorem C16_empty_cache_gauges_zero : forall cfg l a ops,
  puts_ok cfg (init l a) ops -> lru (run cfg (init l a) ops) = [] ->
  items (run cfg (init l a) ops) = 0 /\ bytes (run cfg (init l a) ops) = 0.
Proof. exact empty_cache_gauges_zero. Qed.
Print Assumptions C16_empty_cache_gauges_zero.

(* with the orchestrator and a byte limit, the total is within the limit after every call *)
Theorem C16_memory_bound : forall cfg l a ops,
  orch cfg = true -> maxb cfg <> 0%N -> puts_ok cfg (init l a) ops ->
  bytes (run cfg (init l a) ops) <= Z.of_N (maxb cfg).
Proof. exact memory_bound. Qed.
Print Assumptions C16_memory_bound.

(* a failed load is not kept in the cache *)
Theorem C16_failed_load_not_cached : forall cfg s o e,
  ores (snd (step cfg s o)) = RErr e ->
  match o with
  | Get k => ~ In k (keys (lru (fst (step cfg s o))))
  | GetActive d => forall k, act s d = ADoc k -> ~ In k (keys (lru (fst (step cfg s o))))
  | _ => True
  end.
Proof. exact failed_load_not_cached. Qed.
Print Assumptions C16_failed_load_not_cached.

(* Get returns the cached revision on a hit and exactly what the loader returns otherwise *)
Theorem C16_get_returns_cached_or_loaded : forall cfg k s,
  ores (snd (step cfg s (Get k))) =
  match lookup k (lru s) with
  | Some v => match vbody v with Some c => ROk c | None => fresh s k end
  | None => fresh s k
  end.
Proof. intros. cbn [step]. apply get_key_result. Qed.
Print Assumptions C16_get_returns_cached_or_loaded.

(* a revision served from the cache is what a fresh load from storage returns now, after any history in
   which writes put what they wrote and every storage change of the key was followed by its feed-driven Remove *)
Theorem C16_get_equals_fresh_load : forall cfg l a ops k,
  writes_through cfg (init l a) ops -> pending k ops = false ->
  ores (snd (step cfg (run cfg (init l a) ops) (Get k))) = fresh (run cfg (init l a) ops) k.
Proof. exact get_equals_fresh_load. Qed.
Print Assumptions C16_get_equals_fresh_load.

Theorem C16_get_active_equals_fresh_load : forall cfg l a ops d k,
  writes_through cfg (init l a) ops -> pending k ops = false ->
  act (run cfg (init l a) ops) d = ADoc k ->
  ores (snd (step cfg (run cfg (init l a) ops) (GetActive d))) = fresh (run cfg (init l a) ops) k.
Proof. exact get_active_equals_fresh_load. Qed.
Print Assumptions C16_get_active_equals_fresh_load.

(* once the update has come through the feed (Remove k), the old channel information is no longer served,
   whatever happened before *)
Theorem C16_stale_dropped_after_feed : forall cfg l a ops k,
  writes_through cfg (init l a) (ops ++ [Remove k]) ->
  ores (snd (step cfg (run cfg (init l a) (ops ++ [Remove k])) (Get k))) =
  fresh (run cfg (init l a) (ops ++ [Remove k])) k.
Proof. exact stale_dropped_after_feed. Qed.
Print Assumptions C16_stale_dropped_after_feed.

(* many shards (ShardedLRURevisionCache): the shared gauges are exact totals over the shards, and every
   shard respects its own capacity, for every history of routed calls *)
Theorem C16_sharded_gauges_exact : forall cfgs l a ops,
  let sts := run_sh cfgs (init_sh cfgs l a) ops in
  sumZ (map items sts) = Z.of_nat (length (concat (map lru sts))) /\
  Forall2 (fun cfg s => (length (lru s) <= N.to_nat (cap cfg))%nat) cfgs sts /\
  (puts_ok_sh cfgs (init_sh cfgs l a) ops -> sumZ (map bytes sts) = sum_sized (concat (map lru sts))).
Proof. exact sharded_gauges_exact. Qed.
Print Assumptions C16_sharded_gauges_exact.

(* ---------- all interleavings of the load / account / remove / evict life cycle ---------- *)
(* in every reachable state of every schedule the byte gauge is the sizes of the accounted values minus the
   increments still owed by goroutines between their CAS and their increment; the item gauge counts the
   cached values *)
Theorem C16_accounting_invariant_all_interleavings : forall (ksize : key -> N) n acts s,
  crun ksize true (cinit n) acts = Some s ->
  gb s = sumf (base ksize) (heap s) - sumf (owes ksize) (thr s) /\ gi s = cached_count s.
Proof.
  intros ksize n acts s R. destruct (crun_inv ksize acts _ _ (cinit_inv ksize n) R) as [A I _ _]. auto.
Qed.
Print Assumptions C16_accounting_invariant_all_interleavings.

(* whenever no call is between its steps, the byte gauge equals the sum of the sizes of the cached accounted
   values, the item gauge the number of cached values, and nothing outside the cache is accounted *)
Theorem C16_gauges_exact_at_rest_all_interleavings : forall (ksize : key -> N) n acts s,
  crun ksize true (cinit n) acts = Some s -> quiescent s ->
  gb s = cached_sized_bytes s /\ gi s = cached_count s /\
  (forall i v, nth_error (heap s) i = Some v -> cm v = Sized -> cin v = true /\ cby v = ksize (ck v)).
Proof.
  intros ksize n acts s R Q. apply quiescent_exact; [|exact Q].
  exact (crun_inv ksize acts _ _ (cinit_inv ksize n) R).
Qed.
Print Assumptions C16_gauges_exact_at_rest_all_interleavings.

(* ... and every value still in the cache is then loaded-and-accounted (Sized): nothing is left Loading or
   half-removed by any schedule (either variant of the marking step) *)
Theorem C16_cached_values_sized_at_rest_all_interleavings : forall (ksize : key -> N) fixed n acts s,
  crun ksize fixed (cinit n) acts = Some s -> quiescent s ->
  forall i v, nth_error (heap s) i = Some v -> cin v = true -> cm v = Sized.
Proof.
  intros ksize fixed n acts s R Q. apply rest_all_sized; [|exact Q].
  exact (crun_inv2 ksize fixed acts _ _ (cinit_inv2 n) R).
Qed.
Print Assumptions C16_cached_values_sized_at_rest_all_interleavings.

(* ---------- the refined interleaving model (RevCacheStep.v): value.lock, contents, load log, delta cache ----------
   [erun ksize (einit n l) acts] is any schedule of the named atomic steps of n goroutines over backing store l
   (which may change through ESetLoad), with value.load split at value.lock.  It is the model the step-level
   correspondence (C16_Corr.CSched) checks against the parked goroutines of the real code. *)

(* every schedule of the refined model is a schedule of the abstract one: the theorems above apply to it *)
Theorem C16_refined_schedules_project : forall (ksize : key -> N) n l acts s,
  erun ksize (einit n l) acts = Some s ->
  crun ksize true (cinit n) (eproj_run ksize (einit n l) acts) = Some (eb s).
Proof. exact erun_refines. Qed.
Print Assumptions C16_refined_schedules_project.

(* SINGLE FLIGHT: in every interleaving at most one backing-store load is made for an inserted placeholder
   value, and the per-value counter is exactly the number of loads (non-hit entries) the log shows for it *)
Theorem C16_single_flight : forall (ksize : key -> N) n l acts s,
  erun ksize (einit n l) acts = Some s ->
  forall i, (enl s i <= 1)%nat /\ count_if (miss_of i) (elog s) = enl s i.
Proof. exact single_flight. Qed.
Print Assumptions C16_single_flight.

(* a second Get of the same key while the first is loading WAITS (its value.load, and a Put's value.store,
   are disabled while the loader holds value.lock) and SHARES: all Gets served from one value return the
   outcome of its single load -- the same revision or the same error --, unless a Put/Upsert stored its
   revision into that value in between (est; see C16_Refuted.shares_needs_no_store) *)
Theorem C16_get_during_load_waits_and_shares : forall (ksize : key -> N) n l acts s,
  erun ksize (einit n l) acts = Some s ->
  (forall i t1, elock s i = Some t1 ->
     (forall t2 k, nth_error (thr (eb s)) t2 = Some (GLoad i k) -> estep ksize s (ELoadBegin t2) = None) /\
     (forall t2 k, nth_error (thr (eb s)) t2 = Some (PStore i k) -> estep ksize s (EStep t2 LPStore) = None)) /\
  (forall e1 e2, In e1 (elog s) -> In e2 (elog s) -> ge_val e1 = ge_val e2 -> est s (ge_val e1) = false ->
     ge_res e1 = ge_res e2 /\ elres s (ge_val e1) = Some (ge_res e1)).
Proof.
  intros ksize n l acts s R. split.
  - intros i t1 L. exact (load_excludes ksize s i t1 L).
  - exact (loads_shared ksize n l acts s R).
Qed.
Print Assumptions C16_get_during_load_waits_and_shares.

(* value.lock is only ever held by a goroutine inside Get, for a value that holds nothing yet and was never loaded *)
Theorem C16_lock_held_means_loading : forall (ksize : key -> N) n l acts s,
  erun ksize (einit n l) acts = Some s ->
  forall i t, elock s i = Some t ->
  (exists k, nth_error (thr (eb s)) t = Some (GLoad i k)) /\ econt s i = None /\ enl s i = 0%nat.
Proof. exact lock_held_means_loading. Qed.
Print Assumptions C16_lock_held_means_loading.

(* the delta cache shares the memory controller: in every reachable state of every schedule the counter is
   revision accounting + the bytes of the cached deltas ... *)
Theorem C16_combined_accounting_invariant_all_interleavings : forall (ksize : key -> N) n l acts s,
  erun ksize (einit n l) acts = Some s ->
  etotal s = sumf (base ksize) (heap (eb s)) - sumf (owes ksize) (thr (eb s)) + dsum (edl s).
Proof. exact combined_accounting_invariant. Qed.
Print Assumptions C16_combined_accounting_invariant_all_interleavings.

(* ... and at rest it is exactly: sum of the cached revisions' sizes + sum of the cached deltas' sizes *)
Theorem C16_combined_gauge_at_rest_all_interleavings : forall (ksize : key -> N) n l acts s,
  erun ksize (einit n l) acts = Some s -> quiescent (eb s) ->
  etotal s = cached_sized_bytes (eb s) + dsum (edl s) /\
  gi (eb s) = cached_count (eb s) /\ edn s = Z.of_nat (length (edl s)) /\
  (forall i v, nth_error (heap (eb s)) i = Some v -> cin v = true -> cm v = Sized).
Proof. exact combined_gauge_at_rest. Qed.
Print Assumptions C16_combined_gauge_at_rest_all_interleavings.

(* ---------- the orchestrator with its delta cache, sequential (RevCacheDelta.v): ALL histories of
   Get / GetActive / Put / Upsert / Remove / Peek / UpdateDelta / GetWithDelta and storage changes ---------- *)
Theorem C16_delta_combined_gauge_exact : forall cfg l a ops,
  dputs_ok cfg (dinit l a) ops ->
  let s := drun cfg (dinit l a) ops in
  total s = sum_sized (lru (drs s)) + dsum (dlru s) /\
  Forall (fun kv => vmem (snd kv) = Sized /\ vbody (snd kv) <> None) (lru (drs s)).
Proof. exact delta_combined_gauge_exact. Qed.
Print Assumptions C16_delta_combined_gauge_exact.

Theorem C16_delta_items_exact_and_bounded : forall cfg l a ops,
  let s := drun cfg (dinit l a) ops in
  dnum s = Z.of_nat (length (dlru s)) /\ NoDup (dkeys (dlru s)) /\ (length (dlru s) <= N.to_nat (cap cfg))%nat /\
  items (drs s) = Z.of_nat (length (lru (drs s))) /\ NoDup (keys (lru (drs s))) /\
  (length (lru (drs s)) <= N.to_nat (cap cfg))%nat.
Proof. exact delta_items_exact. Qed.
Print Assumptions C16_delta_items_exact_and_bounded.

Theorem C16_delta_memory_bound : forall cfg l a ops,
  maxb cfg <> 0%N -> dputs_ok cfg (dinit l a) ops ->
  total (drun cfg (dinit l a) ops) <= Z.of_N (maxb cfg).
Proof. exact delta_memory_bound. Qed.
Print Assumptions C16_delta_memory_bound.

(* removing every revision leaves exactly the deltas' bytes in the counter (the delta cache has no Remove) *)
Theorem C16_delta_revisions_emptied : forall cfg l a ops,
  dputs_ok cfg (dinit l a) ops ->
  let s := drun cfg (dinit l a) ops in
  let s' := drun cfg s (map (fun k => DRev (Remove k)) (keys (lru (drs s)))) in
  lru (drs s') = [] /\ items (drs s') = 0 /\ dlru s' = dlru s /\ dnum s' = dnum s /\ total s' = dsum (dlru s).
Proof. exact delta_revisions_emptied. Qed.
Print Assumptions C16_delta_revisions_emptied.

(* the extended model is conservative: without UpdateDelta it IS the plain orchestrator model of the theorems above
   (the delta list stays empty, the revision-cache state is the same, the counter is the revision bytes) *)
Theorem C16_delta_orchestrator_conservative : forall cfg l a ops,
  orch cfg = true ->
  (drs (drun cfg (dinit l a) (map DRev ops)) = run cfg (init l a) ops /\
   dlru (drun cfg (dinit l a) (map DRev ops)) = [] /\ dby (drun cfg (dinit l a) (map DRev ops)) = 0) /\
  total (drun cfg (dinit l a) (map DRev ops)) = bytes (run cfg (init l a) ops).
Proof. exact delta_orchestrator_conservative. Qed.
Print Assumptions C16_delta_orchestrator_conservative.

(* ---------- cache coherence across writers (RevCacheCoherence.v) ----------
   Any number of gateway nodes, each with its own cache keyed by revTreeID AND by CV, on one bucket;
   [hrun docchanged_inval hinit ops] is any history of mutations by any node (ordinary writes, imports,
   user-xattr-only imports, ISGR local-wins resolutions -- with the writer's own cache operations), feed
   deliveries (DocChanged) in order per node but arbitrarily delayed and interleaved, Gets and evictions. *)

(* after a node has processed its feed, whatever it has cached under a key that is current in the bucket --
   a revTreeID key or a CV key -- is what a load from the bucket returns for that key, and every Get of a
   current key on that node returns exactly that *)
Theorem C16_cache_coherent_after_feed : forall ops s n,
  hrun docchanged_inval hinit ops = Some s -> hqueue s n = [] ->
  (forall k c, hcache s n k = Some c -> current s k = true -> c = content_of s k) /\
  (forall k old s' r, current s k = true -> hstep docchanged_inval s (OGet n k old) = Some (s', r) ->
                      r = Some (content_of s k)).
Proof. exact docchanged_coherent_after_feed. Qed.
Print Assumptions C16_cache_coherent_after_feed.

(* at every moment: an entry that differs from the bucket under a still-current key exists on a node only
   while a feed event that will drop it is queued for that node *)
Theorem C16_stale_only_while_feed_event_pending : forall ops s,
  hrun docchanged_inval hinit ops = Some s ->
  forall n k, stale s n k -> exists e, In e (hqueue s n) /\ docchanged_inval e k = true.
Proof. exact docchanged_stale_only_while_pending. Qed.
Print Assumptions C16_stale_only_while_feed_event_pending.

(* the obligation on the feed handler, and that DocChanged's rule meets it: every mutation's event invalidates
   each key that stays current while the result of loading it changes (user xattr -> the revTreeID key,
   UnchangedCV -> the CV key); coherence holds for EVERY rule that meets it *)
Theorem C16_docchanged_invalidation_sound : inval_sound docchanged_inval.
Proof. exact docchanged_sound. Qed.
Print Assumptions C16_docchanged_invalidation_sound.

Theorem C16_coherent_for_any_sound_invalidation : forall inval, inval_sound inval -> forall ops s n,
  hrun inval hinit ops = Some s -> hqueue s n = [] ->
  forall k c, hcache s n k = Some c -> current s k = true -> c = content_of s k.
Proof. intros inval S ops s n R Q. exact (proj1 (cache_coherent_after_feed inval S ops s n R Q)). Qed.
Print Assumptions C16_coherent_for_any_sound_invalidation.

(* data of the non-vacuity example for the refined model and for the delta orchestrator *)
Definition ex_sched : list eact :=
  [EGet 0 5%N; ELoadBegin 0; EGet 1 5%N; EPut 2 5%N (mkC 5 45); EStep 2 LPBytes; EStep 2 LPCas; EStep 2 LPInc;
   ELoadEnd 0; EStep 0 LGCas; ELoadBegin 1; EStep 2 LPStore; EDelta 9%N 30%N].
Definition ex_hops : list hop :=
  [OMut 0 true (MWrite 1 10 20 100 200); ODeliver 0; ODeliver 1;
   OGet 1 (mkK 1 false 10) None; OGet 1 (mkK 1 true 20) None;
   OMut 0 false (MXattr 1 22 101 202); ODeliver 0; ODeliver 1; OGet 1 (mkK 1 false 10) None; OGet 1 (mkK 1 true 22) None;
   OMut 0 true (MLocalWins 1 11 102 203); ODeliver 1; ODeliver 0; OGet 1 (mkK 1 true 22) None]%N.
Definition ex_dops : list dop :=
  [DRev (Get 1%N); DUpdate 7%N 30%N; DUpdate 8%N 40%N; DGetWith 1%N 7%N].

(* non-vacuity: a history with a failed load, a storage change, its Remove, evictions by count and by bytes
   satisfies the hypotheses; a two-goroutine schedule overlapping a load and a Put reaches rest with a
   non-zero gauge *)
Example C16_nonvacuous :
  puts_ok ex_cfg (init ex_ld ex_act) ex_ops /\ writes_through ex_cfg (init ex_ld ex_act) ex_ops /\
  pending 1%N ex_ops = false /\
  keys (lru (run ex_cfg (init ex_ld ex_act) ex_ops)) = [3%N] /\ bytes (run ex_cfg (init ex_ld ex_act) ex_ops) = 43 /\
  (exists s, crun (fun _ => 50%N) true (cinit 2)
       [AGet 0 5%N None; APut 1 5%N (Some 0%nat); AStep 1; ALoad 0 true; AStep 1; AStep 0; AStep 1; AStep 1] = Some s /\
     quiescent s /\ gb s = 50) /\
  (* refined model: two overlapping Gets of one key, a Put parked on value.lock, a delta; at rest *)
  (exists s, erun (fun k => (40 + k)%N) (einit 3 ex_ld) ex_sched = Some s /\ quiescent (eb s) /\
     etotal s = 75 /\ length (elog s) = 2%nat /\ enl s 0%nat = 1%nat) /\
  (* orchestrator with delta cache: evictions from both caches under a byte limit *)
  (dputs_ok ex_cfg (dinit ex_ld ex_act) ex_dops /\
   keys (lru (drs (drun ex_cfg (dinit ex_ld ex_act) ex_dops))) = [1%N] /\
   dkeys (dlru (drun ex_cfg (dinit ex_ld ex_act) ex_dops)) = [7%N] /\
   total (drun ex_cfg (dinit ex_ld ex_act) ex_dops) = 71) /\
  (* two nodes: write, pre-cache on node 1 by revTreeID and by CV, xattr-only import and local-wins on node 0,
     feed processed: node 1 is coherent and has re-loaded *)
  (exists s, hrun docchanged_inval hinit ex_hops = Some s /\ hqueue s 1%nat = [] /\
     hcache s 1%nat (mkK 1 true 22) = Some 203%N /\ current s (mkK 1 true 22) = true).
Proof.
  split; [|split; [|split; [|split; [|split; [|split; [|split; [|split]]]]]]].
  - unfold ex_ops. cbn [puts_ok put_ok]. repeat split. vm_compute. intros v H. discriminate H.
  - unfold ex_ops. cbn [writes_through write_through]. repeat split.
  - reflexivity.
  - vm_compute. reflexivity.
  - vm_compute. reflexivity.
  - eexists. split; [vm_compute; reflexivity|]. split; [repeat constructor | reflexivity].
  - eexists. split; [vm_compute; reflexivity|]. split; [repeat constructor|]. repeat split; reflexivity.
  - split; [|repeat split; vm_compute; reflexivity].
    unfold ex_dops. cbn [dputs_ok dput_ok]. repeat split.
  - eexists. split; [vm_compute; reflexivity|]. repeat split; reflexivity.
Qed.
