(* C16 -- invariants of the orchestrator-with-delta-cache model (RevCacheDelta.v), for ALL op lists *)
From SG Require Import Base.Prelude C16.RevCache C16.RevCacheLemmas C16.RevCacheProofs C16.RevCacheDelta.
Open Scope Z_scope.

(* ---------- delta list helpers ---------- *)
Lemma dsum_app a b : dsum (a ++ b) = dsum a + dsum b.
Proof. induction a as [|[k n] r IH]; cbn [app dsum]; [lia | rewrite IH; lia]. Qed.

Lemma dsum_rev l : dsum (rev l) = dsum l.
Proof. induction l as [|[k n] r IH]; cbn [rev dsum]; [reflexivity|]. rewrite dsum_app, IH. cbn [dsum]. lia. Qed.

Lemma dsum_nonneg l : 0 <= dsum l.
Proof. induction l as [|[k n] r IH]; cbn [dsum]; lia. Qed.

Lemma dkeys_app a b : dkeys (a ++ b) = dkeys a ++ dkeys b.
Proof. unfold dkeys. apply map_app. Qed.

Lemma dlookup_none_notin k l : dlookup k l = None <-> ~ In k (dkeys l).
Proof.
  induction l as [|[k' n] r IH]; cbn [dlookup dkeys map fst In]; [tauto|].
  destruct (N.eqb_spec k k') as [E|E].
  - split; [discriminate | intros H; exfalso; apply H; left; congruence].
  - rewrite IH. unfold dkeys. split; [intros H [X|X]; [congruence | tauto] | tauto].
Qed.

Lemma dkeys_dremove_in x k l : In x (dkeys (dremove k l)) -> In x (dkeys l) /\ x <> k.
Proof.
  induction l as [|[k' n] r IH]; cbn [dremove dkeys map fst In]; [tauto|].
  destruct (N.eqb_spec k k') as [E|E].
  - intros H. destruct (IH H). tauto.
  - cbn [dkeys map fst In]. intros [H|H]; [subst; split; [left; reflexivity | congruence]|].
    destruct (IH H). tauto.
Qed.

Lemma nodup_dremove k l : NoDup (dkeys l) -> NoDup (dkeys (dremove k l)).
Proof.
  induction l as [|[k' n] r IH]; cbn [dremove dkeys map fst]; intros ND; [constructor|].
  inversion ND as [|? ? Hn Hr]; subst.
  destruct (N.eqb k k'); [apply IH; exact Hr|].
  cbn [dkeys map fst]. constructor; [|apply IH; exact Hr].
  intros H. apply dkeys_dremove_in in H. apply Hn. tauto.
Qed.

Lemma dremove_notin k l : ~ In k (dkeys l) -> dremove k l = l.
Proof.
  induction l as [|[k' n] r IH]; cbn [dremove dkeys map fst In]; intros H; [reflexivity|].
  destruct (N.eqb_spec k k') as [E|E]; [exfalso; apply H; left; congruence|].
  f_equal. apply IH. tauto.
Qed.

Lemma dremove_spec k l n :
  NoDup (dkeys l) -> dlookup k l = Some n ->
  S (length (dremove k l)) = length l /\ dsum (dremove k l) = dsum l - Z.of_N n.
Proof.
  induction l as [|[k' m] r IH]; cbn [dlookup dremove dkeys map fst length dsum]; intros ND L; [discriminate|].
  inversion ND as [|? ? Hn Hr]; subst.
  destruct (N.eqb_spec k k') as [E|E].
  - inversion L; subst. rewrite (dremove_notin k' r Hn). split; [reflexivity | lia].
  - destruct (IH Hr L) as [A B]. cbn [length dsum]. split; [lia | lia].
Qed.

Lemma dlookup_firstn_none k n l : dlookup k l = None -> dlookup k (firstn n l) = None.
Proof.
  intros L. apply dlookup_none_notin. apply dlookup_none_notin in L. intros H. apply L.
  rewrite <- (firstn_skipn n l). rewrite dkeys_app. apply in_or_app. left. exact H.
Qed.

(* ---------- the delta cache's own invariant ---------- *)
Definition DI (cfg : config) (s : dstate) : Prop :=
  NoDup (dkeys (dlru s)) /\ dnum s = Z.of_nat (length (dlru s)) /\
  (length (dlru s) <= N.to_nat (cap cfg))%nat /\ dby s = dsum (dlru s).

Lemma DI_touch cfg s dk n :
  DI cfg s -> dlookup dk (dlru s) = Some n ->
  DI cfg (mkD (drs s) ((dk, n) :: dremove dk (dlru s)) (dnum s) (dby s) (dtog s)).
Proof.
  intros (ND & E & C & B) L. destruct (dremove_spec dk (dlru s) n ND L) as [A1 A2].
  unfold DI. cbn [dlru dnum dby dkeys map fst length dsum].
  split; [|split; [|split]]; try lia.
  constructor; [|apply nodup_dremove; exact ND].
  intros H. apply dkeys_dremove_in in H. tauto.
Qed.

Lemma add_delta_inv cfg dk sz s : DI cfg s -> DI cfg (add_delta cfg dk sz s).
Proof.
  intros H. unfold add_delta. destruct (dlookup dk (dlru s)) as [n|] eqn:L; [apply DI_touch; assumption|].
  destruct H as (ND & E & C & B). unfold DI. cbn [dlru dnum dby].
  set (l1 := (dk, sz) :: dlru s).
  assert (ND1 : NoDup (dkeys l1)).
  { cbn [l1 dkeys map fst]. constructor; [apply dlookup_none_notin; exact L | exact ND]. }
  pose proof (firstn_skipn (N.to_nat (cap cfg)) l1) as FS.
  assert (LEN : length l1 = (length (firstn (N.to_nat (cap cfg)) l1) + length (skipn (N.to_nat (cap cfg)) l1))%nat)
    by (rewrite <- app_length, FS; reflexivity).
  assert (SUM : dsum l1 = dsum (firstn (N.to_nat (cap cfg)) l1) + dsum (skipn (N.to_nat (cap cfg)) l1))
    by (rewrite <- dsum_app, FS; reflexivity).
  split; [|split; [|split]].
  - rewrite <- FS, dkeys_app in ND1. apply nodup_app_l in ND1. exact ND1.
  - cbn [l1 length] in LEN. lia.
  - rewrite firstn_length. lia.
  - cbn [l1 dsum] in SUM. fold l1 in SUM. lia.
Qed.

Lemma get_delta_inv cfg dk s : DI cfg s -> DI cfg (fst (get_delta dk s)) /\ drs (fst (get_delta dk s)) = drs s.
Proof.
  intros H. unfold get_delta. destruct (dlookup dk (dlru s)) as [n|] eqn:L; cbn [fst drs]; [|auto].
  split; [apply DI_touch; assumption | reflexivity].
Qed.

(* ---------- the two-cache eviction loop ---------- *)
Lemma evict_one_spec tog rl dl :
  match evict_one tog rl dl with
  | Some (b, true, rl', dl') => exists k v, rl = (k, v) :: rl' /\ dl' = dl /\ b = sized_bytes v
  | Some (b, false, rl', dl') => exists k n, dl = (k, n) :: dl' /\ rl' = rl /\ b = Z.of_N n
  | None => rl = [] /\ dl = []
  end.
Proof.
  unfold evict_one. destruct (negb tog).
  - destruct rl as [|[k v] r]; [destruct dl as [|[k n] d]|]; eauto.
  - destruct dl as [|[k n] d]; [destruct rl as [|[k v] r]|]; eauto.
Qed.

Lemma evict2_spec need : forall fuel rb db tog rl dl n dn rl' dl' rb' db' n' dn' tog',
  evict2 fuel need rb db tog rl dl n dn = (rl', dl', rb', db', n', dn', tog') ->
  exists tr td, rl = tr ++ rl' /\ dl = td ++ dl' /\
    rb' = rb + sum_sized tr /\ db' = db + dsum td /\
    n' = n + Z.of_nat (length tr) /\ dn' = dn + Z.of_nat (length td) /\
    ((length rl + length dl < fuel)%nat -> need <= rb' + db' \/ (rl' = [] /\ dl' = [])).
Proof.
  induction fuel as [|f IH]; intros rb db tog rl dl n dn rl' dl' rb' db' n' dn' tog'; cbn [evict2].
  - intros H; inversion H; subst. exists [], []. cbn [app sum_sized dsum length].
    repeat split; try lia.
  - destruct (rb + db <? need) eqn:E.
    + pose proof (evict_one_spec tog rl dl) as S1.
      destruct (evict_one tog rl dl) as [[[[b fr] rl1] dl1]|].
      * destruct fr.
        -- destruct S1 as (k & v & -> & -> & ->). intros H.
           destruct (IH _ _ _ _ _ _ _ _ _ _ _ _ _ _ H) as (tr & td & -> & -> & -> & -> & -> & -> & D).
           exists ((k, v) :: tr), td. cbn [app sum_sized length].
           repeat split; try lia. intros L. apply D. cbn [length] in L. rewrite !app_length in *. lia.
        -- destruct S1 as (k & m & -> & -> & ->). intros H.
           destruct (IH _ _ _ _ _ _ _ _ _ _ _ _ _ _ H) as (tr & td & -> & -> & -> & -> & -> & -> & D).
           exists tr, ((k, m) :: td). cbn [app dsum length].
           repeat split; try lia. intros L. apply D. cbn [length] in L. rewrite !app_length in *. lia.
      * destruct S1 as [-> ->]. intros H; inversion H; subst. exists [], []. cbn [app sum_sized dsum length].
        repeat split; try lia. intros _. right. auto.
    + intros H; inversion H; subst. exists [], []. cbn [app sum_sized dsum length].
      repeat split; try lia.
Qed.

Lemma trigger_spec cfg s : exists ev dev,
  lru (drs s) = lru (drs (trigger cfg s)) ++ ev /\ dlru s = dlru (trigger cfg s) ++ dev /\
  items (drs (trigger cfg s)) = items (drs s) - Z.of_nat (length ev) /\
  bytes (drs (trigger cfg s)) = bytes (drs s) - sum_sized ev /\
  dnum (trigger cfg s) = dnum s - Z.of_nat (length dev) /\
  dby (trigger cfg s) = dby s - dsum dev /\
  ld (drs (trigger cfg s)) = ld (drs s) /\ act (drs (trigger cfg s)) = act (drs s) /\
  (maxb cfg <> 0%N -> total (trigger cfg s) <= Z.of_N (maxb cfg) \/
                      (lru (drs (trigger cfg s)) = [] /\ dlru (trigger cfg s) = [])).
Proof.
  unfold trigger.
  destruct (N.eqb_spec (maxb cfg) 0) as [M|M]; cbn [orb].
  - exists [], []. rewrite !app_nil_r. cbn [length sum_sized dsum]. repeat split; try lia.
  - destruct (total s <=? Z.of_N (maxb cfg)) eqn:B.
    + exists [], []. rewrite !app_nil_r. cbn [length sum_sized dsum]. repeat split; try lia.
    + destruct (evict2 (S (length (lru (drs s)) + length (dlru s))) (total s - Z.of_N (maxb cfg)) 0 0 (dtog s)
                  (rev (lru (drs s))) (rev (dlru s)) 0 0) as [[[[[[rl dl] rb] db] n] dn] tog] eqn:E.
      destruct (evict2_spec _ _ _ _ _ _ _ _ _ _ _ _ _ _ _ _ E) as (tr & td & R1 & R2 & -> & -> & -> & -> & D).
      exists (rev tr), (rev td). cbn [drs dlru dnum dby lru items bytes ld act set_lru].
      rewrite !rev_length, sum_sized_rev, dsum_rev.
      split; [rewrite <- rev_app_distr, <- R1, rev_involutive; reflexivity|].
      split; [rewrite <- rev_app_distr, <- R2, rev_involutive; reflexivity|].
      repeat split; try lia.
      intros _. rewrite !rev_length in D. destruct D as [D|[-> ->]]; [lia | |right; auto].
      left. unfold total in *. cbn [drs dby bytes set_lru]. lia.
Qed.

Lemma trigger_inv cfg s :
  wf1 (drs s) -> capped cfg (drs s) -> DI cfg s ->
  wf1 (drs (trigger cfg s)) /\ capped cfg (drs (trigger cfg s)) /\ DI cfg (trigger cfg s) /\
  (wf2 (drs s) -> wf2 (drs (trigger cfg s))).
Proof.
  intros H1 HC (ND & E & C & B).
  destruct (trigger_spec cfg s) as (ev & dev & L & DL & I & BY & DN & DB & _).
  split; [|split; [|split]].
  - unfold wf1. rewrite I. apply W1_prefix. rewrite <- L. exact H1.
  - unfold capped in *. rewrite L, app_length in HC. lia.
  - unfold DI. rewrite DN, DB. rewrite DL in ND, E, C, B.
    rewrite dkeys_app in ND. rewrite app_length in E, C. rewrite dsum_app in B.
    split; [apply nodup_app_l in ND; exact ND|]. repeat split; lia.
  - intros H2. unfold wf2. rewrite BY. apply W2_prefix. rewrite <- L. exact H2.
Qed.

(* ---------- one orchestrator call ---------- *)
Definition dput_ok (s : dstate) (o : dop) : Prop :=
  match o with DRev o => put_ok (drs s) o | _ => True end.

Lemma capped_cfg0 cfg s : capped (cfg0 cfg) s <-> capped cfg s.
Proof. unfold capped, cfg0. cbn [cap]. tauto. Qed.

Lemma with_rs_DI cfg s r : DI cfg s -> DI cfg (with_rs s r).
Proof. unfold DI, with_rs. cbn [dlru dnum dby]. tauto. Qed.

Lemma dstep_inv cfg s o :
  wf1 (drs s) -> capped cfg (drs s) -> DI cfg s ->
  wf1 (drs (fst (dstep cfg s o))) /\ capped cfg (drs (fst (dstep cfg s o))) /\ DI cfg (fst (dstep cfg s o)) /\
  (wf2 (drs s) -> dput_ok s o -> wf2 (drs (fst (dstep cfg s o)))).
Proof.
  intros H1 HC HD. destruct o as [o|dk sz|k dk]; cbn [dstep].
  - pose proof (step_inv (cfg0 cfg) (drs s) o H1 (proj2 (capped_cfg0 cfg _) HC)) as (A & B & C).
    destruct (step (cfg0 cfg) (drs s) o) as [r x]. cbn [fst] in A, B, C. apply (proj1 (capped_cfg0 cfg _)) in B.
    destruct (triggers o x); cbn [fst].
    + destruct (trigger_inv cfg (with_rs s r) A B (with_rs_DI cfg s r HD)) as (A' & B' & D' & C').
      cbn [dput_ok]. cbn [with_rs drs] in C'.
      split; [exact A' | split; [exact B' | split; [exact D'|]]]. intros H2 P2. apply C'. apply C; assumption.
    + cbn [with_rs drs dput_ok]. split; [exact A | split; [exact B | split; [apply with_rs_DI; exact HD | exact C]]].
  - cbn [fst].
    pose proof (add_delta_inv cfg dk sz s HD) as HD'.
    assert (R : drs (add_delta cfg dk sz s) = drs s) by (unfold add_delta; destruct (dlookup dk (dlru s)); reflexivity).
    destruct (trigger_inv cfg (add_delta cfg dk sz s)) as (A' & B' & D' & C'); try rewrite R; auto.
    split; [exact A' | split; [exact B' | split; [exact D'|]]]. intros H2 _. apply C'. rewrite R. exact H2.
  - pose proof (get_key_inv (cfg0 cfg) k (drs s) H1 (proj2 (capped_cfg0 cfg _) HC)) as (A & B & C).
    destruct (get_key (cfg0 cfg) k (drs s)) as [r x]. cbn [fst] in A, B, C. apply (proj1 (capped_cfg0 cfg _)) in B.
    assert (G : forall (z : dstate * dout),
               z = (let '(s2, d) := get_delta dk (with_rs s r) in
                    (if oflag x then trigger cfg s2 else s2, mkDO (ores x) false d)) ->
               wf1 (drs (fst z)) /\ capped cfg (drs (fst z)) /\ DI cfg (fst z) /\
               (wf2 (drs s) -> True -> wf2 (drs (fst z)))).
    { intros z ->. destruct (get_delta_inv cfg dk (with_rs s r) (with_rs_DI cfg s r HD)) as [D2 R2].
      destruct (get_delta dk (with_rs s r)) as [s2 d]. cbn [fst] in D2, R2. cbn [with_rs drs] in R2.
      destruct (oflag x); cbn [fst].
      - destruct (trigger_inv cfg s2) as (A' & B' & D' & C'); try rewrite R2; auto.
        split; [exact A' | split; [exact B' | split; [exact D'|]]]. intros H2 _. apply C'. rewrite R2. auto.
      - rewrite R2. auto. }
    destruct (ores x) eqn:OR; try (apply G; reflexivity).
    cbn [fst with_rs drs dput_ok]. split; [exact A | split; [exact B | split; [apply with_rs_DI; exact HD | auto]]].
Qed.

(* ---------- whole runs ---------- *)
Fixpoint dputs_ok (cfg : config) (s : dstate) (ops : list dop) : Prop :=
  match ops with
  | [] => True
  | o :: r => dput_ok s o /\ dputs_ok cfg (fst (dstep cfg s o)) r
  end.

Lemma dinit_inv cfg l a :
  wf1 (drs (dinit l a)) /\ capped cfg (drs (dinit l a)) /\ DI cfg (dinit l a) /\ wf2 (drs (dinit l a)).
Proof.
  destruct (init_inv cfg l a) as (A & B & C). unfold dinit. cbn [drs].
  split; [exact A | split; [exact B | split; [|exact C]]].
  unfold DI. cbn [dlru dnum dby dkeys map length dsum]. repeat split; try lia. constructor.
Qed.

Lemma drun_inv1 cfg ops : forall s, wf1 (drs s) -> capped cfg (drs s) -> DI cfg s ->
  wf1 (drs (drun cfg s ops)) /\ capped cfg (drs (drun cfg s ops)) /\ DI cfg (drun cfg s ops).
Proof.
  induction ops as [|o r IH]; intros s H1 HC HD; cbn [drun]; [auto|].
  destruct (dstep_inv cfg s o H1 HC HD) as (A & B & D & _). apply IH; assumption.
Qed.

Lemma drun_inv2 cfg ops : forall s, wf1 (drs s) -> capped cfg (drs s) -> DI cfg s -> wf2 (drs s) ->
  dputs_ok cfg s ops -> wf2 (drs (drun cfg s ops)).
Proof.
  induction ops as [|o r IH]; intros s H1 HC HD H2 P; cbn [drun]; [auto|].
  destruct P as [P0 P]. destruct (dstep_inv cfg s o H1 HC HD) as (A & B & D & C). apply IH; auto.
Qed.

(* the combined counter is exactly what the two caches hold *)
Lemma delta_combined_gauge_exact cfg l a ops :
  dputs_ok cfg (dinit l a) ops ->
  let s := drun cfg (dinit l a) ops in
  total s = sum_sized (lru (drs s)) + dsum (dlru s) /\
  Forall (fun kv => vmem (snd kv) = Sized /\ vbody (snd kv) <> None) (lru (drs s)).
Proof.
  intros P s. destruct (dinit_inv cfg l a) as (A & B & D & C).
  destruct (drun_inv1 cfg ops _ A B D) as (_ & _ & (_ & _ & _ & DB)).
  destruct (drun_inv2 cfg ops _ A B D C P) as [F E]. fold s in DB, F, E.
  unfold total. split; [lia | exact F].
Qed.

(* item gauges and capacities of both caches *)
Lemma delta_items_exact cfg l a ops :
  let s := drun cfg (dinit l a) ops in
  dnum s = Z.of_nat (length (dlru s)) /\ NoDup (dkeys (dlru s)) /\ (length (dlru s) <= N.to_nat (cap cfg))%nat /\
  items (drs s) = Z.of_nat (length (lru (drs s))) /\ NoDup (keys (lru (drs s))) /\
  (length (lru (drs s)) <= N.to_nat (cap cfg))%nat.
Proof.
  intros s. destruct (dinit_inv cfg l a) as (A & B & D & _).
  destruct (drun_inv1 cfg ops _ A B D) as ([ND E] & C & (DND & DE & DC & _)). fold s in ND, E, C, DND, DE, DC.
  auto 10.
Qed.

(* ---------- memory bound ---------- *)
Lemma get_key0_noflag cfg k s :
  oflag (snd (get_key (cfg0 cfg) k s)) = false -> bytes (fst (get_key (cfg0 cfg) k s)) <= bytes s.
Proof.
  unfold get_key, get_value.
  destruct (lookup k (lru s)) as [v|].
  - cbn [lru items bytes set_lru lookup]. rewrite N.eqb_refl.
    destruct (vbody v); [cbn; lia|].
    destruct (ld s k); [destruct (vmem v)|]; cbn [fst snd oflag bytes set_lru]; try discriminate; lia.
  - cbn [lru items bytes set_lru].
    destruct (N.to_nat (cap (cfg0 cfg))) as [|n].
    + cbn [firstn skipn lookup]. pose proof (sum_sized_nonneg ((k, placeholder) :: lru s)).
      destruct (ld s k); cbn [fst bytes set_lru]; lia.
    + cbn [firstn skipn lookup]. rewrite N.eqb_refl. cbn [placeholder vbody vmem].
      pose proof (sum_sized_nonneg (skipn n (lru s))).
      destruct (ld s k); cbn [fst snd oflag bytes set_lru]; try discriminate. lia.
Qed.

Lemma get_key_err_noflag cfg k s e :
  ores (snd (get_key cfg k s)) = RErr e -> oflag (snd (get_key cfg k s)) = false.
Proof.
  unfold get_key. destruct (lookup k (lru (get_value cfg k s))) as [v|].
  - destruct (vbody v); [reflexivity|]. destruct (ld s k); [destruct (vmem v)|]; cbn; try discriminate; reflexivity.
  - destruct (ld s k); reflexivity.
Qed.

Lemma step0_notrigger_le cfg s o :
  triggers o (snd (step (cfg0 cfg) s o)) = false -> bytes (fst (step (cfg0 cfg) s o)) <= bytes s.
Proof.
  destruct o as [k|d|k c|k c|k|k|k r|d a]; cbn [step triggers]; try discriminate.
  - apply get_key0_noflag.
  - destruct (act s d); cbn [fst snd oflag]; [apply get_key0_noflag | lia | lia].
  - intros _. cbn [fst]. unfold remove_op. destruct (lookup k (lru s)) as [v|]; cbn [bytes set_lru]; [|lia].
    unfold sized_bytes. destruct (vmem v); lia.
  - intros _. unfold peek_op. destruct (lookup k (lru s)); cbn; lia.
  - intros _. cbn. lia.
  - intros _. cbn. lia.
Qed.

Lemma total_empty cfg s : DI cfg s -> wf2 (drs s) -> lru (drs s) = [] -> dlru s = [] -> total s = 0.
Proof.
  intros (_ & _ & _ & B) [_ E] L1 L2. unfold total. rewrite E, B, L1, L2. reflexivity.
Qed.

Lemma trigger_bounded cfg s :
  maxb cfg <> 0%N -> wf1 (drs s) -> capped cfg (drs s) -> DI cfg s -> wf2 (drs s) ->
  total (trigger cfg s) <= Z.of_N (maxb cfg).
Proof.
  intros M H1 HC HD H2. destruct (trigger_inv cfg s H1 HC HD) as (_ & _ & D' & C').
  destruct (trigger_spec cfg s) as (ev & dev & _ & _ & _ & _ & _ & _ & _ & _ & Bd).
  destruct (Bd M) as [X|[X Y]]; [exact X|].
  rewrite (total_empty cfg _ D' (C' H2) X Y). lia.
Qed.

Lemma dstep_bound cfg s o :
  maxb cfg <> 0%N -> wf1 (drs s) -> capped cfg (drs s) -> DI cfg s -> wf2 (drs s) -> dput_ok s o ->
  total s <= Z.of_N (maxb cfg) -> total (fst (dstep cfg s o)) <= Z.of_N (maxb cfg).
Proof.
  intros M H1 HC HD H2 P Hb. destruct o as [o|dk sz|k dk]; cbn [dstep].
  - pose proof (step_inv (cfg0 cfg) (drs s) o H1 (proj2 (capped_cfg0 cfg _) HC)) as (A & B & C).
    pose proof (step0_notrigger_le cfg (drs s) o) as LE.
    destruct (step (cfg0 cfg) (drs s) o) as [r x]. cbn [fst snd] in A, B, C, LE. apply (proj1 (capped_cfg0 cfg _)) in B.
    destruct (triggers o x); cbn [fst].
    + apply trigger_bounded; auto using with_rs_DI.
    + unfold total in *. cbn [with_rs drs dby]. specialize (LE eq_refl). lia.
  - cbn [fst].
    pose proof (add_delta_inv cfg dk sz s HD) as HD'.
    assert (R : drs (add_delta cfg dk sz s) = drs s) by (unfold add_delta; destruct (dlookup dk (dlru s)); reflexivity).
    apply trigger_bounded; try rewrite R; auto.
  - pose proof (get_key_inv (cfg0 cfg) k (drs s) H1 (proj2 (capped_cfg0 cfg _) HC)) as (A & B & C).
    pose proof (get_key0_noflag cfg k (drs s)) as LE.
    pose proof (fun e => get_key_err_noflag (cfg0 cfg) k (drs s) e) as EF.
    destruct (get_key (cfg0 cfg) k (drs s)) as [r x]. cbn [fst snd] in A, B, C, LE, EF. apply (proj1 (capped_cfg0 cfg _)) in B.
    assert (G : forall (z : dstate * dout),
               z = (let '(s2, d) := get_delta dk (with_rs s r) in
                    (if oflag x then trigger cfg s2 else s2, mkDO (ores x) false d)) ->
               total (fst z) <= Z.of_N (maxb cfg)).
    { intros z ->. destruct (get_delta_inv cfg dk (with_rs s r) (with_rs_DI cfg s r HD)) as [D2 R2].
      assert (T2 : dby (fst (get_delta dk (with_rs s r))) = dby s).
      { unfold get_delta. destruct (dlookup dk (dlru (with_rs s r))); reflexivity. }
      destruct (get_delta dk (with_rs s r)) as [s2 d]. cbn [fst] in D2, R2, T2. cbn [with_rs drs] in R2.
      destruct (oflag x); cbn [fst].
      - apply trigger_bounded; try rewrite R2; auto.
      - unfold total in *. rewrite R2, T2. specialize (LE eq_refl). lia. }
    destruct (ores x) eqn:OR; try (apply G; reflexivity).
    cbn [fst]. unfold total in *. cbn [with_rs drs dby]. specialize (LE (EF _ eq_refl)). lia.
Qed.

Lemma only_removes_puts_ok_0 cfg ks : forall s, puts_ok (cfg0 cfg) s (map Remove ks).
Proof. induction ks as [|k r IH]; intros s; cbn [map puts_ok]; [exact I|]. split; [exact I | apply IH]. Qed.

Lemma remove_all_empties cfg : forall l s,
  lru s = l -> NoDup (keys l) -> lru (run cfg s (map Remove (keys l))) = [].
Proof.
  induction l as [|[k v] r IH]; intros s E ND; cbn [keys map fst run]; [exact E|].
  inversion ND as [|? ? Hn Hr]; subst.
  apply IH; [|exact Hr].
  cbn [step fst]. unfold remove_op. rewrite E. cbn [lookup]. rewrite N.eqb_refl.
  cbn [lru set_lru remove_key]. rewrite N.eqb_refl. apply remove_key_notin. exact Hn.
Qed.

(* with a byte limit, the combined total is within the limit after every orchestrator call *)
Lemma delta_memory_bound cfg l a ops :
  maxb cfg <> 0%N -> dputs_ok cfg (dinit l a) ops ->
  total (drun cfg (dinit l a) ops) <= Z.of_N (maxb cfg).
Proof.
  intros M.
  assert (G : forall ops s, wf1 (drs s) -> capped cfg (drs s) -> DI cfg s -> wf2 (drs s) ->
              total s <= Z.of_N (maxb cfg) -> dputs_ok cfg s ops -> total (drun cfg s ops) <= Z.of_N (maxb cfg)).
  { induction ops0 as [|o r IH]; intros s A B D C Hb P; cbn [drun]; [exact Hb|].
    destruct P as [P0 P]. destruct (dstep_inv cfg s o A B D) as (A1 & B1 & D1 & C1).
    apply IH; auto. apply dstep_bound; auto. }
  intros P. destruct (dinit_inv cfg l a) as (A & B & D & C). apply G; auto. cbn. lia.
Qed.

(* removing every revision leaves exactly the deltas' bytes in the counter (the delta cache has no Remove) *)
Lemma drun_removes cfg ks : forall s,
  drun cfg s (map (fun k => DRev (Remove k)) ks) = with_rs s (run (cfg0 cfg) (drs s) (map Remove ks)).
Proof.
  induction ks as [|k r IH]; intros s; cbn [map drun run].
  - destruct s; reflexivity.
  - cbn [dstep step triggers fst]. rewrite IH. reflexivity.
Qed.

Lemma delta_revisions_emptied cfg l a ops :
  dputs_ok cfg (dinit l a) ops ->
  let s := drun cfg (dinit l a) ops in
  let s' := drun cfg s (map (fun k => DRev (Remove k)) (keys (lru (drs s)))) in
  lru (drs s') = [] /\ items (drs s') = 0 /\ dlru s' = dlru s /\ dnum s' = dnum s /\ total s' = dsum (dlru s).
Proof.
  intros P s s'. destruct (dinit_inv cfg l a) as (A & B & D & C).
  destruct (drun_inv1 cfg ops _ A B D) as (A1 & B1 & D1). pose proof (drun_inv2 cfg ops _ A B D C P) as C1.
  fold s in A1, B1, D1, C1.
  assert (E : s' = with_rs s (run (cfg0 cfg) (drs s) (map Remove (keys (lru (drs s)))))) by apply drun_removes.
  assert (L : lru (drs s') = []).
  { rewrite E. cbn [with_rs drs]. apply remove_all_empties; [reflexivity | exact (proj1 A1)]. }
  destruct (run_inv1 (cfg0 cfg) (map Remove (keys (lru (drs s)))) (drs s) A1 (proj2 (capped_cfg0 cfg _) B1)) as [[_ I1] K1].
  pose proof (run_inv2 (cfg0 cfg) (map Remove (keys (lru (drs s)))) (drs s) A1 (proj2 (capped_cfg0 cfg _) B1) C1
                (only_removes_puts_ok_0 cfg _ (drs s))) as [_ I2].
  rewrite E in *. cbn [with_rs drs dlru dnum dby] in *. unfold total. cbn [drs dby].
  rewrite L in I1, I2. cbn in I1, I2. destruct D1 as (_ & _ & _ & DB).
  repeat split; auto. cbn [with_rs drs dby]. lia.
Qed.
