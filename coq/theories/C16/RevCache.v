(* C16 -- sequential model of db/revision_cache_lru.go (LRURevisionCache), the memory-based eviction of
   db/revision_cache_orchestrator.go (triggerMemoryEviction, no delta cache) and the byte counter of
   db/cache_memory_controller.go.

   One [step] = one public method call running alone (no other goroutine between its internal steps).
   The interleaving model of the same protocol is RevCacheConc.v.

   Data.  key  = interned (docID, versionString) pair (a revision-cache key of one collection);
          doc  = interned docID;
          content = what a DocumentRevision carries: [cid] interns the projection
                    (body, history, channels, deleted, removed, attachments, revID, CV) and [csize] is
                    DocumentRevision.CalculateBytes of it;
          the backing store is the pair of functions [ld] (what revCacheLoader / revCacheLoaderForCv
          return for a key now) and [act] (what GetDocument says for GetActive); it changes only through
          the ops [SetLoad] / [SetActive] (metadata-only channel change, document written / deleted,
          injected failure).
   Gauges are Z: the code's counters are signed and the drift examples drive them negative. *)
From SG Require Import Base.Prelude.
Open Scope Z_scope.

Definition key := N.
Definition doc := N.

Record content := mkC { cid : N; csize : N }.

Inductive lres := LOk (c : content) | LErr (e : N).
Inductive ares := ADoc (k : key) | ANil | AErr (e : N).

(* revCacheValue.memState *)
Inductive mem := Loading | Sized | Removed.

(* revCacheValue: bodyBytes etc. ([None] = not loaded), itemBytes, memState *)
Record value := mkV { vbody : option content; vbytes : N; vmem : mem }.

Definition placeholder : value := mkV None 0%N Loading.

Record config := mkCfg {
  cap  : N;      (* LRURevisionCache.capacity (MaxItemCount of the shard) *)
  maxb : N;      (* CacheMemoryController.capacity, 0 = unlimited *)
  orch : bool    (* true: driven through RevisionCacheOrchestrator (memory eviction after writes) *)
}.

Record state := mkS {
  ld    : key -> lres;
  act   : doc -> ares;
  lru   : list (key * value);   (* lruList front -> back; cache map = the same association *)
  items : Z;                    (* RevisionCacheNumItems *)
  bytes : Z                     (* RevisionCacheTotalMemory = controller.bytesInUseForShard *)
}.

Inductive op :=
| Get (k : key)
| GetActive (d : doc)
| Put (k : key) (c : content)
| Upsert (k : key) (c : content)
| Remove (k : key)
| Peek (k : key)
| SetLoad (k : key) (r : lres)
| SetActive (d : doc) (a : ares).

Inductive res := ROk (c : content) | RErr (e : N) | REmpty | RUnit.
Record out := mkO { ores : res; oflag : bool }.   (* oflag = checkForMemoryEviction result of Get/GetActive *)

(* ---------- association-list helpers ---------- *)
Fixpoint lookup (k : key) (l : list (key * value)) : option value :=
  match l with
  | [] => None
  | (k', v) :: r => if N.eqb k k' then Some v else lookup k r
  end.

Fixpoint remove_key (k : key) (l : list (key * value)) : list (key * value) :=
  match l with
  | [] => []
  | (k', v) :: r => if N.eqb k k' then remove_key k r else (k', v) :: remove_key k r
  end.

Fixpoint update (k : key) (v : value) (l : list (key * value)) : list (key * value) :=
  match l with
  | [] => []
  | (k', v') :: r => if N.eqb k k' then (k', v) :: r else (k', v') :: update k v r
  end.

Definition keys (l : list (key * value)) : list key := map fst l.

(* bytes that were added to the gauge on behalf of a value: only memStateSized values count *)
Definition sized_bytes (v : value) : Z :=
  match vmem v with Sized => Z.of_N (vbytes v) | _ => 0 end.

Fixpoint sum_sized (l : list (key * value)) : Z :=
  match l with
  | [] => 0
  | (_, v) :: r => sized_bytes v + sum_sized r
  end.

Definition set_lru (s : state) (l : list (key * value)) (i b : Z) : state :=
  mkS (ld s) (act s) l i b.

(* ---------- getValue(create=true): MoveToFront, or PushFront a placeholder + _numberCapacityEviction ----------
   The eviction loop removes list tails while Len() > capacity, i.e. keeps exactly the first [cap] elements;
   evicted values are swapped to Removed and only the Sized ones are subtracted from the byte gauge. *)
Definition get_value (cfg : config) (k : key) (s : state) : state :=
  match lookup k (lru s) with
  | Some v => set_lru s ((k, v) :: remove_key k (lru s)) (items s) (bytes s)
  | None =>
      let l1 := (k, placeholder) :: lru s in
      let kept := firstn (N.to_nat (cap cfg)) l1 in
      let ev := skipn (N.to_nat (cap cfg)) l1 in
      set_lru s kept (items s + 1 - Z.of_nat (length ev)) (bytes s - sum_sized ev)
  end.

(* ---------- RevisionCacheOrchestrator.triggerMemoryEviction / LRURevisionCache.evictLRUTail ----------
   [rl] is the LRU list reversed (tail first).  Returns (remaining reversed list, bytes removed, items removed). *)
Fixpoint evict_tail (need removed : Z) (n : Z) (rl : list (key * value)) : list (key * value) * Z * Z :=
  if removed <? need then
    match rl with
    | [] => (rl, removed, n)
    | (_, v) :: r => evict_tail need (removed + sized_bytes v) (n + 1) r
    end
  else (rl, removed, n).

Definition mem_evict (cfg : config) (s : state) : state :=
  if negb (orch cfg) || (N.eqb (maxb cfg) 0) || (bytes s <=? Z.of_N (maxb cfg)) then s
  else
    let need := bytes s - Z.of_N (maxb cfg) in
    match evict_tail need 0 0 (rev (lru s)) with
    | (rl, removed, n) => set_lru s (rev rl) (items s - n) (bytes s - removed)
    end.

(* ---------- Get: getValue; value.load; CAS Loading->Sized + increment; removeValueForFailedLoad ---------- *)
Definition get_key (cfg : config) (k : key) (s : state) : state * out :=
  let s1 := get_value cfg k s in
  match lookup k (lru s1) with
  | None =>
      (* capacity 0: the placeholder was evicted at once (memStateRemoved); the caller still loads into the
         detached value, the CAS fails, a failed load finds nothing to unlink *)
      match ld s k with
      | LOk c => (s1, mkO (ROk c) false)
      | LErr e => (s1, mkO (RErr e) false)
      end
  | Some v =>
      match vbody v with
      | Some c => (s1, mkO (ROk c) false)                                  (* cache hit *)
      | None =>
          match ld s k with
          | LOk c =>
              match vmem v with
              | Loading =>
                  let v' := mkV (Some c) (csize c) Sized in
                  let s2 := set_lru s1 (update k v' (lru s1)) (items s1) (bytes s1 + Z.of_N (csize c)) in
                  (mem_evict cfg s2, mkO (ROk c) true)
              | m =>
                  let v' := mkV (Some c) (csize c) m in
                  (set_lru s1 (update k v' (lru s1)) (items s1) (bytes s1), mkO (ROk c) false)
              end
          | LErr e =>
              (set_lru s1 (remove_key k (lru s1)) (items s1 - 1) (bytes s1), mkO (RErr e) false)
          end
      end
  end.

(* ---------- Put: getValue; itemBytes.Store; CAS Loading->Sized + increment; store (only if empty) ---------- *)
Definition put_key (cfg : config) (k : key) (c : content) (s : state) : state :=
  let s1 := get_value cfg k s in
  match lookup k (lru s1) with
  | None => mem_evict cfg s1
  | Some v =>
      let body' := match vbody v with Some c0 => Some c0 | None => Some c end in
      match vmem v with
      | Loading =>
          let v' := mkV body' (csize c) Sized in
          mem_evict cfg (set_lru s1 (update k v' (lru s1)) (items s1) (bytes s1 + Z.of_N (csize c)))
      | m =>
          let v' := mkV body' (csize c) m in
          mem_evict cfg (set_lru s1 (update k v' (lru s1)) (items s1) (bytes s1))
      end
  end.

(* ---------- Upsert: upsertDocToCache (old value -> Removed, decrement if Sized; PushFront; number eviction);
   itemBytes.Store; CAS; store ---------- *)
Definition upsert_key (cfg : config) (k : key) (c : content) (s : state) : state :=
  let '(l0, i0, b0) :=
    match lookup k (lru s) with
    | Some v => (remove_key k (lru s), items s, bytes s - sized_bytes v)
    | None => (lru s, items s + 1, bytes s)
    end in
  let l1 := (k, placeholder) :: l0 in
  let kept := firstn (N.to_nat (cap cfg)) l1 in
  let ev := skipn (N.to_nat (cap cfg)) l1 in
  let s1 := set_lru s kept (i0 - Z.of_nat (length ev)) (b0 - sum_sized ev) in
  match lookup k kept with
  | None => mem_evict cfg s1
  | Some _ =>
      let v' := mkV (Some c) (csize c) Sized in
      mem_evict cfg (set_lru s1 (update k v' kept) (items s1) (bytes s1 + Z.of_N (csize c)))
  end.

Definition remove_op (k : key) (s : state) : state :=
  match lookup k (lru s) with
  | None => s
  | Some v => set_lru s (remove_key k (lru s)) (items s - 1) (bytes s - sized_bytes v)
  end.

Definition peek_op (k : key) (s : state) : state * out :=
  match lookup k (lru s) with
  | None => (s, mkO REmpty false)
  | Some v =>
      (set_lru s ((k, v) :: remove_key k (lru s)) (items s) (bytes s),
       mkO (match vbody v with Some c => ROk c | None => REmpty end) false)
  end.

Definition step (cfg : config) (s : state) (o : op) : state * out :=
  match o with
  | Get k => get_key cfg k s
  | GetActive d =>
      match act s d with
      | AErr e => (s, mkO (RErr e) false)
      | ANil => (s, mkO REmpty false)
      | ADoc k => get_key cfg k s
      end
  | Put k c => (put_key cfg k c s, mkO RUnit false)
  | Upsert k c => (upsert_key cfg k c s, mkO RUnit false)
  | Remove k => (remove_op k s, mkO RUnit false)
  | Peek k => peek_op k s
  | SetLoad k r =>
      (mkS (fun k' => if N.eqb k' k then r else ld s k') (act s) (lru s) (items s) (bytes s), mkO RUnit false)
  | SetActive d a =>
      (mkS (ld s) (fun d' => if N.eqb d' d then a else act s d') (lru s) (items s) (bytes s), mkO RUnit false)
  end.

Definition init (l : key -> lres) (a : doc -> ares) : state := mkS l a [] 0 0.

Fixpoint run (cfg : config) (s : state) (ops : list op) : state :=
  match ops with
  | [] => s
  | o :: r => run cfg (fst (step cfg s o)) r
  end.

(* run, collecting the outputs and the state after every op *)
Fixpoint trace (cfg : config) (s : state) (ops : list op) : list (out * state) :=
  match ops with
  | [] => []
  | o :: r => let '(s', x) := step cfg s o in (x, s') :: trace cfg s' r
  end.

(* what a fresh load of [k] from storage returns now (the bypass cache) *)
Definition fresh (s : state) (k : key) : res :=
  match ld s k with LOk c => ROk c | LErr e => RErr e end.
