(* C16 -- interleaving model: at rest every value still in the cache is accounted (Sized).
   Invariant: a cached value that is not Sized always has a goroutine that will resolve it:
     Loading, load failed          -> someone is about to mark it removed      (GFailMark)
     Loading, loaded               -> the loader is about to CAS it            (GCas)
     Loading, not loaded           -> someone is about to load / put it        (GLoad, PBytes, PCas)
     Removed but still linked      -> someone is about to unlink it            (GFailUnlink)
   Holds for both variants of the marking step. *)
From SG Require Import Base.Prelude C16.RevCache C16.RevCacheConc C16.RevCacheConcProofs.
Open Scope Z_scope.

Definition want (v : cval) : option nat :=
  if cin v then
    match cm v with
    | Loading => if cerr v then Some 1%nat else if cloaded v then Some 2%nat else Some 3%nat
    | Removed => Some 4%nat
    | Sized => None
    end
  else None.

Definition cls (p : pc) (n : nat) : bool :=
  match p, n with
  | GFailMark _ _, 1%nat => true
  | GCas _ _, 2%nat => true
  | GLoad _ _, 3%nat | PBytes _ _, 3%nat | PCas _ _, 3%nat => true
  | GFailUnlink _ _, 4%nat => true
  | _, _ => false
  end.

Definition pidx (p : pc) : option nat :=
  match p with
  | Idle => None
  | GLoad i _ | GCas i _ | GInc i _ | GFailMark i _ | GFailUnlink i _
  | PBytes i _ | PCas i _ | PInc i _ | PStore i _ => Some i
  end.

Definition past_cas (p : pc) : bool := match p with PInc _ _ | PStore _ _ => true | _ => false end.

(* goroutines past Put's CAS hold a value that is no longer Loading *)
Definition NL (s : cstate) : Prop :=
  forall t p i, nth_error (thr s) t = Some p -> past_cas p = true -> pidx p = Some i ->
                exists v, nth_error (heap s) i = Some v /\ cm v <> Loading.

Definition W (s : cstate) : Prop :=
  forall i v n, nth_error (heap s) i = Some v -> want v = Some n ->
                exists t p, nth_error (thr s) t = Some p /\ cls p n = true /\ pidx p = Some i.

Lemma nth_error_upd_cases {A} (l : list A) i j x y :
  nth_error (upd i x l) j = Some y -> (i = j /\ y = x) \/ (i <> j /\ nth_error l j = Some y).
Proof.
  intros H. destruct (Nat.eq_dec i j) as [E|E].
  - left. split; [exact E|]. subst.
    destruct (nth_error l j) as [z|] eqn:Z.
    + rewrite (nth_error_upd_same l j x z Z) in H. congruence.
    + exfalso. assert (L : (length (upd j x l) = length l)).
      { clear. revert j. induction l as [|a r IH]; intros [|j]; cbn; auto. }
      apply nth_error_None in Z. assert (nth_error (upd j x l) j <> None) by congruence.
      apply nth_error_Some in H0. lia.
  - right. split; [exact E|]. rewrite nth_error_upd_other in H by exact E. exact H.
Qed.

(* one heap entry and one goroutine change *)
Lemma W_step s i0 v0 v0' t0 p0 p0' gi' gb' :
  W s -> nth_error (heap s) i0 = Some v0 -> nth_error (thr s) t0 = Some p0 ->
  (pidx p0 = Some i0 \/ pidx p0 = None) ->
  (forall n, want v0' = Some n ->
     (cls p0' n = true /\ pidx p0' = Some i0) \/ (want v0 = Some n /\ cls p0 n = false)) ->
  W (mkCS (upd i0 v0' (heap s)) (upd t0 p0' (thr s)) gi' gb').
Proof.
  intros HW Hv Hp Hidx Hn i v n Hi Hwant. cbn [heap thr] in *.
  destruct (nth_error_upd_cases _ _ _ _ _ Hi) as [[E ->]|[E Hi']].
  - subst i. destruct (Hn n Hwant) as [[C P]|[Wn C]].
    + exists t0, p0'. split; [eapply nth_error_upd_same; eauto | auto].
    + destruct (HW i0 v0 n Hv Wn) as (t & p & Ht & Cp & Pp).
      assert (t <> t0) by (intros ->; rewrite Hp in Ht; inversion Ht; subst; congruence).
      exists t, p. split; [rewrite nth_error_upd_other by congruence; exact Ht | auto].
  - destruct (HW i v n Hi' Hwant) as (t & p & Ht & Cp & Pp).
    assert (t <> t0).
    { intros ->. rewrite Hp in Ht. inversion Ht; subst. destruct Hidx as [Hx|Hx]; rewrite Hx in Pp; congruence. }
    exists t, p. split; [rewrite nth_error_upd_other by congruence; exact Ht | auto].
Qed.

Lemma NL_step s i0 v0 v0' t0 p0' gi' gb' :
  NL s -> nth_error (heap s) i0 = Some v0 ->
  (cm v0 <> Loading -> cm v0' <> Loading) ->
  (past_cas p0' = true -> pidx p0' = Some i0 /\ cm v0' <> Loading) ->
  NL (mkCS (upd i0 v0' (heap s)) (upd t0 p0' (thr s)) gi' gb').
Proof.
  intros HN Hv Hm Hp t p i Ht Pc Pi. cbn [heap thr] in *.
  assert (G : forall j w, nth_error (heap s) j = Some w -> cm w <> Loading ->
              exists w', nth_error (upd i0 v0' (heap s)) j = Some w' /\ cm w' <> Loading).
  { intros j w Hj Hc. destruct (Nat.eq_dec i0 j) as [E|E].
    - subst. rewrite Hv in Hj. inversion Hj; subst. exists v0'. split; [eapply nth_error_upd_same; eauto | auto].
    - exists w. split; [rewrite nth_error_upd_other by exact E; exact Hj | exact Hc]. }
  destruct (Nat.eq_dec t0 t) as [E|E].
  - subst. destruct (nth_error (thr s) t) as [q|] eqn:Q.
    + rewrite (nth_error_upd_same _ _ _ _ Q) in Ht. inversion Ht; subst.
      destruct (Hp Pc) as [Pi' Hc]. rewrite Pi in Pi'. inversion Pi'; subst.
      exists v0'. split; [eapply nth_error_upd_same; eauto | exact Hc].
    + exfalso. apply nth_error_None in Q.
      assert (L : length (upd t p0' (thr s)) = length (thr s)).
      { clear. generalize (thr s). intros l. revert t. induction l as [|a r IH]; intros [|t]; cbn; auto. }
      assert (nth_error (upd t p0' (thr s)) t <> None) by congruence. apply nth_error_Some in H. lia.
  - rewrite nth_error_upd_other in Ht by exact E.
    destruct (HN t p i Ht Pc Pi) as (w & Hw & Hc). exact (G i w Hw Hc).
Qed.

Record Inv2 (s : cstate) : Prop := mkInv2 { inv_nl : NL s; inv_w : W s }.

Ltac crush_want :=
  let n := fresh "n" in let Hn := fresh "Hn" in
  intros n Hn; unfold want in Hn |- *; cbn in Hn |- *;
  repeat match type of Hn with
         | context [if ?b then _ else _] => destruct b; cbn in Hn |- *
         | context [match ?m with Loading => _ | Sized => _ | Removed => _ end] => destruct m; cbn in Hn |- *
         end;
  try discriminate; try congruence; inversion Hn; subst; cbn;
  first [left; split; reflexivity | right; split; reflexivity].

Section Rest.
  Variable ksize : key -> N.
  Variable fixed : bool.

  Lemma start_inv2 s t k found mk s' :
    (forall i k, pidx (mk i k) = Some i /\ past_cas (mk i k) = false /\ cls (mk i k) 3 = true) ->
    Inv2 s -> start s t k found mk = Some s' -> Inv2 s'.
  Proof.
    intros MK [HN HW]. unfold start.
    destruct (nth_error (thr s) t) as [p|] eqn:Hp; [|discriminate].
    destruct p; try discriminate.
    destruct found as [i|].
    - destruct (nth_error (heap s) i) as [v|] eqn:Hv; [|discriminate].
      destruct (cin v && N.eqb (ck v) k); [|discriminate].
      intros E; inversion E; subst; clear E.
      destruct (MK i k) as (P1 & P2 & P3).
      rewrite <- (upd_same_id (heap s) i v Hv). split.
      + apply (NL_step s i v v t); auto; intros; congruence.
      + apply (W_step s i v v t Idle); auto.
    - destruct (key_free k (heap s)); [|discriminate].
      intros E; inversion E; subst; clear E.
      destruct (MK (length (heap s)) k) as (P1 & P2 & P3). split.
      + intros t' p i Ht Pc Pi. cbn [heap thr] in *.
        destruct (Nat.eq_dec t t') as [E|E].
        * subst. rewrite (nth_error_upd_same _ _ _ _ Hp) in Ht. inversion Ht; subst. congruence.
        * rewrite nth_error_upd_other in Ht by exact E.
          destruct (HN t' p i Ht Pc Pi) as (w & Hw & Hc). exists w. split; [|exact Hc].
          rewrite nth_error_app1; [exact Hw|]. apply nth_error_Some. congruence.
      + intros i v n Hi Hwant. cbn [heap thr] in *.
        destruct (Nat.lt_ge_cases i (length (heap s))) as [L|L].
        * rewrite nth_error_app1 in Hi by exact L.
          destruct (HW i v n Hi Hwant) as (t' & p & Ht & Cp & Pp).
          assert (t' <> t) by (intros ->; rewrite Hp in Ht; inversion Ht; subst; discriminate).
          exists t', p. split; [rewrite nth_error_upd_other by congruence; exact Ht | auto].
        * rewrite nth_error_app2 in Hi by exact L.
          destruct (i - length (heap s))%nat as [|d] eqn:D; cbn in Hi; [|destruct d; discriminate].
          inversion Hi; subst. cbn in Hwant. inversion Hwant; subst.
          assert (i = length (heap s)) by lia. subst i.
          exists t, (mk (length (heap s)) k). split; [eapply nth_error_upd_same; eauto | auto].
  Qed.

  Ltac fin_nl :=
    cbn;
    first [ (intros; discriminate) | (intros; contradiction) | (intros; congruence) | tauto
          | (intros _; split; [reflexivity | first [discriminate | assumption | congruence | tauto]]) ].
  Ltac do_NL HN Hv := eapply (NL_step _ _ _ _ _ _ _ _ HN Hv); fin_nl.
  Ltac do_W HW Hv Hp := eapply (W_step _ _ _ _ _ _ _ _ _ HW Hv Hp); [cbn; auto | crush_want].

  Lemma cstep_inv2 s a s' : Inv2 s -> cstep ksize fixed s a = Some s' -> Inv2 s'.
  Proof.
    intros HI. destruct a as [t k found|t k found|i|t ok|t]; cbn [cstep].
    - apply start_inv2; [|exact HI]. intros; cbn; auto.
    - apply start_inv2; [|exact HI]. intros; cbn; auto.
    - (* AEvict: no goroutine changes *)
      destruct HI as [HN HW].
      destruct (nth_error (heap s) i) as [v|] eqn:Hv; [|discriminate].
      destruct (cin v) eqn:C; [|discriminate].
      intros E; inversion E; subst; clear E. split.
      + intros t p j Ht Pc Pj. cbn [heap thr] in *.
        destruct (HN t p j Ht Pc Pj) as (w & Hw & Hc).
        destruct (Nat.eq_dec i j) as [E|E].
        * subst. rewrite Hv in Hw. inversion Hw; subst.
          eexists. split; [eapply nth_error_upd_same; eauto | cbn; discriminate].
        * exists w. split; [rewrite nth_error_upd_other by exact E; exact Hw | exact Hc].
      + intros j w n Hj Hwant. cbn [heap thr] in *.
        destruct (nth_error_upd_cases _ _ _ _ _ Hj) as [[E ->]|[E Hj']].
        * cbn in Hwant. discriminate.
        * exact (HW j w n Hj' Hwant).
    - (* ALoad *)
      destruct HI as [HN HW].
      destruct (nth_error (thr s) t) as [p|] eqn:Hp; [|discriminate].
      destruct p; try discriminate.
      destruct (nth_error (heap s) i) as [v|] eqn:Hv; [|discriminate].
      destruct v as [vk vl ve vb vm vc]. cbn [cloaded cerr ck cby cm cin].
      destruct vl, ve; cbn [orb]; try destruct ok; intros E; inversion E; subst; clear E; unfold set_heap;
        (split; [do_NL HN Hv | do_W HW Hv Hp]).
    - (* AStep *)
      destruct HI as [HN HW]. unfold step_thread.
      destruct (nth_error (thr s) t) as [p|] eqn:Hp; [|discriminate].
      destruct p; try discriminate;
        (destruct (nth_error (heap s) i) as [v|] eqn:Hv; [|discriminate]);
        destruct v as [vk vl ve vb vm vc]; cbn [cloaded cerr ck cby cm cin].
      + (* GCas *)
        destruct vm; cbn [mem_is_loading]; intros E; inversion E; subst; clear E; unfold set_heap;
          (split; [do_NL HN Hv | do_W HW Hv Hp]).
      + (* GInc *)
        intros E; inversion E; subst; clear E; unfold set_heap; (split; [do_NL HN Hv | do_W HW Hv Hp]).
      + (* GFailMark *)
        intros E; inversion E; subst; clear E; unfold set_heap; (split; [do_NL HN Hv | do_W HW Hv Hp]).
      + (* GFailUnlink *)
        destruct vc; intros E; inversion E; subst; clear E; unfold set_heap;
          (split; [do_NL HN Hv | do_W HW Hv Hp]).
      + (* PBytes *)
        intros E; inversion E; subst; clear E; unfold set_heap; (split; [do_NL HN Hv | do_W HW Hv Hp]).
      + (* PCas *)
        destruct vm; cbn [mem_is_loading]; intros E; inversion E; subst; clear E; unfold set_heap;
          (split; [do_NL HN Hv | do_W HW Hv Hp]).
      + (* PInc *)
        destruct (HN t (PInc i k) i Hp eq_refl eq_refl) as (w & Hw & Hc). rewrite Hv in Hw. inversion Hw; subst.
        cbn [cm] in Hc.
        intros E; inversion E; subst; clear E; unfold set_heap; (split; [do_NL HN Hv | do_W HW Hv Hp]).
      + (* PStore *)
        destruct (HN t (PStore i k) i Hp eq_refl eq_refl) as (w & Hw & Hc). rewrite Hv in Hw. inversion Hw; subst.
        cbn [cm] in Hc.
        destruct vl; intros E; inversion E; subst; clear E; unfold set_heap;
          (split; [do_NL HN Hv | destruct vm; try congruence; do_W HW Hv Hp]).
  Qed.

  Lemma cinit_inv2 n : Inv2 (cinit n).
  Proof.
    split.
    - intros t p i Ht Pc Pi. cbn [cinit thr] in Ht. apply nth_error_In, repeat_spec in Ht. subst. discriminate.
    - intros i v m Hi. cbn [cinit heap] in Hi. destruct i; discriminate.
  Qed.

  Lemma crun_inv2 acts : forall s s', Inv2 s -> crun ksize fixed s acts = Some s' -> Inv2 s'.
  Proof.
    induction acts as [|a r IH]; intros s s' HI; cbn [crun].
    - intros E; inversion E; subst. exact HI.
    - destruct (cstep ksize fixed s a) as [s1|] eqn:E; [|discriminate].
      apply IH. eapply cstep_inv2; eauto.
  Qed.

  Lemma rest_all_sized s : Inv2 s -> quiescent s ->
    forall i v, nth_error (heap s) i = Some v -> cin v = true -> cm v = Sized.
  Proof.
    intros [_ HW] Q i v Hi C.
    destruct (want v) as [n|] eqn:Wn.
    - destruct (HW i v n Hi Wn) as (t & p & Ht & Cp & _).
      assert (p = Idle). { unfold quiescent in Q. rewrite Forall_forall in Q. apply Q. eapply nth_error_In; eauto. }
      subst. destruct n as [|[|[|[|[|?]]]]]; discriminate.
    - unfold want in Wn. rewrite C in Wn. destruct (cm v); try reflexivity.
      + destruct (cerr v); [discriminate|]. destruct (cloaded v); discriminate.
      + discriminate.
  Qed.
End Rest.
