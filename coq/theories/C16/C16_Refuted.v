(* C16 -- statements the faithful model of the code AS FOUND violates (not part of the obligations).

   1. failed_load_put_race_leak: with removeValueForFailedLoad marking the value by a plain
      memState.Store(memStateRemoved) ([fixed = false]), the schedule
          reader: getValue inserts the placeholder; load fails
          writer: Put finds the same placeholder; itemBytes.Store; CAS Loading->Sized; increment; store
          reader: Store(Removed) (no decrement); unlink
      ends at rest with an empty cache and the byte gauge still holding the writer's bytes.
      Replayed on the real code by the harness (signature failed-load-put-race-leak).
      With the repaired step ([fixed = true]) the same schedule ends with gauge 0.

   2. put_resize_drift: a Put onto a value that is already accounted, carrying a different size, overwrites
      itemBytes without adjusting the gauge; removing the value then leaves the gauge off by the
      difference (here negative).  This is why C16_bytes_gauge_exact carries the hypothesis [puts_ok]. *)
From SG Require Import Base.Prelude C16.RevCache C16.RevCacheProofs C16.RevCacheConc.
Open Scope Z_scope.

Definition leak_schedule : list cact :=
  [AGet 0 7%N None; ALoad 0 false;
   APut 1 7%N (Some 0%nat); AStep 1; AStep 1; AStep 1; AStep 1;
   AStep 0; AStep 0].

Theorem C16_failed_load_put_race_leak_refuted :
  exists ksize n acts s,
    crun ksize false (cinit n) acts = Some s /\ quiescent s /\
    cached_count s = 0 /\ cached_sized_bytes s = 0 /\ gi s = 0 /\ gb s <> 0.
Proof.
  exists (fun _ => 47%N), 2%nat, leak_schedule. eexists.
  split; [vm_compute; reflexivity|].
  split; [repeat constructor|].
  repeat split; vm_compute; congruence.
Qed.

Example repaired_step_same_schedule :
  exists s, crun (fun _ => 47%N) true (cinit 2) leak_schedule = Some s /\ gb s = 0 /\ gi s = 0.
Proof. eexists. split; [vm_compute; reflexivity|]. split; reflexivity. Qed.

Theorem C16_put_resize_drift_refuted :
  exists cfg l a ops,
    lru (run cfg (init l a) ops) = [] /\ items (run cfg (init l a) ops) = 0 /\
    bytes (run cfg (init l a) ops) <> 0 /\ ~ puts_ok cfg (init l a) ops.
Proof.
  exists (mkCfg 2 0 true), (fun _ => LOk (mkC 1 10)), (fun d => ADoc d), [Get 1%N; Put 1%N (mkC 2 20); Remove 1%N].
  split; [reflexivity|]. split; [reflexivity|]. split; [vm_compute; congruence|].
  cbn [puts_ok]. intros (_ & P & _). cbn [put_ok] in P.
  specialize (P (mkV (Some (mkC 1 10)) 10 Sized) eq_refl). cbn in P. congruence.
Qed.
