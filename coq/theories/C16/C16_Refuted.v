(* C16 -- statements the faithful model of the code AS FOUND violates (not part of the obligations).

   1. failed_load_put_race_leak: with removeValueForFailedLoad marking the value by a plain
      memState.Store(memStateRemoved) ([fixed = false]), the schedule
          reader: getValue inserts the placeholder; load fails
          writer: Put finds the same placeholder; itemBytes.Store; CAS Loading->Sized; increment; store
          reader: Store(Removed) (no decrement); unlink
      ends at rest with an empty cache and the byte gauge still holding the writer's bytes.
      Replayed on the real code by the harness (signature failed-load-put-race-leak).
      With the repaired step ([fixed = true]) the same schedule ends with gauge 0.

   2. put_resize_drift: a Put onto a value that is already accounted, carrying a different size, overwrites
      itemBytes without adjusting the gauge; removing the value then leaves the gauge off by the
      difference (here negative).  This is why C16_bytes_gauge_exact carries the hypothesis [puts_ok].

   3. shares_needs_no_store: C16_get_during_load_waits_and_shares carries the hypothesis that no Put/Upsert
      stored into the value ([est]).  Without it the statement is false, and rightly so: the load fails,
      a Put that found the placeholder and is parked on value.lock stores its revision (store clears err),
      a Get that waited on the same value is then served that revision, while the loading Get returned
      the error.  (On the real code the waiting Get is woken before the parked Put -- sync.RWMutex hands the
      lock to blocked readers first -- and returns the error, as the step-level cases show; a Get arriving
      after the store is served the stored revision.)  Not a defect: the Put carries what storage now holds.

   4. unchanged_cv_by_revid_incoherent: why DocChanged must drop the CV key for an UnchangedCV event.  A rule that
      drops the current revTreeID key instead (for user-xattr AND UnchangedCV events) is not sound: node 1 caches
      the CV key, node 0 resolves a conflict as local wins (same CV, longer HLV history, new revTreeID), node 1
      processes the feed and keeps serving the pre-resolution revision under the CV for ever.
      (Not the code as found: its rule is C16_docchanged_invalidation_sound.) *)
From SG Require Import Base.Prelude C16.RevCache C16.RevCacheProofs C16.RevCacheConc C16.RevCacheStep C16.RevCacheCoherence.
Open Scope Z_scope.

Definition leak_schedule : list cact :=
  [AGet 0 7%N None; ALoad 0 false;
   APut 1 7%N (Some 0%nat); AStep 1; AStep 1; AStep 1; AStep 1;
   AStep 0; AStep 0].

Theorem C16_failed_load_put_race_leak_refuted :
  exists ksize n acts s,
    crun ksize false (cinit n) acts = Some s /\ quiescent s /\
    cached_count s = 0 /\ cached_sized_bytes s = 0 /\ gi s = 0 /\ gb s <> 0.
Proof.
  exists (fun _ => 47%N), 2%nat, leak_schedule. eexists.
  split; [vm_compute; reflexivity|].
  split; [repeat constructor|].
  repeat split; vm_compute; congruence.
Qed.

Example repaired_step_same_schedule :
  exists s, crun (fun _ => 47%N) true (cinit 2) leak_schedule = Some s /\ gb s = 0 /\ gi s = 0.
Proof. eexists. split; [vm_compute; reflexivity|]. split; reflexivity. Qed.

Theorem C16_put_resize_drift_refuted :
  exists cfg l a ops,
    lru (run cfg (init l a) ops) = [] /\ items (run cfg (init l a) ops) = 0 /\
    bytes (run cfg (init l a) ops) <> 0 /\ ~ puts_ok cfg (init l a) ops.
Proof.
  exists (mkCfg 2 0 true), (fun _ => LOk (mkC 1 10)), (fun d => ADoc d), [Get 1%N; Put 1%N (mkC 2 20); Remove 1%N].
  split; [reflexivity|]. split; [reflexivity|]. split; [vm_compute; congruence|].
  cbn [puts_ok]. intros (_ & P & _). cbn [put_ok] in P.
  specialize (P (mkV (Some (mkC 1 10)) 10 Sized) eq_refl). cbn in P. congruence.
Qed.

Definition share_schedule : list eact :=
  [EGet 0 7%N; ELoadBegin 0; EGet 1 7%N; EPut 2 7%N (mkC 1 47); EStep 2 LPBytes; EStep 2 LPCas; EStep 2 LPInc;
   ELoadEnd 0; EStep 2 LPStore; ELoadBegin 1].

Theorem C16_shares_needs_no_store :
  exists ksize n l acts s e1 e2,
    erun ksize (einit n l) acts = Some s /\ In e1 (elog s) /\ In e2 (elog s) /\
    ge_val e1 = ge_val e2 /\ ge_res e1 <> ge_res e2 /\ est s (ge_val e1) = true.
Proof.
  exists (fun _ => 47%N), 3%nat, (fun _ => LErr 404), share_schedule. eexists.
  exists (mkGE 1 0 (LOk (mkC 1 47)) true), (mkGE 0 0 (LErr 404) false).
  split; [vm_compute; reflexivity|].
  split; [left; reflexivity|]. split; [right; left; reflexivity|].
  split; [reflexivity|]. split; [discriminate | reflexivity].
Qed.

Definition revid_only_inval (e : ev) (k : ckey) : bool :=
  (e_ux e || e_uc e) && keqb k (mkK (e_doc e) false (e_rev e)).

Theorem C16_unchanged_cv_by_revid_incoherent :
  exists ops s n k c,
    hrun revid_only_inval hinit ops = Some s /\ hqueue s n = [] /\
    hcache s n k = Some c /\ current s k = true /\ c <> content_of s k.
Proof.
  exists [OMut 0 false (MWrite 1 10 20 100 200); ODeliver 0; ODeliver 1; OGet 1 (mkK 1 true 20) None;
          OMut 0 false (MLocalWins 1 11 101 201); ODeliver 0; ODeliver 1]%N.
  eexists. exists 1%nat, (mkK 1 true 20), 200%N.
  split; [vm_compute; reflexivity|]. repeat split; try reflexivity. vm_compute. discriminate.
Qed.
