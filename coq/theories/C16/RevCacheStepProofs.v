(* C16 -- the refined interleaving model (RevCacheStep.v): projection onto the abstract model, transfer of its
   invariants, single flight, sharing of the one load among overlapping Gets, and the combined byte counter
   (revisions + deltas) at rest. *)
From SG Require Import Base.Prelude C16.RevCache C16.RevCacheConc C16.RevCacheConcProofs C16.RevCacheConcRest
  C16.RevCacheDelta C16.RevCacheDeltaProofs C16.RevCacheStep.
Open Scope Z_scope.

Lemma crun_app ksize fixed a : forall s b,
  crun ksize fixed s (a ++ b) = match crun ksize fixed s a with Some s1 => crun ksize fixed s1 b | None => None end.
Proof.
  induction a as [|x r IH]; intros s b; cbn [app crun]; [reflexivity|].
  destruct (cstep ksize fixed s x); [apply IH | reflexivity].
Qed.

(* ---------- shape of one abstract step: what it does to the heap and to the program counters ---------- *)
Definition vflags (v : cval) : bool * bool := (cloaded v, cerr v).

Inductive hshape (s s' : cstate) (a : cact) : Prop :=
| HS_same : heap s' = heap s -> hshape s s' a
| HS_new k : heap s' = heap s ++ [fresh_val k] -> hshape s s' a
| HS_upd i v v' :
    nth_error (heap s) i = Some v -> heap s' = upd i v' (heap s) -> ck v' = ck v ->
    (vflags v' = vflags v \/
     (exists t k ok, a = ALoad t ok /\ nth_error (thr s) t = Some (GLoad i k) /\
                     cloaded v = false /\ cerr v = false /\ cloaded v' = ok /\ cerr v' = negb ok) \/
     (exists t k, a = AStep t /\ nth_error (thr s) t = Some (PStore i k) /\
                  cloaded v = false /\ cloaded v' = true /\ cerr v' = false)) ->
    hshape s s' a.

Inductive tshape (s s' : cstate) (a : cact) : Prop :=
| TS_same : thr s' = thr s -> (forall i, a = AEvict i -> True) -> (exists i, a = AEvict i) -> tshape s s' a
| TS_upd t p p' :
    nth_error (thr s) t = Some p -> thr s' = upd t p' (thr s) ->
    match a with
    | AGet t' _ _ | APut t' _ _ => t' = t /\ p = Idle
    | ALoad t' _ => t' = t /\ exists i k, p = GLoad i k
    | AStep t' => t' = t /\ pc_lbl p <> None
    | AEvict _ => False
    end ->
    tshape s s' a.

Ltac crack H :=
  repeat match type of H with
         | context [match ?x with _ => _ end] => let E := fresh "E" in destruct x eqn:E; try discriminate H
         end.

Section Shapes.
  Variable ksize : key -> N.
  Variable fixed : bool.

  Ltac hs_upd := cbn [heap]; eapply HS_upd; [eassumption | reflexivity | reflexivity | ].

  Lemma cstep_hshape s a s' : cstep ksize fixed s a = Some s' -> hshape s s' a.
  Proof.
    intros H. destruct a as [t k found|t k found|i|t ok|t]; cbn [cstep] in H.
    - unfold start in H. crack H; inversion H; subst; cbn [heap]; first [apply HS_same; reflexivity | eapply HS_new; reflexivity].
    - unfold start in H. crack H; inversion H; subst; cbn [heap]; first [apply HS_same; reflexivity | eapply HS_new; reflexivity].
    - destruct (nth_error (heap s) i) as [v|] eqn:E; [|discriminate]. destruct (cin v); [|discriminate].
      inversion H; subst. hs_upd. left. reflexivity.
    - destruct (nth_error (thr s) t) as [p|] eqn:Ep; [|discriminate]. destruct p; try discriminate.
      destruct (nth_error (heap s) i) as [v|] eqn:E; [|discriminate].
      destruct (cloaded v || cerr v) eqn:L.
      + inversion H; subst. unfold set_heap. hs_upd. left. reflexivity.
      + apply orb_false_iff in L. destruct L as [L1 L2].
        destruct ok; inversion H; subst; unfold set_heap; hs_upd; right; left.
        * exists t, k, true. auto 10.
        * exists t, k, false. auto 10.
    - unfold step_thread in H.
      destruct (nth_error (thr s) t) as [p|] eqn:Ep; [|discriminate].
      destruct p; try discriminate; (destruct (nth_error (heap s) i) as [v|] eqn:E; [|discriminate]).
      + destruct (mem_is_loading (cm v)); inversion H; subst; unfold set_heap; hs_upd; left; reflexivity.
      + inversion H; subst; unfold set_heap; hs_upd; left; reflexivity.
      + inversion H; subst; unfold set_heap; hs_upd; left; reflexivity.
      + destruct (cin v); inversion H; subst; unfold set_heap; hs_upd; left; reflexivity.
      + inversion H; subst; unfold set_heap; hs_upd; left; reflexivity.
      + destruct (mem_is_loading (cm v)); inversion H; subst; unfold set_heap; hs_upd; left; reflexivity.
      + inversion H; subst; unfold set_heap; hs_upd; left; reflexivity.
      + destruct (cloaded v) eqn:L; inversion H; subst; unfold set_heap; hs_upd.
        * left; reflexivity.
        * right. right. exists t, k. auto.
  Qed.

  Lemma cstep_tshape s a s' : cstep ksize fixed s a = Some s' -> tshape s s' a.
  Proof.
    intros H. destruct a as [t k found|t k found|i|t ok|t]; cbn [cstep] in H.
    - unfold start in H. crack H; inversion H; subst; (eapply TS_upd; [eassumption | reflexivity | split; reflexivity]).
    - unfold start in H. crack H; inversion H; subst; (eapply TS_upd; [eassumption | reflexivity | split; reflexivity]).
    - destruct (nth_error (heap s) i) as [v|] eqn:E; [|discriminate]. destruct (cin v); [|discriminate].
      inversion H; subst. apply TS_same; eauto.
    - destruct (nth_error (thr s) t) as [p|] eqn:Ep; [|discriminate]. destruct p; try discriminate.
      destruct (nth_error (heap s) i) as [v|] eqn:E; [|discriminate].
      destruct (cloaded v || cerr v); [|destruct ok]; inversion H; subst; unfold set_heap;
        (eapply TS_upd; [eassumption | reflexivity | split; [reflexivity | eauto]]).
    - unfold step_thread in H.
      destruct (nth_error (thr s) t) as [p|] eqn:Ep; [|discriminate].
      destruct p; try discriminate; (destruct (nth_error (heap s) i) as [v|] eqn:E; [|discriminate]);
        crack H; inversion H; subst; unfold set_heap;
        (eapply TS_upd; [eassumption | reflexivity | split; [reflexivity | cbn; discriminate]]).
  Qed.
End Shapes.

(* ---------- flag-preserving heap extension ---------- *)
Definition fext (h h' : list cval) : Prop :=
  (length h <= length h')%nat /\
  forall j v', nth_error h' j = Some v' ->
    (exists v, nth_error h j = Some v /\ vflags v' = vflags v) \/
    ((length h <= j)%nat /\ vflags v' = (false, false)).

Lemma fext_refl h : fext h h.
Proof. split; [lia|]. intros j v' H. left. eauto. Qed.

Lemma fext_trans a b c : fext a b -> fext b c -> fext a c.
Proof.
  intros [L1 F1] [L2 F2]. split; [lia|]. intros j v' H.
  destruct (F2 j v' H) as [(v & Hv & E)|[Lj E]].
  - destruct (F1 j v Hv) as [(w & Hw & E')|[Lj E']]; [left; exists w; split; [exact Hw | congruence]|].
    right. split; [exact Lj | congruence].
  - right. split; [lia | exact E].
Qed.

Lemma upd_length {A} (l : list A) : forall i x, length (upd i x l) = length l.
Proof. induction l as [|a r IH]; intros [|i] x; cbn; auto. Qed.

Lemma fext_upd h i v v' : nth_error h i = Some v -> vflags v' = vflags v -> fext h (upd i v' h).
Proof.
  intros H E. split; [rewrite upd_length; lia|]. intros j w Hj.
  destruct (nth_error_upd_cases _ _ _ _ _ Hj) as [[-> ->]|[N Hj']]; left; eauto.
Qed.

Lemma fext_new h k : fext h (h ++ [fresh_val k]).
Proof.
  split; [rewrite app_length; lia|]. intros j w Hj.
  destruct (Nat.lt_ge_cases j (length h)) as [L|L].
  - rewrite nth_error_app1 in Hj by exact L. left. eauto.
  - right. split; [exact L|]. rewrite nth_error_app2 in Hj by exact L.
    destruct (j - length h)%nat as [|d]; cbn in Hj; [inversion Hj; reflexivity | destruct d; discriminate].
Qed.

Definition tframe (t : nat) (b b' : cstate) : Prop :=
  forall t0, t0 <> t -> nth_error (thr b') t0 = nth_error (thr b) t0.

(* a step that is neither a loading ALoad nor a storing PStore keeps all flags *)
Definition quiet (a : cact) : bool := match a with AGet _ _ _ | APut _ _ _ | AEvict _ => true | _ => false end.

Lemma cstep_quiet_fext ksize fixed b a b' :
  cstep ksize fixed b a = Some b' -> quiet a = true -> fext (heap b) (heap b').
Proof.
  intros H Q. destruct (cstep_hshape ksize fixed _ _ _ H) as [E|k E|i v v' Hv E K D]; rewrite E.
  - apply fext_refl.
  - apply fext_new.
  - apply (fext_upd _ _ v); [exact Hv|].
    destruct D as [D|[(t & k & ok & -> & _)|(t & k & -> & _)]]; [exact D | discriminate | discriminate].
Qed.

Lemma cstep_tframe ksize fixed b a b' t :
  cstep ksize fixed b a = Some b' ->
  match a with AGet t' _ _ | APut t' _ _ | ALoad t' _ | AStep t' => t' = t | AEvict _ => True end ->
  tframe t b b'.
Proof.
  intros H A. destruct (cstep_tshape ksize fixed _ _ _ H) as [E _ _|t1 p p' Hp E M].
  - intros t0 _. rewrite E. reflexivity.
  - intros t0 N. rewrite E. apply nth_error_upd_other.
    destruct a; try contradiction; destruct M as [<- _]; congruence.
Qed.

(* ---------- the invariant of the added components ---------- *)
Definition cohv (o : option lres) (v : cval) : Prop :=
  match o with
  | None => cloaded v = false /\ cerr v = false
  | Some (LOk _) => cloaded v = true /\ cerr v = false
  | Some (LErr _) => cloaded v = false /\ cerr v = true
  end.

Record EIc (b : cstate) (cont : nat -> option lres) (lock : nat -> option nat) (nl : nat -> nat)
           (lr : nat -> option lres) (st : nat -> bool) (log : list gent) : Prop := mkEIc {
  ei_coh : forall i v, nth_error (heap b) i = Some v -> cohv (cont i) v;
  ei_fresh : forall i, (length (heap b) <= i)%nat ->
             cont i = None /\ lock i = None /\ nl i = 0%nat /\ lr i = None /\ st i = false;
  ei_lock : forall i t, lock i = Some t ->
            (exists k, nth_error (thr b) t = Some (GLoad i k)) /\ cont i = None;
  ei_nl : forall i, (nl i <= 1)%nat /\ (cont i = None -> nl i = 0%nat);
  ei_share : forall i r, st i = false -> cont i = Some r -> lr i = Some r;
  ei_log : forall e, In e log ->
           cont (ge_val e) <> None /\ (st (ge_val e) = false -> lr (ge_val e) = Some (ge_res e))
}.

Definition ED (dl : list (dkey * N)) (dn db : Z) : Prop :=
  db = dsum dl /\ dn = Z.of_nat (length dl) /\ NoDup (dkeys dl).

Definition EI (s : estate) : Prop :=
  EIc (eb s) (econt s) (elock s) (enl s) (elres s) (est s) (elog s) /\ ED (edl s) (edn s) (edb s).

Lemma cohv_flags o v v' : vflags v' = vflags v -> cohv o v -> cohv o v'.
Proof. unfold vflags. intros E. inversion E as [[E1 E2]]. unfold cohv. rewrite E1, E2. auto. Qed.

(* the abstract state moves, flags kept, goroutines holding a value lock stay where they are *)
Definition lkeep (lock : nat -> option nat) (b b' : cstate) : Prop :=
  forall i t0, lock i = Some t0 -> nth_error (thr b') t0 = nth_error (thr b) t0.

Lemma EIc_frame b b' cont lock nl lr st log :
  EIc b cont lock nl lr st log ->
  fext (heap b) (heap b') -> lkeep lock b b' ->
  EIc b' cont lock nl lr st log.
Proof.
  intros [C F L N S G] [LE FX] LK. constructor; auto.
  - intros i v' H. destruct (FX i v' H) as [(v & Hv & E)|[Li E]].
    + eapply cohv_flags; [exact E | apply C; exact Hv].
    + destruct (F i Li) as (-> & _). unfold vflags in E. injection E as E1 E2. cbn. auto.
  - intros i Li. apply F. lia.
  - intros i t0 H. destruct (L i t0 H) as [[k Hk] Cn]. split; [|exact Cn].
    exists k. rewrite (LK i t0 H). exact Hk.
Qed.

Lemma lkeep_tframe lock b b' t : tframe t b b' -> (forall i, lock i <> Some t) -> lkeep lock b b'.
Proof. intros TF NL i t0 H. apply TF. intros ->. exact (NL i H). Qed.

Lemma lkeep_same lock b b' : thr b' = thr b -> lkeep lock b b'.
Proof. intros E i t0 _. rewrite E. reflexivity. Qed.

Lemma lkeep_trans lock a b c : lkeep lock a b -> lkeep lock b c -> lkeep lock a c.
Proof. intros X Y i t0 H. rewrite (Y i t0 H). exact (X i t0 H). Qed.

(* a goroutine that is not inside value.load holds no value lock *)
Lemma nolock_of_pc b cont lock nl lr st log t p :
  EIc b cont lock nl lr st log -> nth_error (thr b) t = Some p ->
  (forall i k, p <> GLoad i k) -> forall i, lock i <> Some t.
Proof.
  intros E Hp NG i H. destruct (ei_lock _ _ _ _ _ _ _ E i t H) as [[k Hk] _].
  rewrite Hp in Hk. inversion Hk. eapply NG; eauto.
Qed.

Lemma EIc_log_cons b cont lock nl lr st log e :
  EIc b cont lock nl lr st log ->
  cont (ge_val e) <> None -> (st (ge_val e) = false -> lr (ge_val e) = Some (ge_res e)) ->
  EIc b cont lock nl lr st (e :: log).
Proof.
  intros [C F L N S G] H1 H2. constructor; auto.
  intros e' [<-|H]; [auto | apply G; exact H].
Qed.

Lemma fupd_same {A} (f : nat -> A) i x : fupd f i x i = x.
Proof. unfold fupd. rewrite Nat.eqb_refl. reflexivity. Qed.

Lemma fupd_other {A} (f : nat -> A) i j x : j <> i -> fupd f i x j = f j.
Proof. unfold fupd. intros H. destruct (Nat.eqb_spec j i); [contradiction | reflexivity]. Qed.

(* ELoadBegin on a miss: the lock is taken, nothing else moves *)
Lemma EIc_acquire b cont lock nl lr st log t i k v :
  EIc b cont lock nl lr st log ->
  nth_error (thr b) t = Some (GLoad i k) -> nth_error (heap b) i = Some v ->
  cloaded v || cerr v = false ->
  EIc b cont (fupd lock i (Some t)) nl lr st log.
Proof.
  intros [C F L N S G] Ht Hv Fl. constructor; auto.
  - intros j Lj. destruct (F j Lj) as (A1 & A2 & A3 & A4 & A5). repeat split; auto.
    rewrite fupd_other; [exact A2|]. intros ->. apply nth_error_None in Lj. congruence.
  - intros j t0. destruct (Nat.eq_dec j i) as [->|NE].
    + rewrite fupd_same. intros E; inversion E; subst. split; [eauto|].
      specialize (C i v Hv). apply orb_false_iff in Fl. destruct Fl as [F1 F2].
      destruct (cont i) as [[c|e]|]; cbn in C; [destruct C; congruence | destruct C; congruence | reflexivity].
    + rewrite fupd_other by exact NE. apply L.
Qed.

(* ELoadEnd: the one backing-store load of value i *)
Lemma EIc_load_end b b' cont lock nl lr st log t i v v' r :
  EIc b cont lock nl lr st log ->
  lock i = Some t ->
  nth_error (heap b) i = Some v -> heap b' = upd i v' (heap b) ->
  cloaded v' = lres_ok r -> cerr v' = negb (lres_ok r) ->
  tframe t b b' ->
  EIc b' (fupd cont i (Some r)) (fupd lock i None) (fupd nl i (S (nl i))) (fupd lr i (Some r)) st
      (mkGE t i r false :: log).
Proof.
  intros [C F L N S G] Hl Hv Hh Fl1 Fl2 TF.
  destruct (L i t Hl) as [[k0 Ht] Cn].
  assert (LEN : length (heap b') = length (heap b)) by (rewrite Hh; apply upd_length).
  assert (ILT : (i < length (heap b))%nat) by (apply nth_error_Some; congruence).
  constructor.
  - intros j w H. rewrite Hh in H. destruct (nth_error_upd_cases _ _ _ _ _ H) as [[<- ->]|[NE H']].
    + rewrite fupd_same. destruct r; cbn in *; auto.
    + rewrite fupd_other by congruence. apply C. exact H'.
  - intros j Lj. rewrite LEN in Lj. destruct (F j Lj) as (A1 & A2 & A3 & A4 & A5).
    rewrite !fupd_other by lia. auto.
  - intros j t0. destruct (Nat.eq_dec j i) as [->|NE]; [rewrite fupd_same; discriminate|].
    rewrite !fupd_other by exact NE. intros H. destruct (L j t0 H) as [[k1 Hk] Cj]. split; [|exact Cj].
    exists k1. rewrite TF; [exact Hk|]. intros ->. rewrite Ht in Hk. inversion Hk; subst. contradiction.
  - intros j. destruct (Nat.eq_dec j i) as [->|NE].
    + rewrite !fupd_same. destruct (N i) as [_ Z0]. rewrite (Z0 Cn). split; [lia | discriminate].
    + rewrite !fupd_other by exact NE. apply N.
  - intros j r0. destruct (Nat.eq_dec j i) as [->|NE].
    + rewrite !fupd_same. auto.
    + rewrite !fupd_other by exact NE. apply S.
  - intros e [<-|H]; cbn [ge_val ge_res].
    + rewrite !fupd_same. split; [discriminate | auto].
    + destruct (G e H) as [G1 G2].
      assert (NE : ge_val e <> i) by (intros X; rewrite X in G1; contradiction).
      rewrite !fupd_other by exact NE. auto.
Qed.

(* value.store into a value that holds no body *)
Lemma EIc_store b b' cont lock nl lr st log t i v v' c :
  EIc b cont lock nl lr st log ->
  lock i = None -> (forall j, lock j <> Some t) ->
  nth_error (heap b) i = Some v -> heap b' = upd i v' (heap b) ->
  cloaded v' = true -> cerr v' = false ->
  tframe t b b' ->
  EIc b' (fupd cont i (Some (LOk c))) lock nl lr (fupd st i true) log.
Proof.
  intros [C F L N S G] Hl NL Hv Hh Fl1 Fl2 TF.
  assert (LEN : length (heap b') = length (heap b)) by (rewrite Hh; apply upd_length).
  assert (ILT : (i < length (heap b))%nat) by (apply nth_error_Some; congruence).
  constructor.
  - intros j w H. rewrite Hh in H. destruct (nth_error_upd_cases _ _ _ _ _ H) as [[<- ->]|[NE H']].
    + rewrite fupd_same. cbn. auto.
    + rewrite fupd_other by congruence. apply C. exact H'.
  - intros j Lj. rewrite LEN in Lj. destruct (F j Lj) as (A1 & A2 & A3 & A4 & A5).
    rewrite !fupd_other by lia. auto.
  - intros j t0 H. destruct (Nat.eq_dec j i) as [->|NE]; [congruence|].
    rewrite fupd_other by exact NE. destruct (L j t0 H) as [[k1 Hk] Cj]. split; [|exact Cj].
    exists k1. rewrite TF; [exact Hk|]. intros ->. exact (NL j H).
  - intros j. destruct (N j) as [N1 N2]. split; [exact N1|].
    destruct (Nat.eq_dec j i) as [->|NE]; [rewrite fupd_same; discriminate | rewrite fupd_other by exact NE; exact N2].
  - intros j r0. destruct (Nat.eq_dec j i) as [->|NE]; [rewrite fupd_same; discriminate|].
    rewrite !fupd_other by exact NE. apply S.
  - intros e H. destruct (G e H) as [G1 G2].
    destruct (Nat.eq_dec (ge_val e) i) as [E|NE].
    + rewrite E, !fupd_same. split; [discriminate | discriminate].
    + rewrite !fupd_other by exact NE. auto.
Qed.

(* ---------- specific abstract steps ---------- *)
Lemma cstep_load_miss ksize fixed b t ok i k v b' :
  nth_error (thr b) t = Some (GLoad i k) -> nth_error (heap b) i = Some v -> cloaded v || cerr v = false ->
  cstep ksize fixed b (ALoad t ok) = Some b' ->
  exists v', heap b' = upd i v' (heap b) /\ cloaded v' = ok /\ cerr v' = negb ok.
Proof.
  intros Ht Hv Fl. cbn [cstep]. rewrite Ht, Hv, Fl.
  destruct ok; intros H; inversion H; subst; unfold set_heap; cbn [heap]; eexists; split; try reflexivity; auto.
Qed.

Lemma cstep_load_hit ksize fixed b t ok i k v b' :
  nth_error (thr b) t = Some (GLoad i k) -> nth_error (heap b) i = Some v -> cloaded v || cerr v = true ->
  cstep ksize fixed b (ALoad t ok) = Some b' -> heap b' = heap b.
Proof.
  intros Ht Hv Fl. cbn [cstep]. rewrite Ht, Hv, Fl.
  intros H; inversion H; subst; unfold set_heap; cbn [heap]. apply upd_same_id. exact Hv.
Qed.

Lemma cstep_pstore ksize fixed b t i k v b' :
  nth_error (thr b) t = Some (PStore i k) -> nth_error (heap b) i = Some v ->
  cstep ksize fixed b (AStep t) = Some b' ->
  if cloaded v then heap b' = heap b
  else exists v', heap b' = upd i v' (heap b) /\ cloaded v' = true /\ cerr v' = false.
Proof.
  intros Ht Hv. cbn [cstep]. unfold step_thread. rewrite Ht, Hv.
  destruct (cloaded v); intros H; inversion H; subst; unfold set_heap; cbn [heap].
  - apply upd_same_id. exact Hv.
  - eexists. split; [reflexivity|]. auto.
Qed.

Lemma cstep_step_quiet ksize fixed b t p b' :
  nth_error (thr b) t = Some p -> (forall i k, p <> PStore i k) ->
  cstep ksize fixed b (AStep t) = Some b' -> fext (heap b) (heap b').
Proof.
  intros Hp NP H. destruct (cstep_hshape ksize fixed _ _ _ H) as [E|k E|i v v' Hv E K D]; rewrite E.
  - apply fext_refl.
  - apply fext_new.
  - apply (fext_upd _ _ v); [exact Hv|].
    destruct D as [D|[(t1 & k & ok & X & _)|(t1 & k & X & Ht & _)]]; [exact D | discriminate|].
    inversion X; subst. rewrite Hp in Ht. inversion Ht. exfalso. eapply NP; eauto.
Qed.

Lemma crun1 ksize fixed b a : crun ksize fixed b [a] = cstep ksize fixed b a.
Proof. cbn [crun]. destruct (cstep ksize fixed b a); reflexivity. Qed.

Lemma cstep_actor_pc ksize fixed b a b' t :
  cstep ksize fixed b a = Some b' ->
  match a with AGet t' _ _ | APut t' _ _ => t' = t | _ => False end ->
  nth_error (thr b) t = Some Idle.
Proof.
  intros H A. destruct (cstep_tshape ksize fixed _ _ _ H) as [_ _ [i X]|t1 p p' Hp E M].
  - subst a. contradiction.
  - destruct a; try contradiction; destruct M as [<- ->]; subst; exact Hp.
Qed.

Lemma cstep_evict_thr ksize fixed b i b' : cstep ksize fixed b (AEvict i) = Some b' -> thr b' = thr b.
Proof.
  cbn [cstep]. destruct (nth_error (heap b) i) as [v|]; [|discriminate]. destruct (cin v); [|discriminate].
  intros H; inversion H; reflexivity.
Qed.

Section EProofs.
  Variable ksize : key -> N.

  Lemma eb_epost s a b : eb (epost s a b) = b.
  Proof.
    destruct a; cbn [epost];
      repeat match goal with |- context [match ?x with _ => _ end] => destruct x end; reflexivity.
  Qed.

  Lemma estep_base s a s' :
    estep ksize s a = Some s' -> crun ksize true (eb s) (eproj s a) = Some (eb s').
  Proof.
    unfold estep. destruct (eguard ksize s a); [|discriminate].
    destruct (crun ksize true (eb s) (eproj s a)) as [b|]; [|discriminate].
    intros H; inversion H; subst. rewrite eb_epost. reflexivity.
  Qed.

  Lemma erun_projects acts : forall s s',
    erun ksize s acts = Some s' -> crun ksize true (eb s) (eproj_run ksize s acts) = Some (eb s').
  Proof.
    induction acts as [|a r IH]; intros s s'; cbn [erun eproj_run].
    - intros H; inversion H; subst. reflexivity.
    - destruct (estep ksize s a) as [s1|] eqn:E; [|discriminate]. intros H.
      rewrite crun_app, (estep_base _ _ _ E). apply IH. exact H.
  Qed.

  (* every invariant of the abstract model holds of the projection *)
  Lemma estep_inv s a s' : Inv ksize (eb s) -> estep ksize s a = Some s' -> Inv ksize (eb s').
  Proof. intros HI H. eapply crun_inv; [exact HI | apply estep_base; exact H]. Qed.

  Lemma estep_inv2 s a s' : Inv2 (eb s) -> estep ksize s a = Some s' -> Inv2 (eb s').
  Proof. intros HI H. eapply crun_inv2; [exact HI | apply estep_base; exact H]. Qed.

  Lemma thread_value s t i k :
    Inv ksize (eb s) -> nth_error (thr (eb s)) t = Some (GLoad i k) -> exists v, nth_error (heap (eb s)) i = Some v.
  Proof.
    intros HI Hp. pose proof (Forall_nth_error _ _ _ _ (inv_thr _ _ HI) Hp) as TK.
    destruct (tok_holds _ _ _ _ _ TK eq_refl) as (v & Hv & _). eauto.
  Qed.

  Lemma ED_same s b : ED (edl s) (edn s) (edb s) -> ED (edl (set_b s b)) (edn (set_b s b)) (edb (set_b s b)).
  Proof. auto. Qed.

  Lemma estep_EI s a s' : Inv ksize (eb s) -> EI s -> estep ksize s a = Some s' -> EI s'.
  Proof.
    intros HI [HE HD]. unfold estep.
    destruct (eguard ksize s a) eqn:GD; [|discriminate].
    destruct (crun ksize true (eb s) (eproj s a)) as [b|] eqn:R; [|discriminate].
    intros H; inversion H; subst; clear H.
    destruct a as [t k|t|t|t k c|t k c|t l|k|k|k r|h|dk sz|dk]; cbn [eproj] in R; cbn [eguard] in GD; cbn [epost].
    - (* EGet *)
      rewrite crun1 in R. split; [|exact HD]. cbn [eb econt elock enl elres est elog].
      eapply EIc_frame; [exact HE | eapply cstep_quiet_fext; [exact R | reflexivity] |].
      eapply lkeep_tframe; [eapply cstep_tframe; [exact R | reflexivity]|].
      eapply (nolock_of_pc _ _ _ _ _ _ _ _ Idle); [exact HE | eapply cstep_actor_pc; [exact R | reflexivity] | intros; discriminate].
    - (* ELoadBegin *)
      unfold thr_pc in *. destruct (nth_error (thr (eb s)) t) as [p|] eqn:Hp; [|discriminate].
      destruct p; try discriminate.
      destruct (elock s i) eqn:LK; [discriminate|].
      destruct (thread_value _ _ _ _ HI Hp) as [v Hv].
      unfold is_loaded, val_at in *. rewrite Hv in *.
      destruct (cloaded v || cerr v) eqn:Fl.
      + (* hit *)
        rewrite crun1 in R. split; [|exact HD]. cbn [eb econt elock enl elres est elog].
        assert (CN : econt s i <> None).
        { pose proof (ei_coh _ _ _ _ _ _ _ HE i v Hv) as C. intros X. rewrite X in C. cbn in C.
          destruct C as [C1 C2]. rewrite C1, C2 in Fl. discriminate. }
        apply EIc_log_cons; cbn [ge_val ge_res]; [|exact CN|].
        * eapply EIc_frame; [exact HE | rewrite (cstep_load_hit _ _ _ _ _ _ _ _ _ Hp Hv Fl R); apply fext_refl|].
          eapply lkeep_tframe; [eapply cstep_tframe; [exact R | reflexivity]|].
          intros j X. destruct (ei_lock _ _ _ _ _ _ _ HE j t X) as [[k0 Hk] _].
          rewrite Hp in Hk. inversion Hk; subst. congruence.
        * intros ST. destruct (econt s i) as [r|] eqn:CE; [|contradiction].
          apply (ei_share _ _ _ _ _ _ _ HE i r ST CE).
      + (* miss: the lock is taken *)
        cbn [crun] in R. inversion R; subst. split; [|exact HD]. cbn [eb econt elock enl elres est elog].
        eapply EIc_acquire; eauto.
    - (* ELoadEnd *)
      unfold thr_pc in *. destruct (nth_error (thr (eb s)) t) as [p|] eqn:Hp; [|discriminate].
      destruct p; try discriminate.
      destruct (elock s i) as [t'|] eqn:LK; [|discriminate].
      apply andb_true_iff in GD. destruct GD as [GT _]. apply Nat.eqb_eq in GT. subst t'.
      destruct (thread_value _ _ _ _ HI Hp) as [v Hv].
      rewrite crun1 in R. split; [|exact HD]. cbn [eb econt elock enl elres est elog].
      assert (Fl : cloaded v || cerr v = false).
      { destruct (ei_lock _ _ _ _ _ _ _ HE i t LK) as [_ CN].
        pose proof (ei_coh _ _ _ _ _ _ _ HE i v Hv) as C. rewrite CN in C. destruct C as [-> ->]. reflexivity. }
      destruct (cstep_load_miss _ _ _ _ _ _ _ _ _ Hp Hv Fl R) as (v' & Hh & F1 & F2).
      eapply EIc_load_end; eauto. eapply cstep_tframe; [exact R | reflexivity].
    - (* EPut *)
      rewrite crun1 in R. split; [|exact HD]. cbn [eb econt elock enl elres est elog].
      eapply EIc_frame; [exact HE | eapply cstep_quiet_fext; [exact R | reflexivity] |].
      eapply lkeep_tframe; [eapply cstep_tframe; [exact R | reflexivity]|].
      eapply (nolock_of_pc _ _ _ _ _ _ _ _ Idle); [exact HE | eapply cstep_actor_pc; [exact R | reflexivity] | intros; discriminate].
    - (* EUpsert *)
      split; [|exact HD]. cbn [eb econt elock enl elres est elog].
      destruct (find_cached k (heap (eb s))) as [i|].
      + cbn [crun] in R. destruct (cstep ksize true (eb s) (AEvict i)) as [b1|] eqn:R1; [|discriminate].
        destruct (cstep ksize true b1 (APut t k None)) as [b2|] eqn:R2; [|discriminate].
        inversion R; subst.
        pose proof (cstep_evict_thr _ _ _ _ _ R1) as T1.
        eapply EIc_frame; [exact HE | |].
        * eapply fext_trans; eapply cstep_quiet_fext; eauto.
        * eapply lkeep_trans; [apply lkeep_same; exact T1|].
          eapply lkeep_tframe; [eapply cstep_tframe; [exact R2 | reflexivity]|].
          eapply (nolock_of_pc _ _ _ _ _ _ _ _ Idle); [exact HE | | intros; discriminate].
          rewrite <- T1. eapply cstep_actor_pc; [exact R2 | reflexivity].
      + rewrite crun1 in R.
        eapply EIc_frame; [exact HE | eapply cstep_quiet_fext; [exact R | reflexivity] |].
        eapply lkeep_tframe; [eapply cstep_tframe; [exact R | reflexivity]|].
        eapply (nolock_of_pc _ _ _ _ _ _ _ _ Idle); [exact HE | eapply cstep_actor_pc; [exact R | reflexivity] | intros; discriminate].
    - (* EStep *)
      rewrite crun1 in R. unfold thr_pc in *.
      destruct (nth_error (thr (eb s)) t) as [p|] eqn:Hp; [|discriminate].
      assert (NG : forall i k, p <> GLoad i k) by (intros i k ->; cbn in GD; discriminate).
      assert (LKP : lkeep (elock s) (eb s) b).
      { eapply lkeep_tframe; [eapply cstep_tframe; [exact R | reflexivity]|].
        eapply nolock_of_pc; [exact HE | exact Hp | exact NG]. }
      assert (QUIET : (forall i k, p <> PStore i k) -> EIc b (econt s) (elock s) (enl s) (elres s) (est s) (elog s)).
      { intros NP. eapply EIc_frame; [exact HE | eapply cstep_step_quiet; eauto | exact LKP]. }
      destruct p; cbn [pc_lbl pc_val] in GD; try discriminate;
        destruct l; cbn [lbl_eqb andb] in GD; try discriminate;
        try (split; [|exact HD]; cbn [eb econt elock enl elres est elog set_b]; apply QUIET; intros; discriminate).
      (* LPStore at PStore i k *)
      destruct (elock s i) eqn:LK; [discriminate|]. destruct (eput s t) as [c|] eqn:PU; [|discriminate].
      unfold val_at.
      destruct (nth_error (heap (eb s)) i) as [v|] eqn:Hv.
      2:{ exfalso. cbn [cstep] in R. unfold step_thread in R. rewrite Hp, Hv in R. discriminate. }
      pose proof (cstep_pstore _ _ _ _ _ _ _ _ Hp Hv R) as PS.
      destruct (cloaded v) eqn:CL.
      + split; [|exact HD]. cbn [eb econt elock enl elres est elog set_b].
        eapply EIc_frame; [exact HE | rewrite PS; apply fext_refl | exact LKP].
      + destruct PS as (v' & Hh & F1 & F2). split; [|exact HD]. cbn [eb econt elock enl elres est elog].
        eapply EIc_store; eauto.
        * eapply nolock_of_pc; [exact HE | exact Hp | exact NG].
        * eapply cstep_tframe; [exact R | reflexivity].
    - (* ERemove *)
      split; [|exact HD]. cbn [eb econt elock enl elres est elog set_b].
      destruct (find_cached k (heap (eb s))) as [i|].
      + rewrite crun1 in R.
        eapply EIc_frame; [exact HE | eapply cstep_quiet_fext; [exact R | reflexivity] |].
        apply lkeep_same. eapply cstep_evict_thr; exact R.
      + cbn [crun] in R. inversion R; subst. exact HE.
    - (* EEvict *)
      split; [|exact HD]. cbn [eb econt elock enl elres est elog set_b].
      destruct (find_cached k (heap (eb s))) as [i|].
      + rewrite crun1 in R.
        eapply EIc_frame; [exact HE | eapply cstep_quiet_fext; [exact R | reflexivity] |].
        apply lkeep_same. eapply cstep_evict_thr; exact R.
      + cbn [crun] in R. inversion R; subst. exact HE.
    - (* ESetLoad *) cbn [crun] in R. inversion R; subst. split; [exact HE | exact HD].
    - (* EHold *) cbn [crun] in R. inversion R; subst. split; [exact HE | exact HD].
    - (* EDelta *)
      cbn [crun] in R. inversion R; subst.
      destruct (dlookup dk (edl s)) as [n|] eqn:DL; [split; [exact HE | exact HD]|].
      split; [exact HE|]. cbn [edl edn edb]. destruct HD as (D1 & D2 & D3). unfold ED.
      cbn [dsum length dkeys map fst]. repeat split; try lia.
      constructor; [apply dlookup_none_notin; exact DL | exact D3].
    - (* EDeltaEvict *)
      cbn [crun] in R. inversion R; subst.
      destruct (dlookup dk (edl s)) as [n|] eqn:DL; [|discriminate].
      split; [exact HE|]. cbn [edl edn edb]. destruct HD as (D1 & D2 & D3). unfold ED.
      destruct (dremove_spec dk (edl s) n D3 DL) as [A1 A2].
      repeat split; try lia. apply nodup_dremove. exact D3.
  Qed.
End EProofs.

(* ---------- whole schedules ---------- *)
Definition miss_of (i : nat) (e : gent) : bool := negb (ge_hit e) && Nat.eqb (ge_val e) i.

Fixpoint count_if {A} (f : A -> bool) (l : list A) : nat :=
  match l with [] => O | x :: r => if f x then S (count_if f r) else count_if f r end.

(* the load log and the per-value load counter agree: enl i = number of backing-store loads logged for i *)
Definition LC (s : estate) : Prop := forall i, count_if (miss_of i) (elog s) = enl s i.

Section Runs.
  Variable ksize : key -> N.

  Lemma estep_LC s a s' : LC s -> estep ksize s a = Some s' -> LC s'.
  Proof.
    intros HL. unfold estep.
    destruct (eguard ksize s a); [|discriminate].
    destruct (crun ksize true (eb s) (eproj s a)) as [b|]; [|discriminate].
    intros H; inversion H; subst; clear H.
    destruct a as [t k|t|t|t k c|t k c|t l|k|k|k r|h|dk sz|dk]; cbn [epost]; try exact HL.
    - destruct (thr_pc s t) as [[]|]; try exact HL.
      destruct (is_loaded s i); [|exact HL].
      intros j. cbn [elog enl count_if miss_of ge_hit negb andb]. apply HL.
    - destruct (thr_pc s t) as [[]|]; try exact HL.
      intros j. cbn [elog enl count_if miss_of ge_hit ge_val negb andb]. unfold fupd.
      rewrite (Nat.eqb_sym i j). destruct (Nat.eqb j i) eqn:E.
      + apply Nat.eqb_eq in E. subst j. f_equal. apply HL.
      + apply HL.
    - destruct l; try exact HL.
      + destruct (thr_pc s t) as [[]|]; try exact HL.
        destruct (val_at s i); [|exact HL]. destruct (eput s t); [|exact HL]. destruct (cloaded c); exact HL.
    - destruct (dlookup dk (edl s)); exact HL.
    - destruct (dlookup dk (edl s)); exact HL.
  Qed.

  Definition Good (s : estate) : Prop := Inv ksize (eb s) /\ Inv2 (eb s) /\ EI s /\ LC s.

  Lemma einit_good n l : Good (einit n l).
  Proof.
    split; [apply cinit_inv | split; [apply cinit_inv2 | split]].
    - split.
      + constructor; cbn; try (intros; discriminate); auto.
        * intros i v H. destruct i; discriminate.
        * intros e [].
      + unfold ED. cbn. repeat split; try lia. constructor.
    - intros i. reflexivity.
  Qed.

  Lemma erun_good acts : forall s s', Good s -> erun ksize s acts = Some s' -> Good s'.
  Proof.
    induction acts as [|a r IH]; intros s s' G; cbn [erun].
    - intros H; inversion H; subst. exact G.
    - destruct (estep ksize s a) as [s1|] eqn:E; [|discriminate].
      apply IH. destruct G as (A & B & C & D).
      split; [eapply estep_inv; eauto | split; [eapply estep_inv2; eauto | split; [eapply estep_EI; eauto | eapply estep_LC; eauto]]].
  Qed.

  (* SINGLE FLIGHT: whatever the schedule, at most one backing-store load is made for an inserted value,
     and that is exactly the number of loads the log shows for it *)
  Lemma single_flight n l acts s :
    erun ksize (einit n l) acts = Some s ->
    forall i, (enl s i <= 1)%nat /\ count_if (miss_of i) (elog s) = enl s i.
  Proof.
    intros R i. destruct (erun_good acts _ _ (einit_good n l) R) as (_ & _ & [E _] & L).
    split; [apply (ei_nl _ _ _ _ _ _ _ E i) | apply L].
  Qed.

  (* WAITS: while a goroutine is inside the loader for value i, no other value.load and no value.store on i
     can run -- by value.lock (checked against the code by the blocked-goroutine observations) *)
  Lemma load_excludes s i t1 :
    elock s i = Some t1 ->
    (forall t2 k, nth_error (thr (eb s)) t2 = Some (GLoad i k) -> estep ksize s (ELoadBegin t2) = None) /\
    (forall t2 k, nth_error (thr (eb s)) t2 = Some (PStore i k) -> estep ksize s (EStep t2 LPStore) = None).
  Proof.
    intros L. split; intros t2 k H; unfold estep, eguard, thr_pc; rewrite H; cbn [pc_lbl pc_val lbl_eqb andb];
      rewrite L; reflexivity.
  Qed.

  (* SHARES: all Gets served from value i -- the one that loaded and every one that waited or came later --
     return the outcome of the single load (same revision or same error), unless a Put/Upsert stored into i *)
  Lemma loads_shared n l acts s :
    erun ksize (einit n l) acts = Some s ->
    forall e1 e2, In e1 (elog s) -> In e2 (elog s) -> ge_val e1 = ge_val e2 -> est s (ge_val e1) = false ->
    ge_res e1 = ge_res e2 /\ elres s (ge_val e1) = Some (ge_res e1).
  Proof.
    intros R e1 e2 H1 H2 EV ST. destruct (erun_good acts _ _ (einit_good n l) R) as (_ & _ & [E _] & _).
    destruct (ei_log _ _ _ _ _ _ _ E e1 H1) as [_ A1]. destruct (ei_log _ _ _ _ _ _ _ E e2 H2) as [_ A2].
    rewrite <- EV in A2. specialize (A1 ST). specialize (A2 ST). split; [congruence | exact A1].
  Qed.

  (* the value lock is only ever held for a value that has not been loaded, by a goroutine inside Get *)
  Lemma lock_held_means_loading n l acts s :
    erun ksize (einit n l) acts = Some s ->
    forall i t, elock s i = Some t ->
    (exists k, nth_error (thr (eb s)) t = Some (GLoad i k)) /\ econt s i = None /\ enl s i = 0%nat.
  Proof.
    intros R i t H. destruct (erun_good acts _ _ (einit_good n l) R) as (_ & _ & [E _] & _).
    destruct (ei_lock _ _ _ _ _ _ _ E i t H) as [A B]. split; [exact A | split; [exact B|]].
    apply (ei_nl _ _ _ _ _ _ _ E i). exact B.
  Qed.

  (* the projection: every schedule of the refined model is a schedule of the abstract model *)
  Lemma erun_refines n l acts s :
    erun ksize (einit n l) acts = Some s ->
    crun ksize true (cinit n) (eproj_run ksize (einit n l) acts) = Some (eb s).
  Proof. intros R. apply (erun_projects ksize acts _ _ R). Qed.

  (* COMBINED COUNTER AT REST: revisions + deltas *)
  Lemma combined_gauge_at_rest n l acts s :
    erun ksize (einit n l) acts = Some s -> quiescent (eb s) ->
    etotal s = cached_sized_bytes (eb s) + dsum (edl s) /\
    gi (eb s) = cached_count (eb s) /\ edn s = Z.of_nat (length (edl s)) /\
    (forall i v, nth_error (heap (eb s)) i = Some v -> cin v = true -> cm v = Sized).
  Proof.
    intros R Q. destruct (erun_good acts _ _ (einit_good n l) R) as (A & B & [_ (D1 & D2 & _)] & _).
    destruct (quiescent_exact ksize _ A Q) as (G1 & G2 & _).
    unfold etotal. repeat split; try lia. apply rest_all_sized; assumption.
  Qed.

  (* in every reachable state (not only at rest) the combined counter obeys the accounting invariant *)
  Lemma combined_accounting_invariant n l acts s :
    erun ksize (einit n l) acts = Some s ->
    etotal s = sumf (base ksize) (heap (eb s)) - sumf (owes ksize) (thr (eb s)) + dsum (edl s).
  Proof.
    intros R. destruct (erun_good acts _ _ (einit_good n l) R) as ([A _ _ _] & _ & [_ (D1 & _)] & _).
    unfold etotal. lia.
  Qed.
End Runs.
