(* C15 correspondence: scenarios run on the real bootstrapContext over a decorated rosmar cluster connection
   (harness/rest/verif_c15_test.go) are replayed on the model. *)
From SG Require Export Base.Prelude C15.ConfigProto C15.ConfigApply C15.ProtoRace C15.ProtoGen.
Open Scope N_scope.

Fixpoint insert_sorted (x : N) (l : list N) : list N :=
  match l with
  | [] => [x]
  | y :: r => if x <=? y then x :: l else y :: insert_sorted x r
  end.
Definition sort_N (l : list N) : list N := fold_right insert_sorted [] l.

Definition colls_eqb (a b : list N) : bool := list_eqb N.eqb (sort_N a) (sort_N b).
Definition rver_eqb (a b : rver) : bool := ver_eqb (rv_ver a) (rv_ver b) && colls_eqb (rv_colls a) (rv_colls b).
Definition rentry_eqb (a b : rentry) : bool := rver_eqb (e_cur a) (e_cur b) && option_eqb rver_eqb (e_prev a) (e_prev b).
Definition config_eqb (a b : config) : bool := ver_eqb (c_ver a) (c_ver b) && colls_eqb (c_colls a) (c_colls b).
Definition pair_eqb {A} (f : A -> A -> bool) (a b : N * A) : bool := (fst a =? fst b) && f (snd a) (snd b).

Fixpoint insert_by_key {A} (x : N * A) (l : list (N * A)) : list (N * A) :=
  match l with
  | [] => [x]
  | y :: r => if fst x <=? fst y then x :: l else y :: insert_by_key x r
  end.
Definition sort_by_key {A} (l : list (N * A)) : list (N * A) := fold_right insert_by_key [] l.

Definition err_eqb (a b : err) : bool :=
  match a, b with
  | ENotFound, ENotFound | EExists, EExists | EConflict, EConflict | ECasRetries, ECasRetries | EReload, EReload
  | ELimit, ELimit | ECancelled, ECancelled | ENewer, ENewer | EDocWrite, EDocWrite | ERegMissing, ERegMissing => true
  | _, _ => false
  end.
Definition res_eqb (a b : res) : bool :=
  match a, b with
  | ROk, ROk => true
  | RLoaded l, RLoaded l' => list_eqb (pair_eqb config_eqb) (sort_by_key l) (sort_by_key l')
  | RErr e, RErr e' => err_eqb e e'
  | _, _ => false
  end.

(* observed final state: does the registry document exist, its entries, the config documents *)
Record final := Fin { f_reg_exists : bool; f_reg : list (N * rentry); f_cfgs : list (N * config) }.

(* events are written as numbers in the case files: crash + 2 * (expired + 2 * (pick + 8 * node)) *)
Definition ev (c : N) : event :=
  let node := N.to_nat (c / 32) in
  if N.odd c then Crash node else Step node (N.odd (c / 2)) ((c / 4) mod 8).

(* every order in which the Go map of loaded configs can be ranged over *)
Fixpoint inserts {A} (x : A) (l : list A) : list (list A) :=
  match l with
  | [] => [[x]]
  | y :: r => (x :: l) :: map (cons y) (inserts x r)
  end.
Fixpoint perms {A} (l : list A) : list (list A) :=
  match l with
  | [] => [[]]
  | x :: r => flat_map (inserts x) (perms r)
  end.
Definition acfg_eqb (a b : acfg) : bool :=
  (a_cas a =? a_cas b) && ver_eqb (a_ver a) (a_ver b) && colls_eqb (a_colls a) (a_colls b).

Inductive case :=
| CRun (ops : list opk) (evs : list N) (results : list (option res)) (fin : final)
(* one fetchAndLoadConfigs of a node: running before, loaded configs, databases whose config document the re-check
   still finds, running after (rest/config.go; C15/ConfigApply.v) *)
| CApply (before loaded : list (N * acfg)) (still : list N) (after : list (N * acfg))
(* a racing scenario: does the store the real code ended in satisfy version_linkage?  It must whenever the schedule
   satisfies the conditions of the racing theorems (ProtoRace.v) *)
| CHyp (ops : list opk) (evs : list N) (linked_ok : bool)
(* a scenario started from a store holding databases at chosen versions (ProtoGen.preset_store; stream "gen": every
   generation 1..12, 98..101, ... of the version id) *)
| CRunFrom (pre : list preset) (ops : list opk) (evs : list N) (results : list (option res)) (fin : final).

(* THE switch between the two versions of DeleteConfig's finalize: true = the tree with the repair cd27b43 (only the
   entry marked deleted is removed), false = the code before it (ConfigProto.do_step_old: removeDatabase on whatever
   entry the database has; C15_Refuted.acked_lost_to_delete_finalize is about that code) *)
Definition delete_finalize_repaired : bool := true.
Definition model_run (ops : list opk) (evs : list event) : world :=
  if delete_finalize_repaired then run ops evs else run_old ops evs.

Definition model_run_from (pre : list preset) (ops : list opk) (evs : list event) : world :=
  fold_left (if delete_finalize_repaired then step else step_old) evs (init_world (preset_store pre) ops).

Definition world_matches (w : world) (results : list (option res)) (fin : final) : bool :=
  list_eqb (option_eqb res_eqb) (map result_of (w_nodes w)) results
  && Bool.eqb (match s_reg (w_st w) with Some _ => true | None => false end) (f_reg_exists fin)
  && list_eqb (pair_eqb rentry_eqb) (match s_reg (w_st w) with Some (_, R) => R | None => [] end) (sort_by_key (f_reg fin))
  && list_eqb (pair_eqb config_eqb) (map (fun dc => (fst dc, snd (snd dc))) (s_cfg (w_st w))) (sort_by_key (f_cfgs fin)).

Definition check (c : case) : bool :=
  match c with
  | CRun ops evs results fin => world_matches (model_run ops (map ev evs)) results fin
  | CRunFrom pre ops evs results fin => world_matches (model_run_from pre ops (map ev evs)) results fin
  | CApply before loaded still after =>
      existsb (fun p => list_eqb (pair_eqb acfg_eqb) (fetch_and_load (sort_by_key before) p still) (sort_by_key after))
              (perms loaded)
  | CHyp ops evs linked_ok =>
      implb (all_along ev_ok (init_world init_store ops) (map ev evs)) linked_ok
  end.

Definition mismatches (cs : list case) : list N := failing check cs.

(* short constructors for the generated case files *)
Definition E (v : ver) (cs : list N) (p : option (ver * list N)) : rentry :=
  RE (RV v cs) (option_map (fun q => RV (fst q) (snd q)) p).
