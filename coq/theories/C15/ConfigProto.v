(* C15: the registry / database-config two-document protocol of rest/config_manager.go and
   rest/config_registry.go (one bucket, one config group).

   Store: the registry document (with CAS) and one config document per database (with CAS).
   Every public operation (InsertConfig, UpdateConfig, DeleteConfig, GetDatabaseConfigs) is a program whose
   atomic steps are the storage calls it makes through base.BootstrapConnection, in the order of the Go code;
   a node is one execution of one operation: its program counter names the NEXT storage call, its locals are
   the in-memory *GatewayRegistry (mutated in place, as in Go) and what it read.  A system is the store plus
   any number of nodes; an event runs one node's next storage call (and the local code up to the following
   call) or crashes a node (it performs no further call).  Timers are adversarial: every event carries the
   boolean [expired] ("the retry timeout has run out when this read's result is evaluated") and a [pick]
   that resolves Go's unspecified map iteration order in GetDatabaseConfigs.

   Versions are (generation, digest); "0-0" marks an in-progress delete, "0-1" an invalid entry.
   Collections are numbers, 0 is _default._default; an empty collection list means "default only"
   (len(scopes)==0 in getCollectionConflicts / getPreviousConflicts / registryDatabaseFromConfig).

   Note: in the current tree upsertDatabaseConfig returns an error together with the list of in-flight
   previous-version conflicts, and both InsertConfig and UpdateConfig test the error first, so
   WaitForConflictingUpdates is dead code: a conflict with an in-flight previous version is an immediate 409. *)
From SG Require Import Base.Prelude.
Open Scope N_scope.

(* ---------- finite maps keyed by N: sorted association lists ---------- *)
Section AMap.
  Context {V : Type}.
  Definition amap := list (N * V).
  Fixpoint aget (m : amap) (k : N) : option V :=
    match m with
    | [] => None
    | (k', v) :: r => if k' =? k then Some v else aget r k
    end.
  Fixpoint aset (m : amap) (k : N) (v : V) : amap :=
    match m with
    | [] => [(k, v)]
    | (k', v') :: r => if k =? k' then (k, v) :: r
                       else if k <? k' then (k, v) :: m
                       else (k', v') :: aset r k v
    end.
  Fixpoint adel (m : amap) (k : N) : amap :=
    match m with
    | [] => []
    | (k', v') :: r => if k' =? k then adel r k else (k', v') :: adel r k
    end.
End AMap.
Arguments amap V : clear implicits.

(* ---------- versions ---------- *)
Definition ver : Type := (N * N)%type.
Definition ver_eqb (a b : ver) : bool := (fst a =? fst b) && (snd a =? snd b).
Definition gen (v : ver) : N := fst v.
Definition v_deleted : ver := (0, 0).     (* deletedDatabaseVersion "0-0" *)
Definition v_invalid : ver := (0, 1).     (* invalidDatabaseConflictingCollectionsVersion "0-1" *)
Definition is_deleted (v : ver) : bool := ver_eqb v v_deleted.
Definition is_invalid (v : ver) : bool := ver_eqb v v_invalid.

(* ---------- registry ---------- *)
Record rver := RV { rv_ver : ver; rv_colls : list N }.                 (* RegistryDatabaseVersion *)
Record rentry := RE { e_cur : rver; e_prev : option rver }.            (* RegistryDatabase *)
Definition registry := amap rentry.
Record config := CF { c_ver : ver; c_colls : list N }.                 (* DatabaseConfig: version + scopes *)

Definition eff (cs : list N) : list N := match cs with [] => [0] | _ => cs end.
Definition mem (x : N) (l : list N) : bool := existsb (N.eqb x) l.
Definition inter (a b : list N) : bool := existsb (fun x => mem x b) a.

(* the collections an entry holds: current ones and, while an update is in flight, the previous ones
   (an entry or previous version marked invalid holds nothing) *)
Definition held (r : rver) : list N := if is_invalid (rv_ver r) then [] else rv_colls r.
Definition owned (e : rentry) : list N :=
  held (e_cur e) ++ match e_prev e with Some p => held p | None => [] end.

(* getCollectionConflicts: against the CURRENT collections of every other database *)
Definition cur_conflicts (R : registry) (d : N) (cs : list N) : bool :=
  existsb (fun de => negb (fst de =? d) && inter (eff cs) (eff (rv_colls (e_cur (snd de))))) R.
(* getPreviousConflicts: against the PREVIOUS version of every other database with an update in flight *)
Definition prev_conflicts (R : registry) (d : N) (cs : list N) : bool :=
  existsb (fun de => negb (fst de =? d) &&
                     match e_prev (snd de) with Some p => inter (eff cs) (eff (rv_colls p)) | None => false end) R.
(* ghost: would [e] overlap what another database holds? *)
Definition owned_conflicts (R : registry) (d : N) (e : rentry) : bool :=
  existsb (fun de => negb (fst de =? d) && inter (owned e) (owned (snd de))) R.

(* upsertDatabaseConfig: None = 409 (conflict with an active or an in-flight previous version) *)
Definition upsert (R : registry) (d : N) (v : ver) (cs : list N) : option registry :=
  if cur_conflicts R d cs || prev_conflicts R d cs then None
  else Some (aset R d (RE (RV v (eff cs)) (option_map e_cur (aget R d)))).

(* deleteDatabase: None = ErrNotFound *)
Definition delete_db (R : registry) (d : N) : option registry :=
  match aget R d with
  | None => None
  | Some e => Some (aset R d (RE (RV v_deleted []) (Some (RV (rv_ver (e_cur e)) []))))
  end.

(* rollbackDatabaseConfig: None = ErrNotFound.  The bool is a ghost flag: the entry had no previous version,
   the config document was adopted as the live entry (no conflict with a CURRENT version), but its
   collections are held by another database's in-flight PREVIOUS version (which the code does not test). *)
Definition rollback_db (R : registry) (d : N) (cf : config) : option (registry * bool) :=
  match aget R d with
  | None => None
  | Some e =>
      match e_prev e with
      | Some p => Some (aset R d (RE p None), false)
      | None =>
          if cur_conflicts R d (c_colls cf)
          then Some (aset R d (RE (RV v_invalid (eff (c_colls cf))) None), false)
          else let e' := RE (RV (c_ver cf) (eff (c_colls cf))) None in
               Some (aset R d e', owned_conflicts R d e')
      end
  end.

(* removePreviousVersion: None = ErrNotFound / ErrConfigVersionMismatch (both mean "nothing to do") *)
Definition remove_prev (R : registry) (d : N) (v : ver) : option registry :=
  match aget R d with
  | None => None
  | Some e => match e_prev e with
              | Some p => if ver_eqb (rv_ver p) v then Some (aset R d (RE (e_cur e) None)) else None
              | None => None
              end
  end.

(* ---------- store ---------- *)
Record store := ST { s_reg : option (N * registry);      (* CAS, content *)
                     s_cfg : amap (N * config);          (* db -> CAS, config *)
                     s_clock : N }.                      (* next CAS value *)
Definition init_store : store := ST None [] 1.

(* in-memory *GatewayRegistry: cas 0 = NewGatewayRegistry (document absent) *)
Record snap := SN { sn_cas : N; sn_reg : registry }.

Definition read_reg (st : store) : snap :=
  match s_reg st with Some (c, R) => SN c R | None => SN 0 [] end.

(* setGatewayRegistry / WriteMetadataDocument on the registry: cas 0 inserts (fails when present) *)
Definition write_reg (st : store) (sn : snap) : option (store * snap) :=
  let ok := match s_reg st with
            | None => sn_cas sn =? 0
            | Some (c, _) => negb (sn_cas sn =? 0) && (c =? sn_cas sn)
            end in
  if ok then Some (ST (Some (s_clock st, sn_reg sn)) (s_cfg st) (s_clock st + 1), SN (s_clock st) (sn_reg sn))
  else None.

Definition cfg_insert (st : store) (d : N) (cf : config) : option store :=
  match aget (s_cfg st) d with
  | Some _ => None
  | None => Some (ST (s_reg st) (aset (s_cfg st) d (s_clock st, cf)) (s_clock st + 1))
  end.
(* CAS write / touch: returns the new CAS *)
Definition cfg_write (st : store) (d : N) (cas : N) (cf : config) : option (store * N) :=
  match aget (s_cfg st) d with
  | Some (c, _) => if c =? cas then Some (ST (s_reg st) (aset (s_cfg st) d (s_clock st, cf)) (s_clock st + 1), s_clock st) else None
  | None => None
  end.
Definition cfg_touch (st : store) (d : N) (cas : N) : option (store * N) :=
  match aget (s_cfg st) d with
  | Some (c, cf) => if c =? cas then Some (ST (s_reg st) (aset (s_cfg st) d (s_clock st, cf)) (s_clock st + 1), s_clock st) else None
  | None => None
  end.
Definition cfg_delete (st : store) (d : N) (cas : N) : option store :=
  match aget (s_cfg st) d with
  | Some (c, _) => if c =? cas then Some (ST (s_reg st) (adel (s_cfg st) d) (s_clock st + 1)) else None
  | None => None
  end.

(* ---------- nodes ---------- *)
Inductive opk :=
| OInsert (d dig : N) (cs : list N)      (* InsertConfig of database d, version "1-dig", collections cs *)
| OUpdate (d dig : N) (cs : list N)      (* UpdateConfig: callback sets version "(gen+1)-dig" and collections cs *)
| ODelete (d : N)
| OLoad.                                 (* GetDatabaseConfigs *)

Inductive err :=
| ENotFound | EExists | EConflict      (* rejections: ErrNotFound, ErrAlreadyExists, HTTP 409 *)
| ECasRetries                          (* "failed to persist / finalize registry after N attempts" *)
| EReload                              (* ErrConfigRegistryReloadRequired *)
| ELimit                               (* registry reload limit reached *)
| ECancelled                           (* "Rollback cancelled - document has been updated" *)
| ENewer                               (* ErrConfigVersionMismatch: the config document is newer than the registry *)
| EDocWrite                            (* insert / CAS write / CAS delete of a config document failed *)
| ERegMissing.                         (* roll-back found no registry entry *)

Inductive res := ROk | RLoaded (l : list (N * config)) | RErr (e : err).

(* who called getDatabaseConfig *)
Inductive ctx :=
| CGrd (lc : nat)                                            (* getRegistryAndDatabase, lc registry loads so far *)
| CLoad (la : nat) (rest : list N) (acc : list (N * config)). (* GetDatabaseConfigs attempt la; databases still to fetch; fetched *)

Inductive pc :=
| PGetReg (lc : nat)                                 (* getRegistryAndDatabase: getGatewayRegistry *)
| PWfcdRead (lc : nat) (v : option ver)              (* waitForConfigDelete: read the config (v = "" / previous version) *)
| PWfcdDel (lc : nat) (v : option ver) (cas : N)     (* ... re-attempt the delete *)
| PRbWriteW (lc : nat)                               (* ... rollbackRegistry(nil): persist the registry *)
| PGdcRead (c : ctx) (d : N) (want : ver)            (* getConfigVersionWithRetry: read the config *)
| PRbTouch (c : ctx) (d : N) (cas : N) (cf : config) (* rollbackRegistry: TouchMetadataDocument fence *)
| PRbWriteG (c : ctx)                                (* rollbackRegistry: persist the registry *)
| PMainWrite (cs : option (N * config))              (* step 2 of insert/update/delete: persist the registry *)
| PInsCfg                                            (* InsertConfig step 3 *)
| PUpdCfg (cas : N) (cf : config) (prevv : ver)      (* UpdateConfig: CAS write of the config *)
| PDelCfg (cas : N)                                  (* DeleteConfig: CAS delete of the config *)
| PFinGet (fa : nat) (prevv : ver)                   (* finalize: re-read the registry *)
| PFinWrite (fa : nat) (prevv : ver)                 (* finalize: persist *)
| PLoadGet (la : nat)                                (* GetDatabaseConfigs: getGatewayRegistry *)
| PLoadLegacy (la : nat)                             (* ... look for a legacy (3.0) config document *)
| PDone (r : res).

Record node := ND { n_op : opk;
                    n_att : nat;          (* attempt number of the operation's main retry loop *)
                    n_reg : snap;         (* the in-memory registry *)
                    n_pc : pc;
                    n_own : bool;         (* ghost: has persisted its own change to the registry (step 2) *)
                    n_crashed : bool }.

Definition op_db (o : opk) : N :=
  match o with OInsert d _ _ | OUpdate d _ _ | ODelete d => d | OLoad => 0 end.

Definition init_node (o : opk) : node :=
  ND o 1 (SN 0 []) (match o with OLoad => PLoadGet 0 | _ => PGetReg 0 end) false false.

Definition set_pc (nd : node) (p : pc) : node := ND (n_op nd) (n_att nd) (n_reg nd) p (n_own nd) (n_crashed nd).
Definition set_reg (nd : node) (sn : snap) : node := ND (n_op nd) (n_att nd) sn (n_pc nd) (n_own nd) (n_crashed nd).
Definition set_content (nd : node) (R : registry) : node := set_reg nd (SN (sn_cas (n_reg nd)) R).
Definition finish (nd : node) (r : res) : node := set_pc nd (PDone r).

Definition max_att (o : opk) : nat := match o with OUpdate _ _ _ => 25%nat | _ => 5%nat end.

(* CAS mismatch on the step-2 registry write: the retry loop starts over (getRegistryAndDatabase) *)
Definition main_retry (nd : node) : node :=
  if (max_att (n_op nd) <=? n_att nd)%nat then finish nd (RErr ECasRetries)
  else ND (n_op nd) (S (n_att nd)) (n_reg nd) (PGetReg 0) (n_own nd) (n_crashed nd).

(* getRegistryAndDatabase: "continue" of the reload loop *)
Definition grd_reload (nd : node) (lc : nat) : node :=
  if (5 <=? lc)%nat then finish nd (RErr ELimit) else set_pc nd (PGetReg lc).

(* getRegistryAndDatabase returned (registry, config, nil): the operation's own decision *)
Definition grd_return (nd : node) (cs : option (N * config)) : node :=
  let R := sn_reg (n_reg nd) in
  match n_op nd with
  | OInsert d dig cols =>
      match cs with
      | Some _ => finish nd (RErr EExists)
      | None => match upsert R d (1, dig) cols with
                | None => finish nd (RErr EConflict)
                | Some R' => set_pc (set_content nd R') (PMainWrite None)
                end
      end
  | OUpdate d dig cols =>
      match cs with
      | None => finish nd (RErr ENotFound)
      | Some (cas, cf) =>
          match upsert R d (gen (c_ver cf) + 1, dig) cols with
          | None => finish nd (RErr EConflict)
          | Some R' => set_pc (set_content nd R') (PMainWrite cs)
          end
      end
  | ODelete d =>
      match cs with
      | None => finish nd (RErr ENotFound)
      | Some _ => match delete_db R d with
                  | None => finish nd (RErr ENotFound)
                  | Some R' => set_pc (set_content nd R') (PMainWrite cs)
                  end
      end
  | OLoad => nd
  end.

Definition choose (pick : N) (l : list N) : N :=
  if mem pick l then pick else match l with x :: _ => x | [] => 0 end.
Definition remove1 (x : N) (l : list N) : list N := filter (fun y => negb (y =? x)) l.

(* GetDatabaseConfigs: next database of the range loop (entries marked deleted were filtered out) *)
Definition load_iter (nd : node) (la : nat) (rest : list N) (acc : list (N * config)) (pick : N) : node :=
  match rest with
  | [] => finish nd (RLoaded acc)
  | _ => let d := choose pick rest in
         match aget (sn_reg (n_reg nd)) d with
         | Some e => set_pc nd (PGdcRead (CLoad la (remove1 d rest) acc) d (rv_ver (e_cur e)))
         | None => finish nd (RLoaded acc)     (* unreachable: rest only holds registry keys *)
         end
  end.
Definition load_reload (nd : node) (la : nat) : node :=
  if (5 <=? la)%nat then finish nd (RErr EReload) else set_pc nd (PLoadGet la).

Definition gdc_ok (nd : node) (c : ctx) (d : N) (cs : N * config) (pick : N) : node :=
  match c with
  | CGrd _ => grd_return nd (Some cs)
  | CLoad la rest acc => load_iter nd la rest (acc ++ [(d, snd cs)]) pick
  end.
Definition gdc_reload (nd : node) (c : ctx) : node :=
  match c with
  | CGrd lc => grd_reload nd lc
  | CLoad la _ _ => load_reload nd la
  end.

Definition live_keys (R : registry) : list N :=
  filter (fun d => match aget R d with Some e => negb (is_deleted (rv_ver (e_cur e))) | None => false end) (map fst R).

(* after the step-2 registry write: the config-document call that follows *)
Definition main_next (o : opk) (cs : option (N * config)) : option pc :=
  match o, cs with
  | OInsert _ _ _, _ => Some PInsCfg
  | OUpdate _ dig cols, Some (cas, cf) => Some (PUpdCfg cas (CF (gen (c_ver cf) + 1, dig) cols) (c_ver cf))
  | ODelete _, Some (cas, _) => Some (PDelCfg cas)
  | _, _ => None
  end.

(* one storage call of a node, and the local code up to its next storage call.
   Returns the new store, the new node and the ghost flag of rollback_db. *)
Definition do_step (st : store) (nd : node) (expired : bool) (pick : N) : store * node * bool :=
  let d := op_db (n_op nd) in
  match n_pc nd with
  | PGetReg lc =>
      let nd1 := set_reg nd (read_reg st) in
      let lc' := S lc in
      match aget (sn_reg (n_reg nd1)) d with
      | None => (st, set_pc nd1 (PWfcdRead lc' None), false)
      | Some e =>
          if negb (is_deleted (rv_ver (e_cur e))) then (st, set_pc nd1 (PGdcRead (CGrd lc') d (rv_ver (e_cur e))), false)
          else match e_prev e with
               | Some p => (st, set_pc nd1 (PWfcdRead lc' (Some (rv_ver p))), false)
               | None => (st, grd_return nd1 None, false)
               end
      end
  | PWfcdRead lc v =>
      match aget (s_cfg st) d with
      | None => (st, grd_return nd None, false)
      | Some (cas, cf) =>
          let mismatch := match v with Some pv => negb (ver_eqb pv (c_ver cf)) | None => false end in
          if mismatch then (st, grd_reload nd lc, false)
          else if expired then (st, set_pc nd (PWfcdDel lc v cas), false)
          else (st, nd, false)
      end
  | PWfcdDel lc v cas =>
      match cfg_delete st d cas with
      | None => match v with
                | None => (st, finish nd (RErr ECasRetries), false)  (* the CAS-mismatch error of the delete leaves the
                                                                        operation's retry loop and is reported as
                                                                        "failed to persist registry after N attempts" *)
                | Some _ => (st, grd_return nd None, false)          (* error swallowed (shadowed err) *)
                end
      | Some st' =>
          match v with
          | None => (st', grd_return nd None, false)
          | Some _ =>
              match aget (sn_reg (n_reg nd)) d with
              | None => (st', grd_return nd None, false)
              | Some _ => (st', set_pc (set_content nd (adel (sn_reg (n_reg nd)) d)) (PRbWriteW lc), false)
              end
          end
      end
  | PRbWriteW lc =>
      match write_reg st (n_reg nd) with
      | Some (st', sn') => (st', grd_return (set_reg nd sn') None, false)
      | None => (st, grd_return nd None, false)                      (* error swallowed *)
      end
  | PGdcRead c dd want =>
      match aget (s_cfg st) dd with
      | None =>
          if expired then
            match aget (sn_reg (n_reg nd)) dd with
            | None => (st, finish nd (RErr ERegMissing), false)
            | Some _ => (st, set_pc (set_content nd (adel (sn_reg (n_reg nd)) dd)) (PRbWriteG c), false)
            end
          else (st, nd, false)
      | Some (cas, cf) =>
          if is_invalid want then (st, gdc_ok nd c dd (cas, CF v_invalid (c_colls cf)) pick, false)
          else if ver_eqb (c_ver cf) want then (st, gdc_ok nd c dd (cas, cf) pick, false)
          else if gen want <? gen (c_ver cf) then (st, finish nd (RErr ENewer), false)
          else if expired then (st, set_pc nd (PRbTouch c dd cas cf), false)
          else (st, nd, false)
      end
  | PRbTouch c dd cas cf =>
      match cfg_touch st dd cas with
      | None => (st, finish nd (RErr ECancelled), false)
      | Some (st', _) =>
          match rollback_db (sn_reg (n_reg nd)) dd cf with
          | None => (st', finish nd (RErr ERegMissing), false)
          | Some (R', bad) => (st', set_pc (set_content nd R') (PRbWriteG c), bad)
          end
      end
  | PRbWriteG c =>
      match write_reg st (n_reg nd) with
      | Some (st', sn') => (st', gdc_reload (set_reg nd sn') c, false)
      | None => (st, gdc_reload nd c, false)
      end
  | PMainWrite cs =>
      match main_next (n_op nd) cs with
      | None => (st, finish nd (RErr ERegMissing), false)              (* unreachable *)
      | Some p =>
          match write_reg st (n_reg nd) with
          | None => (st, main_retry nd, false)
          | Some (st', sn') => (st', ND (n_op nd) (n_att nd) sn' p true (n_crashed nd), false)
          end
      end
  | PInsCfg =>
      match n_op nd with
      | OInsert _ dig cols =>
          match cfg_insert st d (CF (1, dig) cols) with
          | Some st' => (st', finish nd ROk, false)
          | None => (st, finish nd (RErr EDocWrite), false)
          end
      | _ => (st, nd, false)
      end
  | PUpdCfg cas cf prevv =>
      match cfg_write st d cas cf with
      | Some (st', _) => (st', set_pc nd (PFinGet 1 prevv), false)
      | None => (st, finish nd (RErr EDocWrite), false)
      end
  | PDelCfg cas =>
      match cfg_delete st d cas with
      | Some st' => (st', set_pc nd (PFinGet 1 v_deleted), false)
      | None => (st, finish nd (RErr EDocWrite), false)
      end
  | PFinGet fa prevv =>
      let nd1 := set_reg nd (read_reg st) in
      let R := sn_reg (n_reg nd1) in
      match n_op nd with
      | ODelete _ =>
          match aget R d with
          | None => (st, finish nd1 ROk, false)
          | Some e =>
              (* only the entry marked deleted in step 2 is removed: the database may have been created again by a
                 concurrent writer once its config document was gone (repair cd27b43; [do_step_old] is the code before) *)
              if negb (is_deleted (rv_ver (e_cur e))) then (st, finish nd1 ROk, false)
              else (st, set_pc (set_content nd1 (adel R d)) (PFinWrite fa prevv), false)
          end
      | _ =>
          match remove_prev R d prevv with
          | None => (st, finish nd1 ROk, false)
          | Some R' => (st, set_pc (set_content nd1 R') (PFinWrite fa prevv), false)
          end
      end
  | PFinWrite fa prevv =>
      match write_reg st (n_reg nd) with
      | Some (st', sn') => (st', finish (set_reg nd sn') ROk, false)
      | None => if (5 <=? fa)%nat then (st, finish nd (RErr ECasRetries), false)
                else (st, set_pc nd (PFinGet (S fa) prevv), false)
      end
  | PLoadGet la => (st, set_pc (set_reg nd (read_reg st)) (PLoadLegacy (S la)), false)
  | PLoadLegacy la =>
      (st, load_iter nd la (live_keys (sn_reg (n_reg nd))) [] pick, false)
  | PDone _ => (st, nd, false)
  end.

(* DeleteConfig's finalize BEFORE the repair cd27b43: removeDatabase on whatever entry the database has *)
Definition do_step_old (st : store) (nd : node) (expired : bool) (pick : N) : store * node * bool :=
  match n_pc nd, n_op nd with
  | PFinGet fa prevv, ODelete d =>
      let nd1 := set_reg nd (read_reg st) in
      let R := sn_reg (n_reg nd1) in
      match aget R d with
      | None => (st, finish nd1 ROk, false)
      | Some _ => (st, set_pc (set_content nd1 (adel R d)) (PFinWrite fa prevv), false)
      end
  | _, _ => do_step st nd expired pick
  end.

(* ---------- systems ---------- *)
Inductive event := Step (i : nat) (expired : bool) (pick : N) | Crash (i : nat).

Record world := W { w_st : store; w_nodes : list node; w_bad : bool }.

Fixpoint set_nth {A} (i : nat) (x : A) (l : list A) : list A :=
  match l, i with
  | [], _ => []
  | _ :: r, O => x :: r
  | y :: r, S j => y :: set_nth j x r
  end.

Definition is_done (nd : node) : bool := match n_pc nd with PDone _ => true | _ => false end.

Definition step_with (ds : store -> node -> bool -> N -> store * node * bool) (w : world) (e : event) : world :=
  match e with
  | Step i expired pick =>
      match nth_error (w_nodes w) i with
      | Some nd =>
          if n_crashed nd || is_done nd then w
          else let '(st', nd', bad) := ds (w_st w) nd expired pick in
               W st' (set_nth i nd' (w_nodes w)) (w_bad w || bad)
      | None => w
      end
  | Crash i =>
      match nth_error (w_nodes w) i with
      | Some nd => W (w_st w) (set_nth i (ND (n_op nd) (n_att nd) (n_reg nd) (n_pc nd) (n_own nd) true) (w_nodes w)) (w_bad w)
      | None => w
      end
  end.
Definition step (w : world) (e : event) : world := step_with do_step w e.
Definition step_old (w : world) (e : event) : world := step_with do_step_old w e.

Definition init_world (st : store) (ops : list opk) : world := W st (map init_node ops) false.
Definition run_from (st : store) (ops : list opk) (evs : list event) : world := fold_left step evs (init_world st ops).
Definition run (ops : list opk) (evs : list event) : world := run_from init_store ops evs.
(* the same system with the delete finalize of the code before the repair *)
Definition run_old (ops : list opk) (evs : list event) : world := fold_left step_old evs (init_world init_store ops).

Definition result_of (nd : node) : option res :=
  if n_crashed nd then None else match n_pc nd with PDone r => Some r | _ => None end.
