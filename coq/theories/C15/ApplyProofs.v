(* C15: properties of the node-local application of loaded configs (ConfigApply.v). *)
From SG Require Import Base.Prelude C15.ConfigProto C15.ProtoOwn C15.ConfigApply.
Open Scope N_scope.

(* ---------- no two running databases of a node share a collection ---------- *)
Definition NoShare (r : running) : Prop :=
  forall d1 d2 c1 c2, d1 <> d2 -> aget r d1 = Some c1 -> aget r d2 = Some c2 ->
    disjoint (eff (a_colls c1)) (eff (a_colls c2)).

Lemma duplicates_false r d cs :
  duplicates r d cs = false ->
  forall d' c', d' <> d -> aget r d' = Some c' -> disjoint (eff cs) (eff (a_colls c')).
Proof.
  unfold duplicates. intros H d' c' Hne Hg x Hx Hx'.
  pose proof (existsb_false_in _ _ _ H Hx) as E. unfold in_use in E.
  pose proof (existsb_false_in _ _ _ E (aget_in _ _ _ Hg)) as E'. cbn in E'.
  destruct (d' =? d) eqn:Ed; [apply N.eqb_eq in Ed; contradiction|]. cbn in E'.
  assert (mem x (eff (a_colls c')) = true) by (now apply mem_in). congruence.
Qed.

Lemma NoShare_aset r d c :
  NoShare r -> (forall d' c', d' <> d -> aget r d' = Some c' -> disjoint (eff (a_colls c)) (eff (a_colls c'))) ->
  NoShare (aset r d c).
Proof.
  intros HN Hnew d1 d2 c1 c2 Hne H1 H2.
  destruct (N.eq_dec d1 d) as [->|N1]; destruct (N.eq_dec d2 d) as [->|N2].
  - contradiction.
  - rewrite aget_aset_eq in H1. injection H1 as <-. rewrite aget_aset_neq in H2 by congruence. eauto.
  - rewrite aget_aset_eq in H2. injection H2 as <-. rewrite aget_aset_neq in H1 by congruence.
    apply disjoint_sym. eauto.
  - rewrite aget_aset_neq in H1, H2 by congruence. eauto.
Qed.
Lemma NoShare_adel r d : NoShare r -> NoShare (adel r d).
Proof.
  intros HN d1 d2 c1 c2 Hne H1 H2.
  destruct (N.eq_dec d1 d) as [->|N1]; [now rewrite aget_adel_eq in H1|].
  destruct (N.eq_dec d2 d) as [->|N2]; [now rewrite aget_adel_eq in H2|].
  rewrite aget_adel_neq in H1, H2 by congruence. eauto.
Qed.

Lemma apply1_NoShare r x : NoShare r -> NoShare (apply1 r x).
Proof.
  intros HN. unfold apply1. destruct (duplicates r (fst x) (a_colls (snd x))) eqn:D; [exact HN|].
  pose proof (duplicates_false _ _ _ D) as Hd.
  destruct (aget r (fst x)) as [old|]; [|now apply NoShare_aset].
  destruct (a_cas (snd x) =? 0); [now apply NoShare_aset|].
  destruct (a_cas (snd x) <=? a_cas old); [exact HN | now apply NoShare_aset].
Qed.
Lemma apply_all_NoShare l : forall r, NoShare r -> NoShare (apply_all r l).
Proof. induction l as [|x l IH]; intros r H; cbn; [exact H | apply IH, apply1_NoShare, H]. Qed.

Lemma remove_NoShare still ds : forall r, NoShare r ->
  NoShare (fold_left (fun acc d => if mem d still then acc else adel acc d) ds r).
Proof.
  induction ds as [|d ds IH]; intros r H; cbn; [exact H|]. apply IH. destruct (mem d still); [exact H | now apply NoShare_adel].
Qed.

Theorem apply_no_shared_collection r loaded still :
  NoShare r -> NoShare (fetch_and_load r loaded still).
Proof. intros H. unfold fetch_and_load. apply apply_all_NoShare, remove_NoShare, H. Qed.

(* ---------- a running database is never replaced by an older config ---------- *)
Lemma apply1_get r x d :
  aget (apply1 r x) d = aget r d \/
  (d = fst x /\ aget (apply1 r x) d = Some (snd x) /\
   forall old, aget r d = Some old -> a_cas (snd x) = 0 \/ a_cas old < a_cas (snd x)).
Proof.
  unfold apply1. destruct (duplicates r (fst x) (a_colls (snd x))); [now left|].
  destruct (N.eq_dec d (fst x)) as [->|Hne].
  - destruct (aget r (fst x)) as [old|] eqn:E.
    + destruct (a_cas (snd x) =? 0) eqn:Z.
      * right. split; [reflexivity|]. split; [apply aget_aset_eq|]. intros o _. left. now apply N.eqb_eq.
      * destruct (a_cas (snd x) <=? a_cas old) eqn:L; [left; exact E|].
        right. split; [reflexivity|]. split; [apply aget_aset_eq|]. intros o [= <-]. right. apply N.leb_gt in L. exact L.
    + right. split; [reflexivity|]. split; [apply aget_aset_eq|]. intros o Ho. discriminate.
  - left. destruct (aget r (fst x)) as [old|]; [|apply aget_aset_neq; congruence].
    destruct (a_cas (snd x) =? 0); [apply aget_aset_neq; congruence|].
    destruct (a_cas (snd x) <=? a_cas old); [reflexivity | apply aget_aset_neq; congruence].
Qed.

Lemma apply_all_mono l : forall r d old,
  (forall x, In x l -> a_cas (snd x) <> 0) -> aget r d = Some old ->
  exists new, aget (apply_all r l) d = Some new /\ a_cas old <= a_cas new /\ (new = old \/ In (d, new) l).
Proof.
  induction l as [|x l IH]; intros r d old Hz Hg; cbn.
  - exists old. split; [exact Hg|]. split; [lia | now left].
  - destruct (apply1_get r x d) as [E|(Ed & E & Hc)].
    + rewrite <- E in Hg. destruct (IH _ _ _ (fun y Hy => Hz y (or_intror Hy)) Hg) as (new & A & B & C).
      exists new. split; [exact A|]. split; [exact B|]. destruct C as [C|C]; [now left | right; now right].
    + destruct (IH _ _ _ (fun y Hy => Hz y (or_intror Hy)) E) as (new & A & B & C).
      exists new. split; [exact A|]. split.
      * destruct (Hc old Hg) as [Z|L]; [exfalso; exact (Hz x (or_introl eq_refl) Z) | lia].
      * right. destruct C as [->|C]; [left; subst d; now destruct x | now right].
Qed.

Lemma apply_all_untouched l : forall r d, has_key l d = false -> aget (apply_all r l) d = aget r d.
Proof.
  induction l as [|x l IH]; intros r d H; cbn in H; [reflexivity|]. apply orb_false_iff in H as [H1 H2].
  change (aget (apply_all (apply1 r x) l) d = aget r d). rewrite IH by exact H2. destruct (apply1_get r x d) as [E|(Ed & _)]; [exact E|].
  subst d. now rewrite N.eqb_refl in H1.
Qed.

Lemma remove_get still ds : forall (r : running) d,
  aget (fold_left (fun acc d => if mem d still then acc else adel acc d) ds r) d =
  if mem d ds && negb (mem d still) then None else aget r d.
Proof.
  induction ds as [|x ds IH]; intros r d; cbn; [reflexivity|]. rewrite IH.
  destruct (N.eq_dec d x) as [->|Hne].
  - rewrite N.eqb_refl. cbn. destruct (mem x still) eqn:S; cbn.
    + now rewrite andb_false_r.
    + rewrite aget_adel_eq. now destruct (mem x ds).
  - destruct (d =? x) eqn:E; [apply N.eqb_eq in E; contradiction|]. cbn.
    destruct (mem x still); [reflexivity|]. now rewrite aget_adel_neq by congruence.
Qed.

Lemma has_key_filter {V} (f : N * V -> bool) l d : has_key (filter f l) d = true -> has_key l d = true.
Proof.
  unfold has_key. rewrite !existsb_exists. intros (x & Hx & E). apply filter_In in Hx as [Hx _]. eauto.
Qed.

Theorem apply_monotone_cas r loaded still d old new :
  (forall x, In x loaded -> a_cas (snd x) <> 0) ->
  aget r d = Some old -> aget (fetch_and_load r loaded still) d = Some new ->
  a_cas old <= a_cas new /\ (new = old \/ In (d, new) loaded).
Proof.
  intros Hz Hg Hn. unfold fetch_and_load in Hn.
  set (fetched := fetched_of loaded) in *.
  set (deleted := filter (fun d0 => negb (has_key fetched d0)) (map fst r)) in *.
  set (changed := filter _ fetched) in Hn.
  set (r1 := fold_left _ deleted r) in Hn.
  assert (forall x, In x changed -> In x loaded) as Hsub.
  { intros x Hx. apply filter_In in Hx as [Hx _]. apply filter_In in Hx as [Hx _]. exact Hx. }
  pose proof (remove_get still deleted r d) as E1. fold r1 in E1.
  destruct (mem d deleted && negb (mem d still)) eqn:Rm.
  - (* removed: nothing of the loaded set concerns d *)
    exfalso. apply andb_true_iff in Rm as [Rm _]. apply mem_in, filter_In in Rm as [_ Rm]. apply negb_true_iff in Rm.
    rewrite apply_all_untouched in Hn; [congruence|].
    destruct (has_key changed d) eqn:K; [|reflexivity]. apply has_key_filter in K. congruence.
  - rewrite Hg in E1.
    destruct (apply_all_mono changed r1 d old (fun x Hx => Hz x (Hsub x Hx)) E1) as (new' & A & B & C).
    rewrite A in Hn. injection Hn as <-. split; [exact B|]. destruct C as [C|C]; [now left | right; auto].
Qed.

(* ---------- convergence ---------- *)
Definition OwnL (l : list (N * acfg)) : Prop :=
  forall d1 c1 d2 c2, In (d1, c1) l -> In (d2, c2) l -> d1 <> d2 -> disjoint (eff (a_colls c1)) (eff (a_colls c2)).
Definition FunL (l : list (N * acfg)) : Prop := forall d c1 c2, In (d, c1) l -> In (d, c2) l -> c1 = c2.
(* no loaded config wants a collection that a DIFFERENT database of the loaded set still holds in its running version *)
Definition compatible (r : running) (l : list (N * acfg)) : Prop :=
  forall d c d' old, In (d, c) l -> d' <> d -> aget r d' = Some old -> has_key l d' = true ->
    disjoint (eff (a_colls c)) (eff (a_colls old)).
(* CAS values identify config documents: a running config that is not older than the loaded one is the loaded one *)
Definition coherent (r : running) (l : list (N * acfg)) : Prop :=
  forall d c old, In (d, c) l -> aget r d = Some old -> a_cas c <= a_cas old -> old = c.

Lemma has_key_in {V} (l : list (N * V)) d : has_key l d = true <-> exists c, In (d, c) l.
Proof.
  unfold has_key. rewrite existsb_exists. split.
  - intros ([d' c] & Hx & E). cbn in E. apply N.eqb_eq in E. subst. eauto.
  - intros (c & Hc). exists (d, c). split; [exact Hc | apply N.eqb_refl].
Qed.

(* well-formed association lists: every listed pair is what aget returns (sorted, unique keys) *)
Definition WF (r : running) : Prop := forall d c, In (d, c) r -> aget r d = Some c.

Lemma duplicates_false_intro r d cs :
  WF r -> (forall d' c', d' <> d -> aget r d' = Some c' -> disjoint (eff cs) (eff (a_colls c'))) ->
  duplicates r d cs = false.
Proof.
  intros HW H. unfold duplicates. destruct (existsb (in_use r d) (eff cs)) eqn:E; [|reflexivity]. exfalso.
  apply existsb_exists in E as (x & Hx & E). unfold in_use in E. apply existsb_exists in E as ([d' c'] & Hin & E).
  cbn in E. apply andb_true_iff in E as [E1 E2]. apply negb_true_iff in E1.
  assert (d' <> d) as Hne by (intros ->; now rewrite N.eqb_refl in E1).
  apply mem_in in E2. exact (H d' c' Hne (HW _ _ Hin) x Hx E2).
Qed.

Lemma aget_some_in {V} (m : amap V) k v : aget m k = Some v -> In (k, v) m.
Proof. apply aget_in. Qed.

(* sorted association lists are well formed; aset / adel keep them so *)
Fixpoint sorted_keys {V} (m : amap V) : Prop :=
  match m with
  | [] => True
  | (k, _) :: r => (forall k' v', In (k', v') r -> k < k') /\ sorted_keys r
  end.

Lemma sorted_WF (m : running) : sorted_keys m -> WF m.
Proof.
  induction m as [|[k v] r IH]; intros HS d c Hin; cbn in *; [destruct Hin|]. destruct HS as [Hlt HS].
  destruct Hin as [[= -> ->]|Hin]; [now rewrite N.eqb_refl|].
  destruct (k =? d) eqn:E; [apply N.eqb_eq in E; subst; specialize (Hlt _ _ Hin); lia | now apply IH].
Qed.

Lemma in_aset {V} (m : amap V) k v k' v' : In (k', v') (aset m k v) -> (k' = k /\ v' = v) \/ In (k', v') m.
Proof.
  induction m as [|[k0 v0] r IH]; cbn; intros H.
  - destruct H as [[= -> ->]|[]]. now left.
  - destruct (k =? k0) eqn:E1; cbn in H.
    + destruct H as [[= -> ->]|H]; [now left | right; now right].
    + destruct (k <? k0) eqn:E2; cbn in H.
      * destruct H as [[= -> ->]|H]; [now left | now right].
      * destruct H as [H|H]; [right; now left|]. destruct (IH H) as [?|?]; [now left | right; now right].
Qed.
Lemma in_adel {V} (m : amap V) k k' v' : In (k', v') (adel m k) -> In (k', v') m.
Proof.
  induction m as [|[k0 v0] r IH]; cbn; intros H; [exact H|].
  destruct (k0 =? k); [right; now apply IH|]. destruct H as [H|H]; [now left | right; now apply IH].
Qed.

Lemma sorted_aset {V} (m : amap V) k v : sorted_keys m -> sorted_keys (aset m k v).
Proof.
  induction m as [|[k0 v0] r IH]; cbn; intros HS; [split; [intros ? ? []|exact I]|]. destruct HS as [Hlt HS].
  destruct (k =? k0) eqn:E1; cbn.
  - apply N.eqb_eq in E1. subst. auto.
  - destruct (k <? k0) eqn:E2; cbn.
    + apply N.ltb_lt in E2. split; [|split; assumption].
      intros k' v' [[= <- <-]|H]; [exact E2 | specialize (Hlt _ _ H); lia].
    + apply N.ltb_ge in E2. apply N.eqb_neq in E1. split; [|now apply IH].
      intros k' v' H. destruct (in_aset _ _ _ _ _ H) as [[-> _]|H']; [lia | eauto].
Qed.
Lemma sorted_adel {V} (m : amap V) k : sorted_keys m -> sorted_keys (adel m k).
Proof.
  induction m as [|[k0 v0] r IH]; cbn; intros HS; [exact I|]. destruct HS as [Hlt HS].
  destruct (k0 =? k); [now apply IH|]. cbn. split; [|now apply IH]. intros k' v' H. apply in_adel in H. eauto.
Qed.

Lemma apply1_sorted r x : sorted_keys r -> sorted_keys (apply1 r x).
Proof.
  intros H. unfold apply1. destruct (duplicates _ _ _); [exact H|].
  destruct (aget r (fst x)) as [old|]; [|now apply sorted_aset].
  destruct (_ =? 0); [now apply sorted_aset|]. destruct (_ <=? _); [exact H | now apply sorted_aset].
Qed.
Lemma remove_sorted still ds : forall (r : running), sorted_keys r ->
  sorted_keys (fold_left (fun acc d => if mem d still then acc else adel acc d) ds r).
Proof.
  induction ds as [|d ds IH]; intros r H; cbn; [exact H|]. apply IH. destruct (mem d still); [exact H | now apply sorted_adel].
Qed.

Section Converge.
  Variables (r : running) (l : list (N * acfg)).
  Hypothesis Hown : OwnL l.
  Hypothesis Hfun : FunL l.
  Hypothesis Hcomp : compatible r l.
  Hypothesis Hcoh : coherent r l.
  Hypothesis Hnz : forall x, In x l -> a_cas (snd x) <> 0.

  (* every running database is the old one (and the loaded set still lists it) or the loaded one *)
  Definition J (r' : running) : Prop :=
    sorted_keys r' /\
    forall d c', aget r' d = Some c' -> (aget r d = Some c' /\ has_key l d = true) \/ In (d, c') l.

  Lemma apply1_J r' d c :
    J r' -> In (d, c) l ->
    J (apply1 r' (d, c)) /\ aget (apply1 r' (d, c)) d = Some c /\
    forall d', d' <> d -> aget (apply1 r' (d, c)) d' = aget r' d'.
  Proof.
    intros [HSr HJ] Hin.
    assert (duplicates r' d (a_colls c) = false) as Hd.
    { apply duplicates_false_intro; [now apply sorted_WF|]. intros d' c' Hne Hg.
      destruct (HJ _ _ Hg) as [[Ho Hk]|Hl]; [eapply Hcomp; eauto | eapply Hown; eauto]. }
    assert (forall old, aget r' d = Some old -> a_cas c <= a_cas old -> old = c) as Hold.
    { intros old Hg Hle. destruct (HJ _ _ Hg) as [[Ho _]|Hl]; [eapply Hcoh; eauto | eapply Hfun; eauto]. }
    unfold apply1. cbn [fst snd]. rewrite Hd.
    assert (J (aset r' d c)) as Jset.
    { split; [now apply sorted_aset|]. intros d0 c0 Hg. destruct (N.eq_dec d0 d) as [->|Hne].
      - rewrite aget_aset_eq in Hg. injection Hg as <-. now right.
      - rewrite aget_aset_neq in Hg by congruence. auto. }
    pose proof (Hnz _ Hin) as Hz. cbn in Hz.
    destruct (aget r' d) as [old|] eqn:Eo.
    - destruct (a_cas c =? 0) eqn:Z; [apply N.eqb_eq in Z; contradiction|].
      destruct (a_cas c <=? a_cas old) eqn:L.
      + apply N.leb_le in L. rewrite (Hold old eq_refl L) in Eo. split; [split; assumption|]. split; [exact Eo | reflexivity].
      + split; [exact Jset|]. split; [apply aget_aset_eq | intros d' Hne; apply aget_aset_neq; congruence].
    - split; [exact Jset|]. split; [apply aget_aset_eq | intros d' Hne; apply aget_aset_neq; congruence].
  Qed.

  Lemma apply_all_J ch : forall r',
    (forall x, In x ch -> In x l) -> J r' ->
    J (apply_all r' ch) /\
    (forall d, has_key ch d = true -> exists c, In (d, c) l /\ aget (apply_all r' ch) d = Some c) /\
    (forall d, has_key ch d = false -> aget (apply_all r' ch) d = aget r' d).
  Proof.
    induction ch as [|[d c] ch IH]; intros r' Hsub HJ;
      [|change (apply_all r' ((d, c) :: ch)) with (apply_all (apply1 r' (d, c)) ch)].
    - cbn. split; [exact HJ|]. split; [intros d H; discriminate | reflexivity].
    - destruct (apply1_J r' d c HJ (Hsub _ (or_introl eq_refl))) as (HJ1 & Hg1 & Ho1).
      destruct (IH _ (fun x Hx => Hsub x (or_intror Hx)) HJ1) as (HJ2 & Hk2 & Hn2).
      split; [exact HJ2|]. split.
      + intros d0 Hk. destruct (has_key ch d0) eqn:K; [auto|].
        cbn in Hk. unfold has_key in K. rewrite K, orb_false_r in Hk. fold (has_key ch d0) in K. apply N.eqb_eq in Hk. subst d0. exists c. split; [apply Hsub; now left|].
        now rewrite Hn2.
      + intros d0 Hk. cbn in Hk. apply orb_false_iff in Hk as [K1 K2]. rewrite (Hn2 _ K2). apply Ho1.
        intros ->. now rewrite N.eqb_refl in K1.
  Qed.
End Converge.

Definition cfg_of (l : list (N * acfg)) (d : N) : option acfg :=
  option_map snd (find (fun x => fst x =? d) l).

Lemma cfg_of_in l d c : FunL l -> In (d, c) l -> cfg_of l d = Some c.
Proof.
  intros Hf Hin. unfold cfg_of. destruct (find (fun x => fst x =? d) l) as [[d' c']|] eqn:F.
  - apply find_some in F as [F1 F2]. cbn in F2. apply N.eqb_eq in F2. subst d'. cbn. f_equal. eapply Hf; eauto.
  - exfalso. pose proof (find_none _ _ F _ Hin) as E. cbn in E. now rewrite N.eqb_refl in E.
Qed.
Lemma cfg_of_none l d : has_key l d = false -> cfg_of l d = None.
Proof.
  intros H. unfold cfg_of. destruct (find (fun x => fst x =? d) l) as [[d' c']|] eqn:F; [|reflexivity].
  apply find_some in F as [F1 F2]. cbn in F2. apply N.eqb_eq in F2. subst d'.
  assert (has_key l d = true) by (apply has_key_in; eauto). congruence.
Qed.

Lemma fetched_of_valid l : (forall x, In x l -> is_invalid (a_ver (snd x)) = false) -> fetched_of l = l.
Proof.
  unfold fetched_of. induction l as [|x l IH]; intros H; cbn; [reflexivity|].
  rewrite (H x (or_introl eq_refl)). cbn. f_equal. apply IH. intros y Hy. apply H. now right.
Qed.

(* one round of fetchAndLoadConfigs brings a node exactly to the loaded set, in whatever order the configs are
   applied, provided no loaded config wants a collection that another listed database still holds in its running
   version (compatible) *)
Theorem apply_reaches_loaded r l :
  sorted_keys r -> (forall x, In x l -> is_invalid (a_ver (snd x)) = false) ->
  OwnL l -> FunL l -> compatible r l -> coherent r l -> (forall x, In x l -> a_cas (snd x) <> 0) ->
  forall d, aget (fetch_and_load r l []) d = cfg_of l d.
Proof.
  intros HSr Hval Hown Hfun Hcomp Hcoh Hnz d. unfold fetch_and_load.
  rewrite (fetched_of_valid l Hval).
  set (deleted := filter (fun d0 => negb (has_key l d0)) (map fst r)).
  set (changed := filter _ l).
  set (r1 := fold_left _ deleted r).
  assert (forall d0, aget r1 d0 = if has_key l d0 then aget r d0 else None) as Hr1.
  { intros d0. unfold r1. rewrite remove_get. cbn [mem existsb negb]. rewrite andb_true_r.
    destruct (has_key l d0) eqn:K.
    - destruct (mem d0 deleted) eqn:M; [|reflexivity]. apply mem_in, filter_In in M as [_ M]. rewrite K in M. discriminate.
    - destruct (mem d0 deleted) eqn:M; [reflexivity|]. destruct (aget r d0) as [c0|] eqn:G; [|reflexivity]. exfalso.
      assert (In d0 deleted) as Hin.
      { apply filter_In. split; [|now rewrite K]. apply in_map_iff. exists (d0, c0). split; [reflexivity | now apply aget_in]. }
      apply mem_in in Hin. congruence. }
  assert (J r l r1) as HJ1.
  { split; [now apply remove_sorted|]. intros d0 c0 Hg. rewrite Hr1 in Hg. destruct (has_key l d0) eqn:K; [|discriminate]. now left. }
  assert (forall x, In x changed -> In x l) as Hsub by (intros x Hx; now apply filter_In in Hx as [Hx _]).
  destruct (apply_all_J r l Hown Hfun Hcomp Hcoh Hnz changed r1 Hsub HJ1) as (_ & Hk & Hn).
  destruct (has_key changed d) eqn:Kc.
  - destruct (Hk _ Kc) as (c & Hin & Hg). rewrite Hg. symmetry. now apply cfg_of_in.
  - rewrite (Hn _ Kc), Hr1. destruct (has_key l d) eqn:K; [|symmetry; now apply cfg_of_none].
    apply has_key_in in K as (c & Hin). rewrite (cfg_of_in _ _ _ Hfun Hin).
    (* (d,c) was filtered out of [changed]: the running config is not older, hence it is c *)
    destruct (aget r d) as [old|] eqn:G.
    + f_equal. eapply Hcoh; eauto. apply N.leb_le.
      destruct (a_cas c <=? a_cas old) eqn:L; [reflexivity|]. exfalso.
      assert (In (d, c) changed) as Hc by (apply filter_In; split; [exact Hin | cbn; now rewrite G, L]).
      assert (has_key changed d = true) by (apply has_key_in; eauto). congruence.
    + exfalso. assert (In (d, c) changed) as Hc by (apply filter_In; split; [exact Hin | cbn; now rewrite G]).
      assert (has_key changed d = true) by (apply has_key_in; eauto). congruence.
Qed.

(* apply_converges: two nodes -- whatever they were running, in whatever order each applies the configs -- that
   load the same set of configs end with the same running database configs *)
Theorem apply_converges r1 r2 l1 l2 :
  sorted_keys r1 -> sorted_keys r2 -> (forall x, In x l1 <-> In x l2) ->
  (forall x, In x l1 -> is_invalid (a_ver (snd x)) = false) ->
  OwnL l1 -> FunL l1 -> (forall x, In x l1 -> a_cas (snd x) <> 0) ->
  compatible r1 l1 -> coherent r1 l1 -> compatible r2 l1 -> coherent r2 l1 ->
  forall d, aget (fetch_and_load r1 l1 []) d = aget (fetch_and_load r2 l2 []) d.
Proof.
  intros S1 S2 Heq Hval Hown Hfun Hnz C1 K1 C2 K2 d.
  assert (forall d0, has_key l2 d0 = has_key l1 d0) as Hk.
  { intros d0. destruct (has_key l1 d0) eqn:A.
    - apply has_key_in in A as (c & Hc). apply has_key_in. exists c. now apply Heq.
    - destruct (has_key l2 d0) eqn:B; [|reflexivity]. apply has_key_in in B as (c & Hc). apply Heq in Hc.
      assert (has_key l1 d0 = true) by (apply has_key_in; eauto). congruence. }
  rewrite (apply_reaches_loaded r1 l1) by auto.
  rewrite (apply_reaches_loaded r2 l2).
  - destruct (has_key l1 d) eqn:A.
    + apply has_key_in in A as (c & Hc). rewrite (cfg_of_in _ _ _ Hfun Hc). symmetry. apply cfg_of_in; [|now apply Heq].
      intros a b c0 H1 H2. apply Heq in H1, H2. eauto.
    + rewrite (cfg_of_none _ _ A). symmetry. apply cfg_of_none. now rewrite Hk.
  - exact S2.
  - intros x Hx. apply Hval. now apply Heq.
  - intros a b c e H1 H2. apply Heq in H1, H2. eauto.
  - intros a b c H1 H2. apply Heq in H1, H2. eauto.
  - intros a b c e H1 H2 H3 H4. apply Heq in H1. rewrite Hk in H4. eauto.
  - intros a b c H1. apply Heq in H1. eauto.
  - intros x Hx. apply Hnz. now apply Heq.
Qed.

(* a node that runs nothing satisfies the side conditions: start-up and fresh nodes always reach the loaded set *)
Lemma fresh_compatible l : compatible [] l /\ coherent [] l /\ sorted_keys ([] : running).
Proof. repeat split; intros; discriminate. Qed.
