(* C15: the protocol at EVERY generation of a database's version id.

   A version id is "<generation>-<digest>" (rest/config_database.go GenerateDatabaseConfigVersionID: generation =
   generation of the previous id + 1, through db.ParseRevID).  getConfigVersionWithRetry decides between
   "the config document is NEWER than the registry" (ErrConfigVersionMismatch, no repair) and "OLDER" (wait, then fence
   and roll the registry back) by comparing the two generations AS NUMBERS (db.ParseRevID).  ConfigProto.do_step has that
   comparison ([gen want <? gen (c_ver cf)] on N); the statements below are for ALL generations, in particular where
   the decimal form of the generation gains a digit (9 -> 10, 99 -> 100), and [VersionId.v] shows that the comparison of
   the decimal forms as strings is a different relation exactly there.

   [preset_store] builds a store holding databases at chosen versions the way the harness stores them (registry through
   upsertDatabaseConfig, config documents inserted, registry inserted last): scenarios of the stream "gen" start there
   instead of running generation-1 real updates. *)
From SG Require Import Base.Prelude C15.ConfigProto C15.ProtoOwn.
Open Scope N_scope.

Definition preset : Type := (N * ver * list N)%type.

Definition preset_add (acc : registry * store) (p : preset) : registry * store :=
  let '(d, v, cs) := p in
  (match upsert (fst acc) d v cs with Some R' => R' | None => fst acc end,
   match cfg_insert (snd acc) d (CF v cs) with Some st' => st' | None => snd acc end).

Definition preset_store (pre : list preset) : store :=
  let acc := fold_left preset_add pre ([], init_store) in
  match write_reg (snd acc) (SN 0 (fst acc)) with
  | Some (st', _) => st'
  | None => snd acc
  end.

(* the store shows an update of [d] interrupted between the registry write and the config-document write *)
Definition update_in_flight (st : store) (d : N) (c : N) (R : registry) (vnew vold : ver) (csn cso : list N)
           (cas : N) (cf : config) : Prop :=
  s_reg st = Some (c, R) /\ c <> 0 /\
  aget R d = Some (RE (RV vnew csn) (Some (RV vold cso))) /\
  aget (s_cfg st) d = Some (cas, cf) /\ c_ver cf = vold /\ gen vold < gen vnew.

Definition step3 (st : store) (nd : node) (pick : N) : store * node :=
  let '(st1, nd1, _) := do_step st nd true pick in
  let '(st2, nd2, _) := do_step st1 nd1 true pick in
  let '(st3, nd3, _) := do_step st2 nd2 true pick in
  (st3, nd3).

Lemma gen_lt_not_invalid (a b : ver) : gen a < gen b -> is_invalid b = false.
Proof.
  unfold is_invalid, ver_eqb, v_invalid, gen. destruct a as [a1 a2], b as [b1 b2]. cbn [fst snd]. intros H.
  destruct (b1 =? 0) eqn:E; [apply N.eqb_eq in E; lia | reflexivity].
Qed.

Lemma gen_lt_not_eq (a b : ver) : gen a < gen b -> ver_eqb a b = false.
Proof.
  unfold ver_eqb, gen. destruct a as [a1 a2], b as [b1 b2]. cbn [fst snd]. intros H.
  destruct (a1 =? b1) eqn:E; [apply N.eqb_eq in E; lia | reflexivity].
Qed.

(* getConfigVersionWithRetry on a document that is BEHIND the requested version: never "newer"; the node keeps
   waiting, and once the timer has expired goes on to the fence of rollbackRegistry -- for every pair of generations *)
Theorem behind_config_is_never_newer :
  forall st nd c d want cas cf expired pick,
    n_pc nd = PGdcRead c d want ->
    aget (s_cfg st) d = Some (cas, cf) ->
    gen (c_ver cf) < gen want ->
    do_step st nd expired pick =
      (st, if expired then set_pc nd (PRbTouch c d cas cf) else nd, false).
Proof.
  intros st nd c d want cas cf expired pick Hpc Hcfg Hlt.
  unfold do_step. rewrite Hpc, Hcfg.
  rewrite (gen_lt_not_invalid _ _ Hlt), (gen_lt_not_eq _ _ Hlt).
  assert (Hn : (gen want <? gen (c_ver cf)) = false) by (apply N.ltb_ge; lia).
  rewrite Hn. destruct expired; reflexivity.
Qed.

(* ... and a document AHEAD of the requested version is reported as such (the other half of the decision) *)
Theorem ahead_config_is_newer :
  forall st nd c d want cas cf expired pick,
    n_pc nd = PGdcRead c d want ->
    aget (s_cfg st) d = Some (cas, cf) ->
    is_invalid want = false ->
    gen want < gen (c_ver cf) ->
    do_step st nd expired pick = (st, finish nd (RErr ENewer), false).
Proof.
  intros st nd c d want cas cf expired pick Hpc Hcfg Hinv Hlt.
  unfold do_step. rewrite Hpc, Hcfg, Hinv.
  assert (He : ver_eqb (c_ver cf) want = false).
  { unfold ver_eqb. destruct (fst (c_ver cf) =? fst want) eqn:E; [apply N.eqb_eq in E; unfold gen in Hlt; lia | reflexivity]. }
  rewrite He.
  assert (Hn : (gen want <? gen (c_ver cf)) = true) by (apply N.ltb_lt; exact Hlt).
  rewrite Hn. reflexivity.
Qed.

(* An interrupted update is rolled back by any node that has read the registry, reads the config document and gives
   up waiting, when no other node takes a step in between: read (classified as older), fence (touch), registry write.
   Afterwards the registry records exactly the previous version with the previous collections and no in-flight marker,
   and the config document still has the previous configuration.  For ALL versions with gen vold < gen vnew. *)
Theorem interrupted_update_rolled_back :
  forall st nd c0 d c R vnew vold csn cso cas cf pick,
    update_in_flight st d c R vnew vold csn cso cas cf ->
    n_pc nd = PGdcRead c0 d vnew ->
    n_reg nd = SN c R ->
    let '(st3, nd3) := step3 st nd pick in
    (exists c', c' <> 0 /\ s_reg st3 = Some (c', aset R d (RE (RV vold cso) None))) /\
    (exists cas', aget (s_cfg st3) d = Some (cas', cf)) /\
    (forall d', d' <> d -> aget (s_cfg st3) d' = aget (s_cfg st) d') /\
    n_pc nd3 <> PDone (RErr ENewer) /\ n_pc nd3 <> PDone (RErr ECancelled) /\ n_pc nd3 <> PDone (RErr ERegMissing).
Proof.
  intros st nd c0 d c R vnew vold csn cso cas cf pick (Hreg & Hc & HR & Hcfg & Hver & Hlt) Hpc Hsn.
  unfold step3.
  assert (Hlt' : gen (c_ver cf) < gen vnew) by (rewrite Hver; exact Hlt).
  rewrite (behind_config_is_never_newer st nd c0 d vnew cas cf true pick Hpc Hcfg Hlt').
  (* the fence *)
  unfold do_step at 1. cbn [set_pc n_pc n_op].
  unfold cfg_touch. rewrite Hcfg, N.eqb_refl.
  cbn [set_pc n_reg sn_reg]. rewrite Hsn. cbn [sn_reg].
  unfold rollback_db. rewrite HR. cbn [e_prev].
  (* the registry write *)
  unfold do_step at 1. cbn [set_pc set_content set_reg n_pc n_op n_reg n_att n_own n_crashed sn_cas sn_reg].
  unfold write_reg. cbn [s_reg s_cfg s_clock sn_cas sn_reg]. rewrite ?Hsn. cbn [sn_cas sn_reg]. rewrite Hreg.
  assert (Hc0 : (c =? 0) = false) by (apply N.eqb_neq; exact Hc).
  rewrite Hc0, N.eqb_refl. cbn [negb andb].
  cbn [s_reg s_cfg s_clock].
  repeat split.
  - exists (s_clock st + 1). split; [lia | reflexivity].
  - exists (s_clock st). apply aget_aset_eq.
  - intros d' Hd. apply aget_aset_neq. congruence.
  - unfold gdc_reload, grd_reload, load_reload, finish. destruct c0; cbn; break_ifs; cbn; discriminate.
  - unfold gdc_reload, grd_reload, load_reload, finish. destruct c0; cbn; break_ifs; cbn; discriminate.
  - unfold gdc_reload, grd_reload, load_reload, finish. destruct c0; cbn; break_ifs; cbn; discriminate.
Qed.

(* the REST layer's convention: an update of generation g stamps generation g+1 -- every g *)
Corollary interrupted_update_rolled_back_every_generation :
  forall g dig dig' st nd c0 d c R csn cso cas cf pick,
    update_in_flight st d c R (g + 1, dig') (g, dig) csn cso cas cf ->
    n_pc nd = PGdcRead c0 d (g + 1, dig') ->
    n_reg nd = SN c R ->
    let '(st3, nd3) := step3 st nd pick in
    (exists c', c' <> 0 /\ s_reg st3 = Some (c', aset R d (RE (RV (g, dig) cso) None))) /\
    (exists cas', aget (s_cfg st3) d = Some (cas', cf)) /\
    n_pc nd3 <> PDone (RErr ENewer).
Proof.
  intros g dig dig' st nd c0 d c R csn cso cas cf pick H Hpc Hsn.
  generalize (interrupted_update_rolled_back st nd c0 d c R _ _ csn cso cas cf pick H Hpc Hsn).
  destruct (step3 st nd pick) as [st3 nd3].
  intros P. destruct P as [A [B [_ [C _]]]].
  split; [exact A | split; [exact B | exact C]].
Qed.

(* [update_in_flight] is what UpdateConfig leaves when the node dies after its registry write -- at generation 9 and 99
   as at any other: the model run from a preset store (update of db 1 crashed at its 4th storage call) *)
Definition gen_example (g : N) : world :=
  run_from (preset_store [(1, (g, 161), [1; 2])]) [OUpdate 1 6 [1]]
           [Step 0 true 0; Step 0 true 0; Step 0 true 0; Crash 0].

Example update_in_flight_nonvacuous_9 :
  let st := w_st (gen_example 9) in
  update_in_flight st 1 3 [(1, RE (RV (10, 6) [1]) (Some (RV (9, 161) [1; 2])))] (10, 6) (9, 161) [1] [1; 2]
                   1 (CF (9, 161) [1; 2]).
Proof. vm_compute. repeat split; try reflexivity; discriminate. Qed.

Example update_in_flight_nonvacuous_99 :
  let st := w_st (gen_example 99) in
  update_in_flight st 1 3 [(1, RE (RV (100, 6) [1]) (Some (RV (99, 161) [1; 2])))] (100, 6) (99, 161) [1] [1; 2]
                   1 (CF (99, 161) [1; 2]).
Proof. vm_compute. repeat split; try reflexivity; discriminate. Qed.
