(* C15: crash-sequential runs -- at most one live node at any time: a node runs some of its storage calls
   (any number: every crash point), then it is abandoned (crashed or finished) and the next one starts; any number
   of operations, any timer expiries, any iteration orders.  For these runs:
   - version_linkage: for every database the registry entry and the config document are linked (steady, create
     in flight, update in flight, delete in flight) at EVERY step;
   - the roll-back never has to adopt a config document (the registry_ownership side condition never fires) and
     no entry is ever marked invalid;
   - an acknowledged change is what the registry and the config document show. *)
From SG Require Import Base.Prelude C15.ConfigProto C15.ProtoOwn C15.ProtoLocal.
Open Scope N_scope.

Definition live (v : ver) : Prop := 1 <= gen v.

Definition linked (eo : option rentry) (co : option (N * config)) : Prop :=
  match eo, co with
  | None, None => True
  | None, Some _ => False
  | Some e, None =>
      (* create in flight (possibly over the left-over marker of an interrupted delete) *)
      (live (rv_ver (e_cur e)) /\ (e_prev e = None \/ exists p, e_prev e = Some p /\ rv_ver p = v_deleted))
      (* delete: config removed, registry entry not yet *)
      \/ (rv_ver (e_cur e) = v_deleted /\ exists pv, e_prev e = Some (RV pv []) /\ live pv)
  | Some e, Some (_, c) =>
      live (c_ver c) /\
      ((* steady: same version, same collections (a previous version may linger after an interrupted finalize) *)
       e_cur e = RV (c_ver c) (eff (c_colls c))
       (* update in flight: the registry is one generation ahead and records the config as previous version *)
       \/ (e_prev e = Some (RV (c_ver c) (eff (c_colls c))) /\ gen (rv_ver (e_cur e)) = gen (c_ver c) + 1)
       (* delete in flight *)
       \/ (rv_ver (e_cur e) = v_deleted /\ e_prev e = Some (RV (c_ver c) [])))
  end.

Definition regc (st : store) : registry := sn_reg (read_reg st).

Definition SInv (st : store) : Prop :=
  (forall d, linked (aget (regc st) d) (aget (s_cfg st) d)) /\
  (forall c R, s_reg st = Some (c, R) -> c <> 0) /\
  s_clock st <> 0.

Definition Fresh (st : store) (nd : node) : Prop := n_reg nd = read_reg st.

Definition is_load (o : opk) : bool := match o with OLoad => true | _ => false end.
Definition ctx_load (c : ctx) : bool := match c with CLoad _ _ _ => true | CGrd _ => false end.

(* registry entry and config document agree (a previous version may linger) *)
Definition steady (st : store) (d : N) : Prop :=
  exists e c cf, aget (regc st) d = Some e /\ aget (s_cfg st) d = Some (c, cf) /\
                 e_cur e = RV (c_ver cf) (eff (c_colls cf)).
(* the only database whose entry a node may change: its own target; a loader only one that is not steady *)
Definition wr_key (st : store) (nd : node) (k : N) : Prop :=
  if is_load (n_op nd) then ~ steady st k else k = op_db (n_op nd).

(* the in-memory registry is based on the stored one (same CAS), differs from it at one database at most, and
   is linked with the stored config documents *)
Definition WriteReady (st : store) (nd : node) : Prop :=
  sn_cas (n_reg nd) = sn_cas (read_reg st) /\
  (forall d, linked (aget (sn_reg (n_reg nd)) d) (aget (s_cfg st) d)) /\
  exists k, (forall d, d <> k -> aget (sn_reg (n_reg nd)) d = aget (regc st) d) /\ wr_key st nd k.

Definition del_entry (e : rentry) (pv : ver) : Prop :=
  rv_ver (e_cur e) = v_deleted /\ exists p, e_prev e = Some p /\ rv_ver p = pv.

Definition acked_state (o : opk) (st : store) : Prop :=
  match o with
  | OInsert d dig cols =>
      exists e c, aget (regc st) d = Some e /\ e_cur e = RV (1, dig) (eff cols) /\ aget (s_cfg st) d = Some (c, CF (1, dig) cols)
  | OUpdate d dig cols =>
      exists e c g, aget (regc st) d = Some e /\ e_cur e = RV (g, dig) (eff cols) /\ aget (s_cfg st) d = Some (c, CF (g, dig) cols)
  | ODelete d => aget (regc st) d = None /\ aget (s_cfg st) d = None
  | OLoad => True
  end.

Definition main_shape (o : opk) (cs : option (N * config)) (NR : registry) (C : amap (N * config)) : Prop :=
  match o, cs with
  | OInsert d dig cols, None => exists e, aget NR d = Some e /\ e_cur e = RV (1, dig) (eff cols)
  | OUpdate d dig cols, Some (cas, cf) =>
      aget C d = Some (cas, cf) /\ live (c_ver cf) /\
      exists e, aget NR d = Some e /\ e_cur e = RV (gen (c_ver cf) + 1, dig) (eff cols)
  | ODelete d, Some (cas, cf) =>
      aget C d = Some (cas, cf) /\ live (c_ver cf) /\
      exists e, aget NR d = Some e /\ rv_ver (e_cur e) = v_deleted /\ e_prev e = Some (RV (c_ver cf) [])
  | _, _ => False
  end.

(* the program counter belongs to the operation *)
Definition opwf (nd : node) : Prop :=
  match n_pc nd with
  | PLoadGet _ | PLoadLegacy _ => is_load (n_op nd) = true
  | PGdcRead c _ _ | PRbTouch c _ _ _ | PRbWriteG c => is_load (n_op nd) = ctx_load c
  | PDone _ => True
  | _ => is_load (n_op nd) = false
  end.

Definition NodeInv (st : store) (nd : node) : Prop :=
  let d := op_db (n_op nd) in
  let NR := sn_reg (n_reg nd) in
  let C := s_cfg st in
  opwf nd /\
  match n_pc nd with
  | PGetReg _ | PLoadGet _ => True
  | PLoadLegacy _ => Fresh st nd
  | PWfcdRead _ None => Fresh st nd /\ aget NR d = None
  | PWfcdRead _ (Some pv) => Fresh st nd /\ exists e, aget NR d = Some e /\ del_entry e pv
  | PWfcdDel _ None _ => False
  | PWfcdDel _ (Some pv) cas => Fresh st nd /\ (exists e, aget NR d = Some e /\ del_entry e pv) /\ exists cf, aget C d = Some (cas, cf)
  | PRbWriteW _ => WriteReady st nd /\ aget NR d = None /\ aget C d = None
  | PRbWriteG _ => WriteReady st nd
  | PGdcRead c dd want =>
      Fresh st nd /\ (exists e, aget NR dd = Some e /\ rv_ver (e_cur e) = want /\ is_deleted want = false) /\
      (ctx_load c = false -> dd = d)
  | PRbTouch c dd cas cf =>
      Fresh st nd /\ aget C dd = Some (cas, cf) /\ (ctx_load c = false -> dd = d) /\
      exists e, aget NR dd = Some e /\ e_prev e = Some (RV (c_ver cf) (eff (c_colls cf))) /\
                rv_ver (e_cur e) <> c_ver cf
  | PMainWrite cs => WriteReady st nd /\ main_shape (n_op nd) cs NR C
  | PInsCfg =>
      match n_op nd with
      | OInsert _ dig cols => exists e, aget (regc st) d = Some e /\ e_cur e = RV (1, dig) (eff cols)
      | _ => False
      end
  | PUpdCfg cas cf' prevv =>
      live (c_ver cf') /\ c_ver cf' <> prevv /\
      (exists e, aget (regc st) d = Some e /\ e_cur e = RV (c_ver cf') (eff (c_colls cf'))) /\
      match n_op nd with OUpdate _ dig cols => exists g, cf' = CF (g, dig) cols | _ => False end
  | PDelCfg _ =>
      match n_op nd with
      | ODelete _ =>
          exists e pv, aget (regc st) d = Some e /\ rv_ver (e_cur e) = v_deleted /\ e_prev e = Some (RV pv []) /\ live pv
      | _ => False
      end
  | PFinGet _ prevv =>
      match n_op nd with
      | ODelete _ => aget C d = None /\ forall e, aget (regc st) d = Some e -> rv_ver (e_cur e) = v_deleted
      | OUpdate _ _ _ => acked_state (n_op nd) st /\ exists c cf, aget C d = Some (c, cf) /\ c_ver cf <> prevv
      | _ => False
      end
  | PFinWrite _ _ =>
      WriteReady st nd /\
      match n_op nd with
      | ODelete _ => aget NR d = None /\ aget C d = None
      | OUpdate _ dig cols =>
          exists e c g, aget NR d = Some e /\ e_cur e = RV (g, dig) (eff cols) /\ aget C d = Some (c, CF (g, dig) cols)
      | _ => False
      end
  | PDone ROk => acked_state (n_op nd) st
  | PDone _ => True
  end.

(* ---------- store lemmas ---------- *)
Lemma regc_of st c R : s_reg st = Some (c, R) -> regc st = R.
Proof. unfold regc, read_reg. now intros ->. Qed.

Lemma write_ready st nd :
  SInv st -> WriteReady st nd ->
  exists st' sn', write_reg st (n_reg nd) = Some (st', sn') /\ SInv st' /\ read_reg st' = sn' /\
                  s_cfg st' = s_cfg st /\ sn_reg sn' = sn_reg (n_reg nd).
Proof.
  intros (HL & HC & HK) (Hc & HW & _). unfold write_reg.
  assert ((match s_reg st with
           | None => sn_cas (n_reg nd) =? 0
           | Some (c, _) => negb (sn_cas (n_reg nd) =? 0) && (c =? sn_cas (n_reg nd))
           end) = true) as ->.
  { rewrite Hc. unfold read_reg. destruct (s_reg st) as [[c R]|] eqn:E; cbn.
    - specialize (HC c R eq_refl). rewrite N.eqb_refl. destruct (c =? 0) eqn:E0; [apply N.eqb_eq in E0; contradiction | reflexivity].
    - reflexivity. }
  eexists _, _. split; [reflexivity|]. repeat split.
  - intros d. unfold regc, read_reg. cbn. apply HW.
  - cbn. intros c R [= <- _]. exact HK.
  - cbn. lia.
Qed.

Lemma SInv_cfg_change st st' d :
  SInv st -> s_reg st' = s_reg st ->
  (forall d', d' <> d -> aget (s_cfg st') d' = aget (s_cfg st) d') ->
  linked (aget (regc st) d) (aget (s_cfg st') d) ->
  s_clock st' <> 0 ->
  SInv st'.
Proof.
  intros (HL & HC & HK) Hr Ho Hd Hk. assert (regc st' = regc st) as Er by (unfold regc, read_reg; now rewrite Hr).
  repeat split.
  - intros d'. rewrite Er. destruct (N.eq_dec d' d) as [->|Hn]; [exact Hd | rewrite Ho by exact Hn; apply HL].
  - rewrite Hr. exact HC.
  - exact Hk.
Qed.

Lemma Fresh_cfg st st' nd : s_reg st' = s_reg st -> Fresh st nd -> Fresh st' nd.
Proof. unfold Fresh, read_reg. now intros ->. Qed.

Lemma cfg_insert_spec st d cf st' :
  cfg_insert st d cf = Some st' ->
  aget (s_cfg st) d = None /\ s_reg st' = s_reg st /\ s_clock st' = s_clock st + 1 /\
  aget (s_cfg st') d = Some (s_clock st, cf) /\ (forall d', d' <> d -> aget (s_cfg st') d' = aget (s_cfg st) d').
Proof.
  unfold cfg_insert. destruct (aget (s_cfg st) d) eqn:E; [discriminate|]. intros [= <-]. cbn.
  repeat split; auto using aget_aset_eq. intros d' Hn. apply aget_aset_neq. congruence.
Qed.
Lemma cfg_write_spec st d cas cf st' c' :
  cfg_write st d cas cf = Some (st', c') ->
  (exists cf0, aget (s_cfg st) d = Some (cas, cf0)) /\ s_reg st' = s_reg st /\ s_clock st' = s_clock st + 1 /\
  aget (s_cfg st') d = Some (c', cf) /\ (forall d', d' <> d -> aget (s_cfg st') d' = aget (s_cfg st) d').
Proof.
  unfold cfg_write. destruct (aget (s_cfg st) d) as [[c0 cf0]|] eqn:E; [|discriminate].
  destruct (c0 =? cas) eqn:Ec; [|discriminate]. apply N.eqb_eq in Ec; subst c0. intros [= <- <-]. cbn.
  repeat split; eauto using aget_aset_eq. intros d' Hn. apply aget_aset_neq. congruence.
Qed.
Lemma cfg_touch_spec st d cas st' c' :
  cfg_touch st d cas = Some (st', c') ->
  exists cf0, aget (s_cfg st) d = Some (cas, cf0) /\ s_reg st' = s_reg st /\ s_clock st' = s_clock st + 1 /\
  aget (s_cfg st') d = Some (c', cf0) /\ (forall d', d' <> d -> aget (s_cfg st') d' = aget (s_cfg st) d').
Proof.
  unfold cfg_touch. destruct (aget (s_cfg st) d) as [[c0 cf0]|] eqn:E; [|discriminate].
  destruct (c0 =? cas) eqn:Ec; [|discriminate]. apply N.eqb_eq in Ec; subst c0. intros [= <- <-]. cbn.
  exists cf0. repeat split; eauto using aget_aset_eq. intros d' Hn. apply aget_aset_neq. congruence.
Qed.
Lemma cfg_delete_spec st d cas st' :
  cfg_delete st d cas = Some st' ->
  (exists cf0, aget (s_cfg st) d = Some (cas, cf0)) /\ s_reg st' = s_reg st /\ s_clock st' = s_clock st + 1 /\
  aget (s_cfg st') d = None /\ (forall d', d' <> d -> aget (s_cfg st') d' = aget (s_cfg st) d').
Proof.
  unfold cfg_delete. destruct (aget (s_cfg st) d) as [[c0 cf0]|] eqn:E; [|discriminate].
  destruct (c0 =? cas) eqn:Ec; [|discriminate]. apply N.eqb_eq in Ec; subst c0. intros [= <-]. cbn.
  repeat split; eauto using aget_adel_eq. intros d' Hn. apply aget_adel_neq. congruence.
Qed.

Lemma is_deleted_false_neq v : is_deleted v = false -> v <> v_deleted.
Proof. intros H ->. discriminate. Qed.
Lemma is_deleted_true v : is_deleted v = true -> v = v_deleted.
Proof. apply ver_eqb_eq. Qed.
Lemma live_not_deleted v : live v -> is_deleted v = false.
Proof. unfold live, is_deleted, ver_eqb, v_deleted, gen. destruct v as [g x]. cbn. intros H. destruct (g =? 0) eqn:E; [lia | reflexivity]. Qed.
Lemma live_not_invalid v : live v -> is_invalid v = false.
Proof. unfold live, is_invalid, ver_eqb, v_invalid, gen. destruct v as [g x]. cbn. intros H. destruct (g =? 0) eqn:E; [lia | reflexivity]. Qed.
Lemma deleted_not_live : ~ live v_deleted.
Proof. unfold live, v_deleted, gen. cbn. lia. Qed.

(* a registry that differs from the stored one only at d *)
Lemma WriteReady_aset st nd nd' d e :
  SInv st -> Fresh st nd -> n_reg nd' = SN (sn_cas (n_reg nd)) (aset (regc st) d e) ->
  linked (Some e) (aget (s_cfg st) d) -> wr_key st nd' d ->
  WriteReady st nd'.
Proof.
  intros (HL & _) HF E Hd Hk. unfold WriteReady. rewrite E. cbn. split; [now rewrite HF|]. split.
  - intros d'. destruct (N.eq_dec d' d) as [->|Hn].
    + now rewrite aget_aset_eq.
    + rewrite aget_aset_neq by congruence. apply HL.
  - exists d. split; [|exact Hk]. intros d' Hn. apply aget_aset_neq. congruence.
Qed.
Lemma WriteReady_adel st nd nd' d :
  SInv st -> Fresh st nd -> n_reg nd' = SN (sn_cas (n_reg nd)) (adel (regc st) d) ->
  aget (s_cfg st) d = None -> wr_key st nd' d -> WriteReady st nd'.
Proof.
  intros (HL & _) HF E Hd Hk. unfold WriteReady. rewrite E. cbn. split; [now rewrite HF|]. split.
  - intros d'. destruct (N.eq_dec d' d) as [->|Hn].
    + now rewrite aget_adel_eq, Hd.
    + rewrite aget_adel_neq by congruence. apply HL.
  - exists d. split; [|exact Hk]. intros d' Hn. apply aget_adel_neq. congruence.
Qed.

Lemma wr_key_op st nd nd' : is_load (n_op nd) = false -> n_op nd' = n_op nd -> wr_key st nd' (op_db (n_op nd)).
Proof. intros Hl E. unfold wr_key. now rewrite E, Hl. Qed.

(* ---------- getRegistryAndDatabase returns ---------- *)
Lemma grd_return_none st nd :
  SInv st -> Fresh st nd -> is_load (n_op nd) = false ->
  aget (s_cfg st) (op_db (n_op nd)) = None ->
  (aget (regc st) (op_db (n_op nd)) = None \/
   exists e, aget (regc st) (op_db (n_op nd)) = Some e /\ rv_ver (e_cur e) = v_deleted) ->
  NodeInv st (grd_return nd None).
Proof.
  intros HS HF Hl Hc Hr. unfold grd_return. assert (sn_reg (n_reg nd) = regc st) as ER by (now rewrite HF).
  destruct (n_op nd) as [d dig cols|d dig cols|d|] eqn:Eo; try discriminate; cbn in Hc, Hr.
  - rewrite ER. destruct (upsert (regc st) d (1, dig) cols) as [R'|] eqn:U.
    + unfold upsert in U. destruct (_ || _); [discriminate|]. injection U as <-.
      unfold NodeInv. cbn. rewrite ?Eo. cbn. split; [reflexivity|]. split.
      * eapply WriteReady_aset; [exact HS | exact HF | reflexivity | | unfold wr_key; cbn; rewrite ?Eo; cbn; reflexivity]. rewrite Hc. cbn. left. split; [unfold live, gen; cbn; lia|].
        destruct Hr as [->|(e & -> & Hv)]; cbn; [now left|]. right. eexists. split; [reflexivity | exact Hv].
      * rewrite aget_aset_eq. eexists. split; reflexivity.
    + unfold NodeInv. cbn. auto.
  - unfold NodeInv. cbn. auto.
  - unfold NodeInv. cbn. auto.
Qed.

Lemma grd_return_some st nd cas cf :
  SInv st -> Fresh st nd -> is_load (n_op nd) = false ->
  aget (s_cfg st) (op_db (n_op nd)) = Some (cas, cf) ->
  (exists e, aget (regc st) (op_db (n_op nd)) = Some e /\ rv_ver (e_cur e) = c_ver cf /\ is_deleted (c_ver cf) = false) ->
  NodeInv st (grd_return nd (Some (cas, cf))).
Proof.
  intros HS HF Hl Hc (e & He & Hv & Hnd). unfold grd_return. assert (sn_reg (n_reg nd) = regc st) as ER by (now rewrite HF).
  pose proof (proj1 HS (op_db (n_op nd))) as HL. rewrite He, Hc in HL. cbn in HL. destruct HL as [Hlive HL].
  assert (e_cur e = RV (c_ver cf) (eff (c_colls cf))) as Ecur.
  { destruct HL as [H|[[_ Hg]|[Hd _]]]; [exact H | rewrite Hv in Hg; lia |].
    rewrite Hv in Hd. rewrite Hd in Hnd. discriminate. }
  destruct (n_op nd) as [d dig cols|d dig cols|d|] eqn:Eo; try discriminate; cbn in Hc, He.
  - unfold NodeInv. cbn. auto.
  - rewrite ER. destruct (upsert (regc st) d (gen (c_ver cf) + 1, dig) cols) as [R'|] eqn:U.
    + unfold upsert in U. destruct (_ || _); [discriminate|]. injection U as <-.
      unfold NodeInv. cbn. rewrite ?Eo. cbn. split; [reflexivity|]. split.
      * eapply WriteReady_aset; [exact HS | exact HF | reflexivity | | unfold wr_key; cbn; rewrite ?Eo; cbn; reflexivity]. rewrite Hc. cbn. split; [exact Hlive|]. right. left.
        rewrite He. cbn. rewrite Ecur. split; [reflexivity | cbn; lia].
      * rewrite aget_aset_eq. split; [exact Hc|]. split; [exact Hlive|]. eexists. split; reflexivity.
    + unfold NodeInv. cbn. auto.
  - rewrite ER. unfold delete_db. rewrite He.
    unfold NodeInv. cbn. rewrite ?Eo. cbn. split; [reflexivity|]. split.
    + eapply WriteReady_aset; [exact HS | exact HF | reflexivity | | unfold wr_key; cbn; rewrite ?Eo; cbn; reflexivity]. rewrite Hc. cbn. split; [exact Hlive|]. right. right.
      rewrite Hv. split; reflexivity.
    + rewrite aget_aset_eq. split; [exact Hc|]. split; [exact Hlive|]. eexists. cbn. rewrite Hv. repeat split.
Qed.

Lemma NodeInv_grd_reload st nd lc : is_load (n_op nd) = false -> NodeInv st (grd_reload nd lc).
Proof. intros Hl. unfold grd_reload. destruct (5 <=? lc)%nat; unfold NodeInv; cbn; auto. Qed.
Lemma NodeInv_load_reload st nd la : is_load (n_op nd) = true -> NodeInv st (load_reload nd la).
Proof. intros Hl. unfold load_reload. destruct (5 <=? la)%nat; unfold NodeInv; cbn; auto. Qed.
Lemma NodeInv_main_retry st nd : is_load (n_op nd) = false -> NodeInv st (main_retry nd).
Proof. intros Hl. unfold main_retry. destruct (max_att (n_op nd) <=? n_att nd)%nat; unfold NodeInv; cbn; auto. Qed.
Lemma NodeInv_err st nd e : NodeInv st (finish nd (RErr e)).
Proof. unfold NodeInv. cbn. auto. Qed.

Lemma NodeInv_load_iter st nd la rest acc pick :
  Fresh st nd -> is_load (n_op nd) = true -> rest_ok (sn_reg (n_reg nd)) rest ->
  NodeInv st (load_iter nd la rest acc pick).
Proof.
  intros HF Hl Hr. unfold load_iter. destruct rest as [|x r] eqn:Er.
  - unfold NodeInv. cbn. auto.
  - rewrite <- Er in *. assert (rest <> []) as Hne by (rewrite Er; discriminate).
    destruct (Hr _ (choose_in pick rest Hne)) as (e & He & Hd). rewrite He.
    unfold NodeInv. cbn. split; [exact Hl|]. split; [exact HF|]. split; [|discriminate].
    exists e. auto.
Qed.

(* ---------- one step of the single live node ---------- *)
Ltac done_step H := injection H as <- <- <-.

Lemma linked_deleted_noprev e co : rv_ver (e_cur e) = v_deleted -> e_prev e = None -> ~ linked (Some e) co.
Proof.
  intros Hd Hp HL. destruct co as [[c cf]|]; cbn in HL.
  - destruct HL as [Hl [H|[[H _]|[_ H]]]]; try congruence.
    rewrite H in Hd. cbn in Hd. rewrite Hd in Hl. exact (deleted_not_live Hl).
  - destruct HL as [[Hl _]|[_ (pv & H & _)]]; [|congruence]. rewrite Hd in Hl. exact (deleted_not_live Hl).
Qed.

(* the entry is marked deleted and the config document still exists: it is the recorded previous version *)
Lemma linked_deleting e c cf :
  linked (Some e) (Some (c, cf)) -> rv_ver (e_cur e) = v_deleted -> live (c_ver cf) /\ e_prev e = Some (RV (c_ver cf) []).
Proof.
  cbn. intros [Hlive HL] Hdel. split; [exact Hlive|].
  destruct HL as [H0|[[_ H0]|[_ H0]]]; [| |exact H0].
  - rewrite H0 in Hdel. cbn in Hdel. rewrite Hdel in Hlive. destruct (deleted_not_live Hlive).
  - rewrite Hdel in H0. cbn in H0. lia.
Qed.

(* the entry is live: the config is its current version, or the previous version of an update in flight *)
Lemma linked_live e c cf :
  linked (Some e) (Some (c, cf)) -> is_deleted (rv_ver (e_cur e)) = false ->
  live (c_ver cf) /\
  (e_cur e = RV (c_ver cf) (eff (c_colls cf)) \/
   (e_prev e = Some (RV (c_ver cf) (eff (c_colls cf))) /\ gen (rv_ver (e_cur e)) = gen (c_ver cf) + 1)).
Proof.
  cbn. intros [Hlive HL] Hnd. split; [exact Hlive|].
  destruct HL as [H0|[H0|[H0 _]]]; [now left | now right |]. rewrite H0 in Hnd. discriminate.
Qed.

Lemma do_step_seq st nd expired pick st' nd' b :
  do_step st nd expired pick = (st', nd', b) ->
  SInv st -> NodeInv st nd -> load_inv nd ->
  SInv st' /\ NodeInv st' nd' /\ b = false.
Proof.
  unfold do_step. intros H HS [Hwf HN] HLI. unfold opwf in Hwf.
  pose proof HS as (HLk & HCas & HClk).
  destruct (n_pc nd) eqn:Hpc.
  - (* PGetReg *)
    cbn [n_reg set_reg sn_reg] in H. fold (regc st) in H.
    assert (Fresh st (set_reg nd (read_reg st))) as HF by reflexivity.
    destruct (aget (regc st) (op_db (n_op nd))) as [e|] eqn:He.
    + destruct (is_deleted (rv_ver (e_cur e))) eqn:Hd; cbn in H.
      * apply is_deleted_true in Hd.
        destruct (e_prev e) as [p|] eqn:Hp; done_step H.
        -- split; [exact HS|]. split; [|reflexivity]. unfold NodeInv. cbn. split; [exact Hwf|]. split; [exact HF|].
           exists e. split; [exact He|]. split; [exact Hd|]. eauto.
        -- exfalso. eapply linked_deleted_noprev; eauto. rewrite <- He. apply HLk.
      * done_step H. split; [exact HS|]. split; [|reflexivity]. unfold NodeInv. cbn. split; [exact Hwf|].
        split; [exact HF|]. split; [|reflexivity]. exists e. auto.
    + done_step H. split; [exact HS|]. split; [|reflexivity]. unfold NodeInv. cbn. auto.
  - (* PWfcdRead *)
    destruct v as [pv|].
    + destruct HN as (HF & e & He & Hdel & p & Hp & Hpv).
      assert (aget (regc st) (op_db (n_op nd)) = Some e) as He' by (unfold regc; now rewrite <- HF).
      destruct (aget (s_cfg st) (op_db (n_op nd))) as [[cas cf]|] eqn:Hc.
      * pose proof (HLk (op_db (n_op nd))) as HL. rewrite He', Hc in HL.
        destruct (linked_deleting _ _ _ HL Hdel) as [Hlive Eprev].
        assert (ver_eqb pv (c_ver cf) = true) as Ex.
        { apply ver_eqb_eq. rewrite Hp in Eprev. injection Eprev as ->. now cbn in Hpv. }
        rewrite Ex in H. cbn in H.
        destruct expired; done_step H; (split; [exact HS|]; split; [|reflexivity]).
        -- unfold NodeInv. cbn. split; [exact Hwf|]. split; [exact HF|]. split; [|eauto].
           exists e. split; [exact He|]. split; eauto.
        -- unfold NodeInv, opwf. rewrite Hpc. split; [exact Hwf|]. split; [exact HF|]. exists e. split; [exact He|]. split; eauto.
      * done_step H. split; [exact HS|]. split; [|reflexivity].
        apply grd_return_none; auto. right. exists e. auto.
    + destruct HN as (HF & He).
      assert (aget (regc st) (op_db (n_op nd)) = None) as He' by (unfold regc; now rewrite <- HF).
      pose proof (HLk (op_db (n_op nd))) as HL. rewrite He' in HL.
      destruct (aget (s_cfg st) (op_db (n_op nd))) as [[cas cf]|] eqn:Hc; [destruct HL|].
      done_step H. split; [exact HS|]. split; [|reflexivity]. apply grd_return_none; auto.
  - (* PWfcdDel *)
    destruct v as [pv|]; [|destruct HN].
    destruct HN as (HF & (e & He & Hdel & p & Hp & Hpv) & cf0 & Hc0).
    assert (aget (regc st) (op_db (n_op nd)) = Some e) as He' by (unfold regc; now rewrite <- HF).
    destruct (cfg_delete st (op_db (n_op nd)) cas) as [st1|] eqn:D.
    + destruct (cfg_delete_spec _ _ _ _ D) as (_ & Hr & Hk & Hn & Ho).
      pose proof (HLk (op_db (n_op nd))) as HL. rewrite He', Hc0 in HL.
      destruct (linked_deleting _ _ _ HL Hdel) as [Hlive Eprev].
      assert (SInv st1) as HS1.
      { eapply (SInv_cfg_change st st1); eauto; [|lia]. rewrite He', Hn. cbn. right. split; [exact Hdel|]. eauto. }
      rewrite He in H. done_step H. split; [exact HS1|]. split; [|reflexivity].
      unfold NodeInv. cbn. split; [exact Hwf|]. split; [|split].
      * eapply (WriteReady_adel st1 nd); [exact HS1 | eapply Fresh_cfg; eauto | | exact Hn | unfold wr_key; cbn; now rewrite Hwf].
        cbn. f_equal. f_equal. rewrite HF. unfold regc, read_reg. now rewrite Hr.
      * apply aget_adel_eq.
      * exact Hn.
    + exfalso. unfold cfg_delete in D. rewrite Hc0, N.eqb_refl in D. discriminate.
  - (* PRbWriteW *)
    destruct HN as (HW & HNR & HC).
    destruct (write_ready _ _ HS HW) as (st1 & sn1 & Wr & HS1 & Hrd & Hcf & Hsn). rewrite Wr in H. done_step H.
    split; [exact HS1|]. split; [|reflexivity].
    apply grd_return_none; auto.
    + unfold Fresh. cbn. now rewrite Hrd.
    + now rewrite Hcf.
    + left. unfold regc. rewrite Hrd, Hsn. exact HNR.
  - (* PGdcRead *)
    destruct HN as (HF & (e & He & Hw & Hnd) & Hdd).
    assert (aget (regc st) d = Some e) as He' by (unfold regc; now rewrite <- HF).
    pose proof (HLk d) as HL. rewrite He' in HL.
    assert (is_deleted (rv_ver (e_cur e)) = false) as Hnd' by (now rewrite Hw).
    destruct (aget (s_cfg st) d) as [[cas cf]|] eqn:Hc.
    + destruct (linked_live _ _ _ HL Hnd') as [Hlive Hcase].
      assert (is_invalid want = false) as Ex.
      { rewrite <- Hw. destruct Hcase as [H0|[_ H0]].
        - rewrite H0. cbn. now apply live_not_invalid.
        - apply live_not_invalid. unfold live. rewrite H0. lia. }
      rewrite Ex in H.
      destruct (ver_eqb (c_ver cf) want) eqn:Ev.
      * apply ver_eqb_eq in Ev. done_step H. split; [exact HS|]. split; [|reflexivity].
        destruct c as [lc|la rest acc]; cbn.
        -- specialize (Hdd eq_refl). subst d. apply grd_return_some; auto.
           exists e. rewrite Ev. auto.
        -- unfold load_inv in HLI. rewrite Hpc in HLI. destruct HLI as (_ & Hr & _).
           apply NodeInv_load_iter; auto.
      * assert (gen want <? gen (c_ver cf) = false) as Ex2.
        { apply N.ltb_ge. rewrite <- Hw. destruct Hcase as [H0|[_ H0]]; [rewrite H0; cbn; lia | lia]. }
        rewrite Ex2 in H.
        destruct expired; done_step H; (split; [exact HS|]; split; [|reflexivity]).
        -- assert (rv_ver (e_cur e) <> c_ver cf) as Hne.
           { intros E. rewrite Hw in E. rewrite E in Ev.
             assert (ver_eqb (c_ver cf) (c_ver cf) = true) by (now apply ver_eqb_eq). congruence. }
           unfold NodeInv. cbn. split; [exact Hwf|]. split; [exact HF|]. split; [exact Hc|]. split; [exact Hdd|].
           exists e. split; [exact He|]. split; [|exact Hne]. destruct Hcase as [H0|[H0 _]]; [|exact H0].
           exfalso. apply Hne. now rewrite H0.
        -- unfold NodeInv, opwf. rewrite Hpc. split; [exact Hwf|]. split; [exact HF|]. split; [|exact Hdd]. exists e. auto.
    + destruct expired.
      * rewrite He in H. done_step H. split; [exact HS|]. split; [|reflexivity].
        unfold NodeInv. cbn. split; [exact Hwf|].
        eapply (WriteReady_adel st nd); [exact HS | exact HF | | exact Hc |]; [cbn; now rewrite HF|].
        unfold wr_key. cbn. rewrite Hwf. destruct c as [lc|la rest acc]; cbn; [now apply Hdd|].
        intros (e0 & c0 & cf0 & _ & Hx & _). congruence.
      * done_step H. split; [exact HS|]. split; [|reflexivity].
        unfold NodeInv, opwf. rewrite Hpc. split; [exact Hwf|]. split; [exact HF|]. split; [|exact Hdd]. exists e. auto.
  - (* PRbTouch *)
    destruct HN as (HF & Hc & Hdd & e & He & Hp & Hne).
    assert (aget (regc st) d = Some e) as He' by (unfold regc; now rewrite <- HF).
    pose proof (HLk d) as HL. rewrite He', Hc in HL.
    destruct (cfg_touch st d cas) as [[st1 c1]|] eqn:T.
    + destruct (cfg_touch_spec _ _ _ _ _ T) as (cf0 & Hc0 & Hr & Hk & Hn & Ho).
      rewrite Hc in Hc0. injection Hc0 as <-.
      assert (SInv st1) as HS1.
      { eapply (SInv_cfg_change st st1); eauto; [|lia]. rewrite He', Hn. exact HL. }
      unfold rollback_db in H. rewrite He, Hp in H. done_step H. split; [exact HS1|]. split; [|reflexivity].
      unfold NodeInv. cbn. split; [exact Hwf|].
      assert (regc st1 = regc st) as Er1 by (unfold regc, read_reg; now rewrite Hr).
      eapply (WriteReady_aset st1 nd); [exact HS1 | eapply Fresh_cfg; eauto | | |].
      * cbn. f_equal. f_equal. rewrite HF. unfold regc, read_reg. now rewrite Hr.
      * rewrite Hn. cbn. destruct HL as [Hlive _]. split; [exact Hlive|]. now left.
      * unfold wr_key. cbn. rewrite Hwf. destruct c as [lc|la rest acc]; cbn; [now apply Hdd|].
        intros (e0 & c0 & cf0 & He0 & Hc0 & Hcur0). rewrite Er1, He' in He0. injection He0 as <-.
        rewrite Hn in Hc0. injection Hc0 as _ <-. apply Hne. now rewrite Hcur0.
    + exfalso. unfold cfg_touch in T. rewrite Hc, N.eqb_refl in T. discriminate.
  - (* PRbWriteG *)
    destruct (write_ready _ _ HS HN) as (st1 & sn1 & Wr & HS1 & Hrd & Hcf & Hsn). rewrite Wr in H. done_step H.
    split; [exact HS1|]. split; [|reflexivity].
    destruct c; cbn in *; [apply NodeInv_grd_reload | apply NodeInv_load_reload]; exact Hwf.
  - (* PMainWrite *)
    destruct HN as (HW & Hshape).
    destruct (write_ready _ _ HS HW) as (st1 & sn1 & Wr & HS1 & Hrd & Hcf & Hsn).
    assert (regc st1 = sn_reg (n_reg nd)) as Er by (unfold regc; now rewrite Hrd, Hsn).
    unfold main_shape in Hshape. unfold main_next in H.
    destruct (n_op nd) as [d dig cols|d dig cols|d|] eqn:Eo; [| | |destruct Hshape].
    + destruct cs as [[cas cf]|]; [destruct Hshape|]. destruct Hshape as (e & He & Hcur).
      rewrite Wr in H. done_step H. split; [exact HS1|]. split; [|reflexivity].
      unfold NodeInv. cbn. rewrite ?Eo. cbn. split; [reflexivity|]. rewrite Er. eauto.
    + destruct cs as [[cas cf]|]; [|destruct Hshape]. destruct Hshape as (Hc & Hlive & e & He & Hcur).
      rewrite Wr in H. done_step H. split; [exact HS1|]. split; [|reflexivity].
      unfold NodeInv. cbn. rewrite ?Eo. cbn. split; [reflexivity|]. rewrite Er.
      split; [unfold live, gen in *; cbn; lia|].
      split; [intros E; apply (f_equal gen) in E; unfold gen in E; cbn in E; lia|].
      split; [exists e; auto | eauto].
    + destruct cs as [[cas cf]|]; [|destruct Hshape]. destruct Hshape as (Hc & Hlive & e & He & Hcur & Hp).
      rewrite Wr in H. done_step H. split; [exact HS1|]. split; [|reflexivity].
      unfold NodeInv. cbn. rewrite ?Eo. cbn. split; [reflexivity|]. rewrite Er. exists e, (c_ver cf). auto.
  - (* PInsCfg *)
    destruct (n_op nd) as [d dig cols|d dig cols|d|] eqn:Eo; try (exfalso; exact HN).
    destruct HN as (e & He & Hcur). cbn in *.
    destruct (cfg_insert st d (CF (1, dig) cols)) as [st1|] eqn:Ins; done_step H; [|split; [exact HS|]; split; [apply NodeInv_err | reflexivity]].
    destruct (cfg_insert_spec _ _ _ _ Ins) as (Hc0 & Hr & Hk & Hn & Ho).
    assert (SInv st1) as HS1.
    { eapply (SInv_cfg_change st st1); eauto; [|lia]. rewrite He, Hn. cbn. split; [unfold live, gen; cbn; lia|]. now left. }
    split; [exact HS1|]. split; [|reflexivity]. unfold NodeInv. cbn. rewrite ?Eo. cbn. split; [exact I|].
    exists e, (s_clock st). assert (regc st1 = regc st) as -> by (unfold regc, read_reg; now rewrite Hr). auto.
  - (* PUpdCfg *)
    destruct HN as (Hlive & Hne & (e & He & Hcur) & Hop).
    destruct (cfg_write st (op_db (n_op nd)) cas cf) as [[st1 c1]|] eqn:Wc; done_step H; [|split; [exact HS|]; split; [apply NodeInv_err | reflexivity]].
    destruct (cfg_write_spec _ _ _ _ _ _ Wc) as (_ & Hr & Hk & Hn & Ho).
    assert (SInv st1) as HS1.
    { eapply (SInv_cfg_change st st1); eauto; [|lia]. rewrite He, Hn. cbn. split; [exact Hlive|]. now left. }
    split; [exact HS1|]. split; [|reflexivity].
    assert (regc st1 = regc st) as Er by (unfold regc, read_reg; now rewrite Hr).
    destruct (n_op nd) as [d dig cols|d dig cols|d|] eqn:Eo; try (exfalso; exact Hop). destruct Hop as [g ->]. cbn in *.
    unfold NodeInv. cbn. rewrite ?Eo. cbn. split; [reflexivity|]. split.
    + exists e, c1, g. rewrite Er. auto.
    + exists c1, (CF (g, dig) cols). auto.
  - (* PDelCfg *)
    destruct (n_op nd) as [d dig cols|d dig cols|d|] eqn:Eo; try (exfalso; exact HN).
    destruct HN as (e & pv & He & Hdel & Hp & Hlive). cbn in *.
    destruct (cfg_delete st d cas) as [st1|] eqn:D; done_step H; [|split; [exact HS|]; split; [apply NodeInv_err | reflexivity]].
    destruct (cfg_delete_spec _ _ _ _ D) as (_ & Hr & Hk & Hn & Ho).
    assert (SInv st1) as HS1.
    { eapply (SInv_cfg_change st st1); eauto; [|lia]. rewrite He, Hn. cbn. right. split; [exact Hdel|]. eauto. }
    split; [exact HS1|]. split; [|reflexivity].
    unfold NodeInv. cbn. rewrite ?Eo. cbn. split; [reflexivity|]. split; [exact Hn|].
    intros e0 He0. assert (regc st1 = regc st) as Er1 by (unfold regc, read_reg; now rewrite Hr).
    rewrite Er1, He in He0. injection He0 as <-. exact Hdel.
  - (* PFinGet *)
    cbn [n_reg set_reg sn_reg] in H. fold (regc st) in H.
    assert (Fresh st (set_reg nd (read_reg st))) as HF by reflexivity.
    destruct (n_op nd) as [d dig cols|d dig cols|d|] eqn:Eo; try (exfalso; exact HN); cbn in *.
    + (* update *)
      destruct HN as (Hack & c & cf & Hc & Hne).
      destruct (remove_prev (regc st) d prevv) as [R'|] eqn:Rp; done_step H; (split; [exact HS|]; split; [|reflexivity]).
      * unfold remove_prev in Rp. destruct (aget (regc st) d) as [e|] eqn:He; [|discriminate].
        destruct (e_prev e) as [p|] eqn:Hp; [|discriminate]. destruct (ver_eqb (rv_ver p) prevv) eqn:Ev; [|discriminate].
        injection Rp as <-. apply ver_eqb_eq in Ev.
        destruct Hack as (e0 & c0 & g & He0 & Hcur & Hc0). injection He0 as <-.
        rewrite Hc in Hc0. injection Hc0 as Ec Ecf. subst c0 cf.
        unfold NodeInv. cbn. rewrite ?Eo. cbn. split; [reflexivity|]. split.
        -- eapply (WriteReady_aset st (set_reg nd (read_reg st))); [exact HS | exact HF | reflexivity | | unfold wr_key; cbn; rewrite ?Eo; cbn; reflexivity].
           rewrite Hc. cbn. split; [|left; exact Hcur].
           pose proof (HLk d) as HL. rewrite He, Hc in HL. exact (proj1 HL).
        -- rewrite aget_aset_eq. exists (RE (e_cur e) None), c, g. auto.
      * unfold NodeInv. cbn. rewrite ?Eo. split; [exact I | exact Hack].
    + (* delete *)
      destruct HN as (HNc & HNm).
      destruct (aget (regc st) d) as [e|] eqn:He.
      * rewrite (HNm e eq_refl) in H. cbn in H. done_step H. split; [exact HS|]. split; [|reflexivity].
        unfold NodeInv; cbn; rewrite ?Eo; cbn.
        split; [reflexivity|]. split; [|split; [apply aget_adel_eq | exact HNc]].
        eapply (WriteReady_adel st (set_reg nd (read_reg st))); [exact HS | exact HF | reflexivity | exact HNc | unfold wr_key; cbn; rewrite ?Eo; cbn; reflexivity].
      * done_step H. split; [exact HS|]. split; [|reflexivity]. unfold NodeInv; cbn; rewrite ?Eo; cbn.
        split; [exact I|]. split; [exact He | exact HNc].
  - (* PFinWrite *)
    destruct HN as (HW & Hop).
    destruct (write_ready _ _ HS HW) as (st1 & sn1 & Wr & HS1 & Hrd & Hcf & Hsn). rewrite Wr in H. done_step H.
    split; [exact HS1|]. split; [|reflexivity].
    assert (regc st1 = sn_reg (n_reg nd)) as Er by (unfold regc; now rewrite Hrd, Hsn).
    unfold NodeInv. cbn. destruct (n_op nd) as [d dig cols|d dig cols|d|] eqn:Eo; try (exfalso; exact Hop); cbn in *.
    + split; [exact I|]. destruct Hop as (e & c & g & He & Hcur & Hc). exists e, c, g. rewrite Er, Hcf. auto.
    + split; [exact I|]. rewrite Er, Hcf. exact Hop.
  - (* PLoadGet *)
    done_step H. split; [exact HS|]. split; [|reflexivity]. unfold NodeInv. cbn. split; [exact Hwf | reflexivity].
  - (* PLoadLegacy *)
    done_step H. split; [exact HS|]. split; [|reflexivity].
    apply NodeInv_load_iter; auto. apply live_keys_ok.
  - (* PDone *)
    done_step H. split; [exact HS|]. split; [|reflexivity]. unfold NodeInv, opwf. rewrite Hpc. split; [exact I | exact HN].
Qed.

(* ---------- crash-sequential schedules over the general system ---------- *)
(* the node indices of the Step events never decrease: once a later node has started, an earlier one performs
   no further storage call (it crashed, finished, or is simply abandoned) *)
Fixpoint mono_from (cur : nat) (evs : list event) : Prop :=
  match evs with
  | [] => True
  | Step i _ _ :: r => (cur <= i)%nat /\ mono_from i r
  | Crash _ :: r => mono_from cur r
  end.
Definition sequential (evs : list event) : Prop := mono_from 0 evs.

Fixpoint last_from (cur : nat) (evs : list event) : nat :=
  match evs with
  | [] => cur
  | Step i _ _ :: r => last_from i r
  | Crash _ :: r => last_from cur r
  end.

Definition untouched (nd : node) : Prop :=
  exists o c, nd = ND o 1 (SN 0 []) (match o with OLoad => PLoadGet 0 | _ => PGetReg 0 end) false c.

Lemma untouched_inv st nd : untouched nd -> NodeInv st nd /\ load_inv nd.
Proof.
  intros (o & c & ->). split.
  - unfold NodeInv, opwf. destruct o; cbn; auto.
  - unfold load_inv. destruct o; exact I.
Qed.

Definition WInv (w : world) (cur : nat) : Prop :=
  SInv (w_st w) /\ w_bad w = false /\
  (forall j nd, (cur < j)%nat -> nth_error (w_nodes w) j = Some nd -> untouched nd) /\
  (forall nd, nth_error (w_nodes w) cur = Some nd -> NodeInv (w_st w) nd /\ load_inv nd).

Lemma nth_error_set_nth_eq {A} i (x : A) l y : nth_error l i = Some y -> nth_error (set_nth i x l) i = Some x.
Proof. revert i. induction l as [|a l IH]; intros [|i]; cbn; try discriminate; auto. Qed.
Lemma nth_error_set_nth_neq {A} i j (x : A) l : i <> j -> nth_error (set_nth i x l) j = nth_error l j.
Proof.
  revert i j. induction l as [|a l IH]; intros [|i] [|j] Hn; cbn; auto; try contradiction.
Qed.

Lemma NodeInv_crash st nd :
  NodeInv st nd -> NodeInv st (ND (n_op nd) (n_att nd) (n_reg nd) (n_pc nd) (n_own nd) true).
Proof. exact (fun H => H). Qed.

Lemma WInv_node w cur i nd :
  WInv w cur -> (cur <= i)%nat -> nth_error (w_nodes w) i = Some nd -> NodeInv (w_st w) nd /\ load_inv nd.
Proof.
  intros (HS & Hb & Hu & Hc) Hle Hn. destruct (Nat.eq_dec i cur) as [->|Hne]; [auto|].
  apply untouched_inv. eapply Hu; [|exact Hn]. lia.
Qed.

Lemma WInv_advance w cur i : WInv w cur -> (cur <= i)%nat -> WInv w i.
Proof.
  intros HW Hle. pose proof HW as (HS & Hb & Hu & Hc). split; [exact HS|]. split; [exact Hb|]. split.
  - intros j nd Hj. apply Hu. lia.
  - intros nd Hn. eapply WInv_node; eauto.
Qed.

Lemma step_seq w cur i ex pk : WInv w cur -> (cur <= i)%nat -> WInv (step w (Step i ex pk)) i.
Proof.
  intros HW Hle. pose proof (WInv_advance _ _ _ HW Hle) as HWi. cbn.
  destruct (nth_error (w_nodes w) i) as [nd|] eqn:Hn; [|exact HWi].
  destruct (n_crashed nd || is_done nd); [exact HWi|].
  destruct (do_step (w_st w) nd ex pk) as [[st1 nd1] bad] eqn:D.
  destruct HWi as (HS & Hb & Hu & Hc). destruct (Hc _ Hn) as [HN HL].
  destruct (do_step_seq _ _ _ _ _ _ _ D HS HN HL) as (HS1 & HN1 & ->).
  pose proof (do_step_load_inv _ _ _ _ _ _ _ D HL) as HL1.
  split; [exact HS1|]. split; [cbn; now rewrite Hb|]. split; cbn.
  - intros j nd' Hj Hnj. rewrite nth_error_set_nth_neq in Hnj by lia. eapply Hu; eauto.
  - intros nd' H. rewrite (nth_error_set_nth_eq _ _ _ _ Hn) in H. injection H as <-. auto.
Qed.

Lemma crash_seq w cur j : WInv w cur -> WInv (step w (Crash j)) cur.
Proof.
  intros HW. cbn. destruct (nth_error (w_nodes w) j) as [nd|] eqn:Hn; [|exact HW].
  destruct HW as (HS & Hb & Hu & Hc). split; [exact HS|]. split; [exact Hb|]. split; cbn.
  - intros k nd' Hk Hnk. destruct (Nat.eq_dec j k) as [->|Hne].
    + rewrite (nth_error_set_nth_eq _ _ _ _ Hn) in Hnk. injection Hnk as <-.
      destruct (Hu _ _ Hk Hn) as (o & c & ->). exists o, true. reflexivity.
    + rewrite nth_error_set_nth_neq in Hnk by exact Hne. eauto.
  - intros nd' H. destruct (Nat.eq_dec j cur) as [->|Hne].
    + rewrite (nth_error_set_nth_eq _ _ _ _ Hn) in H. injection H as <-. destruct (Hc _ Hn) as [HN HL].
      split; [apply NodeInv_crash, HN | exact HL].
    + rewrite nth_error_set_nth_neq in H by exact Hne. now apply Hc.
Qed.

Lemma run_seq evs : forall w cur, WInv w cur -> mono_from cur evs -> WInv (fold_left step evs w) (last_from cur evs).
Proof.
  induction evs as [|e evs IH]; intros w cur HW Hm; cbn; [exact HW|].
  destruct e as [i ex pk|j]; cbn in Hm.
  - destruct Hm as [Hle Hm]. apply IH; [|exact Hm]. eapply step_seq; eauto.
  - apply IH; [|exact Hm]. now apply crash_seq.
Qed.

Lemma SInv_init : SInv init_store.
Proof. split; [intros d; exact I|]. split; [intros c R; discriminate | discriminate]. Qed.

Lemma WInv_init st ops : SInv st -> WInv (init_world st ops) 0.
Proof.
  intros HS. assert (forall j nd, nth_error (map init_node ops) j = Some nd -> untouched nd) as Hu.
  { intros j nd Hn. apply nth_error_In, in_map_iff in Hn as (o & <- & _). exists o, false. reflexivity. }
  split; [exact HS|]. split; [reflexivity|]. split; cbn.
  - intros j nd _. apply Hu.
  - intros nd Hn. apply untouched_inv. exact (Hu 0%nat nd Hn).
Qed.

Theorem seq_invariant ops evs :
  sequential evs -> WInv (run ops evs) (last_from 0 evs).
Proof. intros Hm. apply run_seq; [apply WInv_init, SInv_init | exact Hm]. Qed.

(* version_linkage for crash-sequential runs: at every point of every such run *)
Theorem version_linkage_seq ops evs d :
  sequential evs ->
  linked (aget (regc (w_st (run ops evs))) d) (aget (s_cfg (w_st (run ops evs))) d).
Proof. intros Hm. destruct (seq_invariant ops evs Hm) as ((HL & _) & _). apply HL. Qed.

(* the roll-back never adopts a config document against an in-flight previous version *)
Theorem no_bad_adopt_seq ops evs : sequential evs -> w_bad (run ops evs) = false.
Proof. intros Hm. destruct (seq_invariant ops evs Hm) as (_ & Hb & _). exact Hb. Qed.

Theorem registry_ownership_seq ops evs R c :
  sequential evs -> s_reg (w_st (run ops evs)) = Some (c, R) -> Own R.
Proof. intros Hm. apply registry_ownership_all. now apply no_bad_adopt_seq. Qed.

(* no entry is ever marked invalid *)
Theorem no_invalid_seq ops evs d e :
  sequential evs -> aget (regc (w_st (run ops evs))) d = Some e -> is_invalid (rv_ver (e_cur e)) = false.
Proof.
  intros Hm He. pose proof (version_linkage_seq ops evs d Hm) as HL. rewrite He in HL.
  destruct (aget (s_cfg (w_st (run ops evs))) d) as [[c cf]|]; cbn in HL.
  - destruct HL as [Hlive [H|[[_ H]|[H _]]]].
    + rewrite H. cbn. now apply live_not_invalid.
    + apply live_not_invalid. unfold live. lia.
    + now rewrite H.
  - destruct HL as [[H _]|[H _]]; [now apply live_not_invalid | now rewrite H].
Qed.

(* acked: when the node that ran last has acknowledged its change, the registry and the config document show it *)
Theorem acked_seq ops evs nd :
  sequential evs -> nth_error (w_nodes (run ops evs)) (last_from 0 evs) = Some nd ->
  n_pc nd = PDone ROk -> acked_state (n_op nd) (w_st (run ops evs)).
Proof.
  intros Hm Hn Hpc. destruct (seq_invariant ops evs Hm) as (_ & _ & _ & Hc).
  destruct (Hc _ Hn) as [[_ HN] _]. now rewrite Hpc in HN.
Qed.

(* ---------- no stuck state ---------- *)
Definition stuck (e : err) : bool := match e with ENewer | ECancelled | ERegMissing => true | _ => false end.

Lemma pdone_grd_return nd cs e : n_pc (grd_return nd cs) = PDone (RErr e) -> stuck e = true -> n_pc nd = PDone (RErr e).
Proof.
  unfold grd_return. destruct (n_op nd); repeat match goal with
    | |- context [match ?x with _ => _ end] => destruct x
    end; cbn; intros E S; try discriminate; try (injection E as <-; discriminate); exact E.
Qed.
Lemma pdone_grd_reload nd lc e : n_pc (grd_reload nd lc) = PDone (RErr e) -> stuck e = true -> False.
Proof. unfold grd_reload. destruct (5 <=? lc)%nat; cbn; intros E S; try discriminate. injection E as <-. discriminate. Qed.
Lemma pdone_load_reload nd la e : n_pc (load_reload nd la) = PDone (RErr e) -> stuck e = true -> False.
Proof. unfold load_reload. destruct (5 <=? la)%nat; cbn; intros E S; try discriminate. injection E as <-. discriminate. Qed.
Lemma pdone_main_retry nd e : n_pc (main_retry nd) = PDone (RErr e) -> stuck e = true -> False.
Proof. unfold main_retry. destruct (max_att (n_op nd) <=? n_att nd)%nat; cbn; intros E S; try discriminate. injection E as <-. discriminate. Qed.
Lemma pdone_load_iter nd la rest acc pick e : n_pc (load_iter nd la rest acc pick) = PDone (RErr e) -> False.
Proof.
  unfold load_iter. destruct rest; cbn; [discriminate|].
  destruct (aget (sn_reg (n_reg nd)) (choose pick (n :: rest))); cbn; discriminate.
Qed.

Lemma do_step_no_stuck st nd expired pick st' nd' b e :
  do_step st nd expired pick = (st', nd', b) ->
  SInv st -> NodeInv st nd ->
  n_pc nd' = PDone (RErr e) -> stuck e = true -> n_pc nd = PDone (RErr e).
Proof.
  unfold do_step. intros H HS [Hwf HN] Hd Hs.
  destruct (n_pc nd) eqn:Hpc;
    repeat match type of H with
    | context [match ?x with _ => _ end] => destruct x eqn:?
    | context [if ?x then _ else _] => destruct x eqn:?
    end; injection H as <- <- <-; cbn in Hd;
    try discriminate;
    try (injection Hd as <-; discriminate);
    try (exfalso; eapply pdone_grd_reload; eauto; fail);
    try (exfalso; eapply pdone_load_reload; eauto; fail);
    try (exfalso; eapply pdone_main_retry; eauto; fail);
    try (exfalso; eapply pdone_load_iter; eauto; fail);
    try (apply pdone_grd_return in Hd; [cbn in Hd; congruence | exact Hs]; fail);
    try (destruct c; cbn in Hd; first [exfalso; eapply pdone_grd_reload; eauto; fail | exfalso; eapply pdone_load_reload; eauto; fail
                                     | exfalso; eapply pdone_load_iter; eauto; fail
                                     | apply pdone_grd_return in Hd; [cbn in Hd; congruence | exact Hs]]; fail).
  all: try congruence.
  - (* ENewer: the config document is never ahead of the registry *)
    exfalso. destruct HN as (HF & (e0 & He & Hw & Hnd) & _).
    assert (aget (regc st) d = Some e0) as He' by (unfold regc; now rewrite <- HF).
    pose proof (proj1 HS d) as HL. rewrite He', Heqo in HL.
    assert (is_deleted (rv_ver (e_cur e0)) = false) as Hnd' by (now rewrite Hw).
    destruct (linked_live _ _ _ HL Hnd') as [_ Hcase]. apply N.ltb_lt in Heqb2. rewrite <- Hw in Heqb2.
    destruct Hcase as [H0|[_ H0]]; [rewrite H0 in Heqb2; cbn in Heqb2; lia | lia].
  - exfalso. destruct HN as (_ & (e0 & He & _) & _). discriminate.
  - exfalso. destruct HN as (_ & _ & _ & e0 & He & Hp & _). unfold rollback_db in Heqo0. rewrite He, Hp in Heqo0. discriminate.
  - exfalso. destruct HN as (_ & Hc & _). unfold cfg_touch in Heqo. rewrite Hc, N.eqb_refl in Heqo. discriminate.
  - exfalso. destruct (main_next_post _ _ _ Heqo) as [_ Hnd]. eapply Hnd. exact Hd.
  - exfalso. destruct HN as (_ & Hsh). unfold main_shape in Hsh. unfold main_next in Heqo.
    destruct (n_op nd); try destruct cs as [[? ?]|]; try discriminate; exact Hsh.
Qed.

(* no node of a crash-sequential run ever fails with one of the "stuck" errors: config document newer than the
   registry (nothing could ever repair that), roll-back cancelled, registry entry missing *)
Definition ok_res (nd : node) : Prop := forall e, n_pc nd = PDone (RErr e) -> stuck e = false.

Lemma run_seq_nostuck evs : forall w cur,
  WInv w cur -> mono_from cur evs -> Forall ok_res (w_nodes w) -> Forall ok_res (w_nodes (fold_left step evs w)).
Proof.
  induction evs as [|ev evs IH]; intros w cur HW Hm HF; cbn; [exact HF|].
  destruct ev as [i ex pk|j]; cbn in Hm.
  - destruct Hm as [Hle Hm]. apply (IH _ i); [eapply step_seq; eauto | exact Hm |].
    cbn. destruct (nth_error (w_nodes w) i) as [nd|] eqn:Hn; [|exact HF].
    destruct (n_crashed nd || is_done nd); [exact HF|].
    destruct (do_step (w_st w) nd ex pk) as [[st1 nd1] bad] eqn:D. cbn.
    apply Forall_set_nth; [exact HF|]. intros e Hd. destruct (stuck e) eqn:Hs; [|reflexivity].
    destruct (WInv_node _ _ _ _ HW Hle Hn) as [HN _]. destruct HW as (HS & _).
    pose proof (do_step_no_stuck _ _ _ _ _ _ _ _ D HS HN Hd Hs) as Hd0.
    rewrite (Forall_nth_error _ _ _ _ HF Hn e Hd0) in Hs. discriminate.
  - apply (IH _ cur); [now apply crash_seq | exact Hm |].
    cbn. destruct (nth_error (w_nodes w) j) as [nd|] eqn:Hn; [|exact HF]. cbn.
    apply Forall_set_nth; [exact HF|]. exact (Forall_nth_error _ _ _ _ HF Hn).
Qed.

Theorem no_stuck_seq ops evs i nd e :
  sequential evs -> nth_error (w_nodes (run ops evs)) i = Some nd -> n_pc nd = PDone (RErr e) -> stuck e = false.
Proof.
  intros Hm Hn Hd.
  assert (Forall ok_res (w_nodes (run ops evs))) as HF.
  { unfold run, run_from. eapply run_seq_nostuck; [apply WInv_init, SInv_init | exact Hm |].
    cbn. apply Forall_forall. intros nd0 Hin. apply in_map_iff in Hin as (o & <- & _). intros e0 E. destruct o; discriminate. }
  exact (Forall_nth_error _ _ _ _ HF Hn e Hd).
Qed.

(* ---------- frame: a node only changes its own database; a loader only one that is not steady ---------- *)
Definition same_db (st st' : store) (d : N) : Prop :=
  aget (regc st') d = aget (regc st) d /\
  option_map snd (aget (s_cfg st') d) = option_map snd (aget (s_cfg st) d).

Lemma same_db_refl st d : same_db st st d.
Proof. split; reflexivity. Qed.
Lemma same_db_trans st1 st2 st3 d : same_db st1 st2 d -> same_db st2 st3 d -> same_db st1 st3 d.
Proof. intros [A1 A2] [B1 B2]. split; congruence. Qed.

Lemma steady_same st st' d : same_db st st' d -> steady st d -> steady st' d.
Proof.
  intros [Hr Hc] (e & c & cf & He & Hcf & Hcur). rewrite Hcf in Hc. cbn in Hc.
  destruct (aget (s_cfg st') d) as [[c' cf']|] eqn:E; [|discriminate]. cbn in Hc. injection Hc as ->.
  exists e, c', cf. rewrite Hr. auto.
Qed.

Lemma same_db_cfg_other st st' d d' :
  s_reg st' = s_reg st -> (forall x, x <> d -> aget (s_cfg st') x = aget (s_cfg st) x) -> d' <> d ->
  same_db st st' d'.
Proof. intros Hr Ho Hn. split; [unfold regc, read_reg; now rewrite Hr | now rewrite Ho]. Qed.

Lemma same_db_write st nd st1 sn1 d' :
  SInv st -> WriteReady st nd -> write_reg st (n_reg nd) = Some (st1, sn1) ->
  steady st d' -> (is_load (n_op nd) = true \/ d' <> op_db (n_op nd)) -> same_db st st1 d'.
Proof.
  intros HS HW Wr Hst Hd'. destruct (write_ready _ _ HS HW) as (st2 & sn2 & Wr2 & _ & Hrd & Hcf & Hsn).
  rewrite Wr in Wr2. injection Wr2 as <- <-.
  destruct HW as (_ & _ & k & Hk & Hkey). split; [|now rewrite Hcf].
  unfold regc at 1. rewrite Hrd, Hsn. apply Hk. unfold wr_key in Hkey.
  destruct (is_load (n_op nd)).
  - intros ->. contradiction.
  - destruct Hd' as [?|Hd']; [discriminate|]. congruence.
Qed.

Lemma do_step_frame st nd expired pick st' nd' b d' :
  do_step st nd expired pick = (st', nd', b) ->
  SInv st -> NodeInv st nd ->
  steady st d' -> (is_load (n_op nd) = true \/ d' <> op_db (n_op nd)) ->
  same_db st st' d'.
Proof.
  unfold do_step. intros H HS [Hwf HN] Hst Hd'. unfold opwf in Hwf.
  assert (is_load (n_op nd) = false -> d' <> op_db (n_op nd)) as Hd.
  { intros E. destruct Hd' as [E'|?]; [congruence | assumption]. }
  destruct (n_pc nd) eqn:Hpc.
  - (* PGetReg *)
    cbn [n_reg set_reg sn_reg] in H.
    repeat match type of H with
    | context [match ?x with _ => _ end] => destruct x
    | context [if ?x then _ else _] => destruct x
    end; injection H as <- _ _; apply same_db_refl.
  - repeat match type of H with
    | context [match ?x with _ => _ end] => destruct x
    | context [if ?x then _ else _] => destruct x
    end; injection H as <- _ _; apply same_db_refl.
  - (* PWfcdDel *)
    destruct (cfg_delete st (op_db (n_op nd)) cas) as [st1|] eqn:D.
    + destruct (cfg_delete_spec _ _ _ _ D) as (_ & Hr & _ & _ & Ho).
      assert (same_db st st1 d') as Hs by (eapply same_db_cfg_other; eauto).
      destruct v; [destruct (aget (sn_reg (n_reg nd)) (op_db (n_op nd)))|]; injection H as <- _ _; exact Hs.
    + destruct v; injection H as <- _ _; apply same_db_refl.
  - (* PRbWriteW *)
    destruct HN as (HW & _).
    destruct (write_reg st (n_reg nd)) as [[st1 sn1]|] eqn:Wr; injection H as <- _ _; [|apply same_db_refl].
    eapply same_db_write; eauto.
  - (* PGdcRead *)
    repeat match type of H with
    | context [match ?x with _ => _ end] => destruct x
    | context [if ?x then _ else _] => destruct x
    end; injection H as <- _ _; apply same_db_refl.
  - (* PRbTouch *)
    destruct (cfg_touch st d cas) as [[st1 c1]|] eqn:T.
    + destruct (cfg_touch_spec _ _ _ _ _ T) as (cf0 & Hc0 & Hr & _ & Hn & Ho).
      assert (same_db st st1 d') as Hs.
      { split; [unfold regc, read_reg; now rewrite Hr|].
        destruct (N.eq_dec d' d) as [->|Hne]; [now rewrite Hn, Hc0 | now rewrite Ho]. }
      destruct (rollback_db (sn_reg (n_reg nd)) d cf) as [[R' bad]|]; injection H as <- _ _; exact Hs.
    + injection H as <- _ _. apply same_db_refl.
  - (* PRbWriteG *)
    destruct (write_reg st (n_reg nd)) as [[st1 sn1]|] eqn:Wr; injection H as <- _ _; [|apply same_db_refl].
    eapply same_db_write; eauto.
  - (* PMainWrite *)
    destruct HN as (HW & _).
    destruct (main_next (n_op nd) cs); [|injection H as <- _ _; apply same_db_refl].
    destruct (write_reg st (n_reg nd)) as [[st1 sn1]|] eqn:Wr; injection H as <- _ _; [|apply same_db_refl].
    eapply same_db_write; eauto.
  - (* PInsCfg *)
    destruct (n_op nd) eqn:Eo; try (injection H as <- _ _; apply same_db_refl).
    destruct (cfg_insert st _ _) as [st1|] eqn:Ins; injection H as <- _ _; [|apply same_db_refl].
    destruct (cfg_insert_spec _ _ _ _ Ins) as (_ & Hr & _ & _ & Ho).
    eapply same_db_cfg_other; eauto; apply Hd; reflexivity.
  - (* PUpdCfg *)
    destruct (cfg_write st _ cas cf) as [[st1 c1]|] eqn:Wc; injection H as <- _ _; [|apply same_db_refl].
    destruct (cfg_write_spec _ _ _ _ _ _ Wc) as (_ & Hr & _ & _ & Ho).
    eapply same_db_cfg_other; eauto.
  - (* PDelCfg *)
    destruct (cfg_delete st _ cas) as [st1|] eqn:D; injection H as <- _ _; [|apply same_db_refl].
    destruct (cfg_delete_spec _ _ _ _ D) as (_ & Hr & _ & _ & Ho).
    eapply same_db_cfg_other; eauto.
  - (* PFinGet *)
    cbn [n_reg set_reg sn_reg] in H.
    repeat match type of H with
    | context [match ?x with _ => _ end] => destruct x
    | context [if ?x then _ else _] => destruct x
    end; injection H as <- _ _; apply same_db_refl.
  - (* PFinWrite *)
    destruct HN as (HW & _).
    destruct (write_reg st (n_reg nd)) as [[st1 sn1]|] eqn:Wr.
    + injection H as <- _ _. eapply same_db_write; eauto.
    + destruct (5 <=? fa)%nat; injection H as <- _ _; apply same_db_refl.
  - injection H as <- _ _. apply same_db_refl.
  - injection H as <- _ _. apply same_db_refl.
  - injection H as <- _ _. apply same_db_refl.
Qed.

(* ---------- acked_not_lost for crash-sequential runs ---------- *)
Lemma mono_from_app c a b : mono_from c (a ++ b) -> mono_from c a /\ mono_from (last_from c a) b.
Proof.
  revert c. induction a as [|e a IH]; intros c H; cbn in *; [auto|].
  destruct e as [i ex pk|j]; [destruct H as [Hle H]; destruct (IH _ H); auto | apply IH, H].
Qed.

(* the operations of the nodes never change *)
Definition ops_fixed (ops : list opk) (w : world) : Prop :=
  forall i nd, nth_error (w_nodes w) i = Some nd -> nth_error ops i = Some (n_op nd).

Lemma ops_fixed_step ops w e : ops_fixed ops w -> ops_fixed ops (step w e).
Proof.
  intros HF. destruct e as [i ex pk|i]; cbn.
  - destruct (nth_error (w_nodes w) i) as [nd|] eqn:Hn; [|exact HF].
    destruct (n_crashed nd || is_done nd); [exact HF|].
    destruct (do_step (w_st w) nd ex pk) as [[st1 nd1] bad] eqn:D. cbn.
    intros j nd' Hj. cbn in Hj. destruct (Nat.eq_dec i j) as [->|Hne].
    + rewrite (nth_error_set_nth_eq _ _ _ _ Hn) in Hj. injection Hj as <-.
      rewrite (do_step_op _ _ _ _ _ _ _ D). now apply HF.
    + rewrite nth_error_set_nth_neq in Hj by exact Hne. now apply HF.
  - destruct (nth_error (w_nodes w) i) as [nd|] eqn:Hn; [|exact HF]. cbn.
    intros j nd' Hj. cbn in Hj. destruct (Nat.eq_dec i j) as [->|Hne].
    + rewrite (nth_error_set_nth_eq _ _ _ _ Hn) in Hj. injection Hj as <-. cbn. now apply HF.
    + rewrite nth_error_set_nth_neq in Hj by exact Hne. now apply HF.
Qed.

Lemma ops_fixed_init st ops : ops_fixed ops (init_world st ops).
Proof.
  intros i nd Hn. cbn in Hn. rewrite nth_error_map in Hn.
  destruct (nth_error ops i) as [o|]; [|discriminate]. injection Hn as <-. destruct o; reflexivity.
Qed.

Lemma ops_fixed_run ops evs : forall w, ops_fixed ops w -> ops_fixed ops (fold_left step evs w).
Proof. induction evs as [|e evs IH]; intros w H; cbn; [exact H | apply IH, ops_fixed_step, H]. Qed.

(* which nodes perform a storage call in a schedule *)
Definition steps_of (evs : list event) (i : nat) : Prop := exists ex pk, In (Step i ex pk) evs.

Lemma stable_run ops d evs : forall w cur st0,
  WInv w cur -> mono_from cur evs -> ops_fixed ops w ->
  steady st0 d -> same_db st0 (w_st w) d ->
  (forall i o, steps_of evs i -> nth_error ops i = Some o -> is_load o = true \/ d <> op_db o) ->
  same_db st0 (w_st (fold_left step evs w)) d.
Proof.
  induction evs as [|e evs IH]; intros w cur st0 HW Hm HF Hst Hsame Hops; cbn; [exact Hsame|].
  assert (forall i o, steps_of evs i -> nth_error ops i = Some o -> is_load o = true \/ d <> op_db o) as Hops'.
  { intros i o (ex & pk & Hin). apply Hops. exists ex, pk. now right. }
  destruct e as [i ex pk|j]; cbn in Hm.
  - destruct Hm as [Hle Hm].
    apply (IH (step w (Step i ex pk)) i st0); auto.
    + eapply step_seq; eauto.
    + now apply ops_fixed_step.
    + (* the step itself *)
      pose proof (WInv_advance _ _ _ HW Hle) as (HS & _ & _ & Hc). cbn.
      destruct (nth_error (w_nodes w) i) as [nd|] eqn:Hn; [|exact Hsame].
      destruct (n_crashed nd || is_done nd); [exact Hsame|].
      destruct (do_step (w_st w) nd ex pk) as [[st1 nd1] bad] eqn:D. cbn.
      eapply same_db_trans; [exact Hsame|].
      destruct (Hc _ eq_refl) as [HN _].
      eapply do_step_frame; eauto.
      * eapply steady_same; eauto.
      * apply (Hops i (n_op nd)); [exists ex, pk; now left | now apply HF].
  - apply (IH (step w (Crash j)) cur st0); auto.
    + now apply crash_seq.
    + now apply ops_fixed_step.
    + cbn. destruct (nth_error (w_nodes w) j); exact Hsame.
Qed.

(* acked_not_lost, crash-sequential runs: once a database is steady (in particular after an acknowledged create
   or update: acked_seq), every later node that does not target it -- other databases' creates / updates /
   deletes, completed or crashed at any point, and any GetDatabaseConfigs with its repairs -- leaves its registry
   entry and its config document exactly as they are *)
Theorem steady_stable_seq ops evs1 evs2 d :
  sequential (evs1 ++ evs2) ->
  steady (w_st (run ops evs1)) d ->
  (forall i o, steps_of evs2 i -> nth_error ops i = Some o -> is_load o = true \/ d <> op_db o) ->
  same_db (w_st (run ops evs1)) (w_st (run ops (evs1 ++ evs2))) d.
Proof.
  intros Hm Hst Hops. apply mono_from_app in Hm as [Hm1 Hm2].
  unfold run, run_from. rewrite fold_left_app.
  eapply stable_run; eauto.
  - apply run_seq; [apply WInv_init, SInv_init | exact Hm1].
  - apply ops_fixed_run, ops_fixed_init.
  - apply same_db_refl.
Qed.

Lemma acked_steady o st : acked_state o st -> is_load o = false -> (forall d, o <> ODelete d) -> steady st (op_db o).
Proof.
  destruct o as [d dig cols|d dig cols|d|]; cbn; intros H Hl Hd; try discriminate.
  - destruct H as (e & c & He & Hcur & Hc). exists e, c, (CF (1, dig) cols). auto.
  - destruct H as (e & c & g & He & Hcur & Hc). exists e, c, (CF (g, dig) cols). auto.
  - exfalso. eapply Hd. reflexivity.
Qed.
