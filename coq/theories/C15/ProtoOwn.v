(* C15: invariants that hold for ALL interleavings, crash points and timer expiries:
   - registry_ownership: no two databases hold a common collection (current or in-flight previous);
   - load_consistent: what a completed GetDatabaseConfigs returns matches the registry it read;
   - rejected_no_change (the part that needs no assumption on the store): a rejected operation never
     persisted a change of its own, and the store only changes at successful writes. *)
From SG Require Import Base.Prelude C15.ConfigProto.
Open Scope N_scope.

(* ---------- association maps ---------- *)
Section AMapLemmas.
  Context {V : Type}.
  Implicit Types m : amap V.

  Lemma aget_aset_eq m k v : aget (aset m k v) k = Some v.
  Proof.
    induction m as [|[k' v'] r IH]; cbn.
    - now rewrite N.eqb_refl.
    - destruct (k =? k') eqn:E1; cbn.
      + now rewrite N.eqb_refl.
      + destruct (k <? k') eqn:E2; cbn.
        * now rewrite N.eqb_refl.
        * rewrite N.eqb_sym, E1. exact IH.
  Qed.

  Lemma aget_aset_neq m k k' v : k <> k' -> aget (aset m k v) k' = aget m k'.
  Proof.
    intros Hn. induction m as [|[k0 v0] r IH]; cbn.
    - destruct (k =? k') eqn:E; [apply N.eqb_eq in E; contradiction | reflexivity].
    - destruct (k =? k0) eqn:E1; cbn.
      + apply N.eqb_eq in E1; subst k0.
        destruct (k =? k') eqn:E; [apply N.eqb_eq in E; contradiction | reflexivity].
      + destruct (k <? k0) eqn:E2; cbn.
        * destruct (k =? k') eqn:E; [apply N.eqb_eq in E; contradiction | reflexivity].
        * destruct (k0 =? k'); [reflexivity | exact IH].
  Qed.

  Lemma aget_adel_eq m k : aget (adel m k) k = None.
  Proof.
    induction m as [|[k0 v0] r IH]; cbn; [reflexivity|].
    destruct (k0 =? k) eqn:E; cbn; [exact IH | now rewrite E].
  Qed.

  Lemma aget_adel_neq m k k' : k <> k' -> aget (adel m k) k' = aget m k'.
  Proof.
    intros Hn. induction m as [|[k0 v0] r IH]; cbn; [reflexivity|].
    destruct (k0 =? k) eqn:E; cbn.
    - apply N.eqb_eq in E; subst k0.
      destruct (k =? k') eqn:E'; [apply N.eqb_eq in E'; contradiction | exact IH].
    - destruct (k0 =? k'); [reflexivity | exact IH].
  Qed.

  Lemma aget_in m k v : aget m k = Some v -> In (k, v) m.
  Proof.
    induction m as [|[k0 v0] r IH]; cbn; [discriminate|].
    destruct (k0 =? k) eqn:E.
    - apply N.eqb_eq in E; subst. intros [= ->]. now left.
    - intros H. right. now apply IH.
  Qed.
End AMapLemmas.

(* ---------- collections ---------- *)
Definition disjoint (a b : list N) : Prop := forall x, In x a -> In x b -> False.

Lemma mem_in x l : mem x l = true <-> In x l.
Proof.
  unfold mem. rewrite existsb_exists. split.
  - intros (y & Hy & E). apply N.eqb_eq in E. now subst.
  - intros H. exists x. split; [exact H | apply N.eqb_refl].
Qed.

Lemma inter_false a b : inter a b = false -> disjoint a b.
Proof.
  unfold inter. intros H x Ha Hb.
  assert (existsb (fun y => mem y b) a = true) as C.
  { apply existsb_exists. exists x. split; [exact Ha | now apply mem_in]. }
  congruence.
Qed.

Lemma in_eff x cs : In x cs -> In x (eff cs).
Proof. destruct cs; cbn; [intros [] | auto]. Qed.

Lemma held_sub r x : In x (held r) -> In x (rv_colls r).
Proof. unfold held. destruct (is_invalid (rv_ver r)); [intros [] | auto]. Qed.

Lemma disjoint_nil_l b : disjoint [] b.
Proof. intros x []. Qed.

Lemma disjoint_sym a b : disjoint a b -> disjoint b a.
Proof. intros H x Hb Ha. exact (H x Ha Hb). Qed.

Lemma disjoint_app_l a1 a2 b : disjoint a1 b -> disjoint a2 b -> disjoint (a1 ++ a2) b.
Proof. intros H1 H2 x Hx Hb. apply in_app_or in Hx as [Hx|Hx]; eauto. Qed.

Lemma disjoint_sub_l a a' b : (forall x, In x a' -> In x a) -> disjoint a b -> disjoint a' b.
Proof. intros Hs H x Hx Hb. exact (H x (Hs x Hx) Hb). Qed.

(* ---------- registry_ownership ---------- *)
Definition Own (R : registry) : Prop :=
  forall d1 d2 e1 e2, d1 <> d2 -> aget R d1 = Some e1 -> aget R d2 = Some e2 -> disjoint (owned e1) (owned e2).

Lemma Own_nil : Own [].
Proof. intros d1 d2 e1 e2 _ H. discriminate. Qed.

Lemma Own_aset R d e' :
  Own R ->
  (forall d2 e2, d2 <> d -> aget R d2 = Some e2 -> disjoint (owned e') (owned e2)) ->
  Own (aset R d e').
Proof.
  intros HO Hnew d1 d2 e1 e2 Hne H1 H2.
  destruct (N.eq_dec d1 d) as [->|N1]; destruct (N.eq_dec d2 d) as [->|N2].
  - contradiction.
  - rewrite aget_aset_eq in H1. injection H1 as <-. rewrite aget_aset_neq in H2 by congruence. eauto.
  - rewrite aget_aset_eq in H2. injection H2 as <-. rewrite aget_aset_neq in H1 by congruence.
    apply disjoint_sym. eauto.
  - rewrite aget_aset_neq in H1, H2 by congruence. eauto.
Qed.

Lemma Own_adel R d : Own R -> Own (adel R d).
Proof.
  intros HO d1 d2 e1 e2 Hne H1 H2.
  destruct (N.eq_dec d1 d) as [->|N1]; [now rewrite aget_adel_eq in H1|].
  destruct (N.eq_dec d2 d) as [->|N2]; [now rewrite aget_adel_eq in H2|].
  rewrite aget_adel_neq in H1, H2 by congruence. eauto.
Qed.

(* shrinking what an entry holds keeps the invariant *)
Lemma Own_aset_shrink R d e e' :
  Own R -> aget R d = Some e -> (forall x, In x (owned e') -> In x (owned e)) -> Own (aset R d e').
Proof.
  intros HO Hd Hs. apply Own_aset; [exact HO|].
  intros d2 e2 Hne H2. eapply disjoint_sub_l; [exact Hs|]. apply (HO d d2 e e2); auto.
Qed.

Lemma existsb_false_in {A} (f : A -> bool) l x : existsb f l = false -> In x l -> f x = false.
Proof.
  intros H Hin. destruct (f x) eqn:E; [|reflexivity].
  assert (existsb f l = true) by (apply existsb_exists; eauto). congruence.
Qed.

Lemma cur_conflicts_false R d cs d2 e2 :
  cur_conflicts R d cs = false -> d2 <> d -> aget R d2 = Some e2 -> disjoint (eff cs) (rv_colls (e_cur e2)).
Proof.
  intros H Hne H2. apply aget_in in H2.
  pose proof (existsb_false_in _ _ _ H H2) as E. cbn in E.
  destruct (d2 =? d) eqn:Ed; [apply N.eqb_eq in Ed; contradiction|]. cbn in E.
  apply inter_false in E. intros x Hx Hc. exact (E x Hx (in_eff _ _ Hc)).
Qed.

Lemma prev_conflicts_false R d cs d2 e2 p :
  prev_conflicts R d cs = false -> d2 <> d -> aget R d2 = Some e2 -> e_prev e2 = Some p ->
  disjoint (eff cs) (rv_colls p).
Proof.
  intros H Hne H2 Hp. apply aget_in in H2.
  pose proof (existsb_false_in _ _ _ H H2) as E. cbn in E. rewrite Hp in E.
  destruct (d2 =? d) eqn:Ed; [apply N.eqb_eq in Ed; contradiction|]. cbn in E.
  apply inter_false in E. intros x Hx Hc. exact (E x Hx (in_eff _ _ Hc)).
Qed.

Lemma owned_conflicts_false R d e' d2 e2 :
  owned_conflicts R d e' = false -> d2 <> d -> aget R d2 = Some e2 -> disjoint (owned e') (owned e2).
Proof.
  intros H Hne H2. apply aget_in in H2.
  pose proof (existsb_false_in _ _ _ H H2) as E. cbn in E.
  destruct (d2 =? d) eqn:Ed; [apply N.eqb_eq in Ed; contradiction|]. cbn in E.
  now apply inter_false.
Qed.

Lemma disjoint_eff_owned cs e2 :
  disjoint (eff cs) (rv_colls (e_cur e2)) ->
  (forall p, e_prev e2 = Some p -> disjoint (eff cs) (rv_colls p)) ->
  disjoint (eff cs) (owned e2).
Proof.
  intros Hc Hp x Hx Ho. unfold owned in Ho. apply in_app_or in Ho as [Ho|Ho].
  - exact (Hc x Hx (held_sub _ _ Ho)).
  - destruct (e_prev e2) as [p|]; [|destruct Ho]. exact (Hp p eq_refl x Hx (held_sub _ _ Ho)).
Qed.

Lemma upsert_Own R d v cs R' : Own R -> upsert R d v cs = Some R' -> Own R'.
Proof.
  unfold upsert. intros HO H.
  destruct (cur_conflicts R d cs || prev_conflicts R d cs) eqn:C; [discriminate|].
  injection H as <-. apply orb_false_iff in C as [C1 C2].
  apply Own_aset; [exact HO|]. intros d2 e2 Hne H2.
  assert (disjoint (eff cs) (owned e2)) as Hnew.
  { apply disjoint_eff_owned.
    - eapply cur_conflicts_false; eauto.
    - intros p Hp. eapply prev_conflicts_false; eauto. }
  unfold owned at 1. cbn [e_cur e_prev]. apply disjoint_app_l.
  - eapply disjoint_sub_l; [|exact Hnew]. intros x Hx. apply held_sub in Hx. exact Hx.
  - destruct (aget R d) as [eo|] eqn:Ho; cbn; [|apply disjoint_nil_l].
    eapply disjoint_sub_l; [|eapply (HO d d2 eo e2); eauto].
    intros x Hx. unfold owned. apply in_or_app. now left.
Qed.

Lemma delete_db_Own R d R' : Own R -> delete_db R d = Some R' -> Own R'.
Proof.
  unfold delete_db. intros HO H. destruct (aget R d) as [e|] eqn:Hd; [|discriminate].
  injection H as <-. eapply Own_aset_shrink; eauto.
  unfold owned, held. cbn. intros x Hx.
  destruct (is_invalid (rv_ver (e_cur e))); destruct Hx.
Qed.

Lemma remove_prev_Own R d v R' : Own R -> remove_prev R d v = Some R' -> Own R'.
Proof.
  unfold remove_prev. intros HO H. destruct (aget R d) as [e|] eqn:Hd; [|discriminate].
  destruct (e_prev e) as [p|] eqn:Hp; [|discriminate].
  destruct (ver_eqb (rv_ver p) v); [|discriminate]. injection H as <-.
  eapply Own_aset_shrink; eauto. unfold owned. cbn. intros x Hx.
  rewrite app_nil_r in Hx. apply in_or_app. now left.
Qed.

Lemma held_invalid cs : held (RV v_invalid cs) = [].
Proof. reflexivity. Qed.

Lemma rollback_db_Own R d cf R' : Own R -> rollback_db R d cf = Some (R', false) -> Own R'.
Proof.
  unfold rollback_db. intros HO H. destruct (aget R d) as [e|] eqn:Hd; [|discriminate].
  destruct (e_prev e) as [p|] eqn:Hp.
  - injection H as <-. eapply Own_aset_shrink; eauto. unfold owned. cbn. rewrite Hp.
    intros x Hx. rewrite app_nil_r in Hx. apply in_or_app. now right.
  - destruct (cur_conflicts R d (c_colls cf)).
    + injection H as <-. apply Own_aset; [exact HO|]. intros d2 e2 _ _.
      unfold owned. cbn [e_cur e_prev]. rewrite held_invalid. cbn. apply disjoint_nil_l.
    + injection H as <- Hb. apply Own_aset; [exact HO|]. intros d2 e2 Hne H2.
      eapply owned_conflicts_false; eauto.
Qed.

(* ---------- the system invariant ---------- *)
Definition store_own (st : store) : Prop := match s_reg st with Some (_, R) => Own R | None => True end.
Definition node_own (nd : node) : Prop := Own (sn_reg (n_reg nd)).

Lemma read_reg_own st : store_own st -> Own (sn_reg (read_reg st)).
Proof. unfold store_own, read_reg. destruct (s_reg st) as [[c R]|]; cbn; [auto | intros _; apply Own_nil]. Qed.

Lemma write_reg_own st sn st' sn' :
  write_reg st sn = Some (st', sn') -> Own (sn_reg sn) -> store_own st' /\ sn_reg sn' = sn_reg sn.
Proof.
  unfold write_reg. intros H HO.
  match type of H with (if ?c then _ else _) = _ => destruct c end; [|discriminate].
  injection H as <- <-. split; [exact HO | reflexivity].
Qed.

Lemma cfg_insert_reg st d cf st' : cfg_insert st d cf = Some st' -> s_reg st' = s_reg st.
Proof. unfold cfg_insert. destruct (aget (s_cfg st) d); [discriminate|]. now intros [= <-]. Qed.
Lemma cfg_write_reg st d c cf st' c' : cfg_write st d c cf = Some (st', c') -> s_reg st' = s_reg st.
Proof. unfold cfg_write. destruct (aget (s_cfg st) d) as [[c0 ?]|]; [|discriminate]. destruct (c0 =? c); [|discriminate]. now intros [= <- _]. Qed.
Lemma cfg_touch_reg st d c st' c' : cfg_touch st d c = Some (st', c') -> s_reg st' = s_reg st.
Proof. unfold cfg_touch. destruct (aget (s_cfg st) d) as [[c0 ?]|]; [|discriminate]. destruct (c0 =? c); [|discriminate]. now intros [= <- _]. Qed.
Lemma cfg_delete_reg st d c st' : cfg_delete st d c = Some st' -> s_reg st' = s_reg st.
Proof. unfold cfg_delete. destruct (aget (s_cfg st) d) as [[c0 ?]|]; [|discriminate]. destruct (c0 =? c); [|discriminate]. now intros [= <-]. Qed.

Lemma store_own_reg st st' : s_reg st' = s_reg st -> store_own st -> store_own st'.
Proof. unfold store_own. now intros ->. Qed.

Lemma node_own_set_pc nd p : node_own nd -> node_own (set_pc nd p).
Proof. exact (fun H => H). Qed.
Lemma node_own_finish nd r : node_own nd -> node_own (finish nd r).
Proof. exact (fun H => H). Qed.
Lemma node_own_set_content nd R : Own R -> node_own (set_content nd R).
Proof. exact (fun H => H). Qed.
Lemma node_own_set_reg nd sn : Own (sn_reg sn) -> node_own (set_reg nd sn).
Proof. exact (fun H => H). Qed.

Lemma node_own_main_retry nd : node_own nd -> node_own (main_retry nd).
Proof. unfold main_retry. destruct (max_att (n_op nd) <=? n_att nd)%nat; exact (fun H => H). Qed.
Lemma node_own_grd_reload nd lc : node_own nd -> node_own (grd_reload nd lc).
Proof. unfold grd_reload. destruct (5 <=? lc)%nat; exact (fun H => H). Qed.
Lemma node_own_load_reload nd la : node_own nd -> node_own (load_reload nd la).
Proof. unfold load_reload. destruct (5 <=? la)%nat; exact (fun H => H). Qed.
Lemma node_own_load_iter nd la rest acc pick : node_own nd -> node_own (load_iter nd la rest acc pick).
Proof.
  unfold load_iter. destruct rest; [exact (fun H => H)|].
  destruct (aget (sn_reg (n_reg nd)) (choose pick (n :: rest))); exact (fun H => H).
Qed.
Lemma node_own_gdc_reload nd c : node_own nd -> node_own (gdc_reload nd c).
Proof. destruct c; cbn; [apply node_own_grd_reload | apply node_own_load_reload]. Qed.

Lemma node_own_grd_return nd cs : node_own nd -> node_own (grd_return nd cs).
Proof.
  unfold grd_return, node_own. intros HO.
  destruct (n_op nd) as [d dig cols|d dig cols|d|].
  - destruct cs; [exact HO|]. destruct (upsert _ _ _ _) eqn:U; [|exact HO]. cbn. eapply upsert_Own; eauto.
  - destruct cs as [[cas cf]|]; [|exact HO]. destruct (upsert _ _ _ _) eqn:U; [|exact HO]. cbn. eapply upsert_Own; eauto.
  - destruct cs; [|exact HO]. destruct (delete_db _ _) eqn:U; [|exact HO]. cbn. eapply delete_db_Own; eauto.
  - exact HO.
Qed.
Lemma node_own_gdc_ok nd c d cs pick : node_own nd -> node_own (gdc_ok nd c d cs pick).
Proof. destruct c; cbn; [apply node_own_grd_return | apply node_own_load_iter]. Qed.

#[local] Hint Resolve node_own_set_pc node_own_finish node_own_main_retry node_own_grd_reload node_own_load_reload
  node_own_load_iter node_own_gdc_reload node_own_grd_return node_own_gdc_ok : own.

Ltac own_split := match goal with |- _ /\ _ => split end.

(* one step of one node keeps: the stored registry and the node's in-memory registry satisfy Own *)
Lemma do_step_own st nd expired pick st' nd' :
  do_step st nd expired pick = (st', nd', false) ->
  store_own st -> node_own nd -> store_own st' /\ node_own nd'.
Proof.
  unfold do_step. intros H HS HN.
  destruct (n_pc nd) eqn:Hpc.
  - (* PGetReg *)
    pose proof (read_reg_own _ HS) as HR.
    assert (node_own (set_reg nd (read_reg st))) as HN1 by exact HR.
    cbn [n_reg set_reg sn_reg] in H.
    destruct (aget (sn_reg (read_reg st)) (op_db (n_op nd))) as [e|].
    + destruct (negb (is_deleted (rv_ver (e_cur e)))).
      * injection H as <- <-. split; auto.
      * destruct (e_prev e); injection H as <- <-; split; auto with own.
    + injection H as <- <-. split; auto.
  - (* PWfcdRead *)
    destruct (aget (s_cfg st) (op_db (n_op nd))) as [[cas cf]|].
    + destruct (match v with Some pv => negb (ver_eqb pv (c_ver cf)) | None => false end).
      * injection H as <- <-. split; auto with own.
      * destruct expired; injection H as <- <-; split; auto.
    + injection H as <- <-. split; auto with own.
  - (* PWfcdDel *)
    destruct (cfg_delete st (op_db (n_op nd)) cas) as [st1|] eqn:D.
    + pose proof (store_own_reg _ _ (cfg_delete_reg _ _ _ _ D) HS) as HS1.
      destruct v.
      * destruct (aget (sn_reg (n_reg nd)) (op_db (n_op nd))); injection H as <- <-; split; auto with own.
        apply node_own_set_pc, node_own_set_content, Own_adel, HN.
      * injection H as <- <-. split; auto with own.
    + destruct v; injection H as <- <-; split; auto with own.
  - (* PRbWriteW *)
    destruct (write_reg st (n_reg nd)) as [[st1 sn1]|] eqn:Wr.
    + destruct (write_reg_own _ _ _ _ Wr HN) as [HS1 E]. injection H as <- <-. split; [exact HS1|].
      apply node_own_grd_return. unfold node_own. cbn. rewrite E. exact HN.
    + injection H as <- <-. split; auto with own.
  - (* PGdcRead *)
    destruct (aget (s_cfg st) d) as [[cas cf]|].
    + destruct (is_invalid want); [injection H as <- <-; split; auto with own|].
      destruct (ver_eqb (c_ver cf) want); [injection H as <- <-; split; auto with own|].
      destruct (gen want <? gen (c_ver cf)); [injection H as <- <-; split; auto with own|].
      destruct expired; injection H as <- <-; split; auto with own.
    + destruct expired; [|injection H as <- <-; split; auto].
      destruct (aget (sn_reg (n_reg nd)) d); injection H as <- <-; split; auto with own.
      apply node_own_set_pc, node_own_set_content, Own_adel, HN.
  - (* PRbTouch *)
    destruct (cfg_touch st d cas) as [[st1 c1]|] eqn:T.
    + pose proof (store_own_reg _ _ (cfg_touch_reg _ _ _ _ _ T) HS) as HS1.
      destruct (rollback_db (sn_reg (n_reg nd)) d cf) as [[R' bad]|] eqn:Rb.
      * injection H as <- <- ->. split; [exact HS1|].
        apply node_own_set_pc, node_own_set_content. eapply rollback_db_Own; eauto.
      * injection H as <- <-. split; auto with own.
    + injection H as <- <-. split; auto with own.
  - (* PRbWriteG *)
    destruct (write_reg st (n_reg nd)) as [[st1 sn1]|] eqn:Wr.
    + destruct (write_reg_own _ _ _ _ Wr HN) as [HS1 E]. injection H as <- <-. split; [exact HS1|].
      apply node_own_gdc_reload. unfold node_own. cbn. rewrite E. exact HN.
    + injection H as <- <-. split; auto with own.
  - (* PMainWrite *)
    destruct (main_next (n_op nd) cs) as [p|]; [|injection H as <- <-; split; auto with own].
    destruct (write_reg st (n_reg nd)) as [[st1 sn1]|] eqn:Wr.
    + destruct (write_reg_own _ _ _ _ Wr HN) as [HS1 E]. injection H as <- <-. split; [exact HS1|].
      unfold node_own. cbn. rewrite E. exact HN.
    + injection H as <- <-. split; auto with own.
  - (* PInsCfg *)
    destruct (n_op nd); try (injection H as <- <-; split; auto; fail).
    destruct (cfg_insert st _ _) as [st1|] eqn:I; injection H as <- <-; split; auto with own.
    eapply store_own_reg; [eapply cfg_insert_reg; eauto | exact HS].
  - (* PUpdCfg *)
    destruct (cfg_write st _ cas cf) as [[st1 c1]|] eqn:Wc; injection H as <- <-; split; auto with own.
    eapply store_own_reg; [eapply cfg_write_reg; eauto | exact HS].
  - (* PDelCfg *)
    destruct (cfg_delete st _ cas) as [st1|] eqn:D; injection H as <- <-; split; auto with own.
    eapply store_own_reg; [eapply cfg_delete_reg; eauto | exact HS].
  - (* PFinGet *)
    pose proof (read_reg_own _ HS) as HR. cbn [n_reg set_reg sn_reg] in H.
    destruct (n_op nd).
    1,2,4: destruct (remove_prev (sn_reg (read_reg st)) _ prevv) eqn:Rp; injection H as <- <-; split; auto;
      apply node_own_set_pc, node_own_set_content; eapply remove_prev_Own; eauto.
    destruct (aget (sn_reg (read_reg st)) _) as [e0|]; [destruct (negb (is_deleted (rv_ver (e_cur e0))))|];
      injection H as <- <-; split; auto.
    apply node_own_set_pc, node_own_set_content, Own_adel, HR.
  - (* PFinWrite *)
    destruct (write_reg st (n_reg nd)) as [[st1 sn1]|] eqn:Wr.
    + destruct (write_reg_own _ _ _ _ Wr HN) as [HS1 E]. injection H as <- <-. split; [exact HS1|].
      unfold node_own. cbn. rewrite E. exact HN.
    + destruct (5 <=? fa)%nat; injection H as <- <-; split; auto with own.
  - (* PLoadGet *)
    injection H as <- <-. split; [exact HS|]. exact (read_reg_own _ HS).
  - (* PLoadLegacy *)
    injection H as <- <-. split; auto with own.
  - injection H as <- <-. split; auto.
Qed.

Definition InvOwn (w : world) : Prop :=
  w_bad w = false -> store_own (w_st w) /\ Forall node_own (w_nodes w).

Lemma Forall_set_nth {A} (P : A -> Prop) i x l : Forall P l -> P x -> Forall P (set_nth i x l).
Proof.
  intros HF Hx. revert i. induction HF as [|y l Hy HF IH]; intros [|i]; cbn; constructor; auto.
Qed.

Lemma Forall_nth_error {A} (P : A -> Prop) l i x : Forall P l -> nth_error l i = Some x -> P x.
Proof. intros HF H. rewrite Forall_forall in HF. apply HF. eapply nth_error_In; eauto. Qed.

Lemma step_own w e : InvOwn w -> InvOwn (step w e).
Proof.
  intros HI. destruct e as [i expired pick|i]; cbn.
  - destruct (nth_error (w_nodes w) i) as [nd|] eqn:Hn; [|exact HI].
    destruct (n_crashed nd || is_done nd); [exact HI|].
    destruct (do_step (w_st w) nd expired pick) as [[st' nd'] bad] eqn:D.
    intros Hb. cbn in Hb. apply orb_false_iff in Hb as [Hb1 ->].
    destruct (HI Hb1) as [HS HF]. cbn.
    destruct (do_step_own _ _ _ _ _ _ D HS (Forall_nth_error _ _ _ _ HF Hn)) as [HS' HN'].
    split; [exact HS' | now apply Forall_set_nth].
  - destruct (nth_error (w_nodes w) i) as [nd|] eqn:Hn; [|exact HI].
    intros Hb. destruct (HI Hb) as [HS HF]. split; [exact HS|].
    apply Forall_set_nth; [exact HF|]. exact (Forall_nth_error _ _ _ _ HF Hn).
Qed.

Lemma run_from_own st ops evs : store_own st -> InvOwn (run_from st ops evs).
Proof.
  intros HS. unfold run_from.
  assert (InvOwn (init_world st ops)) as H0.
  { intros _. split; [exact HS|]. cbn. apply Forall_forall. intros nd Hin. apply in_map_iff in Hin as (o & <- & _).
    unfold node_own. cbn. apply Own_nil. }
  revert H0. generalize (init_world st ops). induction evs as [|e evs IH]; intros w Hw; cbn; [exact Hw|].
  apply IH, step_own, Hw.
Qed.

(* registry_ownership, all interleavings / crash points / timers: unless a roll-back adopted a config document
   whose collections another database's in-flight previous version holds (ghost flag w_bad), no two databases
   of the stored registry hold a common collection *)
Theorem registry_ownership_all ops evs :
  w_bad (run ops evs) = false ->
  forall R c, s_reg (w_st (run ops evs)) = Some (c, R) -> Own R.
Proof.
  intros Hb R c HR. destruct (run_from_own init_store ops evs I Hb) as [HS _].
  unfold store_own in HS. unfold run in HR. now rewrite HR in HS.
Qed.

(* what Own says about the CURRENT collection sets *)
Lemma Own_current R d1 d2 e1 e2 x :
  Own R -> d1 <> d2 -> aget R d1 = Some e1 -> aget R d2 = Some e2 ->
  is_invalid (rv_ver (e_cur e1)) = false -> is_invalid (rv_ver (e_cur e2)) = false ->
  In x (rv_colls (e_cur e1)) -> In x (rv_colls (e_cur e2)) -> False.
Proof.
  intros HO Hne H1 H2 I1 I2 X1 X2. apply (HO d1 d2 e1 e2 Hne H1 H2 x); unfold owned, held; apply in_or_app; left.
  - now rewrite I1.
  - now rewrite I2.
Qed.
