(* C15: rejected_no_change on a clean store.  When every database is in the steady state (registry entry and
   config document agree, no in-flight marker, no left-over), an operation that runs alone and ends with a
   rejection (not found / already exists / 409) performed no write at all: the store is exactly as before. *)
From SG Require Import Base.Prelude C15.ConfigProto C15.ProtoOwn C15.ProtoLocal C15.ProtoSeq.
Open Scope N_scope.

Definition clean (st : store) : Prop :=
  forall d, match aget (regc st) d, aget (s_cfg st) d with
            | None, None => True
            | Some e, Some (_, c) => e = RE (RV (c_ver c) (eff (c_colls c))) None /\ live (c_ver c)
            | _, _ => False
            end.

Definition quiet_pc (nd : node) : Prop :=
  match n_pc nd with
  | PGetReg _ | PWfcdRead _ None | PMainWrite _ | PDone _ | PGdcRead (CGrd _) _ _ => True
  | _ => False
  end.

Definition CInv (st0 st : store) (nd : node) : Prop := n_own nd = false -> st = st0 /\ quiet_pc nd.

Lemma do_step_own_mono st nd ex pk st' nd' b :
  do_step st nd ex pk = (st', nd', b) -> n_own nd' = false -> n_own nd = false.
Proof.
  unfold do_step. intros H.
  destruct (n_pc nd);
    repeat match type of H with
    | context [match ?x with _ => _ end] => destruct x eqn:?
    | context [if ?x then _ else _] => destruct x eqn:?
    end; injection H as <- <- <-;
    rewrite ?n_own_grd_return, ?n_own_gdc_ok, ?n_own_gdc_reload, ?n_own_grd_reload, ?n_own_load_reload,
            ?n_own_main_retry, ?n_own_load_iter; cbn;
    rewrite ?n_own_grd_return, ?n_own_gdc_ok, ?n_own_gdc_reload, ?n_own_grd_reload, ?n_own_load_reload,
            ?n_own_main_retry, ?n_own_load_iter; auto; try discriminate; try congruence.
Qed.

Lemma quiet_grd_return nd cs : is_load (n_op nd) = false -> quiet_pc (grd_return nd cs).
Proof.
  intros Hl. unfold grd_return. destruct (n_op nd); try discriminate;
    repeat match goal with
    | |- context [match ?x with _ => _ end] => destruct x
    end; exact I.
Qed.

Lemma do_step_clean st0 st nd ex pk st' nd' b :
  SInv st0 -> clean st0 -> is_load (n_op nd) = false ->
  NodeInv st nd -> CInv st0 st nd ->
  do_step st nd ex pk = (st', nd', b) -> CInv st0 st' nd'.
Proof.
  intros HS0 Hcl Hl [Hwf HN] HC D Hown'.
  pose proof (do_step_own_mono _ _ _ _ _ _ _ D Hown') as Hown.
  destruct (HC Hown) as [-> Hq]. unfold quiet_pc in Hq. unfold do_step in D.
  destruct (n_pc nd) eqn:Hpc; try (destruct Hq; fail).
  - (* PGetReg *)
    cbn [n_reg set_reg sn_reg] in D. fold (regc st0) in D.
    pose proof (Hcl (op_db (n_op nd))) as Hc.
    destruct (aget (regc st0) (op_db (n_op nd))) as [e|] eqn:He.
    + destruct (aget (s_cfg st0) (op_db (n_op nd))) as [[c cf]|]; [|destruct Hc]. destruct Hc as [-> Hlive].
      cbn in D. rewrite (live_not_deleted _ Hlive) in D. cbn in D. injection D as <- <- <-. split; [reflexivity | exact I].
    + injection D as <- <- <-. split; [reflexivity | exact I].
  - (* PWfcdRead *)
    destruct v; [destruct Hq|]. destruct HN as (HF & He).
    pose proof (Hcl (op_db (n_op nd))) as Hc. unfold regc in Hc. rewrite <- HF, He in Hc.
    destruct (aget (s_cfg st0) (op_db (n_op nd))) as [[c cf]|]; [destruct Hc|].
    injection D as <- <- <-. split; [reflexivity | now apply quiet_grd_return].
  - (* PGdcRead *)
    destruct c as [lc|]; [|destruct Hq]. destruct HN as (HF & (e & He & Hw & Hnd) & Hdd).
    pose proof (Hcl d) as Hc. unfold regc in Hc. rewrite <- HF, He in Hc.
    destruct (aget (s_cfg st0) d) as [[c cf]|]; [|destruct Hc]. destruct Hc as [-> Hlive]. cbn in Hw. subst want.
    rewrite (live_not_invalid _ Hlive) in D.
    assert (ver_eqb (c_ver cf) (c_ver cf) = true) as Ev by (now apply ver_eqb_eq). rewrite Ev in D.
    injection D as <- <- <-. split; [reflexivity | cbn; now apply quiet_grd_return].
  - (* PMainWrite *)
    destruct (main_next (n_op nd) cs) as [p|]; [|injection D as <- <- <-; split; [reflexivity | exact I]].
    destruct (write_reg st0 (n_reg nd)) as [[st1 sn1]|]; injection D as <- <- <-.
    + cbn in Hown'. discriminate.
    + split; [reflexivity|]. unfold main_retry. destruct (max_att (n_op nd) <=? n_att nd)%nat; exact I.
  - (* PDone *)
    injection D as <- <- <-. split; [reflexivity|]. unfold quiet_pc. now rewrite Hpc.
Qed.

(* a world with a single node *)
Definition P1 (st0 st : store) (nd : node) : Prop :=
  SInv st /\ NodeInv st nd /\ load_inv nd /\ own_inv nd /\ CInv st0 st nd /\ is_load (n_op nd) = false.

Lemma step_single st0 w nd e :
  SInv st0 -> clean st0 -> w_nodes w = [nd] -> P1 st0 (w_st w) nd ->
  exists nd', w_nodes (step w e) = [nd'] /\ P1 st0 (w_st (step w e)) nd'.
Proof.
  intros HS0 Hcl Hw HP. pose proof HP as (HS & HN & HL & HO & HC & Hl).
  assert (exists nd', w_nodes w = [nd'] /\ P1 st0 (w_st w) nd') as Hsame by (exists nd; auto).
  destruct e as [i ex pk|i]; cbn; rewrite Hw.
  - destruct i as [|i]; cbn; [|destruct i; cbn; exact Hsame].
    destruct (n_crashed nd || is_done nd); [exact Hsame|].
    destruct (do_step (w_st w) nd ex pk) as [[st1 nd1] bad] eqn:D. cbn. exists nd1. split; [reflexivity|].
    destruct (do_step_seq _ _ _ _ _ _ _ D HS HN HL) as (HS1 & HN1 & _).
    split; [exact HS1|]. split; [exact HN1|]. split; [eapply do_step_load_inv; eauto|].
    split; [eapply do_step_own_inv; eauto|]. split; [eapply do_step_clean; eauto|].
    now rewrite (do_step_op _ _ _ _ _ _ _ D).
  - destruct i as [|i]; cbn; [|destruct i; cbn; exact Hsame].
    eexists. split; [reflexivity|]. exact HP.
Qed.

Theorem rejected_no_change_clean st o evs nd e :
  SInv st -> clean st -> is_load o = false ->
  w_nodes (run_from st [o] evs) = [nd] -> n_pc nd = PDone (RErr e) -> rejection e = true ->
  w_st (run_from st [o] evs) = st.
Proof.
  intros HS Hcl Hl. unfold run_from.
  assert (exists nd0, w_nodes (init_world st [o]) = [nd0] /\ P1 st (w_st (init_world st [o])) nd0) as H0.
  { exists (init_node o). split; [reflexivity|].
    assert (untouched (init_node o)) as Hu by (exists o, false; reflexivity).
    destruct (untouched_inv st _ Hu) as [HN HL]. cbn.
    split; [exact HS|]. split; [exact HN|]. split; [exact HL|].
    split; [split; [reflexivity | destruct o; discriminate]|].
    split; [|exact Hl]. intros _. split; [reflexivity|]. destruct o; try discriminate; exact I. }
  revert H0. generalize (init_world st [o]). revert nd.
  induction evs as [|ev evs IH]; intros nd w (nd0 & Hw & HP) Hn Hpc Hr; cbn in *.
  - rewrite Hw in Hn. injection Hn as ->. destruct HP as (_ & _ & _ & HO & HC & _).
    destruct HO as [_ HO]. destruct (HC (HO _ Hpc Hr)) as [-> _]. reflexivity.
  - eapply IH; eauto. eapply step_single; eauto.
Qed.
