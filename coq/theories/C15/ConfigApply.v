(* C15: the node-local application of loaded configs -- rest/config.go fetchAndLoadConfigs (not the initial start-up)
   / _applyConfigs / _applyConfig / _findDuplicateCollections, rest/server_context.go _removeDatabase and the
   registration at the end of _getOrAddDatabaseFromConfig -- as a function from (running databases, loaded
   configs) to running databases.

   A running database is (cfgCas, version, collections); sc._collectionRegistry is derived from the running
   databases (fully qualified collection -> database).  The loaded configs are what GetDatabaseConfigs returned
   (with the CAS of each config document), in the (unspecified) iteration order of the Go map.  [still] lists the
   databases whose config document the re-check under the write lock (_fetchDatabaseFromBucket) still finds.
   Loading a database itself (_getOrAddDatabaseFromConfig) is assumed to succeed. *)
From SG Require Import Base.Prelude C15.ConfigProto.
Open Scope N_scope.

Record acfg := AC { a_cas : N; a_ver : ver; a_colls : list N }.
Definition running := amap acfg.

(* _findDuplicateCollections: a collection of the config is registered for a different database *)
Definition in_use (r : running) (d : N) (c : N) : bool :=
  existsb (fun de => negb (fst de =? d) && mem c (eff (a_colls (snd de)))) r.
Definition duplicates (r : running) (d : N) (cs : list N) : bool := existsb (in_use r d) (eff cs).

(* _applyConfig *)
Definition apply1 (r : running) (x : N * acfg) : running :=
  let d := fst x in
  let c := snd x in
  if duplicates r d (a_colls c) then r
  else match aget r d with
       | Some old => if a_cas c =? 0 then aset r d c
                     else if a_cas c <=? a_cas old then r
                     else aset r d c
       | None => aset r d c
       end.
Definition apply_all (r : running) (l : list (N * acfg)) : running := fold_left apply1 l r.

Definition has_key {V} (l : list (N * V)) (d : N) : bool := existsb (fun x => fst x =? d) l.

(* FetchConfigs: entries marked invalid are handed to handleInvalidDatabaseConfig and not loaded *)
Definition fetched_of (loaded : list (N * acfg)) : list (N * acfg) :=
  filter (fun x => negb (is_invalid (a_ver (snd x)))) loaded.

(* fetchAndLoadConfigs(isInitialStartup = false) *)
Definition fetch_and_load (r : running) (loaded : list (N * acfg)) (still : list N) : running :=
  let fetched := fetched_of loaded in
  let deleted := filter (fun d => negb (has_key fetched d)) (map fst r) in
  let changed := filter (fun x => match aget r (fst x) with
                                  | Some old => negb (a_cas (snd x) <=? a_cas old)
                                  | None => true
                                  end) fetched in
  let r1 := fold_left (fun acc d => if mem d still then acc else adel acc d) deleted r in
  apply_all r1 changed.
