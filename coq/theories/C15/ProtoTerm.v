(* C15: termination of GetDatabaseConfigs.  A loader whose waiting loops give up (the timer has expired at each of
   its reads) and that is the only node taking steps reaches a result within 5 * (number of registry entries + 4)
   of its own storage calls, from ANY store with a sorted registry (in particular any reachable one), whatever the
   other nodes did before and whatever iteration order the map ranges take. *)
From SG Require Import Base.Prelude C15.ConfigProto C15.ProtoOwn C15.ProtoLocal C15.ProtoSeq C15.ConfigApply C15.ApplyProofs C15.ProtoRace C15.ProtoRaceInv C15.ProtoRaceOther C15.ProtoRaceStep.
Open Scope N_scope.

Definition mu (nd : node) (n : nat) : nat :=
  match n_pc nd with
  | PLoadGet la => (5 - la) * (n + 4)
  | PLoadLegacy la => (5 - la) * (n + 4) + n + 3
  | PGdcRead (CLoad la rest _) _ _ => (5 - la) * (n + 4) + length rest + 3
  | PRbTouch (CLoad la _ _) _ _ _ => (5 - la) * (n + 4) + 2
  | PRbWriteG (CLoad la _ _) => (5 - la) * (n + 4) + 1
  | _ => 0
  end%nat.

Definition TInv (st : store) (nd : node) (n : nat) : Prop :=
  is_load (n_op nd) = true /\ opwf nd /\
  sorted_keys (regc st) /\ (length (regc st) <= n)%nat /\
  sorted_keys (sn_reg (n_reg nd)) /\ (length (sn_reg (n_reg nd)) <= n)%nat /\
  match n_pc nd with PLoadGet la => (la <= 4)%nat | _ => True end.

Lemma length_adel {V} (m : amap V) k : (length (adel m k) <= length m)%nat.
Proof. induction m as [|[k0 v0] r IH]; cbn; [lia|]. destruct (k0 =? k); cbn; lia. Qed.

Lemma length_aset_present {V} (m : amap V) k v v0 :
  sorted_keys m -> aget m k = Some v0 -> length (aset m k v) = length m.
Proof.
  induction m as [|[k0 w0] r IH]; cbn; intros HS Hg; [discriminate|]. destruct HS as [Hlt HS].
  destruct (k0 =? k) eqn:E.
  - apply N.eqb_eq in E. subst. now rewrite N.eqb_refl.
  - rewrite N.eqb_sym, E. pose proof (aget_in _ _ _ Hg) as Hin. specialize (Hlt _ _ Hin).
    destruct (k <? k0) eqn:L; [apply N.ltb_lt in L; lia|]. cbn. f_equal. now apply IH.
Qed.

Lemma filter_length_le' {A} (f : A -> bool) l : (length (filter f l) <= length l)%nat.
Proof. induction l as [|x l IH]; cbn; [lia|]. destruct (f x); cbn; lia. Qed.

Lemma live_keys_length R : (length (live_keys R) <= length R)%nat.
Proof. unfold live_keys. etransitivity; [apply filter_length_le'|]. now rewrite map_length. Qed.

Lemma remove1_length x l : In x l -> (length (remove1 x l) < length l)%nat.
Proof.
  unfold remove1. induction l as [|y l IH]; cbn; intros H; [destruct H|].
  destruct (y =? x) eqn:E; cbn.
  - pose proof (filter_length_le' (fun y0 => negb (y0 =? x)) l). lia.
  - destruct H as [->|H]; [now rewrite N.eqb_refl in E|]. specialize (IH H). lia.
Qed.

Lemma mu_load_iter nd la rest acc pk n :
  (mu (load_iter nd la rest acc pk) n < (5 - la) * (n + 4) + length rest + 3)%nat.
Proof.
  unfold load_iter. destruct rest as [|x r] eqn:Er; [cbn; lia|]. rewrite <- Er.
  assert (rest <> []) as Hne by (rewrite Er; discriminate).
  pose proof (remove1_length _ _ (choose_in pk rest Hne)) as Hl.
  destruct (aget (sn_reg (n_reg nd)) (choose pk rest)); unfold mu; cbn; lia.
Qed.

Lemma load_iter_pc nd la rest acc pk :
  match n_pc (load_iter nd la rest acc pk) with PLoadGet la0 => (la0 <= 4)%nat | _ => True end.
Proof. unfold load_iter. destruct rest; [exact I|]. destruct (aget (sn_reg (n_reg nd)) (choose pk (n :: rest))); exact I. Qed.
Lemma load_iter_crashed nd la rest acc pk : n_crashed (load_iter nd la rest acc pk) = n_crashed nd.
Proof. unfold load_iter. destruct rest; [reflexivity|]. destruct (aget (sn_reg (n_reg nd)) (choose pk (n :: rest))); reflexivity. Qed.

Lemma TInv_same_reg st nd nd' n :
  n_op nd' = n_op nd -> n_reg nd' = n_reg nd -> opwf nd' ->
  match n_pc nd' with PLoadGet la => (la <= 4)%nat | _ => True end ->
  TInv st nd n -> TInv st nd' n.
Proof. intros Eo Er Hw Hp (A & B & C & D & E & F & G). unfold TInv. rewrite Eo, Er. auto 10. Qed.

Lemma rollback_db_shape R d cf R' bad :
  sorted_keys R -> rollback_db R d cf = Some (R', bad) -> sorted_keys R' /\ length R' = length R.
Proof.
  unfold rollback_db. intros HS H. destruct (aget R d) as [e|] eqn:He; [|discriminate].
  destruct (e_prev e); [|destruct (cur_conflicts R d (c_colls cf))]; injection H as <- _;
    (split; [now apply sorted_aset | eapply length_aset_present; eauto]).
Qed.

Lemma solo_step st nd n pk st' nd' b :
  TInv st nd n -> n_crashed nd = false -> is_done nd = false ->
  do_step st nd true pk = (st', nd', b) ->
  TInv st' nd' n /\ n_crashed nd' = false /\ (mu nd' n < mu nd n)%nat.
Proof.
  intros HT Hal Hnd H. pose proof HT as (Hl & Hwf & HSs & HLs & HSn & HLn & Hp).
  unfold do_step in H. unfold opwf in Hwf.
  destruct (n_pc nd) eqn:Hpc; try (rewrite Hl in Hwf; discriminate).
  - (* PGdcRead *)
    destruct c as [lc|la rest acc]; [cbn in Hwf; congruence|].
    assert (forall cs, TInv st (gdc_ok nd (CLoad la rest acc) d cs pk) n /\
                       n_crashed (gdc_ok nd (CLoad la rest acc) d cs pk) = false /\
                       (mu (gdc_ok nd (CLoad la rest acc) d cs pk) n < mu nd n)%nat) as Hok.
    { intros cs. cbn. split; [|split].
      - apply (TInv_same_reg st nd); auto; [apply n_op_load_iter | apply reg_load_iter | now apply opwf_load_iter | apply load_iter_pc].
      - now rewrite load_iter_crashed.
      - unfold mu at 2. rewrite Hpc. apply mu_load_iter. }
    destruct (aget (s_cfg st) d) as [[cas cf]|].
    + destruct (is_invalid want); [injection H as <- <- <-; exact (Hok (cas, CF v_invalid (c_colls cf)))|].
      destruct (ver_eqb (c_ver cf) want); [injection H as <- <- <-; exact (Hok (cas, cf))|].
      destruct (gen want <? gen (c_ver cf)); injection H as <- <- <-.
      * split; [apply (TInv_same_reg st nd); auto; try exact I; try (cbn; exact Hwf)|]. split; [exact Hal|]. unfold mu. cbn. rewrite Hpc. lia.
      * split; [apply (TInv_same_reg st nd); auto; try exact I; try (cbn; exact Hwf)|]. split; [exact Hal|].
        unfold mu. cbn. rewrite Hpc. lia.
    + destruct (aget (sn_reg (n_reg nd)) d); injection H as <- <- <-.
      * split; [|split; [exact Hal|unfold mu; cbn; rewrite Hpc; lia]].
        unfold TInv. cbn. split; [exact Hl|]. split; [exact Hwf|]. split; [exact HSs|]. split; [exact HLs|].
        split; [now apply sorted_adel|]. split; [|exact I]. pose proof (length_adel (sn_reg (n_reg nd)) d). lia.
      * split; [apply (TInv_same_reg st nd); auto; try exact I; try (cbn; exact Hwf)|]. split; [exact Hal|]. unfold mu. cbn. rewrite Hpc. lia.
  - (* PRbTouch *)
    destruct c as [lc|la rest acc]; [cbn in Hwf; congruence|].
    destruct (cfg_touch st d cas) as [[st1 c1]|] eqn:T.
    + pose proof (cfg_touch_reg _ _ _ _ _ T) as Hr.
      assert (regc st1 = regc st) as Er by (unfold regc, read_reg; now rewrite Hr).
      destruct (rollback_db (sn_reg (n_reg nd)) d cf) as [[R' bad]|] eqn:Rb; injection H as <- <- <-.
      * destruct (rollback_db_shape _ _ _ _ _ HSn Rb) as [HS' HL'].
        split; [|split; [exact Hal|unfold mu; cbn; rewrite Hpc; lia]].
        unfold TInv. cbn. rewrite Er. split; [exact Hl|]. split; [exact Hwf|]. split; [exact HSs|]. split; [exact HLs|].
        split; [exact HS'|]. split; [lia | exact I].
      * split; [|split; [exact Hal|unfold mu; cbn; rewrite Hpc; lia]].
        unfold TInv. cbn. rewrite Er. auto 10.
    + injection H as <- <- <-. split; [apply (TInv_same_reg st nd); auto; try exact I; try (cbn; exact Hwf)|]. split; [exact Hal|].
      unfold mu. cbn. rewrite Hpc. lia.
  - (* PRbWriteG *)
    destruct c as [lc|la rest acc]; [cbn in Hwf; congruence|].
    assert (forall nd0, n_op nd0 = n_op nd -> n_crashed nd0 = false ->
              (mu (load_reload nd0 la) n < (5 - la) * (n + 4) + 1)%nat /\ n_crashed (load_reload nd0 la) = false /\
              match n_pc (load_reload nd0 la) with PLoadGet la0 => (la0 <= 4)%nat | _ => True end /\
              opwf (load_reload nd0 la)) as Hre.
    { intros nd0 Eo Hc0. unfold load_reload. destruct (5 <=? la)%nat eqn:L; cbn.
      - split; [unfold mu; cbn; lia|]. split; [exact Hc0|]. split; exact I.
      - apply Nat.leb_gt in L. split; [unfold mu; cbn; lia|]. split; [exact Hc0|]. split; [lia|]. unfold opwf. cbn. now rewrite Eo. }
    destruct (write_reg st (n_reg nd)) as [[st1 sn1]|] eqn:Wr; injection H as <- <- <-; cbn [gdc_reload].
    + unfold write_reg in Wr.
      match type of Wr with (if ?c then _ else _) = _ => destruct c end; [|discriminate]. injection Wr as <- <-.
      destruct (Hre (set_reg nd (SN (s_clock st) (sn_reg (n_reg nd)))) eq_refl Hal) as (A & B & C & D).
      split; [|split; [exact B | unfold mu at 2; rewrite Hpc; exact A]].
      unfold TInv. rewrite n_op_load_reload, reg_load_reload. cbn. auto 10.
    + destruct (Hre nd eq_refl Hal) as (A & B & C & D).
      split; [|split; [exact B | unfold mu at 2; rewrite Hpc; exact A]].
      unfold TInv. rewrite n_op_load_reload, reg_load_reload. auto 10.
  - (* PLoadGet *)
    injection H as <- <- <-. split; [|split; [exact Hal|]].
    + unfold TInv. cbn. auto 10.
    + unfold mu. cbn [n_pc set_pc]. rewrite Hpc. destruct la as [|[|[|[|[|la]]]]]; cbn; lia.
  - (* PLoadLegacy *)
    injection H as <- <- <-. split; [|split].
    + apply (TInv_same_reg st nd); auto; [apply n_op_load_iter | apply reg_load_iter | now apply opwf_load_iter | apply load_iter_pc].
    + now rewrite load_iter_crashed.
    + pose proof (mu_load_iter nd la (live_keys (sn_reg (n_reg nd))) [] pk n) as M.
      pose proof (live_keys_length (sn_reg (n_reg nd))). unfold mu at 2. rewrite Hpc. lia.
  - (* PDone *)
    unfold is_done in Hnd. rewrite Hpc in Hnd. discriminate.
Qed.

Lemma mu_zero_done st nd n : TInv st nd n -> mu nd n = 0%nat -> exists r, n_pc nd = PDone r.
Proof.
  intros (Hl & Hwf & _ & _ & _ & _ & Hp) Hm. unfold opwf in Hwf. unfold mu in Hm.
  destruct (n_pc nd) eqn:Hpc; try (rewrite Hl in Hwf; discriminate); eauto.
  - destruct c; [cbn in Hwf; congruence | exfalso; cbv beta iota in Hm; nia].
  - destruct c; [cbn in Hwf; congruence | exfalso; cbv beta iota in Hm; nia].
  - destruct c; [cbn in Hwf; congruence | exfalso; cbv beta iota in Hm; nia].
  - exfalso. assert (1 <= 5 - la)%nat by lia. nia.
  - exfalso. nia.
Qed.

Lemma solo_run i n evs : forall w nd,
  nth_error (w_nodes w) i = Some nd -> n_crashed nd = false -> TInv (w_st w) nd n ->
  Forall (fun e => exists pk, e = Step i true pk) evs -> (mu nd n <= length evs)%nat ->
  exists nd' r, nth_error (w_nodes (fold_left step evs w)) i = Some nd' /\ n_pc nd' = PDone r.
Proof.
  induction evs as [|e evs IH]; intros w nd Hn Hal HT HF Hm; cbn in *.
  - destruct (mu_zero_done _ _ _ HT) as (r & Hr); [lia|]. eauto.
  - inversion HF as [|e0 l0 (pk & ->) HF']; subst. cbn. rewrite Hn, Hal. cbn.
    destruct (is_done nd) eqn:Hd.
    + apply (IH w nd); auto. unfold is_done in Hd. unfold mu. destruct (n_pc nd); try discriminate. lia.
    + destruct (do_step (w_st w) nd true pk) as [[st1 nd1] b] eqn:D.
      destruct (solo_step _ _ _ _ _ _ _ HT Hal Hd D) as (HT1 & Hal1 & Hlt).
      apply (IH _ nd1); auto; [cbn; now apply nth_error_set_nth_eq with (y := nd) | lia].
Qed.

Theorem get_configs_terminates st ops i evs :
  sorted_keys (regc st) -> nth_error ops i = Some OLoad ->
  Forall (fun e => exists pk, e = Step i true pk) evs ->
  (5 * (length (regc st) + 4) <= length evs)%nat ->
  exists nd r, nth_error (w_nodes (run_from st ops evs)) i = Some nd /\ n_pc nd = PDone r.
Proof.
  intros HS Ho HF Hlen. unfold run_from.
  apply (solo_run i (length (regc st)) evs _ (init_node OLoad)); auto.
  - cbn. rewrite nth_error_map, Ho. reflexivity.
  - unfold TInv. cbn. repeat split; auto; lia.
Qed.
