(* C15 -- Database configurations stay consistent across nodes and interrupted changes.
   Model: C15/ConfigProto.v (registry document + one config document per database, both with CAS; nodes are
   programs of storage calls; events run one node's next call or crash it; timers and iteration orders are
   adversarial).  Only property theorems here, each closed by [exact].

   FULL over all interleavings / crash points / timer expiries: C15_registry_ownership (under the explicit side
   condition [w_bad = false], see C15_Refuted.v for the run that violates it), C15_rollback_keeps_ownership,
   C15_load_consistent, C15_rejected_never_persisted.
   FULL over all crash-sequential runs (at most one live node at a time; every crash point of every operation of
   every operation sequence): C15_registry_ownership_sequential, C15_version_linkage_sequential,
   C15_no_invalid_marker_sequential, C15_acked_visible_sequential + C15_acked_not_lost_sequential (an acknowledged
   change is in the store and later operations on other databases / loads never touch it),
   C15_rejected_no_change_clean, C15_never_stuck_sequential (the proved part of progress_after_crash).
   PARTIAL / not proved: acked_not_lost under races (refuted for a creator stalled longer than the retry
   timeout), progress_after_crash (refuted: left-over in-flight markers block unrelated creates); both are
   monitored on the implementation by the harness. *)
From SG Require Import Base.Prelude C15.ConfigProto C15.ProtoOwn C15.ProtoLocal C15.ProtoSeq C15.ProtoClean.
Open Scope N_scope.

(* registry_ownership -- ALL interleavings, crash points and timer expiries.  Own R: for any two distinct
   databases of the registry, what they hold (current collections, and previous collections while an update is
   in flight; entries marked invalid hold nothing) is disjoint.  Side condition: no roll-back adopted a config
   document whose collections another database's in-flight previous version holds (ghost flag w_bad). *)
Theorem C15_registry_ownership : forall ops evs,
  w_bad (run ops evs) = false ->
  forall R c, s_reg (w_st (run ops evs)) = Some (c, R) -> Own R.
Proof. exact registry_ownership_all. Qed.
Print Assumptions C15_registry_ownership.

(* ... in particular no collection is in the current set of two databases *)
Theorem C15_no_shared_current_collection : forall R d1 d2 e1 e2 x,
  Own R -> d1 <> d2 -> aget R d1 = Some e1 -> aget R d2 = Some e2 ->
  is_invalid (rv_ver (e_cur e1)) = false -> is_invalid (rv_ver (e_cur e2)) = false ->
  In x (rv_colls (e_cur e1)) -> In x (rv_colls (e_cur e2)) -> False.
Proof. exact Own_current. Qed.
Print Assumptions C15_no_shared_current_collection.

(* the full statement (no side condition) is REFUTED by the unchanged code: C15_Refuted.ownership_refuted *)
Definition C15_registry_ownership_full_statement : Prop :=
  forall ops evs R c, s_reg (w_st (run ops evs)) = Some (c, R) -> Own R.

(* rollback_invalid_marks: a roll-back that does not raise the ghost flag keeps the invariant -- it restores the
   recorded previous version, or marks the entry invalid when the adopted config collides with a current version *)
Theorem C15_rollback_keeps_ownership : forall R d cf R',
  Own R -> rollback_db R d cf = Some (R', false) -> Own R'.
Proof. exact rollback_db_Own. Qed.
Print Assumptions C15_rollback_keeps_ownership.

(* crash-sequential runs never raise the flag: ownership without side condition *)
Theorem C15_registry_ownership_sequential : forall ops evs R c,
  sequential evs -> s_reg (w_st (run ops evs)) = Some (c, R) -> Own R.
Proof. exact registry_ownership_seq. Qed.
Print Assumptions C15_registry_ownership_sequential.

(* version_linkage -- every crash point of every operation of every sequence of operations, every timer expiry:
   at EVERY step, for every database, the registry entry and the config document are linked: absent/absent;
   same version and same collections; the registry one generation ahead with the config recorded as previous
   version (update in flight); entry without config while a create is in flight; deleted marker with the previous
   version recorded.  A config document without registry entry does not occur. *)
Theorem C15_version_linkage_sequential : forall ops evs d,
  sequential evs ->
  linked (aget (regc (w_st (run ops evs))) d) (aget (s_cfg (w_st (run ops evs))) d).
Proof. exact version_linkage_seq. Qed.
Print Assumptions C15_version_linkage_sequential.

Theorem C15_no_invalid_marker_sequential : forall ops evs d e,
  sequential evs -> aget (regc (w_st (run ops evs))) d = Some e -> is_invalid (rv_ver (e_cur e)) = false.
Proof. exact no_invalid_seq. Qed.
Print Assumptions C15_no_invalid_marker_sequential.

(* PARTIAL: for racing nodes with adversarial timers version_linkage is refuted (a creator stalled for longer than
   the retry timeout leaves a config document without registry entry): C15_Refuted.linkage_refuted_racing *)
Definition C15_version_linkage_full_statement : Prop :=
  forall ops evs d, linked (aget (regc (w_st (run ops evs))) d) (aget (s_cfg (w_st (run ops evs))) d).

(* load_consistent -- ALL interleavings: every config returned by a completed GetDatabaseConfigs carries exactly
   the version that the registry read by that node records for the database, the entry is not marked deleted,
   and every database the registry lists as not deleted is returned (never a half-applied pair, never a
   database in the middle of a delete) *)
Theorem C15_load_consistent : forall ops evs i nd l,
  nth_error (w_nodes (run ops evs)) i = Some nd -> n_pc nd = PDone (RLoaded l) ->
  (forall d cf, In (d, cf) l ->
     exists e, aget (sn_reg (n_reg nd)) d = Some e /\ rv_ver (e_cur e) = c_ver cf /\ is_deleted (c_ver cf) = false) /\
  (forall d e, aget (sn_reg (n_reg nd)) d = Some e -> is_deleted (rv_ver (e_cur e)) = false -> exists cf, In (d, cf) l).
Proof. exact load_consistent_all. Qed.
Print Assumptions C15_load_consistent.

(* rejected_no_change -- ALL interleavings: an operation that ends with not-found / already-exists / 409 never
   persisted a change of its own (whatever it wrote were repairs of other, interrupted changes) ... *)
Theorem C15_rejected_never_persisted : forall ops evs i nd e,
  nth_error (w_nodes (run ops evs)) i = Some nd -> n_pc nd = PDone (RErr e) -> rejection e = true ->
  n_own nd = false.
Proof. exact rejected_never_persisted_all. Qed.
Print Assumptions C15_rejected_never_persisted.

(* ... and on a clean store (every database steady) it performed no write at all *)
Theorem C15_rejected_no_change_clean : forall st o evs nd e,
  SInv st -> clean st -> is_load o = false ->
  w_nodes (run_from st [o] evs) = [nd] -> n_pc nd = PDone (RErr e) -> rejection e = true ->
  w_st (run_from st [o] evs) = st.
Proof. exact rejected_no_change_clean. Qed.
Print Assumptions C15_rejected_no_change_clean.

(* acked_not_lost, PARTIAL: in a crash-sequential run, when the node that ran last acknowledged its change, the
   registry and the config document show exactly that change (version and collections; nothing left for a delete) *)
Theorem C15_acked_visible_sequential : forall ops evs nd,
  sequential evs -> nth_error (w_nodes (run ops evs)) (last_from 0 evs) = Some nd ->
  n_pc nd = PDone ROk -> acked_state (n_op nd) (w_st (run ops evs)).
Proof. exact acked_seq. Qed.
Print Assumptions C15_acked_visible_sequential.

(* ... and it stays: once a database is steady (registry entry and config document agree -- in particular after
   an acknowledged create or update), every later node of a crash-sequential run that does not target that
   database (creates / updates / deletes of other databases, completed or crashed at any storage call, and any
   GetDatabaseConfigs with its roll-backs) leaves its registry entry and config document exactly as they are *)
Theorem C15_acked_not_lost_sequential : forall ops evs1 evs2 d,
  sequential (evs1 ++ evs2) ->
  steady (w_st (run ops evs1)) d ->
  (forall i o, steps_of evs2 i -> nth_error ops i = Some o -> is_load o = true \/ d <> op_db o) ->
  same_db (w_st (run ops evs1)) (w_st (run ops (evs1 ++ evs2))) d.
Proof. exact steady_stable_seq. Qed.
Print Assumptions C15_acked_not_lost_sequential.

Theorem C15_acked_is_steady : forall o st,
  acked_state o st -> is_load o = false -> (forall d, o <> ODelete d) -> steady st (op_db o).
Proof. exact acked_steady. Qed.
Print Assumptions C15_acked_is_steady.

(* not proved: an acknowledged create is never lost to a concurrent roll-back -- REFUTED under adversarial timers
   (C15_Refuted.acked_create_lost) *)
Definition C15_acked_not_lost_full_statement : Prop :=
  forall ops evs i nd d dig cols,
    nth_error (w_nodes (run ops evs)) i = Some nd -> n_op nd = OInsert d dig cols -> result_of nd = Some ROk ->
    (forall o, In o ops -> o = OInsert d dig cols \/ o = OLoad) ->
    aget (regc (w_st (run ops evs))) d <> None.

(* progress_after_crash, PARTIAL: in a crash-sequential run no operation of any node ever fails with one of the
   errors that denote a state nothing can repair -- the config document newer than the registry
   (ErrConfigVersionMismatch), "rollback cancelled", registry entry missing during a roll-back.  (Together with
   version_linkage: after an interrupted change every later create / update / delete / load finds a state it can
   roll back or forward.)  Not proved: that it then SUCCEEDS -- see the refuted full statement below. *)
Theorem C15_never_stuck_sequential : forall ops evs i nd e,
  sequential evs -> nth_error (w_nodes (run ops evs)) i = Some nd -> n_pc nd = PDone (RErr e) -> stuck e = false.
Proof. exact no_stuck_seq. Qed.
Print Assumptions C15_never_stuck_sequential.

(* not proved: after an interrupted change and a completed GetDatabaseConfigs, a create whose collections no live
   database owns succeeds -- REFUTED (C15_Refuted.progress_blocked_by_stale_previous / _by_stale_deleted) *)
Definition C15_progress_after_crash_full_statement : Prop :=
  forall ops evs d dig cols i nd,
    sequential evs ->
    nth_error (w_nodes (run ops evs)) i = Some nd -> n_op nd = OInsert d dig cols ->
    result_of nd = Some (RErr EConflict) ->
    exists d' e, d' <> d /\ aget (regc (w_st (run ops evs))) d' = Some e /\ live (rv_ver (e_cur e)) /\
                 inter (eff cols) (rv_colls (e_cur e)) = true.

(* non-vacuity: create db1 {1,2}; an update to {1} crashes after its registry write (3 storage calls); a loader
   that gave up waiting rolls the registry back: sequential, flag not raised, db1 back at version 1-1 with its
   two collections, and the load returned it *)
Example C15_nonvacuous :
  let ops := [OInsert 1 1 [1;2]; OUpdate 1 6 [1]; OLoad] in
  let evs := [Step 0 true 0; Step 0 true 0; Step 0 true 0; Step 0 true 0;
              Step 1 true 0; Step 1 true 0; Step 1 true 0; Crash 1;
              Step 2 true 0; Step 2 true 1; Step 2 true 0; Step 2 true 0; Step 2 true 0; Step 2 true 0;
              Step 2 true 1; Step 2 true 0] in
  sequential evs /\ w_bad (run ops evs) = false /\
  regc (w_st (run ops evs)) = [(1, RE (RV (1,1) [1;2]) None)] /\
  map result_of (w_nodes (run ops evs)) = [Some ROk; None; Some (RLoaded [(1, CF (1,1) [1;2])])].
Proof. vm_compute. repeat split; auto. Qed.
