(* C15 -- Database configurations stay consistent across nodes and interrupted changes.
   Model: C15/ConfigProto.v (registry document + one config document per database, both with CAS; nodes are
   programs of storage calls; events run one node's next call or crash it; timers and iteration orders are
   adversarial).  Only property theorems here, each closed by [exact].

   FULL over all interleavings / crash points / timer expiries: C15_registry_ownership (under the explicit side
   condition [w_bad = false], see C15_Refuted.v for the run that violates it), C15_rollback_keeps_ownership,
   C15_load_consistent, C15_rejected_never_persisted.
   FULL over all crash-sequential runs (at most one live node at a time; every crash point of every operation of
   every operation sequence): C15_registry_ownership_sequential, C15_version_linkage_sequential,
   C15_no_invalid_marker_sequential, C15_acked_visible_sequential + C15_acked_not_lost_sequential (an acknowledged
   change is in the store and later operations on other databases / loads never touch it),
   C15_rejected_no_change_clean, C15_never_stuck_sequential (the proved part of progress_after_crash).
   FULL over ALL interleavings of racing nodes under the four explicit schedule conditions of ProtoRace.v
   (no_giveup_while_alive, no_stale_giveup, no_overlap_with_finalize, prompt_rollback -- each necessary:
   C15_Refuted.v): C15_version_linkage_racing, C15_registry_ownership_racing, C15_acked_visible_racing +
   C15_acked_not_lost_racing.  Node-local application of loaded configs (ConfigApply.v): C15_apply_monotone_cas,
   C15_apply_no_shared_collection, C15_apply_converges (+ C15_apply_reaches_loaded).  C15_get_configs_terminates.
   PARTIAL / not proved: the unconditional racing statements (refuted, also WITHOUT any stalled node:
   C15_Refuted.acked_lost_to_stale_wait; acked_lost_to_delete_finalize is about the code before the repair cd27b43
   -- its schedule now satisfies the conditions and the theorems apply), progress_after_crash (refuted: left-over
   in-flight markers block unrelated creates), unconditional apply_converges (refuted: two databases that swapped
   collections are never applied). *)
From SG Require Import Base.Prelude C15.ConfigProto C15.ProtoOwn C15.ProtoLocal C15.ProtoSeq C15.ProtoClean
  C15.ProtoRace C15.ProtoRaceStep C15.ProtoRaceMain C15.ConfigApply C15.ApplyProofs C15.ProtoTerm C15.ProtoGen.
Open Scope N_scope.

(* registry_ownership -- ALL interleavings, crash points and timer expiries.  Own R: for any two distinct
   databases of the registry, what they hold (current collections, and previous collections while an update is
   in flight; entries marked invalid hold nothing) is disjoint.  Side condition: no roll-back adopted a config
   document whose collections another database's in-flight previous version holds (ghost flag w_bad). *)
Theorem C15_registry_ownership : forall ops evs,
  w_bad (run ops evs) = false ->
  forall R c, s_reg (w_st (run ops evs)) = Some (c, R) -> Own R.
Proof. exact registry_ownership_all. Qed.
Print Assumptions C15_registry_ownership.

(* ... in particular no collection is in the current set of two databases *)
Theorem C15_no_shared_current_collection : forall R d1 d2 e1 e2 x,
  Own R -> d1 <> d2 -> aget R d1 = Some e1 -> aget R d2 = Some e2 ->
  is_invalid (rv_ver (e_cur e1)) = false -> is_invalid (rv_ver (e_cur e2)) = false ->
  In x (rv_colls (e_cur e1)) -> In x (rv_colls (e_cur e2)) -> False.
Proof. exact Own_current. Qed.
Print Assumptions C15_no_shared_current_collection.

(* the full statement (no side condition) is REFUTED by the unchanged code: C15_Refuted.ownership_refuted *)
Definition C15_registry_ownership_full_statement : Prop :=
  forall ops evs R c, s_reg (w_st (run ops evs)) = Some (c, R) -> Own R.

(* rollback_invalid_marks: a roll-back that does not raise the ghost flag keeps the invariant -- it restores the
   recorded previous version, or marks the entry invalid when the adopted config collides with a current version *)
Theorem C15_rollback_keeps_ownership : forall R d cf R',
  Own R -> rollback_db R d cf = Some (R', false) -> Own R'.
Proof. exact rollback_db_Own. Qed.
Print Assumptions C15_rollback_keeps_ownership.

(* crash-sequential runs never raise the flag: ownership without side condition *)
Theorem C15_registry_ownership_sequential : forall ops evs R c,
  sequential evs -> s_reg (w_st (run ops evs)) = Some (c, R) -> Own R.
Proof. exact registry_ownership_seq. Qed.
Print Assumptions C15_registry_ownership_sequential.

(* version_linkage -- every crash point of every operation of every sequence of operations, every timer expiry:
   at EVERY step, for every database, the registry entry and the config document are linked: absent/absent;
   same version and same collections; the registry one generation ahead with the config recorded as previous
   version (update in flight); entry without config while a create is in flight; deleted marker with the previous
   version recorded.  A config document without registry entry does not occur. *)
Theorem C15_version_linkage_sequential : forall ops evs d,
  sequential evs ->
  linked (aget (regc (w_st (run ops evs))) d) (aget (s_cfg (w_st (run ops evs))) d).
Proof. exact version_linkage_seq. Qed.
Print Assumptions C15_version_linkage_sequential.

Theorem C15_no_invalid_marker_sequential : forall ops evs d e,
  sequential evs -> aget (regc (w_st (run ops evs))) d = Some e -> is_invalid (rv_ver (e_cur e)) = false.
Proof. exact no_invalid_seq. Qed.
Print Assumptions C15_no_invalid_marker_sequential.

(* PARTIAL: for racing nodes with adversarial timers version_linkage is refuted (a creator stalled for longer than
   the retry timeout leaves a config document without registry entry): C15_Refuted.linkage_refuted_racing *)
Definition C15_version_linkage_full_statement : Prop :=
  forall ops evs d, linked (aget (regc (w_st (run ops evs))) d) (aget (s_cfg (w_st (run ops evs))) d).

(* load_consistent -- ALL interleavings: every config returned by a completed GetDatabaseConfigs carries exactly
   the version that the registry read by that node records for the database, the entry is not marked deleted,
   and every database the registry lists as not deleted is returned (never a half-applied pair, never a
   database in the middle of a delete) *)
Theorem C15_load_consistent : forall ops evs i nd l,
  nth_error (w_nodes (run ops evs)) i = Some nd -> n_pc nd = PDone (RLoaded l) ->
  (forall d cf, In (d, cf) l ->
     exists e, aget (sn_reg (n_reg nd)) d = Some e /\ rv_ver (e_cur e) = c_ver cf /\ is_deleted (c_ver cf) = false) /\
  (forall d e, aget (sn_reg (n_reg nd)) d = Some e -> is_deleted (rv_ver (e_cur e)) = false -> exists cf, In (d, cf) l).
Proof. exact load_consistent_all. Qed.
Print Assumptions C15_load_consistent.

(* rejected_no_change -- ALL interleavings: an operation that ends with not-found / already-exists / 409 never
   persisted a change of its own (whatever it wrote were repairs of other, interrupted changes) ... *)
Theorem C15_rejected_never_persisted : forall ops evs i nd e,
  nth_error (w_nodes (run ops evs)) i = Some nd -> n_pc nd = PDone (RErr e) -> rejection e = true ->
  n_own nd = false.
Proof. exact rejected_never_persisted_all. Qed.
Print Assumptions C15_rejected_never_persisted.

(* ... and on a clean store (every database steady) it performed no write at all *)
Theorem C15_rejected_no_change_clean : forall st o evs nd e,
  SInv st -> clean st -> is_load o = false ->
  w_nodes (run_from st [o] evs) = [nd] -> n_pc nd = PDone (RErr e) -> rejection e = true ->
  w_st (run_from st [o] evs) = st.
Proof. exact rejected_no_change_clean. Qed.
Print Assumptions C15_rejected_no_change_clean.

(* acked_not_lost, PARTIAL: in a crash-sequential run, when the node that ran last acknowledged its change, the
   registry and the config document show exactly that change (version and collections; nothing left for a delete) *)
Theorem C15_acked_visible_sequential : forall ops evs nd,
  sequential evs -> nth_error (w_nodes (run ops evs)) (last_from 0 evs) = Some nd ->
  n_pc nd = PDone ROk -> acked_state (n_op nd) (w_st (run ops evs)).
Proof. exact acked_seq. Qed.
Print Assumptions C15_acked_visible_sequential.

(* ... and it stays: once a database is steady (registry entry and config document agree -- in particular after
   an acknowledged create or update), every later node of a crash-sequential run that does not target that
   database (creates / updates / deletes of other databases, completed or crashed at any storage call, and any
   GetDatabaseConfigs with its roll-backs) leaves its registry entry and config document exactly as they are *)
Theorem C15_acked_not_lost_sequential : forall ops evs1 evs2 d,
  sequential (evs1 ++ evs2) ->
  steady (w_st (run ops evs1)) d ->
  (forall i o, steps_of evs2 i -> nth_error ops i = Some o -> is_load o = true \/ d <> op_db o) ->
  same_db (w_st (run ops evs1)) (w_st (run ops (evs1 ++ evs2))) d.
Proof. exact steady_stable_seq. Qed.
Print Assumptions C15_acked_not_lost_sequential.

Theorem C15_acked_is_steady : forall o st,
  acked_state o st -> is_load o = false -> (forall d, o <> ODelete d) -> steady st (op_db o).
Proof. exact acked_steady. Qed.
Print Assumptions C15_acked_is_steady.

(* not proved: an acknowledged create is never lost to a concurrent roll-back -- REFUTED under adversarial timers
   (C15_Refuted.acked_create_lost) *)
Definition C15_acked_not_lost_full_statement : Prop :=
  forall ops evs i nd d dig cols,
    nth_error (w_nodes (run ops evs)) i = Some nd -> n_op nd = OInsert d dig cols -> result_of nd = Some ROk ->
    (forall o, In o ops -> o = OInsert d dig cols \/ o = OLoad) ->
    aget (regc (w_st (run ops evs))) d <> None.

(* progress_after_crash, PARTIAL: in a crash-sequential run no operation of any node ever fails with one of the
   errors that denote a state nothing can repair -- the config document newer than the registry
   (ErrConfigVersionMismatch), "rollback cancelled", registry entry missing during a roll-back.  (Together with
   version_linkage: after an interrupted change every later create / update / delete / load finds a state it can
   roll back or forward.)  Not proved: that it then SUCCEEDS -- see the refuted full statement below. *)
Theorem C15_never_stuck_sequential : forall ops evs i nd e,
  sequential evs -> nth_error (w_nodes (run ops evs)) i = Some nd -> n_pc nd = PDone (RErr e) -> stuck e = false.
Proof. exact no_stuck_seq. Qed.
Print Assumptions C15_never_stuck_sequential.

(* not proved: after an interrupted change and a completed GetDatabaseConfigs, a create whose collections no live
   database owns succeeds -- REFUTED (C15_Refuted.progress_blocked_by_stale_previous / _by_stale_deleted) *)
Definition C15_progress_after_crash_full_statement : Prop :=
  forall ops evs d dig cols i nd,
    sequential evs ->
    nth_error (w_nodes (run ops evs)) i = Some nd -> n_op nd = OInsert d dig cols ->
    result_of nd = Some (RErr EConflict) ->
    exists d' e, d' <> d /\ aget (regc (w_st (run ops evs))) d' = Some e /\ live (rv_ver (e_cur e)) /\
                 inter (eff cols) (rv_colls (e_cur e)) = true.

(* non-vacuity: create db1 {1,2}; an update to {1} crashes after its registry write (3 storage calls); a loader
   that gave up waiting rolls the registry back: sequential, flag not raised, db1 back at version 1-1 with its
   two collections, and the load returned it *)
Example C15_nonvacuous :
  let ops := [OInsert 1 1 [1;2]; OUpdate 1 6 [1]; OLoad] in
  let evs := [Step 0 true 0; Step 0 true 0; Step 0 true 0; Step 0 true 0;
              Step 1 true 0; Step 1 true 0; Step 1 true 0; Crash 1;
              Step 2 true 0; Step 2 true 1; Step 2 true 0; Step 2 true 0; Step 2 true 0; Step 2 true 0;
              Step 2 true 1; Step 2 true 0] in
  sequential evs /\ w_bad (run ops evs) = false /\
  regc (w_st (run ops evs)) = [(1, RE (RV (1,1) [1;2]) None)] /\
  map result_of (w_nodes (run ops evs)) = [Some ROk; None; Some (RLoaded [(1, CF (1,1) [1;2])])].
Proof. vm_compute. repeat split; auto. Qed.

(* ================= racing nodes: ALL interleavings under explicit schedule conditions ================= *)
(* The conditions are decidable tests of each event in the world it runs in (ProtoRace.v):
   no_giveup_while_alive   a waiting read gives up only when no node that persisted its registry change for that
                           database and has not yet written / deleted the config document is alive;
   no_stale_giveup         ... and only when the waiter's view of that database's registry entry is the stored one;
   no_overlap_with_finalize  no update or delete of a database is started (step-2 registry write) while another
                           alive node is in the finalize phase of a change of that database, and no create while an
                           alive UPDATE of it finalizes (a create MAY overlap with the finalize of a delete: the
                           repaired finalize, cd27b43, only removes the entry it marked);
   prompt_rollback         the fence (touch) of a roll-back is written only while the repairer's view of that
                           database's registry entry is still the stored one.
   race_hyps is their conjunction over the whole schedule. *)
Theorem C15_race_hyps_def : forall ops evs,
  race_hyps ops evs =
  no_giveup_while_alive ops evs && no_stale_giveup ops evs && no_overlap_with_finalize ops evs && prompt_rollback ops evs.
Proof. reflexivity. Qed.
Print Assumptions C15_race_hyps_def.

(* version_linkage for racing nodes: at EVERY step of EVERY interleaving, crash point and timer expiry *)
Theorem C15_version_linkage_racing : forall ops evs d,
  race_hyps ops evs = true ->
  linked (aget (regc (w_st (run ops evs))) d) (aget (s_cfg (w_st (run ops evs))) d).
Proof. exact version_linkage_racing. Qed.
Print Assumptions C15_version_linkage_racing.

(* registry_ownership for racing nodes, without the ghost-flag side condition *)
Theorem C15_registry_ownership_racing : forall ops evs R c,
  race_hyps ops evs = true -> s_reg (w_st (run ops evs)) = Some (c, R) -> Own R.
Proof. exact registry_ownership_racing. Qed.
Print Assumptions C15_registry_ownership_racing.

(* acked_not_lost for racing nodes: the step that acknowledges a change leaves exactly that change in the store ... *)
Theorem C15_acked_visible_racing : forall ops evs i ex pk nd nd',
  race_hyps ops (evs ++ [Step i ex pk]) = true ->
  nth_error (w_nodes (run ops evs)) i = Some nd -> n_pc nd <> PDone ROk ->
  nth_error (w_nodes (run ops (evs ++ [Step i ex pk]))) i = Some nd' -> n_pc nd' = PDone ROk ->
  acked_r (n_op nd') (w_st (run ops (evs ++ [Step i ex pk]))).
Proof. exact acked_visible_racing. Qed.
(* acked_r o st = acked_state o st, or -- for a delete -- the database has been created again by a concurrent writer
   after the config document was deleted (the finalize then leaves that entry alone) *)
Theorem C15_acked_r_def : forall o st,
  acked_r o st <->
  (acked_state o st \/ exists d e, o = ODelete d /\ aget (regc st) d = Some e /\ is_deleted (rv_ver (e_cur e)) = false).
Proof. intros o st. reflexivity. Qed.
Print Assumptions C15_acked_r_def.
Print Assumptions C15_acked_visible_racing.

(* ... and once a database is steady (in particular after an acknowledged create or update) every later step of
   every node that does not target it -- racing creates / updates / deletes of other databases, loaders and their
   roll-backs, crashes -- leaves its registry entry and its config document exactly as they are *)
Theorem C15_acked_not_lost_racing : forall ops evs1 evs2 d,
  race_hyps ops (evs1 ++ evs2) = true ->
  steady (w_st (run ops evs1)) d ->
  (forall i o, steps_of evs2 i -> nth_error ops i = Some o -> is_load o = true \/ d <> op_db o) ->
  same_db (w_st (run ops evs1)) (w_st (run ops (evs1 ++ evs2))) d.
Proof. exact acked_not_lost_racing. Qed.
Print Assumptions C15_acked_not_lost_racing.

(* ================= node-local application of loaded configs (rest/config.go) ================= *)
(* apply_monotone_cas: a node never replaces a running database config by an older one; what it runs afterwards
   is what it ran before or the loaded config *)
Theorem C15_apply_monotone_cas : forall r loaded still d old new,
  (forall x, In x loaded -> a_cas (snd x) <> 0) ->
  aget r d = Some old -> aget (fetch_and_load r loaded still) d = Some new ->
  a_cas old <= a_cas new /\ (new = old \/ In (d, new) loaded).
Proof. exact apply_monotone_cas. Qed.
Print Assumptions C15_apply_monotone_cas.

(* apply_no_shared_collection: no two running databases of a node share a collection -- whatever is loaded (the
   check of _applyConfig makes this independent of registry_ownership of the loaded set) *)
Theorem C15_apply_no_shared_collection : forall r loaded still,
  NoShare r -> NoShare (fetch_and_load r loaded still).
Proof. exact apply_no_shared_collection. Qed.
Print Assumptions C15_apply_no_shared_collection.

(* apply_converges: two nodes that load the same set of configs -- whatever each was running, in whatever order
   each applies them -- end with the same running configs, namely the loaded ones, provided the loaded set
   satisfies registry_ownership (OwnL) and no loaded config wants a collection that another listed database still
   holds in its RUNNING version on that node (compatible); [coherent]: CAS values identify config documents.
   A node that runs nothing satisfies the side conditions (fresh_compatible). *)
Theorem C15_apply_converges : forall r1 r2 l1 l2,
  sorted_keys r1 -> sorted_keys r2 -> (forall x, In x l1 <-> In x l2) ->
  (forall x, In x l1 -> is_invalid (a_ver (snd x)) = false) ->
  OwnL l1 -> FunL l1 -> (forall x, In x l1 -> a_cas (snd x) <> 0) ->
  compatible r1 l1 -> coherent r1 l1 -> compatible r2 l1 -> coherent r2 l1 ->
  forall d, aget (fetch_and_load r1 l1 []) d = aget (fetch_and_load r2 l2 []) d.
Proof. exact apply_converges. Qed.
Print Assumptions C15_apply_converges.

Theorem C15_apply_reaches_loaded : forall r l,
  sorted_keys r -> (forall x, In x l -> is_invalid (a_ver (snd x)) = false) ->
  OwnL l -> FunL l -> compatible r l -> coherent r l -> (forall x, In x l -> a_cas (snd x) <> 0) ->
  forall d, aget (fetch_and_load r l []) d = cfg_of l d.
Proof. exact apply_reaches_loaded. Qed.
Print Assumptions C15_apply_reaches_loaded.

(* not proved: convergence without the [compatible] side condition -- REFUTED (C15_Refuted.apply_swap_never_converges) *)
Definition C15_apply_converges_full_statement : Prop :=
  forall r l, sorted_keys r -> NoShare r -> OwnL l -> FunL l -> coherent r l ->
    (forall x, In x l -> a_cas (snd x) <> 0 /\ is_invalid (a_ver (snd x)) = false) ->
    exists k, forall d, aget (Nat.iter k (fun r0 => fetch_and_load r0 l []) r) d = cfg_of l d.

(* ================= termination ================= *)
(* GetDatabaseConfigs whose waiting loops give up, run while no other node takes a step, returns within
   5 * (number of registry entries + 4) of its own storage calls -- from ANY store with a sorted registry *)
Theorem C15_get_configs_terminates : forall st ops i evs,
  sorted_keys (regc st) -> nth_error ops i = Some OLoad ->
  Forall (fun e => exists pk, e = Step i true pk) evs ->
  (5 * (length (regc st) + 4) <= length evs)%nat ->
  exists nd r, nth_error (w_nodes (run_from st ops evs)) i = Some nd /\ n_pc nd = PDone r.
Proof. exact get_configs_terminates. Qed.
Print Assumptions C15_get_configs_terminates.

(* non-vacuity of the racing theorems: two creators racing (one loses the registry CAS and retries), an updater
   that crashes after its registry write, two loaders racing to roll it back -- not crash-sequential, all four
   conditions hold along the whole schedule, both loaders return the rolled-back state *)
Example C15_racing_nonvacuous :
  let S := fun i => Step i true 0 in
  let ops := [OInsert 1 1 [1]; OInsert 2 2 [2]; OUpdate 1 3 [1;3]; OLoad; OLoad] in
  let evs := [S 0; S 1; S 0; S 1; S 0; S 1; S 0; S 1; S 1; S 1; S 1;
              S 2; Step 3 true 1; S 2; Step 3 true 1; S 2; Crash 2;
              Step 3 true 1; Step 4 true 1; Step 4 true 1; Step 4 true 1; Step 3 true 1; Step 4 true 1;
              Step 3 true 1; Step 3 true 1; Step 3 true 1; Step 3 true 2; Step 3 true 2;
              Step 4 true 1; Step 4 true 1; Step 4 true 1; Step 4 true 1; Step 4 true 2; Step 4 true 2]%nat in
  race_hyps ops evs = true /\ ~ sequential evs /\
  map result_of (w_nodes (run ops evs)) =
    [Some ROk; Some ROk; None; Some (RLoaded [(1, CF (1,1) [1]); (2, CF (1,2) [2])]);
     Some (RLoaded [(1, CF (1,1) [1]); (2, CF (1,2) [2])])].
Proof.
  cbv zeta. split; [vm_compute; reflexivity|]. split; [|vm_compute; reflexivity].
  unfold sequential. cbn. intros (_ & _ & H & _). lia.
Qed.

(* ================= every generation of the version id ================= *)
(* getConfigVersionWithRetry compares the generations of the two version ids as NUMBERS: a config document behind the
   requested version is never reported as newer (it is waited for, then fenced) -- for every pair of generations *)
Theorem C15_behind_config_is_never_newer :
  forall st nd c d want cas cf expired pick,
    n_pc nd = PGdcRead c d want ->
    aget (s_cfg st) d = Some (cas, cf) ->
    gen (c_ver cf) < gen want ->
    do_step st nd expired pick =
      (st, if expired then set_pc nd (PRbTouch c d cas cf) else nd, false).
Proof. exact behind_config_is_never_newer. Qed.
Print Assumptions C15_behind_config_is_never_newer.

Theorem C15_ahead_config_is_newer :
  forall st nd c d want cas cf expired pick,
    n_pc nd = PGdcRead c d want ->
    aget (s_cfg st) d = Some (cas, cf) ->
    is_invalid want = false ->
    gen want < gen (c_ver cf) ->
    do_step st nd expired pick = (st, finish nd (RErr ENewer), false).
Proof. exact ahead_config_is_newer. Qed.
Print Assumptions C15_ahead_config_is_newer.

(* an update interrupted between the registry write and the config-document write is rolled back by any node that
   read the registry, reads the document and gives up waiting while no other node takes a step: afterwards the
   registry records exactly the previous version and collections without an in-flight marker, the document is the
   previous configuration -- for ALL versions with gen vold < gen vnew *)
Theorem C15_interrupted_update_rolled_back :
  forall st nd c0 d c R vnew vold csn cso cas cf pick,
    update_in_flight st d c R vnew vold csn cso cas cf ->
    n_pc nd = PGdcRead c0 d vnew ->
    n_reg nd = SN c R ->
    let '(st3, nd3) := step3 st nd pick in
    (exists c', c' <> 0 /\ s_reg st3 = Some (c', aset R d (RE (RV vold cso) None))) /\
    (exists cas', aget (s_cfg st3) d = Some (cas', cf)) /\
    (forall d', d' <> d -> aget (s_cfg st3) d' = aget (s_cfg st) d') /\
    n_pc nd3 <> PDone (RErr ENewer) /\ n_pc nd3 <> PDone (RErr ECancelled) /\ n_pc nd3 <> PDone (RErr ERegMissing).
Proof. exact interrupted_update_rolled_back. Qed.
Print Assumptions C15_interrupted_update_rolled_back.

Theorem C15_interrupted_update_rolled_back_every_generation :
  forall g dig dig' st nd c0 d c R csn cso cas cf pick,
    update_in_flight st d c R (g + 1, dig') (g, dig) csn cso cas cf ->
    n_pc nd = PGdcRead c0 d (g + 1, dig') ->
    n_reg nd = SN c R ->
    let '(st3, nd3) := step3 st nd pick in
    (exists c', c' <> 0 /\ s_reg st3 = Some (c', aset R d (RE (RV (g, dig) cso) None))) /\
    (exists cas', aget (s_cfg st3) d = Some (cas', cf)) /\
    n_pc nd3 <> PDone (RErr ENewer).
Proof. exact interrupted_update_rolled_back_every_generation. Qed.
Print Assumptions C15_interrupted_update_rolled_back_every_generation.

(* non-vacuity: UpdateConfig of a database stored at generation 9 (99), crashed after its registry write, leaves
   exactly [update_in_flight] with versions 10 / 9 (100 / 99) *)
Example C15_generation_nonvacuous :
  update_in_flight (w_st (gen_example 99)) 1 3 [(1, RE (RV (100, 6) [1]) (Some (RV (99, 161) [1; 2])))]
                   (100, 6) (99, 161) [1] [1; 2] 1 (CF (99, 161) [1; 2]).
Proof. exact update_in_flight_nonvacuous_99. Qed.
