(* C15: racing runs -- one step of one node under the schedule conditions: the store invariant, the node's new
   claims, and the summary of what it did to the store. *)
From SG Require Import Base.Prelude C15.ConfigProto C15.ProtoOwn C15.ProtoLocal C15.ProtoSeq C15.ProtoRace
  C15.ProtoRaceInv C15.ProtoRaceOther.
Open Scope N_scope.

(* ---------- the helper continuations: program counter, CAS, well-formedness ---------- *)
Definition calm (p : pc) : Prop := active_pc p = false /\ p <> PDone ROk.

Lemma calm_grd_return nd cs : is_load (n_op nd) = false -> calm (n_pc (grd_return nd cs)).
Proof.
  intros Hl. unfold grd_return. destruct (n_op nd); try discriminate;
    repeat match goal with |- context [match ?x with _ => _ end] => destruct x end; split; cbn; congruence.
Qed.
Lemma calm_grd_reload nd lc : calm (n_pc (grd_reload nd lc)).
Proof. unfold grd_reload. destruct (5 <=? lc)%nat; split; cbn; congruence. Qed.
Lemma calm_load_reload nd la : calm (n_pc (load_reload nd la)).
Proof. unfold load_reload. destruct (5 <=? la)%nat; split; cbn; congruence. Qed.
Lemma calm_main_retry nd : calm (n_pc (main_retry nd)).
Proof. unfold main_retry. destruct (max_att (n_op nd) <=? n_att nd)%nat; split; cbn; congruence. Qed.
Lemma calm_load_iter nd la rest acc pick : calm (n_pc (load_iter nd la rest acc pick)).
Proof.
  unfold load_iter. destruct rest; [split; cbn; congruence|].
  destruct (aget (sn_reg (n_reg nd)) (choose pick (n :: rest))); split; cbn; congruence.
Qed.
Lemma calm_gdc_ok nd c d cs pick : is_load (n_op nd) = ctx_load c -> calm (n_pc (gdc_ok nd c d cs pick)).
Proof. destruct c; cbn; intros H; [now apply calm_grd_return | apply calm_load_iter]. Qed.
Lemma calm_gdc_reload nd c : calm (n_pc (gdc_reload nd c)).
Proof. destruct c; cbn; [apply calm_grd_reload | apply calm_load_reload]. Qed.

Lemma reg_grd_return nd cs : sn_cas (n_reg (grd_return nd cs)) = sn_cas (n_reg nd).
Proof.
  unfold grd_return. destruct (n_op nd);
    repeat match goal with |- context [match ?x with _ => _ end] => destruct x end; reflexivity.
Qed.
Lemma reg_grd_reload nd lc : n_reg (grd_reload nd lc) = n_reg nd.
Proof. unfold grd_reload. destruct (5 <=? lc)%nat; reflexivity. Qed.
Lemma reg_load_reload nd la : n_reg (load_reload nd la) = n_reg nd.
Proof. unfold load_reload. destruct (5 <=? la)%nat; reflexivity. Qed.
Lemma reg_main_retry nd : n_reg (main_retry nd) = n_reg nd.
Proof. unfold main_retry. destruct (max_att (n_op nd) <=? n_att nd)%nat; reflexivity. Qed.
Lemma reg_load_iter nd la rest acc pick : n_reg (load_iter nd la rest acc pick) = n_reg nd.
Proof.
  unfold load_iter. destruct rest; [reflexivity|].
  destruct (aget (sn_reg (n_reg nd)) (choose pick (n :: rest))); reflexivity.
Qed.
Lemma reg_gdc_ok nd c d cs pick : sn_cas (n_reg (gdc_ok nd c d cs pick)) = sn_cas (n_reg nd).
Proof. destruct c; cbn; [apply reg_grd_return | now rewrite reg_load_iter]. Qed.
Lemma reg_gdc_reload nd c : n_reg (gdc_reload nd c) = n_reg nd.
Proof. destruct c; cbn; [apply reg_grd_reload | apply reg_load_reload]. Qed.

Lemma opwf_grd_return nd cs : is_load (n_op nd) = false -> opwf (grd_return nd cs).
Proof.
  intros Hl. unfold grd_return. destruct (n_op nd) eqn:Eo; try discriminate;
    repeat match goal with |- context [match ?x with _ => _ end] => destruct x end; unfold opwf; cbn; rewrite ?Eo; auto.
Qed.
Lemma opwf_grd_reload nd lc : is_load (n_op nd) = false -> opwf (grd_reload nd lc).
Proof. intros Hl. unfold grd_reload, opwf. destruct (5 <=? lc)%nat; cbn; auto. Qed.
Lemma opwf_load_reload nd la : is_load (n_op nd) = true -> opwf (load_reload nd la).
Proof. intros Hl. unfold load_reload, opwf. destruct (5 <=? la)%nat; cbn; auto. Qed.
Lemma opwf_main_retry nd : is_load (n_op nd) = false -> opwf (main_retry nd).
Proof. intros Hl. unfold main_retry, opwf. destruct (max_att (n_op nd) <=? n_att nd)%nat; cbn; auto. Qed.
Lemma opwf_load_iter nd la rest acc pick : is_load (n_op nd) = true -> opwf (load_iter nd la rest acc pick).
Proof.
  intros Hl. unfold load_iter, opwf. destruct rest; [cbn; auto|].
  destruct (aget (sn_reg (n_reg nd)) (choose pick (n :: rest))); cbn; auto.
Qed.
Lemma opwf_gdc_ok nd c d cs pick : is_load (n_op nd) = ctx_load c -> opwf (gdc_ok nd c d cs pick).
Proof. destruct c; cbn; intros H; [now apply opwf_grd_return | now apply opwf_load_iter]. Qed.
Lemma opwf_gdc_reload nd c : is_load (n_op nd) = ctx_load c -> opwf (gdc_reload nd c).
Proof. destruct c; cbn; intros H; [now apply opwf_grd_reload | now apply opwf_load_reload]. Qed.

Lemma do_step_opwf st nd ex pk st' nd' b : do_step st nd ex pk = (st', nd', b) -> opwf nd -> opwf nd'.
Proof.
  unfold do_step. intros H Hwf. unfold opwf in Hwf.
  destruct (n_pc nd) eqn:Hpc;
    repeat match type of H with
    | context [match ?x with _ => _ end] => destruct x eqn:?
    | context [if ?x then _ else _] => destruct x eqn:?
    end; injection H as <- <- <-;
    first [ apply opwf_grd_return; cbn; assumption
          | apply opwf_grd_reload; cbn; assumption
          | apply opwf_main_retry; cbn; assumption
          | apply opwf_gdc_ok; cbn; assumption
          | apply opwf_gdc_reload; cbn; assumption
          | apply opwf_load_iter; cbn; assumption
          | (unfold opwf; cbn; rewrite ?Hpc; cbn; auto; fail)
          | idtac ].
  all: try (unfold opwf; cbn; match goal with M : main_next _ _ = Some _ |- _ => unfold main_next in M end;
            destruct (n_op nd); try destruct cs as [[? ?]|]; try discriminate;
            match goal with M : Some _ = Some _ |- _ => injection M as <- end; reflexivity).
  all: unfold opwf; cbn; rewrite ?Hpc; match goal with E : n_op _ = _ |- _ => rewrite ?E end; cbn; auto.
Qed.

(* ---------- claims of the continuations ---------- *)
Lemma claimsQ_grd_reload st Q nd lc : ClaimsQ st Q (grd_reload nd lc).
Proof. unfold grd_reload. destruct (5 <=? lc)%nat; exact I. Qed.
Lemma claimsQ_load_reload st Q nd la : ClaimsQ st Q (load_reload nd la).
Proof. unfold load_reload. destruct (5 <=? la)%nat; exact I. Qed.
Lemma claimsQ_main_retry st Q nd : ClaimsQ st Q (main_retry nd).
Proof. unfold main_retry. destruct (max_att (n_op nd) <=? n_att nd)%nat; exact I. Qed.
Lemma claimsQ_gdc_reload st Q nd c : ClaimsQ st Q (gdc_reload nd c).
Proof. destruct c; cbn; [apply claimsQ_grd_reload | apply claimsQ_load_reload]. Qed.

Lemma claimsQ_load_iter st Q nd la rest acc pick :
  rest_ok (sn_reg (n_reg nd)) rest -> View st nd -> ClaimsQ st Q (load_iter nd la rest acc pick).
Proof.
  intros Hr Hv. unfold load_iter. destruct rest as [|x r] eqn:Er; [exact I|].
  rewrite <- Er in *. assert (rest <> []) as Hne by (rewrite Er; discriminate).
  destruct (Hr _ (choose_in pick rest Hne)) as (e & He & Hd). rewrite He.
  unfold ClaimsQ. cbn. split; [exists e; auto|]. split; [discriminate | exact Hv].
Qed.

Lemma claimsQ_grd_none st Q nd :
  is_load (n_op nd) = false ->
  (cur st nd -> sn_reg (n_reg nd) = regc st /\ aget (s_cfg st) (op_db (n_op nd)) = None /\
                (aget (regc st) (op_db (n_op nd)) = None \/
                 exists e, aget (regc st) (op_db (n_op nd)) = Some e /\ rv_ver (e_cur e) = v_deleted) /\
                Q (op_db (n_op nd))) ->
  ClaimsQ st Q (grd_return nd None).
Proof.
  intros Hl H. unfold grd_return. destruct (n_op nd) as [d dig cols|d dig cols|d|] eqn:Eo; try discriminate; try exact I.
  cbn in H. destruct (upsert (sn_reg (n_reg nd)) d (1, dig) cols) as [R'|] eqn:U; [|exact I].
  unfold upsert in U. destruct (_ || _); [discriminate|]. injection U as <-.
  unfold ClaimsQ. cbn. rewrite Eo. cbn. split; [exact I|]. intros Hc.
  destruct (H Hc) as (ER & Hcf & Hr & HQ). split; [|split; [exact HQ|]].
  - intros x Hx. cbn. rewrite aget_aset_neq by congruence. now rewrite ER.
  - split; [exact Hcf|]. rewrite aget_aset_eq. eexists. split; [reflexivity|]. split; [reflexivity|]. cbn.
    rewrite ER. destruct Hr as [->|(e & -> & Hv)]; cbn; [now left|]. right. eexists. split; [reflexivity | exact Hv].
Qed.

Lemma claimsQ_grd_some st Q nd cas cf :
  is_load (n_op nd) = false -> cas < s_clock st ->
  (cur st nd -> sn_reg (n_reg nd) = regc st /\ Q (op_db (n_op nd)) /\ live (c_ver cf) /\
                aget (s_cfg st) (op_db (n_op nd)) = Some (cas, cf) /\
                exists e0, aget (regc st) (op_db (n_op nd)) = Some e0 /\ e_cur e0 = RV (c_ver cf) (eff (c_colls cf))) ->
  ClaimsQ st Q (grd_return nd (Some (cas, cf))).
Proof.
  intros Hl Hb H. unfold grd_return. destruct (n_op nd) as [d dig cols|d dig cols|d|] eqn:Eo; try discriminate; try exact I; cbn in H.
  - destruct (upsert (sn_reg (n_reg nd)) d (gen (c_ver cf) + 1, dig) cols) as [R'|] eqn:U; [|exact I].
    unfold upsert in U. destruct (_ || _); [discriminate|]. injection U as <-.
    unfold ClaimsQ. cbn. rewrite Eo. cbn. split; [exact Hb|]. intros Hc.
    destruct (H Hc) as (ER & HQ & Hlive & Hcf & e0 & He0 & Hcur0). split; [|split; [exact HQ|]].
    + intros x Hx. cbn. rewrite aget_aset_neq by congruence. now rewrite ER.
    + split; [exact Hlive|]. split; [eauto|]. split; [eauto|]. rewrite aget_aset_eq. eexists. split; [reflexivity|].
      split; [reflexivity|]. cbn. rewrite ER, He0. cbn. now rewrite Hcur0.
  - destruct (delete_db (sn_reg (n_reg nd)) d) as [R'|] eqn:U; [|exact I].
    unfold delete_db in U. destruct (aget (sn_reg (n_reg nd)) d) as [e|] eqn:He; [|discriminate]. injection U as <-.
    unfold ClaimsQ. cbn. rewrite Eo. cbn. split; [exact Hb|]. intros Hc.
    destruct (H Hc) as (ER & HQ & Hlive & Hcf & e0 & He0 & Hcur0). split; [|split; [exact HQ|]].
    + intros x Hx. cbn. rewrite aget_aset_neq by congruence. now rewrite ER.
    + split; [exact Hlive|]. split; [eauto|]. split; [eauto|]. rewrite aget_aset_eq. eexists. split; [reflexivity|].
      split; [reflexivity|]. cbn. rewrite ER, He0 in He. injection He as <-. now rewrite Hcur0.
Qed.

(* ---------- the give-up conditions ---------- *)
Lemma giveup_facts w nd ex dd :
  gives_up (w_st w) nd ex = Some dd -> hyp_a w nd ex = true -> hyp_b w nd ex = true ->
  (forall j X, nth_error (w_nodes w) j = Some X -> busy inflight_pc dd X = false) /\
  aget (sn_reg (n_reg nd)) dd = aget (regc (w_st w)) dd.
Proof.
  unfold hyp_a, hyp_b. intros ->. intros Ha Hb. apply negb_true_iff in Ha. split.
  - intros j X Hn. eapply existsb_false_nth; eauto.
  - now apply view_ok_eq.
Qed.

(* ---------- the outcome of a step ---------- *)
(* what an acknowledged operation leaves: its change -- or, for a delete, a database that a concurrent writer has
   created again after the config document was deleted (DeleteConfig then leaves that entry alone) *)
Definition acked_r (o : opk) (st : store) : Prop :=
  acked_state o st \/
  exists d e, o = ODelete d /\ aget (regc st) d = Some e /\ is_deleted (rv_ver (e_cur e)) = false.

Definition StepOut (w : world) (i : nat) (nd : node) (st' : store) (nd' : node) : Prop :=
  SInv st' /\ CasB st' /\ effect w i nd st' /\
  ClaimsQ st' (fun d => quiet w d i) nd' /\
  sn_cas (n_reg nd') <= scas st' /\
  (s_reg st' = s_reg (w_st w) -> inflight_pc (n_pc nd') = true -> inflight_pc (n_pc nd) = true) /\
  (active_pc (n_pc nd') = true -> active_pc (n_pc nd) = false ->
   forall j X, j <> i -> nth_error (w_nodes w) j = Some X -> busy active_pc (op_db (n_op nd)) X = true ->
               weakfin X = true /\ n_pc nd' = PInsCfg) /\
  (n_pc nd' = PDone ROk -> n_pc nd <> PDone ROk -> acked_r (n_op nd) st').

Lemma out_same w i nd nd' :
  SInv (w_st w) -> CasB (w_st w) ->
  ClaimsQ (w_st w) (fun d => quiet w d i) nd' -> sn_cas (n_reg nd') <= scas (w_st w) -> calm (n_pc nd') ->
  StepOut w i nd (w_st w) nd'.
Proof.
  intros HS HB HC Hc [Hca Hnok]. split; [exact HS|]. split; [exact HB|]. split; [now apply EffNone|].
  split; [exact HC|]. split; [exact Hc|]. split; [|split].
  - intros _ Hp. unfold active_pc in Hca. rewrite Hp in Hca. discriminate.
  - intros Hp. congruence.
  - intros Hp. contradiction.
Qed.

(* a change of one config document keeps the store invariant *)
Lemma CasB_cfg st st' d :
  CasB st -> s_reg st' = s_reg st -> s_clock st' = s_clock st + 1 ->
  (forall x, x <> d -> aget (s_cfg st') x = aget (s_cfg st) x) ->
  (forall c cf, aget (s_cfg st') d = Some (c, cf) -> c = s_clock st) -> CasB st'.
Proof.
  intros [H1 H2] Hr Hk Ho Hd. split.
  - rewrite (scas_reg _ _ Hr). lia.
  - intros x c cf Hx. destruct (N.eq_dec x d) as [->|Hne].
    + rewrite (Hd _ _ Hx). lia.
    + rewrite Ho in Hx by exact Hne. specialize (H2 _ _ _ Hx). lia.
Qed.

Lemma calm_not_inflight p : calm p -> inflight_pc p = true -> False.
Proof. intros [H _] Hp. unfold active_pc in H. rewrite Hp in H. discriminate. Qed.

Lemma out_calm w i nd st' nd' :
  SInv st' -> CasB st' -> effect w i nd st' ->
  ClaimsQ st' (fun d => quiet w d i) nd' -> sn_cas (n_reg nd') <= scas st' -> calm (n_pc nd') ->
  StepOut w i nd st' nd'.
Proof.
  intros HS HB HE HC Hc Hcalm. split; [exact HS|]. split; [exact HB|]. split; [exact HE|].
  split; [exact HC|]. split; [exact Hc|]. destruct Hcalm as [Hca Hnok]. split; [|split].
  - intros _ Hp. unfold active_pc in Hca. rewrite Hp in Hca. discriminate.
  - intros Hp. congruence.
  - intros Hp. contradiction.
Qed.

Lemma out_gen_r w i nd st' nd' :
  SInv st' -> CasB st' -> effect w i nd st' ->
  ClaimsQ st' (fun d => quiet w d i) nd' -> sn_cas (n_reg nd') <= scas st' ->
  (inflight_pc (n_pc nd') = true -> inflight_pc (n_pc nd) = true) ->
  (active_pc (n_pc nd') = true -> active_pc (n_pc nd) = true) ->
  (n_pc nd' = PDone ROk -> acked_r (n_op nd) st') ->
  StepOut w i nd st' nd'.
Proof.
  intros HS HB HE HC Hc H1 H2 H3. repeat (split; [assumption|]). split; [auto|]. split; [|auto].
  intros Hp Hq. rewrite (H2 Hp) in Hq. discriminate.
Qed.
Lemma out_gen w i nd st' nd' :
  SInv st' -> CasB st' -> effect w i nd st' ->
  ClaimsQ st' (fun d => quiet w d i) nd' -> sn_cas (n_reg nd') <= scas st' ->
  (inflight_pc (n_pc nd') = true -> inflight_pc (n_pc nd) = true) ->
  (active_pc (n_pc nd') = true -> active_pc (n_pc nd) = true) ->
  (n_pc nd' = PDone ROk -> acked_state (n_op nd) st') ->
  StepOut w i nd st' nd'.
Proof. intros HS HB HE HC Hc H1 H2 H3. apply out_gen_r; auto. intros Hp. left. auto. Qed.

Lemma reg_write_out st nd k st1 :
  SInv st -> CasB st -> cur st nd ->
  st1 = ST (Some (s_clock st, sn_reg (n_reg nd))) (s_cfg st) (s_clock st + 1) ->
  Mod st nd k -> linked (aget (sn_reg (n_reg nd)) k) (aget (s_cfg st) k) ->
  SInv st1 /\ CasB st1 /\ regc st1 = sn_reg (n_reg nd) /\ scas st1 = s_clock st /\ s_cfg st1 = s_cfg st /\
  s_clock st1 = s_clock st + 1 /\ s_reg st1 <> s_reg st.
Proof.
  intros (HL & HC & HK) (HB1 & HB2) Hcur -> Hmod Hk. repeat split.
  - intros x. unfold regc, read_reg. cbn. destruct (N.eq_dec x k) as [->|Hne]; [exact Hk|].
    rewrite Hmod by exact Hne. apply HL.
  - cbn. intros c R [= <- _]. exact HK.
  - cbn. lia.
  - cbn. lia.
  - cbn. intros d c cf Hd. specialize (HB2 _ _ _ Hd). lia.
  - cbn. intros E. unfold scas, read_reg in HB1. rewrite <- E in HB1. cbn in HB1. lia.
Qed.

Lemma cfg_touch_fresh st d cas st' c' : cfg_touch st d cas = Some (st', c') -> c' = s_clock st.
Proof.
  unfold cfg_touch. destruct (aget (s_cfg st) d) as [[c0 cf0]|]; [|discriminate].
  destruct (c0 =? cas); [|discriminate]. now intros [= _ <-].
Qed.
Lemma cfg_write_fresh st d cas cf st' c' : cfg_write st d cas cf = Some (st', c') -> c' = s_clock st.
Proof.
  unfold cfg_write. destruct (aget (s_cfg st) d) as [[c0 cf0]|]; [|discriminate].
  destruct (c0 =? cas); [|discriminate]. now intros [= _ <-].
Qed.

Lemma linked_not_invalid e co :
  linked (Some e) co -> is_deleted (rv_ver (e_cur e)) = false -> is_invalid (rv_ver (e_cur e)) = false.
Proof.
  intros HL Hnd. destruct co as [[c cf]|]; cbn in HL.
  - destruct HL as [Hlive [H|[[_ H]|[H _]]]].
    + rewrite H. cbn. now apply live_not_invalid.
    + apply live_not_invalid. unfold live. lia.
    + rewrite H in Hnd. discriminate.
  - destruct HL as [[H _]|[H _]]; [now apply live_not_invalid | rewrite H in Hnd; discriminate].
Qed.

Lemma busy_active_split d X : busy active_pc d X = busy inflight_pc d X || busy final_pc d X.
Proof. unfold busy, active_pc. destruct (negb (n_crashed X)), (op_db (n_op X) =? d), (inflight_pc (n_pc X)), (final_pc (n_pc X)); reflexivity. Qed.

Lemma alone_of_active w i nd d :
  OneActive w -> nth_error (w_nodes w) i = Some nd -> busy active_pc d nd = true ->
  weakfin nd = false -> n_pc nd <> PInsCfg -> nobusy active_pc d w i.
Proof.
  intros Hone Hi Hb Hwk Hp j X Hj Hn. destruct (busy active_pc d X) eqn:E; [|reflexivity]. exfalso.
  destruct (Hone i j nd X d (fun E0 => Hj (eq_sym E0)) Hi Hn Hb E) as [[A _]|[_ A]]; congruence.
Qed.

(* how the phases follow each other *)
Lemma do_step_phase st nd ex pk st' nd' b :
  do_step st nd ex pk = (st', nd', b) ->
  (final_pc (n_pc nd) = true -> active_pc (n_pc nd') = true -> final_pc (n_pc nd') = true) /\
  (n_pc nd = PInsCfg -> active_pc (n_pc nd') = true -> n_pc nd' = PInsCfg).
Proof.
  unfold do_step. intros H. destruct (n_pc nd) eqn:Hpc; (split; [intros Hf; try discriminate | intros Hp; try discriminate]).
  - destruct (n_op nd); [|injection H as <- <- <-; auto ..].
    destruct (cfg_insert st _ _); injection H as <- <- <-; cbn; discriminate.
  - cbn [n_reg set_reg sn_reg] in H.
    destruct (n_op nd);
      repeat match type of H with
      | context [match ?x with _ => _ end] => destruct x
      | context [if ?x then _ else _] => destruct x
      end; injection H as <- <- <-; cbn; auto.
  - repeat match type of H with
    | context [match ?x with _ => _ end] => destruct x
    | context [if ?x then _ else _] => destruct x
    end; injection H as <- <- <-; cbn; auto.
Qed.
Lemma nobusy_active_inflight w i d : nobusy active_pc d w i -> quiet w d i.
Proof. intros H j X Hj Hn. specialize (H j X Hj Hn). rewrite busy_active_split in H. now apply orb_false_iff in H as [H _]. Qed.
Lemma nobusy_active_final w i d : nobusy active_pc d w i -> nobusy final_pc d w i.
Proof. intros H j X Hj Hn. specialize (H j X Hj Hn). rewrite busy_active_split in H. now apply orb_false_iff in H as [_ H]. Qed.
