(* C15: racing runs -- the invariant along every schedule that satisfies the conditions of ProtoRace.v, and the
   theorems: version_linkage, registry_ownership, acked_not_lost for ALL interleavings. *)
From SG Require Import Base.Prelude C15.ConfigProto C15.ProtoOwn C15.ProtoLocal C15.ProtoSeq C15.ProtoRace
  C15.ProtoRaceInv C15.ProtoRaceOther C15.ProtoRaceStep C15.ProtoRaceSelf.
Open Scope N_scope.

Lemma claimsQ_mono st (Q Q' : N -> Prop) nd : (forall d, Q d -> Q' d) -> ClaimsQ st Q nd -> ClaimsQ st Q' nd.
Proof.
  intros HQ HC. unfold ClaimsQ in *. destruct (n_pc nd); try exact HC.
  - destruct v as [pv|]; [|exact HC]. destruct HC as (He & Hb & H1 & H2).
    split; [exact He|]. split; [exact Hb|]. split.
    + intros cf Hcf. destruct (H1 cf Hcf). auto.
    + intros Hc. destruct (H2 Hc) as (A & B & C). auto.
  - intros Hc. destruct (HC Hc) as (A & B & C). auto.
  - destruct HC as (A & B & C & D & E). repeat (split; [assumption|]). intros Hc. destruct (E Hc). auto.
  - intros Hc. destruct (HC Hc) as (k & A & B & C). exists k. auto.
  - destruct HC as (A & B). split; [exact A|]. intros Hc. destruct (B Hc) as (B1 & B2 & B3). auto.
Qed.

Lemma ev_ok_step w i ex pk nd :
  ev_ok w (Step i ex pk) = true -> nth_error (w_nodes w) i = Some nd -> n_crashed nd = false -> is_done nd = false ->
  hyp_a w nd ex = true /\ hyp_b w nd ex = true /\ hyp_c w nd = true /\ hyp_d w nd = true.
Proof.
  unfold ev_ok, ev_hyp. intros H Hn Hc Hd. rewrite Hn, Hc, Hd in H. cbn in H.
  apply andb_true_iff in H as [H H4]. apply andb_true_iff in H as [H H3]. apply andb_true_iff in H as [H1 H2]. auto.
Qed.

Lemma scas_effect w i nd st' : CasB (w_st w) -> effect w i nd st' -> scas (w_st w) <= scas st'.
Proof.
  intros [HB _] [->|k (_ & -> & _)|d (Hr & _)].
  - lia.
  - unfold scas at 2. cbn. lia.
  - rewrite (scas_reg _ _ Hr). lia.
Qed.

Lemma step_WI w e : WI w -> ev_ok w e = true -> WI (step w e).
Proof.
  intros HW Hok. pose proof HW as (HS & HB & Hbad & Hone & HN). destruct e as [i ex pk|i]; cbn.
  - destruct (nth_error (w_nodes w) i) as [nd|] eqn:Hi; [|exact HW].
    destruct (n_crashed nd) eqn:Hal; [exact HW|]. destruct (is_done nd) eqn:Hdn; [exact HW|]. cbn.
    destruct (do_step (w_st w) nd ex pk) as [[st' nd'] b] eqn:D.
    destruct (ev_ok_step _ _ _ _ _ Hok Hi Hal Hdn) as (Ha & Hb & Hc & Hd).
    destruct (step_self _ _ _ _ _ _ _ _ HW Hi Hal Hdn Ha Hb Hc Hd D) as (-> & HS' & HB' & Heff & HCl & Hcas' & Htr & Hact & _).
    destruct (HN _ _ Hi) as (_ & Hwf & HLI & _).
    pose proof (do_step_op _ _ _ _ _ _ _ D) as Hop.
    pose proof (do_step_opwf _ _ _ _ _ _ _ D Hwf) as Hwf'.
    pose proof (do_step_load_inv _ _ _ _ _ _ _ D HLI) as HLI'.
    assert (forall f d, (f (n_pc nd') = true -> f (n_pc nd) = true) -> busy f d nd' = true -> busy f d nd = true) as Hbz.
    { intros f d Hf Hbz. apply busy_true in Hbz as (_ & Hd0 & Hp). apply busy_intro; auto. now rewrite <- Hop. }
    split; [exact HS'|]. split; [exact HB'|]. split; [cbn; now rewrite Hbad|]. split.
    + (* at most one alive active node per database *)
      destruct (do_step_phase _ _ _ _ _ _ _ D) as [Hph1 Hph2].
      assert (forall j X d, j <> i -> nth_error (w_nodes w) j = Some X -> busy active_pc d nd' = true -> busy active_pc d X = true ->
                (weakfin nd' = true /\ n_pc X = PInsCfg) \/ (weakfin X = true /\ n_pc nd' = PInsCfg)) as Hpair.
      { intros j X d Hj Hn B1 B2. pose proof (busy_true _ _ _ B1) as (_ & Hd0 & Hp).
        destruct (active_pc (n_pc nd)) eqn:Eact.
        - assert (busy active_pc d nd = true) as B0 by (apply Hbz; auto).
          destruct (Hone i j nd X d (fun E0 => Hj (eq_sym E0)) Hi Hn B0 B2) as [[Hw Hx]|[Hw Hx]].
          + left. split; [|exact Hx]. unfold weakfin in *. apply andb_true_iff in Hw as [Hw1 Hw2].
            rewrite (Hph1 Hw1 Hp), Hop. exact Hw2.
          + right. split; [exact Hw | exact (Hph2 Hx Hp)].
        - right. rewrite Hop in Hd0. subst d. exact (Hact Hp eq_refl j X Hj Hn B2). }
      intros a c na nc d Hac Hna Hnc B1 B2. cbn in Hna, Hnc.
      destruct (Nat.eq_dec a i) as [->|Hai]; destruct (Nat.eq_dec c i) as [->|Hci].
      * contradiction.
      * rewrite (nth_error_set_nth_eq _ _ _ _ Hi) in Hna. injection Hna as <-.
        rewrite nth_error_set_nth_neq in Hnc by congruence. eapply Hpair; eauto.
      * rewrite (nth_error_set_nth_eq _ _ _ _ Hi) in Hnc. injection Hnc as <-.
        rewrite nth_error_set_nth_neq in Hna by congruence.
        destruct (Hpair a na d Hai Hna B2 B1) as [?|?]; [now right | now left].
      * rewrite nth_error_set_nth_neq in Hna, Hnc by congruence. exact (Hone a c na nc d Hac Hna Hnc B1 B2).
    + intros j X Hj. cbn in Hj. destruct (Nat.eq_dec j i) as [->|Hji].
      * rewrite (nth_error_set_nth_eq _ _ _ _ Hi) in Hj. injection Hj as <-.
        split; [exact Hcas'|]. split; [exact Hwf'|]. split; [exact HLI'|]. intros _.
        unfold Claims. cbn [w_st]. eapply claimsQ_mono; [|exact HCl]. intros d Hq. now apply nobusy_set_nth.
      * rewrite nth_error_set_nth_neq in Hj by congruence. destruct (HN _ _ Hj) as (HcX & HwX & HlX & HClX).
        split; [cbn; pose proof (scas_effect _ _ _ _ HB Heff); lia|]. split; [exact HwX|]. split; [exact HlX|]. intros HalX.
        specialize (HClX HalX). destruct Heff as [Est|k HR|d0 HCW].
        -- eapply claims_other_none; eauto. intros d. apply Hbz. apply Htr. now rewrite Est.
        -- eapply claims_other_reg; eauto.
        -- eapply claims_other_cfg; eauto. intros d. apply Hbz. apply Htr. exact (proj1 HCW).
  - (* crash *)
    destruct (nth_error (w_nodes w) i) as [nd|] eqn:Hi; [|exact HW].
    set (ndc := ND (n_op nd) (n_att nd) (n_reg nd) (n_pc nd) (n_own nd) true).
    assert (forall f d, busy f d ndc = false) as Hbz by reflexivity.
    split; [exact HS|]. split; [exact HB|]. split; [exact Hbad|]. split.
    + intros a c na nc d Hac Hna Hnc B1 B2. cbn in Hna, Hnc.
      destruct (Nat.eq_dec a i) as [->|Hai].
      * rewrite (nth_error_set_nth_eq _ _ _ _ Hi) in Hna. injection Hna as <-. rewrite Hbz in B1. discriminate.
      * destruct (Nat.eq_dec c i) as [->|Hci].
        -- rewrite (nth_error_set_nth_eq _ _ _ _ Hi) in Hnc. injection Hnc as <-. rewrite Hbz in B2. discriminate.
        -- rewrite nth_error_set_nth_neq in Hna, Hnc by congruence. exact (Hone a c na nc d Hac Hna Hnc B1 B2).
    + intros j X Hj. cbn in Hj. destruct (Nat.eq_dec j i) as [->|Hji].
      * rewrite (nth_error_set_nth_eq _ _ _ _ Hi) in Hj. injection Hj as <-. destruct (HN _ _ Hi) as (A & B & C & _).
        split; [exact A|]. split; [exact B|]. split; [exact C|]. cbn. discriminate.
      * rewrite nth_error_set_nth_neq in Hj by congruence. destruct (HN _ _ Hj) as (A & B & C & HClX).
        split; [exact A|]. split; [exact B|]. split; [exact C|]. intros HalX. specialize (HClX HalX).
        unfold Claims in *. cbn [w_st]. eapply claimsQ_mono; [|exact HClX].
        intros d Hq j0 X0 Hj0 Hn0. cbn in Hn0. destruct (Nat.eq_dec j0 i) as [->|Hne].
        -- rewrite (nth_error_set_nth_eq _ _ _ _ Hi) in Hn0. injection Hn0 as <-. apply Hbz.
        -- rewrite nth_error_set_nth_neq in Hn0 by congruence. eauto.
Qed.

Lemma WI_init ops : WI (init_world init_store ops).
Proof.
  assert (forall j nd, nth_error (map init_node ops) j = Some nd -> exists o, nd = init_node o) as Hin.
  { intros j nd Hn. apply nth_error_In, in_map_iff in Hn as (o & <- & _). eauto. }
  split; [apply SInv_init|]. split; [split; [reflexivity | intros d c cf H; discriminate]|]. split; [reflexivity|]. split.
  - intros a c na nc d _ Hna _ B1 _. cbn in Hna. destruct (Hin _ _ Hna) as (o & ->).
    apply busy_true in B1 as (_ & _ & Hp). destruct o; discriminate.
  - intros j nd Hn. cbn in Hn. destruct (Hin _ _ Hn) as (o & ->). split; [cbn; unfold scas; cbn; lia|].
    split; [destruct o; reflexivity|]. split; [destruct o; exact I|]. intros _. destruct o; exact I.
Qed.

Lemma run_WI evs : forall w, WI w -> all_along ev_ok w evs = true -> WI (fold_left step evs w).
Proof.
  induction evs as [|e r IH]; intros w HW H; cbn in *; [exact HW|].
  apply andb_true_iff in H as [H1 H2]. apply IH; [now apply step_WI | exact H2].
Qed.

Theorem race_invariant ops evs : race_hyps ops evs = true -> WI (run ops evs).
Proof. rewrite race_hyps_all. intros H. apply run_WI; [apply WI_init | exact H]. Qed.

(* ---------- the theorems ---------- *)
Theorem version_linkage_racing ops evs d :
  race_hyps ops evs = true ->
  linked (aget (regc (w_st (run ops evs))) d) (aget (s_cfg (w_st (run ops evs))) d).
Proof. intros H. destruct (race_invariant ops evs H) as ((HL & _) & _). apply HL. Qed.

Theorem no_bad_adopt_racing ops evs : race_hyps ops evs = true -> w_bad (run ops evs) = false.
Proof. intros H. destruct (race_invariant ops evs H) as (_ & _ & Hb & _). exact Hb. Qed.

Theorem registry_ownership_racing ops evs R c :
  race_hyps ops evs = true -> s_reg (w_st (run ops evs)) = Some (c, R) -> Own R.
Proof. intros H. apply registry_ownership_all. now apply no_bad_adopt_racing. Qed.

Lemma all_along_app f w a b : all_along f w (a ++ b) = all_along f w a && all_along f (fold_left step a w) b.
Proof. revert w. induction a as [|e a IH]; intros w; cbn; [reflexivity|]. rewrite IH. now rewrite andb_assoc. Qed.

(* the step that acknowledges a change leaves exactly that change in the store (for a delete: or a database that a
   concurrent writer created again after the config document was deleted -- acked_r) *)
Theorem acked_visible_racing ops evs i ex pk nd nd' :
  race_hyps ops (evs ++ [Step i ex pk]) = true ->
  nth_error (w_nodes (run ops evs)) i = Some nd -> n_pc nd <> PDone ROk ->
  nth_error (w_nodes (run ops (evs ++ [Step i ex pk]))) i = Some nd' -> n_pc nd' = PDone ROk ->
  acked_r (n_op nd') (w_st (run ops (evs ++ [Step i ex pk]))).
Proof.
  rewrite race_hyps_all, all_along_app. intros H Hn Hnok Hn' Hok'. apply andb_true_iff in H as [H1 H2].
  fold (run_from init_store ops evs) in H2. fold (run ops evs) in H2.
  pose proof (run_WI _ _ (WI_init ops) H1) as HW. fold (run_from init_store ops evs) in HW. fold (run ops evs) in HW.
  cbn in H2. apply andb_true_iff in H2 as [Hev _].
  unfold run, run_from in Hn' |- *. rewrite fold_left_app in Hn' |- *. fold (run_from init_store ops evs) in Hn' |- *.
  fold (run ops evs) in Hn' |- *. cbn in Hn' |- *. rewrite Hn in Hn' |- *.
  destruct (n_crashed nd) eqn:Hal; [cbn in Hn'; rewrite Hn in Hn'; injection Hn' as <-; contradiction|].
  destruct (is_done nd) eqn:Hdn; [cbn in Hn'; rewrite Hn in Hn'; injection Hn' as <-; contradiction|]. cbn in Hn' |- *.
  destruct (do_step (w_st (run ops evs)) nd ex pk) as [[st1 nd1] b] eqn:D. cbn in Hn' |- *.
  rewrite (nth_error_set_nth_eq _ _ _ _ Hn) in Hn'. injection Hn' as <-.
  destruct (ev_ok_step _ _ _ _ _ Hev Hn Hal Hdn) as (Ha & Hb & Hc & Hd).
  destruct (step_self _ _ _ _ _ _ _ _ HW Hn Hal Hdn Ha Hb Hc Hd D) as (_ & _ & _ & _ & _ & _ & _ & _ & Hack).
  rewrite (do_step_op _ _ _ _ _ _ _ D). auto.
Qed.

(* a step of a node that does not target a steady database leaves its entry and its config document alone *)
Lemma step_frame w e d :
  WI w -> ev_ok w e = true -> steady (w_st w) d ->
  (forall i ex pk nd, e = Step i ex pk -> nth_error (w_nodes w) i = Some nd -> is_load (n_op nd) = true \/ d <> op_db (n_op nd)) ->
  same_db (w_st w) (w_st (step w e)) d.
Proof.
  intros HW Hok Hst Hops. pose proof HW as (HS & HB & Hbad & Hone & HN). destruct e as [i ex pk|i]; cbn.
  2:{ destruct (nth_error (w_nodes w) i); apply same_db_refl. }
  destruct (nth_error (w_nodes w) i) as [nd|] eqn:Hi; [|apply same_db_refl].
  destruct (n_crashed nd) eqn:Hal; [apply same_db_refl|]. destruct (is_done nd) eqn:Hdn; [apply same_db_refl|]. cbn.
  destruct (do_step (w_st w) nd ex pk) as [[st' nd'] b] eqn:D. cbn.
  destruct (ev_ok_step _ _ _ _ _ Hok Hi Hal Hdn) as (Ha & Hb & Hc & Hd).
  destruct (step_self _ _ _ _ _ _ _ _ HW Hi Hal Hdn Ha Hb Hc Hd D) as (_ & _ & _ & Heff & _).
  destruct (HN _ _ Hi) as (_ & Hwf & _).
  specialize (Hops i ex pk nd eq_refl Hi).
  destruct Heff as [->|k (Hcur & Est & Hmod & _ & _ & _ & _ & Hkey)|d0 (Hr & _ & Hsame & _ & Hkind)].
  - apply same_db_refl.
  - assert (k <> d) as Hkd.
    { destruct (is_load (n_op nd)) eqn:El; [intros ->; contradiction|]. destruct Hops as [?|Hops]; [discriminate|]. congruence. }
    rewrite Est. split; [unfold regc, read_reg; cbn; apply Hmod; congruence | reflexivity].
  - split; [now rewrite (regc_reg _ _ Hr)|]. destruct (N.eq_dec d d0) as [->|Hne]; [|now rewrite Hsame].
    destruct Hkind as [(cas & cf & e & A & B & _)|[(Hp & Hd0)|(Hd0 & Hl & _)]].
    + now rewrite A, B.
    + exfalso. pose proof (opwf_inflight _ Hwf Hp) as Hl. destruct Hops as [?|Hops]; congruence.
    + exfalso. destruct Hops as [?|Hops]; congruence.
Qed.

Lemma frame_run ops d evs : forall w st0,
  WI w -> all_along ev_ok w evs = true -> ops_fixed ops w ->
  steady st0 d -> same_db st0 (w_st w) d ->
  (forall i o, steps_of evs i -> nth_error ops i = Some o -> is_load o = true \/ d <> op_db o) ->
  same_db st0 (w_st (fold_left step evs w)) d.
Proof.
  induction evs as [|e evs IH]; intros w st0 HW Hall HF Hst Hsame Hops; cbn in *; [exact Hsame|].
  apply andb_true_iff in Hall as [Hev Hall].
  apply (IH (step w e) st0); auto.
  - now apply step_WI.
  - now apply ops_fixed_step.
  - eapply same_db_trans; [exact Hsame|]. apply step_frame; auto.
    + eapply steady_same; eauto.
    + intros i ex pk nd -> Hn. apply (Hops i (n_op nd)); [exists ex, pk; now left | now apply HF].
  - intros i o (ex & pk & Hin). apply Hops. exists ex, pk. now right.
Qed.

(* acked_not_lost, ALL interleavings under the schedule conditions: once a database is steady (in particular
   after an acknowledged create or update: acked_visible_racing), every later step of a node that does not target
   it leaves its registry entry and its config document exactly as they are *)
Theorem acked_not_lost_racing ops evs1 evs2 d :
  race_hyps ops (evs1 ++ evs2) = true ->
  steady (w_st (run ops evs1)) d ->
  (forall i o, steps_of evs2 i -> nth_error ops i = Some o -> is_load o = true \/ d <> op_db o) ->
  same_db (w_st (run ops evs1)) (w_st (run ops (evs1 ++ evs2))) d.
Proof.
  rewrite race_hyps_all, all_along_app. intros H Hst Hops. apply andb_true_iff in H as [H1 H2].
  unfold run, run_from. rewrite fold_left_app.
  eapply frame_run; eauto.
  - apply run_WI; [apply WI_init | exact H1].
  - apply ops_fixed_run, ops_fixed_init.
  - apply same_db_refl.
Qed.
