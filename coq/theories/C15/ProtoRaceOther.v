(* C15: racing runs -- the claims of a node are preserved by the steps of the other nodes. *)
From SG Require Import Base.Prelude C15.ConfigProto C15.ProtoOwn C15.ProtoLocal C15.ProtoSeq C15.ProtoRace C15.ProtoRaceInv.
Open Scope N_scope.

Lemma opwf_inflight nd : opwf nd -> inflight_pc (n_pc nd) = true -> is_load (n_op nd) = false.
Proof. unfold opwf. destruct (n_pc nd); try discriminate; auto. Qed.
Lemma opwf_final nd : opwf nd -> final_pc (n_pc nd) = true -> is_load (n_op nd) = false.
Proof. unfold opwf. destruct (n_pc nd); try discriminate; auto. Qed.

Lemma acked_update_steady st d dig cols : acked_state (OUpdate d dig cols) st -> steady st d.
Proof. intros (e & c & g & He & Hcur & Hc). exists e, c, (CF (g, dig) cols). auto. Qed.

Section Other.
  Variables (w : world) (i : nat) (nd nd' : node) (st' : store) (b : bool).
  Hypothesis HW : WI w.
  Hypothesis Hi : nth_error (w_nodes w) i = Some nd.
  Hypothesis Hal : n_crashed nd = false.
  Hypothesis Hop : n_op nd' = n_op nd.
  Hypothesis Hwf' : opwf nd'.
  Let w' := W st' (set_nth i nd' (w_nodes w)) b.

  Lemma quiet_keep d j :
    j <> i -> quiet w d j -> (busy inflight_pc d nd' = true -> busy inflight_pc d nd = true) -> quiet w' d j.
  Proof.
    intros Hji Hq Hb j0 X0 Hj0 Hn. cbn in Hn. destruct (Nat.eq_dec j0 i) as [->|Hne].
    - rewrite (nth_error_set_nth_eq _ _ _ _ Hi) in Hn. injection Hn as <-.
      destruct (busy inflight_pc d nd') eqn:E; [|reflexivity].
      rewrite <- (Hq i nd (fun E0 => Hji (eq_sym E0)) Hi). symmetry. now apply Hb.
    - rewrite nth_error_set_nth_neq in Hn by congruence. eauto.
  Qed.

  (* ----- another node persisted the registry ----- *)
  Lemma claims_other_reg k j X :
    RegW w i nd st' k -> j <> i -> nth_error (w_nodes w) j = Some X -> n_crashed X = false ->
    Claims w j X -> Claims w' j X.
  Proof.
    intros (Hcur & Est & Hmod & Hq & HpreA & HpreC & HpreD & Hkey) Hji Hj HalX HC.
    destruct HW as (HS & (HB1 & HB2) & _ & Hone & HN).
    destruct (HN _ _ Hj) as (HcasX & HwfX & _ & _).
    set (st := w_st w) in *.
    assert (s_cfg st' = s_cfg st) as Ecfg by (rewrite Est; reflexivity).
    assert (s_clock st' = s_clock st + 1) as Eclk by (rewrite Est; reflexivity).
    assert (regc st' = sn_reg (n_reg nd)) as Ereg by (rewrite Est; reflexivity).
    assert (scas st' = s_clock st) as Ecas by (rewrite Est; reflexivity).
    assert (~ cur st' X) as Hnc.
    { unfold cur. rewrite Ecas. fold st in HcasX, HB1. lia. }
    assert (forall x, x <> k -> aget (regc st') x = aget (regc st) x) as Hsame.
    { intros x Hx. rewrite Ereg. now apply Hmod. }
    assert (forall d, busy inflight_pc d nd' = true -> busy inflight_pc d nd = true \/ k = d) as Hnew.
    { intros d Hb. right. apply busy_true in Hb as (_ & Hd & Hp).
      pose proof (opwf_inflight _ Hwf' Hp) as Hl. rewrite Hop in Hl, Hd. rewrite Hl in Hkey. congruence. }
    assert (forall d, k <> d -> quiet w d j -> quiet w' d j) as Hqk.
    { intros d Hkd Hqd. apply quiet_keep; auto. intros Hb. destruct (Hnew d Hb); [assumption | contradiction]. }
    assert (forall d, steady st' d -> k <> d -> steady st d) as Hsteady.
    { intros d (e & c & cf & He & Hc & Hcu) Hkd. exists e, c, cf. rewrite <- Hsame by congruence. rewrite <- Ecfg. auto. }
    (* X is alive and busy on k: excluded by the writer's side conditions *)
    assert (busy inflight_pc k X = true -> False) as HnoI.
    { intros Hb. rewrite (Hq j X Hji Hj) in Hb. discriminate. }
    unfold Claims, ClaimsQ in *. cbn [w_st w']. fold st in HC |- *. rewrite ?Ecfg, ?Eclk.
    destruct (n_pc X) eqn:Hpc; try exact I.
    - (* PWfcdRead *)
      destruct v; (split; [exact (proj1 HC) | intros Hc; exfalso; exact (Hnc Hc)]).
    - (* PWfcdDel *)
      destruct v as [pv|]; [|exact HC]. destruct HC as (He & Hb & HQ & _).
      split; [exact He|]. split; [lia|]. split; [|intros Hc; exfalso; exact (Hnc Hc)].
      intros cf Hcf. destruct (HQ cf Hcf) as [HR Hqd].
      assert (k <> op_db (n_op X)) as Hkd.
      { intros ->. destruct HpreA as [Hn|(e0 & He0 & Hd0)]; [congruence|].
        destruct He as (e & He & Hdel & _). rewrite HR, He in He0. injection He0 as <-. rewrite Hdel in Hd0. discriminate. }
      split; [rewrite Hsame by congruence; exact HR | now apply Hqk].
    - (* PRbWriteW *) intros Hc. exfalso. exact (Hnc Hc).
    - (* PGdcRead *)
      destruct HC as (H1 & H2 & _). split; [exact H1|]. split; [exact H2|]. intros Hc. exfalso. exact (Hnc Hc).
    - (* PRbTouch *)
      destruct HC as (H1 & H2 & H3 & H4 & _). split; [exact H1|]. split; [lia|]. split; [exact H3|]. split; [exact H4|].
      intros Hc. exfalso. exact (Hnc Hc).
    - (* PRbWriteG *) intros Hc. exfalso. exact (Hnc Hc).
    - (* PMainWrite *)
      destruct HC as (H1 & _). split; [destruct cs as [[? ?]|]; [lia | exact I] | intros Hc; exfalso; exact (Hnc Hc)].
    - (* PInsCfg *)
      destruct HC as (Hns & H).
      assert (k <> op_db (n_op X)) as Hkd.
      { intros ->. apply HnoI. apply busy_intro; auto. now rewrite Hpc. }
      split; [intros Hst; exact (Hns (Hsteady _ Hst Hkd))|].
      destruct (n_op X); try exact H. rewrite Hsame by congruence. exact H.
    - (* PUpdCfg *)
      destruct HC as (Hns & Hb & Hl & He & H).
      assert (k <> op_db (n_op X)) as Hkd.
      { intros ->. apply HnoI. apply busy_intro; auto. now rewrite Hpc. }
      split; [intros Hst; exact (Hns (Hsteady _ Hst Hkd))|]. split; [lia|]. split; [exact Hl|].
      split; [rewrite Hsame by congruence; exact He | exact H].
    - (* PDelCfg *)
      destruct HC as (Hb & Hx & H).
      assert (k <> op_db (n_op X)) as Hkd.
      { intros ->. apply HnoI. apply busy_intro; auto. now rewrite Hpc. }
      split; [lia|]. split; [exact Hx|]. destruct (n_op X); try exact H. rewrite Hsame by congruence. exact H.
    - (* PFinGet *)
      unfold FinClaim in *. destruct (n_op X) as [d dig cols|d dig cols|d|] eqn:Eo; try exact HC.
      + (* update: acked_state is kept because k <> d *)
        assert (k <> d) as Hkd.
        { intros ->. destruct HpreC as [Hns|Hnf].
          - apply Hns. now apply acked_update_steady in HC.
          - specialize (Hnf j X Hji Hj). unfold busy in Hnf. rewrite HalX, Eo, Hpc in Hnf. cbn in Hnf. rewrite N.eqb_refl in Hnf. discriminate. }
        destruct HC as (e & c & g & He & Hcu & Hc). exists e, c, g. rewrite Hsame by congruence. rewrite Ecfg. auto.
      + cbn. rewrite Ecfg. intros e0 He0 Hd0. destruct (N.eq_dec k d) as [->|Hkd].
        * exfalso. destruct HpreD as [Hnd|Hnf].
          -- rewrite Ereg in He0. rewrite (Hnd _ He0) in Hd0. discriminate.
          -- specialize (Hnf j X Hji Hj). unfold busy in Hnf. rewrite HalX, Eo, Hpc in Hnf. cbn in Hnf. rewrite N.eqb_refl in Hnf. discriminate.
        * rewrite Hsame in He0 by congruence. exact (HC e0 He0 Hd0).
    - (* PFinWrite *)
      destruct HC as (HF & _). split; [|intros Hc; exfalso; exact (Hnc Hc)].
      unfold FinClaim in *. destruct (n_op X) as [d dig cols|d dig cols|d|] eqn:Eo; try exact HF.
      + assert (k <> d) as Hkd.
        { intros ->. destruct HpreC as [Hns|Hnf].
          - apply Hns. now apply acked_update_steady in HF.
          - specialize (Hnf j X Hji Hj). unfold busy in Hnf. rewrite HalX, Eo, Hpc in Hnf. cbn in Hnf. rewrite N.eqb_refl in Hnf. discriminate. }
        destruct HF as (e & c & g & He & Hcu & Hc). exists e, c, g. rewrite Hsame by congruence. rewrite Ecfg. auto.
      + cbn. rewrite Ecfg. intros e0 He0 Hd0. destruct (N.eq_dec k d) as [->|Hkd].
        * exfalso. destruct HpreD as [Hnd|Hnf].
          -- rewrite Ereg in He0. rewrite (Hnd _ He0) in Hd0. discriminate.
          -- specialize (Hnf j X Hji Hj). unfold busy in Hnf. rewrite HalX, Eo, Hpc in Hnf. cbn in Hnf. rewrite N.eqb_refl in Hnf. discriminate.
        * rewrite Hsame in He0 by congruence. exact (HF e0 He0 Hd0).
    - (* PLoadLegacy *) intros Hc. exfalso. exact (Hnc Hc).
  Qed.

  (* ----- another node changed a config document (or nothing) ----- *)
  Hypothesis Htr : forall d, busy inflight_pc d nd' = true -> busy inflight_pc d nd = true.

  Lemma claims_other_none j X :
    st' = w_st w -> j <> i -> nth_error (w_nodes w) j = Some X -> Claims w j X -> Claims w' j X.
  Proof.
    intros Est Hji Hj HC.
    assert (forall d, quiet w d j -> quiet w' d j) as Hqk by (intros d Hq; apply quiet_keep; auto).
    unfold Claims, ClaimsQ in *. cbn [w_st w']. rewrite Est.
    destruct (n_pc X) eqn:Hpc; try exact HC.
    - destruct v as [pv|]; [|exact HC]. destruct HC as (He & Hb & HQ & HN).
      split; [exact He|]. split; [exact Hb|]. split.
      + intros cf Hcf. destruct (HQ cf Hcf). auto.
      + intros Hc. destruct (HN Hc) as (A & B & C). auto.
    - intros Hc. destruct (HC Hc) as (A & B & C). auto.
    - destruct HC as (A & B & C & D & E). repeat (split; [assumption|]). intros Hc. destruct (E Hc). auto.
    - intros Hc. destruct (HC Hc) as (k & A & B & C). exists k. auto.
    - destruct HC as (A & B). split; [exact A|]. intros Hc. destruct (B Hc) as (B1 & B2 & B3). auto.
  Qed.

  Lemma cfgw_cases d0 d :
    CfgW w i nd st' d0 -> busy inflight_pc d nd = false ->
    aget (s_cfg st') d = aget (s_cfg (w_st w)) d
    \/ (exists cas cf e, aget (s_cfg (w_st w)) d = Some (cas, cf) /\ aget (s_cfg st') d = Some (s_clock (w_st w), cf) /\
                         aget (regc (w_st w)) d = Some e /\ is_deleted (rv_ver (e_cur e)) = false)
    \/ (aget (s_cfg st') d = None /\ (exists x, aget (s_cfg (w_st w)) d = Some x) /\ quiet w d i /\
        exists e, aget (regc (w_st w)) d = Some e /\ rv_ver (e_cur e) = v_deleted).
  Proof.
    intros (_ & _ & Hsame & _ & Hk) Hnb. destruct (N.eq_dec d d0) as [->|Hne]; [|left; now apply Hsame].
    destruct Hk as [(cas & cf & e & A & B & C & D)|[(Hp & Hd)|(Hd & _ & A & B & C & D)]].
    - right. left. exists cas, cf, e. auto.
    - exfalso. rewrite busy_intro in Hnb; auto; discriminate.
    - right. right. auto.
  Qed.

  (* the claim of a finalizing deleter: while the entry is still the one marked deleted, the config document is gone *)
  Lemma fin_delete_cfg d0 d :
    CfgW w i nd st' d0 ->
    (forall e, aget (regc (w_st w)) d = Some e -> is_deleted (rv_ver (e_cur e)) = true -> aget (s_cfg (w_st w)) d = None) ->
    forall e, aget (regc (w_st w)) d = Some e -> is_deleted (rv_ver (e_cur e)) = true -> aget (s_cfg st') d = None.
  Proof.
    intros (_ & _ & Hsame & _ & Hkind) HC e He Hd.
    destruct (N.eq_dec d d0) as [->|Hne]; [|rewrite Hsame by exact Hne; eauto].
    destruct Hkind as [(cas & cf & e1 & _ & _ & E3 & E4)|[(Hp & Hd0)|(_ & _ & E & _)]]; [| |exact E].
    - rewrite E3 in He. injection He as <-. congruence.
    - exfalso. subst d0. destruct HW as (HS & _ & _ & _ & HN). destruct (HN _ _ Hi) as (_ & _ & _ & HCl).
      specialize (HCl Hal). unfold Claims, ClaimsQ in HCl. destruct (n_pc nd); try discriminate.
      + destruct HCl as (_ & H). destruct (n_op nd); try (exact H). destruct H as (e1 & He1 & Hcur).
        cbn in He, He1. rewrite He1 in He. injection He as <-. rewrite Hcur in Hd. cbn in Hd. discriminate.
      + destruct HCl as (_ & _ & Hlive & (e1 & He1 & Hcur) & _). rewrite He1 in He. injection He as <-.
        rewrite Hcur in Hd. cbn in Hd. rewrite (live_not_deleted _ Hlive) in Hd. discriminate.
      + destruct HCl as (_ & (x & Hx) & _). rewrite (HC e He Hd) in Hx. discriminate.
  Qed.

  Lemma claims_other_cfg d0 j X :
    CfgW w i nd st' d0 -> j <> i -> nth_error (w_nodes w) j = Some X -> n_crashed X = false ->
    Claims w j X -> Claims w' j X.
  Proof.
    intros HCW Hji Hj HalX HC. pose proof HCW as (Hr & Eclk & Hsame & Hfresh & Hkind).
    destruct HW as (HS & (HB1 & HB2) & _ & Hone & HN).
    pose proof (regc_reg _ _ Hr) as Ereg. pose proof (scas_reg _ _ Hr) as Ecas.
    assert (forall d, quiet w d j -> quiet w' d j) as Hqk by (intros d Hq; apply quiet_keep; auto).
    assert (forall d, quiet w d j -> busy inflight_pc d nd = false) as Hqi.
    { intros d Hq. exact (Hq i nd (fun E0 => Hji (eq_sym E0)) Hi). }
    (* an alive active node on d excludes node i being in flight on d *)
    assert (forall d, busy active_pc d X = true -> weakfin X = false -> busy inflight_pc d nd = false) as Hact.
    { intros d Hb Hwk. destruct (busy inflight_pc d nd) eqn:E; [|reflexivity]. exfalso.
      pose proof (busy_true _ _ _ E) as (_ & _ & Hp).
      destruct (Hone i j nd X d (fun E0 => Hji (eq_sym E0)) Hi Hj (busy_active_of_inflight _ _ E) Hb) as [[Hw _]|[Hw _]]; [|congruence].
      unfold weakfin in Hw. destruct (n_pc nd); discriminate. }
    assert (forall d cas, cas < s_clock (w_st w) -> forall cf, aget (s_cfg st') d = Some (cas, cf) -> d <> d0) as Hold.
    { intros d cas Hlt cf Hcf ->. specialize (Hfresh _ _ Hcf). lia. }
    unfold Claims, ClaimsQ in *. cbn [w_st w']. unfold View, cur, Mod in *. rewrite ?Ereg, ?Ecas, ?Eclk.
    destruct (n_pc X) eqn:Hpc; try exact HC.
    - (* PWfcdDel *)
      destruct v as [pv|]; [|exact HC]. destruct HC as (He & Hb & HQ & HNc).
      split; [exact He|]. split; [lia|]. split.
      + intros cf Hcf. pose proof (Hold _ _ Hb _ Hcf) as Hne. rewrite Hsame in Hcf by exact Hne.
        destruct (HQ cf Hcf). auto.
      + intros Hc. destruct (HNc Hc) as (A & B & C). split; [exact A|]. split; [auto|].
        destruct (cfgw_cases d0 (op_db (n_op X)) HCW (Hqi _ B)) as [E|[(cas0 & cf0 & e0 & E1 & E2 & E3 & E4)|(E1 & _)]].
        * now rewrite E.
        * exfalso. destruct He as (e & He & Hdel & _). rewrite A in He. rewrite E3 in He. injection He as <-.
          rewrite Hdel in E4. discriminate.
        * now left.
    - (* PRbWriteW *)
      intros Hc. destruct (HC Hc) as (A & B & C & D). split; [exact A|]. split; [auto|]. split; [exact C|].
      destruct (cfgw_cases d0 (op_db (n_op X)) HCW (Hqi _ B)) as [E|[(cas0 & cf0 & e0 & E1 & _)|(_ & (x & E1) & _)]];
        congruence.
    - (* PRbTouch *)
      destruct HC as (A & B & C & D & E). split; [exact A|]. split; [lia|]. split.
      + intros cf0 Hcf. pose proof (Hold _ _ B _ Hcf) as Hne. rewrite Hsame in Hcf by exact Hne. auto.
      + split; [exact D|]. intros Hc. destruct (E Hc). auto.
    - (* PRbWriteG *)
      intros Hc. destruct (HC Hc) as (k & A & B & C & D). exists k. split; [exact A|]. split; [auto|]. split; [exact C|].
      unfold RbShape in *. rewrite Ereg.
      destruct (cfgw_cases d0 k HCW (Hqi _ B)) as [E|[(cas0 & cf0 & e0 & E1 & E2 & E3 & E4)|(E1 & (x & E2) & _ & e0 & E3 & E4)]].
      + now rewrite E.
      + destruct D as [(D1 & D2)|(e1 & c1 & cf & D1 & D2 & D3 & D4 & D5 & D6)]; [congruence|].
        right. rewrite E1 in D4. injection D4 as <- <-. exists e1, (s_clock (w_st w)), cf0. repeat split; assumption.
      + destruct D as [(D1 & D2)|(e1 & c1 & cf & D1 & D2 & D3 & D4 & D5 & D6)]; [congruence|].
        exfalso. rewrite E3 in D1. injection D1 as <-. rewrite E4 in D2. discriminate.
    - (* PMainWrite *)
      destruct HC as (A & B). split; [destruct cs as [[? ?]|]; [lia | exact I]|].
      intros Hc. destruct (B Hc) as (B1 & B2 & B3). split; [exact B1|]. split; [auto|].
      unfold MShape in *. rewrite Ereg.
      destruct (cfgw_cases d0 (op_db (n_op X)) HCW (Hqi _ B2)) as [E|[(cas0 & cf0 & e0 & E1 & E2 & E3 & E4)|(E1 & (x & E2) & _ & e0 & E3 & E4)]].
      + destruct (n_op X) as [d dig cols|d dig cols|d|]; destruct cs as [[cas cf]|]; try exact B3; cbn in E; now rewrite E.
      + destruct (n_op X) as [d dig cols|d dig cols|d|]; destruct cs as [[cas cf]|]; try exact B3; cbn in E1, E2, E3.
        * destruct B3 as (B3 & _). congruence.
        * destruct B3 as (L1 & (c0 & L2) & L3 & L4). rewrite E1 in L2. injection L2 as <- <-.
          split; [exact L1|]. split; [eauto|]. auto.
        * destruct B3 as (L1 & (c0 & L2) & L3 & L4). rewrite E1 in L2. injection L2 as <- <-.
          split; [exact L1|]. split; [eauto|]. auto.
      + exfalso. destruct (n_op X) as [d dig cols|d dig cols|d|]; destruct cs as [[cas cf]|]; try exact B3; cbn in E1, E2, E3.
        * destruct B3 as (B3 & _). congruence.
        * destruct B3 as (L1 & _ & (e1 & L3 & L4) & _). rewrite E3 in L3. injection L3 as <-. rewrite L4 in E4. cbn in E4.
          rewrite E4 in L1. exact (deleted_not_live L1).
        * destruct B3 as (L1 & _ & (e1 & L3 & L4) & _). rewrite E3 in L3. injection L3 as <-. rewrite L4 in E4. cbn in E4.
          rewrite E4 in L1. exact (deleted_not_live L1).
    - (* PInsCfg *)
      destruct HC as (Hns & H). split; [|exact H]. intros Hst. apply Hns.
      assert (busy active_pc (op_db (n_op X)) X = true) as Hb by (apply busy_intro; auto; now rewrite Hpc).
      destruct Hst as (e & c & cf & He & Hc & Hcu). rewrite Ereg in He.
      destruct (cfgw_cases d0 (op_db (n_op X)) HCW (Hact _ Hb ltac:(unfold weakfin; rewrite Hpc; reflexivity))) as [E|[(cas0 & cf0 & e0 & E1 & E2 & E3 & E4)|(E1 & _)]].
      * exists e, c, cf. rewrite <- E. auto.
      * rewrite E2 in Hc. injection Hc as <- <-. exists e, cas0, cf0. auto.
      * congruence.
    - (* PUpdCfg *)
      destruct HC as (Hns & Hb0 & H). split; [|split; [lia | exact H]]. intros Hst. apply Hns.
      assert (busy active_pc (op_db (n_op X)) X = true) as Hb by (apply busy_intro; auto; now rewrite Hpc).
      destruct Hst as (e & c & cf0 & He & Hc & Hcu). rewrite Ereg in He.
      destruct (cfgw_cases d0 (op_db (n_op X)) HCW (Hact _ Hb ltac:(unfold weakfin; rewrite Hpc; reflexivity))) as [E|[(cas0 & cf1 & e0 & E1 & E2 & E3 & E4)|(E1 & _)]].
      * exists e, c, cf0. rewrite <- E. auto.
      * rewrite E2 in Hc. injection Hc as <- <-. exists e, cas0, cf1. auto.
      * congruence.
    - (* PDelCfg *)
      destruct HC as (Hb0 & (x & Hx) & H). split; [lia|]. split; [|exact H].
      assert (busy inflight_pc (op_db (n_op X)) X = true) as Hbi by (apply busy_intro; auto; now rewrite Hpc).
      pose proof (busy_active_of_inflight _ _ Hbi) as Hb.
      destruct (cfgw_cases d0 (op_db (n_op X)) HCW (Hact _ Hb ltac:(unfold weakfin; rewrite Hpc; reflexivity))) as [E|[(cas0 & cf1 & e0 & E1 & E2 & E3 & E4)|(E1 & _ & Hq & _)]].
      * rewrite E. eauto.
      * rewrite E2. eauto.
      * exfalso. rewrite (Hq j X Hji Hj) in Hbi. discriminate.
    - (* PFinGet *)
      assert (busy active_pc (op_db (n_op X)) X = true) as Hb by (apply busy_intro; auto; now rewrite Hpc).
      unfold FinClaim in *. destruct (n_op X) as [d dig cols|d dig cols|d|] eqn:Eo; try exact HC.
      + assert (weakfin X = false) as Hwk by (unfold weakfin; rewrite Eo; apply andb_false_r).
        pose proof (cfgw_cases d0 d HCW (Hact _ Hb Hwk)) as Hcase.
        pose proof (steady_live _ _ HS (acked_update_steady _ _ _ _ HC)) as (e1 & c1 & cf1 & S1 & S2 & S3 & S4 & S5).
        destruct HC as (e & c & g & He & Hcu & Hc). cbn. rewrite Ereg.
        destruct Hcase as [E|[(cas0 & cf0 & e0 & E1 & E2 & E3 & E4)|(E1 & _ & _ & e0 & E3 & E4)]].
        * exists e, c, g. rewrite E. auto.
        * rewrite E1 in Hc. injection Hc as -> ->. exists e, (s_clock (w_st w)), g. auto.
        * exfalso. rewrite E3 in S1. injection S1 as <-. rewrite E4 in S5. discriminate.
      + cbn. rewrite Ereg. exact (fin_delete_cfg d0 d HCW HC).
    - (* PFinWrite *)
      destruct HC as (HF & Hrest). split; [|exact Hrest].
      assert (busy active_pc (op_db (n_op X)) X = true) as Hb by (apply busy_intro; auto; rewrite Hpc; apply orb_true_r).
      unfold FinClaim in *. destruct (n_op X) as [d dig cols|d dig cols|d|] eqn:Eo; try exact HF.
      + assert (weakfin X = false) as Hwk by (unfold weakfin; rewrite Eo; apply andb_false_r).
        pose proof (cfgw_cases d0 d HCW (Hact _ Hb Hwk)) as Hcase.
        pose proof (steady_live _ _ HS (acked_update_steady _ _ _ _ HF)) as (e1 & c1 & cf1 & S1 & S2 & S3 & S4 & S5).
        destruct HF as (e & c & g & He & Hcu & Hc). cbn. rewrite Ereg.
        destruct Hcase as [E|[(cas0 & cf0 & e0 & E1 & E2 & E3 & E4)|(E1 & _ & _ & e0 & E3 & E4)]].
        * exists e, c, g. rewrite E. auto.
        * rewrite E1 in Hc. injection Hc as -> ->. exists e, (s_clock (w_st w)), g. auto.
        * exfalso. rewrite E3 in S1. injection S1 as <-. rewrite E4 in S5. discriminate.
      + cbn. rewrite Ereg. exact (fin_delete_cfg d0 d HCW HF).
  Qed.
End Other.
