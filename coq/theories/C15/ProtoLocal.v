(* C15: per-node invariants that hold for ALL interleavings, crash points and timer expiries
   (they only concern what one node read and decided):
   - load_consistent: every config returned by a completed GetDatabaseConfigs carries exactly the version that
     the registry read by that node records for the database, and that entry is not marked deleted; every
     database the registry lists as not deleted is returned;
   - rejected operations (not found / already exists / 409) never persisted a change of their own. *)
From SG Require Import Base.Prelude C15.ConfigProto C15.ProtoOwn.
Open Scope N_scope.

Lemma ver_eqb_eq a b : ver_eqb a b = true <-> a = b.
Proof.
  unfold ver_eqb. destruct a as [a1 a2], b as [b1 b2]. cbn. rewrite andb_true_iff, !N.eqb_eq.
  split; [intros [-> ->]; reflexivity | intros [= -> ->]; auto].
Qed.

(* ---------- load_consistent ---------- *)
Definition acc_ok (R : registry) (acc : list (N * config)) : Prop :=
  forall d cf, In (d, cf) acc ->
    exists e, aget R d = Some e /\ rv_ver (e_cur e) = c_ver cf /\ is_deleted (c_ver cf) = false.
Definition rest_ok (R : registry) (rest : list N) : Prop :=
  forall d, In d rest -> exists e, aget R d = Some e /\ is_deleted (rv_ver (e_cur e)) = false.
(* every database the registry lists as not deleted is fetched, being fetched, or still to fetch *)
Definition covers (R : registry) (l : list N) : Prop :=
  forall d e, aget R d = Some e -> is_deleted (rv_ver (e_cur e)) = false -> In d l.

Definition load_inv (nd : node) : Prop :=
  let R := sn_reg (n_reg nd) in
  match n_pc nd with
  | PGdcRead (CLoad la rest acc) d want =>
      acc_ok R acc /\ rest_ok R rest /\ covers R (d :: rest ++ map fst acc) /\
      exists e, aget R d = Some e /\ rv_ver (e_cur e) = want /\ is_deleted want = false
  | PDone (RLoaded l) => acc_ok R l /\ covers R (map fst l)
  | _ => True
  end.

Lemma choose_in pick l : l <> [] -> In (choose pick l) l.
Proof.
  unfold choose. intros Hl. destruct (mem pick l) eqn:M; [now apply mem_in|].
  destruct l; [contradiction | now left].
Qed.

Lemma remove1_in x y l : In y (remove1 x l) <-> In y l /\ y <> x.
Proof.
  unfold remove1. rewrite filter_In. split; intros [H1 H2]; split; auto.
  - intros ->. now rewrite N.eqb_refl in H2.
  - destruct (y =? x) eqn:E; [apply N.eqb_eq in E; contradiction | reflexivity].
Qed.

Lemma load_iter_inv nd la rest acc pick :
  acc_ok (sn_reg (n_reg nd)) acc -> rest_ok (sn_reg (n_reg nd)) rest ->
  covers (sn_reg (n_reg nd)) (rest ++ map fst acc) ->
  load_inv (load_iter nd la rest acc pick).
Proof.
  intros Ha Hr Hc. unfold load_iter. destruct rest as [|x rest'] eqn:Er.
  - unfold load_inv. cbn. split; [exact Ha | exact Hc].
  - rewrite <- Er in *. assert (rest <> []) as Hne by (rewrite Er; discriminate).
    pose proof (choose_in pick rest Hne) as Hin. destruct (Hr _ Hin) as (e & He & Hd).
    rewrite He. unfold load_inv. cbn. repeat split.
    + exact Ha.
    + intros d Hd'. apply remove1_in in Hd' as [Hd' _]. auto.
    + intros d e' He' Hdel. specialize (Hc d e' He' Hdel).
      destruct (N.eq_dec d (choose pick rest)) as [->|Hn]; [now left|]. right.
      apply in_app_or in Hc as [Hc|Hc]; apply in_or_app; [left | now right]. apply remove1_in. auto.
    + exists e. auto.
Qed.

Lemma live_keys_ok R : rest_ok R (live_keys R) /\ covers R (live_keys R ++ []).
Proof.
  split.
  - intros d Hd. unfold live_keys in Hd. apply filter_In in Hd as [_ Hd].
    destruct (aget R d) as [e|]; [|discriminate]. exists e. split; [reflexivity|]. now apply negb_true_iff.
  - intros d e He Hdel. rewrite app_nil_r. unfold live_keys. apply filter_In. split.
    + apply aget_in in He. apply in_map_iff. now exists (d, e).
    + rewrite He. now rewrite Hdel.
Qed.

Lemma load_inv_irrelevant nd nd' :
  n_reg nd' = n_reg nd -> n_pc nd' = n_pc nd -> load_inv nd -> load_inv nd'.
Proof. unfold load_inv. now intros -> ->. Qed.

Ltac li_triv := unfold load_inv; cbn; exact I.

Lemma load_inv_grd_return nd cs : (forall l, n_pc nd <> PDone (RLoaded l)) ->
  (forall la rest acc d w, n_pc nd <> PGdcRead (CLoad la rest acc) d w) -> load_inv (grd_return nd cs).
Proof.
  intros H1 H2. unfold grd_return.
  destruct (n_op nd); repeat match goal with
    | |- context [match ?x with _ => _ end] => destruct x
    end; try li_triv.
  unfold load_inv. destruct (n_pc nd) eqn:E; try exact I.
  - destruct c; try exact I. exfalso. eapply H2. reflexivity.
  - destruct r; try exact I. exfalso. eapply H1. reflexivity.
Qed.

Lemma load_inv_grd_reload nd lc : load_inv (grd_reload nd lc).
Proof. unfold grd_reload. destruct (5 <=? lc)%nat; li_triv. Qed.
Lemma load_inv_load_reload nd la : load_inv (load_reload nd la).
Proof. unfold load_reload. destruct (5 <=? la)%nat; li_triv. Qed.
Lemma load_inv_main_retry nd : load_inv (main_retry nd).
Proof. unfold main_retry. destruct (max_att (n_op nd) <=? n_att nd)%nat; li_triv. Qed.

Lemma do_step_load_inv st nd expired pick st' nd' b :
  do_step st nd expired pick = (st', nd', b) -> load_inv nd -> load_inv nd'.
Proof.
  unfold do_step. intros H HL.
  destruct (n_pc nd) eqn:Hpc.
  - (* PGetReg *)
    cbn [n_reg set_reg sn_reg] in H.
    destruct (aget (sn_reg (read_reg st)) (op_db (n_op nd))) as [e|].
    + destruct (negb (is_deleted (rv_ver (e_cur e)))); [injection H as <- <- <-; li_triv|].
      destruct (e_prev e); injection H as <- <- <-; [li_triv|].
      apply load_inv_grd_return; cbn; rewrite Hpc; discriminate.
    + injection H as <- <- <-. li_triv.
  - destruct (aget (s_cfg st) (op_db (n_op nd))) as [[cas cf]|].
    + destruct (match v with Some pv => negb (ver_eqb pv (c_ver cf)) | None => false end).
      * injection H as <- <- <-. apply load_inv_grd_reload.
      * destruct expired; injection H as <- <- <-; [li_triv|]. unfold load_inv. now rewrite Hpc.
    + injection H as <- <- <-. apply load_inv_grd_return; rewrite Hpc; discriminate.
  - destruct (cfg_delete st (op_db (n_op nd)) cas) as [st1|].
    + destruct v.
      * destruct (aget (sn_reg (n_reg nd)) (op_db (n_op nd))); injection H as <- <- <-; [li_triv|].
        apply load_inv_grd_return; rewrite Hpc; discriminate.
      * injection H as <- <- <-. apply load_inv_grd_return; rewrite Hpc; discriminate.
    + destruct v; injection H as <- <- <-; [|li_triv]. apply load_inv_grd_return; rewrite Hpc; discriminate.
  - destruct (write_reg st (n_reg nd)) as [[st1 sn1]|]; injection H as <- <- <-;
      apply load_inv_grd_return; cbn; rewrite Hpc; discriminate.
  - (* PGdcRead *)
    assert (forall cs, load_inv (gdc_ok nd c d cs pick) \/ True) as _ by (intros; now right).
    destruct (aget (s_cfg st) d) as [[cas cf]|].
    + assert (forall cf', (c_ver cf' = want) ->
              load_inv (gdc_ok nd c d (cas, cf') pick)) as Hok.
      { intros cf' Hv. destruct c as [lc|la rest acc]; cbn.
        - apply load_inv_grd_return; rewrite Hpc; discriminate.
        - unfold load_inv in HL. rewrite Hpc in HL. destruct HL as (Ha & Hr & Hc & e & He & Hw & Hd).
          apply load_iter_inv; [|exact Hr|].
          + intros d' cf'' Hin. apply in_app_or in Hin as [Hin|[Hin|[]]]; [now apply Ha|].
            injection Hin as <- <-. exists e. cbn. rewrite Hv. auto.
          + intros d' e' He' Hdel. specialize (Hc d' e' He' Hdel). rewrite map_app. cbn.
            destruct Hc as [<-|Hc]; [apply in_or_app; right; apply in_or_app; right; now left|].
            apply in_app_or in Hc as [Hc|Hc]; apply in_or_app; [now left | right; apply in_or_app; now left]. }
      destruct (is_invalid want) eqn:Iv.
      { injection H as <- <- <-. apply Hok. cbn. symmetry. now apply ver_eqb_eq. }
      destruct (ver_eqb (c_ver cf) want) eqn:Ev.
      { injection H as <- <- <-. apply Hok. now apply ver_eqb_eq. }
      destruct (gen want <? gen (c_ver cf)); [injection H as <- <- <-; li_triv|].
      destruct expired; injection H as <- <- <-; [li_triv|]. exact HL.
    + destruct expired; [|injection H as <- <- <-; exact HL].
      destruct (aget (sn_reg (n_reg nd)) d); injection H as <- <- <-; li_triv.
  - destruct (cfg_touch st d cas) as [[st1 c1]|]; [|injection H as <- <- <-; li_triv].
    destruct (rollback_db (sn_reg (n_reg nd)) d cf) as [[R' bad]|]; injection H as <- <- <-; li_triv.
  - destruct (write_reg st (n_reg nd)) as [[st1 sn1]|]; injection H as <- <- <-;
      (destruct c; cbn; [apply load_inv_grd_reload | apply load_inv_load_reload]).
  - destruct (main_next (n_op nd) cs) as [p|] eqn:Mn; [|injection H as <- <- <-; li_triv].
    destruct (write_reg st (n_reg nd)) as [[st1 sn1]|]; [|injection H as <- <- <-; apply load_inv_main_retry].
    injection H as <- <- <-. unfold main_next in Mn.
    destruct (n_op nd); try destruct cs as [[? ?]|]; try discriminate; injection Mn as <-; li_triv.
  - destruct (n_op nd); try (injection H as <- <- <-; unfold load_inv; rewrite Hpc; exact I).
    destruct (cfg_insert st _ _); injection H as <- <- <-; li_triv.
  - destruct (cfg_write st _ cas cf) as [[st1 c1]|]; injection H as <- <- <-; li_triv.
  - destruct (cfg_delete st _ cas); injection H as <- <- <-; li_triv.
  - cbn [n_reg set_reg sn_reg] in H. destruct (n_op nd).
    1,2,4: destruct (remove_prev (sn_reg (read_reg st)) _ prevv); injection H as <- <- <-; li_triv.
    destruct (aget (sn_reg (read_reg st)) _) as [e0|]; [destruct (negb (is_deleted (rv_ver (e_cur e0))))|]; injection H as <- <- <-; li_triv.
  - destruct (write_reg st (n_reg nd)) as [[st1 sn1]|]; [injection H as <- <- <-; li_triv|].
    destruct (5 <=? fa)%nat; injection H as <- <- <-; li_triv.
  - injection H as <- <- <-. li_triv.
  - (* PLoadLegacy *)
    injection H as <- <- <-. destruct (live_keys_ok (sn_reg (n_reg nd))) as [Hr Hc].
    apply load_iter_inv; [intros ? ? [] | exact Hr | exact Hc].
  - injection H as <- <- <-. exact HL.
Qed.

(* ---------- rejected operations never persisted their own change ---------- *)
Definition rejection (e : err) : bool :=
  match e with ENotFound | EExists | EConflict => true | _ => false end.

Definition premain (p : pc) : bool :=
  match p with
  | PInsCfg | PUpdCfg _ _ _ | PDelCfg _ | PFinGet _ _ | PFinWrite _ _ | PDone _ => false
  | _ => true
  end.

Definition own_inv (nd : node) : Prop :=
  (premain (n_pc nd) = true -> n_own nd = false) /\
  (forall e, n_pc nd = PDone (RErr e) -> rejection e = true -> n_own nd = false).

Lemma own_inv_false nd : n_own nd = false -> own_inv nd.
Proof. intros H. split; intros; exact H. Qed.

Lemma n_own_grd_return nd cs : n_own (grd_return nd cs) = n_own nd.
Proof.
  unfold grd_return. destruct (n_op nd); repeat match goal with
    | |- context [match ?x with _ => _ end] => destruct x
    end; reflexivity.
Qed.
Lemma n_own_grd_reload nd lc : n_own (grd_reload nd lc) = n_own nd.
Proof. unfold grd_reload. destruct (5 <=? lc)%nat; reflexivity. Qed.
Lemma n_own_load_reload nd la : n_own (load_reload nd la) = n_own nd.
Proof. unfold load_reload. destruct (5 <=? la)%nat; reflexivity. Qed.
Lemma n_own_main_retry nd : n_own (main_retry nd) = n_own nd.
Proof. unfold main_retry. destruct (max_att (n_op nd) <=? n_att nd)%nat; reflexivity. Qed.
Lemma n_own_load_iter nd la rest acc pick : n_own (load_iter nd la rest acc pick) = n_own nd.
Proof.
  unfold load_iter. destruct rest; [reflexivity|].
  destruct (aget (sn_reg (n_reg nd)) (choose pick (n :: rest))); reflexivity.
Qed.
Lemma n_own_gdc_ok nd c d cs pick : n_own (gdc_ok nd c d cs pick) = n_own nd.
Proof. destruct c; cbn; [apply n_own_grd_return | apply n_own_load_iter]. Qed.
Lemma n_own_gdc_reload nd c : n_own (gdc_reload nd c) = n_own nd.
Proof. destruct c; cbn; [apply n_own_grd_reload | apply n_own_load_reload]. Qed.

(* a node that is not before its step-2 write and did not finish with a rejection *)
Lemma own_inv_post nd :
  premain (n_pc nd) = false -> (forall e, n_pc nd = PDone (RErr e) -> rejection e = false) -> own_inv nd.
Proof.
  intros H1 H2. split; [intros E; congruence|]. intros e E R. rewrite (H2 e E) in R. discriminate.
Qed.

Ltac own_pre HP :=
  apply own_inv_false;
  rewrite ?n_own_grd_return, ?n_own_gdc_ok, ?n_own_gdc_reload, ?n_own_grd_reload, ?n_own_load_reload,
          ?n_own_main_retry, ?n_own_load_iter; cbn;
  rewrite ?n_own_grd_return, ?n_own_gdc_ok, ?n_own_gdc_reload, ?n_own_grd_reload, ?n_own_load_reload,
          ?n_own_main_retry, ?n_own_load_iter; exact HP.
Ltac own_post :=
  apply own_inv_post; [reflexivity | cbn; intros e0 E0; inversion E0; reflexivity].

Lemma main_next_post o cs p : main_next o cs = Some p -> premain p = false /\ forall r, p <> PDone r.
Proof.
  unfold main_next. destruct o; try destruct cs as [[? ?]|]; intros E; try discriminate; injection E as <-;
    split; try reflexivity; discriminate.
Qed.

Lemma do_step_own_inv st nd expired pick st' nd' b :
  do_step st nd expired pick = (st', nd', b) -> own_inv nd -> own_inv nd'.
Proof.
  unfold do_step. intros H HO. pose proof HO as [HP HR].
  destruct (n_pc nd) eqn:Hpc; cbn in HP; try (specialize (HP eq_refl));
    repeat match type of H with
    | context [match ?x with _ => _ end] => destruct x eqn:?
    | context [if ?x then _ else _] => destruct x eqn:?
    end;
    injection H as <- <- <-;
    try exact HO; try (own_pre HP); try own_post.
  match goal with M : main_next _ _ = Some _ |- _ => destruct (main_next_post _ _ _ M) as [M1 M2] end.
  apply own_inv_post; [exact M1 | cbn; intros e0 E0; exfalso; eapply M2; exact E0].
Qed.

(* ---------- the operation of a node never changes ---------- *)
Lemma n_op_grd_return nd cs : n_op (grd_return nd cs) = n_op nd.
Proof.
  unfold grd_return. destruct (n_op nd) eqn:E; repeat match goal with
    | |- context [match ?x with _ => _ end] => destruct x
    end; cbn; auto.
Qed.
Lemma n_op_grd_reload nd lc : n_op (grd_reload nd lc) = n_op nd.
Proof. unfold grd_reload. destruct (5 <=? lc)%nat; reflexivity. Qed.
Lemma n_op_load_reload nd la : n_op (load_reload nd la) = n_op nd.
Proof. unfold load_reload. destruct (5 <=? la)%nat; reflexivity. Qed.
Lemma n_op_main_retry nd : n_op (main_retry nd) = n_op nd.
Proof. unfold main_retry. destruct (max_att (n_op nd) <=? n_att nd)%nat; reflexivity. Qed.
Lemma n_op_load_iter nd la rest acc pick : n_op (load_iter nd la rest acc pick) = n_op nd.
Proof.
  unfold load_iter. destruct rest; [reflexivity|].
  destruct (aget (sn_reg (n_reg nd)) (choose pick (n :: rest))); reflexivity.
Qed.
Lemma n_op_gdc_ok nd c d cs pick : n_op (gdc_ok nd c d cs pick) = n_op nd.
Proof. destruct c; cbn; [apply n_op_grd_return | apply n_op_load_iter]. Qed.
Lemma n_op_gdc_reload nd c : n_op (gdc_reload nd c) = n_op nd.
Proof. destruct c; cbn; [apply n_op_grd_reload | apply n_op_load_reload]. Qed.

Lemma do_step_op st nd ex pk st' nd' b : do_step st nd ex pk = (st', nd', b) -> n_op nd' = n_op nd.
Proof.
  unfold do_step. intros H.
  destruct (n_pc nd);
    repeat match type of H with
    | context [match ?x with _ => _ end] => destruct x eqn:?
    | context [if ?x then _ else _] => destruct x eqn:?
    end; injection H as <- <- <-;
    rewrite ?n_op_grd_return, ?n_op_gdc_ok, ?n_op_gdc_reload, ?n_op_grd_reload, ?n_op_load_reload,
            ?n_op_main_retry, ?n_op_load_iter; cbn;
    rewrite ?n_op_grd_return, ?n_op_gdc_ok, ?n_op_gdc_reload, ?n_op_grd_reload, ?n_op_load_reload,
            ?n_op_main_retry, ?n_op_load_iter; first [reflexivity | congruence].
Qed.

(* ---------- lifting to systems ---------- *)
Definition NodesInv (P : node -> Prop) (w : world) : Prop := Forall P (w_nodes w).

Lemma step_nodes_inv (P : node -> Prop) :
  (forall st nd ex pk st' nd' b, do_step st nd ex pk = (st', nd', b) -> P nd -> P nd') ->
  (forall nd, P nd -> P (ND (n_op nd) (n_att nd) (n_reg nd) (n_pc nd) (n_own nd) true)) ->
  forall w e, NodesInv P w -> NodesInv P (step w e).
Proof.
  intros Hstep Hcrash w e HI. destruct e as [i ex pk|i]; cbn.
  - destruct (nth_error (w_nodes w) i) as [nd|] eqn:Hn; [|exact HI].
    destruct (n_crashed nd || is_done nd); [exact HI|].
    destruct (do_step (w_st w) nd ex pk) as [[st' nd'] bad] eqn:D. unfold NodesInv. cbn.
    apply Forall_set_nth; [exact HI|]. eapply Hstep; eauto. eapply Forall_nth_error; eauto.
  - destruct (nth_error (w_nodes w) i) as [nd|] eqn:Hn; [|exact HI]. unfold NodesInv. cbn.
    apply Forall_set_nth; [exact HI|]. apply Hcrash. eapply Forall_nth_error; eauto.
Qed.

Lemma run_nodes_inv (P : node -> Prop) st ops evs :
  (forall st nd ex pk st' nd' b, do_step st nd ex pk = (st', nd', b) -> P nd -> P nd') ->
  (forall nd, P nd -> P (ND (n_op nd) (n_att nd) (n_reg nd) (n_pc nd) (n_own nd) true)) ->
  (forall o, P (init_node o)) ->
  NodesInv P (run_from st ops evs).
Proof.
  intros Hs Hc H0. unfold run_from.
  assert (NodesInv P (init_world st ops)) as HI.
  { unfold NodesInv. cbn. apply Forall_forall. intros nd Hin. apply in_map_iff in Hin as (o & <- & _). apply H0. }
  revert HI. generalize (init_world st ops). induction evs as [|e evs IH]; intros w Hw; cbn; [exact Hw|].
  apply IH. now apply step_nodes_inv.
Qed.

Theorem load_consistent_all ops evs i nd l :
  nth_error (w_nodes (run ops evs)) i = Some nd -> n_pc nd = PDone (RLoaded l) ->
  (forall d cf, In (d, cf) l ->
     exists e, aget (sn_reg (n_reg nd)) d = Some e /\ rv_ver (e_cur e) = c_ver cf /\ is_deleted (c_ver cf) = false) /\
  (forall d e, aget (sn_reg (n_reg nd)) d = Some e -> is_deleted (rv_ver (e_cur e)) = false -> exists cf, In (d, cf) l).
Proof.
  intros Hn Hpc.
  assert (load_inv nd) as HL.
  { eapply Forall_nth_error; [|exact Hn]. apply (run_nodes_inv load_inv).
    - intros. eapply do_step_load_inv; eauto.
    - intros nd0 H. exact H.
    - intros o. unfold load_inv. destruct o; exact I. }
  unfold load_inv in HL. rewrite Hpc in HL. destruct HL as [Ha Hc]. split; [exact Ha|].
  intros d e He Hd. specialize (Hc d e He Hd). apply in_map_iff in Hc as ([d' cf] & <- & Hin). now exists cf.
Qed.

Theorem rejected_never_persisted_all ops evs i nd e :
  nth_error (w_nodes (run ops evs)) i = Some nd -> n_pc nd = PDone (RErr e) -> rejection e = true ->
  n_own nd = false.
Proof.
  intros Hn Hpc Hr.
  assert (own_inv nd) as [_ HO].
  { eapply Forall_nth_error; [|exact Hn]. apply (run_nodes_inv own_inv).
    - intros. eapply do_step_own_inv; eauto.
    - intros nd0 H. exact H.
    - intros o. split; [reflexivity | destruct o; discriminate]. }
  eauto.
Qed.
