(* C15: the invariant of racing runs (see ProtoRace.v) and how one node's step affects the claims of the others. *)
From SG Require Import Base.Prelude C15.ConfigProto C15.ProtoOwn C15.ProtoLocal C15.ProtoSeq C15.ProtoRace.
Open Scope N_scope.

Definition scas (st : store) : N := sn_cas (read_reg st).
(* the node's in-memory registry is based on the stored one: its next CAS write of the registry succeeds *)
Definition cur (st : store) (nd : node) : Prop := sn_cas (n_reg nd) = scas st.

Definition CasB (st : store) : Prop :=
  scas st < s_clock st /\ forall d c cf, aget (s_cfg st) d = Some (c, cf) -> c < s_clock st.

Definition nobusy (f : pc -> bool) (d : N) (w : world) (i : nat) : Prop :=
  forall j ndj, j <> i -> nth_error (w_nodes w) j = Some ndj -> busy f d ndj = false.
Definition quiet (w : world) (d : N) (i : nat) : Prop := nobusy inflight_pc d w i.

Definition Mod (st : store) (nd : node) (k : N) : Prop :=
  forall x, x <> k -> aget (sn_reg (n_reg nd)) x = aget (regc st) x.
Definition View (st : store) (nd : node) : Prop := cur st nd -> sn_reg (n_reg nd) = regc st.

Definition MShape (o : opk) (cs : option (N * config)) (st : store) (NR : registry) : Prop :=
  match o, cs with
  | OInsert d dig cols, None =>
      aget (s_cfg st) d = None /\
      exists e, aget NR d = Some e /\ e_cur e = RV (1, dig) (eff cols) /\
                (e_prev e = None \/ exists p, e_prev e = Some p /\ rv_ver p = v_deleted)
  | OUpdate d dig cols, Some (cas, cf) =>
      live (c_ver cf) /\ (exists c0, aget (s_cfg st) d = Some (c0, cf)) /\
      (exists e0, aget (regc st) d = Some e0 /\ e_cur e0 = RV (c_ver cf) (eff (c_colls cf))) /\
      exists e, aget NR d = Some e /\ e_cur e = RV (gen (c_ver cf) + 1, dig) (eff cols) /\
                e_prev e = Some (RV (c_ver cf) (eff (c_colls cf)))
  | ODelete d, Some (cas, cf) =>
      live (c_ver cf) /\ (exists c0, aget (s_cfg st) d = Some (c0, cf)) /\
      (exists e0, aget (regc st) d = Some e0 /\ e_cur e0 = RV (c_ver cf) (eff (c_colls cf))) /\
      exists e, aget NR d = Some e /\ rv_ver (e_cur e) = v_deleted /\ e_prev e = Some (RV (c_ver cf) [])
  | _, _ => False
  end.

(* the roll-back about to be persisted: the entry is removed (no config document), or set back to the config *)
Definition RbShape (st : store) (NR : registry) (k : N) : Prop :=
  (aget NR k = None /\ aget (s_cfg st) k = None) \/
  (exists e0 c1 cf, aget (regc st) k = Some e0 /\ is_deleted (rv_ver (e_cur e0)) = false /\
                    rv_ver (e_cur e0) <> c_ver cf /\ aget (s_cfg st) k = Some (c1, cf) /\ live (c_ver cf) /\
                    aget NR k = Some (RE (RV (c_ver cf) (eff (c_colls cf))) None)).

Definition FinClaim (o : opk) (st : store) : Prop :=
  match o with
  | ODelete d => forall e, aget (regc st) d = Some e -> is_deleted (rv_ver (e_cur e)) = true -> aget (s_cfg st) d = None
  | OUpdate _ _ _ => acked_state o st
  | _ => False
  end.

Definition ClaimsQ (st : store) (Q : N -> Prop) (nd : node) : Prop :=
  let d := op_db (n_op nd) in
  let NR := sn_reg (n_reg nd) in
  let K := s_clock st in
  match n_pc nd with
  | PGetReg _ | PLoadGet _ | PDone _ => True
  | PLoadLegacy _ => View st nd
  | PWfcdRead _ None => aget NR d = None /\ View st nd
  | PWfcdRead _ (Some pv) => (exists e, aget NR d = Some e /\ del_entry e pv) /\ View st nd
  | PWfcdDel _ None _ => False
  | PWfcdDel _ (Some pv) cas =>
      (exists e, aget NR d = Some e /\ del_entry e pv) /\ cas < K /\
      (forall cf, aget (s_cfg st) d = Some (cas, cf) -> aget (regc st) d = aget NR d /\ Q d) /\
      (cur st nd -> NR = regc st /\ Q d /\
                    (aget (s_cfg st) d = None \/ exists cf, aget (s_cfg st) d = Some (cas, cf)))
  | PRbWriteW _ => cur st nd -> Mod st nd d /\ Q d /\ aget NR d = None /\ aget (s_cfg st) d = None
  | PGdcRead c dd want =>
      (exists e, aget NR dd = Some e /\ rv_ver (e_cur e) = want /\ is_deleted want = false) /\
      (ctx_load c = false -> dd = d) /\ View st nd
  | PRbTouch c dd cas cf =>
      (ctx_load c = false -> dd = d) /\ cas < K /\
      (forall cf0, aget (s_cfg st) dd = Some (cas, cf0) -> cf0 = cf) /\
      (exists e, aget NR dd = Some e /\ e_prev e = Some (RV (c_ver cf) (eff (c_colls cf))) /\
                 rv_ver (e_cur e) <> c_ver cf /\ is_deleted (rv_ver (e_cur e)) = false) /\
      (cur st nd -> NR = regc st /\ Q dd)
  | PRbWriteG c =>
      cur st nd -> exists k, Mod st nd k /\ Q k /\ (ctx_load c = false -> k = d) /\ RbShape st NR k
  | PMainWrite cs =>
      (match cs with Some (cas, _) => cas < K | None => True end) /\
      (cur st nd -> Mod st nd d /\ Q d /\ MShape (n_op nd) cs st NR)
  | PInsCfg =>
      ~ steady st d /\
      match n_op nd with
      | OInsert _ dig cols => exists e, aget (regc st) d = Some e /\ e_cur e = RV (1, dig) (eff cols)
      | _ => False
      end
  | PUpdCfg cas cf' prevv =>
      ~ steady st d /\ cas < K /\ live (c_ver cf') /\
      (exists e, aget (regc st) d = Some e /\ e_cur e = RV (c_ver cf') (eff (c_colls cf'))) /\
      match n_op nd with OUpdate _ dig cols => exists g, cf' = CF (g, dig) cols | _ => False end
  | PDelCfg cas =>
      cas < K /\ (exists x, aget (s_cfg st) d = Some x) /\
      match n_op nd with
      | ODelete _ => exists e pv, aget (regc st) d = Some e /\ rv_ver (e_cur e) = v_deleted /\
                                  e_prev e = Some (RV pv []) /\ live pv
      | _ => False
      end
  | PFinGet _ _ => FinClaim (n_op nd) st
  | PFinWrite _ _ =>
      FinClaim (n_op nd) st /\
      (cur st nd -> Mod st nd d /\
                    match n_op nd with
                    | ODelete _ => aget NR d = None /\
                                   exists e0, aget (regc st) d = Some e0 /\ is_deleted (rv_ver (e_cur e0)) = true
                    | OUpdate _ _ _ => exists e0, aget (regc st) d = Some e0 /\ aget NR d = Some (RE (e_cur e0) None)
                    | _ => False
                    end)
  end.

Definition Claims (w : world) (i : nat) (nd : node) : Prop := ClaimsQ (w_st w) (fun d => quiet w d i) nd.

(* at most one alive node per database is between its registry write and its completion -- except that a create
   may be in flight while a delete of the same database finalizes *)
Definition weakfin (nd : node) : bool := final_pc (n_pc nd) && is_delete (n_op nd).
Definition OneActive (w : world) : Prop :=
  forall i j ndi ndj d, i <> j -> nth_error (w_nodes w) i = Some ndi -> nth_error (w_nodes w) j = Some ndj ->
    busy active_pc d ndi = true -> busy active_pc d ndj = true ->
    (weakfin ndi = true /\ n_pc ndj = PInsCfg) \/ (weakfin ndj = true /\ n_pc ndi = PInsCfg).

Definition NI (w : world) (i : nat) (nd : node) : Prop :=
  sn_cas (n_reg nd) <= scas (w_st w) /\ opwf nd /\ load_inv nd /\ (n_crashed nd = false -> Claims w i nd).

Definition WI (w : world) : Prop :=
  SInv (w_st w) /\ CasB (w_st w) /\ w_bad w = false /\ OneActive w /\
  forall i nd, nth_error (w_nodes w) i = Some nd -> NI w i nd.

(* ---------- what a step does to the store ---------- *)
Definition RegW (w : world) (i : nat) (nd : node) (st' : store) (k : N) : Prop :=
  let st := w_st w in
  cur st nd /\
  st' = ST (Some (s_clock st, sn_reg (n_reg nd))) (s_cfg st) (s_clock st + 1) /\
  Mod st nd k /\ quiet w k i /\
  (aget (s_cfg st) k = None \/ exists e0, aget (regc st) k = Some e0 /\ is_deleted (rv_ver (e_cur e0)) = false) /\
  (~ steady st k \/ nobusy final_pc k w i) /\
  ((forall e', aget (sn_reg (n_reg nd)) k = Some e' -> is_deleted (rv_ver (e_cur e')) = false) \/ nobusy final_pc k w i) /\
  (if is_load (n_op nd) then ~ steady st k else k = op_db (n_op nd)).

Definition CfgW (w : world) (i : nat) (nd : node) (st' : store) (d : N) : Prop :=
  let st := w_st w in
  s_reg st' = s_reg st /\ s_clock st' = s_clock st + 1 /\
  (forall x, x <> d -> aget (s_cfg st') x = aget (s_cfg st) x) /\
  (forall c cf, aget (s_cfg st') d = Some (c, cf) -> c = s_clock st) /\
  ((* fence *)
   (exists cas cf e, aget (s_cfg st) d = Some (cas, cf) /\ aget (s_cfg st') d = Some (s_clock st, cf) /\
                     aget (regc st) d = Some e /\ is_deleted (rv_ver (e_cur e)) = false)
   (* step 3 of the node's own change *)
   \/ (inflight_pc (n_pc nd) = true /\ op_db (n_op nd) = d)
   (* re-attempted delete *)
   \/ (d = op_db (n_op nd) /\ is_load (n_op nd) = false /\ aget (s_cfg st') d = None /\
       (exists x, aget (s_cfg st) d = Some x) /\ quiet w d i /\
       exists e, aget (regc st) d = Some e /\ rv_ver (e_cur e) = v_deleted)).

Inductive effect (w : world) (i : nat) (nd : node) (st' : store) : Prop :=
| EffNone : st' = w_st w -> effect w i nd st'
| EffReg k : RegW w i nd st' k -> effect w i nd st'
| EffCfg d : CfgW w i nd st' d -> effect w i nd st'.

(* ---------- basic facts ---------- *)
Lemma scas_reg st st' : s_reg st' = s_reg st -> scas st' = scas st.
Proof. unfold scas, read_reg. now intros ->. Qed.
Lemma regc_reg st st' : s_reg st' = s_reg st -> regc st' = regc st.
Proof. unfold regc, read_reg. now intros ->. Qed.

Lemma write_reg_ok st sn st' sn' :
  SInv st -> write_reg st sn = Some (st', sn') ->
  sn_cas sn = scas st /\ st' = ST (Some (s_clock st, sn_reg sn)) (s_cfg st) (s_clock st + 1) /\
  sn' = SN (s_clock st) (sn_reg sn).
Proof.
  intros (_ & HC & _). unfold write_reg, scas, read_reg.
  destruct (s_reg st) as [[c R]|] eqn:E; cbn.
  - destruct (negb (sn_cas sn =? 0) && (c =? sn_cas sn)) eqn:T; [|discriminate].
    apply andb_true_iff in T as [_ T]. apply N.eqb_eq in T. intros [= <- <-]. auto.
  - destruct (sn_cas sn =? 0) eqn:T; [|discriminate]. apply N.eqb_eq in T. intros [= <- <-]. auto.
Qed.
Lemma write_reg_fail st sn : SInv st -> write_reg st sn = None -> sn_cas sn <> scas st.
Proof.
  intros (_ & HC & _). unfold write_reg, scas, read_reg.
  destruct (s_reg st) as [[c R]|] eqn:E; cbn.
  - specialize (HC c R eq_refl). destruct (negb (sn_cas sn =? 0) && (c =? sn_cas sn)) eqn:T; [discriminate|].
    intros _ Heq. rewrite Heq, N.eqb_refl in T. destruct (c =? 0) eqn:Z; [apply N.eqb_eq in Z; contradiction | discriminate].
  - destruct (sn_cas sn =? 0) eqn:T; [discriminate|]. intros _ Heq. rewrite Heq in T. discriminate.
Qed.

Lemma busy_true f d nd : busy f d nd = true -> n_crashed nd = false /\ op_db (n_op nd) = d /\ f (n_pc nd) = true.
Proof.
  unfold busy. intros H. apply andb_true_iff in H as [H H3]. apply andb_true_iff in H as [H1 H2].
  apply negb_true_iff in H1. apply N.eqb_eq in H2. auto.
Qed.
Lemma busy_intro f d nd : n_crashed nd = false -> op_db (n_op nd) = d -> f (n_pc nd) = true -> busy f d nd = true.
Proof. unfold busy. intros -> -> ->. now rewrite N.eqb_refl. Qed.
Lemma busy_active_of_inflight d nd : busy inflight_pc d nd = true -> busy active_pc d nd = true.
Proof. intros H. apply busy_true in H as (A & B & C). apply busy_intro; auto. unfold active_pc. now rewrite C. Qed.
Lemma busy_active_of_final d nd : busy final_pc d nd = true -> busy active_pc d nd = true.
Proof. intros H. apply busy_true in H as (A & B & C). apply busy_intro; auto. unfold active_pc. rewrite C. apply orb_true_r. Qed.

Lemma steady_live st d : SInv st -> steady st d ->
  exists e c cf, aget (regc st) d = Some e /\ aget (s_cfg st) d = Some (c, cf) /\
                 e_cur e = RV (c_ver cf) (eff (c_colls cf)) /\ live (c_ver cf) /\ is_deleted (rv_ver (e_cur e)) = false.
Proof.
  intros (HL & _) (e & c & cf & He & Hc & Hcur). exists e, c, cf. repeat split; auto.
  - specialize (HL d). rewrite He, Hc in HL. exact (proj1 HL).
  - rewrite Hcur. cbn. apply live_not_deleted. specialize (HL d). rewrite He, Hc in HL. exact (proj1 HL).
Qed.

Lemma steady_cfg_content st st' d :
  s_reg st' = s_reg st ->
  (forall c cf, aget (s_cfg st) d = Some (c, cf) -> exists c', aget (s_cfg st') d = Some (c', cf)) ->
  steady st d -> steady st' d.
Proof.
  intros Hr Hc (e & c & cf & He & Hcf & Hcur). destruct (Hc _ _ Hcf) as (c' & Hc').
  exists e, c', cf. rewrite (regc_reg _ _ Hr). auto.
Qed.

(* an alive node between its registry write and its config write: its database is not steady *)
Lemma inflight_not_steady w j X d :
  SInv (w_st w) -> nth_error (w_nodes w) j = Some X -> busy inflight_pc d X = true -> Claims w j X ->
  ~ steady (w_st w) d.
Proof.
  intros HS Hn Hb HC Hst. apply busy_true in Hb as (Ha & <- & Hp).
  destruct (steady_live _ _ HS Hst) as (e & c & cf & He & Hc & Hcur & Hlive & Hnd).
  unfold Claims, ClaimsQ in HC. destruct (n_pc X); try discriminate.
  - destruct HC as [H _]. exact (H Hst).
  - destruct HC as [H _]. exact (H Hst).
  - destruct HC as (_ & _ & H). destruct (n_op X); try (exfalso; exact H).
    destruct H as (e' & pv & He' & Hdel & _). rewrite He in He'. injection He' as <-. rewrite Hdel in Hnd. discriminate.
Qed.

Lemma quiet_of_steady w d i :
  WI w -> steady (w_st w) d -> quiet w d i.
Proof.
  intros (HS & _ & _ & _ & HN) Hst j X Hj Hn.
  destruct (busy inflight_pc d X) eqn:Hb; [|reflexivity]. exfalso.
  destruct (HN _ _ Hn) as (_ & _ & _ & HC). pose proof (busy_true _ _ _ Hb) as (Ha & _ & _).
  eapply inflight_not_steady; eauto.
Qed.

(* no alive in-flight node when the entry is absent, or marked deleted with the config document gone *)
Lemma quiet_of_absent w d i :
  WI w -> aget (s_cfg (w_st w)) d = None ->
  (aget (regc (w_st w)) d = None \/ exists e, aget (regc (w_st w)) d = Some e /\ rv_ver (e_cur e) = v_deleted) ->
  quiet w d i.
Proof.
  intros (HS & _ & _ & _ & HN) Hc Hr j X Hj Hn.
  destruct (busy inflight_pc d X) eqn:Hb; [|reflexivity]. exfalso.
  destruct (HN _ _ Hn) as (_ & _ & _ & HC). apply busy_true in Hb as (Ha & <- & Hp). specialize (HC Ha).
  unfold Claims, ClaimsQ in HC. destruct (n_pc X); try discriminate.
  - destruct HC as [_ H]. destruct (n_op X); try (exfalso; exact H). destruct H as (e & He & Hcur).
    destruct Hr as [Hr|(e' & Hr & Hd)]; rewrite Hr in He; [discriminate|]. injection He as <-. rewrite Hcur in Hd. discriminate.
  - destruct HC as (_ & _ & Hlive & (e & He & Hcur) & _).
    destruct Hr as [Hr|(e' & Hr & Hd)]; rewrite Hr in He; [discriminate|]. injection He as <-. rewrite Hcur in Hd. cbn in Hd.
    rewrite Hd in Hlive. exact (deleted_not_live Hlive).
  - destruct HC as (_ & (x & Hx) & _). cbn in Hc. congruence.
Qed.

Lemma nth_set_nth_eq {A} i (x : A) l y : nth_error l i = Some y -> nth_error (set_nth i x l) i = Some x.
Proof. apply nth_error_set_nth_eq. Qed.

Lemma nobusy_set_nth f d w i nd' st' b :
  nobusy f d w i -> nobusy f d (W st' (set_nth i nd' (w_nodes w)) b) i.
Proof. intros H j X Hj Hn. cbn in Hn. rewrite nth_error_set_nth_neq in Hn by congruence. eauto. Qed.
Lemma nobusy_set_nth_inv f d w i nd' st' b :
  nobusy f d (W st' (set_nth i nd' (w_nodes w)) b) i -> nobusy f d w i.
Proof. intros H j X Hj Hn. apply (H j X Hj). cbn. rewrite nth_error_set_nth_neq by congruence. exact Hn. Qed.
