(* C15: racing runs -- one step of one node (the case analysis over its program counter). *)
From SG Require Import Base.Prelude C15.ConfigProto C15.ProtoOwn C15.ProtoLocal C15.ProtoSeq C15.ProtoRace
  C15.ProtoRaceInv C15.ProtoRaceOther C15.ProtoRaceStep.
Open Scope N_scope.

Ltac done_step H := injection H as <- <- <-.

Lemma cas_read st : sn_cas (read_reg st) <= scas st.
Proof. unfold scas. lia. Qed.

Lemma step_self w i nd ex pk st' nd' b :
  WI w -> nth_error (w_nodes w) i = Some nd -> n_crashed nd = false -> is_done nd = false ->
  hyp_a w nd ex = true -> hyp_b w nd ex = true -> hyp_c w nd = true -> hyp_d w nd = true ->
  do_step (w_st w) nd ex pk = (st', nd', b) ->
  b = false /\ StepOut w i nd st' nd'.
Proof.
  intros HW Hi Hal Hnd Ha Hb Hc Hd H.
  pose proof HW as (HS & HB & Hbad & Hone & HN).
  destruct (HN _ _ Hi) as (Hcas & Hwf & HLI & HC). specialize (HC Hal).
  pose proof HS as (HLk & HCas & HClk). pose proof HB as (HB1 & HB2).
  unfold do_step in H. unfold Claims, ClaimsQ in HC. unfold opwf in Hwf.
  destruct (n_pc nd) eqn:Hpc.
  - (* PGetReg *)
    cbn [n_reg set_reg sn_reg] in H. fold (regc (w_st w)) in H.
    destruct (aget (regc (w_st w)) (op_db (n_op nd))) as [e|] eqn:He.
    + destruct (is_deleted (rv_ver (e_cur e))) eqn:Hdel; cbn in H.
      * apply is_deleted_true in Hdel. destruct (e_prev e) as [p|] eqn:Hp; done_step H.
        -- split; [reflexivity|]. apply out_same; [exact HS | exact HB | idtac | idtac | idtac]; [|apply cas_read | split; cbn; congruence].
           unfold ClaimsQ. cbn. split; [|intros _; reflexivity]. exists e. split; [exact He|]. split; [exact Hdel|]. eauto.
        -- exfalso. eapply linked_deleted_noprev; eauto. rewrite <- He. apply HLk.
      * done_step H. split; [reflexivity|]. apply out_same; [exact HS | exact HB | idtac | idtac | idtac]; [|apply cas_read | split; cbn; congruence].
        unfold ClaimsQ. cbn. split; [exists e; auto|]. split; [reflexivity | intros _; reflexivity].
    + done_step H. split; [reflexivity|]. apply out_same; [exact HS | exact HB | idtac | idtac | idtac]; [|apply cas_read | split; cbn; congruence].
      unfold ClaimsQ. cbn. split; [exact He | intros _; reflexivity].
  - (* PWfcdRead *)
    destruct v as [pv|].
    + destruct HC as ((e & He & Hdel & p & Hp & Hpv) & HV).
      destruct (aget (s_cfg (w_st w)) (op_db (n_op nd))) as [[cas cf]|] eqn:Hcf.
      * destruct (negb (ver_eqb pv (c_ver cf))) eqn:Hm.
        -- done_step H. split; [reflexivity|]. apply out_same; [exact HS | exact HB | idtac | idtac | idtac];
             [apply claimsQ_grd_reload | now rewrite reg_grd_reload | apply calm_grd_reload].
        -- destruct ex; done_step H; (split; [reflexivity|]).
           ++ assert (gives_up (w_st w) nd true = Some (op_db (n_op nd))) as G.
              { unfold gives_up. now rewrite Hpc, Hcf, Hm. }
              destruct (giveup_facts _ _ _ _ G Ha Hb) as (Hq & Hview).
              apply out_same; [exact HS | exact HB | idtac | idtac | idtac]; [|exact Hcas|split; cbn; congruence].
              unfold ClaimsQ. cbn. split; [exists e; split; [exact He|]; split; eauto|].
              split; [exact (HB2 _ _ _ Hcf)|]. split.
              ** intros cf0 _. split; [now symmetry|]. intros j X _ Hn. eauto.
              ** intros Hcur. split; [auto|]. split; [intros j X _ Hn; eauto|]. right. eauto.
           ++ apply out_same; [exact HS | exact HB | idtac | idtac | idtac]; [|exact Hcas|rewrite Hpc; split; cbn; congruence].
              unfold ClaimsQ. rewrite Hpc. split; [exists e; split; [exact He|]; split; eauto | exact HV].
      * done_step H. split; [reflexivity|]. apply out_same; [exact HS | exact HB | idtac | idtac | idtac];
          [|rewrite reg_grd_return; exact Hcas | now apply calm_grd_return].
        apply claimsQ_grd_none; [exact Hwf|]. intros Hcur. pose proof (HV Hcur) as ER.
        assert (exists e0, aget (regc (w_st w)) (op_db (n_op nd)) = Some e0 /\ rv_ver (e_cur e0) = v_deleted) as Hmark
          by (exists e; rewrite <- ER; auto).
        split; [exact ER|]. split; [exact Hcf|]. split; [now right|]. apply quiet_of_absent; auto.
    + destruct HC as (Hnone & HV).
      destruct (aget (s_cfg (w_st w)) (op_db (n_op nd))) as [[cas cf]|] eqn:Hcf.
      * destruct ex; done_step H; (split; [reflexivity|]).
        -- exfalso. assert (gives_up (w_st w) nd true = Some (op_db (n_op nd))) as G.
           { unfold gives_up. now rewrite Hpc, Hcf. }
           destruct (giveup_facts _ _ _ _ G Ha Hb) as (_ & Hview). rewrite Hnone in Hview.
           pose proof (HLk (op_db (n_op nd))) as HL. rewrite <- Hview, Hcf in HL. exact HL.
        -- apply out_same; [exact HS | exact HB | idtac | idtac | idtac]; [|exact Hcas|rewrite Hpc; split; cbn; congruence].
           unfold ClaimsQ. rewrite Hpc. auto.
      * done_step H. split; [reflexivity|]. apply out_same; [exact HS | exact HB | idtac | idtac | idtac];
          [|rewrite reg_grd_return; exact Hcas | now apply calm_grd_return].
        apply claimsQ_grd_none; [exact Hwf|]. intros Hcur. pose proof (HV Hcur) as ER.
        assert (aget (regc (w_st w)) (op_db (n_op nd)) = None) as Hr by (now rewrite <- ER).
        split; [exact ER|]. split; [exact Hcf|]. split; [now left|]. apply quiet_of_absent; auto.
  - (* PWfcdDel *)
    destruct v as [pv|]; [|destruct HC].
    destruct HC as ((e & He & Hdel & p & Hp & Hpv) & Hb0 & HQ & HNc).
    destruct (cfg_delete (w_st w) (op_db (n_op nd)) cas) as [st1|] eqn:D.
    + destruct (cfg_delete_spec _ _ _ _ D) as ((cf0 & Hc0) & Hr & Hk & Hn & Ho).
      destruct (HQ cf0 Hc0) as [HR Hq].
      assert (aget (regc (w_st w)) (op_db (n_op nd)) = Some e) as He' by (now rewrite HR).
      pose proof (HLk (op_db (n_op nd))) as HL. rewrite He', Hc0 in HL.
      destruct (linked_deleting _ _ _ HL Hdel) as [Hlive Eprev].
      assert (SInv st1) as HS1.
      { eapply (SInv_cfg_change (w_st w) st1); eauto; [|lia]. rewrite He', Hn. cbn. right. split; [exact Hdel|]. eauto. }
      assert (CasB st1) as HB'.
      { eapply CasB_cfg; eauto. intros c cf Hx. rewrite Hn in Hx. discriminate. }
      rewrite He in H. done_step H. split; [reflexivity|].
      apply out_calm; [exact HS1 | exact HB' | idtac | idtac | idtac | idtac]; [| |cbn; rewrite (scas_reg _ _ Hr); exact Hcas | split; cbn; congruence].
      * apply (EffCfg _ _ _ _ (op_db (n_op nd))). split; [exact Hr|]. split; [exact Hk|]. split; [exact Ho|].
        split; [intros c cf Hx; rewrite Hn in Hx; discriminate|]. right. right.
        split; [reflexivity|]. split; [exact Hwf|]. split; [exact Hn|]. split; [eauto|]. split; [exact Hq|]. eauto.
      * unfold ClaimsQ. cbn. intros Hcur. unfold cur in Hcur. cbn in Hcur. rewrite (scas_reg _ _ Hr) in Hcur.
        destruct (HNc Hcur) as (ER & Hq' & _). split; [|split; [exact Hq'|]; split; [apply aget_adel_eq | exact Hn]].
        intros x Hx. cbn. rewrite aget_adel_neq by congruence. rewrite ER. now rewrite (regc_reg _ _ Hr).
    + done_step H. split; [reflexivity|]. apply out_same; [exact HS | exact HB | idtac | idtac | idtac];
        [|rewrite reg_grd_return; exact Hcas | now apply calm_grd_return].
      apply claimsQ_grd_none; [exact Hwf|]. intros Hcur. destruct (HNc Hcur) as (ER & Hq' & Hdisj).
      split; [exact ER|]. split.
      * destruct Hdisj as [Hx|(cf0 & Hx)]; [exact Hx|]. exfalso. unfold cfg_delete in D. rewrite Hx, N.eqb_refl in D. discriminate.
      * split; [|exact Hq']. right. exists e. rewrite <- ER. auto.
  - (* PRbWriteW *)
    destruct (write_reg (w_st w) (n_reg nd)) as [[st1 sn1]|] eqn:Wr.
    + destruct (write_reg_ok _ _ _ _ HS Wr) as (Hcur & Est & Esn). destruct (HC Hcur) as (Hmod & Hq & Hnone & Hcf).
      destruct (reg_write_out _ _ _ _ HS HB Hcur Est Hmod) as (HS1 & HB' & Er1 & Ec1 & Ecf1 & Ek1 & Hrne).
      { rewrite Hnone, Hcf. exact I. }
      done_step H. split; [reflexivity|].
      apply out_calm; [exact HS1 | exact HB' | idtac | idtac | idtac | idtac]; [| |rewrite reg_grd_return, Esn, Ec1; cbn; lia | now apply calm_grd_return].
      * apply (EffReg _ _ _ _ (op_db (n_op nd))). split; [exact Hcur|]. split; [exact Est|]. split; [exact Hmod|].
        split; [exact Hq|]. split; [now left|]. split; [|split].
        -- left. intros (e0 & c0 & cf0 & _ & Hx & _). congruence.
        -- left. intros e' He'. congruence.
        -- now rewrite Hwf.
      * apply claimsQ_grd_none; [exact Hwf|]. intros _. cbn. rewrite Esn. cbn.
        split; [now rewrite Er1|]. split; [now rewrite Ecf1|]. split; [left; now rewrite Er1 | exact Hq].
    + done_step H. split; [reflexivity|]. apply out_same; [exact HS | exact HB | idtac | idtac | idtac];
        [|rewrite reg_grd_return; exact Hcas | now apply calm_grd_return].
      apply claimsQ_grd_none; [exact Hwf|]. intros Hcur. exfalso. exact (write_reg_fail _ _ HS Wr Hcur).
  - (* PGdcRead *)
    destruct HC as ((e & He & Hw & Hndl) & Hdd & HV).
    assert (rest_ok_load : forall la rest acc, c = CLoad la rest acc -> rest_ok (sn_reg (n_reg nd)) rest).
    { intros la rest acc ->. unfold load_inv in HLI. rewrite Hpc in HLI. exact (proj1 (proj2 HLI)). }
    destruct (aget (s_cfg (w_st w)) d) as [[cas cf]|] eqn:Hcf.
    + (* a helper: the claims after a successful fetch *)
      assert (forall cf', (cur (w_st w) nd -> cf' = cf /\ c_ver cf = want) ->
                          ClaimsQ (w_st w) (fun d0 => quiet w d0 i) (gdc_ok nd c d (cas, cf') pk)) as Hok.
      { intros cf' Hcf'. destruct c as [lc|la rest acc]; cbn.
        - specialize (Hdd eq_refl). subst d. apply claimsQ_grd_some; [exact Hwf | exact (HB2 _ _ _ Hcf)|].
          intros Hcur. destruct (Hcf' Hcur) as [-> Hv]. pose proof (HV Hcur) as ER.
          assert (aget (regc (w_st w)) (op_db (n_op nd)) = Some e) as He' by (now rewrite <- ER).
          pose proof (HLk (op_db (n_op nd))) as HL. rewrite He', Hcf in HL.
          assert (is_deleted (rv_ver (e_cur e)) = false) as Hnd' by (now rewrite Hw).
          destruct (linked_live _ _ _ HL Hnd') as [Hlive Hcase].
          assert (e_cur e = RV (c_ver cf) (eff (c_colls cf))) as Ecur.
          { destruct Hcase as [H0|[_ H0]]; [exact H0|]. rewrite Hw, <- Hv in H0. lia. }
          split; [exact ER|]. split; [|split; [exact Hlive|]; split; [exact Hcf|]; eauto].
          apply quiet_of_steady; auto. exists e, cas, cf. auto.
        - apply claimsQ_load_iter; [eapply rest_ok_load; reflexivity | exact HV]. }
      destruct (is_invalid want) eqn:Iv.
      { done_step H. split; [reflexivity|]. apply out_same; [exact HS | exact HB | idtac | idtac | idtac];
          [|rewrite reg_gdc_ok; exact Hcas | now apply calm_gdc_ok].
        apply Hok. intros Hcur. exfalso. pose proof (HV Hcur) as ER.
        assert (aget (regc (w_st w)) d = Some e) as He' by (now rewrite <- ER).
        pose proof (HLk d) as HL. rewrite He' in HL.
        assert (is_deleted (rv_ver (e_cur e)) = false) as Hnd' by (now rewrite Hw).
        pose proof (linked_not_invalid _ _ HL Hnd') as X. rewrite Hw in X. congruence. }
      destruct (ver_eqb (c_ver cf) want) eqn:Ev.
      { apply ver_eqb_eq in Ev. done_step H. split; [reflexivity|]. apply out_same; [exact HS | exact HB | idtac | idtac | idtac];
          [|rewrite reg_gdc_ok; exact Hcas | now apply calm_gdc_ok].
        apply Hok. auto. }
      destruct (gen want <? gen (c_ver cf)) eqn:Ex2.
      { done_step H. split; [reflexivity|]. apply out_same; [exact HS | exact HB | idtac | idtac | idtac]; [exact I | exact Hcas | split; cbn; congruence]. }
      destruct ex; done_step H; (split; [reflexivity|]).
      * assert (gives_up (w_st w) nd true = Some d) as G.
        { unfold gives_up. rewrite Hpc, Hcf, Iv, Ev, Ex2. reflexivity. }
        destruct (giveup_facts _ _ _ _ G Ha Hb) as (Hq & Hview).
        assert (aget (regc (w_st w)) d = Some e) as He' by (now rewrite <- Hview).
        pose proof (HLk d) as HL. rewrite He', Hcf in HL.
        assert (is_deleted (rv_ver (e_cur e)) = false) as Hnd' by (now rewrite Hw).
        destruct (linked_live _ _ _ HL Hnd') as [Hlive Hcase].
        assert (rv_ver (e_cur e) <> c_ver cf) as Hne.
        { intros E. rewrite Hw in E. rewrite E in Ev.
          assert (ver_eqb (c_ver cf) (c_ver cf) = true) by (now apply ver_eqb_eq). congruence. }
        apply out_same; [exact HS | exact HB | idtac | idtac | idtac]; [|exact Hcas|split; cbn; congruence].
        unfold ClaimsQ. cbn. split; [exact Hdd|]. split; [exact (HB2 _ _ _ Hcf)|]. split.
        -- intros cf0 Hx. rewrite Hcf in Hx. now injection Hx as <-.
        -- split.
           ++ exists e. split; [exact He|]. split; [|split; [exact Hne | exact Hnd']].
              destruct Hcase as [H0|[H0 _]]; [|exact H0]. exfalso. apply Hne. now rewrite H0.
           ++ intros Hcur. split; [auto|]. intros j X _ Hn. eauto.
      * apply out_same; [exact HS | exact HB | idtac | idtac | idtac]; [|exact Hcas|rewrite Hpc; split; cbn; congruence].
        unfold ClaimsQ. rewrite Hpc. split; [exists e; auto|]. auto.
    + destruct ex.
      * rewrite He in H. done_step H. split; [reflexivity|].
        assert (gives_up (w_st w) nd true = Some d) as G.
        { unfold gives_up. rewrite Hpc, Hcf. reflexivity. }
        destruct (giveup_facts _ _ _ _ G Ha Hb) as (Hq & Hview).
        apply out_same; [exact HS | exact HB | idtac | idtac | idtac]; [|exact Hcas|split; cbn; congruence].
        unfold ClaimsQ. cbn. intros Hcur. exists d. split; [|split; [intros j X _ Hn; eauto|]; split; [exact Hdd|]].
        -- intros x Hx. cbn. rewrite aget_adel_neq by congruence. now rewrite (HV Hcur).
        -- left. split; [apply aget_adel_eq | exact Hcf].
      * done_step H. split; [reflexivity|]. apply out_same; [exact HS | exact HB | idtac | idtac | idtac]; [|exact Hcas|rewrite Hpc; split; cbn; congruence].
        unfold ClaimsQ. rewrite Hpc. split; [exists e; auto|]. auto.
  - (* PRbTouch *)
    destruct HC as (Hdd & Hb0 & Hu & (e & He & Hp & Hne & Hndl) & Hcurc).
    unfold hyp_d in Hd. rewrite Hpc in Hd. apply view_ok_eq in Hd.
    assert (aget (regc (w_st w)) d = Some e) as He' by (now rewrite <- Hd).
    destruct (cfg_touch (w_st w) d cas) as [[st1 c1]|] eqn:T.
    + pose proof (cfg_touch_fresh _ _ _ _ _ T) as Ec1. subst c1.
      destruct (cfg_touch_spec _ _ _ _ _ T) as (cf0 & Hc0 & Hr & Hk & Hn & Ho).
      pose proof (Hu _ Hc0) as ->.
      pose proof (HLk d) as HL. rewrite He', Hc0 in HL.
      assert (SInv st1) as HS1.
      { eapply (SInv_cfg_change (w_st w) st1); eauto; [|lia]. rewrite He', Hn. exact HL. }
      assert (CasB st1) as HB'.
      { eapply CasB_cfg; eauto. intros c0 cf0 Hx. rewrite Hn in Hx. now injection Hx as <- _. }
      unfold rollback_db in H. rewrite He, Hp in H. done_step H. split; [reflexivity|].
      apply out_calm; [exact HS1 | exact HB' | idtac | idtac | idtac | idtac]; [| |cbn; rewrite (scas_reg _ _ Hr); exact Hcas | split; cbn; congruence].
      * apply (EffCfg _ _ _ _ d). split; [exact Hr|]. split; [exact Hk|]. split; [exact Ho|].
        split; [intros c0 cf0 Hx; rewrite Hn in Hx; now injection Hx as <- _|]. left. exists cas, cf, e. auto.
      * unfold ClaimsQ. cbn. intros Hcur. unfold cur in Hcur. cbn in Hcur. rewrite (scas_reg _ _ Hr) in Hcur.
        destruct (Hcurc Hcur) as (ER & Hq). exists d. split; [|split; [exact Hq|]; split; [exact Hdd|]].
        -- intros x Hx. cbn. rewrite aget_aset_neq by congruence. rewrite ER. now rewrite (regc_reg _ _ Hr).
        -- right. exists e, (s_clock (w_st w)), cf. rewrite (regc_reg _ _ Hr). repeat split; auto.
           ++ exact (proj1 HL).
           ++ cbn. apply aget_aset_eq.
    + done_step H. split; [reflexivity|]. apply out_same; [exact HS | exact HB | idtac | idtac | idtac]; [exact I | exact Hcas | split; cbn; congruence].
  - (* PRbWriteG *)
    destruct (write_reg (w_st w) (n_reg nd)) as [[st1 sn1]|] eqn:Wr.
    + destruct (write_reg_ok _ _ _ _ HS Wr) as (Hcur & Est & Esn). destruct (HC Hcur) as (k & Hmod & Hq & Hk & Hsh).
      destruct (reg_write_out _ _ _ _ HS HB Hcur Est Hmod) as (HS1 & HB' & Er1 & Ec1 & Ecf1 & Ek1 & Hrne).
      { destruct Hsh as [(A & B)|(e0 & c1 & cf & A & B & C & D & E & F)]; [rewrite A, B; exact I|].
        rewrite D, F. cbn. split; [exact E | now left]. }
      done_step H. split; [reflexivity|].
      apply out_calm; [exact HS1 | exact HB' | idtac | idtac | idtac | idtac]; [|apply claimsQ_gdc_reload |rewrite reg_gdc_reload, Esn, Ec1; cbn; lia | apply calm_gdc_reload].
      apply (EffReg _ _ _ _ k). split; [exact Hcur|]. split; [exact Est|]. split; [exact Hmod|]. split; [exact Hq|].
      assert (~ steady (w_st w) k) as Hns.
      { intros (e1 & c2 & cf2 & S1 & S2 & S3). destruct Hsh as [(A & B)|(e0 & c1 & cf & A & B & C & D & E & F)]; [congruence|].
        rewrite A in S1. injection S1 as <-. rewrite D in S2. injection S2 as <- <-. apply C. now rewrite S3. }
      split; [destruct Hsh as [(A & B)|(e0 & c1 & cf & A & B & C & D & E & F)]; [now left | right; eauto]|].
      split; [now left|]. split.
      { left. intros e' He'. destruct Hsh as [(A & B)|(e0 & c1 & cf & A & B & C & D & E & F)]; [congruence|].
        rewrite F in He'. injection He' as <-. cbn. now apply live_not_deleted. }
      destruct (is_load (n_op nd)) eqn:El; [exact Hns|]. apply Hk. now rewrite <- Hwf.
    + done_step H. split; [reflexivity|]. apply out_same; [exact HS | exact HB | idtac | idtac | idtac];
        [apply claimsQ_gdc_reload | now rewrite reg_gdc_reload | apply calm_gdc_reload].
  - (* PMainWrite *)
    destruct HC as (Hbnd & Hcurc).
    destruct (main_next (n_op nd) cs) as [p|] eqn:Mn.
    2:{ done_step H. split; [reflexivity|]. apply out_same; [exact HS | exact HB | idtac | idtac | idtac]; [exact I | exact Hcas | split; cbn; congruence]. }
    destruct (write_reg (w_st w) (n_reg nd)) as [[st1 sn1]|] eqn:Wr.
    2:{ done_step H. split; [reflexivity|]. apply out_same; [exact HS | exact HB | idtac | idtac | idtac];
          [apply claimsQ_main_retry | now rewrite reg_main_retry | apply calm_main_retry]. }
    destruct (write_reg_ok _ _ _ _ HS Wr) as (Hcur & Est & Esn). destruct (Hcurc Hcur) as (Hmod & Hq & Hsh).
    unfold hyp_c in Hc. rewrite Hpc in Hc. apply negb_true_iff in Hc.
    assert (forall j X, nth_error (w_nodes w) j = Some X -> busy final_pc (op_db (n_op nd)) X = true ->
                        is_insert (n_op nd) = true /\ is_delete (n_op X) = true) as Hblk.
    { intros j X Hn Hbf. pose proof (existsb_false_nth _ _ _ _ Hc Hn) as E. unfold blocks in E. rewrite Hbf in E. cbn in E.
      apply negb_false_iff in E. now apply andb_true_iff in E. }
    assert (linked (aget (sn_reg (n_reg nd)) (op_db (n_op nd))) (aget (s_cfg (w_st w)) (op_db (n_op nd))) /\
            (aget (s_cfg (w_st w)) (op_db (n_op nd)) = None \/
             exists e0, aget (regc (w_st w)) (op_db (n_op nd)) = Some e0 /\ is_deleted (rv_ver (e_cur e0)) = false) /\
            (~ steady (w_st w) (op_db (n_op nd)) \/ nobusy final_pc (op_db (n_op nd)) w i) /\
            ((forall e', aget (sn_reg (n_reg nd)) (op_db (n_op nd)) = Some e' -> is_deleted (rv_ver (e_cur e')) = false) \/
             nobusy final_pc (op_db (n_op nd)) w i)) as (Hlk & HpreA & HpreC & HpreD).
    { assert (is_insert (n_op nd) = false -> nobusy final_pc (op_db (n_op nd)) w i) as Hnf.
      { intros Hni j X _ Hn. destruct (busy final_pc (op_db (n_op nd)) X) eqn:E; [|reflexivity].
        destruct (Hblk j X Hn E). congruence. }
      unfold MShape in Hsh. destruct (n_op nd) as [d dig cols|d dig cols|d|]; destruct cs as [[cas cf]|]; try (exfalso; exact Hsh); cbn in *.
      - destruct Hsh as (A & e & B & C & D). rewrite A, B. split; [|split; [now left|split]].
        + cbn. left. split; [|exact D]. rewrite C. unfold live, gen. cbn. lia.
        + left. intros (e1 & c1 & cf1 & _ & S2 & _). congruence.
        + left. intros e' [= <-]. now rewrite C.
      - destruct Hsh as (A & (c0 & B) & (e0 & C1 & C2) & e & D1 & D2 & D3). rewrite B, D1. split; [|split; [|split]].
        + cbn. split; [exact A|]. right. left. split; [exact D3|]. rewrite D2. cbn. reflexivity.
        + right. exists e0. split; [exact C1|]. rewrite C2. cbn. now apply live_not_deleted.
        + right. now apply Hnf.
        + right. now apply Hnf.
      - destruct Hsh as (A & (c0 & B) & (e0 & C1 & C2) & e & D1 & D2 & D3). rewrite B, D1. split; [|split; [|split]].
        + cbn. split; [exact A|]. right. right. auto.
        + right. exists e0. split; [exact C1|]. rewrite C2. cbn. now apply live_not_deleted.
        + right. now apply Hnf.
        + right. now apply Hnf. }
    destruct (reg_write_out _ _ _ _ HS HB Hcur Est Hmod Hlk) as (HS1 & HB' & Er1 & Ec1 & Ecf1 & Ek1 & Hrne).
    assert (is_load (n_op nd) = false) as Hl by exact Hwf.
    done_step H. split; [reflexivity|].
    split; [exact HS1|]. split; [exact HB'|]. split.
    { apply (EffReg _ _ _ _ (op_db (n_op nd))). split; [exact Hcur|]. split; [exact Est|]. split; [exact Hmod|].
      split; [exact Hq|]. split; [exact HpreA|]. split; [exact HpreC|]. split; [exact HpreD | now rewrite Hl]. }
    split.
    { (* the claims of the node now in flight *)
      unfold main_next in Mn. unfold MShape in Hsh. unfold ClaimsQ. cbn [n_pc n_op n_reg].
      destruct (n_op nd) as [d dig cols|d dig cols|d|] eqn:Eo; destruct cs as [[cas cf]|]; try discriminate; try (exfalso; exact Hsh);
        injection Mn as <-; cbn [op_db] in *.
      - destruct Hsh as (A & e & B & C & D). split.
        + intros (e1 & c1 & cf1 & _ & S2 & _). rewrite Ecf1 in S2. congruence.
        + exists e. rewrite Er1. auto.
      - destruct Hsh as (A & (c0 & B) & (e0 & C1 & C2) & e & D1 & D2 & D3). split.
        + intros (e1 & c1 & cf1 & S1 & S2 & S3). rewrite Er1, D1 in S1. injection S1 as <-.
          rewrite Ecf1, B in S2. injection S2 as <- <-. rewrite D2 in S3. injection S3 as S3 _.
          apply (f_equal gen) in S3. unfold gen in S3. cbn in S3. lia.
        + split; [rewrite Ek1; lia|]. split; [unfold live, gen; cbn; lia|]. split; [exists e; rewrite Er1; auto | eauto].
      - destruct Hsh as (A & (c0 & B) & (e0 & C1 & C2) & e & D1 & D2 & D3).
        split; [rewrite Ek1; lia|]. split; [rewrite Ecf1; eauto|]. exists e, (c_ver cf). rewrite Er1. auto. }
    split; [cbn; rewrite Esn, Ec1; cbn; lia|].
    split; [intros E; exfalso; exact (Hrne E)|].
    split.
    { intros _ _ j X Hj Hn Hba. rewrite busy_active_split, (Hq j X Hj Hn) in Hba. cbn in Hba.
      destruct (Hblk j X Hn Hba) as [Hi1 Hd1]. pose proof (busy_true _ _ _ Hba) as (_ & _ & Hfp). split.
      - unfold weakfin. now rewrite Hfp, Hd1.
      - cbn. unfold main_next in Mn. destruct (n_op nd); try discriminate. now injection Mn as <-. }
    cbn. intros E. exfalso. unfold main_next in Mn. destruct (n_op nd); try destruct cs as [[? ?]|]; try discriminate; injection Mn as <-; discriminate.
  - (* PInsCfg *)
    destruct HC as (Hns & H0).
    destruct (n_op nd) as [d dig cols|d dig cols|d|] eqn:Eo; try (exfalso; exact H0).
    destruct H0 as (e & He & Hcur). cbn [op_db] in *.
    destruct (cfg_insert (w_st w) d (CF (1, dig) cols)) as [st1|] eqn:Ins; done_step H; (split; [reflexivity|]).
    2:{ apply out_same; [exact HS | exact HB | idtac | idtac | idtac]; [exact I | exact Hcas | split; cbn; congruence]. }
    destruct (cfg_insert_spec _ _ _ _ Ins) as (Hc0 & Hr & Hk & Hn & Ho).
    assert (SInv st1) as HS1.
    { eapply (SInv_cfg_change (w_st w) st1); eauto; [|lia]. rewrite He, Hn. cbn. split; [unfold live, gen; cbn; lia|]. now left. }
    assert (CasB st1) as HB'.
    { eapply CasB_cfg; eauto. intros c0 cf0 Hx. rewrite Hn in Hx. now injection Hx as <- _. }
    apply out_gen; auto; try (cbn; discriminate).
    + apply (EffCfg _ _ _ _ d). split; [exact Hr|]. split; [exact Hk|]. split; [exact Ho|].
      split; [intros c0 cf0 Hx; rewrite Hn in Hx; now injection Hx as <- _|]. right. left. rewrite Hpc, Eo. auto.
    + exact I.
    + cbn. rewrite (scas_reg _ _ Hr). exact Hcas.
    + intros _. rewrite Eo. cbn. exists e, (s_clock (w_st w)). rewrite (regc_reg _ _ Hr). auto.
  - (* PUpdCfg *)
    destruct HC as (Hns & Hb0 & Hlive & (e & He & Hcur) & Hop).
    destruct (cfg_write (w_st w) (op_db (n_op nd)) cas cf) as [[st1 c1]|] eqn:Wc; done_step H; (split; [reflexivity|]).
    2:{ apply out_same; [exact HS | exact HB | idtac | idtac | idtac]; [exact I | exact Hcas | split; cbn; congruence]. }
    pose proof (cfg_write_fresh _ _ _ _ _ _ Wc) as Ec1. subst c1.
    destruct (cfg_write_spec _ _ _ _ _ _ Wc) as (_ & Hr & Hk & Hn & Ho).
    assert (SInv st1) as HS1.
    { eapply (SInv_cfg_change (w_st w) st1); eauto; [|lia]. rewrite He, Hn. cbn. split; [exact Hlive|]. now left. }
    assert (CasB st1) as HB'.
    { eapply CasB_cfg; eauto. intros c0 cf0 Hx. rewrite Hn in Hx. now injection Hx as <- _. }
    apply out_gen; auto; try (cbn; discriminate).
    + apply (EffCfg _ _ _ _ (op_db (n_op nd))). split; [exact Hr|]. split; [exact Hk|]. split; [exact Ho|].
      split; [intros c0 cf0 Hx; rewrite Hn in Hx; now injection Hx as <- _|]. right. left. rewrite Hpc. auto.
    + unfold ClaimsQ. cbn. unfold FinClaim. destruct (n_op nd) as [d dig cols|d dig cols|d|] eqn:Eo; try (exfalso; exact Hop).
      destruct Hop as [g ->]. cbn in *. exists e, (s_clock (w_st w)), g. rewrite (regc_reg _ _ Hr). auto.
    + cbn. rewrite (scas_reg _ _ Hr). exact Hcas.
    + intros _. rewrite Hpc. reflexivity.
  - (* PDelCfg *)
    destruct HC as (Hb0 & Hx & Hop).
    destruct (n_op nd) as [d dig cols|d dig cols|d|] eqn:Eo; try (exfalso; exact Hop).
    destruct Hop as (e & pv & He & Hdel & Hp & Hlive). cbn [op_db] in *.
    destruct (cfg_delete (w_st w) d cas) as [st1|] eqn:D; done_step H; (split; [reflexivity|]).
    2:{ apply out_same; [exact HS | exact HB | idtac | idtac | idtac]; [exact I | exact Hcas | split; cbn; congruence]. }
    destruct (cfg_delete_spec _ _ _ _ D) as (_ & Hr & Hk & Hn & Ho).
    assert (SInv st1) as HS1.
    { eapply (SInv_cfg_change (w_st w) st1); eauto; [|lia]. rewrite He, Hn. cbn. right. split; [exact Hdel|]. eauto. }
    assert (CasB st1) as HB'.
    { eapply CasB_cfg; eauto. intros c0 cf0 Hx0. rewrite Hn in Hx0. discriminate. }
    apply out_gen; auto; try (cbn; discriminate).
    + apply (EffCfg _ _ _ _ d). split; [exact Hr|]. split; [exact Hk|]. split; [exact Ho|].
      split; [intros c0 cf0 Hx0; rewrite Hn in Hx0; discriminate|]. right. left. rewrite Hpc, Eo. auto.
    + unfold ClaimsQ. cbn. rewrite Eo. cbn. intros e0 _ _. exact Hn.
    + cbn. rewrite (scas_reg _ _ Hr). exact Hcas.
    + intros _. rewrite Hpc. reflexivity.
  - (* PFinGet *)
    cbn [n_reg set_reg sn_reg] in H. fold (regc (w_st w)) in H.
    unfold FinClaim in HC.
    destruct (n_op nd) as [d dig cols|d dig cols|d|] eqn:Eo; try (exfalso; exact HC); cbn [op_db] in *.
    + (* update *)
      destruct (remove_prev (regc (w_st w)) d prevv) as [R'|] eqn:Rp; done_step H; (split; [reflexivity|]).
      * unfold remove_prev in Rp. destruct (aget (regc (w_st w)) d) as [e0|] eqn:He; [|discriminate].
        destruct (e_prev e0) as [p|] eqn:Hp; [|discriminate]. destruct (ver_eqb (rv_ver p) prevv); [|discriminate].
        injection Rp as <-.
        apply out_gen; auto; try (cbn; discriminate).
        -- now apply EffNone.
        -- unfold ClaimsQ. cbn. rewrite Eo. cbn. split; [exact HC|]. intros _. split.
           ++ intros x Hx. cbn. apply aget_aset_neq. congruence.
           ++ exists e0. split; [exact He|]. cbn. apply aget_aset_eq.
        -- cbn. apply cas_read.
        -- intros _. rewrite Hpc. reflexivity.
      * apply out_gen; auto; try (cbn; discriminate).
        -- now apply EffNone.
        -- exact I.
        -- cbn. apply cas_read.
        -- intros _. rewrite Eo. exact HC.
    + (* delete *)
      destruct (aget (regc (w_st w)) d) as [e0|] eqn:He.
      * destruct (is_deleted (rv_ver (e_cur e0))) eqn:Hdl; cbn in H; done_step H; (split; [reflexivity|]).
        -- (* still the entry marked deleted: remove it *)
           apply out_gen; [exact HS | exact HB | now apply EffNone | | cbn; apply cas_read | cbn; discriminate
                          | intros _; rewrite Hpc; reflexivity | cbn; discriminate].
           unfold ClaimsQ. cbn. rewrite Eo. cbn.
           split; [intros e1 He1 Hd1; rewrite He in He1; exact (HC e1 He1 Hd1)|]. intros _. split.
           ++ intros x Hx. cbn. apply aget_adel_neq. congruence.
           ++ split; [cbn; apply aget_adel_eq | exists e0; auto].
        -- (* the database has been created again: leave it *)
           apply out_gen_r; [exact HS | exact HB | now apply EffNone | exact I | cbn; apply cas_read | cbn; discriminate
                            | cbn; discriminate |].
           intros _. right. exists d, e0. rewrite Eo. auto.
      * done_step H. split; [reflexivity|].
        apply out_gen; [exact HS | exact HB | now apply EffNone | exact I | cbn; apply cas_read | cbn; discriminate
                       | cbn; discriminate |].
        intros _. rewrite Eo. cbn. split; [exact He|].
        pose proof (HLk d) as HL. rewrite He in HL. destruct (aget (s_cfg (w_st w)) d); [destruct HL | reflexivity].
  - (* PFinWrite *)
    destruct HC as (HF & Hcurc).
    assert (busy active_pc (op_db (n_op nd)) nd = true) as Hact.
    { apply busy_intro; auto. rewrite Hpc. reflexivity. }
    destruct (write_reg (w_st w) (n_reg nd)) as [[st1 sn1]|] eqn:Wr.
    + destruct (write_reg_ok _ _ _ _ HS Wr) as (Hcur & Est & Esn). destruct (Hcurc Hcur) as (Hmod & Hsh).
      unfold FinClaim in HF.
      destruct (n_op nd) as [d dig cols|d dig cols|d|] eqn:Eo; try (exfalso; exact HF); cbn [op_db] in *.
      * (* update *)
        pose proof (steady_live _ _ HS (acked_update_steady _ _ _ _ HF)) as (e1 & c1 & cf1 & S1 & S2 & S3 & S4 & S5).
        assert (nobusy active_pc d w i) as Hna.
        { apply (alone_of_active _ _ nd); auto; [unfold weakfin; rewrite Eo; apply andb_false_r | congruence]. }
        destruct HF as (e & c & g & He & Hcu & Hcf). destruct Hsh as (e0 & He0 & Hn0).
        rewrite He in He0. injection He0 as <-. rewrite He in S1. injection S1 as <-.
        destruct (reg_write_out _ _ _ _ HS HB Hcur Est Hmod) as (HS1 & HB' & Er1 & Ec1 & Ecf1 & Ek1 & Hrne).
        { rewrite Hn0, Hcf. cbn. split; [rewrite Hcf in S2; injection S2 as _ <-; exact S4|]. left. exact Hcu. }
        done_step H. split; [reflexivity|].
        apply out_gen; auto; try (cbn; discriminate).
        -- apply (EffReg _ _ _ _ d). split; [exact Hcur|]. split; [exact Est|]. split; [exact Hmod|].
           split; [now apply nobusy_active_inflight|]. split; [right; eauto|].
           split; [right; now apply nobusy_active_final|]. split; [right; now apply nobusy_active_final | now rewrite Eo].
        -- exact I.
        -- cbn. rewrite Esn, Ec1. cbn. lia.
        -- intros _. rewrite Eo. cbn. exists (RE (e_cur e) None), c, g. rewrite Er1, Ecf1. auto.
      * (* delete *)
        destruct Hsh as (Hnn & e0 & He0 & Hd0). pose proof (HF e0 He0 Hd0) as Hcf0.
        destruct (reg_write_out _ _ _ _ HS HB Hcur Est Hmod) as (HS1 & HB' & Er1 & Ec1 & Ecf1 & Ek1 & Hrne).
        { rewrite Hnn, Hcf0. exact I. }
        done_step H. split; [reflexivity|].
        apply out_gen; auto; try (cbn; discriminate).
        -- apply (EffReg _ _ _ _ d). split; [exact Hcur|]. split; [exact Est|]. split; [exact Hmod|].
           split; [apply quiet_of_absent; auto; right; exists e0; split; [exact He0 | now apply is_deleted_true]|].
           split; [now left|]. split; [left; intros (e1 & c1 & cf1 & _ & S2 & _); congruence|].
           split; [left; intros e' He'; congruence | now rewrite Eo].
        -- exact I.
        -- cbn. rewrite Esn, Ec1. cbn. lia.
        -- intros _. rewrite Eo. cbn. rewrite Er1, Ecf1. auto.
    + destruct (5 <=? fa)%nat; done_step H; (split; [reflexivity|]).
      * apply out_same; [exact HS | exact HB | idtac | idtac | idtac]; [exact I | exact Hcas | split; cbn; congruence].
      * apply out_gen; [exact HS | exact HB | now apply EffNone | exact HF | exact Hcas | cbn; discriminate
                       | intros _; rewrite Hpc; reflexivity | cbn; discriminate].
  - (* PLoadGet *)
    done_step H. split; [reflexivity|]. apply out_same; [exact HS | exact HB | idtac | idtac | idtac]; [|apply cas_read | split; cbn; congruence].
    unfold ClaimsQ. cbn. intros _. reflexivity.
  - (* PLoadLegacy *)
    done_step H. split; [reflexivity|]. apply out_same; [exact HS | exact HB | idtac | idtac | idtac];
      [|now rewrite reg_load_iter | apply calm_load_iter].
    apply claimsQ_load_iter; [apply live_keys_ok | exact HC].
  - (* PDone *)
    unfold is_done in Hnd. rewrite Hpc in Hnd. discriminate.
Qed.
