(* C15: statements that the faithful model of the UNCHANGED code violates (witnesses by computation; each
   schedule was also replayed on the real bootstrapContext by the harness, corpus/... scenarios). *)
From SG Require Import Base.Prelude C15.ConfigProto C15.ProtoOwn C15.ProtoSeq C15.C15_Corr.
Open Scope N_scope.

(* 1. registry_ownership without side condition.  A creator of db1 {1} stalls after its registry write; a loader
   gives up waiting and removes the entry; db2 is created on {1} and an update of db2 to {2} crashes after its
   registry write (db2: current {2}, previous {1}); a second create of db1 {3} reads "no config", the stalled
   creator now inserts its config {1}, the second creator writes the registry and fails on the config insert;
   a loader rolls db1 back to the orphan config {1} (rollbackDatabaseConfig tests current versions only), the
   next loader rolls db2 back to its previous version {1}: two databases own collection 1. *)
Definition own_ops : list opk :=
  [OInsert 1 1 [1]; OLoad; OInsert 2 2 [1]; OUpdate 2 3 [2]; OInsert 1 4 [3]; OLoad; OLoad; OLoad].
Definition own_evs : list event :=
  map ev [6;2;6;34;38;34;34;34;34;74;66;74;66;106;98;106;97;134;130;2;134;130;162;166;166;162;162;162;166;170;170;
          162;162;162;166;170;162;194;198;202;194;226;230;234;226].

Theorem ownership_refuted :
  exists ops evs c R e1 e2,
    s_reg (w_st (run ops evs)) = Some (c, R) /\ aget R 1 = Some e1 /\ aget R 2 = Some e2 /\
    In 1 (rv_colls (e_cur e1)) /\ In 1 (rv_colls (e_cur e2)) /\
    is_invalid (rv_ver (e_cur e1)) = false /\ is_invalid (rv_ver (e_cur e2)) = false /\
    w_bad (run ops evs) = true.
Proof.
  exists own_ops, own_evs. vm_compute. do 4 eexists. repeat split; try reflexivity; left; reflexivity.
Qed.

Theorem ownership_full_statement_refuted :
  ~ (forall ops evs R c, s_reg (w_st (run ops evs)) = Some (c, R) -> Own R).
Proof.
  intros H.
  destruct ownership_refuted as (ops & evs & c & R & e1 & e2 & HR & H1 & H2 & I1 & I2 & V1 & V2 & _).
  exact (Own_current R 1 2 e1 e2 1 (H ops evs R c HR) ltac:(discriminate) H1 H2 V1 V2 I1 I2).
Qed.

(* 2. acked_not_lost / version_linkage for racing nodes with adversarial timers: the stalled creator is
   acknowledged although a loader rolled its registry entry back; the config document is an orphan. *)
Definition orphan_ops : list opk := [OInsert 1 1 [1]; OLoad].
Definition orphan_evs : list event :=
  [Step 0 true 0; Step 0 true 0; Step 0 true 0;                          (* registry written *)
   Step 1 true 0; Step 1 true 1; Step 1 true 0; Step 1 true 0; Step 1 true 0; Step 1 true 0;  (* load: gives up, rolls back, reloads *)
   Step 0 true 0].                                                        (* the creator writes its config *)

Theorem acked_create_lost :
  map result_of (w_nodes (run orphan_ops orphan_evs)) = [Some ROk; Some (RLoaded [])] /\
  aget (regc (w_st (run orphan_ops orphan_evs))) 1 = None /\
  exists c, aget (s_cfg (w_st (run orphan_ops orphan_evs))) 1 = Some (c, CF (1,1) [1]).
Proof. vm_compute. repeat split. eexists. reflexivity. Qed.

Theorem linkage_refuted_racing :
  ~ linked (aget (regc (w_st (run orphan_ops orphan_evs))) 1) (aget (s_cfg (w_st (run orphan_ops orphan_evs))) 1).
Proof. vm_compute. exact (fun H => H). Qed.

(* 3. progress_after_crash: an update of db1 {1,2} -> {1,3} crashes after its config write (before the finalize);
   GetDatabaseConfigs succeeds (versions match) and repairs nothing; creating db3 on the released collection 2
   is refused with 409 although no live database owns it -- until db1 is updated again. *)
Definition stale_ops : list opk := [OInsert 1 1 [1;2]; OUpdate 1 6 [1;3]; OLoad; OInsert 3 7 [2]; OLoad].
Definition stale_evs : list event := map ev [6;2;6;2;38;34;38;34;34;33;66;70;66;110;98;130;134;130].

Theorem progress_blocked_by_stale_previous :
  sequential stale_evs /\
  map result_of (w_nodes (run stale_ops stale_evs)) =
    [Some ROk; None; Some (RLoaded [(1, CF (2,6) [1;3])]); Some (RErr EConflict); Some (RLoaded [(1, CF (2,6) [1;3])])] /\
  regc (w_st (run stale_ops stale_evs)) = [(1, RE (RV (2,6) [1;3]) (Some (RV (1,1) [1;2])))].
Proof. vm_compute. repeat split; auto. Qed.

(* ... and a delete that crashes after removing the config leaves the "0-0" marker, whose empty scopes count as
   _default._default in getCollectionConflicts: no database can take the default collection *)
Definition stale_del_ops : list opk := [OInsert 1 1 [1;2]; ODelete 1; OLoad; OInsert 3 7 [0]; OLoad].
Definition stale_del_evs : list event := map ev [6;2;6;2;38;34;38;34;33;66;66;110;98;130;130].

Theorem progress_blocked_by_stale_deleted :
  sequential stale_del_evs /\
  map result_of (w_nodes (run stale_del_ops stale_del_evs)) =
    [Some ROk; None; Some (RLoaded []); Some (RErr EConflict); Some (RLoaded [])] /\
  regc (w_st (run stale_del_ops stale_del_evs)) = [(1, RE (RV (0,0) []) (Some (RV (1,1) [])))].
Proof. vm_compute. repeat split; auto. Qed.

(* the full progress statement of C15_Properties.v (a create refused with 409 must be justified by a live database
   that owns one of its collections) is false for the unchanged code *)
Theorem progress_full_statement_refuted :
  ~ (forall ops evs d dig cols i nd,
       sequential evs ->
       nth_error (w_nodes (run ops evs)) i = Some nd -> n_op nd = OInsert d dig cols ->
       result_of nd = Some (RErr EConflict) ->
       exists d' e, d' <> d /\ aget (regc (w_st (run ops evs))) d' = Some e /\ live (rv_ver (e_cur e)) /\
                    inter (eff cols) (rv_colls (e_cur e)) = true).
Proof.
  intros H.
  destruct progress_blocked_by_stale_previous as (Hseq & _ & Hreg).
  assert (exists nd, nth_error (w_nodes (run stale_ops stale_evs)) 3 = Some nd /\
                     n_op nd = OInsert 3 7 [2] /\ result_of nd = Some (RErr EConflict)) as (nd & Hn & Ho & Hr).
  { vm_compute. eexists. repeat split. }
  destruct (H stale_ops stale_evs 3 7 [2] 3%nat nd Hseq Hn Ho Hr) as (d' & e & Hne & He & _ & Hi).
  rewrite Hreg in He. cbn [aget] in He. destruct (1 =? d'); [|discriminate]. injection He as <-.
  vm_compute in Hi. discriminate.
Qed.
