(* C15: statements that the faithful model of the UNCHANGED code violates (witnesses by computation; each
   schedule was also replayed on the real bootstrapContext by the harness, corpus/... scenarios). *)
From SG Require Import Base.Prelude C15.ConfigProto C15.ProtoOwn C15.ProtoSeq C15.ProtoRace C15.ProtoRaceMain
  C15.ConfigApply C15.ApplyProofs C15.C15_Corr.
Open Scope N_scope.

(* 1. registry_ownership without side condition.  A creator of db1 {1} stalls after its registry write; a loader
   gives up waiting and removes the entry; db2 is created on {1} and an update of db2 to {2} crashes after its
   registry write (db2: current {2}, previous {1}); a second create of db1 {3} reads "no config", the stalled
   creator now inserts its config {1}, the second creator writes the registry and fails on the config insert;
   a loader rolls db1 back to the orphan config {1} (rollbackDatabaseConfig tests current versions only), the
   next loader rolls db2 back to its previous version {1}: two databases own collection 1. *)
Definition own_ops : list opk :=
  [OInsert 1 1 [1]; OLoad; OInsert 2 2 [1]; OUpdate 2 3 [2]; OInsert 1 4 [3]; OLoad; OLoad; OLoad].
Definition own_evs : list event :=
  map ev [6;2;6;34;38;34;34;34;34;74;66;74;66;106;98;106;97;134;130;2;134;130;162;166;166;162;162;162;166;170;170;
          162;162;162;166;170;162;194;198;202;194;226;230;234;226].

Theorem ownership_refuted :
  exists ops evs c R e1 e2,
    s_reg (w_st (run ops evs)) = Some (c, R) /\ aget R 1 = Some e1 /\ aget R 2 = Some e2 /\
    In 1 (rv_colls (e_cur e1)) /\ In 1 (rv_colls (e_cur e2)) /\
    is_invalid (rv_ver (e_cur e1)) = false /\ is_invalid (rv_ver (e_cur e2)) = false /\
    w_bad (run ops evs) = true.
Proof.
  exists own_ops, own_evs. vm_compute. do 4 eexists. repeat split; try reflexivity; left; reflexivity.
Qed.

Theorem ownership_full_statement_refuted :
  ~ (forall ops evs R c, s_reg (w_st (run ops evs)) = Some (c, R) -> Own R).
Proof.
  intros H.
  destruct ownership_refuted as (ops & evs & c & R & e1 & e2 & HR & H1 & H2 & I1 & I2 & V1 & V2 & _).
  exact (Own_current R 1 2 e1 e2 1 (H ops evs R c HR) ltac:(discriminate) H1 H2 V1 V2 I1 I2).
Qed.

(* 2. acked_not_lost / version_linkage for racing nodes with adversarial timers: the stalled creator is
   acknowledged although a loader rolled its registry entry back; the config document is an orphan. *)
Definition orphan_ops : list opk := [OInsert 1 1 [1]; OLoad].
Definition orphan_evs : list event :=
  [Step 0 true 0; Step 0 true 0; Step 0 true 0;                          (* registry written *)
   Step 1 true 0; Step 1 true 1; Step 1 true 0; Step 1 true 0; Step 1 true 0; Step 1 true 0;  (* load: gives up, rolls back, reloads *)
   Step 0 true 0].                                                        (* the creator writes its config *)

Theorem acked_create_lost :
  map result_of (w_nodes (run orphan_ops orphan_evs)) = [Some ROk; Some (RLoaded [])] /\
  aget (regc (w_st (run orphan_ops orphan_evs))) 1 = None /\
  exists c, aget (s_cfg (w_st (run orphan_ops orphan_evs))) 1 = Some (c, CF (1,1) [1]).
Proof. vm_compute. repeat split. eexists. reflexivity. Qed.

Theorem linkage_refuted_racing :
  ~ linked (aget (regc (w_st (run orphan_ops orphan_evs))) 1) (aget (s_cfg (w_st (run orphan_ops orphan_evs))) 1).
Proof. vm_compute. exact (fun H => H). Qed.

(* 3. progress_after_crash: an update of db1 {1,2} -> {1,3} crashes after its config write (before the finalize);
   GetDatabaseConfigs succeeds (versions match) and repairs nothing; creating db3 on the released collection 2
   is refused with 409 although no live database owns it -- until db1 is updated again. *)
Definition stale_ops : list opk := [OInsert 1 1 [1;2]; OUpdate 1 6 [1;3]; OLoad; OInsert 3 7 [2]; OLoad].
Definition stale_evs : list event := map ev [6;2;6;2;38;34;38;34;34;33;66;70;66;110;98;130;134;130].

Theorem progress_blocked_by_stale_previous :
  sequential stale_evs /\
  map result_of (w_nodes (run stale_ops stale_evs)) =
    [Some ROk; None; Some (RLoaded [(1, CF (2,6) [1;3])]); Some (RErr EConflict); Some (RLoaded [(1, CF (2,6) [1;3])])] /\
  regc (w_st (run stale_ops stale_evs)) = [(1, RE (RV (2,6) [1;3]) (Some (RV (1,1) [1;2])))].
Proof. vm_compute. repeat split; auto. Qed.

(* ... and a delete that crashes after removing the config leaves the "0-0" marker, whose empty scopes count as
   _default._default in getCollectionConflicts: no database can take the default collection *)
Definition stale_del_ops : list opk := [OInsert 1 1 [1;2]; ODelete 1; OLoad; OInsert 3 7 [0]; OLoad].
Definition stale_del_evs : list event := map ev [6;2;6;2;38;34;38;34;33;66;66;110;98;130;130].

Theorem progress_blocked_by_stale_deleted :
  sequential stale_del_evs /\
  map result_of (w_nodes (run stale_del_ops stale_del_evs)) =
    [Some ROk; None; Some (RLoaded []); Some (RErr EConflict); Some (RLoaded [])] /\
  regc (w_st (run stale_del_ops stale_del_evs)) = [(1, RE (RV (0,0) []) (Some (RV (1,1) [])))].
Proof. vm_compute. repeat split; auto. Qed.

(* the full progress statement of C15_Properties.v (a create refused with 409 must be justified by a live database
   that owns one of its collections) is false for the unchanged code *)
Theorem progress_full_statement_refuted :
  ~ (forall ops evs d dig cols i nd,
       sequential evs ->
       nth_error (w_nodes (run ops evs)) i = Some nd -> n_op nd = OInsert d dig cols ->
       result_of nd = Some (RErr EConflict) ->
       exists d' e, d' <> d /\ aget (regc (w_st (run ops evs))) d' = Some e /\ live (rv_ver (e_cur e)) /\
                    inter (eff cols) (rv_colls (e_cur e)) = true).
Proof.
  intros H.
  destruct progress_blocked_by_stale_previous as (Hseq & _ & Hreg).
  assert (exists nd, nth_error (w_nodes (run stale_ops stale_evs)) 3 = Some nd /\
                     n_op nd = OInsert 3 7 [2] /\ result_of nd = Some (RErr EConflict)) as (nd & Hn & Ho & Hr).
  { vm_compute. eexists. repeat split. }
  destruct (H stale_ops stale_evs 3 7 [2] 3%nat nd Hseq Hn Ho Hr) as (d' & e & Hne & He & _ & Hi).
  rewrite Hreg in He. cbn [aget] in He. destruct (1 =? d'); [|discriminate]. injection He as <-.
  vm_compute in Hi. discriminate.
Qed.

(* ================= the schedule conditions of the racing theorems are necessary ================= *)
(* Each witness (4a, 4b, 4c', 4d) violates exactly ONE of the four conditions (the other three hold along the whole
   schedule) and loses an acknowledged change or ends in a store that is not linked.  4a, 4c' and 4d need a node that
   is stalled while other nodes complete whole operations; 4b does NOT: it is a race of the unchanged code between
   nodes that all run at full speed.  4c is the race that the repair cd27b43 of DeleteConfig's finalize removed. *)

(* 4a. no_giveup_while_alive: the stalled creator of section 2 *)
Theorem racing_needs_no_giveup_while_alive :
  no_giveup_while_alive orphan_ops orphan_evs = false /\ no_stale_giveup orphan_ops orphan_evs = true /\
  no_overlap_with_finalize orphan_ops orphan_evs = true /\ prompt_rollback orphan_ops orphan_evs = true /\
  ~ linked (aget (regc (w_st (run orphan_ops orphan_evs))) 1) (aget (s_cfg (w_st (run orphan_ops orphan_evs))) 1).
Proof. repeat split; try (vm_compute; reflexivity). exact linkage_refuted_racing. Qed.

(* ... and registry_ownership: the eight-node witness of section 1 violates only no_giveup_while_alive *)
Theorem ownership_racing_needs_no_giveup_while_alive :
  no_giveup_while_alive own_ops own_evs = false /\ no_stale_giveup own_ops own_evs = true /\
  no_overlap_with_finalize own_ops own_evs = true /\ prompt_rollback own_ops own_evs = true /\
  w_bad (run own_ops own_evs) = true.
Proof. vm_compute. repeat split. Qed.

(* 4b. no_stale_giveup -- GENUINE DEFECT, no stalled node.  Node 0 (create db1) reads the registry: no db1.  Node 1
   creates db1 completely and is acknowledged.  Node 0's waitForConfigDelete(version "") now finds a config
   document, waits for its own retry timeout (nobody is in flight: the timer may fire) and DELETES the document of
   the acknowledged create; its registry write fails on CAS, the retry removes node 1's registry entry as an
   "interrupted create" and node 0 creates its own db1: both creates are acknowledged, node 1's is lost. *)
Definition stale_wait_ops : list opk := [OInsert 1 1 [1]; OInsert 1 2 [1]].
Definition stale_wait_evs : list event :=
  [Step 0 true 0; Step 1 true 0; Step 1 true 0; Step 1 true 0; Step 1 true 0; Step 0 true 0; Step 0 true 0].
Definition stale_wait_rest : list event := repeat (Step 0 true 0) 9.

Theorem acked_lost_to_stale_wait :
  no_giveup_while_alive stale_wait_ops stale_wait_evs = true /\ no_stale_giveup stale_wait_ops stale_wait_evs = false /\
  no_overlap_with_finalize stale_wait_ops stale_wait_evs = true /\ prompt_rollback stale_wait_ops stale_wait_evs = true /\
  (* node 1 is acknowledged, its config document is gone *)
  nth_error (map result_of (w_nodes (run stale_wait_ops stale_wait_evs))) 1 = Some (Some ROk) /\
  aget (s_cfg (w_st (run stale_wait_ops stale_wait_evs))) 1 = None /\
  (* and when node 0 has finished, both are acknowledged and the store holds node 0's version only *)
  map result_of (w_nodes (run stale_wait_ops (stale_wait_evs ++ stale_wait_rest))) = [Some ROk; Some ROk] /\
  exists c, aget (s_cfg (w_st (run stale_wait_ops (stale_wait_evs ++ stale_wait_rest)))) 1 = Some (c, CF (1,1) [1]).
Proof. repeat split; try (vm_compute; reflexivity). vm_compute. eexists. reflexivity. Qed.

Theorem acked_not_lost_full_statement_refuted_without_stall :
  ~ (forall ops evs i nd d dig cols,
       no_giveup_while_alive ops evs = true ->
       nth_error (w_nodes (run ops evs)) i = Some nd -> n_op nd = OInsert d dig cols -> result_of nd = Some ROk ->
       (forall o, In o ops -> op_db o = d -> exists dig' cols', o = OInsert d dig' cols') ->
       aget (s_cfg (w_st (run ops evs))) d <> None).
Proof.
  intros H.
  assert (exists nd, nth_error (w_nodes (run stale_wait_ops stale_wait_evs)) 1 = Some nd /\
                     n_op nd = OInsert 1 2 [1] /\ result_of nd = Some ROk) as (nd & Hn & Ho & Hr).
  { vm_compute. eexists. repeat split. }
  apply (H stale_wait_ops stale_wait_evs 1%nat nd 1 2 [1]); auto; try (vm_compute; reflexivity).
  intros o [<-|[<-|[]]] _; eauto.
Qed.

(* 4c. DeleteConfig's finalize BEFORE the repair cd27b43 -- GENUINE DEFECT (fixed), no stalled node, no timer at all
   (every step runs with the timer NOT expired).  Node 1 deletes db1: registry marked, config document deleted.
   Node 2 creates db1: it finds the marker and no config document, so the database "does not exist"; it writes its
   registry entry and its config document and is acknowledged.  Node 1's finalize re-reads the registry and -- in the
   old code, run_old -- removes whatever entry db1 has (removeDatabase was unconditional): the acknowledged create is
   left as an orphan config document without a registry entry; no node loads it, and the next access to db1 deletes
   it.  The schedule satisfies ALL FOUR conditions of the racing theorems (a create may overlap with the finalize of
   a delete): with the repaired finalize (run) the theorems apply and the create survives. *)
Definition del_fin_ops : list opk := [OInsert 1 1 [1]; ODelete 1; OInsert 1 2 [2]; OLoad].
Definition del_fin_evs : list event :=
  let P := fun i => Step i false 0 in
  [P 0; P 0; P 0; P 0; P 1; P 1; P 1; P 1; P 2; P 2; P 2; P 2; P 1; P 1; P 3; P 3; P 3; P 3]%nat.

Theorem acked_lost_to_delete_finalize :
  race_hyps del_fin_ops del_fin_evs = true /\
  (* the code before the repair *)
  map result_of (w_nodes (run_old del_fin_ops del_fin_evs)) = [Some ROk; Some ROk; Some ROk; Some (RLoaded [])] /\
  aget (regc (w_st (run_old del_fin_ops del_fin_evs))) 1 = None /\
  (exists c, aget (s_cfg (w_st (run_old del_fin_ops del_fin_evs))) 1 = Some (c, CF (1,2) [2])) /\
  ~ linked (aget (regc (w_st (run_old del_fin_ops del_fin_evs))) 1) (aget (s_cfg (w_st (run_old del_fin_ops del_fin_evs))) 1) /\
  (* the repaired code *)
  map result_of (w_nodes (run del_fin_ops del_fin_evs)) =
    [Some ROk; Some ROk; Some ROk; Some (RLoaded [(1, CF (1,2) [2])])] /\
  steady (w_st (run del_fin_ops del_fin_evs)) 1.
Proof.
  repeat split; try (vm_compute; reflexivity).
  - vm_compute. eexists. reflexivity.
  - vm_compute. exact (fun H => H).
  - vm_compute. do 3 eexists. repeat split.
Qed.

(* 4c'. no_overlap_with_finalize is still needed (a timing assumption now): an updater that is stalled between its
   config write and its finalize while the database is deleted, created again with the SAME version string, and an
   update of the new database is in flight: the stalled finalize finds a previous version with the version it
   recorded and removes it -- the in-flight update loses its roll-back information and the entry no longer links to
   the config document.  (No timer: every step runs with the timer not expired.) *)
Definition fin_aba_ops : list opk := [OInsert 1 1 [1]; OUpdate 1 2 [1]; ODelete 1; OInsert 1 1 [1]; OUpdate 1 3 [1]].
Definition fin_aba_evs : list event :=
  let P := fun i => Step i false 0 in
  [P 0; P 0; P 0; P 0; P 1; P 1; P 1; P 1; P 2; P 2; P 2; P 2; P 2; P 2; P 3; P 3; P 3; P 3; P 4; P 4; P 4; P 1; P 1]%nat.

Theorem racing_needs_no_overlap_with_finalize :
  no_giveup_while_alive fin_aba_ops fin_aba_evs = true /\ no_stale_giveup fin_aba_ops fin_aba_evs = true /\
  no_overlap_with_finalize fin_aba_ops fin_aba_evs = false /\ prompt_rollback fin_aba_ops fin_aba_evs = true /\
  ~ linked (aget (regc (w_st (run fin_aba_ops fin_aba_evs))) 1) (aget (s_cfg (w_st (run fin_aba_ops fin_aba_evs))) 1).
Proof.
  repeat split; try (vm_compute; reflexivity). vm_compute.
  intros [_ [H|[[H _]|[H _]]]]; discriminate.
Qed.

(* 4d. prompt_rollback: a loader that decided to roll back a crashed update, but writes its fence only after the
   database has been rolled back by another loader, deleted (the deleter crashes), and a creator has given up
   waiting for that delete: the late touch makes the creator's re-attempted delete fail (error swallowed), the
   creator writes its registry entry over the marker while the old config document is still there. *)
Definition late_fence_ops : list opk := [OInsert 1 1 [1]; OUpdate 1 2 [1]; OLoad; OLoad; ODelete 1; OInsert 1 3 [1]].
Definition late_fence_evs : list event :=
  let S := fun i => Step i true 0 in let L := fun i => Step i true 1 in
  [S 0; S 0; S 0; S 0; S 1; S 1; S 1; Crash 1; L 3; L 3; L 2; L 2; L 2; L 2; L 3; L 2; L 2; L 2; L 2; L 2;
   S 4; S 4; S 4; Crash 4; S 5; S 5; L 3; S 5; S 5; S 5; S 5]%nat.

Theorem racing_needs_prompt_rollback :
  no_giveup_while_alive late_fence_ops late_fence_evs = true /\ no_stale_giveup late_fence_ops late_fence_evs = true /\
  no_overlap_with_finalize late_fence_ops late_fence_evs = true /\ prompt_rollback late_fence_ops late_fence_evs = false /\
  ~ linked (aget (regc (w_st (run late_fence_ops late_fence_evs))) 1) (aget (s_cfg (w_st (run late_fence_ops late_fence_evs))) 1).
Proof.
  repeat split; try (vm_compute; reflexivity). vm_compute.
  intros [_ [H|[[H _]|[H _]]]]; discriminate.
Qed.

(* the unconditional racing statements are false, also when the two conditions that concern give-ups and roll-backs
   are assumed *)
Theorem version_linkage_racing_needs_all_hyps :
  ~ (forall ops evs d, no_giveup_while_alive ops evs = true -> prompt_rollback ops evs = true ->
       linked (aget (regc (w_st (run ops evs))) d) (aget (s_cfg (w_st (run ops evs))) d)).
Proof.
  intros H. destruct racing_needs_no_overlap_with_finalize as (A & _ & _ & D & N). exact (N (H _ _ 1 A D)).
Qed.

(* ================= node-local apply: convergence needs [compatible] ================= *)
(* db1 runs on {2}, db2 on {3}; in the registry they have swapped (through intermediate versions this node never
   polled): each config is refused because the other database still holds the collection on this node -- in both
   orders, in every later round: the node keeps serving both databases on the collections of the other one, while
   a fresh node loads the swapped set at once. *)
Definition swap_running : running := [(1, AC 10 (2,1) [2]); (2, AC 11 (2,2) [3])].
Definition swap_loaded : list (N * acfg) := [(1, AC 20 (4,1) [3]); (2, AC 21 (4,2) [2])].

Theorem apply_swap_never_converges :
  fetch_and_load swap_running swap_loaded [] = swap_running /\
  fetch_and_load swap_running (rev swap_loaded) [] = swap_running /\
  fetch_and_load [] swap_loaded [] = swap_loaded /\
  (forall k, Nat.iter k (fun r => fetch_and_load r swap_loaded []) swap_running = swap_running).
Proof.
  assert (fetch_and_load swap_running swap_loaded [] = swap_running) as E by (vm_compute; reflexivity).
  repeat split; try (vm_compute; reflexivity). induction k as [|k IH]; [reflexivity|].
  change (fetch_and_load (Nat.iter k (fun r => fetch_and_load r swap_loaded []) swap_running) swap_loaded [] = swap_running).
  rewrite IH. exact E.
Qed.

Lemma swap_sorted : sorted_keys swap_running.
Proof. unfold swap_running. cbn. split; [intros k' v' [[= <- <-]|[]]; lia|]. split; [intros k' v' []|exact I]. Qed.
Lemma swap_get d c : aget swap_running d = Some c -> (d = 1 /\ c = AC 10 (2,1) [2]) \/ (d = 2 /\ c = AC 11 (2,2) [3]).
Proof.
  unfold swap_running. cbn [aget]. destruct (1 =? d) eqn:E1.
  - apply N.eqb_eq in E1. intros E. injection E as E. left. split; congruence.
  - destruct (2 =? d) eqn:E2; [|discriminate]. apply N.eqb_eq in E2. intros E. injection E as E. right. split; congruence.
Qed.
Lemma swap_noshare : NoShare swap_running.
Proof.
  intros d1 d2 c1 c2 Hne H1 H2. apply swap_get in H1, H2.
  destruct H1 as [[-> ->]|[-> ->]], H2 as [[-> ->]|[-> ->]]; try contradiction; cbn; intros x [<-|[]] [E|[]]; discriminate.
Qed.
Lemma swap_in x : In x swap_loaded -> x = (1, AC 20 (4,1) [3]) \/ x = (2, AC 21 (4,2) [2]).
Proof. intros [<-|[<-|[]]]; auto. Qed.

Theorem apply_converges_full_statement_refuted :
  ~ (forall r l, sorted_keys r -> NoShare r -> OwnL l -> FunL l -> coherent r l ->
       (forall x, In x l -> a_cas (snd x) <> 0 /\ is_invalid (a_ver (snd x)) = false) ->
       exists k, forall d, aget (Nat.iter k (fun r0 => fetch_and_load r0 l []) r) d = cfg_of l d).
Proof.
  intros H. destruct (H swap_running swap_loaded) as (k & Hk).
  - exact swap_sorted.
  - exact swap_noshare.
  - intros d1 c1 d2 c2 H1 H2 Hne. apply swap_in in H1, H2.
    destruct H1 as [[= -> ->]|[= -> ->]], H2 as [[= -> ->]|[= -> ->]]; try contradiction; cbn; intros x [<-|[]] [E|[]]; discriminate.
  - intros d c1 c2 H1 H2. apply swap_in in H1, H2.
    destruct H1 as [[= -> ->]|[= -> ->]], H2 as [E|E]; inversion E; reflexivity.
  - intros d c old H1 Hg Hle. apply swap_in in H1. apply swap_get in Hg.
    destruct H1 as [[= -> ->]|[= -> ->]], Hg as [[E Ec]|[E Ec]]; subst old; cbn in Hle; lia.
  - intros x Hx. apply swap_in in Hx. destruct Hx as [-> | ->]; cbn; split; (discriminate || reflexivity).
  - destruct apply_swap_never_converges as (_ & _ & _ & Hs). specialize (Hk 1). rewrite Hs in Hk. vm_compute in Hk. discriminate.
Qed.
