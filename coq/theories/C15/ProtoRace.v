(* C15: racing nodes -- ALL interleavings of any number of nodes, crash points, timer expiries and iteration
   orders, under four explicit conditions on the schedule (each a decidable test of the event about to run in
   the world it runs in):
     hyp_a  no_giveup_while_alive: a waiting read gives up (the adversarial timer fires) only when no node that
            has persisted its registry change for that database and not yet written / deleted the config
            document is alive;
     hyp_b  no_stale_giveup: ... and only when the waiter's view of that database's registry entry is the stored one;
     hyp_c  no_overlap_with_finalize: an update or a delete of a database is not started (step-2 registry write)
            while another alive node is in the finalize phase (after its config write / delete) of a change of
            that database, and a create is not started while an alive UPDATE of it finalizes (a create may overlap
            with the finalize of a delete);
     hyp_d  prompt_rollback: the fence (touch) of a roll-back is written only while the repairer's view of that
            database's registry entry is still the stored one.
   hyp_a, hyp_c and hyp_d are timing assumptions (only a node stalled between two consecutive storage calls while
   other nodes complete whole operations violates them); hyp_b excludes a race of the unchanged code that needs no
   stalled node (C15_Refuted.v).  Before the repair cd27b43 of DeleteConfig's finalize, hyp_c also had to exclude a
   create overlapping with the finalize of a delete -- a race without any stalled node (C15_Refuted.v, run_old).
   Under them: the store invariant of the crash-sequential runs (version_linkage), no roll-back ever adopts a
   config document (registry_ownership without side condition), an acknowledged change is what the store shows,
   and a steady database is changed only by a node that targets it. *)
From SG Require Import Base.Prelude C15.ConfigProto C15.ProtoOwn C15.ProtoLocal C15.ProtoSeq.
Open Scope N_scope.

(* ---------- the schedule conditions ---------- *)
Definition inflight_pc (p : pc) : bool := match p with PInsCfg | PUpdCfg _ _ _ | PDelCfg _ => true | _ => false end.
Definition final_pc (p : pc) : bool := match p with PFinGet _ _ | PFinWrite _ _ => true | _ => false end.
Definition active_pc (p : pc) : bool := inflight_pc p || final_pc p.
Definition busy (f : pc -> bool) (d : N) (nd : node) : bool :=
  negb (n_crashed nd) && (op_db (n_op nd) =? d) && f (n_pc nd).

Definition rv_eqb (a b : rver) : bool := ver_eqb (rv_ver a) (rv_ver b) && list_eqb N.eqb (rv_colls a) (rv_colls b).
Definition re_eqb (a b : rentry) : bool := rv_eqb (e_cur a) (e_cur b) && option_eqb rv_eqb (e_prev a) (e_prev b).
Definition view_ok (w : world) (nd : node) (dd : N) : bool :=
  option_eqb re_eqb (aget (sn_reg (n_reg nd)) dd) (aget (regc (w_st w)) dd).

(* does this read end a waiting loop by giving up? *)
Definition gives_up (st : store) (nd : node) (expired : bool) : option N :=
  match n_pc nd with
  | PWfcdRead _ v =>
      match aget (s_cfg st) (op_db (n_op nd)) with
      | Some (_, cf) =>
          if match v with Some pv => negb (ver_eqb pv (c_ver cf)) | None => false end then None
          else if expired then Some (op_db (n_op nd)) else None
      | None => None
      end
  | PGdcRead _ dd want =>
      match aget (s_cfg st) dd with
      | None => if expired then Some dd else None
      | Some (_, cf) =>
          if is_invalid want || ver_eqb (c_ver cf) want || (gen want <? gen (c_ver cf)) then None
          else if expired then Some dd else None
      end
  | _ => None
  end.

Definition hyp_a (w : world) (nd : node) (expired : bool) : bool :=
  match gives_up (w_st w) nd expired with
  | Some dd => negb (existsb (busy inflight_pc dd) (w_nodes w))
  | None => true
  end.
Definition hyp_b (w : world) (nd : node) (expired : bool) : bool :=
  match gives_up (w_st w) nd expired with
  | Some dd => view_ok w nd dd
  | None => true
  end.
Definition is_insert (o : opk) : bool := match o with OInsert _ _ _ => true | _ => false end.
Definition is_delete (o : opk) : bool := match o with ODelete _ => true | _ => false end.
(* an alive node in the finalize phase of a change of d blocks the start of operation o on d -- except that a
   create may start while a DELETE finalizes (the finalize only removes the entry it marked: repair cd27b43) *)
Definition blocks (o : opk) (d : N) (X : node) : bool :=
  busy final_pc d X && negb (is_insert o && is_delete (n_op X)).
Definition hyp_c (w : world) (nd : node) : bool :=
  match n_pc nd with
  | PMainWrite _ => negb (existsb (blocks (n_op nd) (op_db (n_op nd))) (w_nodes w))
  | _ => true
  end.
Definition hyp_d (w : world) (nd : node) : bool :=
  match n_pc nd with
  | PRbTouch _ dd _ _ => view_ok w nd dd
  | _ => true
  end.

Definition ev_hyp (f : world -> node -> bool -> bool) (w : world) (e : event) : bool :=
  match e with
  | Crash _ => true
  | Step i ex _ =>
      match nth_error (w_nodes w) i with
      | Some nd => n_crashed nd || is_done nd || f w nd ex
      | None => true
      end
  end.
Definition ev_ok (w : world) (e : event) : bool :=
  ev_hyp hyp_a w e && ev_hyp hyp_b w e && ev_hyp (fun w nd _ => hyp_c w nd) w e && ev_hyp (fun w nd _ => hyp_d w nd) w e.

Fixpoint all_along (f : world -> event -> bool) (w : world) (evs : list event) : bool :=
  match evs with
  | [] => true
  | e :: r => f w e && all_along f (step w e) r
  end.

Definition no_giveup_while_alive (ops : list opk) (evs : list event) : bool :=
  all_along (ev_hyp hyp_a) (init_world init_store ops) evs.
Definition no_stale_giveup (ops : list opk) (evs : list event) : bool :=
  all_along (ev_hyp hyp_b) (init_world init_store ops) evs.
Definition no_overlap_with_finalize (ops : list opk) (evs : list event) : bool :=
  all_along (ev_hyp (fun w nd _ => hyp_c w nd)) (init_world init_store ops) evs.
Definition prompt_rollback (ops : list opk) (evs : list event) : bool :=
  all_along (ev_hyp (fun w nd _ => hyp_d w nd)) (init_world init_store ops) evs.
Definition race_hyps (ops : list opk) (evs : list event) : bool :=
  no_giveup_while_alive ops evs && no_stale_giveup ops evs && no_overlap_with_finalize ops evs && prompt_rollback ops evs.

Lemma all_along_and f g w evs :
  all_along (fun w e => f w e && g w e) w evs = all_along f w evs && all_along g w evs.
Proof.
  revert w. induction evs as [|e r IH]; intros w; cbn; [reflexivity|]. rewrite IH.
  destruct (f w e), (g w e), (all_along f (step w e) r), (all_along g (step w e) r); reflexivity.
Qed.

Lemma race_hyps_all ops evs : race_hyps ops evs = all_along ev_ok (init_world init_store ops) evs.
Proof.
  unfold race_hyps, no_giveup_while_alive, no_stale_giveup, no_overlap_with_finalize, prompt_rollback, ev_ok.
  now rewrite !all_along_and.
Qed.

(* ---------- reflection of the tests ---------- *)
Lemma rv_eqb_eq a b : rv_eqb a b = true -> a = b.
Proof.
  unfold rv_eqb. destruct a as [va ca], b as [vb cb]. cbn. intros H. apply andb_true_iff in H as [H1 H2].
  apply ver_eqb_eq in H1. apply (list_eqb_eq N.eqb N.eqb_eq) in H2. now subst.
Qed.
Lemma re_eqb_eq a b : re_eqb a b = true -> a = b.
Proof.
  unfold re_eqb. destruct a as [ca pa], b as [cb pb]. cbn. intros H. apply andb_true_iff in H as [H1 H2].
  apply rv_eqb_eq in H1. subst cb. destruct pa as [x|], pb as [y|]; cbn in H2; try discriminate; [|reflexivity].
  apply rv_eqb_eq in H2. now subst.
Qed.
Lemma view_ok_eq w nd dd : view_ok w nd dd = true -> aget (sn_reg (n_reg nd)) dd = aget (regc (w_st w)) dd.
Proof.
  unfold view_ok. destruct (aget (sn_reg (n_reg nd)) dd) as [x|], (aget (regc (w_st w)) dd) as [y|]; cbn; try discriminate; [|reflexivity].
  intros H. apply re_eqb_eq in H. now subst.
Qed.

Lemma existsb_false_nth {A} (f : A -> bool) l j x : existsb f l = false -> nth_error l j = Some x -> f x = false.
Proof. intros H Hn. eapply existsb_false_in; [exact H | eapply nth_error_In; eauto]. Qed.
