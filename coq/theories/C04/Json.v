(* C04 model, part 6: the JSON bytes of a revTreeList.
   [print_rtl] = what encoding/json (base.JSONMarshal in the CE build) writes for the struct: fields in
   declaration order, omitempty, map keys sorted, strings escaped the way encoding/json escapes them
   (HTML-safe), base.Set as a sorted array.  [parse_rtl] reads the objects made of the seven non-legacy
   keys in any order with optional white space; anything else (legacy keys, null, bytes >= 0x80 in
   strings, nesting it does not know) is answered None = "outside the modelled subset".
   Strings are restricted to bytes < 0x80 (UTF-8 validation of the library is not modelled). *)
From SG Require Import Base.Prelude.
From SG Require Export C04.CodecX.
Open Scope N_scope.

Inductive tok := TLB | TRB | TLK | TRK | TColon | TComma | TStr (s : list N) | TInt (z : Z).

(* ---------- printing ---------- *)
Definition hexc (d : N) : N := if d <? 10 then 48 + d else 87 + d.        (* 0-9a-f *)
Definition esc_byte (c : N) : list N :=
  if c =? 34 then [92; 34]
  else if c =? 92 then [92; 92]
  else if c =? 8 then [92; 98]
  else if c =? 12 then [92; 102]
  else if c =? 10 then [92; 110]
  else if c =? 13 then [92; 114]
  else if c =? 9 then [92; 116]
  else if (c <? 32) || (c =? 60) || (c =? 62) || (c =? 38) then [92; 117; 48; 48; hexc (c / 16); hexc (c mod 16)]
  else [c].
Definition print_str (s : list N) : list N := 34 :: flat_map esc_byte s ++ [34].
Definition print_tok (t : tok) : list N :=
  match t with
  | TLB => [123] | TRB => [125] | TLK => [91] | TRK => [93] | TColon => [58] | TComma => [44]
  | TStr s => print_str s
  | TInt z => decZ z
  end.
Definition print_toks (ts : list tok) : list N := flat_map print_tok ts.

(* token sequences of the value shapes *)
Definition toks_list {A} (f : A -> list tok) (l : list A) : list tok :=
  TLK :: match l with
         | [] => [TRK]
         | a :: l' => f a ++ flat_map (fun a => TComma :: f a) l' ++ [TRK]
         end.
Definition toks_strlist : list (list N) -> list tok := toks_list (fun s => [TStr s]).
Definition toks_intlist : list Z -> list tok := toks_list (fun z => [TInt z]).
Definition toks_map {V} (f : V -> list tok) (m : list (list N * V)) : list tok :=
  TLB :: match m with
         | [] => [TRB]
         | (k, v) :: m' => TStr k :: TColon :: f v ++ flat_map (fun kv => TComma :: TStr (fst kv) :: TColon :: f (snd kv)) m' ++ [TRB]
         end.

(* encoding/json sorts map keys as strings *)
Fixpoint insert_key {V} (kv : list N * V) (m : list (list N * V)) : list (list N * V) :=
  match m with
  | [] => [kv]
  | kv' :: m' => match cmp_dig (fst kv) (fst kv') with
                 | Gt => kv' :: insert_key kv m'
                 | _ => kv :: m
                 end
  end.
Fixpoint sort_keys {V} (m : list (list N * V)) : list (list N * V) :=
  match m with [] => [] | kv :: m' => insert_key kv (sort_keys m') end.

Definition rev_text (i : revid) : list N := dec (gen i) ++ 45 :: dig i.

Definition k_revs : list N := [114;101;118;115].
Definition k_parents : list N := [112;97;114;101;110;116;115].
Definition k_deleted : list N := [100;101;108;101;116;101;100].
Definition k_bodymap : list N := [98;111;100;121;109;97;112].
Definition k_keymap : list N := [98;111;100;121;75;101;121;77;97;112].
Definition k_chanmap : list N := [99;104;97;110;110;101;108;115;77;97;112].
Definition k_att : list N := [104;97;115;65;116;116;97;99;104;109;101;110;116;115].

(* a member: key, tokens of the value *)
Definition member := (list N * list tok)%type.
Definition member_toks (m : member) : list tok := TStr (fst m) :: TColon :: snd m.
Definition join_members (ms : list member) : list tok :=
  match ms with
  | [] => []
  | m :: ms' => member_toks m ++ flat_map (fun m => TComma :: member_toks m) ms'
  end.

Definition opt_member {A} (k : list N) (f : list A -> list tok) (l : list A) : list member :=
  match l with [] => [] | _ => [(k, f l)] end.

(* the members encoding/json writes for a revTreeList without legacy fields *)
Definition members_of (e : rtl) : list member :=
  [(k_revs, toks_strlist (map rev_text (l_revs e))); (k_parents, toks_intlist (l_parents e))]
  ++ opt_member k_deleted toks_intlist (l_deleted e)
  ++ opt_member k_bodymap (fun m => toks_map (fun b => [TStr b]) (sort_keys m)) (match l_bodymap e with Some m => m | None => [] end)
  ++ opt_member k_keymap (fun m => toks_map (fun b => [TStr b]) (sort_keys m)) (l_keymap e)
  ++ opt_member k_chanmap (fun m => toks_map toks_strlist (sort_keys m)) (l_chanmap e)
  ++ opt_member k_att toks_intlist (l_att e).

Definition toks_rtl (e : rtl) : list tok := TLB :: join_members (members_of e) ++ [TRB].
Definition print_rtl (e : rtl) : list N := print_toks (toks_rtl e).

(* ---------- lexing: one byte at a time ---------- *)
Inductive lmode :=
| LDef
| LStr (acc : list N)                    (* inside a string; bytes so far, reversed *)
| LEsc (acc : list N)                    (* after a backslash *)
| LU (acc : list N) (k : nat) (v : N)    (* after \u, k hex digits read *)
| LNum (neg : bool) (ds : list N).       (* inside a number; digit bytes so far, reversed *)

Definition lstate := option (list tok * lmode).   (* tokens reversed; None = rejected *)

Definition hexv (c : N) : option N :=
  if (48 <=? c) && (c <=? 57) then Some (c - 48)
  else if (97 <=? c) && (c <=? 102) then Some (c - 87)
  else if (65 <=? c) && (c <=? 70) then Some (c - 55)
  else None.

(* a JSON number restricted to integers: optional minus, then 0 or a digit string without leading 0 *)
Definition flush_num (neg : bool) (ds : list N) : option tok :=
  match List.rev ds with
  | [] => None
  | d :: r => if (d =? 48) && negb (is_nil r) then None
              else match digits_val 0 (d :: r) with
                   | Some v => Some (TInt (if neg then (- Z.of_N v)%Z else Z.of_N v))
                   | None => None
                   end
  end.

Definition def_step (ts : list tok) (c : N) : lstate :=
  if (c =? 32) || (c =? 9) || (c =? 10) || (c =? 13) then Some (ts, LDef)
  else if c =? 123 then Some (TLB :: ts, LDef)
  else if c =? 125 then Some (TRB :: ts, LDef)
  else if c =? 91 then Some (TLK :: ts, LDef)
  else if c =? 93 then Some (TRK :: ts, LDef)
  else if c =? 58 then Some (TColon :: ts, LDef)
  else if c =? 44 then Some (TComma :: ts, LDef)
  else if c =? 34 then Some (ts, LStr [])
  else if c =? 45 then Some (ts, LNum true [])
  else if is_digit c then Some (ts, LNum false [c])
  else None.

Definition lex_step (st : lstate) (c : N) : lstate :=
  match st with
  | None => None
  | Some (ts, LDef) => def_step ts c
  | Some (ts, LStr acc) =>
      if c =? 34 then Some (TStr (List.rev acc) :: ts, LDef)
      else if c =? 92 then Some (ts, LEsc acc)
      else if (c <? 32) || (128 <=? c) then None
      else Some (ts, LStr (c :: acc))
  | Some (ts, LEsc acc) =>
      if c =? 34 then Some (ts, LStr (34 :: acc))
      else if c =? 92 then Some (ts, LStr (92 :: acc))
      else if c =? 47 then Some (ts, LStr (47 :: acc))
      else if c =? 98 then Some (ts, LStr (8 :: acc))
      else if c =? 102 then Some (ts, LStr (12 :: acc))
      else if c =? 110 then Some (ts, LStr (10 :: acc))
      else if c =? 114 then Some (ts, LStr (13 :: acc))
      else if c =? 116 then Some (ts, LStr (9 :: acc))
      else if c =? 117 then Some (ts, LU acc 0 0)
      else None
  | Some (ts, LU acc k v) =>
      match hexv c with
      | None => None
      | Some h => let v' := v * 16 + h in
                  match k with
                  | 3%nat => if v' <? 128 then Some (ts, LStr (v' :: acc)) else None
                  | _ => Some (ts, LU acc (S k) v')
                  end
      end
  | Some (ts, LNum neg ds) =>
      if is_digit c then Some (ts, LNum neg (c :: ds))
      else match flush_num neg ds with
           | Some t => def_step (t :: ts) c
           | None => None
           end
  end.

Definition lex_run (st : lstate) (s : list N) : lstate := fold_left lex_step s st.

Definition lex_finish (st : lstate) : option (list tok) :=
  match st with
  | Some (ts, LDef) => Some (List.rev ts)
  | Some (ts, LNum neg ds) => match flush_num neg ds with Some t => Some (List.rev (t :: ts)) | None => None end
  | _ => None
  end.

Definition lex (s : list N) : option (list tok) := lex_finish (lex_run (Some ([], LDef)) s).

(* ---------- parsing the token sequence ---------- *)
Fixpoint p_strs_tail (ts : list tok) : option (list (list N) * list tok) :=
  match ts with
  | TRK :: r => Some ([], r)
  | TComma :: TStr s :: r => match p_strs_tail r with Some (l, r') => Some (s :: l, r') | None => None end
  | _ => None
  end.
Definition p_strlist (ts : list tok) : option (list (list N) * list tok) :=
  match ts with
  | TLK :: TRK :: r => Some ([], r)
  | TLK :: TStr s :: r => match p_strs_tail r with Some (l, r') => Some (s :: l, r') | None => None end
  | _ => None
  end.

Fixpoint p_ints_tail (ts : list tok) : option (list Z * list tok) :=
  match ts with
  | TRK :: r => Some ([], r)
  | TComma :: TInt z :: r => match p_ints_tail r with Some (l, r') => Some (z :: l, r') | None => None end
  | _ => None
  end.
Definition p_intlist (ts : list tok) : option (list Z * list tok) :=
  match ts with
  | TLK :: TRK :: r => Some ([], r)
  | TLK :: TInt z :: r => match p_ints_tail r with Some (l, r') => Some (z :: l, r') | None => None end
  | _ => None
  end.

Fixpoint p_smap_tail (ts : list tok) : option (list (list N * list N) * list tok) :=
  match ts with
  | TRB :: r => Some ([], r)
  | TComma :: TStr k :: TColon :: TStr v :: r =>
      match p_smap_tail r with Some (m, r') => Some ((k, v) :: m, r') | None => None end
  | _ => None
  end.
Definition p_strmap (ts : list tok) : option (list (list N * list N) * list tok) :=
  match ts with
  | TLB :: TRB :: r => Some ([], r)
  | TLB :: TStr k :: TColon :: TStr v :: r =>
      match p_smap_tail r with Some (m, r') => Some ((k, v) :: m, r') | None => None end
  | _ => None
  end.

Fixpoint p_lmap_tail (fuel : nat) (ts : list tok) : option (list (list N * list (list N)) * list tok) :=
  match fuel with
  | O => None
  | S f =>
      match ts with
      | TRB :: r => Some ([], r)
      | TComma :: TStr k :: TColon :: r =>
          match p_strlist r with
          | Some (v, r') => match p_lmap_tail f r' with Some (m, r'') => Some ((k, v) :: m, r'') | None => None end
          | None => None
          end
      | _ => None
      end
  end.
Definition p_listmap (ts : list tok) : option (list (list N * list (list N)) * list tok) :=
  match ts with
  | TLB :: TRB :: r => Some ([], r)
  | TLB :: TStr k :: TColon :: r =>
      match p_strlist r with
      | Some (v, r') => match p_lmap_tail (S (length r')) r' with Some (m, r'') => Some ((k, v) :: m, r'') | None => None end
      | None => None
      end
  | _ => None
  end.

Record raw := RAW {
  r_revs : option (list (list N)); r_parents : option (list Z); r_deleted : option (list Z);
  r_bodymap : option (list (list N * list N)); r_keymap : option (list (list N * list N));
  r_chanmap : option (list (list N * list (list N))); r_att : option (list Z) }.
Definition raw0 : raw := RAW None None None None None None None.

Definition set_val (k : list N) (a : raw) (ts : list tok) : option (raw * list tok) :=
  if bytes_eqb k k_revs then
    match p_strlist ts with Some (v, r) => Some (RAW (Some v) (r_parents a) (r_deleted a) (r_bodymap a) (r_keymap a) (r_chanmap a) (r_att a), r) | None => None end
  else if bytes_eqb k k_parents then
    match p_intlist ts with Some (v, r) => Some (RAW (r_revs a) (Some v) (r_deleted a) (r_bodymap a) (r_keymap a) (r_chanmap a) (r_att a), r) | None => None end
  else if bytes_eqb k k_deleted then
    match p_intlist ts with Some (v, r) => Some (RAW (r_revs a) (r_parents a) (Some v) (r_bodymap a) (r_keymap a) (r_chanmap a) (r_att a), r) | None => None end
  else if bytes_eqb k k_bodymap then
    match p_strmap ts with Some (v, r) => Some (RAW (r_revs a) (r_parents a) (r_deleted a) (Some v) (r_keymap a) (r_chanmap a) (r_att a), r) | None => None end
  else if bytes_eqb k k_keymap then
    match p_strmap ts with Some (v, r) => Some (RAW (r_revs a) (r_parents a) (r_deleted a) (r_bodymap a) (Some v) (r_chanmap a) (r_att a), r) | None => None end
  else if bytes_eqb k k_chanmap then
    match p_listmap ts with Some (v, r) => Some (RAW (r_revs a) (r_parents a) (r_deleted a) (r_bodymap a) (r_keymap a) (Some v) (r_att a), r) | None => None end
  else if bytes_eqb k k_att then
    match p_intlist ts with Some (v, r) => Some (RAW (r_revs a) (r_parents a) (r_deleted a) (r_bodymap a) (r_keymap a) (r_chanmap a) (Some v), r) | None => None end
  else None.

Definition mem_key (k : list N) (seen : list (list N)) : bool := existsb (bytes_eqb k) seen.

(* positioned at a key; a key may occur once *)
Fixpoint p_members (fuel : nat) (seen : list (list N)) (a : raw) (ts : list tok) : option raw :=
  match fuel with
  | O => None
  | S f =>
      match ts with
      | TStr k :: TColon :: r =>
          if mem_key k seen then None
          else match set_val k a r with
               | Some (a', TComma :: r') => p_members f (k :: seen) a' r'
               | Some (a', [TRB]) => Some a'
               | _ => None
               end
      | _ => None
      end
  end.

Definition p_obj (ts : list tok) : option raw :=
  match ts with
  | [TLB; TRB] => Some raw0
  | TLB :: r => p_members (length r) [] raw0 r
  | _ => None
  end.

(* the text of a revision id must be a canonical "<gen>-<digest>" for the model to represent it *)
Fixpoint revs_of_text (l : list (list N)) : option (list revid) :=
  match l with
  | [] => Some []
  | s :: l' => match parse_revid s, revs_of_text l' with
               | Some (g, d), Some r => Some (I g d :: r)
               | _, _ => None
               end
  end.

Definition oget {A} (o : option (list A)) : list A := match o with Some l => l | None => [] end.

Definition raw_to_rtl (a : raw) : option rtl :=
  match revs_of_text (oget (r_revs a)) with
  | Some revs => Some (RTL revs (oget (r_parents a)) (oget (r_deleted a)) None (r_bodymap a) (oget (r_keymap a))
                           [] (oget (r_chanmap a)) (oget (r_att a)))
  | None => None
  end.

Definition parse_rtl (s : list N) : option rtl :=
  match lex s with
  | Some ts => match p_obj ts with Some a => raw_to_rtl a | None => None end
  | None => None
  end.

(* MarshalJSON / UnmarshalJSON at byte level *)
Definition encode_json (t : xtree) : list N := print_rtl (xencode t).
Definition decode_json (s : list N) : option outcome :=
  match parse_rtl s with Some e => Some (xdecode e) | None => None end.
