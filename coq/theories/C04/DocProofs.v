(* C04 proofs, part 8: the document-level write path.  Invariants of every reachable document
   (well-formed tree; current revision = maximal leaf; flags agree with the leaves), at most one live
   leaf in conflict-free mode, and order independence of pushes at the level of [run]. *)
From Coq Require Import Permutation.
From SG Require Import Base.Prelude C04.RevId C04.RevTree C04.DocModel C04.OrderProofs C04.WinnerProofs
  C04.WfProofs C04.FlagsProofs C04.PushProofs C04.PruneProofs.
Open Scope N_scope.

(* ---------- leaves after an accepted insertion ---------- *)
Lemma is_parent_cons : forall r t i, is_parent (r :: t) i = opt_id_eqb (rpar r) (Some i) || is_parent t i.
Proof. reflexivity. Qed.

Lemma not_contained_not_parent : forall t i, wf t -> contains t i = false -> is_parent t i = false.
Proof.
  intros t i (_ & _ & P) C. apply is_parent_false. intros r I E. destruct (P r i I E). congruence.
Qed.

Lemma leaves_add : forall t r, wf t -> wf (r :: t) ->
  leaves (r :: t) = r :: filter (fun x => negb (opt_id_eqb (rpar r) (Some (rid x)))) (leaves t).
Proof.
  intros t r W W'. unfold leaves at 1. cbn [filter]. rewrite is_parent_cons.
  assert (C : contains t (rid r) = false).
  { destruct W' as (ND & _). inversion ND; subst. apply contains_false. assumption. }
  rewrite (not_contained_not_parent t (rid r) W C).
  assert (E : opt_id_eqb (rpar r) (Some (rid r)) = false).
  { destruct (opt_id_eqb (rpar r) (Some (rid r))) eqn:E; auto. apply opt_id_eqb_eq in E.
    destruct W' as (_ & _ & P). destruct (P r (rid r) (or_introl eq_refl) E). lia. }
  rewrite E. cbn [orb negb]. f_equal.
  unfold leaves. rewrite filter_filter. apply filter_ext. intros x. rewrite is_parent_cons.
  destruct (opt_id_eqb (rpar r) (Some (rid x))), (is_parent t (rid x)); reflexivity.
Qed.

Definition live_count (t : tree) : nat := length (filter live (leaves t)).

(* [base] names a live leaf of t *)
Definition live_leaf (t : tree) (base : option revid) : bool :=
  existsb (fun l => opt_id_eqb base (Some (rid l)) && live l) (leaves t).

Lemma filter_out_count : forall (L : list rev) base, NoDup (map rid L) ->
  (length (filter live (filter (fun x => negb (opt_id_eqb base (Some (rid x)))) L))
   + (if existsb (fun l => opt_id_eqb base (Some (rid l)) && live l) L then 1 else 0))%nat
  = length (filter live L).
Proof.
  induction L as [|x L IH]; intros base ND; cbn [filter existsb map length]; auto.
  inversion ND as [|? ? NI ND']; subst.
  destruct (opt_id_eqb base (Some (rid x))) eqn:E; cbn [negb andb orb].
  - apply opt_id_eqb_eq in E. subst base.
    (* no other element has this id *)
    assert (Fi : filter (fun y => negb (opt_id_eqb (Some (rid x)) (Some (rid y)))) L = L).
    { clear - NI. induction L as [|y L IH]; cbn [filter]; auto.
      destruct (opt_id_eqb (Some (rid x)) (Some (rid y))) eqn:E.
      - apply opt_id_eqb_eq in E. inversion E. exfalso. apply NI. left. auto.
      - cbn [negb]. f_equal. apply IH. intros I. apply NI. right. exact I. }
    assert (Ex : existsb (fun l => opt_id_eqb (Some (rid x)) (Some (rid l)) && live l) L = false).
    { clear - NI. induction L as [|y L IH]; cbn [existsb]; auto.
      destruct (opt_id_eqb (Some (rid x)) (Some (rid y))) eqn:E.
      - apply opt_id_eqb_eq in E. inversion E. exfalso. apply NI. left. auto.
      - cbn [andb orb]. apply IH. intros I. apply NI. right. exact I. }
    rewrite Fi, Ex. destruct (live x); cbn [length orb]; lia.
  - cbn [filter]. specialize (IH base ND'). destruct (live x); cbn [length]; lia.
Qed.

Lemma leaves_nodup_ids : forall t, NoDup (map rid t) -> NoDup (map rid (leaves t)).
Proof. intros t H. unfold leaves. apply nodup_map_filter. exact H. Qed.

Lemma live_count_add : forall t r, wf t -> wf (r :: t) ->
  (live_count (r :: t) + (if live_leaf t (rpar r) then 1 else 0))%nat
  = (live_count t + (if rdel r then 0 else 1))%nat.
Proof.
  intros t r W W'. unfold live_count, live_leaf. rewrite (leaves_add t r W W'). cbn [filter].
  pose proof (filter_out_count (leaves t) (rpar r) (leaves_nodup_ids t (proj1 W))) as F.
  unfold live at 1. destruct (rdel r); cbn [negb length]; lia.
Qed.

(* the newest record is a live leaf when it was inserted as non-deleted *)
Lemma head_live_leaf : forall t i p, wf t -> wf (R i p false :: t) -> live_leaf (R i p false :: t) (Some i) = true.
Proof.
  intros t i p W W'. unfold live_leaf. rewrite (leaves_add t _ W W'). cbn [existsb rid].
  replace (opt_id_eqb (Some i) (Some i)) with true by (symmetry; apply opt_id_eqb_eq; reflexivity).
  reflexivity.
Qed.

(* ---------- add_hist ---------- *)
Lemma add_hist_wf : forall nw t base del t', wf t -> (forall h, In h nw -> 1 <= gen h) ->
  add_hist t nw base del = Some t' ->
  wf t' /\ length t' = (length nw + length t)%nat /\
  (nw <> [] ->
   (live_count t' + (if live_leaf t base then 1 else 0))%nat = (live_count t + (if del then 0 else 1))%nat /\
   exists h p t0, t' = R h p del :: t0 /\ wf t0).
Proof.
  induction nw as [|h older IH]; intros t base del t' W V H; cbn [add_hist] in H.
  - inversion H; subst. split; auto. split; auto. intros N. congruence.
  - destruct (add_hist t older base false) as [t1|] eqn:E1; [|congruence].
    destruct (IH t base false t1 W (fun x I => V x (or_intror I)) E1) as (W1 & L1 & C1).
    match type of H with add _ ?r = _ => destruct (add_wf t1 r t' W1 (V h (or_introl eq_refl)) H) as [-> W'] end.
    split; auto. split; [cbn [length]; lia|]. intros _. split.
    + pose proof (live_count_add t1 _ W1 W') as LA. cbn [rpar rdel] in LA.
      destruct older as [|o rest].
      * cbn [add_hist] in E1. inversion E1; subst t1. exact LA.
      * destruct C1 as [C1 (ho & po & t0 & -> & W0)]; [congruence|].
        cbn [add_hist] in E1. destruct (add_hist t rest base false) as [tx|]; [|congruence].
        unfold add in E1. cbn [rid rpar rdel] in E1.
        assert (ho = o /\ True).
        { destruct (contains tx o); [congruence|].
          destruct (match rest with [] => base | o0 :: _ => Some o0 end) as [q|].
          - destruct (negb (contains tx q)); [congruence|]. destruct (gen o <=? gen q); [congruence|]. inversion E1; auto.
          - inversion E1; auto. }
        destruct H0 as [-> _].
        rewrite (head_live_leaf t0 o po W0 W1) in LA. lia.
    + exists h, (match older with [] => base | o :: _ => Some o end), t1. auto.
Qed.

Lemma split_known_incl : forall t hist nw parent, split_known t hist = (nw, parent) ->
  (forall x, In x nw -> In x hist) /\ (length nw <= length hist)%nat.
Proof.
  intros t hist nw parent H. destruct (split_known_spec _ _ _ _ H) as (known & -> & _).
  split; [intros x I; apply in_or_app; auto | rewrite app_length; lia].
Qed.

(* ---------- reachable documents (revs_limit not reached) ---------- *)
Definition op_ids (o : op) : list revid :=
  match o with
  | OPush h _ _ => h
  | OPut p _ n => n :: match p with Some x => [x] | None => [] end
  end.
Definition valid_op (o : op) : Prop := forall i, In i (op_ids o) -> 1 <= gen i.
Definition op_size (o : op) : nat := match o with OPush h _ _ => length h | OPut _ _ _ => 1 end.
Fixpoint ops_size (ops : list op) : nat := match ops with [] => 0 | o :: r => op_size o + ops_size r end.

Definition dinv (d : doc) : Prop := wf (dtree d) /\ d = update_flags (dtree d).

Lemma finish_small : forall fx limit t, N.of_nat (length t) <= limit -> finish fx limit t = update_flags t.
Proof. intros fx limit t H. unfold finish. rewrite (prune_small limit t H). cbn [fst snd]. rewrite andb_false_r. reflexivity. Qed.

Lemma dinv_empty : dinv empty_doc.
Proof. split; [apply wf_nil | reflexivity]. Qed.

Lemma tree_nil_dec : forall t : tree, {t = []} + {t <> []}.
Proof. intros [|x t]; [left; reflexivity | right; congruence]. Qed.

Lemma dcur_none_empty : forall d, dinv d -> dcur d = None -> dtree d = [].
Proof.
  intros d [W E] N. destruct (tree_nil_dec (dtree d)) as [T | NE]; auto. exfalso.
  destruct (winning_is_max_leaf (dtree d) W NE) as (w & _ & A).
  rewrite E in N. cbn [dcur update_flags] in N. congruence.
Qed.

Lemma ddel_no_live : forall d, dinv d -> ddel d = true -> live_count (dtree d) = 0%nat.
Proof.
  intros d [W E] Dl. unfold live_count.
  destruct (tree_nil_dec (dtree d)) as [T | NE]; [rewrite T; reflexivity|].
  destruct (flags_agree (dtree d) W NE) as (w & _ & _ & _ & A & _). cbn zeta in A.
  rewrite <- E in A. apply proj1 in A. specialize (A Dl).
  clear - A. induction (leaves (dtree d)) as [|l L IH]; cbn [filter length]; auto.
  unfold live at 1. rewrite (A l (or_introl eq_refl)). cbn [negb]. apply IH. intros y I. apply A. right. exact I.
Qed.

Lemma cur_live_leaf : forall d, dinv d -> dtree d <> [] ->
  live_leaf (dtree d) (dcur d) = true \/ live_count (dtree d) = 0%nat.
Proof.
  intros d [W E] NE.
  destruct (flags_agree (dtree d) W NE) as (w & [Iw _] & A & B & _). cbn zeta in A, B. rewrite <- E in A, B.
  destruct (rdel w) eqn:Dw.
  - right. apply ddel_no_live; [split; auto | exact B].
  - left. unfold live_leaf. apply existsb_exists. exists w. split; auto.
    rewrite A. unfold live. rewrite Dw.
    replace (opt_id_eqb (Some (rid w)) (Some (rid w))) with true by (symmetry; apply opt_id_eqb_eq; reflexivity).
    reflexivity.
Qed.

(* what an accepted write may do to the number of live leaves in conflict-free mode *)
Lemma conflict_free_count : forall noC d parent deleted hist,
  dinv d -> illegal_conflict false noC d parent deleted hist = false ->
  (live_count (dtree d) <= 1)%nat ->
  (live_count (dtree d) + (if deleted then 0 else 1) <= 1 + (if live_leaf (dtree d) parent then 1 else 0))%nat.
Proof.
  intros noC d parent deleted hist I H L. unfold illegal_conflict in H. cbn [andb] in H.
  destruct (opt_id_eqb parent (dcur d) || is_none (dcur d)) eqn:A.
  - apply orb_true_iff in A. destruct A as [A | A].
    + apply opt_id_eqb_eq in A. subst parent.
      destruct (tree_nil_dec (dtree d)) as [T | NE].
      * rewrite T. cbn. destruct deleted; lia.
      * destruct (cur_live_leaf d I NE) as [K | K].
        -- rewrite K. destruct deleted; lia.
        -- rewrite K. destruct deleted; lia.
    + destruct (dcur d) eqn:C; [discriminate|]. rewrite (dcur_none_empty d I C). cbn. destruct deleted; lia.
  - destruct deleted; [lia|].
    destruct (ddel d) eqn:Dl; [|discriminate].
    rewrite (ddel_no_live d I Dl). lia.
Qed.

(* one step, revs_limit not reached *)
Lemma step_inv : forall fx allowC limit d o,
  dinv d -> valid_op o -> N.of_nat (length (dtree d) + op_size o) <= limit ->
  let d' := fst (step fx allowC limit d o) in
  dinv d' /\ (length (dtree d') <= length (dtree d) + op_size o)%nat /\
  (allowC = false -> (live_count (dtree d) <= 1)%nat -> (live_count (dtree d') <= 1)%nat).
Proof.
  intros fx allowC limit d o I V Lim. cbn zeta.
  assert (Same : dinv d /\ (length (dtree d) <= length (dtree d) + op_size o)%nat /\
                 (allowC = false -> (live_count (dtree d) <= 1)%nat -> (live_count (dtree d) <= 1)%nat))
    by (split; auto; split; [lia | auto]).
  destruct o as [hist deleted noC | parent deleted newid]; cbn [step].
  - (* push *)
    unfold push_step. destruct hist as [|h0 hist0]; [exact Same|].
    set (hist := h0 :: hist0) in *.
    destruct (split_known (dtree d) hist) as [nw base] eqn:Sk.
    destruct (split_known_incl _ _ _ _ Sk) as [Inc Len].
    destruct nw as [|n nw']; [exact Same|]. set (nw := n :: nw') in *.
    destruct (illegal_conflict allowC noC d base deleted hist) eqn:Ic; [exact Same|].
    destruct (add_hist (dtree d) nw base deleted) as [t'|] eqn:Ah; [|exact Same].
    cbn [fst].
    destruct (add_hist_wf nw (dtree d) base deleted t' (proj1 I) (fun x Ix => V x (Inc x Ix)) Ah) as (W' & L' & C').
    cbn [op_size] in *.
    rewrite finish_small by lia. cbn [dtree update_flags].
    split; [split; auto|]. split; [lia|].
    intros -> L1. destruct C' as [C' _]; [subst nw; congruence|].
    pose proof (conflict_free_count noC d base deleted hist I Ic L1). lia.
  - (* put *)
    unfold put_step.
    assert (DoAdd : forall par, (allowC = false -> (live_count (dtree d) <= 1)%nat ->
                     (live_count (dtree d) + (if deleted then 0 else 1) <= 1 + (if live_leaf (dtree d) par then 1 else 0))%nat) ->
       let r := (if negb (gen newid =? gen (wid par) + 1) then (d, RErr)
                 else match add (dtree d) (R newid par deleted) with
                      | Some t' => (finish fx limit t', ROk)
                      | None => (d, RErr)
                      end) in
       dinv (fst r) /\ (length (dtree (fst r)) <= length (dtree d) + 1)%nat /\
       (allowC = false -> (live_count (dtree d) <= 1)%nat -> (live_count (dtree (fst r)) <= 1)%nat)).
    { intros par Hc. cbn zeta. cbn [op_size] in Same.
      destruct (negb (gen newid =? gen (wid par) + 1)); [exact Same|].
      destruct (add (dtree d) (R newid par deleted)) as [t'|] eqn:Ad; [|exact Same].
      cbn [fst].
      destruct (add_wf (dtree d) (R newid par deleted) t' (proj1 I) (V newid (or_introl eq_refl)) Ad) as [-> W'].
      cbn [op_size] in Lim. rewrite finish_small by (cbn [length]; lia). cbn [dtree update_flags].
      split; [split; auto|]. split; [cbn [length]; lia|].
      intros A L1. pose proof (live_count_add (dtree d) _ (proj1 I) W') as LA. cbn [rpar rdel] in LA.
      specialize (Hc A L1). lia. }
    cbn [op_size].
    destruct parent as [p|].
    + destruct (negb (is_leaf (dtree d) p) || illegal_conflict allowC false d (Some p) deleted []) eqn:G; [exact Same|].
      apply DoAdd. intros -> L1. apply orb_false_iff in G. destruct G as [_ G].
      eapply conflict_free_count; eauto.
    + destruct (dcur d) as [c|] eqn:C.
      * destruct (del_of (dtree d) (Some c)) eqn:Dc; [|exact Same].
        apply DoAdd. intros _ _.
        assert (Dl : ddel d = true).
        { destruct I as [_ E]. rewrite E. cbn [ddel update_flags]. rewrite E in C. cbn [dcur update_flags] in C. rewrite C. exact Dc. }
        rewrite (ddel_no_live d I Dl). destruct deleted; lia.
      * apply DoAdd. intros _ _. rewrite (dcur_none_empty d I C). cbn. destruct deleted; lia.
Qed.

Lemma live_count_nil : live_count [] = 0%nat.
Proof. reflexivity. Qed.

(* all reachable documents, as long as revs_limit is not reached *)
Lemma run_inv : forall fx allowC limit ops d,
  dinv d -> Forall valid_op ops -> N.of_nat (length (dtree d) + ops_size ops) <= limit ->
  let d' := run fx allowC limit d ops in
  dinv d' /\ (allowC = false -> (live_count (dtree d) <= 1)%nat -> (live_count (dtree d') <= 1)%nat).
Proof.
  intros fx allowC limit. induction ops as [|o ops IH]; intros d I V Lim; cbn [run].
  - split; auto.
  - inversion V as [|? ? Vo Vr]; subst. cbn [ops_size] in Lim.
    destruct (step_inv fx allowC limit d o I Vo) as (I' & L' & C'); [lia|].
    destruct (IH (fst (step fx allowC limit d o)) I' Vr) as (I'' & C''); [lia|].
    split; auto.
Qed.

(* ---------- pushes from a source forest, at the level of [run] ---------- *)
Definition to_op (p : push) : op := OPush (fst p) (snd p) false.

Lemma sub_tree_length : forall S t, sub_tree S t -> (length t <= length S)%nat.
Proof.
  intros S t (ND & A & _). rewrite <- (map_length rid t), <- (map_length rid S).
  apply NoDup_incl_length; auto. intros i I. apply in_map_iff in I. destruct I as (r & <- & Ir).
  apply contains_in. apply A. exact Ir.
Qed.

Lemma push_step_tree : forall fx limit d hist del t',
  hist <> [] -> d = update_flags (dtree d) -> push_tree (dtree d) hist del = Some t' ->
  N.of_nat (length t') <= limit ->
  fst (push_step fx true limit d hist del false) = update_flags t'.
Proof.
  intros fx limit d hist del t' NE E H Lim. unfold push_step, push_tree in *.
  destruct hist as [|h hist]; [congruence|].
  destruct (split_known (dtree d) (h :: hist)) as [nw base].
  destruct nw as [|n nw].
  - cbn [add_hist] in H. inversion H; subst. exact E.
  - unfold illegal_conflict. cbn [andb negb]. rewrite H. cbn [fst]. apply finish_small. exact Lim.
Qed.

Lemma run_pushes : forall fx S limit, wf S -> N.of_nat (length S) <= limit ->
  forall ps t, sub_tree S t -> Forall (valid_push S) ps ->
  exists t', push_all t ps = Some t' /\ run fx true limit (update_flags t) (map to_op ps) = update_flags t'.
Proof.
  intros fx S limit W Lim. induction ps as [|[hist d] ps IH]; intros t ST V.
  - exists t. split; reflexivity.
  - inversion V as [|? ? V1 V2]; subst. unfold valid_push in V1; cbn [fst snd] in V1.
    destruct hist as [|h hist]; [destruct V1|]. destruct V1 as [L ->].
    destruct (push_ok S t h hist W ST L) as (t1 & E & ST1 & _).
    destruct (IH t1 ST1 V2) as (t' & E' & R').
    exists t'. cbn [push_all map run]. rewrite E. split; auto.
    unfold to_op at 1; cbn [fst snd step].
    rewrite (push_step_tree fx limit (update_flags t) (h :: hist) (delS S h) t1).
    + exact R'.
    + congruence.
    + reflexivity.
    + exact E.
    + pose proof (sub_tree_length S t1 ST1). lia.
Qed.

(* push_order_independent: two databases (conflicts allowed, revs_limit not reached) that receive the
   same revisions of a source forest, each with its ancestry, in different orders, store trees with the
   same ids and parent links, the same leaves (id, parent, tombstone bit), the same current revision and
   the same Deleted / Conflict / Branched flags *)
Theorem push_order_independent : forall fx S ps1 ps2 limit,
  wf S -> Forall (valid_push S) ps1 -> Permutation ps1 ps2 -> N.of_nat (length S) <= limit ->
  let d1 := run fx true limit empty_doc (map to_op ps1) in
  let d2 := run fx true limit empty_doc (map to_op ps2) in
  wf (dtree d1) /\ wf (dtree d2) /\
  (forall i, contains (dtree d1) i = contains (dtree d2) i) /\
  (forall r1 r2, In r1 (dtree d1) -> In r2 (dtree d2) -> rid r1 = rid r2 -> rpar r1 = rpar r2) /\
  Permutation (leaves (dtree d1)) (leaves (dtree d2)) /\
  dcur d1 = dcur d2 /\ ddel d1 = ddel d2 /\ dconf d1 = dconf d2 /\ dbranch d1 = dbranch d2.
Proof.
  intros fx S ps1 ps2 limit W V1 P Lim. cbn zeta.
  assert (V2 : Forall (valid_push S) ps2) by (eapply Permutation_Forall; eauto).
  destruct (push_order_independent_tree S ps1 ps2 W V1 P) as (t1 & t2 & E1 & E2 & W1 & W2 & A & B & C & F).
  destruct (run_pushes fx S limit W Lim ps1 [] (sub_tree_nil S) V1) as (t1' & E1' & R1).
  destruct (run_pushes fx S limit W Lim ps2 [] (sub_tree_nil S) V2) as (t2' & E2' & R2).
  assert (t1' = t1) by congruence. assert (t2' = t2) by congruence. subst.
  change (update_flags []) with empty_doc in R1, R2. rewrite R1, R2.
  rewrite F. cbn [dtree dcur ddel dconf dbranch]. change (dtree (update_flags t2)) with t2.
  split; [exact W1|]. split; [exact W2|]. split; [exact A|]. split; [exact B|]. split; [exact C|].
  repeat split; reflexivity.
Qed.

(* every reachable document, as long as revs_limit is not reached *)
Theorem reachable_noprune : forall fx allowC limit ops,
  Forall valid_op ops -> N.of_nat (ops_size ops) <= limit ->
  let d := run fx allowC limit empty_doc ops in
  wf (dtree d) /\
  (dtree d <> [] ->
   exists w, max_leaf (dtree d) w /\ dcur d = Some (rid w) /\ ddel d = rdel w /\
     (ddel d = true <-> forall l, In l (leaves (dtree d)) -> rdel l = true) /\
     (dconf d = true <-> (2 <= length (filter live (leaves (dtree d))))%nat) /\
     (dbranch d = true <-> (2 <= length (leaves (dtree d)))%nat)) /\
  (allowC = false -> (length (filter live (leaves (dtree d))) <= 1)%nat).
Proof.
  intros fx allowC limit ops V Lim. cbn zeta.
  destruct (run_inv fx allowC limit ops empty_doc dinv_empty V) as ([W E] & C); [cbn; lia|].
  split; auto. split.
  - intros NE. pose proof (flags_agree _ W NE) as F. cbn zeta in F. rewrite <- E in F. exact F.
  - intros A. apply C; auto.
Qed.
